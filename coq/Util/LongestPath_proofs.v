(* Direct correctness proof of the DFS model of util/graph/path.go (Util/Graph.v: lp_dfs, longest_path):
   the result is None exactly for cyclic graphs, otherwise a path with the maximum number of vertices. *)
From Coq Require Import List ZArith Bool Arith Lia.
From TM Require Import Lib.ListX Util.Graph Util.Graph_proofs Util.GraphSpec Util.GraphSpec_proofs Util.Tarjan_proofs.
Import ListNotations.
Local Open Scope Z_scope.

Definition lp_step (f : nat) (g : graph) : lpst * Z * Z -> nat -> lpst * Z * Z :=
  fun '(s, rh, rl) next =>
    let s' := lp_dfs f g next s in
    let height := nth next (lp_h s') 0 in
    if height >=? rh then (s', height + 1, Z.of_nat next) else (s', rh, rl).

Lemma lp_dfs_S f g i s : lp_dfs (S f) g i s =
  let h := nth i (lp_h s) 0 in
  if negb (h =? 0) then (if h =? -1 then mkLP (lp_h s) (lp_link s) true (lp_oof s) else s)
  else let '(s2, rh, rl) := fold_left (lp_step f g) (nth i g [])
                              (mkLP (upd (lp_h s) i (-1)) (lp_link s) (lp_cycle s) (lp_oof s), 1, -1) in
       mkLP (upd (lp_h s2) i rh) (upd (lp_link s2) i rl) (lp_cycle s2) (lp_oof s2).
Proof. reflexivity. Qed.

Definition hv (s : lpst) (v : nat) : Z := nth v (lp_h s) 0.
Definition lk (s : lpst) (v : nat) : Z := nth v (lp_link s) (-1).

Section LP.
Variable g : graph.
Hypothesis Hwf : graph_wf g = true.

(* a finished vertex: all successors finished with smaller heights, link points to a successor one lower *)
Definition black_ok (s : lpst) (v : nat) : Prop :=
  (forall w, edge g v w -> 0 < hv s w < hv s v) /\
  ((lk s v = -1 /\ hv s v = 1) \/ (exists w, lk s v = Z.of_nat w /\ edge g v w /\ hv s v = hv s w + 1)).

Lemma black_ok_transfer s s' v : black_ok s v ->
  (forall w, 0 < hv s w -> hv s' w = hv s w) -> 0 < hv s v -> lk s' v = lk s v -> black_ok s' v.
Proof.
  intros [H1 H2] Hh Hv Hl. assert (Hv' := Hh v Hv). split.
  - intros w He. specialize (H1 w He). rewrite Hv', (Hh w) by lia. exact H1.
  - rewrite Hl, Hv'. destruct H2 as [H2|[w [E1 [E2 E3]]]]; [now left|right].
    exists w. repeat split; try assumption. rewrite (Hh w); [exact E3|]. specialize (H1 w E2). lia.
Qed.

Record PInv (gr : list nat) (s : lpst) : Prop := {
  p_len_h : length (lp_h s) = length g;
  p_len_l : length (lp_link s) = length g;
  p_gray : forall v, hv s v = -1 <-> In v gr;
  p_nd : NoDup gr;
  p_lt : forall v, In v gr -> (v < length g)%nat;
  p_ge : forall v, -1 <= hv s v;
  p_chain : forall x, In x gr -> reach' g x (hd 0%nat gr);
  p_cyc : lp_cycle s = true -> exists v, greach g v v;
  p_good : lp_cycle s = false -> forall v, 0 < hv s v -> black_ok s v
}.

Record PPre (f : nat) (gr : list nat) (i : nat) (s : lpst) : Prop := {
  pre_inv : PInv gr s;
  pre_lt : (i < length g)%nat;
  pre_fuel : (length g + 2 <= f + length gr)%nat;
  pre_edge : match gr with [] => True | c :: _ => edge g c i end
}.

Record PPost (gr : list nat) (i : nat) (s s' : lpst) : Prop := {
  q_inv : PInv gr s';
  q_oof : lp_oof s' = lp_oof s;
  q_nonwhite : hv s' i <> 0;
  q_frame : forall v, 0 < hv s v -> hv s' v = hv s v /\ lk s' v = lk s v;
  q_cyc : lp_cycle s = true -> lp_cycle s' = true;
  q_gray : hv s i = -1 -> lp_cycle s' = true
}.

Record LI (gr : list nat) (i : nat) (s0 : lpst) (st : lpst * Z * Z) (done : list nat) : Prop := {
  l_inv : PInv (i :: gr) (fst (fst st));
  l_oof : lp_oof (fst (fst st)) = lp_oof s0;
  l_frame : forall v, 0 < hv s0 v -> hv (fst (fst st)) v = hv s0 v /\ lk (fst (fst st)) v = lk s0 v;
  l_cyc : lp_cycle s0 = true -> lp_cycle (fst (fst st)) = true;
  l_rh : 1 <= snd (fst st);
  l_done : forall w, In w done -> lp_cycle (fst (fst st)) = false -> 0 < hv (fst (fst st)) w < snd (fst st);
  l_rl : lp_cycle (fst (fst st)) = false ->
         (snd st = -1 /\ snd (fst st) = 1) \/
         (exists w, snd st = Z.of_nat w /\ In w done /\ snd (fst st) = hv (fst (fst st)) w + 1)
}.

Lemma greach_cycle_from_chain c i : reach' g i c -> edge g c i -> greach g i i.
Proof.
  intros Hr He. assert (Hci : greach g c i) by (apply gedge_greach; now apply edge_gedge).
  destruct (reach'_greach g i c Hwf Hr) as [->|H]; [exact Hci|]. eapply greach_trans; eauto.
Qed.

Lemma step_LI f gr i s0 st done next :
  (forall gr' i' s', PPre f gr' i' s' -> PPost gr' i' s' (lp_dfs f g i' s')) ->
  (length g + 2 <= S f + length gr)%nat ->
  LI gr i s0 st done -> edge g i next -> LI gr i s0 (lp_step f g st next) (done ++ [next]).
Proof.
  intros IH Hf HL He. destruct st as [[s rh] rl]. destruct HL as [Hi Hoof Hfr Hcy Hrh Hdone Hrl].
  cbn [fst snd] in *. unfold lp_step.
  assert (Hpre : PPre f (i :: gr) next s).
  { constructor; [exact Hi|eapply edge_dst_lt; eauto|cbn [length]; lia|exact He]. }
  specialize (IH _ _ _ Hpre). set (s' := lp_dfs f g next s) in *.
  destruct IH as [Qi Qoof Qnw Qfr Qcy Qgr]. fold (hv s' next).
  assert (Hmono : lp_cycle s' = false -> lp_cycle s = false).
  { intro H. destruct (lp_cycle s) eqn:E; [rewrite (Qcy eq_refl) in H; discriminate|reflexivity]. }
  assert (Hnext : lp_cycle s' = false -> 0 < hv s' next).
  { intro H. pose proof (p_ge _ _ Qi next) as G.
    assert (hv s' next <> -1).
    { intro E. apply (p_gray _ _ Qi) in E. apply (p_gray _ _ Hi) in E. rewrite (Qgr E) in H. discriminate. }
    lia. }
  assert (Hold : forall w, In w done -> lp_cycle s' = false -> 0 < hv s' w < rh /\ hv s' w = hv s w).
  { intros w Hw H. specialize (Hdone w Hw (Hmono H)). destruct (Qfr w ltac:(lia)) as [E _]. lia. }
  destruct (hv s' next >=? rh) eqn:Ege.
  - apply Z.geb_le in Ege. constructor; cbn [fst snd].
    + exact Qi.
    + congruence.
    + intros v Hv. destruct (Hfr v Hv) as [E1 E2]. destruct (Qfr v ltac:(lia)) as [E3 E4]. split; congruence.
    + intro H. apply Qcy. now apply Hcy.
    + specialize (p_ge _ _ Qi next). lia.
    + intros w Hw H. apply in_app_or in Hw as [Hw|[<-|[]]].
      * destruct (Hold w Hw H). lia.
      * specialize (Hnext H). lia.
    + intro H. right. exists next. repeat split; [apply in_or_app; right; now left].
  - rewrite Z.geb_leb in Ege. apply Z.leb_gt in Ege. constructor; cbn [fst snd].
    + exact Qi.
    + congruence.
    + intros v Hv. destruct (Hfr v Hv) as [E1 E2]. destruct (Qfr v ltac:(lia)) as [E3 E4]. split; congruence.
    + intro H. apply Qcy. now apply Hcy.
    + exact Hrh.
    + intros w Hw H. apply in_app_or in Hw as [Hw|[<-|[]]].
      * destruct (Hold w Hw H). lia.
      * specialize (Hnext H). lia.
    + intro H. destruct (Hrl (Hmono H)) as [Hl|[w [E1 [E2 E3]]]]; [now left|right].
      exists w. repeat split; [exact E1|apply in_or_app; now left|]. destruct (Hold w E2 H). lia.
Qed.

Lemma loop_LI f gr i s0 :
  (forall gr' i' s', PPre f gr' i' s' -> PPost gr' i' s' (lp_dfs f g i' s')) ->
  (length g + 2 <= S f + length gr)%nat ->
  forall todo done st, LI gr i s0 st done -> (forall w, In w todo -> edge g i w) ->
  LI gr i s0 (fold_left (lp_step f g) todo st) (done ++ todo).
Proof.
  intros IH Hf. induction todo as [|w todo IHt]; intros done st HL Hed; cbn [fold_left].
  - now rewrite app_nil_r.
  - replace (done ++ w :: todo) with ((done ++ [w]) ++ todo) by (now rewrite <- app_assoc).
    apply IHt; [|intros w' Hw'; apply Hed; now right].
    apply step_LI; try assumption. apply Hed. now left.
Qed.

Theorem lp_dfs_spec : forall f gr i s, PPre f gr i s -> PPost gr i s (lp_dfs f g i s).
Proof.
  induction f as [|f IH]; intros gr i s [Hi Hlt Hf He].
  { exfalso. assert (Hl : (length gr <= length g)%nat).
    { rewrite <- (seq_length (length g) 0). apply NoDup_incl_length; [apply (p_nd _ _ Hi)|].
      intros x Hx. apply in_seq. pose proof (p_lt _ _ Hi x Hx). lia. }
    lia. }
  rewrite lp_dfs_S. cbv zeta. fold (hv s i).
  destruct (hv s i =? 0) eqn:E0; cbn [negb].
  2:{ (* already entered *)
    apply Z.eqb_neq in E0. destruct (hv s i =? -1) eqn:E1.
    - apply Z.eqb_eq in E1. assert (Hin : In i gr) by (now apply (p_gray _ _ Hi)).
      constructor; cbn [lp_oof lp_cycle]; try reflexivity; try (intros; split; reflexivity).
      + destruct Hi as [H1 H2 H3 H4 H5 H6 H7 H8 H9]. constructor; cbn [lp_cycle]; try assumption.
        * intros _. exists i. destruct gr as [|c gr']; [destruct Hin|].
          apply (greach_cycle_from_chain c i); [apply (H7 i Hin)|exact He].
        * discriminate.
      + exact E0.
    - apply Z.eqb_neq in E1. constructor; try reflexivity; try assumption; try (intros; split; reflexivity).
      + intro H; exact H.
      + intro H. contradiction. }
  apply Z.eqb_eq in E0.
  assert (Hnotin : ~ In i gr) by (intro H; apply (p_gray _ _ Hi) in H; lia).
  set (s1 := mkLP (upd (lp_h s) i (-1)) (lp_link s) (lp_cycle s) (lp_oof s)).
  assert (Hh1 : forall v, hv s1 v = if Nat.eq_dec v i then -1 else hv s v).
  { intro v. unfold hv, s1. cbn [lp_h]. apply upd_nth. now rewrite (p_len_h _ _ Hi). }
  assert (HL1 : LI gr i s (s1, 1, -1) []).
  { constructor; cbn [fst snd].
    - constructor.
      + unfold s1. cbn [lp_h]. rewrite upd_length. apply (p_len_h _ _ Hi).
      + apply (p_len_l _ _ Hi).
      + intro v. rewrite Hh1. cbn [In]. destruct (Nat.eq_dec v i) as [->|Hne]; [split; auto|].
        rewrite (p_gray _ _ Hi). split; [auto|intros [H|H]; [congruence|exact H]].
      + constructor; [exact Hnotin|apply (p_nd _ _ Hi)].
      + intros v [<-|Hv]; [exact Hlt|now apply (p_lt _ _ Hi)].
      + intro v. rewrite Hh1. destruct (Nat.eq_dec v i); [lia|apply (p_ge _ _ Hi)].
      + cbn [hd]. intros x [<-|Hx]; [apply r_refl|].
        destruct gr as [|c gr']; [destruct Hx|]. cbn [hd] in *.
        apply reach'_trans with c; [apply (p_chain _ _ Hi x Hx)|now apply reach'_edge].
      + apply (p_cyc _ _ Hi).
      + intros Hc v Hv. rewrite Hh1 in Hv. destruct (Nat.eq_dec v i) as [->|Hne]; [lia|].
        apply (black_ok_transfer s s1 v (p_good _ _ Hi Hc v Hv)); [|exact Hv|reflexivity].
        intros w Hw. rewrite Hh1. destruct (Nat.eq_dec w i) as [->|]; [lia|reflexivity].
    - reflexivity.
    - intros v Hv. rewrite Hh1. destruct (Nat.eq_dec v i) as [->|]; [lia|split; reflexivity].
    - auto.
    - lia.
    - intros w [].
    - intros _. now left. }
  pose proof (loop_LI f gr i s IH Hf (nth i g []) [] (s1, 1, -1) HL1 (fun w H => H)) as HL2.
  cbn [app] in HL2.
  destruct (fold_left (lp_step f g) (nth i g []) (s1, 1, -1)) as [[s2 rh] rl].
  destruct HL2 as [Li Loof Lfr Lcy Lrh Ldone Lrl]. cbn [fst snd] in *.
  set (s3 := mkLP (upd (lp_h s2) i rh) (upd (lp_link s2) i rl) (lp_cycle s2) (lp_oof s2)).
  assert (Hh3 : forall v, hv s3 v = if Nat.eq_dec v i then rh else hv s2 v).
  { intro v. unfold hv, s3. cbn [lp_h]. apply upd_nth. now rewrite (p_len_h _ _ Li). }
  assert (Hl3 : forall v, lk s3 v = if Nat.eq_dec v i then rl else lk s2 v).
  { intro v. unfold lk, s3. cbn [lp_link]. apply upd_nth. now rewrite (p_len_l _ _ Li). }
  assert (Hi2 : hv s2 i = -1) by (apply (p_gray _ _ Li); now left).
  constructor.
  - constructor.
    + unfold s3. cbn [lp_h]. rewrite upd_length. apply (p_len_h _ _ Li).
    + unfold s3. cbn [lp_link]. rewrite upd_length. apply (p_len_l _ _ Li).
    + intro v. rewrite Hh3. destruct (Nat.eq_dec v i) as [->|Hne]; [split; [lia|contradiction]|].
      rewrite (p_gray _ _ Li). cbn [In]. split; [intros [H|H]; [congruence|exact H]|auto].
    + apply (p_nd _ _ Hi).
    + apply (p_lt _ _ Hi).
    + intro v. rewrite Hh3. destruct (Nat.eq_dec v i); [lia|apply (p_ge _ _ Li)].
    + apply (p_chain _ _ Hi).
    + apply (p_cyc _ _ Li).
    + intros Hc v Hv. change (lp_cycle s3) with (lp_cycle s2) in Hc.
      assert (Htr : forall w, 0 < hv s2 w -> hv s3 w = hv s2 w).
      { intros w Hw. rewrite Hh3. destruct (Nat.eq_dec w i) as [->|]; [lia|reflexivity]. }
      rewrite Hh3 in Hv. destruct (Nat.eq_dec v i) as [->|Hne].
      * split.
        -- intros w He'. specialize (Ldone w He' Hc). rewrite (Htr w) by lia. rewrite Hh3.
           destruct (Nat.eq_dec i i); [lia|congruence].
        -- rewrite Hl3, Hh3. destruct (Nat.eq_dec i i); [|congruence].
           destruct (Lrl Hc) as [Hl|[w [E1 [E2 E3]]]]; [now left|right].
           exists w. repeat split; [exact E1|exact E2|]. specialize (Ldone w E2 Hc). rewrite (Htr w) by lia. exact E3.
      * apply (black_ok_transfer s2 s3 v (p_good _ _ Li Hc v Hv) Htr Hv).
        rewrite Hl3. destruct (Nat.eq_dec v i); [contradiction|reflexivity].
  - exact Loof.
  - rewrite Hh3. destruct (Nat.eq_dec i i); [lia|congruence].
  - intros v Hv. destruct (Lfr v Hv) as [E1 E2]. rewrite Hh3, Hl3.
    destruct (Nat.eq_dec v i) as [->|]; [lia|split; assumption].
  - exact Lcy.
  - intro H. lia.
Qed.
End LP.

(* ------------------------------------------------------------------ *)
(* the driver loop and the result                                        *)
(* ------------------------------------------------------------------ *)
Definition lp_top (g : graph) : lpst * Z -> nat -> lpst * Z :=
  fun '(s, first) i =>
    let s' := lp_dfs (S (S (length g))) g i s in
    let first' := if (first =? -1) || (nth (Z.to_nat first) (lp_h s') 0 <? nth i (lp_h s') 0)
                  then Z.of_nat i else first in
    (s', first').

Definition lp_init (n : nat) : lpst := mkLP (repeat 0 n) (repeat (-1) n) false false.

Lemma longest_path_unfold g :
  longest_path g =
  let '(s, first) := fold_left (lp_top g) (seq 0 (length g)) (lp_init (length g), -1) in
  if lp_cycle s then None else Some (follow_links (S (length g)) (lp_link s) first).
Proof. reflexivity. Qed.

Record TI (g : graph) (k : nat) (st : lpst * Z) : Prop := {
  t_inv : PInv g [] (fst st);
  t_black : forall j, (j < k)%nat -> 0 < hv (fst st) j;
  t_first0 : k = 0%nat -> snd st = -1;
  t_first : (0 < k)%nat -> 0 <= snd st < Z.of_nat k /\ forall j, (j < k)%nat -> hv (fst st) j <= hv (fst st) (Z.to_nat (snd st))
}.

Lemma lp_init_TI g : TI g 0 (lp_init (length g), -1).
Proof.
  assert (Hh : forall v, hv (lp_init (length g)) v = 0) by (intro v; unfold hv; cbn; apply nth_repeat).
  constructor; cbn [fst snd].
  - constructor.
    + cbn. apply repeat_length.
    + cbn. apply repeat_length.
    + intro v. rewrite Hh. split; [lia|intros []].
    + constructor.
    + intros v [].
    + intro v. rewrite Hh. lia.
    + intros x [].
    + cbn. discriminate.
    + intros _ v Hv. rewrite Hh in Hv. lia.
  - intros; lia.
  - reflexivity.
  - intros; lia.
Qed.

Lemma lp_top_TI g k st : graph_wf g = true -> (k < length g)%nat -> TI g k st -> TI g (S k) (lp_top g st k).
Proof.
  intros Hwf Hk [Hi Hb H0 Hf]. destruct st as [s first]. cbn [fst snd] in *. unfold lp_top.
  assert (Hpre : PPre g (S (S (length g))) [] k s) by (constructor; [exact Hi|exact Hk|cbn [length]; lia|exact I]).
  pose proof (lp_dfs_spec g Hwf _ _ _ _ Hpre) as [Qi Qoof Qnw Qfr Qcy Qgr].
  set (s' := lp_dfs (S (S (length g))) g k s) in *. fold (hv s' (Z.to_nat first)) (hv s' k).
  assert (Hk' : 0 < hv s' k).
  { pose proof (p_ge _ _ _ Qi k). assert (hv s' k <> -1) by (intro E; apply (p_gray _ _ _ Qi) in E; destruct E). lia. }
  assert (Hold : forall j, (j < k)%nat -> hv s' j = hv s j) by (intros j Hj; apply Qfr; now apply Hb).
  constructor; cbn [fst snd].
  - exact Qi.
  - intros j Hj. destruct (Nat.eq_dec j k) as [->|Hne]; [exact Hk'|]. rewrite Hold by lia. apply Hb. lia.
  - intro H. lia.
  - intros _. destruct (Nat.eq_dec k 0) as [->|Hk0].
    + rewrite (H0 eq_refl), Z.eqb_refl. cbn [orb]. split; [lia|]. intros j Hj.
      replace j with 0%nat by lia. rewrite Nat2Z.id. lia.
    + destruct (Hf ltac:(lia)) as [Hr Hmax].
      replace (first =? -1) with false by (symmetry; apply Z.eqb_neq; lia). cbn [orb].
      destruct (Z.ltb_spec (hv s' (Z.to_nat first)) (hv s' k)) as [Hlt|Hge].
      * rewrite Nat2Z.id. split; [lia|]. intros j Hj. destruct (Nat.eq_dec j k) as [->|Hne]; [lia|].
        specialize (Hmax j ltac:(lia)). rewrite Hold by lia. rewrite (Hold (Z.to_nat first)) in Hlt by lia. lia.
      * split; [lia|]. intros j Hj. destruct (Nat.eq_dec j k) as [->|Hne]; [lia|].
        specialize (Hmax j ltac:(lia)). rewrite Hold by lia. rewrite (Hold (Z.to_nat first)) by lia. lia.
Qed.

Lemma lp_loop_TI g : graph_wf g = true -> forall k, (k <= length g)%nat ->
  TI g k (fold_left (lp_top g) (seq 0 k) (lp_init (length g), -1)).
Proof.
  intros Hwf. induction k as [|k IH]; intro Hk.
  - apply lp_init_TI.
  - rewrite seq_S, fold_left_app. cbn [plus fold_left]. apply lp_top_TI; [exact Hwf|lia|apply IH; lia].
Qed.

Section Final.
Variable g : graph.
Hypothesis Hwf : graph_wf g = true.
Variable s : lpst.
Hypothesis Hgood : forall v, (v < length g)%nat -> 0 < hv s v /\ black_ok g s v.

Lemma gedge_edge a b : gedge g a b -> edge g a b.
Proof. intros [_ [_ H]]. exact H. Qed.

Lemma heights_decrease u w : greach g u w -> hv s w < hv s u.
Proof.
  unfold greach, reach. intro P. induction P as [u w H|u c w H _ P IH].
  - apply matrix_of_graph_edge in H. destruct (Hgood u (proj1 H)) as [_ [Hb _]].
    specialize (Hb w (gedge_edge _ _ H)). lia.
  - apply matrix_of_graph_edge in H. destruct (Hgood u (proj1 H)) as [_ [Hb _]].
    specialize (Hb c (gedge_edge _ _ H)). lia.
Qed.

Lemma final_acyclic v : ~ greach g v v.
Proof. intro H. apply heights_decrease in H. lia. Qed.

Lemma paths_bounded q : valid_path g q -> forall v t, q = v :: t -> Z.of_nat (length q) <= hv s v.
Proof.
  induction 1 as [v Hv|v w t Hv Hw Ht IH]; intros v' t' E; injection E as <- <-.
  - cbn [length]. destruct (Hgood v Hv). lia.
  - specialize (IH w t eq_refl). destruct (Hgood v Hv) as [_ [Hb _]]. specialize (Hb w Hw).
    cbn [length] in *. lia.
Qed.

Lemma follow_links_stop fuel link : follow_links fuel link (-1) = [].
Proof. destruct fuel; reflexivity. Qed.

Lemma follow_links_path : forall k v, (v < length g)%nat -> hv s v = Z.of_nat k ->
  forall fuel, (k <= fuel)%nat ->
  exists t, follow_links fuel (lp_link s) (Z.of_nat v) = v :: t /\ valid_path g (v :: t) /\ length (v :: t) = k.
Proof.
  induction k as [|k IH]; intros v Hv Hk fuel Hfuel.
  { destruct (Hgood v Hv). lia. }
  destruct fuel as [|f]; [lia|]. cbn [follow_links].
  replace (Z.of_nat v =? -1) with false by (symmetry; apply Z.eqb_neq; lia). rewrite Nat2Z.id.
  fold (lk s v). destruct (Hgood v Hv) as [_ [Hb [[Hl H1]|[w [Hl [He Hh]]]]]].
  - rewrite Hl, follow_links_stop. exists []. repeat split; [now apply vp_one|cbn [length]; lia].
  - rewrite Hl. assert (Hwlt : (w < length g)%nat) by (eapply edge_dst_lt; eauto).
    destruct (IH w Hwlt ltac:(lia) f ltac:(lia)) as [t [E [Hp Hlen]]].
    rewrite E. exists (w :: t). repeat split; [now apply vp_cons|cbn [length] in *; lia].
Qed.
End Final.

Theorem longest_path_spec g : graph_wf g = true -> (1 <= length g)%nat -> longest_ok g (longest_path g).
Proof.
  intros Hwf Hn. rewrite longest_path_unfold.
  pose proof (lp_loop_TI g Hwf (length g) (le_n _)) as HT.
  destruct (fold_left (lp_top g) (seq 0 (length g)) (lp_init (length g), -1)) as [s first].
  destruct HT as [Hi Hb _ Hf]. cbn [fst snd] in *. destruct (Hf ltac:(lia)) as [Hfr Hmax].
  destruct (lp_cycle s) eqn:Ec; cbn [longest_ok].
  - apply (p_cyc _ _ _ Hi Ec).
  - assert (Hgood : forall v, (v < length g)%nat -> 0 < hv s v /\ black_ok g s v).
    { intros v Hv. split; [now apply Hb|]. apply (p_good _ _ _ Hi Ec). now apply Hb. }
    assert (Hac := final_acyclic g s Hgood).
    set (f := Z.to_nat first). assert (Hflt : (f < length g)%nat) by (unfold f; lia).
    set (k := Z.to_nat (hv s f)).
    assert (Hk : hv s f = Z.of_nat k) by (unfold k; destruct (Hgood f Hflt); lia).
    (* with fuel k the links give a valid path of k vertices; acyclicity bounds k by the vertex count *)
    destruct (follow_links_path g Hwf s Hgood k f Hflt Hk k (le_n _)) as [t0 [_ [Hp0 Hl0]]].
    pose proof (nodup_path_short g _ Hp0 (acyclic_path_nodup g Hac _ Hp0)) as Hshort.
    destruct (follow_links_path g Hwf s Hgood k f Hflt Hk (S (length g)) ltac:(lia)) as [t [E [Hp Hl]]].
    replace first with (Z.of_nat f) by (unfold f; lia). rewrite E.
    split; [exact Hac|]. split; [exact Hp|].
    intros q Hq. destruct q as [|v tq]; [inversion Hq|].
    assert (Hv : (v < length g)%nat) by (apply (valid_path_in_range g _ Hq); now left).
    pose proof (paths_bounded g s Hgood _ Hq v tq eq_refl) as Hb1.
    specialize (Hmax v Hv). fold f in Hmax. lia.
Qed.

Lemma longest_path_empty : longest_path [] = Some [].
Proof. reflexivity. Qed.

(* so the certificate always passes *)
Lemma height_realised g : graph_wf g = true -> forall fuel v, (v < length g)%nat -> (1 <= fuel)%nat ->
  exists q, valid_path g (v :: q) /\ length (v :: q) = height fuel g v.
Proof.
  intros Hwf. induction fuel as [|f IHf]; intros u Hu Hf; [lia|]. cbn [height].
  destruct f as [|f'].
  { assert (E : forall l, fold_left Nat.max (map (height 0 g) l) 0%nat = 0%nat).
    { induction l as [|x l IHl]; [reflexivity|]. cbn [map fold_left height Nat.max]. exact IHl. }
    rewrite E. exists []. split; [now apply vp_one|reflexivity]. }
  destruct (fold_max_in (map (height (S f') g) (nth u g [])) 0) as [H0|H0].
  - rewrite H0. exists []. split; [now apply vp_one|reflexivity].
  - apply in_map_iff in H0 as [w [Hw Hwin]]. rewrite <- Hw.
    assert (Hwlt : (w < length g)%nat) by (eapply edge_dst_lt; eauto).
    destruct (IHf w Hwlt ltac:(lia)) as [q [Hq Hl]].
    exists (w :: q). split; [now apply vp_cons|cbn [length] in *; lia].
Qed.

Lemma check_longest_complete g res : graph_wf g = true -> (1 <= length g)%nat ->
  longest_ok g res -> check_longest g res = true.
Proof.
  intros Hwf Hn. unfold longest_ok, check_longest. destruct res as [p|]; [|apply cyclicb_spec].
  intros [Hac [Hp Hmax]].
  assert (Hcb : cyclicb g = false).
  { destruct (cyclicb g) eqn:E; [|reflexivity]. apply cyclicb_spec in E as [v Hv]. exfalso. now apply (Hac v). }
  rewrite Hcb. cbn [negb andb]. rewrite (proj2 (valid_pathb_spec g p) Hp). cbn [andb].
  apply Nat.eqb_eq. apply Nat.le_antisymm.
  - destruct p as [|v t]; [inversion Hp|].
    apply fold_max_le. right. exists (height (length g) g v). split.
    + apply in_map. apply in_seq. pose proof (valid_path_in_range g _ Hp v (or_introl eq_refl)). lia.
    + apply height_bounds_paths; [exact Hp|]. apply (nodup_path_short g _ Hp (acyclic_path_nodup g Hac _ Hp)).
  - destruct (fold_max_in (map (height (length g) g) (seq 0 (length g))) 0) as [H|H].
    + rewrite H. lia.
    + apply in_map_iff in H as [v [Hv Hin]]. rewrite <- Hv. apply in_seq in Hin.
      destruct (height_realised g Hwf (length g) v ltac:(lia) Hn) as [q [Hq Hl]].
      rewrite <- Hl. now apply Hmax.
Qed.

Corollary longest_path_passes_certificate g : graph_wf g = true -> (1 <= length g)%nat ->
  check_longest g (longest_path g) = true.
Proof. intros Hwf Hn. apply check_longest_complete; try assumption. now apply longest_path_spec. Qed.
