(* Direct correctness proof of the DFS model of util/graph/path.go (Util/Graph.v: lp_dfs, longest_path):
   the result is None exactly for cyclic graphs, otherwise a path with the maximum number of vertices. *)
From Coq Require Import List ZArith Bool Arith Lia.
From TM Require Import Lib.ListX Util.Graph Util.Graph_proofs Util.GraphSpec Util.GraphSpec_proofs Util.Tarjan_proofs.
Import ListNotations.
Local Open Scope Z_scope.

Definition lp_step (f : nat) (g : graph) : lpst * Z * Z -> nat -> lpst * Z * Z :=
  fun '(s, rh, rl) next =>
    let s' := lp_dfs f g next s in
    let height := nth next (lp_h s') 0 in
    if height >=? rh then (s', height + 1, Z.of_nat next) else (s', rh, rl).

Lemma lp_dfs_S f g i s : lp_dfs (S f) g i s =
  let h := nth i (lp_h s) 0 in
  if negb (h =? 0) then (if h =? -1 then mkLP (lp_h s) (lp_link s) true (lp_oof s) else s)
  else let '(s2, rh, rl) := fold_left (lp_step f g) (nth i g [])
                              (mkLP (upd (lp_h s) i (-1)) (lp_link s) (lp_cycle s) (lp_oof s), 1, -1) in
       mkLP (upd (lp_h s2) i rh) (upd (lp_link s2) i rl) (lp_cycle s2) (lp_oof s2).
Proof. reflexivity. Qed.

Definition hv (s : lpst) (v : nat) : Z := nth v (lp_h s) 0.
Definition lk (s : lpst) (v : nat) : Z := nth v (lp_link s) (-1).

Section LP.
Variable g : graph.
Hypothesis Hwf : graph_wf g = true.

(* a finished vertex: all successors finished with smaller heights, link points to a successor one lower *)
Definition black_ok (s : lpst) (v : nat) : Prop :=
  (forall w, edge g v w -> 0 < hv s w < hv s v) /\
  ((lk s v = -1 /\ hv s v = 1) \/ (exists w, lk s v = Z.of_nat w /\ edge g v w /\ hv s v = hv s w + 1)).

Lemma black_ok_transfer s s' v : black_ok s v ->
  (forall w, 0 < hv s w -> hv s' w = hv s w) -> 0 < hv s v -> lk s' v = lk s v -> black_ok s' v.
Proof.
  intros [H1 H2] Hh Hv Hl. assert (Hv' := Hh v Hv). split.
  - intros w He. specialize (H1 w He). rewrite Hv', (Hh w) by lia. exact H1.
  - rewrite Hl, Hv'. destruct H2 as [H2|[w [E1 [E2 E3]]]]; [now left|right].
    exists w. repeat split; try assumption. rewrite (Hh w); [exact E3|]. specialize (H1 w E2). lia.
Qed.

Record PInv (gr : list nat) (s : lpst) : Prop := {
  p_len_h : length (lp_h s) = length g;
  p_len_l : length (lp_link s) = length g;
  p_gray : forall v, hv s v = -1 <-> In v gr;
  p_nd : NoDup gr;
  p_lt : forall v, In v gr -> (v < length g)%nat;
  p_ge : forall v, -1 <= hv s v;
  p_chain : forall x, In x gr -> reach' g x (hd 0%nat gr);
  p_cyc : lp_cycle s = true -> exists v, greach g v v;
  p_good : lp_cycle s = false -> forall v, 0 < hv s v -> black_ok s v
}.

Record PPre (f : nat) (gr : list nat) (i : nat) (s : lpst) : Prop := {
  pre_inv : PInv gr s;
  pre_lt : (i < length g)%nat;
  pre_fuel : (length g + 2 <= f + length gr)%nat;
  pre_edge : match gr with [] => True | c :: _ => edge g c i end
}.

Record PPost (gr : list nat) (i : nat) (s s' : lpst) : Prop := {
  q_inv : PInv gr s';
  q_oof : lp_oof s' = lp_oof s;
  q_nonwhite : hv s' i <> 0;
  q_frame : forall v, 0 < hv s v -> hv s' v = hv s v /\ lk s' v = lk s v;
  q_cyc : lp_cycle s = true -> lp_cycle s' = true;
  q_gray : hv s i = -1 -> lp_cycle s' = true
}.

Record LI (gr : list nat) (i : nat) (s0 : lpst) (st : lpst * Z * Z) (done : list nat) : Prop := {
  l_inv : PInv (i :: gr) (fst (fst st));
  l_oof : lp_oof (fst (fst st)) = lp_oof s0;
  l_frame : forall v, 0 < hv s0 v -> hv (fst (fst st)) v = hv s0 v /\ lk (fst (fst st)) v = lk s0 v;
  l_cyc : lp_cycle s0 = true -> lp_cycle (fst (fst st)) = true;
  l_rh : 1 <= snd (fst st);
  l_done : forall w, In w done -> lp_cycle (fst (fst st)) = false -> 0 < hv (fst (fst st)) w < snd (fst st);
  l_rl : lp_cycle (fst (fst st)) = false ->
         (snd st = -1 /\ snd (fst st) = 1) \/
         (exists w, snd st = Z.of_nat w /\ In w done /\ snd (fst st) = hv (fst (fst st)) w + 1)
}.

Lemma greach_cycle_from_chain c i : reach' g i c -> edge g c i -> greach g i i.
Proof.
  intros Hr He. assert (Hci : greach g c i) by (apply gedge_greach; now apply edge_gedge).
  destruct (reach'_greach g i c Hwf Hr) as [->|H]; [exact Hci|]. eapply greach_trans; eauto.
Qed.

Lemma step_LI f gr i s0 st done next :
  (forall gr' i' s', PPre f gr' i' s' -> PPost gr' i' s' (lp_dfs f g i' s')) ->
  (length g + 2 <= S f + length gr)%nat ->
  LI gr i s0 st done -> edge g i next -> LI gr i s0 (lp_step f g st next) (done ++ [next]).
Proof.
  intros IH Hf HL He. destruct st as [[s rh] rl]. destruct HL as [Hi Hoof Hfr Hcy Hrh Hdone Hrl].
  cbn [fst snd] in *. unfold lp_step.
  assert (Hpre : PPre f (i :: gr) next s).
  { constructor; [exact Hi|eapply edge_dst_lt; eauto|cbn [length]; lia|exact He]. }
  specialize (IH _ _ _ Hpre). set (s' := lp_dfs f g next s) in *.
  destruct IH as [Qi Qoof Qnw Qfr Qcy Qgr]. fold (hv s' next).
  assert (Hmono : lp_cycle s' = false -> lp_cycle s = false).
  { intro H. destruct (lp_cycle s) eqn:E; [rewrite (Qcy eq_refl) in H; discriminate|reflexivity]. }
  assert (Hnext : lp_cycle s' = false -> 0 < hv s' next).
  { intro H. pose proof (p_ge _ _ Qi next) as G.
    assert (hv s' next <> -1).
    { intro E. apply (p_gray _ _ Qi) in E. apply (p_gray _ _ Hi) in E. rewrite (Qgr E) in H. discriminate. }
    lia. }
  assert (Hold : forall w, In w done -> lp_cycle s' = false -> 0 < hv s' w < rh /\ hv s' w = hv s w).
  { intros w Hw H. specialize (Hdone w Hw (Hmono H)). destruct (Qfr w ltac:(lia)) as [E _]. lia. }
  destruct (hv s' next >=? rh) eqn:Ege.
  - apply Z.geb_le in Ege. constructor; cbn [fst snd].
    + exact Qi.
    + congruence.
    + intros v Hv. destruct (Hfr v Hv) as [E1 E2]. destruct (Qfr v ltac:(lia)) as [E3 E4]. split; congruence.
    + intro H. apply Qcy. now apply Hcy.
    + specialize (p_ge _ _ Qi next). lia.
    + intros w Hw H. apply in_app_or in Hw as [Hw|[<-|[]]].
      * destruct (Hold w Hw H). lia.
      * specialize (Hnext H). lia.
    + intro H. right. exists next. repeat split; [apply in_or_app; right; now left].
  - rewrite Z.geb_leb in Ege. apply Z.leb_gt in Ege. constructor; cbn [fst snd].
    + exact Qi.
    + congruence.
    + intros v Hv. destruct (Hfr v Hv) as [E1 E2]. destruct (Qfr v ltac:(lia)) as [E3 E4]. split; congruence.
    + intro H. apply Qcy. now apply Hcy.
    + exact Hrh.
    + intros w Hw H. apply in_app_or in Hw as [Hw|[<-|[]]].
      * destruct (Hold w Hw H). lia.
      * specialize (Hnext H). lia.
    + intro H. destruct (Hrl (Hmono H)) as [Hl|[w [E1 [E2 E3]]]]; [now left|right].
      exists w. repeat split; [exact E1|apply in_or_app; now left|]. destruct (Hold w E2 H). lia.
Qed.

Lemma loop_LI f gr i s0 :
  (forall gr' i' s', PPre f gr' i' s' -> PPost gr' i' s' (lp_dfs f g i' s')) ->
  (length g + 2 <= S f + length gr)%nat ->
  forall todo done st, LI gr i s0 st done -> (forall w, In w todo -> edge g i w) ->
  LI gr i s0 (fold_left (lp_step f g) todo st) (done ++ todo).
Proof.
  intros IH Hf. induction todo as [|w todo IHt]; intros done st HL Hed; cbn [fold_left].
  - now rewrite app_nil_r.
  - replace (done ++ w :: todo) with ((done ++ [w]) ++ todo) by (now rewrite <- app_assoc).
    apply IHt; [|intros w' Hw'; apply Hed; now right].
    apply step_LI; try assumption. apply Hed. now left.
Qed.

Theorem lp_dfs_spec : forall f gr i s, PPre f gr i s -> PPost gr i s (lp_dfs f g i s).
Proof.
  induction f as [|f IH]; intros gr i s [Hi Hlt Hf He].
  { exfalso. assert (Hl : (length gr <= length g)%nat).
    { rewrite <- (seq_length (length g) 0). apply NoDup_incl_length; [apply (p_nd _ _ Hi)|].
      intros x Hx. apply in_seq. pose proof (p_lt _ _ Hi x Hx). lia. }
    lia. }
  rewrite lp_dfs_S. cbv zeta. fold (hv s i).
  destruct (hv s i =? 0) eqn:E0; cbn [negb].
  2:{ (* already entered *)
    apply Z.eqb_neq in E0. destruct (hv s i =? -1) eqn:E1.
    - apply Z.eqb_eq in E1. assert (Hin : In i gr) by (now apply (p_gray _ _ Hi)).
      constructor; cbn [lp_oof lp_cycle]; try reflexivity; try (intros; split; reflexivity).
      + destruct Hi as [H1 H2 H3 H4 H5 H6 H7 H8 H9]. constructor; cbn [lp_cycle]; try assumption.
        * intros _. exists i. destruct gr as [|c gr']; [destruct Hin|].
          apply (greach_cycle_from_chain c i); [apply (H7 i Hin)|exact He].
        * discriminate.
      + exact E0.
    - apply Z.eqb_neq in E1. constructor; try reflexivity; try assumption; try (intros; split; reflexivity).
      + intro H; exact H.
      + intro H. contradiction. }
  apply Z.eqb_eq in E0.
  assert (Hnotin : ~ In i gr) by (intro H; apply (p_gray _ _ Hi) in H; lia).
  set (s1 := mkLP (upd (lp_h s) i (-1)) (lp_link s) (lp_cycle s) (lp_oof s)).
  assert (Hh1 : forall v, hv s1 v = if Nat.eq_dec v i then -1 else hv s v).
  { intro v. unfold hv, s1. cbn [lp_h]. apply upd_nth. now rewrite (p_len_h _ _ Hi). }
  assert (HL1 : LI gr i s (s1, 1, -1) []).
  { constructor; cbn [fst snd].
    - constructor.
      + unfold s1. cbn [lp_h]. rewrite upd_length. apply (p_len_h _ _ Hi).
      + apply (p_len_l _ _ Hi).
      + intro v. rewrite Hh1. cbn [In]. destruct (Nat.eq_dec v i) as [->|Hne]; [split; auto|].
        rewrite (p_gray _ _ Hi). split; [auto|intros [H|H]; [congruence|exact H]].
      + constructor; [exact Hnotin|apply (p_nd _ _ Hi)].
      + intros v [<-|Hv]; [exact Hlt|now apply (p_lt _ _ Hi)].
      + intro v. rewrite Hh1. destruct (Nat.eq_dec v i); [lia|apply (p_ge _ _ Hi)].
      + cbn [hd]. intros x [<-|Hx]; [apply r_refl|].
        destruct gr as [|c gr']; [destruct Hx|]. cbn [hd] in *.
        apply reach'_trans with c; [apply (p_chain _ _ Hi x Hx)|now apply reach'_edge].
      + apply (p_cyc _ _ Hi).
      + intros Hc v Hv. rewrite Hh1 in Hv. destruct (Nat.eq_dec v i) as [->|Hne]; [lia|].
        apply (black_ok_transfer s s1 v (p_good _ _ Hi Hc v Hv)); [|exact Hv|reflexivity].
        intros w Hw. rewrite Hh1. destruct (Nat.eq_dec w i) as [->|]; [lia|reflexivity].
    - reflexivity.
    - intros v Hv. rewrite Hh1. destruct (Nat.eq_dec v i) as [->|]; [lia|split; reflexivity].
    - auto.
    - lia.
    - intros w [].
    - intros _. now left. }
  pose proof (loop_LI f gr i s IH Hf (nth i g []) [] (s1, 1, -1) HL1 (fun w H => H)) as HL2.
  cbn [app] in HL2.
  destruct (fold_left (lp_step f g) (nth i g []) (s1, 1, -1)) as [[s2 rh] rl].
  destruct HL2 as [Li Loof Lfr Lcy Lrh Ldone Lrl]. cbn [fst snd] in *.
  set (s3 := mkLP (upd (lp_h s2) i rh) (upd (lp_link s2) i rl) (lp_cycle s2) (lp_oof s2)).
  assert (Hh3 : forall v, hv s3 v = if Nat.eq_dec v i then rh else hv s2 v).
  { intro v. unfold hv, s3. cbn [lp_h]. apply upd_nth. now rewrite (p_len_h _ _ Li). }
  assert (Hl3 : forall v, lk s3 v = if Nat.eq_dec v i then rl else lk s2 v).
  { intro v. unfold lk, s3. cbn [lp_link]. apply upd_nth. now rewrite (p_len_l _ _ Li). }
  assert (Hi2 : hv s2 i = -1) by (apply (p_gray _ _ Li); now left).
  constructor.
  - constructor.
    + unfold s3. cbn [lp_h]. rewrite upd_length. apply (p_len_h _ _ Li).
    + unfold s3. cbn [lp_link]. rewrite upd_length. apply (p_len_l _ _ Li).
    + intro v. rewrite Hh3. destruct (Nat.eq_dec v i) as [->|Hne]; [split; [lia|contradiction]|].
      rewrite (p_gray _ _ Li). cbn [In]. split; [intros [H|H]; [congruence|exact H]|auto].
    + apply (p_nd _ _ Hi).
    + apply (p_lt _ _ Hi).
    + intro v. rewrite Hh3. destruct (Nat.eq_dec v i); [lia|apply (p_ge _ _ Li)].
    + apply (p_chain _ _ Hi).
    + apply (p_cyc _ _ Li).
    + intros Hc v Hv. change (lp_cycle s3) with (lp_cycle s2) in Hc.
      assert (Htr : forall w, 0 < hv s2 w -> hv s3 w = hv s2 w).
      { intros w Hw. rewrite Hh3. destruct (Nat.eq_dec w i) as [->|]; [lia|reflexivity]. }
      rewrite Hh3 in Hv. destruct (Nat.eq_dec v i) as [->|Hne].
      * split.
        -- intros w He'. specialize (Ldone w He' Hc). rewrite (Htr w) by lia. rewrite Hh3.
           destruct (Nat.eq_dec i i); [lia|congruence].
        -- rewrite Hl3, Hh3. destruct (Nat.eq_dec i i); [|congruence].
           destruct (Lrl Hc) as [Hl|[w [E1 [E2 E3]]]]; [now left|right].
           exists w. repeat split; [exact E1|exact E2|]. specialize (Ldone w E2 Hc). rewrite (Htr w) by lia. exact E3.
      * apply (black_ok_transfer s2 s3 v (p_good _ _ Li Hc v Hv) Htr Hv).
        rewrite Hl3. destruct (Nat.eq_dec v i); [contradiction|reflexivity].
  - exact Loof.
  - rewrite Hh3. destruct (Nat.eq_dec i i); [lia|congruence].
  - intros v Hv. destruct (Lfr v Hv) as [E1 E2]. rewrite Hh3, Hl3.
    destruct (Nat.eq_dec v i) as [->|]; [lia|split; assumption].
  - exact Lcy.
  - intro H. lia.
Qed.
End LP.
