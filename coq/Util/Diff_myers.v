(* Myers' middle-snake search as modelled in Util/Diff.v (forward / backward / middle_loop / middle with the
   shared buffer) returns an optimal split: mid_optimal middle.  Hence lcs always yields a minimum script. *)
From Coq Require Import List ZArith Bool Arith Lia.
From TM Require Import Lib.ListX Util.Graph Util.Graph_proofs Util.Diff Util.Diff_proofs Util.Diff_lcs Util.Diff_dist
  Util.Diff_greedy Util.Diff_min.
Import ListNotations.
Local Open Scope Z_scope.

(* ---------- the buffer ---------- *)
Lemma setb_upd buf i x : setb buf i x = if i <? 0 then buf else upd buf (Z.to_nat i) x.
Proof. reflexivity. Qed.

Lemma zlen_setb buf i x : zlen (setb buf i x) = zlen buf.
Proof. rewrite setb_upd. destruct (i <? 0); [reflexivity|]. unfold zlen. now rewrite upd_length. Qed.

Lemma getb_setb buf i x j : 0 <= i < zlen buf ->
  getb (setb buf i x) j = if j =? i then x else getb buf j.
Proof.
  intros Hi. rewrite setb_upd. unfold getb, zlen in *.
  replace (i <? 0) with false by (symmetry; apply Z.ltb_ge; lia).
  destruct (Z.ltb_spec j 0) as [Hj|Hj].
  { destruct (Z.eqb_spec j i); [lia|reflexivity]. }
  rewrite upd_nth by lia. destruct (Z.eqb_spec j i) as [->|Hne].
  - destruct (Nat.eq_dec (Z.to_nat i) (Z.to_nat i)); [reflexivity|congruence].
  - destruct (Nat.eq_dec (Z.to_nat j) (Z.to_nat i)); [lia|reflexivity].
Qed.

(* ---------- parity ---------- *)
Definition same_par (x y : Z) : Prop := exists j, x = y + 2 * j.

Lemma same_par_refl x : same_par x x.
Proof. exists 0. lia. Qed.

Lemma same_par_step x y : same_par x y -> same_par (x + 2) y.
Proof. intros [j ->]. exists (j + 1). lia. Qed.

Lemma not_same_par_succ x y : same_par x y -> same_par x (y - 1) -> False.
Proof. intros [j H1] [j' H2]. lia. Qed.

Section Myers.
Variables a b : list Z.
Local Notation m := (zlen a).
Local Notation n := (zlen b).
Local Notation delta := (zlen b - zlen a).
Local Notation mx := ((zlen a + zlen b + 2) / 2).
Local Notation fuelN := (S (length a + length b)).

Definition condf (x y : Z) : bool := elt a x =? elt b y.
Definition condr (x y : Z) : bool := elt a (m - x - 1) =? elt b (n - y - 1).
Definition lo (d : Z) : Z := - d + (if d >? n then 2 * (d - n) else 0).
Definition hi (d : Z) : Z := d - (if d >? m then 2 * (d - m) else 0).
Definition V1 (buf : list Z) (k : Z) : Z := getb buf (mx + k).
Definition V2 (buf : list Z) (k : Z) : Z := getb buf (2 * mx + (mx + k)).

Lemma elt_nth l x : 0 <= x -> elt l x = nth (Z.to_nat x) l (-1).
Proof. intro H. unfold elt. replace (x <? 0) with false by (symmetry; apply Z.ltb_ge; lia). reflexivity. Qed.

Lemma Mc_f x y : 0 <= x -> 0 <= y -> Mc m n condf x y = gmatch a b x y.
Proof. intros Hx Hy. unfold Mc, gmatch, condf. now rewrite !elt_nth by lia. Qed.

Lemma Mc_r x y : 0 <= x -> 0 <= y -> Mc m n condr x y = gmatch (rev a) (rev b) x y.
Proof.
  intros Hx Hy. unfold Mc, gmatch, condr. rewrite !zlen_rev.
  destruct (Z.ltb_spec x m) as [H1|H1]; [|reflexivity].
  destruct (Z.ltb_spec y n) as [H2|H2]; [|reflexivity]. cbn [andb].
  unfold zlen in *. rewrite !elt_nth by lia. rewrite !rev_nth by lia.
  do 2 f_equal; f_equal; lia.
Qed.

Definition Vf := Vok (dist a b).
Definition Vr := Vok (dist (rev a) (rev b)).

Lemma fuelN_ok : m < Z.of_nat fuelN.
Proof. unfold zlen. lia. Qed.

Lemma Vf_update d k vm vp : 0 <= d -> - d <= k <= d -> (d = 0 -> vp = 0) ->
  (1 <= d -> - d < k -> Vf (d - 1) (k - 1) vm) ->
  (1 <= d -> k < d -> Vf (d - 1) (k + 1) vp) ->
  Vf d k (newx m n condf fuelN d k vm vp).
Proof.
  intros. apply newx_ok; try assumption.
  - intros x y Hx Hy. now apply dist_right_le.
  - intros x y Hx Hy. now apply dist_down_le.
  - intros x y Hx Hy Hm. rewrite Mc_f in Hm by assumption. now apply dist_match.
  - intros x y Hx Hy Hm. rewrite Mc_f in Hm by assumption. now apply dist_mismatch.
  - intros x y Hx Hy. now apply dist_ge_diff.
  - apply dist_00.
  - apply fuelN_ok.
Qed.

Lemma Vr_update d k vm vp : 0 <= d -> - d <= k <= d -> (d = 0 -> vp = 0) ->
  (1 <= d -> - d < k -> Vr (d - 1) (k - 1) vm) ->
  (1 <= d -> k < d -> Vr (d - 1) (k + 1) vp) ->
  Vr d k (newx m n condr fuelN d k vm vp).
Proof.
  intros. apply newx_ok; try assumption.
  - intros x y Hx Hy. now apply dist_right_le.
  - intros x y Hx Hy. now apply dist_down_le.
  - intros x y Hx Hy Hm. rewrite Mc_r in Hm by assumption. now apply dist_match.
  - intros x y Hx Hy Hm. rewrite Mc_r in Hm by assumption. now apply dist_mismatch.
  - intros x y Hx Hy. now apply dist_ge_diff.
  - apply dist_00.
  - apply fuelN_ok.
Qed.

(* ---------- unfolding of the loops in terms of newx / V1 / V2 ---------- *)
Definition fsnake (k x : Z) (buf : list Z) : Z :=
  count_snake fuelN (fun s => elt a (m - V2 buf (- delta - k) + s) =? elt b (m - V2 buf (- delta - k) - k + s))
              (x - (m - V2 buf (- delta - k))) 0.

Lemma forward_S f d k limit ps pl buf :
  forward a b (S f) d k limit ps pl buf =
  if k >? limit then (buf, None) else
  let x := newx m n condf fuelN d k (getb buf (mx + k - 1)) (getb buf (mx + k + 1)) in
  let buf' := setb buf (mx + k) x in
  if Z.odd delta && (- delta - k >=? ps) && (- delta - k <=? pl) && (x >=? m - V2 buf' (- delta - k))
  then (buf', Some (m - V2 buf' (- delta - k), m - V2 buf' (- delta - k) - k, fsnake k x buf'))
  else forward a b f d (k + 2) limit ps pl buf'.
Proof. reflexivity. Qed.

Definition bsnake (k x : Z) (buf : list Z) : Z :=
  count_snake fuelN (fun s => elt a (m - x + s) =? elt b (n - (x - k) + s)) (V1 buf (- delta - k) - (m - x)) 0.

Lemma backward_S f d k start limit buf :
  backward a b (S f) d k start limit buf =
  if k >? limit then (buf, None) else
  let x := newx m n condr fuelN d k (getb buf (2 * mx + (mx + k - 1))) (getb buf (2 * mx + (mx + k + 1))) in
  let buf' := setb buf (2 * mx + mx + k) x in
  if negb (Z.odd delta) && (- delta - k >=? start) && (- delta - k <=? limit) && (V1 buf' (- delta - k) >=? m - x)
  then (buf', Some (m - x, n - (x - k), bsnake k x buf'))
  else backward a b f d (k + 2) start limit buf'.
Proof. reflexivity. Qed.

Lemma middle_loop_S f d ps pl buf :
  middle_loop a b (S f) d ps pl buf =
  if d >? mx then MidFatal buf else
  match forward a b fuelN d (lo d) (hi d) ps pl buf with
  | (buf, Some (ai, bi, s)) => MidFound ai bi s buf
  | (buf, None) =>
    match backward a b fuelN d (lo d) (lo d) (hi d) buf with
    | (buf, Some (ai, bi, s)) => MidFound ai bi s buf
    | (buf, None) => middle_loop a b f (d + 1) (lo d) (hi d) buf
    end
  end.
Proof. reflexivity. Qed.

(* ---------- facts about the total distance ---------- *)
Lemma Dtot_bounds : 0 <= Dtot a b <= m + n.
Proof.
  unfold Dtot. pose proof (L_nonneg a b). pose proof (L_le_len_l a b). pose proof (L_le_len_r a b). lia.
Qed.

Lemma rdist_as_dist x y : 0 <= x <= m -> 0 <= y <= n ->
  rdist a b x y = dist (rev a) (rev b) (m - x) (n - y).
Proof.
  intros Hx Hy. rewrite dist_rev by lia. f_equal; lia.
Qed.

Hypothesis Hm2 : 2 <= m.
Hypothesis Hn2 : 2 <= n.
Variable len0 : Z.
Hypothesis Hlen0 : 2 * (m + n + 2) <= len0.

Lemma mx_bounds : m + n + 1 <= 2 * mx <= m + n + 2.
Proof.
  pose proof (Z.div_mod (m + n + 2) 2 ltac:(lia)). pose proof (Z.mod_pos_bound (m + n + 2) 2 ltac:(lia)). lia.
Qed.

Ltac win_lia := pose proof mx_bounds; unfold lo, hi in *;
  repeat match goal with
  | |- context[?x >? ?y] => destruct (Z.gtb_spec x y)
  | H : context[?x >? ?y] |- _ => destruct (Z.gtb_spec x y)
  end; lia.

Definition Opt (ai bi s : Z) : Prop :=
  0 <= ai -> 0 <= bi -> 0 <= s -> ai + s <= m -> bi + s <= n ->
  dist a b ai bi + rdist a b (ai + s) (bi + s) <= Dtot a b.

Record FI (d k : Z) (buf : list Z) : Prop := {
  fi_len : zlen buf = len0;
  fi_cur : forall k', lo d <= k' -> k' < k -> k' <= hi d -> same_par k' d -> Vf d k' (V1 buf k');
  fi_p1 : 1 <= d -> forall k', lo (d - 1) <= k' <= hi (d - 1) -> same_par k' (d - 1) -> Vf (d - 1) k' (V1 buf k');
  fi_p2 : 1 <= d -> forall k', lo (d - 1) <= k' <= hi (d - 1) -> same_par k' (d - 1) -> Vr (d - 1) k' (V2 buf k');
  fi_i1 : d = 0 -> V1 buf 1 = 0;
  fi_i2 : d = 0 -> V2 buf 1 = 0;
  fi_nm : Z.odd delta = true -> forall k', lo d <= k' -> k' < k -> k' <= hi d -> same_par k' d ->
          forall px py, 0 <= px <= m -> 0 <= py <= n -> px - py = k' ->
          dist a b px py = d -> rdist a b px py = d - 1 -> False
}.

(* a point at exact distance d lies on a diagonal of the window of round d *)
Lemma in_window_f px py d : 0 <= px <= m -> 0 <= py <= n -> dist a b px py = d ->
  lo d <= px - py <= hi d /\ same_par (px - py) d.
Proof.
  intros Hx Hy Hd. pose proof (dist_ge_diff a b px py ltac:(lia) ltac:(lia)) as [G1 G2].
  pose proof (dist_le_sum a b px py) as G3. split; [win_lia|].
  unfold dist in Hd. exists (L (pre a px) (pre b py) - py). lia.
Qed.

Lemma in_window_r px py d : 0 <= px <= m -> 0 <= py <= n -> rdist a b px py = d ->
  lo d <= (m - px) - (n - py) <= hi d /\ same_par ((m - px) - (n - py)) d.
Proof.
  intros Hx Hy Hd. rewrite rdist_as_dist in Hd by lia.
  pose proof (dist_ge_diff (rev a) (rev b) (m - px) (n - py) ltac:(lia) ltac:(lia)) as [G1 G2].
  pose proof (dist_le_sum (rev a) (rev b) (m - px) (n - py)) as G3. split; [win_lia|].
  unfold dist in Hd. exists (L (pre (rev a) (m - px)) (pre (rev b) (n - py)) - (n - py)). lia.
Qed.

Lemma odd_delta_ex : Z.odd delta = true -> exists q, delta = 2 * q + 1.
Proof. intro H. apply Z.odd_spec in H. destruct H as [q H]. exists q. lia. Qed.

Lemma even_delta_ex : Z.odd delta = false -> exists q, delta = 2 * q.
Proof.
  intro H. rewrite <- Z.negb_even in H. apply negb_false_iff in H. apply Z.even_spec in H.
  destruct H as [q H]. exists q. lia.
Qed.

(* frames for one write into the v1 half *)
Lemma V1_write buf k x k' : zlen buf = len0 -> 0 <= mx + k < len0 ->
  V1 (setb buf (mx + k) x) k' = if k' =? k then x else V1 buf k'.
Proof.
  intros Hl Hr. unfold V1. rewrite getb_setb by lia.
  destruct (Z.eqb_spec (mx + k') (mx + k)), (Z.eqb_spec k' k); try lia; reflexivity.
Qed.

Lemma V2_write1 buf k x k' : zlen buf = len0 -> 0 <= mx + k < len0 -> k - k' <> 2 * mx ->
  V2 (setb buf (mx + k) x) k' = V2 buf k'.
Proof.
  intros Hl Hr Hne. unfold V2. rewrite getb_setb by lia.
  destruct (Z.eqb_spec (2 * mx + (mx + k')) (mx + k)); [lia|reflexivity].
Qed.

Lemma V2_write buf k x k' : zlen buf = len0 -> 0 <= 2 * mx + mx + k < len0 ->
  V2 (setb buf (2 * mx + mx + k) x) k' = if k' =? k then x else V2 buf k'.
Proof.
  intros Hl Hr. unfold V2. rewrite getb_setb by lia.
  destruct (Z.eqb_spec (2 * mx + (mx + k')) (2 * mx + mx + k)), (Z.eqb_spec k' k); try lia; reflexivity.
Qed.

Lemma V1_write2 buf k x k' : zlen buf = len0 -> 0 <= 2 * mx + mx + k < len0 -> k' - k <> 2 * mx ->
  V1 (setb buf (2 * mx + mx + k) x) k' = V1 buf k'.
Proof.
  intros Hl Hr Hne. unfold V1. rewrite getb_setb by lia.
  destruct (Z.eqb_spec (mx + k') (2 * mx + mx + k)); [lia|reflexivity].
Qed.

(* diagonals of any two windows never alias across the two halves *)
Lemma window_sep d d' k k' : 0 <= d -> 0 <= d' -> lo d' <= k' -> k <= hi d -> k - k' <> 2 * mx.
Proof. intros. win_lia. Qed.

Lemma rdist_nonneg x y : 0 <= x <= m -> 0 <= y <= n -> 0 <= rdist a b x y.
Proof.
  intros Hx Hy. rewrite rdist_as_dist by assumption.
  pose proof (dist_ge_diff (rev a) (rev b) (m - x) (n - y) ltac:(lia) ltac:(lia)). lia.
Qed.

(* ---------- the forward pass of round d ---------- *)
Lemma forward_pass d ps pl : 0 <= d -> 2 * d <= m + n + 1 ->
  (Z.odd delta = true -> 2 * d - 1 <= Dtot a b) ->
  ((d = 0 /\ ps = 0 /\ pl = 0) \/ (1 <= d /\ ps = lo (d - 1) /\ pl = hi (d - 1))) ->
  forall fuel k buf, FI d k buf -> same_par k d -> lo d <= k -> hi d - k < 2 * Z.of_nat fuel ->
  match forward a b fuel d k (hi d) ps pl buf with
  | (buf', Some (ai, bi, s)) => zlen buf' = len0 /\ Opt ai bi s
  | (buf', None) => exists k', hi d < k' /\ FI d k' buf'
  end.
Proof.
  intros Hd H2d Hlow Hps. induction fuel as [|f IH]; intros k buf HI Hpar Hlo Hfuel.
  { cbn [forward]. exists k. split; [lia|exact HI]. }
  rewrite forward_S. destruct (Z.gtb_spec k (hi d)) as [Hgt|Hle].
  { exists k. split; [lia|exact HI]. }
  cbv zeta.
  set (x := newx m n condf fuelN d k (getb buf (mx + k - 1)) (getb buf (mx + k + 1))).
  set (buf' := setb buf (mx + k) x).
  set (k2 := - delta - k).
  assert (Hkd : - d <= k <= d) by win_lia.
  assert (Hidx : 0 <= mx + k < len0) by win_lia.
  assert (Hlen := fi_len _ _ _ HI).
  assert (Hx : Vf d k x).
  { unfold x. replace (mx + k - 1) with (mx + (k - 1)) by lia. replace (mx + k + 1) with (mx + (k + 1)) by lia.
    fold (V1 buf (k - 1)) (V1 buf (k + 1)). apply Vf_update; try assumption.
    - intros ->. assert (k = 0) by lia. subst k. apply (fi_i1 _ _ _ HI eq_refl).
    - intros H1 Hk. destruct Hpar as [j Hj]. apply (fi_p1 _ _ _ HI H1); [win_lia|]. exists j. lia.
    - intros H1 Hk. destruct Hpar as [j Hj]. apply (fi_p1 _ _ _ HI H1); [win_lia|]. exists (j + 1). lia. }
  assert (F1 : forall k', V1 buf' k' = if k' =? k then x else V1 buf k') by (intro; apply V1_write; assumption).
  assert (F2 : forall d' k', 0 <= d' -> lo d' <= k' -> V2 buf' k' = V2 buf k').
  { intros d' k' Hd' Hk'. apply V2_write1; try assumption. apply (window_sep d d'); assumption. }
  assert (Hk2 : Z.odd delta = true -> ps <= k2 <= pl -> 1 <= d /\ Vr (d - 1) k2 (V2 buf' k2)).
  { intros Hodd Hr. destruct (odd_delta_ex Hodd) as [q Hq]. destruct Hps as [[-> [-> ->]]|[H1 [-> ->]]].
    - exfalso. unfold k2 in Hr. lia.
    - split; [exact H1|]. rewrite (F2 (d - 1) k2) by lia. apply (fi_p2 _ _ _ HI H1); [lia|].
      destruct Hpar as [j Hj]. exists (- q - j - d). unfold k2. lia. }
  match goal with |- context[if ?c then _ else _] => destruct c eqn:Ec end.
  - (* the paths overlap *)
    rewrite !andb_true_iff in Ec. destruct Ec as [[[Eo E1] E2] E3].
    apply Z.geb_le in E1, E3. apply Z.leb_le in E2.
    destruct (Hk2 Eo (conj E1 E2)) as [H1 Hu].
    split; [unfold buf'; now rewrite zlen_setb|].
    fold k2. set (u := V2 buf' k2) in *. set (s := fsnake k x buf'). unfold Opt. intros A1 A2 A3 A4 A5.
    destruct Hx as [X1 [X2 [X3 X4]]]. destruct Hu as [U1 [U2 [U3 U4]]].
    pose proof (dist_diag_mono_n a b (m - u) (m - u - k) A1 A2 (x - (m - u)) ltac:(lia)) as M1.
    replace (m - u + (x - (m - u))) with x in M1 by lia.
    replace (m - u - k + (x - (m - u))) with (x - k) in M1 by lia.
    pose proof (rdist_diag_mono a b (m - u) (m - u - k) s A1 A2 A3 A4 A5) as M2.
    rewrite (rdist_as_dist (m - u) (m - u - k)) in M2 by lia.
    replace (m - (m - u)) with u in M2 by lia. replace (n - (m - u - k)) with (u - k2) in M2 by (unfold k2; lia).
    specialize (Hlow Eo). lia.
  - (* no overlap on this diagonal *)
    assert (HI' : FI d (k + 2) buf').
    { constructor.
      - unfold buf'. now rewrite zlen_setb.
      - intros k' L1 L2 L3 Pk'. rewrite F1. destruct (Z.eqb_spec k' k) as [->|Hne]; [exact Hx|].
        apply (fi_cur _ _ _ HI); try assumption.
        destruct Pk' as [j1 E1]. destruct Hpar as [j2 E2]. lia.
      - intros H1 k' Hr Pk'. rewrite F1. destruct (Z.eqb_spec k' k) as [Heq|Hne].
        + exfalso. rewrite Heq in Pk'. exact (not_same_par_succ _ _ Hpar Pk').
        + now apply (fi_p1 _ _ _ HI).
      - intros H1 k' Hr Pk'. rewrite (F2 (d - 1) k') by lia. now apply (fi_p2 _ _ _ HI).
      - intros ->. rewrite F1. assert (k = 0) by lia. subst k. cbn. apply (fi_i1 _ _ _ HI eq_refl).
      - intros ->. unfold buf'. rewrite V2_write1; [apply (fi_i2 _ _ _ HI eq_refl)|assumption|assumption|win_lia].
      - intros Hodd k' L1 L2 L3 Pk' px py Hpx Hpy Hdiag Hdist Hrd.
        destruct (Z.eq_dec k' k) as [->|Hne].
        2:{ apply (fi_nm _ _ _ HI Hodd k') with (px := px) (py := py); try assumption.
            destruct Pk' as [j1 E1]. destruct Hpar as [j2 E2]. lia. }
        pose proof (rdist_nonneg px py Hpx Hpy) as Hrn.
        destruct (in_window_r px py (d - 1) Hpx Hpy Hrd) as [Wr Pr].
        assert (Hk2eq : (m - px) - (n - py) = k2) by (unfold k2; lia). rewrite Hk2eq in *.
        assert (Hpsl : ps <= k2 <= pl) by (destruct Hps as [[? _]|[_ [-> ->]]]; lia).
        destruct (Hk2 Hodd Hpsl) as [H1 Hu].
        destruct Hx as [X1 [X2 [X3 X4]]]. destruct Hu as [U1 [U2 [U3 U4]]].
        assert (Hpx' : px <= x).
        { apply X4; try lia. replace (px - k) with py by lia. lia. }
        assert (Hu' : m - px <= V2 buf' k2).
        { apply U4; try lia. replace (m - px - k2) with (n - py) by lia.
          rewrite <- rdist_as_dist by lia. lia. }
        assert (Hc : Z.odd delta && (k2 >=? ps) && (k2 <=? pl) && (x >=? m - V2 buf' k2) = true).
        { rewrite !andb_true_iff. repeat split; [exact Hodd|apply Z.geb_le; lia|apply Z.leb_le; lia|apply Z.geb_le; lia]. }
        fold k2 in Ec. congruence. }
    apply IH; [exact HI'|apply same_par_step; exact Hpar|lia|lia].
Qed.

(* ---------- the backward pass of round d ---------- *)
Record BI (d k : Z) (buf : list Z) : Prop := {
  bi_len : zlen buf = len0;
  bi_cur : forall k', lo d <= k' -> k' < k -> k' <= hi d -> same_par k' d -> Vr d k' (V2 buf k');
  bi_p : 1 <= d -> forall k', lo (d - 1) <= k' <= hi (d - 1) -> same_par k' (d - 1) -> Vr (d - 1) k' (V2 buf k');
  bi_f : forall k', lo d <= k' <= hi d -> same_par k' d -> Vf d k' (V1 buf k');
  bi_i2 : d = 0 -> V2 buf 1 = 0;
  bi_nm : Z.odd delta = false -> forall k', lo d <= k' -> k' < k -> k' <= hi d -> same_par k' d ->
          forall px py, 0 <= px <= m -> 0 <= py <= n -> (m - px) - (n - py) = k' ->
          dist a b px py = d -> rdist a b px py = d -> False
}.

Lemma backward_pass d : 0 <= d -> 2 * d <= m + n + 1 ->
  (Z.odd delta = false -> 2 * d <= Dtot a b) ->
  forall fuel k buf, BI d k buf -> same_par k d -> lo d <= k -> hi d - k < 2 * Z.of_nat fuel ->
  match backward a b fuel d k (lo d) (hi d) buf with
  | (buf', Some (ai, bi, s)) => zlen buf' = len0 /\ Opt ai bi s
  | (buf', None) => exists k', hi d < k' /\ BI d k' buf'
  end.
Proof.
  intros Hd H2d Hlow. induction fuel as [|f IH]; intros k buf HI Hpar Hlo Hfuel.
  { cbn [backward]. exists k. split; [lia|exact HI]. }
  rewrite backward_S. destruct (Z.gtb_spec k (hi d)) as [Hgt|Hle].
  { exists k. split; [lia|exact HI]. }
  cbv zeta.
  set (x := newx m n condr fuelN d k (getb buf (2 * mx + (mx + k - 1))) (getb buf (2 * mx + (mx + k + 1)))).
  set (buf' := setb buf (2 * mx + mx + k) x).
  set (k1 := - delta - k).
  assert (Hkd : - d <= k <= d) by win_lia.
  assert (Hidx : 0 <= 2 * mx + mx + k < len0) by win_lia.
  assert (Hlen := bi_len _ _ _ HI).
  assert (Hx : Vr d k x).
  { unfold x. replace (mx + k - 1) with (mx + (k - 1)) by lia. replace (mx + k + 1) with (mx + (k + 1)) by lia.
    fold (V2 buf (k - 1)) (V2 buf (k + 1)). apply Vr_update; try assumption.
    - intros ->. assert (k = 0) by lia. subst k. apply (bi_i2 _ _ _ HI eq_refl).
    - intros H1 Hk. destruct Hpar as [j Hj]. apply (bi_p _ _ _ HI H1); [win_lia|]. exists j. lia.
    - intros H1 Hk. destruct Hpar as [j Hj]. apply (bi_p _ _ _ HI H1); [win_lia|]. exists (j + 1). lia. }
  assert (F2 : forall k', V2 buf' k' = if k' =? k then x else V2 buf k') by (intro; apply V2_write; assumption).
  assert (F1 : forall d' k', 0 <= d' -> k' <= hi d' -> V1 buf' k' = V1 buf k').
  { intros d' k' Hd' Hk'. apply V1_write2; try assumption. apply (window_sep d' d); assumption. }
  assert (Hk1 : Z.odd delta = false -> lo d <= k1 <= hi d -> Vf d k1 (V1 buf' k1)).
  { intros Hev Hr. destruct (even_delta_ex Hev) as [q Hq].
    rewrite (F1 d k1) by lia. apply (bi_f _ _ _ HI); [lia|].
    destruct Hpar as [j Hj]. exists (- q - j - d). unfold k1. lia. }
  match goal with |- context[if ?c then _ else _] => destruct c eqn:Ec end.
  - (* the paths overlap *)
    rewrite !andb_true_iff in Ec. destruct Ec as [[[Eo E1] E2] E3].
    apply negb_true_iff in Eo. apply Z.geb_le in E1, E3. apply Z.leb_le in E2.
    pose proof (Hk1 Eo (conj E1 E2)) as Hu.
    split; [unfold buf'; now rewrite zlen_setb|].
    fold k1 in E3 |- *. set (x1 := V1 buf' k1) in *. set (s := bsnake k x buf'). unfold Opt. intros A1 A2 A3 A4 A5.
    destruct Hx as [X1 [X2 [X3 X4]]]. destruct Hu as [U1 [U2 [U3 U4]]].
    pose proof (dist_diag_mono_n a b (m - x) (n - (x - k)) A1 A2 (x1 - (m - x)) ltac:(lia)) as M1.
    replace (m - x + (x1 - (m - x))) with x1 in M1 by lia.
    replace (n - (x - k) + (x1 - (m - x))) with (x1 - k1) in M1 by (unfold k1; lia).
    pose proof (rdist_diag_mono a b (m - x) (n - (x - k)) s A1 A2 A3 A4 A5) as M2.
    rewrite (rdist_as_dist (m - x) (n - (x - k))) in M2 by lia.
    replace (m - (m - x)) with x in M2 by lia. replace (n - (n - (x - k))) with (x - k) in M2 by lia.
    specialize (Hlow Eo). lia.
  - (* no overlap on this diagonal *)
    assert (HI' : BI d (k + 2) buf').
    { constructor.
      - unfold buf'. now rewrite zlen_setb.
      - intros k' L1 L2 L3 Pk'. rewrite F2. destruct (Z.eqb_spec k' k) as [->|Hne]; [exact Hx|].
        apply (bi_cur _ _ _ HI); try assumption.
        destruct Pk' as [j1 E1]. destruct Hpar as [j2 E2]. lia.
      - intros H1 k' Hr Pk'. rewrite F2. destruct (Z.eqb_spec k' k) as [Heq|Hne].
        + exfalso. rewrite Heq in Pk'. exact (not_same_par_succ _ _ Hpar Pk').
        + now apply (bi_p _ _ _ HI).
      - intros k' Hr Pk'. rewrite (F1 d k') by lia. now apply (bi_f _ _ _ HI).
      - intros ->. rewrite F2. assert (k = 0) by lia. subst k. cbn. apply (bi_i2 _ _ _ HI eq_refl).
      - intros Hev k' L1 L2 L3 Pk' px py Hpx Hpy Hdiag Hdist Hrd.
        destruct (Z.eq_dec k' k) as [->|Hne].
        2:{ apply (bi_nm _ _ _ HI Hev k') with (px := px) (py := py); try assumption.
            destruct Pk' as [j1 E1]. destruct Hpar as [j2 E2]. lia. }
        destruct (in_window_f px py d Hpx Hpy Hdist) as [Wf Pf].
        assert (Hk1eq : px - py = k1) by (unfold k1; lia). rewrite Hk1eq in *.
        pose proof (Hk1 Hev Wf) as Hu.
        destruct Hx as [X1 [X2 [X3 X4]]]. destruct Hu as [U1 [U2 [U3 U4]]].
        assert (Hpx' : px <= V1 buf' k1).
        { apply U4; try lia. replace (px - k1) with py by lia. lia. }
        assert (Hx' : m - px <= x).
        { apply X4; try lia. replace (m - px - k) with (n - py) by lia.
          rewrite <- rdist_as_dist by lia. lia. }
        assert (Hc : negb (Z.odd delta) && (k1 >=? lo d) && (k1 <=? hi d) && (V1 buf' k1 >=? m - x) = true).
        { rewrite !andb_true_iff. repeat split; [now rewrite Hev|apply Z.geb_le; lia|apply Z.leb_le; lia|apply Z.geb_le; lia]. }
        fold k1 in Ec. congruence. }
    apply IH; [exact HI'|apply same_par_step; exact Hpar|lia|lia].
Qed.
(* ---------- gluing the passes ---------- *)
Lemma FI_end_BI d k buf : hi d < k -> FI d k buf -> BI d (lo d) buf.
Proof.
  intros Hk HI. constructor.
  - apply (fi_len _ _ _ HI).
  - intros; lia.
  - apply (fi_p2 _ _ _ HI).
  - intros k' Hr Pk'. apply (fi_cur _ _ _ HI); try lia. exact Pk'.
  - apply (fi_i2 _ _ _ HI).
  - intros; lia.
Qed.

Lemma BI_end_FI d k buf : 0 <= d -> hi d < k -> BI d k buf -> FI (d + 1) (lo (d + 1)) buf.
Proof.
  intros Hd Hk HI. constructor.
  - apply (bi_len _ _ _ HI).
  - intros; lia.
  - intros _ k'. replace (d + 1 - 1) with d by lia. intros Hr Pk'. now apply (bi_f _ _ _ HI).
  - intros _ k'. replace (d + 1 - 1) with d by lia. intros Hr Pk'. apply (bi_cur _ _ _ HI); try lia. exact Pk'.
  - intros; lia.
  - intros; lia.
  - intros; lia.
Qed.

Lemma forward_no_mid d k buf : 0 <= d -> hi d < k -> FI d k buf -> Z.odd delta = true -> Dtot a b <> 2 * d - 1.
Proof.
  intros Hd Hk HI Hodd Heq. pose proof Dtot_bounds as [Hb _].
  destruct (split_point a b d ltac:(lia)) as (px & py & Hpx & Hpy & H1 & H2).
  pose proof (dist_rdist_ge a b px py) as Hge.
  destruct (in_window_f px py d Hpx Hpy ltac:(lia)) as [W P].
  apply (fi_nm _ _ _ HI Hodd (px - py)) with (px := px) (py := py); try lia. exact P.
Qed.

Lemma backward_no_mid d k buf : 0 <= d -> hi d < k -> BI d k buf -> Z.odd delta = false -> Dtot a b <> 2 * d.
Proof.
  intros Hd Hk HI Hev Heq.
  destruct (split_point a b d ltac:(lia)) as (px & py & Hpx & Hpy & H1 & H2).
  pose proof (dist_rdist_ge a b px py) as Hge.
  destruct (in_window_r px py d Hpx Hpy ltac:(lia)) as [W P].
  apply (bi_nm _ _ _ HI Hev ((m - px) - (n - py))) with (px := px) (py := py); try lia. exact P.
Qed.

Lemma same_par_lo d : same_par (lo d) d.
Proof. unfold lo. destruct (d >? n); [exists (- n)|exists (- d)]; lia. Qed.

Lemma middle_loop_ok : forall fuel d ps pl buf, 0 <= d -> FI d (lo d) buf ->
  ((d = 0 /\ ps = 0 /\ pl = 0) \/ (1 <= d /\ ps = lo (d - 1) /\ pl = hi (d - 1))) ->
  (Z.odd delta = true -> 2 * d - 1 <= Dtot a b) ->
  (Z.odd delta = false -> 2 * d <= Dtot a b) ->
  forall ai bi s buf', middle_loop a b fuel d ps pl buf = MidFound ai bi s buf' ->
  zlen buf' = len0 /\ Opt ai bi s.
Proof.
  induction fuel as [|f IH]; intros d ps pl buf Hd HI Hps Ho He ai bi s buf' H; [discriminate|].
  rewrite middle_loop_S in H. destruct (d >? mx); [discriminate|].
  pose proof Dtot_bounds as [Db1 Db2].
  assert (H2d : 2 * d <= m + n + 1) by (destruct (Z.odd delta); [specialize (Ho eq_refl)|specialize (He eq_refl)]; lia).
  assert (Hfu : hi d - lo d < 2 * Z.of_nat fuelN) by (unfold zlen in *; win_lia).
  pose proof (forward_pass d ps pl Hd H2d Ho Hps fuelN (lo d) buf HI (same_par_lo d) (Z.le_refl _) Hfu) as HF.
  destruct (forward a b fuelN d (lo d) (hi d) ps pl buf) as [buf1 [[[ai1 bi1] s1]|]].
  { injection H as <- <- <- <-. exact HF. }
  destruct HF as [k1 [Hk1 HI1]].
  pose proof (backward_pass d Hd H2d He fuelN (lo d) buf1 (FI_end_BI d k1 buf1 Hk1 HI1) (same_par_lo d) (Z.le_refl _) Hfu) as HB.
  destruct (backward a b fuelN d (lo d) (lo d) (hi d) buf1) as [buf2 [[[ai2 bi2] s2]|]].
  { injection H as <- <- <- <-. exact HB. }
  destruct HB as [k2 [Hk2 HI2]].
  apply (IH (d + 1) (lo d) (hi d) buf2); try assumption.
  - lia.
  - eapply BI_end_FI; eauto.
  - right. replace (d + 1 - 1) with d by lia. repeat split; lia.
  - intro Hodd. pose proof (forward_no_mid d k1 buf1 Hd Hk1 HI1 Hodd). specialize (Ho Hodd).
    destruct (odd_delta_ex Hodd) as [q Hq]. unfold Dtot in *. lia.
  - intro Hev. pose proof (backward_no_mid d k2 buf2 Hd Hk2 HI2 Hev). specialize (He Hev).
    destruct (even_delta_ex Hev) as [q Hq]. unfold Dtot in *. lia.
Qed.
(* the search always finds a snake: log.Fatal("no snake") and the model's fuel exhaustion are unreachable *)
Lemma middle_loop_total : forall fuel d ps pl buf, 0 <= d -> FI d (lo d) buf ->
  ((d = 0 /\ ps = 0 /\ pl = 0) \/ (1 <= d /\ ps = lo (d - 1) /\ pl = hi (d - 1))) ->
  (Z.odd delta = true -> 2 * d - 1 <= Dtot a b) ->
  (Z.odd delta = false -> 2 * d <= Dtot a b) ->
  Dtot a b + 2 <= 2 * (d + Z.of_nat fuel) ->
  exists ai bi s buf', middle_loop a b fuel d ps pl buf = MidFound ai bi s buf'.
Proof.
  induction fuel as [|f IH]; intros d ps pl buf Hd HI Hps Ho He Hfuel.
  { exfalso. destruct (Z.odd delta); [specialize (Ho eq_refl)|specialize (He eq_refl)]; lia. }
  rewrite middle_loop_S.
  pose proof Dtot_bounds as [Db1 Db2].
  assert (H2d : 2 * d <= m + n + 1) by (destruct (Z.odd delta); [specialize (Ho eq_refl)|specialize (He eq_refl)]; lia).
  destruct (Z.gtb_spec d mx) as [Hgt|_]; [exfalso; pose proof mx_bounds; lia|].
  assert (Hfu : hi d - lo d < 2 * Z.of_nat fuelN) by (unfold zlen in *; win_lia).
  pose proof (forward_pass d ps pl Hd H2d Ho Hps fuelN (lo d) buf HI (same_par_lo d) (Z.le_refl _) Hfu) as HF.
  destruct (forward a b fuelN d (lo d) (hi d) ps pl buf) as [buf1 [[[ai1 bi1] s1]|]]; [eauto|].
  destruct HF as [k1 [Hk1 HI1]].
  pose proof (backward_pass d Hd H2d He fuelN (lo d) buf1 (FI_end_BI d k1 buf1 Hk1 HI1) (same_par_lo d) (Z.le_refl _) Hfu) as HB.
  destruct (backward a b fuelN d (lo d) (lo d) (hi d) buf1) as [buf2 [[[ai2 bi2] s2]|]]; [eauto|].
  destruct HB as [k2 [Hk2 HI2]].
  apply (IH (d + 1) (lo d) (hi d) buf2); try assumption.
  - lia.
  - eapply BI_end_FI; eauto.
  - right. replace (d + 1 - 1) with d by lia. repeat split; lia.
  - intro Hodd. pose proof (forward_no_mid d k1 buf1 Hd Hk1 HI1 Hodd). specialize (Ho Hodd).
    destruct (odd_delta_ex Hodd) as [q Hq]. unfold Dtot in *. lia.
  - intro Hev. pose proof (backward_no_mid d k2 buf2 Hd Hk2 HI2 Hev). specialize (He Hev).
    destruct (even_delta_ex Hev) as [q Hq]. unfold Dtot in *. lia.
  - lia.
Qed.
End Myers.

(* ---------- middle: initialisation, and the final theorem ---------- *)
Lemma middle_unfold a b buf :
  middle a b buf =
  middle_loop a b (S (S (length a + length b))) 0 0 0
    (setb (setb buf ((zlen a + zlen b + 2) / 2 + 1) 0) (2 * ((zlen a + zlen b + 2) / 2) + (zlen a + zlen b + 2) / 2 + 1) 0).
Proof. reflexivity. Qed.

Lemma middle_init_FI a b buf : 2 <= zlen a -> 2 <= zlen b -> 2 * (zlen a + zlen b + 2) <= zlen buf ->
  FI a b (zlen buf) 0 (lo b 0)
    (setb (setb buf ((zlen a + zlen b + 2) / 2 + 1) 0) (2 * ((zlen a + zlen b + 2) / 2) + (zlen a + zlen b + 2) / 2 + 1) 0).
Proof.
  intros Hm Hn Hbuf. pose proof (mx_bounds a b) as Hmx.
  assert (Hlo : lo b 0 = 0) by (unfold lo; destruct (Z.gtb_spec 0 (zlen b)); lia).
  rewrite Hlo. constructor.
  - now rewrite !zlen_setb.
  - intros; lia.
  - intros; lia.
  - intros; lia.
  - intros _. rewrite (V1_write2 a b (zlen buf)); [|now rewrite zlen_setb|lia|lia].
    rewrite (V1_write a b (zlen buf)); [reflexivity|reflexivity|lia].
  - intros _. rewrite (V2_write a b (zlen buf)); [reflexivity|now rewrite zlen_setb|lia].
  - intros; lia.
Qed.

Theorem middle_total a b buf : 2 <= zlen a -> 2 <= zlen b -> 2 * (zlen a + zlen b + 2) <= zlen buf ->
  exists ai bi s buf', middle a b buf = MidFound ai bi s buf'.
Proof.
  intros Hm Hn Hbuf. rewrite middle_unfold. pose proof (Dtot_bounds a b).
  eapply (middle_loop_total a b Hm Hn (zlen buf) Hbuf _ 0 0 0 _ (Z.le_refl 0)).
  - now apply middle_init_FI.
  - left. repeat split.
  - intros _. lia.
  - intros _. lia.
  - unfold zlen in *. lia.
Qed.

Theorem middle_optimal : mid_optimal middle.
Proof.
  intros a b buf ai bi s buf' Hm Hn Hbuf H.
  assert (Hopt : zlen buf' = zlen buf /\ Opt a b ai bi s).
  { rewrite middle_unfold in H.
    eapply (middle_loop_ok a b Hm Hn (zlen buf) Hbuf _ 0 0 0 _ (Z.le_refl 0)); [| | | |exact H].
    - now apply middle_init_FI.
    - left. repeat split.
    - intros _. pose proof (Dtot_bounds a b). lia.
    - intros _. pose proof (Dtot_bounds a b). lia. }
  destruct Hopt as [Hl Ho]. split; [exact Hl|].
  intros A1 A2 A3 A4 A5. apply optimal_split; try assumption.
  - apply snake_equal; try assumption. exact (middle_sound a b buf ai bi s buf' H).
  - now apply Ho.
Qed.

Theorem script_minimal a b chunks : lcs a b = LcsOk chunks -> cost chunks = zlen a + zlen b - 2 * L a b.
Proof. apply lcs_gen_minimal. exact middle_optimal. Qed.

Corollary lcs_valid_and_minimal a b chunks : lcs a b = LcsOk chunks ->
  script_ok chunks a b = true /\ forall chunks', script_ok chunks' a b = true -> cost chunks <= cost chunks'.
Proof.
  intro H. split; [now apply lcs_correct|].
  intros chunks' H'. rewrite (script_minimal a b chunks H). now apply script_cost_lower_bound.
Qed.

Lemma L_is_lcs a b : (exists s, Sub s a /\ Sub s b /\ zlen s = L a b) /\
                     (forall s, Sub s a -> Sub s b -> zlen s <= L a b).
Proof. split; [apply L_wit|apply L_ub]. Qed.
