(* Edit distance of prefixes (dist) and suffixes (rdist) in terms of L; the facts about the edit graph
   used by Myers' algorithm.  Coordinates are Z; prefixes saturate beyond the end of a list, which is
   exactly the behaviour of the search when it runs off the grid (no matches there). *)
From Coq Require Import List ZArith Bool Arith Lia.
From TM Require Import Lib.ListX Util.Diff Util.Diff_proofs Util.Diff_lcs.
Import ListNotations.
Local Open Scope Z_scope.

Definition pre (l : list Z) (x : Z) : list Z := firstn (Z.to_nat x) l.
Definition suf (l : list Z) (x : Z) : list Z := skipn (Z.to_nat x) l.
Definition dist (a b : list Z) (x y : Z) : Z := x + y - 2 * L (pre a x) (pre b y).
Definition rdist (a b : list Z) (x y : Z) : Z := (zlen a - x) + (zlen b - y) - 2 * L (suf a x) (suf b y).
Definition Dtot (a b : list Z) : Z := zlen a + zlen b - 2 * L a b.

Lemma pre_succ_in l x : 0 <= x < zlen l -> pre l (x + 1) = pre l x ++ [nth (Z.to_nat x) l (-1)].
Proof.
  intro H. unfold pre, zlen in *. replace (Z.to_nat (x + 1)) with (S (Z.to_nat x)) by lia.
  apply firstn_S_nth'. lia.
Qed.

Lemma pre_out l x : zlen l <= x -> pre l x = l.
Proof. intro H. unfold pre, zlen in *. apply firstn_all2. lia. Qed.

Lemma zlen_pre_le l x : 0 <= x -> zlen (pre l x) <= x.
Proof. intro H. unfold zlen, pre. rewrite firstn_length. lia. Qed.

Lemma dist_comm a b x y : dist a b x y = dist b a y x.
Proof. unfold dist. rewrite L_comm. lia. Qed.

Lemma dist_00 a b : dist a b 0 0 = 0.
Proof. reflexivity. Qed.

Lemma Sub_app_l (s t : list Z) : Sub s (s ++ t).
Proof. rewrite <- (app_nil_r s) at 1. apply Sub_app; [apply Sub_refl|constructor]. Qed.

Lemma L_snoc_ge a b x : L a b <= L (a ++ [x]) b.
Proof. apply L_mono; [|auto]. intros s Hs. eapply Sub_trans; [exact Hs|apply Sub_app_l]. Qed.

Lemma L_snoc_le a b x : L (a ++ [x]) b <= 1 + L a b.
Proof. rewrite <- L_rev, rev_app_distr. cbn [rev app]. rewrite <- (L_rev a b). apply (proj1 (L_B_C (rev a))). Qed.

Section Dist.
Variables a b : list Z.
Definition gmatch (x y : Z) : bool :=
  (x <? zlen a) && (y <? zlen b) && (nth (Z.to_nat x) a (-1) =? nth (Z.to_nat y) b (-1)).

(* one deletion / insertion changes the distance by at most one, in either direction *)
Lemma dist_right_le x y : 0 <= x -> dist a b (x + 1) y <= dist a b x y + 1.
Proof.
  intro Hx. unfold dist. destruct (Z.lt_ge_cases x (zlen a)) as [H|H].
  - rewrite pre_succ_in by lia. pose proof (L_snoc_ge (pre a x) (pre b y) (nth (Z.to_nat x) a (-1))). lia.
  - rewrite !(pre_out a) by lia. lia.
Qed.

Lemma dist_right_ge x y : 0 <= x -> dist a b x y <= dist a b (x + 1) y + 1.
Proof.
  intro Hx. unfold dist. destruct (Z.lt_ge_cases x (zlen a)) as [H|H].
  - rewrite pre_succ_in by lia. pose proof (L_snoc_le (pre a x) (pre b y) (nth (Z.to_nat x) a (-1))). lia.
  - rewrite !(pre_out a) by lia. lia.
Qed.
End Dist.

Lemma dist_down_le a b x y : 0 <= y -> dist a b x (y + 1) <= dist a b x y + 1.
Proof. intro H. rewrite !(dist_comm a b). now apply dist_right_le. Qed.

Lemma dist_down_ge a b x y : 0 <= y -> dist a b x y <= dist a b x (y + 1) + 1.
Proof. intro H. rewrite !(dist_comm a b). now apply dist_right_ge. Qed.

Lemma dist_match a b x y : 0 <= x -> 0 <= y -> gmatch a b x y = true ->
  dist a b (x + 1) (y + 1) = dist a b x y.
Proof.
  intros Hx Hy H. unfold gmatch in H. rewrite !andb_true_iff in H. destruct H as [[H1 H2] H3].
  apply Z.ltb_lt in H1, H2. apply Z.eqb_eq in H3. unfold dist.
  rewrite !pre_succ_in by lia. rewrite H3, L_snoc_eq. lia.
Qed.

Lemma dist_mismatch a b x y : 0 <= x -> 0 <= y -> gmatch a b x y = false ->
  dist a b (x + 1) y + 1 <= dist a b (x + 1) (y + 1) \/ dist a b x (y + 1) + 1 <= dist a b (x + 1) (y + 1).
Proof.
  intros Hx Hy H. unfold gmatch in H.
  destruct (Z.ltb_spec x (zlen a)) as [H1|H1].
  - destruct (Z.ltb_spec y (zlen b)) as [H2|H2].
    + cbn [andb] in H. apply Z.eqb_neq in H. unfold dist.
      rewrite !pre_succ_in by lia. rewrite (L_snoc_neq _ _ _ _ H). lia.
    + left. unfold dist. rewrite !(pre_out b) by lia. lia.
  - right. unfold dist. rewrite !(pre_out a) by lia. lia.
Qed.

Lemma dist_diag_mono a b x y : 0 <= x -> 0 <= y -> dist a b x y <= dist a b (x + 1) (y + 1).
Proof.
  intros Hx Hy. destruct (gmatch a b x y) eqn:E.
  - rewrite dist_match by assumption. lia.
  - pose proof (dist_right_ge a b x y Hx). pose proof (dist_down_ge a b x y Hy).
    destruct (dist_mismatch a b x y Hx Hy E); lia.
Qed.

Lemma dist_diag_mono_n a b x y : 0 <= x -> 0 <= y -> forall t, 0 <= t -> dist a b x y <= dist a b (x + t) (y + t).
Proof.
  intros Hx Hy t Ht. pattern t. apply natlike_ind; [rewrite !Z.add_0_r; lia| |exact Ht].
  intros t' Ht' IH. pose proof (dist_diag_mono a b (x + t') (y + t') ltac:(lia) ltac:(lia)).
  replace (x + Z.succ t') with (x + t' + 1) by lia. replace (y + Z.succ t') with (y + t' + 1) by lia. lia.
Qed.

Lemma dist_ge_diff a b x y : 0 <= x -> 0 <= y -> x - y <= dist a b x y /\ y - x <= dist a b x y.
Proof.
  intros Hx Hy. unfold dist.
  pose proof (L_le_len_l (pre a x) (pre b y)). pose proof (L_le_len_r (pre a x) (pre b y)).
  pose proof (zlen_pre_le a x Hx). pose proof (zlen_pre_le b y Hy). lia.
Qed.

Lemma dist_le_sum a b x y : dist a b x y <= x + y.
Proof. unfold dist. pose proof (L_nonneg (pre a x) (pre b y)). lia. Qed.

Lemma dist_parity a b x y : exists q, dist a b x y = x + y - 2 * q.
Proof. eexists. reflexivity. Qed.

(* ---------- suffix distance, and the link with the distance in the reversed strings ---------- *)
Lemma pre_rev l x : 0 <= x <= zlen l -> pre (rev l) x = rev (suf l (zlen l - x)).
Proof.
  intro H. unfold pre, suf, zlen in *. rewrite firstn_rev. do 2 f_equal. lia.
Qed.

Lemma dist_rev a b x y : 0 <= x <= zlen a -> 0 <= y <= zlen b ->
  dist (rev a) (rev b) x y = rdist a b (zlen a - x) (zlen b - y).
Proof.
  intros Hx Hy. unfold dist, rdist. rewrite !pre_rev by assumption. rewrite L_rev. lia.
Qed.

Lemma pre_suf l x : pre l x ++ suf l x = l.
Proof. apply firstn_skipn. Qed.

Lemma dist_rdist_ge a b x y : Dtot a b <= dist a b x y + rdist a b x y.
Proof.
  unfold Dtot, dist, rdist.
  pose proof (L_app_ge (pre a x) (suf a x) (pre b y) (suf b y)) as H. rewrite !pre_suf in H. lia.
Qed.

Lemma rdist_diag_mono a b x y t : 0 <= x -> 0 <= y -> 0 <= t -> x + t <= zlen a -> y + t <= zlen b ->
  rdist a b (x + t) (y + t) <= rdist a b x y.
Proof.
  intros Hx Hy Ht Hxa Hyb.
  pose proof (dist_rev a b (zlen a - x) (zlen b - y) ltac:(lia) ltac:(lia)) as E1.
  pose proof (dist_rev a b (zlen a - (x + t)) (zlen b - (y + t)) ltac:(lia) ltac:(lia)) as E2.
  replace (zlen a - (zlen a - x)) with x in E1 by lia. replace (zlen b - (zlen b - y)) with y in E1 by lia.
  replace (zlen a - (zlen a - (x + t))) with (x + t) in E2 by lia.
  replace (zlen b - (zlen b - (y + t))) with (y + t) in E2 by lia.
  rewrite <- E1, <- E2.
  pose proof (dist_diag_mono_n (rev a) (rev b) (zlen a - (x + t)) (zlen b - (y + t)) ltac:(lia) ltac:(lia) t Ht) as H.
  replace (zlen a - (x + t) + t) with (zlen a - x) in H by lia.
  replace (zlen b - (y + t) + t) with (zlen b - y) in H by lia. exact H.
Qed.

(* ---------- every optimal path has a point at every forward distance ---------- *)
Lemma suf_cons x l i : 0 <= i -> suf (x :: l) (i + 1) = suf l i.
Proof. intro H. unfold suf. replace (Z.to_nat (i + 1)) with (S (Z.to_nat i)) by lia. reflexivity. Qed.

Lemma pre_cons x l i : 0 <= i -> pre (x :: l) (i + 1) = x :: pre l i.
Proof. intro H. unfold pre. replace (Z.to_nat (i + 1)) with (S (Z.to_nat i)) by lia. reflexivity. Qed.

Lemma split_point : forall a b e, 0 <= e <= Dtot a b ->
  exists x y, 0 <= x <= zlen a /\ 0 <= y <= zlen b /\ dist a b x y <= e /\ rdist a b x y <= Dtot a b - e.
Proof.
  induction a as [|c a IHa]; intros b.
  { intros e He. exists 0, e. unfold Dtot in He. change (L [] b) with 0 in He. change (zlen []) with 0 in *.
    assert (Hd : dist [] b 0 e = e).
    { unfold dist, pre. rewrite firstn_nil. change (L [] (firstn (Z.to_nat e) b)) with 0. lia. }
    assert (Hr : rdist [] b 0 e = zlen b - e).
    { unfold rdist, suf. rewrite skipn_nil. change (L [] (skipn (Z.to_nat e) b)) with 0.
      change (zlen []) with 0. lia. }
    unfold Dtot. change (L [] b) with 0. change (zlen []) with 0. repeat split; lia. }
  induction b as [|c' b IHb]; intros e He.
  { exists e, 0. unfold Dtot in He. rewrite L_nil_r in He. change (zlen []) with 0 in *.
    assert (Hd : dist (c :: a) [] e 0 = e).
    { unfold dist, pre. rewrite firstn_nil, L_nil_r. lia. }
    assert (Hr : rdist (c :: a) [] e 0 = zlen (c :: a) - e).
    { unfold rdist, suf. rewrite skipn_nil, L_nil_r. change (zlen []) with 0. lia. }
    unfold Dtot. rewrite L_nil_r. change (zlen []) with 0. repeat split; lia. }
  destruct (Z.eq_dec e 0) as [->|Hne].
  { exists 0, 0. unfold dist, rdist, Dtot, pre, suf. cbn [Z.to_nat firstn skipn]. change (L [] []) with 0.
    pose proof (zlen_nonneg (c :: a)). pose proof (zlen_nonneg (c' :: b)). repeat split; lia. }
  unfold Dtot in He. rewrite L_cons in He. rewrite !zlen_cons in He.
  destruct (c =? c') eqn:E.
  - apply Z.eqb_eq in E. subst c'.
    destruct (IHa b e) as (x & y & Hx & Hy & H1 & H2); [unfold Dtot; lia|].
    exists (x + 1), (y + 1). rewrite !zlen_cons. repeat split; try lia.
    + unfold dist in *. rewrite !pre_cons by lia. rewrite L_cons, Z.eqb_refl. lia.
    + unfold rdist, Dtot in *. rewrite !suf_cons by lia. rewrite !zlen_cons, L_cons, Z.eqb_refl. lia.
  - destruct (Z.le_ge_cases (L (c :: a) b) (L a (c' :: b))) as [Hle|Hge].
    + destruct (IHa (c' :: b) (e - 1)) as (x & y & Hx & Hy & H1 & H2); [unfold Dtot; rewrite zlen_cons; lia|].
      exists (x + 1), y. rewrite !zlen_cons in *. repeat split; try lia.
      * unfold dist in *. rewrite pre_cons by lia.
        pose proof (proj2 (L_A_D (pre a x)) (pre (c' :: b) y) c). lia.
      * unfold rdist, Dtot in *. rewrite suf_cons by lia. rewrite !zlen_cons in *. rewrite L_cons, E. lia.
    + destruct (IHb (e - 1)) as (x & y & Hx & Hy & H1 & H2); [unfold Dtot; rewrite zlen_cons; lia|].
      exists x, (y + 1). rewrite !zlen_cons in *. repeat split; try lia.
      * unfold dist in *. rewrite pre_cons by lia.
        pose proof (proj2 (L_B_C (pre (c :: a) x)) (pre b y) c'). lia.
      * unfold rdist, Dtot in *. rewrite suf_cons by lia. rewrite !zlen_cons in *. rewrite L_cons, E. lia.
Qed.

(* ---------- from a cheap enough split to additivity of L ---------- *)
Lemma sub_pre l x : sub l 0 x = pre l x.
Proof. unfold sub, pre. cbn [Z.to_nat skipn]. now rewrite Z.sub_0_r. Qed.

Lemma sub_suf l x : 0 <= x <= zlen l -> sub l x (zlen l) = suf l x.
Proof. intro H. unfold sub, suf, zlen in *. apply firstn_all2. rewrite skipn_length. lia. Qed.

Lemma optimal_split a b ai bi s :
  0 <= ai -> 0 <= bi -> 0 <= s -> ai + s <= zlen a -> bi + s <= zlen b ->
  sub a ai (ai + s) = sub b bi (bi + s) ->
  dist a b ai bi + rdist a b (ai + s) (bi + s) <= Dtot a b ->
  L a b = L (sub a 0 ai) (sub b 0 bi) + s + L (sub a (ai + s) (zlen a)) (sub b (bi + s) (zlen b)).
Proof.
  intros Ha Hb Hs Hla Hlb Hsn Hle.
  rewrite !sub_pre, !sub_suf by lia.
  apply Z.le_antisymm; [unfold dist, rdist, Dtot in Hle; lia|].
  rewrite (sub_split a ai s Ha Hs Hla) at 3. rewrite (sub_split b bi s Hb Hs Hlb) at 3.
  rewrite Hsn, !sub_pre, !sub_suf by lia.
  pose proof (L_app_ge (pre a ai) (sub b bi (bi + s) ++ suf a (ai + s)) (pre b bi) (sub b bi (bi + s) ++ suf b (bi + s))) as H.
  rewrite L_common in H. rewrite sub_length in H by lia. lia.
Qed.
