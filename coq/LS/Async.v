(* Small-step interleaving model of the handler chain installed by cmd/textmapper/ls.go:
     protocol.Handlers(h) = CancelHandler(jsonrpc2.AsyncHandler(jsonrpc2.ReplyHandler(h)))   (jsonrpc2 v0.10.0)
   AsyncHandler: the connection's read loop calls the handler for request i in arrival order; the call
   creates channel c(i+1), spawns goroutine i and returns. Goroutine i blocks on c(i) (c(0) is closed
   from the start), then runs the inner handler; the handler's `reply` first closes c(i+1) and only then
   sends the response. protocol.ServerHandler calls `reply` after the server method returned.
   A handler body is a list of atomic micro-steps on the shared server state (each may emit notifications);
   goroutines interleave at micro-step granularity under an arbitrary scheduler. No proofs here. *)
From Coq Require Import List Arith.
Import ListNotations.

Section Async.
  Variables St Req Out Val : Type.

  Definition micro := St -> St * list Out.
  Variable body : Req -> list micro.       (* the server method, cut into atomic steps *)
  Variable resp : Req -> St -> Val.        (* the value handed to reply when the method returns *)

  Inductive gstate :=
  | Waiting                                (* not arrived yet, or blocked on <-waitForPrevious *)
  | Running (rest : list micro)
  | Replying (v : Val)                     (* unlockNext closed, innerReply not yet executed *)
  | Done.

  Inductive event := EvOut (o : Out) | EvResp (i : nat) (v : Val).

  Record config := mkC { arrived : nat; g : nat -> gstate; st : St; trace : list event }.

  Definition finished (x : gstate) : bool := match x with Replying _ | Done => true | _ => false end.

  Definition upd (f : nat -> gstate) (i : nat) (x : gstate) : nat -> gstate :=
    fun j => if Nat.eqb j i then x else f j.

  (* channel c(i) is closed: i = 0, or goroutine i-1 has called reply *)
  Definition released (c : config) (i : nat) : Prop := i = 0 \/ finished (g c (i - 1)) = true.

  Inductive step (reqs : list Req) : config -> config -> Prop :=
  | s_arrive c :
      arrived c < length reqs ->
      step reqs c (mkC (S (arrived c)) (g c) (st c) (trace c))
  | s_wake c i r :
      i < arrived c -> g c i = Waiting -> released c i -> nth_error reqs i = Some r ->
      step reqs c (mkC (arrived c) (upd (g c) i (Running (body r))) (st c) (trace c))
  | s_micro c i m rest :
      g c i = Running (m :: rest) ->
      step reqs c (mkC (arrived c) (upd (g c) i (Running rest)) (fst (m (st c))) (trace c ++ map EvOut (snd (m (st c)))))
  | s_reply c i r :
      g c i = Running [] -> nth_error reqs i = Some r ->
      step reqs c (mkC (arrived c) (upd (g c) i (Replying (resp r (st c)))) (st c) (trace c))
  | s_send c i v :
      g c i = Replying v ->
      step reqs c (mkC (arrived c) (upd (g c) i Done) (st c) (trace c ++ [EvResp i v])).

  Inductive reachable (reqs : list Req) (s0 : St) : config -> Prop :=
  | r_init : reachable reqs s0 (mkC 0 (fun _ => Waiting) s0 [])
  | r_step c c' : reachable reqs s0 c -> step reqs c c' -> reachable reqs s0 c'.

  (* ---- the sequential specification ---- *)
  Fixpoint exec (ms : list micro) (s : St) : St * list Out :=
    match ms with
    | [] => (s, [])
    | m :: t => let '(s1, o1) := m s in let '(s2, o2) := exec t s1 in (s2, o1 ++ o2)
    end.

  Definition all_micro (rs : list Req) : list micro := concat (map body rs).

  Definition seq_state (rs : list Req) (s0 : St) : St := fst (exec (all_micro rs) s0).
  Definition seq_outs (rs : list Req) (s0 : St) : list Out := snd (exec (all_micro rs) s0).
  (* v is the sequential answer to request i *)
  Definition seq_val (rs : list Req) (s0 : St) (i : nat) (v : Val) : Prop :=
    exists r, nth_error rs i = Some r /\ v = resp r (seq_state (firstn (S i) rs) s0).

  Fixpoint outs_of (t : list event) : list Out :=
    match t with [] => [] | EvOut o :: t' => o :: outs_of t' | EvResp _ _ :: t' => outs_of t' end.
End Async.
