(* Model of ls/server.go as a sequential state machine. The compiler and the identifier collector are
   oracles (Section variables), supplied per case by the harness — never axioms. Documents are keyed by an
   integer standing for the file name. *)
From Coq Require Import List ZArith Bool.
From TM Require Import Util.LineCol LS.Position.
Import ListNotations.
Local Open Scope Z_scope.

Record ident := mkId { id_off : Z; id_end : Z; id_kind : Z; id_decl : bool }.

(* a status.Error of compiler.Compile: offset, end offset, line, column, message *)
Definition cdiag := (Z * Z * Z * Z * list Z)%type.
(* an lsp.Diagnostic: start line, start character, end line, end character, message *)
Definition ldiag := (Z * Z * Z * Z * list Z)%type.
(* an lsp.Location: document, start line/char, end line/char *)
Definition loc := (Z * Z * Z * Z * Z)%type.

Inductive request :=
| ROpen (doc v : Z) (c : list Z)
| RChange (doc v : Z) (c : list Z)
| RClose (doc : Z)
| RDef (id doc line col : Z).

Inductive output :=
| Publish (doc v : Z) (ds : list ldiag)
| Reply (id : Z) (r : option (list loc)).       (* None = error response *)

Definition docs := list (Z * (list Z * Z)).

Fixpoint lookup (d : Z) (s : docs) : option (list Z * Z) :=
  match s with [] => None | (k, v) :: t => if k =? d then Some v else lookup d t end.
Fixpoint remove_doc (d : Z) (s : docs) : docs :=
  match s with [] => [] | (k, v) :: t => if k =? d then remove_doc d t else (k, v) :: remove_doc d t end.
Definition set_doc (d : Z) (v : list Z * Z) (s : docs) : docs := (d, v) :: remove_doc d s.

Definition uint32 (v : Z) : Z := v mod 4294967296.

(* strings.Cut(s, "\n"): the part before the first newline *)
Fixpoint cut_nl (s : list Z) : list Z :=
  match s with [] => [] | c :: t => if c =? NL then [] else c :: cut_nl t end.

Definition bytes_eqb (a b : list Z) : bool := if list_eq_dec Z.eq_dec a b then true else false.

Section Server.
  Variable compile : list Z -> list cdiag.
  Variable collect_ids : list Z -> list ident.

  (* typecheck: one lsp.Diagnostic per status.Error (repaired server: UTF-16 characters) *)
  Definition diag_of (content : list Z) (d : cdiag) : ldiag :=
    let '(off, en, line, col, msg) := d in
    let start := if (0 <? line) && (0 <? col) then out_position content off line col else (0, 0) in
    let rng := cut_nl (sub content off en) in
    (fst start, snd start, fst start, snd start + utf16_between content off (off + Z.of_nat (length rng)), msg).

  Definition typecheck (doc v : Z) (content : list Z) : output :=
    Publish doc (uint32 v) (map (diag_of content) (compile content)).

  Definition id_text (content : list Z) (i : ident) : list Z := sub content (id_off i) (id_end i).

  (* id.Location *)
  Definition location (doc : Z) (content : list Z) (i : ident) : loc :=
    let '(l, c) := position_of content (id_off i) in
    (doc, l, c, l, c + utf16_between content (id_off i) (id_end i)).

  Definition definition (s : docs) (doc line col : Z) : option (list loc) :=
    match lookup doc s with
    | None => None                                             (* "%s is not opened" *)
    | Some (content, _) =>
      match resolve_position content line col with
      | None => None
      | Some cursor =>
        let ids := collect_ids content in
        match find (fun i => (id_off i <=? cursor) && (cursor <=? id_end i)) ids with
        | None => Some []
        | Some cur =>
          if 0 <? id_kind cur then
            let same := filter (fun i => (id_kind i =? id_kind cur) && bytes_eqb (id_text content i) (id_text content cur)) ids in
            let decls := filter id_decl same in
            let refs := filter (fun i => negb (id_decl i)) same in
            let ret := if negb (Nat.eqb (length decls) 1) || id_decl cur then decls ++ refs else decls in
            Some (map (location doc content) ret)
          else Some []
        end
      end
    end.

  Definition step (s : docs) (r : request) : docs * list output :=
    match r with
    | ROpen doc v c => (set_doc doc (c, uint32 v) s, [typecheck doc v c])
    | RChange doc v c => (set_doc doc (c, uint32 v) s, [typecheck doc v c])
    | RClose doc => (remove_doc doc s, [])
    | RDef id doc line col => (s, [Reply id (definition s doc line col)])
    end.

  Fixpoint run (s : docs) (rs : list request) : list output :=
    match rs with
    | [] => []
    | r :: t => let '(s', o) := step s r in o ++ run s' t
    end.

  Fixpoint final (s : docs) (rs : list request) : docs :=
    match rs with [] => s | r :: t => final (fst (step s r)) t end.
End Server.
