(* Model of the position conversions of ls/server.go.
   Incoming: resolvePosition (LSP line / UTF-16 character -> byte offset).
   Outgoing: line from Node.LineColumn / status origin, character = number of UTF-16 code units between
   the line start and the offset (utf16Len of the repaired server); the pinned server sent byte columns.
   Texts are byte lists; runes are decoded like utf8.DecodeRuneInString (Lex.Tables.decode_rune). *)
From Coq Require Import List ZArith Bool.
From TM Require Import Lex.Tables Util.LineCol.
Import ListNotations.
Local Open Scope Z_scope.

Definition units (r : Z) : Z := if r >? 65535 then 2 else 1.

(* utf16Len(content, from, to): s = content[from:], n = to - from.
     for from < to { r, w := DecodeRuneInString(content[from:]); if w == 0 { break }; n++; if r > 0xffff { n++ }; from += w } *)
Fixpoint utf16_len (fuel : nat) (s : list Z) (n : Z) : Z :=
  match fuel with
  | O => 0
  | S k =>
    if n <=? 0 then 0 else
    let '(r, w) := decode_rune s in
    match w with
    | O => 0
    | _ => units r + utf16_len k (skipn w s) (n - Z.of_nat w)
    end
  end.

(* first loop of resolvePosition: skip `line` newlines *)
Fixpoint skip_lines (s : list Z) (line pos : Z) : option (list Z * Z) :=
  if line <=? 0 then Some (s, pos) else
  match s with
  | [] => None                                               (* "line %v does not exist" *)
  | c :: t => skip_lines t (if c =? NL then line - 1 else line) (pos + 1)
  end.

(* second loop: skip `col` UTF-16 code units *)
Fixpoint skip_cols (fuel : nat) (s : list Z) (col pos : Z) : option Z :=
  if col <=? 0 then Some pos else
  match fuel with
  | O => None
  | S k =>
    let '(r, w) := decode_rune s in
    if (r =? NL) || Nat.eqb w 0 then None                    (* "invalid column" *)
    else if r >? 65535 then
      if col - 1 =? 0 then None                              (* "between the utf-16 code units" *)
      else skip_cols k (skipn w s) (col - 2) (pos + Z.of_nat w)
    else skip_cols k (skipn w s) (col - 1) (pos + Z.of_nat w)
  end.

Definition resolve_position (content : list Z) (line col : Z) : option Z :=
  match skip_lines content line 0 with
  | None => None
  | Some (s, pos) => skip_cols (S (length s)) s col pos
  end.

Definition sub (content : list Z) (from to : Z) : list Z :=
  firstn (Z.to_nat (to - from)) (skipn (Z.to_nat from) content).

(* UTF-16 length of content[from:to] as the server computes it *)
Definition utf16_between (content : list Z) (from to : Z) : Z :=
  utf16_len (S (Z.to_nat (to - from))) (skipn (Z.to_nat from) content) (to - from).

(* outgoing position of a byte offset whose 1-based (line, byte column) is (l, c) *)
Definition out_position (content : list Z) (off l c : Z) : Z * Z :=
  (l - 1, utf16_between content (off - (c - 1)) off).

Definition position_of (content : list Z) (off : Z) : Z * Z :=
  let '(l, c) := line_col content off in out_position content off l c.

(* the pinned server: byte columns *)
Definition position_of_pinned (content : list Z) (off : Z) : Z * Z :=
  let '(l, c) := line_col content off in (l - 1, c - 1).
