(* Proofs about LS/Async.v, second part: exactly one response per call, and the chain never deadlocks. *)
From Coq Require Import List Arith Lia.
From TM Require Import LS.Async LS.Async_proofs.
Import ListNotations.

Section AsyncResp.
  Variables St Req Out Val : Type.
  Variable body : Req -> list (micro St Out).
  Variable resp : Req -> St -> Val.
  Variable reqs : list Req.
  Variable s0 : St.

  Notation config := (config St Out Val).
  Notation step := (step St Req Out Val body resp).
  Notation reachable := (reachable St Req Out Val body resp).
  Notation Waiting := (Waiting St Out Val).
  Notation Running := (Running St Out Val).
  Notation Replying := (Replying St Out Val).
  Notation Done := (Done St Out Val).
  Notation finished := (finished St Out Val).
  Notation upd := (upd St Out Val).

  (* number of responses to request i written so far *)
  Fixpoint count_resp (i : nat) (t : list (event Out Val)) : nat :=
    match t with
    | [] => 0
    | EvResp _ _ j _ :: t' => (if Nat.eqb j i then 1 else 0) + count_resp i t'
    | EvOut _ _ _ :: t' => count_resp i t'
    end.

  Lemma count_resp_app i t1 t2 : count_resp i (t1 ++ t2) = count_resp i t1 + count_resp i t2.
  Proof. induction t1 as [|[o|j v] t IH]; cbn [app count_resp]; lia. Qed.

  Lemma count_resp_outs i os : count_resp i (map (EvOut Out Val) os) = 0.
  Proof. induction os as [|o t IH]; cbn [map count_resp]; lia. Qed.

  Definition is_done (x : gstate St Out Val) : bool := match x with Async.Done _ _ _ => true | _ => false end.

  (* at every moment of every schedule: the response to request i has been written exactly once if its
     goroutine is Done, and not at all otherwise *)
  Lemma response_count c :
    reachable reqs s0 c -> forall i, count_resp i (trace _ _ _ c) = if is_done (g _ _ _ c i) then 1 else 0.
  Proof.
    induction 1 as [|c c' Hr IH Hs]; intro j; [reflexivity|].
    specialize (IH j). inversion Hs as [c0 Hlt|c0 i r Hi Hw Hrel Hnth|c0 i m rest Hrun|c0 i r Hrun Hnth|c0 i v Hrep]; subst; cbn [trace g].
    - exact IH.
    - unfold Async.upd. destruct (Nat.eqb j i) eqn:E; [|exact IH].
      apply Nat.eqb_eq in E. subst j. rewrite Hw in IH. exact IH.
    - rewrite count_resp_app, count_resp_outs, Nat.add_0_r.
      unfold Async.upd. destruct (Nat.eqb j i) eqn:E; [|exact IH].
      apply Nat.eqb_eq in E. subst j. rewrite Hrun in IH. exact IH.
    - unfold Async.upd. destruct (Nat.eqb j i) eqn:E; [|exact IH].
      apply Nat.eqb_eq in E. subst j. rewrite Hrun in IH. exact IH.
    - rewrite count_resp_app. cbn [count_resp]. unfold Async.upd.
      destruct (Nat.eqb j i) eqn:E.
      + apply Nat.eqb_eq in E. subst j. rewrite Hrep in IH. cbn [is_done] in *. rewrite Nat.eqb_refl. lia.
      + rewrite Nat.eqb_sym in E. rewrite E. lia.
  Qed.

  (* exactly one response per call: once every request has been answered, the trace holds exactly one
     response for each of them - and none for anything else *)
  Lemma exactly_one_response c :
    reachable reqs s0 c -> (forall i, i < length reqs -> g _ _ _ c i = Done) ->
    (forall i, i < length reqs -> count_resp i (trace _ _ _ c) = 1) /\
    (forall i, length reqs <= i -> count_resp i (trace _ _ _ c) = 0).
  Proof.
    intros Hr Hdone. split; intros i Hi.
    - rewrite (response_count c Hr i), (Hdone i Hi). reflexivity.
    - rewrite (response_count c Hr i).
      destruct (reachable_inv St Req Out Val body resp reqs s0 c Hr) as (k & executed & Hk & Harr & _ & Hhi & Hcur & _).
      assert (Hw : g _ _ _ c i = Waiting).
      { destruct (Nat.eq_dec i k) as [->|Hne]; [|apply Hhi; lia].
        destruct Hcur as [(Hc & _)|(r & rest & _ & _ & _ & Hlt)]; [exact Hc|lia]. }
      rewrite Hw. reflexivity.
  Qed.

  (* never two responses, at any moment *)
  Lemma at_most_one_response c i : reachable reqs s0 c -> count_resp i (trace _ _ _ c) <= 1.
  Proof. intro Hr. rewrite (response_count c Hr i). destruct (is_done _); lia. Qed.

  Lemma finished_range (gs : nat -> gstate St Out Val) : forall n,
    (forall i, i < n -> finished (gs i) = true) ->
    (forall i, i < n -> gs i = Done) \/ (exists i v, i < n /\ gs i = Replying v).
  Proof.
    induction n as [|n IH]; intro Hf; [left; intros; lia|].
    destruct IH as [Hall|(i & v & Hi & Hv)]; [intros; apply Hf; lia| |right; exists i, v; split; [lia|exact Hv]].
    specialize (Hf n (Nat.lt_succ_diag_r n)). destruct (gs n) eqn:E; try discriminate.
    - right. exists n, v. split; [lia|exact E].
    - left. intros i Hi. destruct (Nat.eq_dec i n) as [->|Hne]; [exact E|apply Hall; lia].
  Qed.

  (* no deadlock: from every reachable configuration either every request is answered or some step is enabled;
     so under any fair scheduler every call gets its (single) response *)
  Lemma progress c :
    reachable reqs s0 c ->
    (arrived _ _ _ c = length reqs /\ forall i, i < length reqs -> g _ _ _ c i = Done) \/ exists c', step reqs c c'.
  Proof.
    intro Hr. destruct (reachable_inv St Req Out Val body resp reqs s0 c Hr) as (k & executed & Hk & Harr & Hlo & Hhi & Hcur & _).
    destruct Hcur as [(Hw & _)|(r & rest & Hnth & Hrun & _ & Hlt)].
    - destruct (Nat.eq_dec k (arrived _ _ _ c)) as [Heq|Hne].
      + destruct (Nat.eq_dec (arrived _ _ _ c) (length reqs)) as [Hall|Hmore].
        * destruct (finished_range (g _ _ _ c) k Hlo) as [Hd|(i & v & Hi & Hv)].
          -- left. split; [exact Hall|]. intros i Hi. apply Hd. lia.
          -- right. eexists. eapply s_send. exact Hv.
        * right. eexists. apply s_arrive. lia.
      + right. assert (Hlt : k < arrived _ _ _ c) by lia.
        destruct (nth_error reqs k) as [r|] eqn:En; [|apply nth_error_None in En; lia].
        eexists. eapply (s_wake _ _ _ _ body resp reqs c k r Hlt Hw); [|exact En].
        unfold released. destruct k as [|k']; [now left|right]. replace (S k' - 1) with k' by lia. apply Hlo. lia.
    - right. destruct rest as [|m rest'].
      + eexists. eapply s_reply; eassumption.
      + eexists. eapply s_micro. exact Hrun.
  Qed.
End AsyncResp.
