(* Proofs about LS/Async.v: under every schedule the handler bodies run one at a time, in arrival order. *)
From Coq Require Import List Arith Lia.
From TM Require Import LS.Async.
Import ListNotations.

Section AsyncProofs.
  Variables St Req Out Val : Type.
  Variable body : Req -> list (micro St Out).
  Variable resp : Req -> St -> Val.

  Notation config := (config St Out Val).
  Notation step := (step St Req Out Val body resp).
  Notation reachable := (reachable St Req Out Val body resp).
  Notation exec := (exec St Out).
  Notation all_micro := (all_micro St Req Out body).
  Notation seq_val := (seq_val St Req Out Val body resp).
  Notation outs_of := (outs_of Out Val).
  Notation Waiting := (Waiting St Out Val).
  Notation Running := (Running St Out Val).
  Notation Replying := (Replying St Out Val).
  Notation Done := (Done St Out Val).
  Notation finished := (finished St Out Val).
  Notation upd := (upd St Out Val).

  Lemma exec_app : forall a b s,
    exec (a ++ b) s = let '(s1, o1) := exec a s in let '(s2, o2) := exec b s1 in (s2, o1 ++ o2).
  Proof.
    induction a as [|m a IH]; intros b s; cbn [app Async.exec].
    - destruct (exec b s); reflexivity.
    - destruct (m s) as [s1 o1]. rewrite IH. destruct (exec a s1) as [s2 o2]. destruct (exec b s2) as [s3 o3].
      now rewrite app_assoc.
  Qed.

  Lemma exec_snoc a m s :
    exec (a ++ [m]) s = (fst (m (fst (exec a s))), snd (exec a s) ++ snd (m (fst (exec a s)))).
  Proof.
    rewrite exec_app. destruct (exec a s) as [s1 o1]. cbn [Async.exec fst snd].
    destruct (m s1) as [s2 o2]. cbn. now rewrite app_nil_r.
  Qed.

  Lemma outs_of_app t1 t2 : outs_of (t1 ++ t2) = outs_of t1 ++ outs_of t2.
  Proof. induction t1 as [|[o|i v] t1 IH]; cbn; [reflexivity | now rewrite IH | exact IH]. Qed.

  Lemma outs_of_map_out os : outs_of (map (EvOut Out Val) os) = os.
  Proof. induction os as [|o os IH]; cbn; [reflexivity | now rewrite IH]. Qed.

  Lemma all_micro_snoc rs r : all_micro (rs ++ [r]) = all_micro rs ++ body r.
  Proof. unfold Async.all_micro. rewrite map_app, concat_app. cbn. now rewrite app_nil_r. Qed.

  Lemma firstn_S_nth_error {A} : forall (l : list A) k x, nth_error l k = Some x -> firstn (S k) l = firstn k l ++ [x].
  Proof.
    induction l as [|a l IH]; intros k x H; [destruct k; discriminate|].
    destruct k as [|k]; cbn in H; [injection H as ->; reflexivity|].
    cbn [firstn app]. f_equal. now apply IH.
  Qed.

  Lemma upd_same f i x : upd f i x i = x.
  Proof. unfold Async.upd. now rewrite Nat.eqb_refl. Qed.
  Lemma upd_other f i x j : j <> i -> upd f i x j = f j.
  Proof. intro H. unfold Async.upd. destruct (Nat.eqb_spec j i); [contradiction|reflexivity]. Qed.

  Variable reqs : list Req.
  Variable s0 : St.

  (* k bodies have completed; body k has executed the micro-steps `executed` *)
  Definition inv (c : config) : Prop :=
    exists k executed,
      k <= arrived _ _ _ c /\ arrived _ _ _ c <= length reqs /\
      (forall i, i < k -> finished (g _ _ _ c i) = true) /\
      (forall i, k < i -> g _ _ _ c i = Waiting) /\
      ((g _ _ _ c k = Waiting /\ executed = []) \/
       (exists r rest, nth_error reqs k = Some r /\ g _ _ _ c k = Running rest /\ body r = executed ++ rest /\ k < arrived _ _ _ c)) /\
      st _ _ _ c = fst (exec (all_micro (firstn k reqs) ++ executed) s0) /\
      outs_of (trace _ _ _ c) = snd (exec (all_micro (firstn k reqs) ++ executed) s0) /\
      (forall i v, g _ _ _ c i = Replying v -> seq_val reqs s0 i v) /\
      (forall i v, In (EvResp Out Val i v) (trace _ _ _ c) -> seq_val reqs s0 i v).

  Lemma inv_init : inv (mkC St Out Val 0 (fun _ => Waiting) s0 []).
  Proof.
    exists 0, []. cbn. split; [lia|]. split; [lia|]. split; [intros; lia|]. split; [intros; reflexivity|].
    split; [left; split; reflexivity|]. split; [reflexivity|]. split; [reflexivity|].
    split; [intros; discriminate | intros i v []].
  Qed.

  (* which goroutine can be in which state *)
  Lemma cur_index c k i :
    (forall j, j < k -> finished (g _ _ _ c j) = true) -> (forall j, k < j -> g _ _ _ c j = Waiting) ->
    (exists rest, g _ _ _ c i = Running rest) -> i = k.
  Proof.
    intros Hlo Hhi (rest & Hr). destruct (lt_eq_lt_dec i k) as [[Hlt|Heq]|Hgt]; [|assumption|].
    - specialize (Hlo i Hlt). rewrite Hr in Hlo. discriminate.
    - specialize (Hhi i Hgt). rewrite Hr in Hhi. discriminate.
  Qed.

  Lemma inv_step c c' : inv c -> step reqs c c' -> inv c'.
  Proof.
    intros (k & executed & Hk & Harr & Hlo & Hhi & Hcur & Hst & Houts & Hrep & Htr) Hstep.
    inversion Hstep as [c0 Hlt | c0 i r Hi Hw Hrel Hnth | c0 i m rest Hrun | c0 i r Hrun Hnth | c0 i v Hrp]; subst c0; subst c'.
    - (* arrive *)
      exists k, executed. cbn [Async.arrived Async.g Async.st Async.trace]. repeat split; try assumption; try lia.
      destruct Hcur as [Hc|(r & rest & H1 & H2 & H3 & H4)]; [left; exact Hc|right; exists r, rest; repeat split; try assumption; lia].
    - (* wake: only goroutine k can wake *)
      assert (i = k).
      { destruct (lt_eq_lt_dec i k) as [[Hlt|Heq]|Hgt]; [|assumption|].
        - specialize (Hlo i Hlt). rewrite Hw in Hlo. discriminate.
        - exfalso. destruct Hrel as [H0|Hfin]; [lia|].
          destruct (Nat.eq_dec (i - 1) k) as [Hek|Hnk].
          + rewrite Hek in Hfin. destruct Hcur as [(Hc & _)|(r' & rest & _ & Hc & _)]; rewrite Hc in Hfin; discriminate.
          + rewrite (Hhi (i - 1)) in Hfin by lia. discriminate. }
      subst i. destruct Hcur as [(Hc & Hex)|(r' & rest & _ & Hc & _)]; [|rewrite Hc in Hw; discriminate]. subst executed.
      exists k, []. cbn [Async.arrived Async.g Async.st Async.trace]. repeat split; try assumption; try lia.
      + intros j Hj. rewrite upd_other by lia. now apply Hlo.
      + intros j Hj. rewrite upd_other by lia. now apply Hhi.
      + right. exists r, (body r). rewrite upd_same. repeat split; try assumption; reflexivity.
      + intros j v Hj. destruct (Nat.eq_dec j k) as [->|Hne]; [rewrite upd_same in Hj; discriminate|].
        rewrite upd_other in Hj by assumption. now apply Hrep.
    - (* micro-step: only goroutine k can be running *)
      assert (i = k) by (eapply (cur_index c k); eauto). subst i.
      destruct Hcur as [(Hc & _)|(r & rest0 & Hnth & Hc & Hbody & Hka)]; [rewrite Hc in Hrun; discriminate|].
      rewrite Hc in Hrun. injection Hrun as ->.
      exists k, (executed ++ [m]). cbn [Async.arrived Async.g Async.st Async.trace]. repeat split; try assumption; try lia.
      + intros j Hj. rewrite upd_other by lia. now apply Hlo.
      + intros j Hj. rewrite upd_other by lia. now apply Hhi.
      + right. exists r, rest. rewrite upd_same. repeat split; try assumption. rewrite Hbody, <- app_assoc. reflexivity.
      + rewrite app_assoc, exec_snoc. cbn [fst]. now rewrite <- Hst.
      + rewrite outs_of_app, outs_of_map_out, app_assoc, exec_snoc. cbn [snd]. now rewrite <- Hst, <- Houts.
      + intros j v Hj. destruct (Nat.eq_dec j k) as [->|Hne]; [rewrite upd_same in Hj; discriminate|].
        rewrite upd_other in Hj by assumption. now apply Hrep.
      + intros j v Hin. apply in_app_or in Hin. destruct Hin as [Hin|Hin]; [now apply Htr|].
        apply in_map_iff in Hin. destruct Hin as (o & Ho & _). discriminate.
    - (* reply: body k is complete, the chain is unlocked *)
      assert (i = k) by (eapply (cur_index c k); eauto). subst i.
      destruct Hcur as [(Hc & _)|(r' & rest0 & Hnth' & Hc & Hbody & Hka)]; [rewrite Hc in Hrun; discriminate|].
      rewrite Hc in Hrun. injection Hrun as ->. rewrite Hnth in Hnth'. injection Hnth' as <-.
      rewrite app_nil_r in Hbody.
      assert (Hall : all_micro (firstn (S k) reqs) ++ [] = all_micro (firstn k reqs) ++ executed).
      { rewrite app_nil_r, (firstn_S_nth_error _ _ _ Hnth), all_micro_snoc, Hbody. reflexivity. }
      exists (S k), []. cbn [Async.arrived Async.g Async.st Async.trace]. repeat split; try lia.
      + intros j Hj. destruct (Nat.eq_dec j k) as [->|Hne]; [rewrite upd_same; reflexivity|].
        rewrite upd_other by assumption. apply Hlo. lia.
      + intros j Hj. rewrite upd_other by lia. apply Hhi. lia.
      + left. split; [|reflexivity]. rewrite upd_other by lia. apply Hhi. lia.
      + now rewrite Hall.
      + now rewrite Hall.
      + intros j v Hj. destruct (Nat.eq_dec j k) as [->|Hne].
        * rewrite upd_same in Hj. injection Hj as <-. exists r. split; [assumption|].
          unfold Async.seq_state. rewrite Hst. f_equal. f_equal. rewrite <- Hall. now rewrite app_nil_r.
        * rewrite upd_other in Hj by assumption. now apply Hrep.
      + assumption.
    - (* send the response *)
      assert (Hik : i < k).
      { destruct (lt_eq_lt_dec i k) as [[Hlt|Heq]|Hgt]; [assumption| |].
        - subst i. destruct Hcur as [(Hc & _)|(r & rest & _ & Hc & _)]; rewrite Hc in Hrp; discriminate.
        - rewrite (Hhi i Hgt) in Hrp. discriminate. }
      exists k, executed. cbn [Async.arrived Async.g Async.st Async.trace]. repeat split; try assumption; try lia.
      + intros j Hj. destruct (Nat.eq_dec j i) as [->|Hne]; [rewrite upd_same; reflexivity|].
        rewrite upd_other by assumption. now apply Hlo.
      + intros j Hj. rewrite upd_other by lia. now apply Hhi.
      + rewrite upd_other by lia. exact Hcur.
      + rewrite outs_of_app. cbn. now rewrite app_nil_r.
      + intros j v' Hj. destruct (Nat.eq_dec j i) as [->|Hne]; [rewrite upd_same in Hj; discriminate|].
        rewrite upd_other in Hj by assumption. now apply Hrep.
      + intros j v' Hin. apply in_app_or in Hin. destruct Hin as [Hin|[Heq|[]]]; [now apply Htr|].
        injection Heq as <- <-. now apply Hrep.
  Qed.

  Lemma reachable_inv c : reachable reqs s0 c -> inv c.
  Proof. induction 1; [apply inv_init | eapply inv_step; eauto]. Qed.

  (* mutual exclusion: under every schedule at most one handler body is executing *)
  Lemma at_most_one_running c i j ri rj :
    reachable reqs s0 c -> g _ _ _ c i = Running ri -> g _ _ _ c j = Running rj -> i = j.
  Proof.
    intros Hr Hi Hj. destruct (reachable_inv c Hr) as (k & executed & _ & _ & Hlo & Hhi & _).
    rewrite (cur_index c k i), (cur_index c k j); eauto.
  Qed.

  (* a body starts only after all earlier requests have replied *)
  Lemma running_after_predecessors c i ri :
    reachable reqs s0 c -> g _ _ _ c i = Running ri -> forall j, j < i -> finished (g _ _ _ c j) = true.
  Proof.
    intros Hr Hi j Hj. destruct (reachable_inv c Hr) as (k & executed & _ & _ & Hlo & Hhi & _).
    assert (i = k) by (eapply (cur_index c k); eauto). subst. now apply Hlo.
  Qed.

  (* async_is_sequential: whatever the schedule, when every request has been answered the server state,
     the sequence of notifications and every response value are those of the sequential specification *)
  Lemma async_is_sequential c :
    reachable reqs s0 c -> arrived _ _ _ c = length reqs -> (forall i, i < length reqs -> g _ _ _ c i = Done) ->
    st _ _ _ c = seq_state St Req Out body reqs s0 /\
    outs_of (trace _ _ _ c) = seq_outs St Req Out body reqs s0 /\
    (forall i v, In (EvResp Out Val i v) (trace _ _ _ c) -> seq_val reqs s0 i v).
  Proof.
    intros Hr Harr Hdone. destruct (reachable_inv c Hr) as (k & executed & Hk & _ & Hlo & Hhi & Hcur & Hst & Houts & _ & Htr).
    assert (k = length reqs).
    { destruct (Nat.eq_dec k (length reqs)) as [|Hne]; [assumption|]. exfalso.
      assert (Hlt : k < length reqs) by lia. specialize (Hdone k Hlt).
      destruct Hcur as [(Hc & _)|(r & rest & _ & Hc & _)]; rewrite Hc in Hdone; discriminate. }
    subst k. destruct Hcur as [(_ & ->)|(r & rest & _ & _ & _ & Hlt)]; [|lia].
    rewrite firstn_all, app_nil_r in Hst, Houts. repeat split; assumption.
  Qed.

  (* at every moment of every schedule: state and notifications are a prefix of the sequential run *)
  Lemma async_prefix c :
    reachable reqs s0 c ->
    exists k executed rest,
      all_micro reqs = (all_micro (firstn k reqs) ++ executed) ++ rest /\
      st _ _ _ c = fst (exec (all_micro (firstn k reqs) ++ executed) s0) /\
      outs_of (trace _ _ _ c) = snd (exec (all_micro (firstn k reqs) ++ executed) s0).
  Proof.
    intro Hr. destruct (reachable_inv c Hr) as (k & executed & Hk & Harr & _ & _ & Hcur & Hst & Houts & _).
    destruct Hcur as [(_ & ->)|(r & rest & Hnth & _ & Hbody & _)].
    - exists k, [], (all_micro (skipn k reqs)). repeat split; try assumption.
      rewrite app_nil_r. unfold Async.all_micro. rewrite <- concat_app, <- map_app, firstn_skipn. reflexivity.
    - exists k, executed, (rest ++ all_micro (skipn (S k) reqs)). repeat split; try assumption.
      rewrite <- (firstn_skipn (S k) reqs) at 1. unfold Async.all_micro at 1. rewrite map_app, concat_app.
      fold (all_micro (firstn (S k) reqs)). fold (all_micro (skipn (S k) reqs)).
      rewrite (firstn_S_nth_error _ _ _ Hnth), all_micro_snoc, Hbody. now rewrite <- !app_assoc.
  Qed.
End AsyncProofs.
