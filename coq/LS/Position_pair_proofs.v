(* Proofs about LS/Position.v, second part: incoming positions around runes beyond the BMP (two UTF-16 code
   units, a surrogate pair). *)
From Coq Require Import List ZArith Bool Lia.
From TM Require Import Lib.ListX Lex.Tables Util.LineCol Util.LineCol_proofs LS.Position LS.Position_proofs.
Import ListNotations.
Local Open Scope Z_scope.

(* a column that points between the two code units of a pair is rejected: n bytes of whole runes of the line,
   then a rune above U+FFFF, and the column = (UTF-16 length of those n bytes) + 1 *)
Lemma skip_cols_inside_pair s n : line_boundary s n ->
  forall r w, decode_rune (skipn n s) = (r, w) -> (0 < w)%nat -> 65535 < r ->
  forall fuel1 fuel2 pos, (n < fuel1)%nat -> (n < fuel2)%nat ->
  skip_cols fuel2 s (utf16_len fuel1 s (Z.of_nat n) + 1) pos = None.
Proof.
  induction 1 as [s|s r0 w0 n Hdec Hw Hr Hlb IH]; intros r w Hd Hwp Hbig fuel1 fuel2 pos H1 H2.
  - cbn [skipn] in Hd. destruct fuel1; [lia|]. cbn [utf16_len]. cbn [Z.of_nat Z.leb Z.compare].
    destruct fuel2; [lia|]. cbn [skip_cols Z.add Z.leb Z.compare]. rewrite Hd.
    replace (r =? NL) with false by (symmetry; apply Z.eqb_neq; unfold NL; lia).
    destruct w; [lia|]. cbn [Nat.eqb orb].
    replace (r >? 65535) with true by (symmetry; apply Z.gtb_lt; lia). reflexivity.
  - destruct fuel1 as [|k1]; [lia|]. destruct fuel2 as [|k2]; [lia|].
    cbn [utf16_len]. replace (Z.of_nat (w0 + n) <=? 0) with false by (symmetry; apply Z.leb_gt; lia).
    rewrite Hdec. destruct w0 as [|w']; [lia|].
    replace (Z.of_nat (S w' + n) - Z.of_nat (S w')) with (Z.of_nat n) by lia.
    set (U := utf16_len k1 (skipn (S w') s) (Z.of_nat n)).
    assert (HU : 0 <= U) by apply utf16_len_nonneg.
    cbn [skip_cols]. rewrite Hdec.
    replace (units r0 + U + 1 <=? 0) with false by (symmetry; apply Z.leb_gt; unfold units; destruct (r0 >? 65535); lia).
    replace (r0 =? NL) with false by (symmetry; apply Z.eqb_neq; exact Hr). cbn [Nat.eqb orb].
    assert (Hd' : decode_rune (skipn n (skipn (S w') s)) = (r, w)).
    { rewrite skipn_skipn'. replace (n + S w')%nat with (S w' + n)%nat by lia. exact Hd. }
    unfold units. destruct (r0 >? 65535).
    + replace (2 + U + 1 - 1 =? 0) with false by (symmetry; apply Z.eqb_neq; lia).
      replace (2 + U + 1 - 2) with (U + 1) by lia. unfold U. apply (IH r w Hd' Hwp Hbig); lia.
    + replace (1 + U + 1 - 1) with (U + 1) by lia. unfold U. apply (IH r w Hd' Hwp Hbig); lia.
Qed.

(* ... while the column just after the pair is two units further and resolves to the offset after the rune *)
Lemma skip_cols_after_pair s n : line_boundary s n ->
  forall r w, decode_rune (skipn n s) = (r, w) -> (0 < w)%nat -> 65535 < r ->
  forall fuel1 fuel2 pos, (n + w < fuel1)%nat -> (n + w < fuel2)%nat ->
  line_boundary s (n + w) /\
  utf16_len fuel1 s (Z.of_nat (n + w)) = utf16_len fuel1 s (Z.of_nat n) + 2 /\
  skip_cols fuel2 s (utf16_len fuel1 s (Z.of_nat n) + 2) pos = Some (pos + Z.of_nat (n + w)).
Proof.
  intros Hlb r w Hd Hwp Hbig fuel1 fuel2 pos H1 H2.
  assert (Hlb' : line_boundary s (n + w)).
  { clear H1 H2. induction Hlb as [s|s r0 w0 n Hdec Hw Hr Hl IH].
    - cbn [skipn plus] in *. replace w with (w + 0)%nat by lia. eapply lb_step; [exact Hd|exact Hwp|unfold NL; lia|constructor].
    - replace (w0 + n + w)%nat with (w0 + (n + w))%nat by lia. eapply lb_step; [exact Hdec|exact Hw|exact Hr|].
      apply IH. rewrite skipn_skipn'. replace (n + w0)%nat with (w0 + n)%nat by lia. exact Hd. }
  assert (Hlen : utf16_len fuel1 s (Z.of_nat (n + w)) = utf16_len fuel1 s (Z.of_nat n) + 2).
  { clear H2 Hlb'. revert fuel1 H1. induction Hlb as [s|s r0 w0 n Hdec Hw Hr Hl IH]; intros fuel1 H1.
    - cbn [skipn plus] in *. destruct fuel1 as [|k]; [lia|]. cbn [utf16_len].
      replace (Z.of_nat w <=? 0) with false by (symmetry; apply Z.leb_gt; lia).
      cbn [Z.of_nat Z.leb Z.compare]. rewrite Hd. destruct w as [|w']; [lia|].
      replace (Z.of_nat (S w') - Z.of_nat (S w')) with 0 by lia.
      destruct k; cbn [utf16_len Z.leb Z.compare]; unfold units;
        replace (r >? 65535) with true by (symmetry; apply Z.gtb_lt; lia); lia.
    - destruct fuel1 as [|k]; [lia|]. cbn [utf16_len].
      replace (Z.of_nat (w0 + n + w) <=? 0) with false by (symmetry; apply Z.leb_gt; lia).
      replace (Z.of_nat (w0 + n) <=? 0) with false by (symmetry; apply Z.leb_gt; lia).
      rewrite Hdec. destruct w0 as [|w']; [lia|].
      replace (Z.of_nat (S w' + n + w) - Z.of_nat (S w')) with (Z.of_nat (n + w)) by lia.
      replace (Z.of_nat (S w' + n) - Z.of_nat (S w')) with (Z.of_nat n) by lia.
      rewrite IH; [lia| |lia].
      rewrite skipn_skipn'. replace (n + S w')%nat with (S w' + n)%nat by lia. exact Hd. }
  split; [exact Hlb'|]. split; [exact Hlen|].
  rewrite <- Hlen. apply (cols_roundtrip s (n + w) Hlb'); lia.
Qed.
