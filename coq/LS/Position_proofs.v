(* Proofs about LS/Position.v: incoming and outgoing position conversions are inverse to each other. *)
From Coq Require Import List ZArith Bool Lia.
From TM Require Import Lib.ListX Lex.Tables Util.LineCol Util.LineCol_proofs LS.Position.
Import ListNotations.
Local Open Scope Z_scope.

(* n bytes of s form whole runes of one line (none of them a newline): the offsets at which an LSP
   position can point *)
Inductive line_boundary : list Z -> nat -> Prop :=
| lb_0 s : line_boundary s 0
| lb_step s r w n : decode_rune s = (r, w) -> (0 < w)%nat -> r <> NL ->
    line_boundary (skipn w s) n -> line_boundary s (w + n).

Lemma utf16_len_nonneg : forall fuel s n, 0 <= utf16_len fuel s n.
Proof.
  induction fuel as [|k IH]; intros s n; cbn [utf16_len]; [lia|].
  destruct (n <=? 0); [lia|]. destruct (decode_rune s) as [r w]. destruct w; [lia|].
  specialize (IH (skipn (S w) s) (n - Z.of_nat (S w))). unfold units. destruct (r >? 65535); lia.
Qed.

Lemma cols_roundtrip s n : line_boundary s n ->
  forall fuel1 fuel2 pos, (n < fuel1)%nat -> (n < fuel2)%nat ->
  skip_cols fuel2 s (utf16_len fuel1 s (Z.of_nat n)) pos = Some (pos + Z.of_nat n).
Proof.
  induction 1 as [s|s r w n Hdec Hw Hr Hlb IH]; intros fuel1 fuel2 pos H1 H2.
  - destruct fuel1; [lia|]. cbn [utf16_len]. cbn [Z.of_nat Z.leb Z.compare].
    destruct fuel2; cbn; f_equal; lia.
  - destruct fuel1 as [|k1]; [lia|]. destruct fuel2 as [|k2]; [lia|].
    cbn [utf16_len]. replace (Z.of_nat (w + n) <=? 0) with false by (symmetry; apply Z.leb_gt; lia).
    rewrite Hdec. destruct w as [|w']; [lia|].
    replace (Z.of_nat (S w' + n) - Z.of_nat (S w')) with (Z.of_nat n) by lia.
    set (U := utf16_len k1 (skipn (S w') s) (Z.of_nat n)).
    assert (HU : 0 <= U) by apply utf16_len_nonneg.
    cbn [skip_cols]. rewrite Hdec.
    replace (units r + U <=? 0) with false by (symmetry; apply Z.leb_gt; unfold units; destruct (r >? 65535); lia).
    replace (r =? NL) with false by (symmetry; apply Z.eqb_neq; exact Hr). cbn [Nat.eqb orb].
    unfold units. destruct (r >? 65535).
    + replace (2 + U - 1 =? 0) with false by (symmetry; apply Z.eqb_neq; lia).
      replace (2 + U - 2) with U by lia. unfold U. rewrite IH by lia. f_equal; lia.
    + replace (1 + U - 1) with U by lia. unfold U. rewrite IH by lia. f_equal; lia.
Qed.

Lemma skip_lines_0 s pos : skip_lines s 0 pos = Some (s, pos).
Proof. destruct s; reflexivity. Qed.

Lemma count_nl_nonneg s : 0 <= count_nl s.
Proof. induction s as [|c t IH]; cbn [count_nl]; [lia|]. destruct (c =? NL); lia. Qed.

Lemma count_nl_last s : s <> [] -> last s 0 = NL -> 1 <= count_nl s.
Proof.
  induction s as [|c t IH]; intros Hne Hl; [congruence|]. cbn [count_nl].
  destruct t as [|d t'].
  - cbn in Hl. subst c. cbn. lia.
  - assert (Hl' : last (d :: t') 0 = NL) by exact Hl.
    specialize (IH ltac:(discriminate) Hl'). destruct (c =? NL); lia.
Qed.

Lemma skip_lines_pre : forall pre x pos, (pre = [] \/ last pre 0 = NL) ->
  skip_lines (pre ++ x) (count_nl pre) pos = Some (x, pos + Z.of_nat (length pre)).
Proof.
  induction pre as [|c t IH]; intros x pos Hpre.
  - cbn [app count_nl length]. rewrite skip_lines_0. f_equal. f_equal. lia.
  - assert (Hlast : last (c :: t) 0 = NL) by (destruct Hpre; [discriminate|assumption]).
    pose proof (count_nl_last (c :: t) ltac:(discriminate) Hlast) as Hge.
    cbn [app skip_lines]. replace (count_nl (c :: t) <=? 0) with false by (symmetry; apply Z.leb_gt; lia).
    cbn [count_nl length]. destruct (c =? NL) eqn:Hc.
    + replace (1 + count_nl t - 1) with (count_nl t) by lia.
      rewrite IH; [f_equal; f_equal; lia|].
      destruct t as [|d t']; [now left|right; exact Hlast].
    + replace (0 + count_nl t) with (count_nl t) by lia.
      destruct t as [|d t']; [cbn in Hlast; apply Z.eqb_neq in Hc; congruence|].
      rewrite IH; [f_equal; f_equal; lia|]. right; exact Hlast.
Qed.

(* position_round_trip: for every text and every offset that is a rune boundary of its line, converting
   the offset to an outgoing LSP position (line, UTF-16 character) and resolving that position again
   gives the offset back. The offset is given by the decomposition of the text around it. *)
Lemma position_round_trip pre mid rest :
  (pre = [] \/ last pre 0 = NL) -> ~ In NL mid -> line_boundary (mid ++ rest) (length mid) ->
  let content := pre ++ mid ++ rest in
  let off := Z.of_nat (length pre + length mid) in
  resolve_position content (fst (position_of content off)) (snd (position_of content off)) = Some off.
Proof.
  intros Hpre Hmid Hlb content off. unfold position_of, off, content.
  rewrite (line_col_decl pre mid rest Hpre Hmid). unfold out_position, utf16_between. cbn [fst snd].
  replace (1 + count_nl pre - 1) with (count_nl pre) by lia.
  replace (Z.of_nat (length pre + length mid) - (Z.of_nat (length mid) + 1 - 1)) with (Z.of_nat (length pre)) by lia.
  replace (Z.of_nat (length pre + length mid) - Z.of_nat (length pre)) with (Z.of_nat (length mid)) by lia.
  rewrite !Nat2Z.id. rewrite skipn_app, skipn_all, Nat.sub_diag. cbn [app skipn].
  unfold resolve_position. rewrite skip_lines_pre by exact Hpre.
  rewrite (cols_roundtrip _ _ Hlb); [f_equal; lia | lia | rewrite app_length; lia].
Qed.

(* consequence: distinct rune boundaries of a line have distinct outgoing positions (positions identify
   offsets), stated through the round trip *)

(* the pinned server sent byte columns: refuted as soon as a non-ASCII rune precedes the offset *)
Lemma pinned_positions_refuted :
  exists content off,
    position_of_pinned content off <> position_of content off /\
    resolve_position content (fst (position_of_pinned content off)) (snd (position_of_pinned content off)) <> Some off.
Proof. exists [195; 169; 32; 97], 3. split; vm_compute; discriminate. Qed.
