(* Proofs about LS/Server.v (the sequential server). *)
From Coq Require Import List ZArith Bool Lia.
From TM Require Import Util.LineCol LS.Position LS.Server.
Import ListNotations.
Local Open Scope Z_scope.

Section ServerProofs.
  Variable compile : list Z -> list cdiag.
  Variable collect_ids : list Z -> list ident.
  Notation run := (run compile collect_ids).
  Notation step := (step compile collect_ids).
  Notation final := (final compile collect_ids).
  Notation typecheck := (typecheck compile).
  Notation definition := (definition collect_ids).

  Definition is_publish (o : output) : bool := match o with Publish _ _ _ => true | _ => false end.

  (* the open/change requests of a history *)
  Fixpoint changes (rs : list request) : list (Z * Z * list Z) :=
    match rs with
    | [] => []
    | ROpen d v c :: t | RChange d v c :: t => (d, v, c) :: changes t
    | _ :: t => changes t
    end.

  (* diagnostics_in_order_with_version: the published diagnostics of any history are, in request order,
     exactly one per open/change: same document, that request's version, diagnostics of that content *)
  Lemma diagnostics_in_order : forall rs s,
    filter is_publish (run s rs) = map (fun '(d, v, c) => typecheck d v c) (changes rs).
  Proof.
    induction rs as [|r t IH]; intro s; [reflexivity|].
    destruct r as [d v c|d v c|d|i d l c]; cbn [Server.run Server.step changes app filter is_publish map]; rewrite ?IH; reflexivity.
  Qed.

  Lemma run_app : forall a b s, run s (a ++ b) = run s a ++ run (final s a) b.
  Proof.
    induction a as [|r a IH]; intros b s; [reflexivity|].
    cbn [app Server.run Server.final]. destruct (step s r) as [s' o] eqn:E. cbn [fst]. now rewrite IH, app_assoc.
  Qed.

  Lemma lookup_remove_same d s : lookup d (remove_doc d s) = None.
  Proof. induction s as [|[k v] s IH]; [reflexivity|]. cbn [remove_doc]. destruct (k =? d) eqn:E; [exact IH|]. cbn [lookup]. now rewrite E. Qed.

  Lemma lookup_remove_other d d' s : d' <> d -> lookup d (remove_doc d' s) = lookup d s.
  Proof.
    intro H. induction s as [|[k v] s IH]; [reflexivity|]. cbn [remove_doc lookup].
    destruct (k =? d') eqn:E1; destruct (k =? d) eqn:E2; cbn [lookup]; rewrite ?E2; try exact IH; try reflexivity.
    apply Z.eqb_eq in E1, E2. congruence.
  Qed.

  Lemma lookup_set_same d v s : lookup d (set_doc d v s) = Some v.
  Proof. unfold set_doc. cbn [lookup]. now rewrite Z.eqb_refl. Qed.

  Lemma lookup_set_other d d' v s : d' <> d -> lookup d (set_doc d' v s) = lookup d s.
  Proof. intro H. unfold set_doc. cbn [lookup]. replace (d' =? d) with false by (symmetry; now apply Z.eqb_neq). now apply lookup_remove_other. Qed.

  (* what the latest open/change/close of a history leaves for a document *)
  Fixpoint latest (doc : Z) (cur : option (list Z * Z)) (rs : list request) : option (list Z * Z) :=
    match rs with
    | [] => cur
    | ROpen d v c :: t | RChange d v c :: t => latest doc (if d =? doc then Some (c, uint32 v) else cur) t
    | RClose d :: t => latest doc (if d =? doc then None else cur) t
    | RDef _ _ _ _ :: t => latest doc cur t
    end.

  Lemma lookup_final : forall rs s doc, lookup doc (final s rs) = latest doc (lookup doc s) rs.
  Proof.
    induction rs as [|r t IH]; intros s doc; [reflexivity|].
    destruct r as [d v c|d v c|d|i d l c]; cbn [Server.final Server.step fst latest]; rewrite IH; f_equal;
      try reflexivity; destruct (d =? doc) eqn:E;
      try (apply Z.eqb_eq in E; subst; first [apply lookup_set_same | apply lookup_remove_same]);
      try (apply Z.eqb_neq in E; first [now apply lookup_set_other | now apply lookup_remove_other]).
  Qed.

  (* definition_uses_latest: a definition request at the end of any history is answered from the content
     of the latest open/change of that document (error if it was closed since or never opened) *)
  Lemma definition_uses_latest pre id doc line col :
    run [] (pre ++ [RDef id doc line col]) =
    run [] pre ++ [Reply id (definition (match latest doc None pre with Some x => [(doc, x)] | None => [] end) doc line col)].
  Proof.
    rewrite run_app. f_equal. cbn [Server.run Server.step app]. f_equal. f_equal.
    unfold Server.definition. rewrite lookup_final. cbn [lookup].
    destruct (latest doc None pre) as [x|]; cbn [lookup]; [now rewrite Z.eqb_refl|reflexivity].
  Qed.

  (* same_name_locations: every location of a definition answer is the location of an identifier
     occurrence of the same kind that spells the same name as the identifier under the cursor *)
  Lemma same_name_locations s doc line col content v locs x :
    lookup doc s = Some (content, v) -> definition s doc line col = Some locs -> In x locs ->
    exists cursor cur i,
      resolve_position content line col = Some cursor /\
      In cur (collect_ids content) /\ id_off cur <= cursor <= id_end cur /\
      In i (collect_ids content) /\ id_kind i = id_kind cur /\
      id_text content i = id_text content cur /\ x = location doc content i.
  Proof.
    intros Hl Hd Hin. unfold Server.definition in Hd. rewrite Hl in Hd.
    destruct (resolve_position content line col) as [cursor|]; [|discriminate].
    destruct (find _ (collect_ids content)) as [cur|] eqn:Hf; [|injection Hd as <-; contradiction].
    apply find_some in Hf. destruct Hf as (Hcur & Hrange). apply andb_true_iff in Hrange. rewrite !Z.leb_le in Hrange.
    destruct (0 <? id_kind cur); [|injection Hd as <-; contradiction].
    injection Hd as <-. apply in_map_iff in Hin. destruct Hin as (i & <- & Hi).
    assert (Hsame : In i (filter (fun i0 => (id_kind i0 =? id_kind cur) && bytes_eqb (id_text content i0) (id_text content cur)) (collect_ids content))).
    { destruct (negb (length _ =? 1)%nat || id_decl cur).
      - apply in_app_or in Hi. destruct Hi as [Hi|Hi]; apply filter_In in Hi; tauto.
      - apply filter_In in Hi; tauto. }
    apply filter_In in Hsame. destruct Hsame as (Hi' & Hk). apply andb_true_iff in Hk. destruct Hk as (Hk & Ht).
    apply Z.eqb_eq in Hk. unfold bytes_eqb in Ht. destruct (list_eq_dec Z.eq_dec _ _) as [Heq|]; [|discriminate].
    exists cursor, cur, i. repeat split; try assumption; lia.
  Qed.
End ServerProofs.
