(* C12: proofs about the model of the generated lexer under wf_lexer_tables. *)
From Coq Require Import List ZArith Bool Lia.
From TM Require Import Lib.ListX Lex.Tables Lex.Scan Lex.Scan_proofs Lex.LexerRT Lex.LexerRT_proofs Lex.LexerWf Lex.RegexParse_proofs.
Import ListNotations.
Local Open Scope Z_scope.

(* ------------------------------------------------------------------ characters *)
Definition bytes_ok (src : list Z) : Prop := Forall (fun b => 0 <= b < 256) src.

Lemma count_nl_cons b s : count_nl (b :: s) = (if b =? 10 then 1 else 0) + count_nl s.
Proof. unfold count_nl. cbn [filter]. destruct (b =? 10); cbn [length]; lia. Qed.

Lemma count_nl_hi s : Forall (fun b => 128 <= b) s -> count_nl s = 0.
Proof.
  induction 1 as [|b s Hb _ IH]; [reflexivity|]. rewrite count_nl_cons, IH.
  destruct (Z.eqb_spec b 10); lia.
Qed.

Lemma count_nl_nonneg s : 0 <= count_nl s.
Proof. unfold count_nl. lia. Qed.

Lemma after_last_nl_app a : forall b i acc,
  after_last_nl (a ++ b) i acc = after_last_nl b (i + Z.of_nat (length a)) (after_last_nl a i acc).
Proof.
  induction a as [|x a IH]; intros b i acc; cbn [app after_last_nl length].
  - f_equal. lia.
  - rewrite IH. f_equal. lia.
Qed.

(* a multi-byte (or invalid) sequence: the decoded rune is not ASCII and no consumed byte is ASCII *)
Lemma decode_rune_hi b0 t : 128 <= b0 ->
  128 <= fst (decode_rune (b0 :: t)) /\ Forall (fun b => 128 <= b) (firstn (snd (decode_rune (b0 :: t))) (b0 :: t)).
Proof.
  intros Hb. unfold decode_rune, cont, rune_error. cbv zeta.
  repeat match goal with
  | |- context [if ?c then _ else _] => let E := fresh "E" in destruct c eqn:E
  | |- context [match ?l with [] => _ | _ :: _ => _ end] => destruct l
  end; cbn [fst snd firstn];
  repeat match goal with
  | H : _ && _ = true |- _ => apply andb_true_iff in H; destruct H
  | H : (_ <=? _) = true |- _ => apply Z.leb_le in H
  | H : (_ <? _) = true |- _ => apply Z.ltb_lt in H
  | H : (_ <? _) = false |- _ => apply Z.ltb_ge in H
  | H : (_ =? _) = true |- _ => apply Z.eqb_eq in H
  | H : (_ =? _) = false |- _ => apply Z.eqb_neq in H
  end; (split; [lia|]); repeat constructor; lia.
Qed.

Lemma read_char_facts bytes src off ch scan rest :
  bytes_ok src -> 0 <= off <= Z.of_nat (length src) ->
  read_char bytes off (skipn (Z.to_nat off) src) = (ch, scan, rest) ->
  (off = Z.of_nat (length src) -> ch = -1 /\ scan = off /\ rest = []) /\
  (off < Z.of_nat (length src) ->
     0 <= ch /\ off < scan <= Z.of_nat (length src) /\ rest = skipn (Z.to_nat scan) src /\
     firstn (Z.to_nat scan) src = firstn (Z.to_nat off) src ++ sub src off scan /\
     ((ch = 10 /\ sub src off scan = [10] /\ scan = off + 1) \/ (ch <> 10 /\ count_nl (sub src off scan) = 0))).
Proof.
  intros Hsrc Hoff E. remember (skipn (Z.to_nat off) src) as s eqn:Hs.
  assert (Hlen : Z.of_nat (length s) = Z.of_nat (length src) - off) by (subst s; rewrite skipn_length; lia).
  split.
  - intros He. destruct s as [|b t']; [cbn in E; inversion E; auto|cbn [length] in Hlen; lia].
  - intros Hlt. destruct s as [|b t']; [cbn [length] in Hlen; lia|].
    assert (Hb : 0 <= b < 256).
    { assert (In b src) by (apply In_skipn with (n := Z.to_nat off); rewrite <- Hs; left; reflexivity).
      unfold bytes_ok in Hsrc. rewrite Forall_forall in Hsrc. auto. }
    assert (Hchunk : forall w : nat, sub src off (off + Z.of_nat w) = firstn w (b :: t')).
    { intros w. unfold sub. rewrite <- Hs. f_equal. lia. }
    assert (Hfirst : forall w : nat, firstn (Z.to_nat (off + Z.of_nat w)) src = firstn (Z.to_nat off) src ++ firstn w (b :: t')).
    { intros w. replace (Z.to_nat (off + Z.of_nat w)) with (Z.to_nat off + w)%nat by lia. rewrite Hs. apply firstn_add'. }
    assert (Hrest : forall w : nat, skipn w (b :: t') = skipn (Z.to_nat (off + Z.of_nat w)) src).
    { intros w. rewrite Hs, skipn_skipn'. f_equal. lia. }
    unfold read_char in E.
    destruct (bytes || (b <? 128)) eqn:Eb.
    + inversion E; subst ch scan rest. clear E. replace (off + 1) with (off + Z.of_nat 1%nat) by lia.
      split; [lia|]. split; [cbn [length] in Hlen; lia|]. split; [rewrite <- (Hrest 1%nat); reflexivity|].
      split; [rewrite (Hfirst 1%nat), (Hchunk 1%nat); reflexivity|].
      rewrite (Hchunk 1%nat). cbn [firstn].
      destruct (Z.eqb_spec b 10) as [->|Hne]; [left; repeat split; auto; lia|right; split; [assumption|]].
      rewrite count_nl_cons. destruct (Z.eqb_spec b 10); [congruence|]. reflexivity.
    + apply orb_false_iff in Eb. destruct Eb as [_ Eb]. apply Z.ltb_ge in Eb.
      pose proof (decode_rune_width (b :: t') ltac:(congruence)) as W.
      destruct (decode_rune_hi b t' Eb) as (Hr & Hall).
      destruct (decode_rune (b :: t')) as [r w]. cbn [fst snd] in *. inversion E; subst ch scan rest. clear E.
      cbn [length] in Hlen, W.
      split; [lia|]. split; [lia|]. split; [rewrite <- Hrest; reflexivity|].
      split; [rewrite Hfirst, Hchunk; reflexivity|].
      right. split; [lia|]. rewrite Hchunk. apply count_nl_hi. assumption.
Qed.

(* ------------------------------------------------------------------ the lexer state invariant *)
Section Inv.
  Variable lx : lexer.

  Record linv (l : lstate) : Prop := mk_linv {
    li_src : bytes_ok (l_src l);
    li_off : 0 <= l_off l <= slen l;
    li_read : read_char (scan_bytes (lx_tables lx)) (l_off l) (skipn (Z.to_nat (l_off l)) (l_src l)) = (l_ch l, l_scan l, l_rest l);
    li_line : lx_token_line lx = true -> l_line l = 1 + count_nl (firstn (Z.to_nat (l_off l)) (l_src l));
    li_lineoff : lx_token_line lx && lx_token_column lx = true ->
                 l_lineoff l = after_last_nl (firstn (Z.to_nat (l_off l)) (l_src l)) 0 0
  }.

  Definition same (l l' : lstate) : Prop :=
    l_src l' = l_src l /\ l_tokoff l' = l_tokoff l /\ l_tokline l' = l_tokline l /\ l_tokcol l' = l_tokcol l.

  Lemma same_refl l : same l l. Proof. unfold same. auto. Qed.
  Lemma same_trans a b c : same a b -> same b c -> same a c.
  Proof. unfold same. intros (A1 & A2 & A3 & A4) (B1 & B2 & B3 & B4). repeat split; congruence. Qed.

  Lemma linv_end l : linv l -> (l_off l = slen l -> l_ch l = -1 /\ l_scan l = l_off l /\ l_rest l = []).
  Proof. intros [H1 H2 H3 _ _] He. exact (proj1 (read_char_facts _ _ _ _ _ _ H1 H2 H3) He). Qed.

  Lemma linv_mid l : linv l -> l_off l < slen l ->
    0 <= l_ch l /\ l_off l < l_scan l <= slen l /\ l_rest l = skipn (Z.to_nat (l_scan l)) (l_src l) /\
    firstn (Z.to_nat (l_scan l)) (l_src l) = firstn (Z.to_nat (l_off l)) (l_src l) ++ sub (l_src l) (l_off l) (l_scan l) /\
    ((l_ch l = 10 /\ sub (l_src l) (l_off l) (l_scan l) = [10] /\ l_scan l = l_off l + 1) \/
     (l_ch l <> 10 /\ count_nl (sub (l_src l) (l_off l) (l_scan l)) = 0)).
  Proof. intros [H1 H2 H3 _ _] Hlt. exact (proj2 (read_char_facts _ _ _ _ _ _ H1 H2 H3) Hlt). Qed.

  Lemma linv_ch l : linv l -> (l_ch l <? 0) = true <-> l_off l = slen l.
  Proof.
    intros H. pose proof (li_off l H) as Ho. split.
    - intros Hc. apply Z.ltb_lt in Hc. destruct (Z.eq_dec (l_off l) (slen l)); [assumption|].
      destruct (linv_mid l H) as (Hch & _); lia.
    - intros He. destruct (linv_end l H He) as (Hc & _). rewrite Hc. reflexivity.
  Qed.

  Lemma advance_ok l : linv l -> l_off l < slen l ->
    linv (advance lx l) /\ same l (advance lx l) /\ l_off (advance lx l) = l_scan l /\ l_off l < l_scan l <= slen l.
  Proof.
    intros H Hlt. destruct (linv_mid l H Hlt) as (Hch & Hsc & Hrest & Hfirst & Hnl).
    pose proof (li_off l H) as Hoff0. unfold advance.
    destruct (read_char (scan_bytes (lx_tables lx)) (l_scan l) (l_rest l)) as [[ch' scan'] rest'] eqn:Er.
    split; [|split; [unfold same; cbn; auto|split; [reflexivity|assumption]]].
    constructor; cbn [l_src l_off l_scan l_ch l_rest l_line l_lineoff].
    - exact (li_src l H).
    - unfold slen in *. cbn [l_src] in *. lia.
    - rewrite <- Hrest. exact Er.
    - intros Htl. rewrite Htl. cbn [andb]. rewrite Hfirst, count_nl_app, (li_line l H Htl).
      destruct Hnl as [(Hc & Hs & _)|(Hc & Hs)].
      + rewrite Hc, Hs. replace (count_nl [10]) with 1 by reflexivity. rewrite Z.eqb_refl. lia.
      + rewrite Hs. destruct (Z.eqb_spec (l_ch l) 10); [congruence|]. lia.
    - intros Htc. rewrite Htc. rewrite Hfirst, after_last_nl_app, <- (li_lineoff l H Htc).
      rewrite firstn_length_le by (unfold slen in *; lia).
      destruct Hnl as [(Hc & Hs & Hs1)|(Hc & Hs)].
      + rewrite Hc, Hs. cbn. lia.
      + destruct (Z.eqb_spec (l_ch l) 10); [congruence|].
        assert (Hlo : 0 <= l_lineoff l <= 0 + Z.of_nat (Z.to_nat (l_off l))).
        { rewrite (li_lineoff l H Htc).
          pose proof (after_last_nl_spec (firstn (Z.to_nat (l_off l)) (l_src l)) 0 0 ltac:(lia)) as (A & _).
          cbn zeta in A. rewrite firstn_length_le in A by (unfold slen in *; lia). lia. }
        destruct (after_last_nl_spec (sub (l_src l) (l_off l) (l_scan l)) (0 + Z.of_nat (Z.to_nat (l_off l))) (l_lineoff l) Hlo) as (_ & B & _).
        symmetry. apply B. assumption.
  Qed.

  Lemma rewind_ok l offset : linv l -> 0 <= offset <= slen l ->
    linv (rewind lx l offset) /\ same l (rewind lx l offset) /\ l_off (rewind lx l offset) = offset.
  Proof.
    intros H Ho. pose proof (li_off l H) as Hoff. unfold rewind.
    set (offset' := if offset <? l_off l then offset else if offset >? slen l then slen l else offset).
    assert (Eo : offset' = offset).
    { subst offset'. destruct (offset <? l_off l); [reflexivity|]. rewrite Z.gtb_ltb. destruct (Z.ltb_spec (slen l) offset); [lia|reflexivity]. }
    destruct (read_char (scan_bytes (lx_tables lx)) offset' (skipn (Z.to_nat offset') (l_src l))) as [[ch scan] rest'] eqn:Er.
    split; [|split; [unfold same; cbn; auto|cbn; assumption]].
    constructor; cbn [l_src l_off l_scan l_ch l_rest l_line l_lineoff].
    - exact (li_src l H).
    - unfold slen in *. cbn [l_src]. lia.
    - exact Er.
    - intros Htl. rewrite Htl. rewrite (li_line l H Htl). rewrite Eo.
      destruct (Z.ltb_spec offset (l_off l)) as [Hlt|Hge].
      + assert (E : firstn (Z.to_nat (l_off l)) (l_src l) = firstn (Z.to_nat offset) (l_src l) ++ sub (l_src l) offset (l_off l)).
        { unfold sub. replace (Z.to_nat (l_off l)) with (Z.to_nat offset + Z.to_nat (l_off l - offset))%nat by lia. apply firstn_add'. }
        rewrite E, count_nl_app. lia.
      + assert (E : firstn (Z.to_nat offset) (l_src l) = firstn (Z.to_nat (l_off l)) (l_src l) ++ sub (l_src l) (l_off l) offset).
        { unfold sub. replace (Z.to_nat offset) with (Z.to_nat (l_off l) + Z.to_nat (offset - l_off l))%nat by lia. apply firstn_add'. }
        rewrite E, count_nl_app. lia.
    - intros Htc. rewrite Htc. reflexivity.
  Qed.
End Inv.

(* ------------------------------------------------------------------ the end-of-input run *)
Lemma eoi_run_mono k : forall t s b r, eoi_run k t s b = Some r -> forall k', (k <= k')%nat -> eoi_run k' t s b = Some r.
Proof.
  induction k as [|k IH]; intros t s b r E k' Hk; [discriminate|].
  destruct k' as [|k']; [lia|]. cbn [eoi_run] in *. destruct (s <? 0); [assumption|].
  destruct ((cell t s 0 >? action_start t) && (cell t s 0 <? 0)).
  - destruct (bt_entry t (cell t s 0)) as [a ns]. apply IH with (k' := k') in E; [assumption|lia].
  - apply IH with (k' := k') in E; [assumption|lia].
Qed.

Lemma eoi_run_neg k : forall t s b c b', eoi_run k t s b = Some (c, b') -> c < 0.
Proof.
  induction k as [|k IH]; intros t s b c b' E; [discriminate|]. cbn [eoi_run] in E.
  destruct (Z.ltb_spec s 0); [inversion E; subst; assumption|].
  destruct ((cell t s 0 >? action_start t) && (cell t s 0 <? 0)).
  - destruct (bt_entry t (cell t s 0)) as [a ns]. eapply IH; eauto.
  - eapply IH; eauto.
Qed.

Lemma dfa_eoi lx k : forall s l h inc eb, (l_ch l <? 0) = true ->
  dfa_loop k lx s l h (lift_backup eb (l_off l) h inc) =
  match eoi_run k (lx_tables lx) s eb with
  | Some (c, b) => Some (c, l, h, lift_backup b (l_off l) h inc)
  | None => None
  end.
Proof.
  induction k as [|k IH]; intros s l h inc eb Hch; [reflexivity|].
  cbn [dfa_loop eoi_run]. destruct (s <? 0); [reflexivity|]. rewrite Hch.
  destruct ((cell (lx_tables lx) s 0 >? action_start (lx_tables lx)) && (cell (lx_tables lx) s 0 <? 0)).
  - destruct (bt_entry (lx_tables lx) (cell (lx_tables lx) s 0)) as [a ns].
    exact (IH ns l h inc (Some a) Hch).
  - exact (IH _ l h inc eb Hch).
Qed.

(* ------------------------------------------------------------------ consequences of wf_lexer_tables *)
Section Main.
  Variable lx : lexer.
  Hypothesis Hwf : wf_lexer_tables lx = true.
  Notation t := (lx_tables lx).

  Lemma wf_parts :
    0 < num_symbols t /\ 0 < nstates t /\ Z.of_nat (length (dfa t)) = nstates t * num_symbols t /\
    (forall c, In c (dfa t) -> c < nstates t) /\
    (forall e, In e (backtrack t) -> 0 <= snd e < nstates t) /\
    (forall s, In s (state_map t) -> 0 <= s < nstates t) /\
    (forall r, 1 <= lookup_sym (symbol_map t) r < num_symbols t) /\
    (forall s, 0 <= s < nstates t -> exists r, eoi_run (eoi_fuel t) t s None = Some r) /\
    (forall s0, In s0 (state_map t) -> start_ok lx s0 = true /\ eoi_ok lx s0 = true) /\
    assocZ (inv_act lx) (lx_kw lx) = None /\ 0 <= inv_act lx.
  Proof.
    pose proof Hwf as H0. unfold wf_lexer_tables, wf_tables, wf_entry in H0.
    apply andb_true_iff in H0. destruct H0 as [H0 HE].
    apply andb_true_iff in H0. destruct H0 as [H0 A9].
    apply andb_true_iff in H0. destruct H0 as [H0 A8].
    apply andb_true_iff in H0. destruct H0 as [H0 A7].
    apply andb_true_iff in H0. destruct H0 as [H0 A6].
    apply andb_true_iff in H0. destruct H0 as [H0 A5].
    apply andb_true_iff in H0. destruct H0 as [H0 A4].
    apply andb_true_iff in H0. destruct H0 as [H0 A3].
    apply andb_true_iff in H0. destruct H0 as [A1 A2].
    apply andb_true_iff in HE. destruct HE as [HE E3].
    apply andb_true_iff in HE. destruct HE as [E1 E2].
    apply Z.ltb_lt in A1, A2. apply Z.eqb_eq in A3.
    rewrite forallb_forall in A4, A5, A6, A8, A9, E1.
    split; [assumption|]. split; [assumption|]. split; [assumption|].
    split. { intros c Hc. specialize (A4 c Hc). apply Z.ltb_lt in A4. assumption. }
    split. { intros e He. specialize (A5 e He). cbv beta in A5. apply andb_true_iff in A5. destruct A5 as [X Y].
             apply Z.leb_le in X. apply Z.ltb_lt in Y. lia. }
    split. { intros s Hs. specialize (A6 s Hs). cbv beta in A6. apply andb_true_iff in A6. destruct A6 as [X Y].
             apply Z.leb_le in X. apply Z.ltb_lt in Y. lia. }
    split. { intros r. assert (Hne : symbol_map t <> []) by (intro E; rewrite E in A7; discriminate A7).
             destruct (lookup_sym_in (symbol_map t) r Hne) as (e & He & Hl). rewrite Hl.
             specialize (A8 e He). cbv beta in A8. apply andb_true_iff in A8. destruct A8 as [X Y].
             apply Z.leb_le in X. apply Z.ltb_lt in Y. lia. }
    split. { intros s Hs. specialize (A9 s (proj2 (zrange_in _ _) Hs)). cbv beta in A9.
             destruct (eoi_run (eoi_fuel t) t s None) as [r|]; [exists r; reflexivity|discriminate]. }
    split. { intros s0 Hs. specialize (E1 s0 Hs). cbv beta in E1. apply andb_true_iff in E1. assumption. }
    apply Z.leb_le in E3. split; [|assumption].
    destruct (assocZ (inv_act lx) (lx_kw lx)); [discriminate E2|reflexivity].
  Qed.

  Lemma cell_range s y : 0 <= s < nstates t -> 0 <= y < num_symbols t -> cell t s y < nstates t.
  Proof.
    intros Hs Hy. destruct wf_parts as (W1 & W2 & W3 & W4 & _).
    unfold cell, nthZ. destruct (Z.ltb_spec (s * num_symbols t + y) 0) as [Hn|Hn]; [lia|].
    apply W4. apply nth_In. nia.
  Qed.

  Lemma bt_range c : 0 <= snd (bt_entry t c) < nstates t.
  Proof.
    destruct wf_parts as (_ & W2 & _ & _ & W5 & _). unfold bt_entry.
    destruct (nth_in_or_default (Z.to_nat (-1 - c)) (backtrack t) (0, 0)) as [Hin|Hd].
    - apply W5. assumption.
    - rewrite Hd. cbn. lia.
  Qed.

  Definition bk_ok (l : lstate) (bk : option (Z * Z * Z)) : Prop :=
    match bk with Some (_, o, _) => l_tokoff l < o <= l_off l | None => True end.

  Lemma remaining_advance l : linv lx l -> l_off l < slen l -> (remaining (advance lx l) < remaining l)%nat.
  Proof.
    intros H Hlt. destruct (advance_ok lx l H Hlt) as (_ & (Hs & _) & Ho & Hsc).
    unfold remaining, slen in *. rewrite Hs, Ho. lia.
  Qed.

  (* the DFA loop after at least one character of the token has been consumed *)
  Lemma dfa_loop_ok fuel : forall s l h bk,
    (remaining l + Z.to_nat (nstates t) + 2 <= fuel)%nat ->
    linv lx l -> s < nstates t -> l_tokoff l < l_off l -> bk_ok l bk ->
    exists st l2 h2 b2, dfa_loop fuel lx s l h bk = Some (st, l2, h2, b2) /\ st < 0 /\
      linv lx l2 /\ same l l2 /\ l_off l <= l_off l2 /\ bk_ok l2 b2.
  Proof.
    induction fuel as [|f IH]; intros s l h bk Hf Hl Hs Hprog Hbk; [lia|].
    destruct wf_parts as (W1 & W2 & _ & _ & _ & _ & Wsym & Weoi & _).
    destruct (Z.ltb_spec s 0) as [Hneg|Hnn].
    { exists s, l, h, bk. cbn [dfa_loop]. apply Z.ltb_lt in Hneg. rewrite Hneg. apply Z.ltb_lt in Hneg.
      split; [reflexivity|]. split; [assumption|]. split; [assumption|]. split; [apply same_refl|]. split; [lia|assumption]. }
    destruct (l_ch l <? 0) eqn:Ech.
    - (* only end-of-input moves remain *)
      change bk with (lift_backup None (l_off l) h bk). rewrite (dfa_eoi lx (S f) s l h bk None Ech).
      destruct (Weoi s ltac:(lia)) as ([c b] & Er).
      rewrite (eoi_run_mono _ _ _ _ _ Er (S f)) by (unfold eoi_fuel; lia).
      exists c, l, h, (lift_backup b (l_off l) h bk).
      split; [reflexivity|]. split; [eapply eoi_run_neg; eauto|]. split; [assumption|]. split; [apply same_refl|].
      split; [lia|]. destruct b as [a|]; cbn; [lia|assumption].
    - (* a character is available *)
      assert (Hlt : l_off l < slen l).
      { pose proof (li_off lx l Hl). destruct (Z.eq_dec (l_off l) (slen l)) as [E|]; [|lia].
        apply (linv_ch lx l Hl) in E. congruence. }
      cbn [dfa_loop]. rewrite (proj2 (Z.ltb_ge s 0) Hnn), Ech.
      set (st := cell t s (lookup_sym (symbol_map t) (l_ch l))).
      assert (Hst : st < nstates t) by (apply cell_range; [lia|specialize (Wsym (l_ch l)); lia]).
      destruct (advance_ok lx l Hl Hlt) as (Hl' & Hsame & Hoff' & Hsc).
      pose proof (remaining_advance l Hl Hlt) as Hrem.
      destruct (st >? action_start t) eqn:Egt.
      + destruct (st <? 0) eqn:Eneg.
        * destruct (bt_entry t st) as [a ns] eqn:Eb.
          pose proof (bt_range st) as Hns. rewrite Eb in Hns. cbn [snd] in Hns.
          destruct (IH ns (advance lx l) (wrap32u (h * 31 + l_ch l)) (Some (a, l_off l, h))) as (st2 & l2 & h2 & b2 & E & P1 & P2 & P3 & P4 & P5);
            try assumption; try lia.
          { destruct Hsame as (_ & Ht & _). rewrite Ht, Hoff'. lia. }
          { cbn. destruct Hsame as (_ & Ht & _). rewrite Ht, Hoff'. lia. }
          exists st2, l2, h2, b2. split; [exact E|]. split; [assumption|]. split; [assumption|].
          split; [eapply same_trans; eauto|]. split; [lia|assumption].
        * destruct (IH st (advance lx l) (wrap32u (h * 31 + l_ch l)) bk) as (st2 & l2 & h2 & b2 & E & P1 & P2 & P3 & P4 & P5);
            try assumption; try lia.
          { destruct Hsame as (_ & Ht & _). rewrite Ht, Hoff'. lia. }
          { destruct bk as [[[a o] hh]|]; [|exact I]. cbn in *. destruct Hsame as (_ & Ht & _). rewrite Ht, Hoff'. lia. }
          exists st2, l2, h2, b2. split; [exact E|]. split; [assumption|]. split; [assumption|].
          split; [eapply same_trans; eauto|]. split; [lia|assumption].
      + (* stop cell *)
        rewrite Z.gtb_ltb in Egt. apply Z.ltb_ge in Egt.
        assert (Hneg : st < 0) by (unfold action_start in Egt; lia).
        destruct f as [|f']; [lia|]. cbn [dfa_loop]. rewrite (proj2 (Z.ltb_lt st 0) Hneg).
        exists st, l, h, bk.
        split; [reflexivity|]. split; [assumption|]. split; [assumption|]. split; [apply same_refl|]. split; [lia|assumption].
  Qed.
End Main.
