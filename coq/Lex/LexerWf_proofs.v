(* C12: proofs about the model of the generated lexer under wf_lexer_tables. *)
From Coq Require Import List ZArith Bool Lia.
From TM Require Import Lib.ListX Lex.Tables Lex.Scan Lex.Scan_proofs Lex.LexerRT Lex.LexerRT_proofs Lex.LexerWf Lex.RegexParse_proofs.
Import ListNotations.
Local Open Scope Z_scope.

(* ------------------------------------------------------------------ characters *)
Definition bytes_ok (src : list Z) : Prop := Forall (fun b => 0 <= b < 256) src.

Lemma count_nl_cons b s : count_nl (b :: s) = (if b =? 10 then 1 else 0) + count_nl s.
Proof. unfold count_nl. cbn [filter]. destruct (b =? 10); cbn [length]; lia. Qed.

Lemma count_nl_hi s : Forall (fun b => 128 <= b) s -> count_nl s = 0.
Proof.
  induction 1 as [|b s Hb _ IH]; [reflexivity|]. rewrite count_nl_cons, IH.
  destruct (Z.eqb_spec b 10); lia.
Qed.

Lemma count_nl_nonneg s : 0 <= count_nl s.
Proof. unfold count_nl. lia. Qed.

Lemma after_last_nl_app a : forall b i acc,
  after_last_nl (a ++ b) i acc = after_last_nl b (i + Z.of_nat (length a)) (after_last_nl a i acc).
Proof.
  induction a as [|x a IH]; intros b i acc; cbn [app after_last_nl length].
  - f_equal. lia.
  - rewrite IH. f_equal. lia.
Qed.

(* a multi-byte (or invalid) sequence: the decoded rune is not ASCII and no consumed byte is ASCII *)
Lemma decode_rune_hi b0 t : 128 <= b0 ->
  128 <= fst (decode_rune (b0 :: t)) /\ Forall (fun b => 128 <= b) (firstn (snd (decode_rune (b0 :: t))) (b0 :: t)).
Proof.
  intros Hb. unfold decode_rune, cont, rune_error. cbv zeta.
  repeat match goal with
  | |- context [if ?c then _ else _] => let E := fresh "E" in destruct c eqn:E
  | |- context [match ?l with [] => _ | _ :: _ => _ end] => destruct l
  end; cbn [fst snd firstn];
  repeat match goal with
  | H : _ && _ = true |- _ => apply andb_true_iff in H; destruct H
  | H : (_ <=? _) = true |- _ => apply Z.leb_le in H
  | H : (_ <? _) = true |- _ => apply Z.ltb_lt in H
  | H : (_ <? _) = false |- _ => apply Z.ltb_ge in H
  | H : (_ =? _) = true |- _ => apply Z.eqb_eq in H
  | H : (_ =? _) = false |- _ => apply Z.eqb_neq in H
  end; (split; [lia|]); repeat constructor; lia.
Qed.

Lemma read_char_facts bytes src off ch scan rest :
  bytes_ok src -> 0 <= off <= Z.of_nat (length src) ->
  read_char bytes off (skipn (Z.to_nat off) src) = (ch, scan, rest) ->
  (off = Z.of_nat (length src) -> ch = -1 /\ scan = off /\ rest = []) /\
  (off < Z.of_nat (length src) ->
     0 <= ch /\ off < scan <= Z.of_nat (length src) /\ rest = skipn (Z.to_nat scan) src /\
     firstn (Z.to_nat scan) src = firstn (Z.to_nat off) src ++ sub src off scan /\
     ((ch = 10 /\ sub src off scan = [10] /\ scan = off + 1) \/ (ch <> 10 /\ count_nl (sub src off scan) = 0))).
Proof.
  intros Hsrc Hoff E. remember (skipn (Z.to_nat off) src) as s eqn:Hs.
  assert (Hlen : Z.of_nat (length s) = Z.of_nat (length src) - off) by (subst s; rewrite skipn_length; lia).
  split.
  - intros He. destruct s as [|b t']; [cbn in E; inversion E; auto|cbn [length] in Hlen; lia].
  - intros Hlt. destruct s as [|b t']; [cbn [length] in Hlen; lia|].
    assert (Hb : 0 <= b < 256).
    { assert (In b src) by (apply In_skipn with (n := Z.to_nat off); rewrite <- Hs; left; reflexivity).
      unfold bytes_ok in Hsrc. rewrite Forall_forall in Hsrc. auto. }
    assert (Hchunk : forall w : nat, sub src off (off + Z.of_nat w) = firstn w (b :: t')).
    { intros w. unfold sub. rewrite <- Hs. f_equal. lia. }
    assert (Hfirst : forall w : nat, firstn (Z.to_nat (off + Z.of_nat w)) src = firstn (Z.to_nat off) src ++ firstn w (b :: t')).
    { intros w. replace (Z.to_nat (off + Z.of_nat w)) with (Z.to_nat off + w)%nat by lia. rewrite Hs. apply firstn_add'. }
    assert (Hrest : forall w : nat, skipn w (b :: t') = skipn (Z.to_nat (off + Z.of_nat w)) src).
    { intros w. rewrite Hs, skipn_skipn'. f_equal. lia. }
    unfold read_char in E.
    destruct (bytes || (b <? 128)) eqn:Eb.
    + inversion E; subst ch scan rest. clear E. replace (off + 1) with (off + Z.of_nat 1%nat) by lia.
      split; [lia|]. split; [cbn [length] in Hlen; lia|]. split; [rewrite <- (Hrest 1%nat); reflexivity|].
      split; [rewrite (Hfirst 1%nat), (Hchunk 1%nat); reflexivity|].
      rewrite (Hchunk 1%nat). cbn [firstn].
      destruct (Z.eqb_spec b 10) as [->|Hne]; [left; repeat split; auto; lia|right; split; [assumption|]].
      rewrite count_nl_cons. destruct (Z.eqb_spec b 10); [congruence|]. reflexivity.
    + apply orb_false_iff in Eb. destruct Eb as [_ Eb]. apply Z.ltb_ge in Eb.
      pose proof (decode_rune_width (b :: t') ltac:(congruence)) as W.
      destruct (decode_rune_hi b t' Eb) as (Hr & Hall).
      destruct (decode_rune (b :: t')) as [r w]. cbn [fst snd] in *. inversion E; subst ch scan rest. clear E.
      cbn [length] in Hlen, W.
      split; [lia|]. split; [lia|]. split; [rewrite <- Hrest; reflexivity|].
      split; [rewrite Hfirst, Hchunk; reflexivity|].
      right. split; [lia|]. rewrite Hchunk. apply count_nl_hi. assumption.
Qed.

(* ------------------------------------------------------------------ the lexer state invariant *)
Section Inv.
  Variable lx : lexer.

  Record linv (l : lstate) : Prop := mk_linv {
    li_src : bytes_ok (l_src l);
    li_off : 0 <= l_off l <= slen l;
    li_read : read_char (scan_bytes (lx_tables lx)) (l_off l) (skipn (Z.to_nat (l_off l)) (l_src l)) = (l_ch l, l_scan l, l_rest l);
    li_line : lx_token_line lx = true -> l_line l = 1 + count_nl (firstn (Z.to_nat (l_off l)) (l_src l));
    li_lineoff : lx_token_line lx && lx_token_column lx = true ->
                 l_lineoff l = after_last_nl (firstn (Z.to_nat (l_off l)) (l_src l)) 0 0
  }.

  Definition same (l l' : lstate) : Prop :=
    l_src l' = l_src l /\ l_tokoff l' = l_tokoff l /\ l_tokline l' = l_tokline l /\ l_tokcol l' = l_tokcol l.

  Lemma same_refl l : same l l. Proof. unfold same. auto. Qed.
  Lemma same_trans a b c : same a b -> same b c -> same a c.
  Proof. unfold same. intros (A1 & A2 & A3 & A4) (B1 & B2 & B3 & B4). repeat split; congruence. Qed.

  Lemma linv_end l : linv l -> (l_off l = slen l -> l_ch l = -1 /\ l_scan l = l_off l /\ l_rest l = []).
  Proof. intros [H1 H2 H3 _ _] He. exact (proj1 (read_char_facts _ _ _ _ _ _ H1 H2 H3) He). Qed.

  Lemma linv_mid l : linv l -> l_off l < slen l ->
    0 <= l_ch l /\ l_off l < l_scan l <= slen l /\ l_rest l = skipn (Z.to_nat (l_scan l)) (l_src l) /\
    firstn (Z.to_nat (l_scan l)) (l_src l) = firstn (Z.to_nat (l_off l)) (l_src l) ++ sub (l_src l) (l_off l) (l_scan l) /\
    ((l_ch l = 10 /\ sub (l_src l) (l_off l) (l_scan l) = [10] /\ l_scan l = l_off l + 1) \/
     (l_ch l <> 10 /\ count_nl (sub (l_src l) (l_off l) (l_scan l)) = 0)).
  Proof. intros [H1 H2 H3 _ _] Hlt. exact (proj2 (read_char_facts _ _ _ _ _ _ H1 H2 H3) Hlt). Qed.

  Lemma linv_ch l : linv l -> (l_ch l <? 0) = true <-> l_off l = slen l.
  Proof.
    intros H. pose proof (li_off l H) as Ho. split.
    - intros Hc. apply Z.ltb_lt in Hc. destruct (Z.eq_dec (l_off l) (slen l)); [assumption|].
      destruct (linv_mid l H) as (Hch & _); lia.
    - intros He. destruct (linv_end l H He) as (Hc & _). rewrite Hc. reflexivity.
  Qed.

  Lemma advance_ok l : linv l -> l_off l < slen l ->
    linv (advance lx l) /\ same l (advance lx l) /\ l_off (advance lx l) = l_scan l /\ l_off l < l_scan l <= slen l.
  Proof.
    intros H Hlt. destruct (linv_mid l H Hlt) as (Hch & Hsc & Hrest & Hfirst & Hnl).
    pose proof (li_off l H) as Hoff0. unfold advance.
    destruct (read_char (scan_bytes (lx_tables lx)) (l_scan l) (l_rest l)) as [[ch' scan'] rest'] eqn:Er.
    split; [|split; [unfold same; cbn; auto|split; [reflexivity|assumption]]].
    constructor; cbn [l_src l_off l_scan l_ch l_rest l_line l_lineoff].
    - exact (li_src l H).
    - unfold slen in *. cbn [l_src] in *. lia.
    - rewrite <- Hrest. exact Er.
    - intros Htl. rewrite Htl. cbn [andb]. rewrite Hfirst, count_nl_app, (li_line l H Htl).
      destruct Hnl as [(Hc & Hs & _)|(Hc & Hs)].
      + rewrite Hc, Hs. replace (count_nl [10]) with 1 by reflexivity. rewrite Z.eqb_refl. lia.
      + rewrite Hs. destruct (Z.eqb_spec (l_ch l) 10); [congruence|]. lia.
    - intros Htc. rewrite Htc. rewrite Hfirst, after_last_nl_app, <- (li_lineoff l H Htc).
      rewrite firstn_length_le by (unfold slen in *; lia).
      destruct Hnl as [(Hc & Hs & Hs1)|(Hc & Hs)].
      + rewrite Hc, Hs. cbn. lia.
      + destruct (Z.eqb_spec (l_ch l) 10); [congruence|].
        assert (Hlo : 0 <= l_lineoff l <= 0 + Z.of_nat (Z.to_nat (l_off l))).
        { rewrite (li_lineoff l H Htc).
          pose proof (after_last_nl_spec (firstn (Z.to_nat (l_off l)) (l_src l)) 0 0 ltac:(lia)) as (A & _).
          cbn zeta in A. rewrite firstn_length_le in A by (unfold slen in *; lia). lia. }
        destruct (after_last_nl_spec (sub (l_src l) (l_off l) (l_scan l)) (0 + Z.of_nat (Z.to_nat (l_off l))) (l_lineoff l) Hlo) as (_ & B & _).
        symmetry. apply B. assumption.
  Qed.

  Lemma rewind_ok_gen l offset :
    bytes_ok (l_src l) -> 0 <= l_off l <= slen l ->
    (lx_token_line lx = true -> l_line l = 1 + count_nl (firstn (Z.to_nat (l_off l)) (l_src l))) ->
    0 <= offset <= slen l ->
    linv (rewind lx l offset) /\ same l (rewind lx l offset) /\ l_off (rewind lx l offset) = offset.
  Proof.
    intros Hsrc Hoff Hline Ho. unfold rewind.
    set (offset' := if offset <? l_off l then offset else if offset >? slen l then slen l else offset).
    assert (Eo : offset' = offset).
    { subst offset'. destruct (offset <? l_off l); [reflexivity|]. rewrite Z.gtb_ltb. destruct (Z.ltb_spec (slen l) offset); [lia|reflexivity]. }
    destruct (read_char (scan_bytes (lx_tables lx)) offset' (skipn (Z.to_nat offset') (l_src l))) as [[ch scan] rest'] eqn:Er.
    split; [|split; [unfold same; cbn; auto|cbn; assumption]].
    constructor; cbn [l_src l_off l_scan l_ch l_rest l_line l_lineoff].
    - exact Hsrc.
    - unfold slen in *. cbn [l_src]. lia.
    - exact Er.
    - intros Htl. rewrite Htl. rewrite (Hline Htl). rewrite Eo.
      destruct (Z.ltb_spec offset (l_off l)) as [Hlt|Hge].
      + assert (E : firstn (Z.to_nat (l_off l)) (l_src l) = firstn (Z.to_nat offset) (l_src l) ++ sub (l_src l) offset (l_off l)).
        { unfold sub. replace (Z.to_nat (l_off l)) with (Z.to_nat offset + Z.to_nat (l_off l - offset))%nat by lia. apply firstn_add'. }
        rewrite E, count_nl_app. lia.
      + assert (E : firstn (Z.to_nat offset) (l_src l) = firstn (Z.to_nat (l_off l)) (l_src l) ++ sub (l_src l) (l_off l) offset).
        { unfold sub. replace (Z.to_nat offset) with (Z.to_nat (l_off l) + Z.to_nat (offset - l_off l))%nat by lia. apply firstn_add'. }
        rewrite E, count_nl_app. lia.
    - intros Htc. rewrite Htc. reflexivity.
  Qed.

  Lemma rewind_ok l offset : linv l -> 0 <= offset <= slen l ->
    linv (rewind lx l offset) /\ same l (rewind lx l offset) /\ l_off (rewind lx l offset) = offset.
  Proof. intros H Ho. apply rewind_ok_gen; try assumption; [exact (li_src l H)|exact (li_off l H)|exact (li_line l H)]. Qed.

  Lemma init_ok src : bytes_ok src -> linv (init lx src) /\ l_src (init lx src) = src /\ l_off (init lx src) = 0.
  Proof.
    intros Hsrc. unfold init.
    destruct (rewind_ok_gen (mkL src 0 0 0 src 0 1 1 0 1) 0) as (A & (B & _) & C); cbn [l_src l_off l_line]; try assumption.
    - unfold slen. cbn [l_src]. lia.
    - intros _. reflexivity.
    - unfold slen. cbn [l_src]. lia.
    - split; [assumption|]. split; assumption.
  Qed.

  Lemma linv_tokfields l a b c : linv l ->
    linv (mkL (l_src l) (l_off l) (l_scan l) (l_ch l) (l_rest l) a (l_line l) b (l_lineoff l) c).
  Proof. intros [H1 H2 H3 H4 H5]. constructor; cbn; assumption. Qed.
End Inv.

(* ------------------------------------------------------------------ the end-of-input run *)
Lemma eoi_run_mono k : forall t s b r, eoi_run k t s b = Some r -> forall k', (k <= k')%nat -> eoi_run k' t s b = Some r.
Proof.
  induction k as [|k IH]; intros t s b r E k' Hk; [discriminate|].
  destruct k' as [|k']; [lia|]. cbn [eoi_run] in *. destruct (s <? 0); [assumption|].
  destruct ((cell t s 0 >? action_start t) && (cell t s 0 <? 0)).
  - destruct (bt_entry t (cell t s 0)) as [a ns]. apply IH with (k' := k') in E; [assumption|lia].
  - apply IH with (k' := k') in E; [assumption|lia].
Qed.

Lemma eoi_run_neg k : forall t s b c b', eoi_run k t s b = Some (c, b') -> c < 0.
Proof.
  induction k as [|k IH]; intros t s b c b' E; [discriminate|]. cbn [eoi_run] in E.
  destruct (Z.ltb_spec s 0); [inversion E; subst; assumption|].
  destruct ((cell t s 0 >? action_start t) && (cell t s 0 <? 0)).
  - destruct (bt_entry t (cell t s 0)) as [a ns]. eapply IH; eauto.
  - eapply IH; eauto.
Qed.

Lemma dfa_eoi lx k : forall s l h inc eb, (l_ch l <? 0) = true ->
  dfa_loop k lx s l h (lift_backup eb (l_off l) h inc) =
  match eoi_run k (lx_tables lx) s eb with
  | Some (c, b) => Some (c, l, h, lift_backup b (l_off l) h inc)
  | None => None
  end.
Proof.
  induction k as [|k IH]; intros s l h inc eb Hch; [reflexivity|].
  cbn [dfa_loop eoi_run]. destruct (s <? 0); [reflexivity|]. rewrite Hch.
  destruct ((cell (lx_tables lx) s 0 >? action_start (lx_tables lx)) && (cell (lx_tables lx) s 0 <? 0)).
  - destruct (bt_entry (lx_tables lx) (cell (lx_tables lx) s 0)) as [a ns].
    exact (IH ns l h inc (Some a) Hch).
  - exact (IH _ l h inc eb Hch).
Qed.

(* ------------------------------------------------------------------ consequences of wf_lexer_tables *)
Section Main.
  Variable lx : lexer.
  Hypothesis Hwf : wf_lexer_tables lx = true.
  Notation t := (lx_tables lx).

  Lemma wf_parts :
    0 < num_symbols t /\ 0 < nstates t /\ Z.of_nat (length (dfa t)) = nstates t * num_symbols t /\
    (forall c, In c (dfa t) -> c < nstates t) /\
    (forall e, In e (backtrack t) -> 0 <= snd e < nstates t) /\
    (forall s, In s (state_map t) -> 0 <= s < nstates t) /\
    (forall r, 1 <= lookup_sym (symbol_map t) r < num_symbols t) /\
    (forall s, 0 <= s < nstates t -> exists r, eoi_run (eoi_fuel t) t s None = Some r) /\
    (forall s0, In s0 (state_map t) -> start_ok lx s0 = true /\ eoi_ok lx s0 = true) /\
    assocZ (inv_act lx) (lx_kw lx) = None /\ 0 <= inv_act lx.
  Proof.
    pose proof Hwf as H0. unfold wf_lexer_tables, wf_tables, wf_entry in H0.
    apply andb_true_iff in H0. destruct H0 as [H0 HE].
    apply andb_true_iff in H0. destruct H0 as [H0 A9].
    apply andb_true_iff in H0. destruct H0 as [H0 A8].
    apply andb_true_iff in H0. destruct H0 as [H0 A7].
    apply andb_true_iff in H0. destruct H0 as [H0 A6].
    apply andb_true_iff in H0. destruct H0 as [H0 A5].
    apply andb_true_iff in H0. destruct H0 as [H0 A4].
    apply andb_true_iff in H0. destruct H0 as [H0 A3].
    apply andb_true_iff in H0. destruct H0 as [A1 A2].
    apply andb_true_iff in HE. destruct HE as [HE E3].
    apply andb_true_iff in HE. destruct HE as [E1 E2].
    apply Z.ltb_lt in A1, A2. apply Z.eqb_eq in A3.
    rewrite forallb_forall in A4, A5, A6, A8, A9, E1.
    split; [assumption|]. split; [assumption|]. split; [assumption|].
    split. { intros c Hc. specialize (A4 c Hc). apply Z.ltb_lt in A4. assumption. }
    split. { intros e He. specialize (A5 e He). cbv beta in A5. apply andb_true_iff in A5. destruct A5 as [X Y].
             apply Z.leb_le in X. apply Z.ltb_lt in Y. lia. }
    split. { intros s Hs. specialize (A6 s Hs). cbv beta in A6. apply andb_true_iff in A6. destruct A6 as [X Y].
             apply Z.leb_le in X. apply Z.ltb_lt in Y. lia. }
    split. { intros r. assert (Hne : symbol_map t <> []) by (intro E; rewrite E in A7; discriminate A7).
             destruct (lookup_sym_in (symbol_map t) r Hne) as (e & He & Hl). rewrite Hl.
             specialize (A8 e He). cbv beta in A8. apply andb_true_iff in A8. destruct A8 as [X Y].
             apply Z.leb_le in X. apply Z.ltb_lt in Y. lia. }
    split. { intros s Hs. specialize (A9 s (proj2 (zrange_in _ _) Hs)). cbv beta in A9.
             destruct (eoi_run (eoi_fuel t) t s None) as [r|]; [exists r; reflexivity|discriminate]. }
    split. { intros s0 Hs. specialize (E1 s0 Hs). cbv beta in E1. apply andb_true_iff in E1. assumption. }
    apply Z.leb_le in E3. split; [|assumption].
    destruct (assocZ (inv_act lx) (lx_kw lx)); [discriminate E2|reflexivity].
  Qed.

  Lemma cell_range s y : 0 <= s < nstates t -> 0 <= y < num_symbols t -> cell t s y < nstates t.
  Proof.
    intros Hs Hy. destruct wf_parts as (W1 & W2 & W3 & W4 & _).
    unfold cell, nthZ. destruct (Z.ltb_spec (s * num_symbols t + y) 0) as [Hn|Hn]; [lia|].
    apply W4. apply nth_In. nia.
  Qed.

  Lemma bt_range c : 0 <= snd (bt_entry t c) < nstates t.
  Proof.
    destruct wf_parts as (_ & W2 & _ & _ & W5 & _). unfold bt_entry.
    destruct (nth_in_or_default (Z.to_nat (-1 - c)) (backtrack t) (0, 0)) as [Hin|Hd].
    - apply W5. assumption.
    - rewrite Hd. cbn. lia.
  Qed.

  Definition bk_ok (l : lstate) (bk : option (Z * Z * Z)) : Prop :=
    match bk with Some (_, o, _) => l_tokoff l < o <= l_off l | None => True end.

  Lemma remaining_advance l : linv lx l -> l_off l < slen l -> (remaining (advance lx l) < remaining l)%nat.
  Proof.
    intros H Hlt. destruct (advance_ok lx l H Hlt) as (_ & (Hs & _) & Ho & Hsc).
    unfold remaining, slen in *. rewrite Hs, Ho. lia.
  Qed.

  (* the DFA loop after at least one character of the token has been consumed *)
  Lemma dfa_loop_ok fuel : forall s l h bk,
    (remaining l + Z.to_nat (nstates t) + 2 <= fuel)%nat ->
    linv lx l -> s < nstates t -> l_tokoff l < l_off l -> bk_ok l bk ->
    exists st l2 h2 b2, dfa_loop fuel lx s l h bk = Some (st, l2, h2, b2) /\ st < 0 /\
      linv lx l2 /\ same l l2 /\ l_off l <= l_off l2 /\ bk_ok l2 b2.
  Proof.
    induction fuel as [|f IH]; intros s l h bk Hf Hl Hs Hprog Hbk; [lia|].
    destruct wf_parts as (W1 & W2 & _ & _ & _ & _ & Wsym & Weoi & _).
    destruct (Z.ltb_spec s 0) as [Hneg|Hnn].
    { exists s, l, h, bk. cbn [dfa_loop]. apply Z.ltb_lt in Hneg. rewrite Hneg. apply Z.ltb_lt in Hneg.
      split; [reflexivity|]. split; [assumption|]. split; [assumption|]. split; [apply same_refl|]. split; [lia|assumption]. }
    destruct (l_ch l <? 0) eqn:Ech.
    - (* only end-of-input moves remain *)
      change bk with (lift_backup None (l_off l) h bk). rewrite (dfa_eoi lx (S f) s l h bk None Ech).
      destruct (Weoi s ltac:(lia)) as ([c b] & Er).
      rewrite (eoi_run_mono _ _ _ _ _ Er (S f)) by (unfold eoi_fuel; lia).
      exists c, l, h, (lift_backup b (l_off l) h bk).
      split; [reflexivity|]. split; [eapply eoi_run_neg; eauto|]. split; [assumption|]. split; [apply same_refl|].
      split; [lia|]. destruct b as [a|]; cbn; [lia|assumption].
    - (* a character is available *)
      assert (Hlt : l_off l < slen l).
      { pose proof (li_off lx l Hl). destruct (Z.eq_dec (l_off l) (slen l)) as [E|]; [|lia].
        apply (linv_ch lx l Hl) in E. congruence. }
      cbn [dfa_loop]. rewrite (proj2 (Z.ltb_ge s 0) Hnn), Ech.
      set (st := cell t s (lookup_sym (symbol_map t) (l_ch l))).
      assert (Hst : st < nstates t) by (apply cell_range; [lia|specialize (Wsym (l_ch l)); lia]).
      destruct (advance_ok lx l Hl Hlt) as (Hl' & Hsame & Hoff' & Hsc).
      pose proof (remaining_advance l Hl Hlt) as Hrem.
      destruct (st >? action_start t) eqn:Egt.
      + destruct (st <? 0) eqn:Eneg.
        * destruct (bt_entry t st) as [a ns] eqn:Eb.
          pose proof (bt_range st) as Hns. rewrite Eb in Hns. cbn [snd] in Hns.
          destruct (IH ns (advance lx l) (wrap32u (h * 31 + l_ch l)) (Some (a, l_off l, h))) as (st2 & l2 & h2 & b2 & E & P1 & P2 & P3 & P4 & P5);
            try assumption; try lia.
          { destruct Hsame as (_ & Ht & _). rewrite Ht, Hoff'. lia. }
          { cbn. destruct Hsame as (_ & Ht & _). rewrite Ht, Hoff'. lia. }
          exists st2, l2, h2, b2. split; [exact E|]. split; [assumption|]. split; [assumption|].
          split; [eapply same_trans; eauto|]. split; [lia|assumption].
        * destruct (IH st (advance lx l) (wrap32u (h * 31 + l_ch l)) bk) as (st2 & l2 & h2 & b2 & E & P1 & P2 & P3 & P4 & P5);
            try assumption; try lia.
          { destruct Hsame as (_ & Ht & _). rewrite Ht, Hoff'. lia. }
          { destruct bk as [[[a o] hh]|]; [|exact I]. cbn in *. destruct Hsame as (_ & Ht & _). rewrite Ht, Hoff'. lia. }
          exists st2, l2, h2, b2. split; [exact E|]. split; [assumption|]. split; [assumption|].
          split; [eapply same_trans; eauto|]. split; [lia|assumption].
      + (* stop cell *)
        rewrite Z.gtb_ltb in Egt. apply Z.ltb_ge in Egt.
        assert (Hneg : st < 0) by (unfold action_start in Egt; lia).
        destruct f as [|f']; [lia|]. cbn [dfa_loop]. rewrite (proj2 (Z.ltb_lt st 0) Hneg).
        exists st, l, h, bk.
        split; [reflexivity|]. split; [assumption|]. split; [assumption|]. split; [apply same_refl|]. split; [lia|assumption].
  Qed.
End Main.

(* ------------------------------------------------------------------ what follows the DFA loop *)
Lemma sub_same s a : sub s a a = [].
Proof. unfold sub. replace (Z.to_nat (a - a)) with 0%nat by lia. reflexivity. Qed.

Lemma sub_nil a b : sub [] a b = [].
Proof. unfold sub. rewrite skipn_nil, firstn_nil. reflexivity. Qed.

Lemma kw_none lx a h txt : assocZ a (lx_kw lx) = None -> kw_switch lx a h txt = a.
Proof. intros E. unfold kw_switch. rewrite E. reflexivity. Qed.

Section Next.
  Variable lx : lexer.
  Hypothesis Hwf : wf_lexer_tables lx = true.
  Notation t := (lx_tables lx).

  (* after progress: whatever finish decides, the token is non-empty *)
  Lemma finish_progress st l h bk :
    linv lx l -> 0 <= l_tokoff l -> l_tokoff l < l_off l -> bk_ok l bk ->
    let '(tok, sp, l3) := finish lx st l h bk in
    linv lx l3 /\ same l l3 /\ l_tokoff l3 < l_off l3.
  Proof.
    intros Hl Ht Hp Hbk. pose proof (li_off lx l Hl) as Hoff.
    assert (Hneq : (l_off l =? l_tokoff l) = false) by (apply Z.eqb_neq; lia).
    assert (Hrew : forall a o hh, bk = Some (a, o, hh) ->
              linv lx (rewind lx l o) /\ same l (rewind lx l o) /\ l_tokoff (rewind lx l o) < l_off (rewind lx l o)).
    { intros a o hh E. subst bk. cbn in Hbk. destruct (rewind_ok lx l o Hl ltac:(lia)) as (A & B & C).
      split; [assumption|]. split; [assumption|]. destruct B as (_ & B & _). rewrite B, C. lia. }
    unfold finish. rewrite Hneq.
    destruct (lx_rule_token lx) as [|r0 rt].
    - destruct (kw_switch lx (action_start t - st) h (sub (l_src l) (l_tokoff l) (l_off l)) =? lx_invalid lx).
      + destruct (has_bt lx); [destruct bk as [[[a o] hh]|]|].
        * exact (Hrew a o hh eq_refl).
        * split; [assumption|]. split; [apply same_refl|assumption].
        * split; [assumption|]. split; [apply same_refl|assumption].
      + split; [assumption|]. split; [apply same_refl|assumption].
    - destruct (kw_switch lx (action_start t - st) h (sub (l_src l) (l_tokoff l) (l_off l)) =? 0).
      + destruct (has_bt lx); [destruct bk as [[[a o] hh]|]|].
        * exact (Hrew a o hh eq_refl).
        * split; [assumption|]. split; [apply same_refl|assumption].
        * split; [assumption|]. split; [apply same_refl|assumption].
      + split; [assumption|]. split; [apply same_refl|assumption].
  Qed.

  (* nothing consumed, a character is available, the start state says "no match": one character is skipped *)
  Lemma finish_stuck l h :
    linv lx l -> l_off l = l_tokoff l -> l_off l < slen l ->
    exists tok, finish lx (action_start t - inv_act lx) l h None = (tok, false, rewind lx l (l_scan l)).
  Proof.
    intros Hl He Hlt. destruct (wf_parts lx Hwf) as (_ & _ & _ & _ & _ & _ & _ & _ & _ & Hkw & Hinv).
    assert (Heq : (l_off l =? l_tokoff l) = true) by (apply Z.eqb_eq; assumption).
    unfold finish. replace (action_start t - (action_start t - inv_act lx)) with (inv_act lx) by lia.
    rewrite (kw_none lx _ _ _ Hkw), Heq. unfold inv_act in *.
    destruct (lx_rule_token lx) as [|r0 rt].
    - rewrite Z.eqb_refl. destruct (has_bt lx); eexists; reflexivity.
    - rewrite Z.eqb_refl. destruct (has_bt lx); eexists; reflexivity.
  Qed.

  (* the decision taken at the end of the input when nothing was consumed: it does not depend on the input *)
  Definition efin (c : Z) (b : option Z) : Z * bool :=
    let act0 := action_start t - c in
    match lx_rule_token lx with
    | _ :: _ =>
        let rule := kw_switch lx act0 0 [] in
        if rule =? 0 then
          match (if has_bt lx then b else None) with
          | Some brule => let rule' := kw_switch lx brule 0 [] in (nth (Z.to_nat rule') (lx_rule_token lx) (-1), memZ rule' (lx_space lx))
          | None => (0, false)
          end
        else (nth (Z.to_nat rule) (lx_rule_token lx) (-1), memZ rule (lx_space lx))
    | [] =>
        let tok := kw_switch lx act0 0 [] in
        if tok =? lx_invalid lx then
          match (if has_bt lx then b else None) with
          | Some btok => let tok' := kw_switch lx btok 0 [] in (tok', memZ tok' (lx_space lx))
          | None => (0, false)
          end
        else (tok, memZ tok (lx_space lx))
    end.

  Lemma finish_end_formula c b l :
    l_ch l = -1 -> l_off l = l_tokoff l -> l_scan l = l_off l ->
    (forall l', l' = l \/ l' = rewind lx l (l_off l) -> sub (l_src l') (l_tokoff l') (l_off l') = []) ->
    exists l3, finish lx c l 0 (lift_backup b (l_off l) 0 None) = (fst (efin c b), snd (efin c b), l3) /\
               (l3 = l \/ l3 = rewind lx l (l_off l)).
  Proof.
    intros Hch He Hsc Htext.
    assert (Heq : (l_off l =? l_tokoff l) = true) by (apply Z.eqb_eq; assumption).
    unfold finish, efin. rewrite Heq, Hch, Hsc, (Htext l (or_introl eq_refl)). cbn [Z.eqb].
    destruct (lx_rule_token lx) as [|r0 rt].
    - destruct (kw_switch lx (action_start t - c) 0 [] =? lx_invalid lx).
      + destruct (has_bt lx); [destruct b as [a|]|]; cbn [lift_backup fst snd].
        * rewrite (Htext _ (or_intror eq_refl)). eexists; split; [reflexivity|right; reflexivity].
        * eexists; split; [reflexivity|right; reflexivity].
        * destruct b; cbn [lift_backup]; eexists; (split; [reflexivity|right; reflexivity]).
      + eexists; split; [reflexivity|left; reflexivity].
    - destruct (kw_switch lx (action_start t - c) 0 [] =? 0).
      + destruct (has_bt lx); [destruct b as [a|]|]; cbn [lift_backup fst snd].
        * rewrite (Htext _ (or_intror eq_refl)). eexists; split; [reflexivity|right; reflexivity].
        * eexists; split; [reflexivity|right; reflexivity].
        * destruct b; cbn [lift_backup]; eexists; (split; [reflexivity|right; reflexivity]).
      + eexists; split; [reflexivity|left; reflexivity].
  Qed.
End Next.

(* ------------------------------------------------------------------ one attempt of Next, then Next *)
Section Next2.
  Variable lx : lexer.
  Hypothesis Hwf : wf_lexer_tables lx = true.
  Variable sc : Z.
  Notation t := (lx_tables lx).
  Hypothesis Hsc : In (nthZ (state_map t) sc) (state_map t).
  Notation start := (nthZ (state_map t) sc).

  Definition tok_start (l : lstate) : lstate :=
    mkL (l_src l) (l_off l) (l_scan l) (l_ch l) (l_rest l) (l_off l) (l_line l) (l_line l) (l_lineoff l) (l_off l - l_lineoff l + 1).
  Definition inner (l : lstate) : nat := S (S (Z.to_nat (slen l - l_off l) + Z.to_nat (nstates t))).

  Lemma next_tok_unfold f l :
    next_tok (S f) lx sc l =
    match dfa_loop (inner l) lx start (tok_start l) 0 None with
    | None => None
    | Some (state, l2, hash, backup) =>
        let '(tok, space, l3) := finish lx state l2 hash backup in
        if space then next_tok f lx sc l3 else Some (tok, l3)
    end.
  Proof. reflexivity. Qed.

  Lemma rewind_src l o : l_src (rewind lx l o) = l_src l.
  Proof. unfold rewind. destruct (read_char _ _ _) as [[a b] c]. reflexivity. Qed.

  Lemma attempt_ok l : linv lx l ->
    exists st l2 h2 b2, dfa_loop (inner l) lx start (tok_start l) 0 None = Some (st, l2, h2, b2) /\
      forall tok sp l3, finish lx st l2 h2 b2 = (tok, sp, l3) ->
        linv lx l3 /\ same (tok_start l) l3 /\
        (l_off l < l_off l3 \/ (l_off l = slen l /\ l_off l3 = l_off l /\ tok = 0 /\ sp = false)).
  Proof.
    intros Hl. pose proof (linv_tokfields lx l (l_off l) (l_line l) (l_off l - l_lineoff l + 1) Hl) as Hl1.
    fold (tok_start l) in Hl1. set (l1 := tok_start l) in *.
    destruct (wf_parts lx Hwf) as (W1 & W2 & _ & _ & _ & Wst & Wsym & _ & Wentry & _ & Winv).
    destruct (Wst _ Hsc) as (Hs0 & Hs1). destruct (Wentry _ Hsc) as (Hstart & Heoi).
    pose proof (li_off lx l Hl) as Hoff.
    destruct (l_ch l <? 0) eqn:Ech.
    - (* at the end of the input *)
      assert (He : l_off l = slen l) by (apply (linv_ch lx l Hl); assumption).
      destruct (linv_end lx l1 Hl1 He) as (Hc1 & Hsc1 & _).
      change (@None (Z * Z * Z)) with (lift_backup None (l_off l1) 0 None).
      rewrite (dfa_eoi lx (inner l) start l1 0 None None Ech).
      unfold eoi_ok in Heoi. destruct (eoi_run (eoi_fuel t) t start None) as [[c b]|] eqn:Er; [|discriminate].
      rewrite (eoi_run_mono _ _ _ _ _ Er (inner l)) by (unfold inner, eoi_fuel; lia).
      exists c, l1, 0, (lift_backup b (l_off l1) 0 None). split; [reflexivity|].
      intros tok sp l3 Ef.
      (* the decision on the canonical empty input *)
      destruct (finish_end_formula lx c b end_state eq_refl eq_refl eq_refl) as (le & Ee & _).
      { intros l' [-> | ->]; [apply sub_nil|]. rewrite rewind_src. apply sub_nil. }
      change (l_off end_state) with 0 in Ee. rewrite Ee in Heoi.
      apply andb_true_iff in Heoi. destruct Heoi as [Ht Hspace]. apply Z.eqb_eq in Ht. apply negb_true_iff in Hspace.
      (* the same decision here *)
      destruct (rewind_ok lx l1 (l_off l1) Hl1 ltac:(unfold l1, tok_start, slen in *; cbn [l_off l_src] in *; lia)) as (R1 & R2 & R3).
      destruct (finish_end_formula lx c b l1 Hc1 eq_refl Hsc1) as (l3' & E3 & Hl3).
      { intros l' [-> | ->]; [apply sub_same|]. destruct R2 as (Rs & Rt & _). rewrite Rs, Rt, R3. apply sub_same. }
      rewrite E3 in Ef. inversion Ef; subst tok sp l3. clear Ef.
      destruct Hl3 as [-> | ->].
      + split; [assumption|]. split; [apply same_refl|]. right. repeat split; assumption.
      + split; [assumption|]. split; [assumption|]. right. split; [assumption|]. split; [exact R3|]. split; assumption.
    - (* a character is available *)
      assert (Hlt : l_off l < slen l).
      { destruct (Z.eq_dec (l_off l) (slen l)) as [E|]; [|lia]. apply (linv_ch lx l Hl) in E. congruence. }
      unfold inner. cbn [dfa_loop]. rewrite (proj2 (Z.ltb_ge start 0) Hs0).
      change (l_ch l1) with (l_ch l). rewrite Ech.
      set (y := lookup_sym (symbol_map t) (l_ch l)). set (st := cell t start y).
      assert (Hy : 1 <= y < num_symbols t) by apply Wsym.
      assert (Hcell : (0 <=? st) || (st =? action_start t - inv_act lx) = true).
      { unfold start_ok in Hstart. rewrite forallb_forall in Hstart. apply (Hstart y).
        apply in_map_iff. exists (y - 1). split; [lia|]. apply zrange_in. lia. }
      assert (Hast : action_start t <= -1) by (unfold action_start; lia).
      destruct (advance_ok lx l1 Hl1 Hlt) as (Ha & Hsame & Hao & Hasc).
      destruct (Z.leb_spec 0 st) as [Hnn|Hneg].
      + rewrite (proj2 (Z.gtb_lt st (action_start t)) ltac:(lia)), (proj2 (Z.ltb_ge st 0) Hnn).
        destruct (dfa_loop_ok lx Hwf (S (Z.to_nat (slen l - l_off l) + Z.to_nat (nstates t))) st (advance lx l1)
                    (wrap32u (0 * 31 + l_ch l)) None) as (st2 & l2 & h2 & b2 & E & P1 & P2 & P3 & P4 & P5).
        { pose proof (remaining_advance lx l1 Hl1 Hlt) as Hr. unfold remaining in *. change (slen l1) with (slen l) in Hr.
          change (l_off l1) with (l_off l) in Hr. lia. }
        { assumption. }
        { apply cell_range; [assumption|lia|lia]. }
        { destruct Hsame as (_ & Ht & _). rewrite Ht, Hao. change (l_tokoff l1) with (l_off l). change (l_off l1) with (l_off l) in Hasc. lia. }
        { exact I. }
        exists st2, l2, h2, b2. split; [exact E|]. intros tok sp l3 Ef.
        assert (Ht2 : l_tokoff l2 = l_off l).
        { destruct P3 as (_ & T2 & _). destruct Hsame as (_ & T1 & _). rewrite T2, T1. reflexivity. }
        pose proof (finish_progress lx st2 l2 h2 b2 P2 ltac:(lia)) as Fp. rewrite Ef in Fp.
        destruct Fp as (F1 & F2 & F3).
        { rewrite Ht2. change (l_off l1) with (l_off l) in Hasc. lia. }
        { assumption. }
        split; [assumption|]. split; [eapply same_trans; [exact Hsame|eapply same_trans; eauto]|].
        left. destruct F2 as (_ & T3 & _). rewrite T3, Ht2 in F3. assumption.
      + cbn [orb] in Hcell. apply Z.eqb_eq in Hcell.
        assert (Egt : (st >? action_start t) = false) by (rewrite Z.gtb_ltb; apply Z.ltb_ge; lia).
        rewrite Egt. cbn [dfa_loop]. rewrite (proj2 (Z.ltb_lt st 0) Hneg).
        exists st, l1, 0, None. split; [reflexivity|]. intros tok sp l3 Ef.
        destruct (finish_stuck lx Hwf l1 0 Hl1 eq_refl Hlt) as (tok' & Es).
        rewrite Hcell, Es in Ef. inversion Ef; subst tok sp l3. clear Ef.
        destruct (linv_mid lx l1 Hl1 Hlt) as (_ & Hscan & _).
        destruct (rewind_ok lx l1 (l_scan l1) Hl1 ltac:(pose proof (li_off lx l1 Hl1); lia)) as (R1 & R2 & R3).
        split; [assumption|]. split; [assumption|]. left. change (l_scan l) with (l_scan l1). rewrite R3. exact (proj1 Hscan).
  Qed.
End Next2.

Section Next3.
  Variable lx : lexer.
  Hypothesis Hwf : wf_lexer_tables lx = true.
  Variable sc : Z.
  Notation t := (lx_tables lx).
  Hypothesis Hsc : In (nthZ (state_map t) sc) (state_map t).

  (* what one call of Next guarantees, l0 being the state before the call *)
  Definition tok_facts (l0 : lstate) (tok : Z) (l' : lstate) : Prop :=
    linv lx l' /\ l_src l' = l_src l0 /\ l_off l0 <= l_tokoff l' /\ l_tokoff l' <= l_off l' /\
    (l_tokoff l' < l_off l' \/ (tok = 0 /\ l_off l' = slen l' /\ l_tokoff l' = l_off l')) /\
    (lx_token_line lx = true -> l_tokline l' = 1 + count_nl (firstn (Z.to_nat (l_tokoff l')) (l_src l'))) /\
    (lx_token_line lx && lx_token_column lx = true ->
       l_tokcol l' = l_tokoff l' - after_last_nl (firstn (Z.to_nat (l_tokoff l')) (l_src l')) 0 0 + 1).

  Lemma next_tok_ok fuel : forall l, (remaining l < fuel)%nat -> linv lx l ->
    exists tok l', next_tok fuel lx sc l = Some (tok, l') /\ tok_facts l tok l'.
  Proof.
    induction fuel as [|f IH]; intros l Hf Hl; [lia|].
    rewrite (next_tok_unfold lx sc f l).
    destruct (attempt_ok lx Hwf sc Hsc l Hl) as (st & l2 & h2 & b2 & E & Hfin).
    rewrite E. destruct (finish lx st l2 h2 b2) as [[tok sp] l3] eqn:Ef.
    destruct (Hfin tok sp l3 eq_refl) as (Hl3 & (S1 & S2 & S3 & S4) & Hprog).
    cbn [tok_start l_src l_tokoff l_tokline l_tokcol] in S1, S2, S3, S4.
    pose proof (li_off lx l Hl) as Hoff. pose proof (li_off lx l3 Hl3) as Hoff3.
    assert (Hslen : slen l3 = slen l) by (unfold slen; rewrite S1; reflexivity).
    destruct sp.
    - destruct Hprog as [Hp|(_ & _ & _ & Hsp)]; [|discriminate].
      destruct (IH l3) as (tok' & l' & En & F1 & F2 & F3 & F4 & F5 & F6 & F7); [unfold remaining in *; lia|assumption|].
      exists tok', l'. split; [exact En|].
      split; [assumption|]. split; [congruence|]. split; [lia|]. split; [assumption|].
      split; [|split; assumption].
      destruct F5 as [F5|(A & B & C)]; [left; assumption|right; repeat split; assumption].
    - exists tok, l3. split; [reflexivity|].
      split; [assumption|]. split; [assumption|]. split; [lia|].
      split; [destruct Hprog as [Hp|(A & B & _)]; lia|].
      split; [destruct Hprog as [Hp|(A & B & C & _)]; [left; lia|right; repeat split; try assumption; lia]|].
      split.
      + intros Htl. rewrite S3, S2, S1. exact (li_line lx l Hl Htl).
      + intros Htc. rewrite S4, S2, S1, (li_lineoff lx l Hl Htc). reflexivity.
  Qed.

  (* (a) next_terminates: the fuel 1 + remaining bytes is always enough *)
  Theorem next_terminates l : linv lx l -> exists tok l', next_tok (next_fuel l) lx sc l = Some (tok, l') /\ tok_facts l tok l'.
  Proof. intros Hl. apply next_tok_ok; [unfold next_fuel; lia|assumption]. Qed.

  (* eoi_repeats: at the end of the input Next answers end-of-input and stays there *)
  Theorem eoi_repeats l : linv lx l -> l_off l = slen l ->
    exists l', next_tok (next_fuel l) lx sc l = Some (0, l') /\ linv lx l' /\ l_src l' = l_src l /\
               l_off l' = slen l' /\ l_tokoff l' = slen l'.
  Proof.
    intros Hl He. destruct (next_terminates l Hl) as (tok & l' & E & F1 & F2 & F3 & F4 & F5 & _).
    pose proof (li_off lx l' F1) as Ho'. assert (Hs : slen l' = slen l) by (unfold slen; rewrite F2; reflexivity).
    destruct F5 as [F5|(A & B & C)]; [lia|]. subst tok.
    exists l'. split; [exact E|]. split; [assumption|]. split; [assumption|]. split; [assumption|]. lia.
  Qed.

  (* the observable stream: tokens in order, non-empty, the last one end-of-input; lines and columns of first bytes *)
  Inductive stream_ok (src : list Z) : Z -> list (list Z) -> Prop :=
  | SO_eoi lo s e ln col : lo <= s <= e -> pos_ok src s ln col -> stream_ok src lo [[0; s; e; ln; col]]
  | SO_tok lo tok s e ln col rest : tok <> 0 -> lo <= s -> s < e -> pos_ok src s ln col ->
      stream_ok src e rest -> stream_ok src lo ([tok; s; e; ln; col] :: rest)
  with pos_ok (src : list Z) : Z -> Z -> Z -> Prop :=
  | PO s ln col :
      (lx_token_line lx = true -> ln = 1 + count_nl (firstn (Z.to_nat s) src)) ->
      (lx_token_line lx && lx_token_column lx = true -> col = s - after_last_nl (firstn (Z.to_nat s) src) 0 0 + 1) ->
      pos_ok src s ln col.

  (* (c) tokens_finite_and_end_in_eoi: at most 1 + remaining bytes calls of Next *)
  Theorem tokens_finite_and_end_in_eoi n : forall l, (remaining l < n)%nat -> linv lx l ->
    exists toks, lex_all n lx sc l = Some toks /\ stream_ok (l_src l) (l_off l) toks.
  Proof.
    induction n as [|n IH]; intros l Hn Hl; [lia|]. cbn [lex_all].
    destruct (next_terminates l Hl) as (tok & l' & E & F1 & F2 & F3 & F4 & F5 & F6 & F7). rewrite E.
    assert (Hpos : pos_ok (l_src l) (l_tokoff l') (l_tokline l') (l_tokcol l')) by (constructor; rewrite <- F2; assumption).
    destruct (Z.eqb_spec tok 0) as [->|Hne].
    - eexists. split; [reflexivity|]. unfold obs. apply SO_eoi; [lia|assumption].
    - destruct F5 as [F5|(A & _)]; [|congruence].
      pose proof (li_off lx l' F1) as Ho'. assert (Hs : slen l' = slen l) by (unfold slen; rewrite F2; reflexivity).
      destruct (IH l') as (rest & Er & Hr); [unfold remaining in *; lia|assumption|].
      rewrite Er. eexists. split; [reflexivity|]. unfold obs. apply SO_tok; try assumption. rewrite <- F2. assumption.
  Qed.
End Next3.

(* ------------------------------------------------------------------ the extracted (capped) stream never runs out of fuel *)
Section Run.
  Variable lx : lexer.
  Hypothesis Hwf : wf_lexer_tables lx = true.
  Variable sc : Z.
  Hypothesis Hsc : In (nthZ (state_map (lx_tables lx)) sc) (state_map (lx_tables lx)).

  Lemma next_any_fuel l : linv lx l ->
    exists tok l', next_tok (S (S (length (l_src l)))) lx sc l = Some (tok, l') /\ linv lx l' /\ l_src l' = l_src l.
  Proof.
    intros Hl. destruct (next_tok_ok lx Hwf sc Hsc (S (S (length (l_src l)))) l) as (tok & l' & E & F1 & F2 & _).
    - pose proof (li_off lx l Hl). unfold remaining, slen in *. lia.
    - assumption.
    - exists tok, l'. auto.
  Qed.

  Lemma stream_no_timeout cap : forall l, linv lx l -> ~ In [-3] (stream cap lx sc l).
  Proof.
    induction cap as [|c IH]; intros l Hl; cbn [stream].
    - intros [H|[]]; discriminate.
    - destruct (next_any_fuel l Hl) as (tok & l1 & E1 & H1 & S1). rewrite E1.
      destruct (tok =? 0).
      + destruct (next_any_fuel l1 H1) as (tok2 & l2 & E2 & H2 & S2). rewrite S1 in E2. rewrite E2.
        destruct (next_any_fuel l2 H2) as (tok3 & l3 & E3 & H3 & S3). rewrite S2, S1 in E3. rewrite E3.
        unfold obs. intros [H|[H|[H|[]]]]; discriminate.
      + intros [H|H]; [unfold obs in H; discriminate|]. exact (IH l1 H1 H).
  Qed.

  Theorem run_lexer_never_out_of_fuel src bom : bytes_ok src -> ~ In [-3] (run_lexer lx sc src bom).
  Proof.
    intros Hsrc. destruct (init_ok lx src Hsrc) as (Hi & Hs & Ho). unfold run_lexer.
    destruct src as [|b0 [|b1 [|b2 r]]]; try (apply stream_no_timeout; assumption).
    destruct (bom && (b0 =? 239) && (b1 =? 187) && (b2 =? 191)); [|apply stream_no_timeout; assumption].
    apply stream_no_timeout. apply rewind_ok; [assumption|unfold slen; rewrite Hs; cbn [length]; lia].
  Qed.
End Run.
