(* C10, class_spec from the concrete syntax: parseClass on a printed bracket expression collects exactly the written
   ranges and subtracted sets. *)
From Coq Require Import List ZArith Bool Lia.
From TM Require Import Lex.Tables Lex.Charset Lex.Charset_proofs Lex.Charset_proofs2 Lex.RegexParse Lex.RegexParse_proofs2 Lex.ClassText.
Import ListNotations.
Local Open Scope Z_scope.

(* the parser positioned at byte offset k of an ASCII pattern, `rem` being the bytes from k on *)
Definition stt (src : list Z) (k : Z) (rem : list Z) : pstate :=
  match rem with [] => mkP src k k (-1) [] | c :: r => mkP src k (k + 1) c r end.
Definition ascii (l : list Z) : Prop := Forall (fun b => 0 <= b < 128) l.

Lemma next_stt src k c r : ascii r -> next (stt src k (c :: r)) = Ok (stt src (k + 1) r).
Proof.
  intros Ha. unfold next, stt. cbn [p_rest p_src p_scan]. destruct r as [|b t]; [reflexivity|].
  inversion Ha as [|? ? Hb _]. subst. rewrite (proj2 (Z.ltb_lt b 128)) by lia. reflexivity.
Qed.

Section Loop.
  Variable sf : Z -> Z.
  Variable named : list Z -> option (Z * table * table).

  (* the scanning loop of parse_class as a function of its own (the same term) *)
  Section TheLoop.
  Variable rec : pstate -> popts -> res (pstate * charset).
  Variable fuel' : nat.
  Variable o : popts.
  Variables start mx : Z.
  Fixpoint class_loop (n : nat) (p : pstate) (r : charset) (subs : list charset) {struct n} : res (pstate * charset * list charset) :=
        match n with
        | O => Err E_fuel 0 0
        | S n' =>
          let c := p_ch p in
          if c =? 93 then Ok (p, r, subs)
          else
            let lo_start := p_off p in
            let range_part (p : pstate) (lo : Z) (r : charset) :=
              let so := p_scan p in
              if negb (p_ch p =? 45) || (so =? src_len p) || (match p_rest p with b :: _ => b =? 93 | [] => false end)
              then class_loop n' p (append_range_rev r lo lo) subs
              else
                do p1 <- next p;
                do '(p2, hi) <-
                  (if p_ch p1 =? 92 then
                     do '(p2, cs) <- parse_escape sf named fuel' p1 o false;
                     if negb (one_rune cs) then Err E_class_range lo_start (p_off p2)
                     else Ok (p2, match cs with (x, _) :: _ => x | [] => 0 end)
                   else
                     if p_ch p1 >? mx then Err E_invalid_char (p_off p1) (p_scan p1)
                     else do p2 <- next p1; Ok (p2, p_ch p1));
                if hi <? lo then Err E_class_range lo_start (p_off p2)
                else class_loop n' p2 (append_range_rev r lo hi) subs in
            if c =? 46 then
              do p' <- next p; class_loop n' p' ((11, mx) :: (0, 9) :: r) subs
            else if c =? 45 then
              do p1 <- next p;
              if p_ch p1 =? 91 then
                do '(p2, cs) <- rec p1 o;
                class_loop n' p2 r (subs ++ [cs])
              else if p_ch p1 =? 92 then
                do '(p2, cs) <- parse_escape sf named fuel' p1 o false;
                if negb (one_rune cs) then class_loop n' p2 r (subs ++ [cs])
                else range_part p2 (match cs with (x, _) :: _ => x | [] => 0 end) ((45, 45) :: r)
              else class_loop n' p1 ((45, 45) :: r) subs
            else if c =? -1 then Err E_missing_bracket start (p_off p)
            else if c =? 92 then
              do '(p2, cs) <- parse_escape sf named fuel' p o false;
              if negb (one_rune cs) then class_loop n' p2 (rev cs ++ r) subs
              else range_part p2 (match cs with (x, _) :: _ => x | [] => 0 end) r
            else
              if c >? mx then Err E_invalid_char (p_off p) (p_scan p)
              else do p' <- next p; range_part p' c r
        end.
  End TheLoop.

  Lemma parse_class_unfold fuel' p0 o : parse_class sf named (S fuel') p0 o =
      let start := p_off p0 in
      let mx := opt_max o in
      do p <- next p0;
      do '(p, negated) <- (if p_ch p =? 94 then (do p' <- next p; Ok (p', true)) else Ok (p, false));
      do '(p, r) <- (if p_ch p =? 93 then (do p' <- next p; Ok (p', [(93, 93)])) else Ok (p, []));
      let fold := o_fold o in
      let o' := mkOpts false (o_bytes o) in
      do '(p, r, subs) <- class_loop (parse_class sf named fuel') fuel' o' start mx fuel' p r [];
      let cs := new_charset (rev r) in
      let cs := fold_left subtract subs cs in
      let cs := if fold then cs_fold sf cs (o_bytes o') else cs in
      let cs := if negated then invert cs mx else cs in
      do p' <- next p;
      Ok (p', cs).
  Proof. reflexivity. Qed.
End Loop.

Lemma plainb_facts c : plainb c = true -> 0 <= c < 128 /\ c <> 45 /\ c <> 46 /\ c <> 92 /\ c <> 93 /\ c <> 94.
Proof.
  unfold plainb. intros H.
  repeat (apply andb_true_iff in H; destruct H as [H ?]).
  repeat match goal with
  | H : negb (_ =? _) = true |- _ => apply negb_true_iff in H; apply Z.eqb_neq in H
  | H : (_ <=? _) = true |- _ => apply Z.leb_le in H
  | H : (_ <? _) = true |- _ => apply Z.ltb_lt in H
  end. lia.
Qed.

Definition hd_not_dash (tl : list Z) : Prop := match tl with 45 :: _ => False | _ => True end.

Lemma ch_stt_not_dash src k tl : hd_not_dash tl -> (p_ch (stt src k tl) =? 45) = false.
Proof.
  destruct tl as [|b t]; [reflexivity|]. cbn [stt p_ch hd_not_dash]. intros H. apply Z.eqb_neq. intros ->. exact H.
Qed.

Section Steps.
  Variable sf : Z -> Z.
  Variable named : list Z -> option (Z * table * table).
  Variable rec : pstate -> popts -> res (pstate * charset).
  Variable fuel' : nat.
  Variable bytes : bool.
  Variable start : Z.
  Notation o' := (mkOpts false bytes).
  Notation mx := (opt_max (mkOpts false bytes)).
  Notation L := (class_loop sf named rec fuel' o' start mx).

  Lemma mx_ge : 255 <= mx.
  Proof. unfold opt_max, max_rune_u. cbn [o_bytes]. destruct bytes; lia. Qed.

  Lemma step_char n c tl r subs src k : plainb c = true -> ascii tl -> hd_not_dash tl ->
    L (S n) (stt src k (c :: tl)) r subs = L n (stt src (k + 1) tl) (append_range_rev r c c) subs.
  Proof.
    intros Hc Ha Hd. destruct (plainb_facts c Hc) as (H0 & H1 & H2 & H3 & H4 & H5). pose proof mx_ge as Hm.
    cbn [class_loop]. cbn [stt p_ch p_off p_scan].
    rewrite (proj2 (Z.eqb_neq c 93)), (proj2 (Z.eqb_neq c 46)), (proj2 (Z.eqb_neq c 45)), (proj2 (Z.eqb_neq c (-1))), (proj2 (Z.eqb_neq c 92)) by lia.
    rewrite Z.gtb_ltb, (proj2 (Z.ltb_ge mx c)) by lia.
    change (mkP src k (k + 1) c tl) with (stt src k (c :: tl)). rewrite (next_stt src k c tl Ha). cbn [bind]. rewrite (ch_stt_not_dash src (k + 1) tl Hd). cbn [negb orb]. reflexivity.
  Qed.

  Lemma off_stt src k tl : p_off (stt src k tl) = k.
  Proof. destruct tl; reflexivity. Qed.

  Lemma step_range n lo hi tl r subs src k : plainb lo = true -> plainb hi = true -> ascii tl ->
    Z.of_nat (length src) = k + Z.of_nat (length (lo :: 45 :: hi :: tl)) ->
    L (S n) (stt src k (lo :: 45 :: hi :: tl)) r subs =
      if hi <? lo then Err E_class_range k (k + 1 + 1 + 1)
      else L n (stt src (k + 1 + 1 + 1) tl) (append_range_rev r lo hi) subs.
  Proof.
    intros Hlo Hhi Ha Hlen. destruct (plainb_facts lo Hlo) as (H0 & H1 & H2 & H3 & H4 & H5).
    destruct (plainb_facts hi Hhi) as (G0 & G1 & G2 & G3 & G4 & G5). pose proof mx_ge as Hm.
    assert (A1 : ascii (hi :: tl)) by (constructor; [lia|exact Ha]).
    assert (A2 : ascii (45 :: hi :: tl)) by (constructor; [lia|exact A1]).
    cbn [class_loop]. cbn [stt p_ch p_off p_scan].
    rewrite (proj2 (Z.eqb_neq lo 93)), (proj2 (Z.eqb_neq lo 46)), (proj2 (Z.eqb_neq lo 45)), (proj2 (Z.eqb_neq lo (-1))), (proj2 (Z.eqb_neq lo 92)) by lia.
    rewrite Z.gtb_ltb, (proj2 (Z.ltb_ge mx lo)) by lia.
    change (mkP src k (k + 1) lo (45 :: hi :: tl)) with (stt src k (lo :: 45 :: hi :: tl)). rewrite (next_stt src k lo _ A2). cbn [bind].
    cbn [stt p_ch p_scan p_rest]. cbn [Z.eqb Pos.eqb negb orb]. unfold src_len. cbn [p_src].
    cbn [length] in Hlen. rewrite (proj2 (Z.eqb_neq (k + 1 + 1) (Z.of_nat (length src)))) by lia.
    rewrite (proj2 (Z.eqb_neq hi 93)) by lia. cbn [orb].
    change (mkP src (k + 1) (k + 1 + 1) 45 (hi :: tl)) with (stt src (k + 1) (45 :: hi :: tl)). rewrite (next_stt src (k + 1) 45 _ A1). cbn [bind].
    cbn [stt p_ch p_scan]. rewrite (proj2 (Z.eqb_neq hi 92)) by lia.
    rewrite Z.gtb_ltb, (proj2 (Z.ltb_ge mx hi)) by lia.
    change (mkP src (k + 1 + 1) (k + 1 + 1 + 1) hi tl) with (stt src (k + 1 + 1) (hi :: tl)). rewrite (next_stt src (k + 1 + 1) hi _ Ha). cbn [bind].
    rewrite off_stt. reflexivity.
  Qed.

  Lemma simple_letter_cases e : simple_letter e = true -> e = 97 \/ e = 102 \/ e = 110 \/ e = 114 \/ e = 116 \/ e = 118.
  Proof.
    unfold simple_letter. intros H. repeat (apply orb_true_iff in H; destruct H as [H|H]); apply Z.eqb_eq in H; lia.
  Qed.

  Lemma parse_escape_simple f e tl src k : simple_letter e = true -> ascii tl ->
    parse_escape sf named f (stt src k (92 :: e :: tl)) o' false = Ok (stt src (k + 1 + 1) tl, [(esc_val e, esc_val e)]).
  Proof.
    intros He Ha. assert (A1 : ascii (e :: tl)).
    { constructor; [|exact Ha]. destruct (simple_letter_cases e He) as [->|[->|[->|[->|[->| ->]]]]]; lia. }
    unfold parse_escape. rewrite (next_stt src k 92 _ A1). cbn [bind]. cbn [stt p_ch].
    destruct (simple_letter_cases e He) as [->|[->|[->|[->|[->| ->]]]]];
      cbn -[next]; (change (mkP src (k + 1) (k + 1 + 1) ?x tl) with (stt src (k + 1) (?x :: tl)) || idtac);
      match goal with |- context [next (mkP src (k + 1) (k + 1 + 1) ?x tl)] =>
        change (mkP src (k + 1) (k + 1 + 1) x tl) with (stt src (k + 1) (x :: tl)); rewrite (next_stt src (k + 1) x tl Ha) end;
      reflexivity.
  Qed.

  Lemma step_esc n e tl r subs src k : simple_letter e = true -> ascii tl -> hd_not_dash tl ->
    L (S n) (stt src k (92 :: e :: tl)) r subs = L n (stt src (k + 1 + 1) tl) (append_range_rev r (esc_val e) (esc_val e)) subs.
  Proof.
    intros He Ha Hd. cbn [class_loop].
    replace (p_ch (stt src k (92 :: e :: tl))) with 92 by reflexivity. cbn [Z.eqb Pos.eqb].
    rewrite (parse_escape_simple fuel' e tl src k He Ha). cbn [bind one_rune]. rewrite Z.eqb_refl. cbn [negb].
    rewrite (ch_stt_not_dash src (k + 1 + 1) tl Hd). cbn [negb orb]. reflexivity.
  Qed.

  Lemma step_sub n rest r subs src k : ascii (91 :: rest) ->
    L (S n) (stt src k (45 :: 91 :: rest)) r subs =
      do '(p2, cs) <- rec (stt src (k + 1) (91 :: rest)) o'; L n p2 r (subs ++ [cs]).
  Proof.
    intros Ha. cbn [class_loop].
    replace (p_ch (stt src k (45 :: 91 :: rest))) with 45 by reflexivity. cbn [Z.eqb Pos.eqb].
    rewrite (next_stt src k 45 _ Ha). cbn [bind].
    replace (p_ch (stt src (k + 1) (91 :: rest))) with 91 by reflexivity. cbn [Z.eqb Pos.eqb]. reflexivity.
  Qed.
End Steps.

(* ------------------------------------------------------------------ the loop over a printed body *)
Definition is_sub (it : citem) : bool := match it with CSub _ _ => true | _ => false end.

Lemma print_body_cons it rest tl : print_body (it :: rest) ++ tl = print_item it ++ (print_body rest ++ tl).
Proof. unfold print_body. cbn [map concat]. rewrite app_assoc. reflexivity. Qed.

Lemma print_body_len it rest : length (print_body (it :: rest)) = (length (print_item it) + length (print_body rest))%nat.
Proof. unfold print_body. cbn [map concat]. apply app_length. Qed.

Lemma ascii_app a b : ascii (a ++ b) -> ascii a /\ ascii b.
Proof. unfold ascii. intros H. apply Forall_app in H. exact H. Qed.

Lemma hd_ok rest tl : forallb wf_item rest = true -> sub_placed false rest = true -> hd_not_dash tl ->
  hd_not_dash (print_body rest ++ tl).
Proof.
  intros Hw Hp Ht. destruct rest as [|it rest]; [exact Ht|]. rewrite print_body_cons.
  cbn [forallb] in Hw. apply andb_true_iff in Hw. destruct Hw as [Hw _].
  destruct it as [[c|lo hi|e]|neg body]; cbn [print_item print_sitem app hd_not_dash wf_item wf_sitem] in *.
  - destruct (plainb_facts c Hw) as (_ & H & _). destruct c as [|[p|p|]|]; try exact I. repeat (destruct p as [p|p|]; try exact I). congruence.
  - apply andb_true_iff in Hw. destruct Hw as [Hw _]. apply andb_true_iff in Hw. destruct Hw as [Hw _].
    destruct (plainb_facts lo Hw) as (_ & H & _). destruct lo as [|[p|p|]|]; try exact I. repeat (destruct p as [p|p|]; try exact I). congruence.
  - exact I.
  - cbn [sub_placed] in Hp. discriminate.
Qed.

Section Items.
  Variable sf : Z -> Z.
  Variable named : list Z -> option (Z * table * table).

  Definition sub_rel (bytes : bool) (s : charset) (nb : bool * list sitem) : Prop :=
    exists coll, s = class_den sf false (fst nb) bytes coll [] /\
      (forall x, mem x coll = mem x (map srange (snd nb))) /\ (forall p, In p coll -> valid p).

  Variable rec : pstate -> popts -> res (pstate * charset).
  Variable fuel' : nat.
  Variable bytes : bool.
  Variable start : Z.
  Variable src : list Z.
  Notation o' := (mkOpts false bytes).
  Notation mx := (opt_max (mkOpts false bytes)).
  Notation L := (class_loop sf named rec fuel' o' start mx).

  (* what the call for a nested set answers *)
  Definition rec_ok : Prop := forall neg body k rest,
    negb (Nat.eqb (length body) 0) && forallb wf_sitem body = true -> (S (length body) < fuel')%nat ->
    ascii (91 :: print_neg neg ++ print_sbody body ++ 93 :: rest) ->
    Z.of_nat (length src) = k + Z.of_nat (length (91 :: print_neg neg ++ print_sbody body ++ 93 :: rest)) ->
    exists cs, rec (stt src k (91 :: print_neg neg ++ print_sbody body ++ 93 :: rest)) o' =
        Ok (stt src (k + Z.of_nat (length (91 :: print_neg neg ++ print_sbody body ++ [93]))) rest, cs) /\
      sub_rel bytes cs (neg, body).

  Lemma loop_items : forall items prev_ok m tl r subs k k',
    forallb wf_item items = true -> sub_placed prev_ok items = true ->
    (existsb is_sub items = true -> rec_ok) ->
    (forall neg body, In (CSub neg body) items -> (S (length body) < fuel')%nat) ->
    ascii (print_body items ++ tl) -> hd_not_dash tl ->
    Z.of_nat (length src) = k + Z.of_nat (length (print_body items ++ tl)) ->
    k' = k + Z.of_nat (length (print_body items)) ->
    (forall p, In p r -> valid p) ->
    exists r' subs', L (length items + m)%nat (stt src k (print_body items ++ tl)) r subs = L m (stt src k' tl) r' (subs ++ subs') /\
      (forall x, mem x r' = mem x r || mem x (ranges_of items)) /\ (forall p, In p r' -> valid p) /\
      Forall2 (sub_rel bytes) subs' (subs_of items).
  Proof.
    induction items as [|it rest IH]; intros prev_ok m tl r subs k k' Hw Hp Hrec Hsz Ha Hd Hlen Hk Hv.
    - exists r, []. cbn [print_body map concat app length] in *. rewrite app_nil_r. subst k'. rewrite Z.add_0_r.
      split; [reflexivity|]. split; [intros x; cbn; rewrite orb_false_r; reflexivity|]. split; [exact Hv|constructor].
    - cbn [forallb] in Hw. apply andb_true_iff in Hw. destruct Hw as [Hwi Hwr].
      cbn [sub_placed] in Hp. apply andb_true_iff in Hp. destruct Hp as [Hpi Hpr].
      rewrite print_body_cons in Ha, Hlen |- *. rewrite print_body_len in Hk.
      set (T := print_body rest ++ tl) in *.
      assert (Hrec' : existsb is_sub rest = true -> rec_ok).
      { intros E. apply Hrec. cbn [existsb]. rewrite E. apply orb_true_r. }
      assert (Hsz' : forall neg body, In (CSub neg body) rest -> (S (length body) < fuel')%nat).
      { intros neg0 body0 Hin. apply (Hsz neg0 body0). right. exact Hin. }
      cbn [length plus].
      destruct it as [[c|lo hi|e]|neg body]; cbn [print_item print_sitem app wf_item wf_sitem ends_range] in *.
      + (* a character *)
        inversion Ha as [|? ? _ HaT]; subst.
        pose proof (hd_ok rest tl Hwr Hpr Hd) as HdT. fold T in HdT.
        rewrite (step_char sf named rec fuel' bytes start _ c T r subs src k Hwi HaT HdT).
        destruct (IH false m tl (append_range_rev r c c) subs (k + 1) (k + Z.of_nat (1 + length (print_body rest)))) as (r' & subs' & E & M & V & F);
          try assumption.
        { fold T. cbn [length] in Hlen. lia. }
        { lia. }
        { apply append_range_rev_valid; [lia|exact Hv]. }
        exists r', subs'. split; [exact E|]. split; [|split; [exact V|exact F]].
        intros x. rewrite M, append_range_rev_mem by (try lia; exact Hv). cbn [ranges_of flat_map app srange]. rewrite mem_cons, orb_assoc. reflexivity.
      + (* a range *)
        apply andb_true_iff in Hwi. destruct Hwi as [Hwi Hle]. apply andb_true_iff in Hwi. destruct Hwi as [Hlo Hhi]. apply Z.leb_le in Hle.
        inversion Ha as [|? ? _ Ha1]; subst. inversion Ha1 as [|? ? _ Ha2]; subst. inversion Ha2 as [|? ? _ HaT]; subst.
        rewrite (step_range sf named rec fuel' bytes start _ lo hi T r subs src k Hlo Hhi HaT Hlen).
        rewrite (proj2 (Z.ltb_ge hi lo)) by lia.
        destruct (IH true m tl (append_range_rev r lo hi) subs (k + 1 + 1 + 1) (k + Z.of_nat (3 + length (print_body rest)))) as (r' & subs' & E & M & V & F);
          try assumption.
        { fold T. cbn [length] in Hlen. lia. }
        { lia. }
        { apply append_range_rev_valid; [lia|exact Hv]. }
        exists r', subs'. split; [exact E|]. split; [|split; [exact V|exact F]].
        intros x. rewrite M, append_range_rev_mem by (try lia; exact Hv). cbn [ranges_of flat_map app srange]. rewrite mem_cons, orb_assoc. reflexivity.
      + (* a simple escape *)
        inversion Ha as [|? ? _ Ha1]; subst. inversion Ha1 as [|? ? _ HaT]; subst.
        pose proof (hd_ok rest tl Hwr Hpr Hd) as HdT. fold T in HdT.
        rewrite (step_esc sf named rec fuel' bytes start _ e T r subs src k Hwi HaT HdT).
        destruct (IH false m tl (append_range_rev r (esc_val e) (esc_val e)) subs (k + 1 + 1) (k + Z.of_nat (2 + length (print_body rest)))) as (r' & subs' & E & M & V & F);
          try assumption.
        { fold T. cbn [length] in Hlen. lia. }
        { lia. }
        { apply append_range_rev_valid; [lia|exact Hv]. }
        exists r', subs'. split; [exact E|]. split; [|split; [exact V|exact F]].
        intros x. rewrite M, append_range_rev_mem by (try lia; exact Hv). cbn [ranges_of flat_map app srange]. rewrite mem_cons, orb_assoc. reflexivity.
      + (* a subtracted set *)
        assert (Etext : (print_neg neg ++ print_sbody body ++ [93]) ++ T = print_neg neg ++ print_sbody body ++ 93 :: T).
        { rewrite <- !app_assoc. reflexivity. }
        rewrite Etext in Ha, Hlen |- *.
        inversion Ha as [|? ? _ Ha1]; subst.
        rewrite (step_sub sf named rec fuel' bytes start _ _ r subs src k Ha1).
        destruct (Hrec eq_refl neg body (k + 1) T Hwi (Hsz neg body (or_introl eq_refl)) Ha1) as (cs & Er & Hcs).
        { cbn [length] in Hlen |- *. lia. }
        rewrite Er. cbn [bind].
        set (k1 := k + 1 + Z.of_nat (length (91 :: print_neg neg ++ print_sbody body ++ [93]))).
        assert (HaT : ascii (print_body rest ++ tl)).
        { inversion Ha1 as [|? ? _ Hx]; subst. apply ascii_app in Hx. destruct Hx as [_ Hx]. apply ascii_app in Hx. destruct Hx as [_ Hx].
          inversion Hx; subst; assumption. }
        match goal with |- exists _ _, _ = class_loop _ _ _ _ _ _ _ m (stt src ?kk tl) _ _ /\ _ =>
          destruct (IH true m tl r (subs ++ [cs]) k1 kk) as (r' & subs' & E & M & V & F); try assumption end.
        { fold T. subst k1. rewrite ?app_length in *. cbn [length] in *. rewrite ?app_length in *. cbn [length] in *. lia. }
        { subst k1. rewrite ?app_length. cbn [length]. rewrite ?app_length. cbn [length]. lia. }
        exists r', (cs :: subs'). rewrite <- app_assoc in E. cbn [app] in E.
        split; [exact E|]. split; [exact M|]. split; [exact V|]. cbn [subs_of flat_map app]. constructor; [exact Hcs|exact F].
  Qed.
End Items.

(* ------------------------------------------------------------------ the whole bracket expression *)
Lemma first_char items tl : items <> [] -> forallb wf_item items = true ->
  exists c0 t0, print_body items ++ tl = c0 :: t0 /\ c0 <> 94 /\ c0 <> 93.
Proof.
  intros Hne Hw. destruct items as [|it rest]; [congruence|]. rewrite print_body_cons.
  cbn [forallb] in Hw. apply andb_true_iff in Hw. destruct Hw as [Hw _].
  destruct it as [[c|lo hi|e]|neg body]; cbn [print_item print_sitem app wf_item wf_sitem] in *.
  - destruct (plainb_facts c Hw) as (_ & _ & _ & _ & H1 & H2). eauto.
  - apply andb_true_iff in Hw. destruct Hw as [Hw _]. apply andb_true_iff in Hw. destruct Hw as [Hw _].
    destruct (plainb_facts lo Hw) as (_ & _ & _ & _ & H1 & H2). eauto.
  - eexists _, _. split; [reflexivity|]. split; lia.
  - eexists _, _. split; [reflexivity|]. split; lia.
Qed.

Section ClassThm.
  Variable sf : Z -> Z.
  Variable named : list Z -> option (Z * table * table).

  Lemma class_wrapper fuel' o src neg items k k' tl :
    wf_items items = true ->
    (existsb is_sub items = true -> rec_ok sf (parse_class sf named fuel') fuel' (o_bytes o) src) ->
    (forall neg body, In (CSub neg body) items -> (S (length body) < fuel')%nat) ->
    (length items < fuel')%nat ->
    ascii (print_class neg items ++ tl) ->
    Z.of_nat (length src) = k + Z.of_nat (length (print_class neg items ++ tl)) ->
    k' = k + Z.of_nat (length (print_class neg items)) ->
    exists coll subs,
      parse_class sf named (S fuel') (stt src k (print_class neg items ++ tl)) o =
        Ok (stt src k' tl, class_den sf (o_fold o) neg (o_bytes o) coll subs) /\
      (forall x, mem x coll = mem x (ranges_of items)) /\ (forall p, In p coll -> valid p) /\
      Forall2 (sub_rel sf (o_bytes o)) subs (subs_of items).
  Proof.
    intros Hwf Hrec Hsz Hfuel Ha Hlen Hk.
    unfold wf_items in Hwf. apply andb_true_iff in Hwf. destruct Hwf as [Hwf Hpl]. apply andb_true_iff in Hwf. destruct Hwf as [Hne Hw].
    assert (Hne' : items <> []) by (intro E; subst items; discriminate Hne).
    assert (Etext : print_class neg items ++ tl = 91 :: print_neg neg ++ (print_body items ++ 93 :: tl)).
    { unfold print_class. cbn [app]. rewrite <- !app_assoc. reflexivity. }
    rewrite Etext in Ha, Hlen |- *.
    inversion Ha as [|? ? _ Ha1]; subst.
    destruct (first_char items (93 :: tl) Hne' Hw) as (c0 & t0 & Ec & Hc94 & Hc93).
    (* the state after '[' and the optional '^' *)
    set (kb := k + 1 + Z.of_nat (length (print_neg neg))).
    assert (Hab : ascii (print_body items ++ 93 :: tl)) by (apply ascii_app in Ha1; exact (proj2 Ha1)).
    assert (Hneg : (if p_ch (stt src (k + 1) (print_neg neg ++ (print_body items ++ 93 :: tl))) =? 94
                    then do p' <- next (stt src (k + 1) (print_neg neg ++ (print_body items ++ 93 :: tl))); Ok (p', true)
                    else Ok (stt src (k + 1) (print_neg neg ++ (print_body items ++ 93 :: tl)), false)) =
                   Ok (stt src kb (print_body items ++ 93 :: tl), neg)).
    { subst kb. destruct neg; cbn [print_neg app length].
      - replace (p_ch (stt src (k + 1) (94 :: print_body items ++ 93 :: tl))) with 94 by reflexivity. rewrite Z.eqb_refl.
        rewrite (next_stt src (k + 1) 94 _ Hab). cbn [bind]. reflexivity.
      - rewrite Ec. cbn [stt p_ch]. rewrite (proj2 (Z.eqb_neq c0 94) Hc94). rewrite Z.add_0_r. reflexivity. }
    assert (H93 : (p_ch (stt src kb (print_body items ++ 93 :: tl)) =? 93) = false).
    { rewrite Ec. cbn [stt p_ch]. apply Z.eqb_neq. exact Hc93. }
    assert (Hatl : ascii tl).
    { apply ascii_app in Hab. destruct Hab as [_ Hx]. inversion Hx; assumption. }
    assert (Hm : exists m', fuel' = (length items + S m')%nat) by (exists (fuel' - length items - 1)%nat; lia).
    destruct Hm as (m' & Hm).
    destruct (loop_items sf named (parse_class sf named fuel') fuel' (o_bytes o) (p_off (stt src k (91 :: print_neg neg ++ (print_body items ++ 93 :: tl)))) src
                items true (S m') (93 :: tl) [] [] kb (kb + Z.of_nat (length (print_body items)))) as (r' & subs' & E & M & V & F); try assumption.
    { exact I. }
    { subst kb. cbn [length] in Hlen. rewrite app_length in Hlen. lia. }
    { reflexivity. }
    { intros p []. }
    rewrite <- Hm in E. cbn [app] in E.
    exists (rev r'), subs'. split; [|split; [|split]].
    - rewrite parse_class_unfold. cbv zeta. rewrite (next_stt src k 91 _ Ha1). cbn [bind].
      rewrite Hneg. cbn [bind]. rewrite H93. cbn [bind].
      change (opt_max o) with (opt_max (mkOpts false (o_bytes o))).
      rewrite E. cbn [class_loop].
      replace (p_ch (stt src (kb + Z.of_nat (length (print_body items))) (93 :: tl))) with 93 by reflexivity.
      rewrite Z.eqb_refl. cbn [bind]. rewrite (next_stt src _ 93 tl Hatl). cbn [bind].
      f_equal. f_equal.
      f_equal. subst kb. unfold print_class. cbn [length]. rewrite !app_length. cbn [length]. lia.
    - intros x. rewrite mem_rev, M. reflexivity.
    - intros p Hp. apply V. apply in_rev. exact Hp.
    - exact F.
  Qed.
End ClassThm.

(* ------------------------------------------------------------------ nested sets one level deep, and the theorem *)
Lemma print_body_CS body : print_body (map CS body) = print_sbody body.
Proof. unfold print_body, print_sbody. rewrite map_map. reflexivity. Qed.
Lemma ranges_of_CS body : ranges_of (map CS body) = map srange body.
Proof. induction body as [|s b IH]; [reflexivity|]. cbn [map]. change (ranges_of (CS s :: map CS b)) with (srange s :: ranges_of (map CS b)). rewrite IH. reflexivity. Qed.
Lemma subs_of_CS body : subs_of (map CS body) = [].
Proof. induction body as [|s b IH]; [reflexivity|]. cbn [map]. change (subs_of (CS s :: map CS b)) with (subs_of (map CS b)). exact IH. Qed.
Lemma wf_item_CS body : forallb wf_item (map CS body) = forallb wf_sitem body.
Proof. induction body as [|s b IH]; [reflexivity|]. cbn [map forallb wf_item]. rewrite IH. reflexivity. Qed.
Lemma sub_placed_CS body : forall b, sub_placed b (map CS body) = true.
Proof. induction body as [|s t IH]; intros b; [reflexivity|]. cbn [map sub_placed]. apply IH. Qed.
Lemma is_sub_CS body : existsb is_sub (map CS body) = false.
Proof. induction body as [|s b IH]; [reflexivity|]. cbn [map existsb is_sub orb]. exact IH. Qed.

Section Final.
  Variable sf : Z -> Z.
  Variable named : list Z -> option (Z * table * table).

  Lemma level1 f bytes src : rec_ok sf (parse_class sf named f) f bytes src.
  Proof.
    intros neg body k rest Hw Hsz Ha Hlen. destruct f as [|f0]; [lia|].
    assert (Et : print_class neg (map CS body) ++ rest = 91 :: print_neg neg ++ print_sbody body ++ 93 :: rest).
    { unfold print_class. rewrite print_body_CS. cbn [app]. rewrite <- !app_assoc. reflexivity. }
    assert (El : length (print_class neg (map CS body)) = length (91 :: print_neg neg ++ print_sbody body ++ [93])).
    { unfold print_class. rewrite print_body_CS. reflexivity. }
    apply andb_true_iff in Hw. destruct Hw as [Hne Hwb].
    destruct (class_wrapper sf named f0 (mkOpts false bytes) src neg (map CS body) k
                (k + Z.of_nat (length (print_class neg (map CS body)))) rest) as (coll & subs & E & M & V & F).
    - unfold wf_items. rewrite map_length, Hne, wf_item_CS, Hwb, sub_placed_CS. reflexivity.
    - rewrite is_sub_CS. discriminate.
    - intros neg0 body0 Hin. apply in_map_iff in Hin. destruct Hin as (x & Hx & _). discriminate.
    - rewrite map_length. lia.
    - rewrite Et. exact Ha.
    - rewrite Et. exact Hlen.
    - reflexivity.
    - rewrite subs_of_CS in F. inversion F; subst subs. rewrite Et, El in E. cbn [o_fold o_bytes] in E.
      eexists. split; [exact E|]. exists coll. cbn [fst snd]. split; [reflexivity|]. split; [|exact V].
      intros x. rewrite M, ranges_of_CS. reflexivity.
  Qed.

  (* class_spec from the concrete syntax *)
  Theorem parse_class_of_print fuel' o src neg items k tl :
    wf_items items = true -> (length items < fuel')%nat ->
    (forall neg body, In (CSub neg body) items -> (S (length body) < fuel')%nat) ->
    ascii (print_class neg items ++ tl) ->
    Z.of_nat (length src) = k + Z.of_nat (length (print_class neg items ++ tl)) ->
    exists coll subs,
      parse_class sf named (S fuel') (stt src k (print_class neg items ++ tl)) o =
        Ok (stt src (k + Z.of_nat (length (print_class neg items))) tl, class_den sf (o_fold o) neg (o_bytes o) coll subs) /\
      (forall x, mem x coll = mem x (ranges_of items)) /\ (forall p, In p coll -> valid p) /\
      Forall2 (sub_rel sf (o_bytes o)) subs (subs_of items).
  Proof.
    intros Hwf Hf Hsz Ha Hlen.
    apply (class_wrapper sf named fuel' o src neg items k _ tl Hwf (fun _ => level1 fuel' (o_bytes o) src) Hsz Hf Ha Hlen eq_refl).
  Qed.
End Final.

Section Reject.
  Variable sf : Z -> Z.
  Variable named : list Z -> option (Z * table * table).

  (* a descending range is rejected, with the offsets of the range *)
  Theorem parse_class_rejects_descending fuel' o src lo hi k tl :
    plainb lo = true -> plainb hi = true -> hi < lo -> ascii tl ->
    Z.of_nat (length src) = k + Z.of_nat (length (91 :: lo :: 45 :: hi :: tl)) ->
    parse_class sf named (S (S fuel')) (stt src k (91 :: lo :: 45 :: hi :: tl)) o = Err E_class_range (k + 1) (k + 1 + 1 + 1 + 1).
  Proof.
    intros Hlo Hhi Hlt Ha Hlen. destruct (plainb_facts lo Hlo) as (H0 & H1 & H2 & H3 & H4 & H5).
    destruct (plainb_facts hi Hhi) as (G0 & _).
    assert (A1 : ascii (lo :: 45 :: hi :: tl)) by (repeat (constructor; [lia|]); exact Ha).
    rewrite parse_class_unfold. cbv zeta. rewrite (next_stt src k 91 _ A1). cbn [bind].
    cbn [stt p_ch]. rewrite (proj2 (Z.eqb_neq lo 94)) by lia. cbn [bind]. cbn [p_ch].
    rewrite (proj2 (Z.eqb_neq lo 93)) by lia. cbn [bind].
    change (mkP src (k + 1) (k + 1 + 1) lo (45 :: hi :: tl)) with (stt src (k + 1) (lo :: 45 :: hi :: tl)).
    change (opt_max o) with (opt_max (mkOpts false (o_bytes o))).
    rewrite (step_range sf named _ _ (o_bytes o) _ fuel' lo hi tl [] [] src (k + 1) Hlo Hhi Ha).
    - rewrite (proj2 (Z.ltb_lt hi lo) Hlt). reflexivity.
    - cbn [length] in *. lia.
  Qed.

  Lemma init_stt src : src <> [] -> ascii src -> init src = Ok (stt src 0 src).
  Proof.
    intros Hne Ha. destruct src as [|b t]; [congruence|]. inversion Ha as [|? ? Hb _]; subst.
    unfold init, next. cbn [p_rest]. rewrite (proj2 (Z.ltb_lt b 128)) by lia. reflexivity.
  Qed.
End Reject.
