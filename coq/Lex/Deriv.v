(* C09 specification side: regular expressions over input symbols (code points / bytes, and the end-of-input
   marker as symbol -1), Brzozowski derivatives, and spec_scan: longest non-empty match with rule priority,
   else the invalid token spanning the longest viable prefix.  Executable definitions only. *)
From Coq Require Import List ZArith Bool.
From TM Require Import Lex.Tables Lex.Charset Lex.RegexParse Lex.RegexSpec.
Import ListNotations.
Local Open Scope Z_scope.

Inductive rx : Type :=
| Void | Eps
| Sym (cs : charset)
| Cat (a b : rx)
| Alt (a b : rx)
| Rep (mn mx : Z) (r : rx).      (* mx = -1: unbounded *)

Definition eoi_sym : Z := -1.

Fixpoint nullable (r : rx) : bool :=
  match r with
  | Void => false | Eps => true | Sym _ => false
  | Cat a b => nullable a && nullable b
  | Alt a b => nullable a || nullable b
  | Rep mn mx r => (mn <=? 0) || (mx =? 0) || nullable r
  end.

(* the language is not empty *)
Fixpoint nonvoid (r : rx) : bool :=
  match r with
  | Void => false | Eps => true
  | Sym cs => existsb (fun p => fst p <=? snd p) cs
  | Cat a b => nonvoid a && nonvoid b
  | Alt a b => nonvoid a || nonvoid b
  | Rep mn mx r => (mn <=? 0) || (mx =? 0) || nonvoid r
  end.

Definition cat (a b : rx) : rx :=
  match a, b with
  | Void, _ | _, Void => Void
  | Eps, _ => b
  | _, Eps => a
  | _, _ => Cat a b
  end.

Definition alt (a b : rx) : rx :=
  match a, b with
  | Void, _ => b
  | _, Void => a
  | _, _ => Alt a b
  end.

Fixpoint deriv (c : Z) (r : rx) : rx :=
  match r with
  | Void | Eps => Void
  | Sym cs => if mem c cs then Eps else Void
  | Cat a b => alt (cat (deriv c a) b) (if nullable a then deriv c b else Void)
  | Alt a b => alt (deriv c a) (deriv c b)
  | Rep mn mx s =>
      if mx =? 0 then Void
      else cat (deriv c s) (Rep (Z.max 0 (mn - 1)) (if mx <? 0 then -1 else mx - 1) s)
  end.

(* the parsed regular expression as a symbol-level expression; {eoi} is the end marker, other references void *)
Fixpoint rx_of (r : re) : rx :=
  match r with
  | RLit b text _ =>
      fold_right (fun c acc => cat (Sym [(c, c)]) acc) Eps (if b then text else runes_of (length text) text)
  | RCC cs _ => Sym cs
  | RRep mn mx s => Rep mn mx (rx_of s)
  | RCat l => (fix go (l : list re) : rx := match l with [] => Eps | s :: t => cat (rx_of s) (go t) end) l
  | RAlt l => (fix go (l : list re) : rx := match l with [] => Void | s :: t => alt (rx_of s) (go t) end) l
  | RExt name _ => if list_eq_dec Z.eq_dec name [101; 111; 105] then Sym [(eoi_sym, eoi_sym)] else Void
  end.

(* a rule: expression, action (> 0), precedence *)
Definition srule := (rx * Z * Z)%type.

(* the action of the highest-precedence rule whose expression accepts the empty rest *)
Fixpoint best_accept (rules : list srule) (best : option (Z * Z)) : option (Z * Z) :=
  match rules with
  | [] => best
  | (r, a, p) :: t =>
      let best' := if nullable r then
                     match best with
                     | None => Some (a, p)
                     | Some (_, bp) => if bp <? p then Some (a, p) else best
                     end
                   else best in
      best_accept t best'
  end.

Definition accept_here (rules : list srule) (pos : Z) (last : option (Z * Z)) : option (Z * Z) :=
  match best_accept rules None with
  | Some (a, _) => Some (pos, a)
  | None => last
  end.

Definition step_rules (c : Z) (rules : list srule) : list srule :=
  map (fun '(r, a, p) => (deriv c r, a, p)) rules.

Definition viable (rules : list srule) : bool := existsb (fun '(r, _, _) => nonvoid r) rules.

Definition sverdict (last : option (Z * Z)) (pos : Z) : Z * Z :=
  match last with Some (p, a) => (p, a) | None => (pos, 0) end.

(* at the end of the text the end marker is offered repeatedly (k times: rules use at most k markers) *)
Fixpoint spec_eoi (k : nat) (rules : list srule) (len : Z) (last : option (Z * Z)) : Z * Z :=
  let last' := accept_here rules len last in
  match k with
  | O => sverdict last' len
  | S k' =>
      let rules' := step_rules eoi_sym rules in
      if viable rules' then spec_eoi k' rules' len last' else sverdict last' len
  end.

Definition decode_b (bytes : bool) (s : list Z) : Z * nat :=
  if bytes then (match s with b :: _ => (b, 1%nat) | [] => (0, 0%nat) end) else decode_rune s.

Fixpoint spec_text (fuel : nat) (bytes : bool) (rules : list srule) (pos : Z) (last : option (Z * Z)) (text : list Z) : Z * Z :=
  match fuel with
  | O => (-1, -1)
  | S f =>
    match text with
    | [] => spec_eoi 4 rules pos last
    | _ =>
        let last' := accept_here rules pos last in
        let '(c, w) := decode_b bytes text in
        let rules' := step_rules c rules in
        if viable rules' then spec_text f bytes rules' (pos + Z.of_nat w) last' (skipn w text)
        else sverdict last' pos
    end
  end.

Definition spec_scan (bytes : bool) (rules : list srule) (text : list Z) : Z * Z :=
  spec_text (S (length text)) bytes rules 0 None text.
