(* Model of shiftdfa.Pack and Scanner.Scan (shiftdfa/shiftdfa.go). Rows are 64-bit values in N. *)
From Coq Require Import List ZArith NArith Bool.
From TM Require Import Lex.Tables.
Import ListNotations.
Local Open Scope Z_scope.

Record scanner := mkScanner { sc_table : list N (* 256 rows *); sc_on_eoi : list N (* 11 *) }.

Inductive pack_result := PackOk (s : scanner) | PackErr (why : Z).
(* why: 1 too many states, 2 backtracking, 3 start states, 4 not ASCII, 5 too many actions, 6 EOI transition *)

Definition two64 : N := 18446744073709551616%N.

(* the symbol of an ASCII byte as the Pack loop computes it (same as lookup_sym on a sorted map) *)
Definition byte_sym (t : tables) (b : Z) : Z :=
  if b <? 128 then lookup_sym (symbol_map t) b
  else snd (last (symbol_map t) (0, -1000000)).

(* encoded 6-bit field of a DFA cell: state*6 (even) or action*2+1 (odd); None = too many actions *)
Definition enc_target (target : Z) : option Z :=
  if target <? 0 then
    let action := -1 - target in
    if action >=? 32 then None else Some (action * 2 + 1)
  else Some (target * 6).

Definition zseq (n : Z) : list Z := map Z.of_nat (seq 0 (Z.to_nat n)).

Definition shl64 (x : N) (k : N) : N := (N.shiftl x k mod two64)%N.

Definition cell (t : tables) (st : nat) (sym : Z) : Z := nthZ (dfa t) (Z.of_nat st * num_symbols t + sym).

Definition enc_cell (t : tables) (st : nat) (sym : Z) : N :=
  match enc_target (cell t st sym) with Some e => Z.to_N e | None => 0%N end.

(* table[b]: the OR over all states of the encoded cell shifted to the state's 6-bit field *)
Definition pack_row (t : tables) (states : nat) (b : Z) : N :=
  let sym := byte_sym t b in
  fold_left (fun row st => N.lor row (shl64 (enc_cell t st sym) (6 * N.of_nat st))) (seq 0 states) 0%N.

Definition num_states (t : tables) : Z := Z.of_nat (length (dfa t)) / num_symbols t.

Definition pack (t : tables) : pack_result :=
  let ns := num_symbols t in
  let states := num_states t in
  if states >? 10 then PackErr 1
  else if negb (Nat.eqb (length (backtrack t)) 0) then PackErr 2
  else if negb (match state_map t with [0] => true | _ => false end) then PackErr 3
  else if fst (last (symbol_map t) (0, 0)) >? 128 then PackErr 4
  else
    (* errors are raised in loop order: for state, for sym: "too many actions" (5), then for sym 0
       "invalid transition on end of input" (6) *)
    let first_err := fold_left (fun (err : Z) idx =>
        if negb (err =? 0) then err else
        match enc_target (nthZ (dfa t) idx) with
        | None => 5
        | Some e => if (idx mod ns =? 0) && Z.even e then 6 else 0
        end) (zseq (states * ns)) 0 in
    if negb (first_err =? 0) then PackErr first_err
    else PackOk (mkScanner (map (pack_row t (Z.to_nat states)) (zseq 256))
                           (map (fun st => if (Z.of_nat st <? states) then N.div (enc_cell t st 0) 2 else 0%N)
                                (seq 0 11))).

(* Scanner.Scan: returns (size, token) *)
Fixpoint shift_loop (s : scanner) (state : N) (i : Z) (input : list Z) : Z * N :=
  match input with
  | [] => if N.eqb (N.land state 1) 0 then (i, nth (N.to_nat (N.land state 63 / 6)) (sc_on_eoi s) 0%N)
          else (i - 1, (N.land state 63 / 2)%N)
  | b :: rest =>
      if N.eqb (N.land state 1) 0 then
        let row := nth (Z.to_nat b) (sc_table s) 0%N in
        shift_loop s (N.shiftr row (N.land state 63)) (i + 1) rest
      else (i - 1, (N.land state 63 / 2)%N)
  end.

Definition shift_scan (s : scanner) (input : list Z) : Z * N := shift_loop s 0%N 0 input.

(* well-formedness of lexer tables assumed by the agreement theorem (checked on real tables each run) *)
Definition wf24b (t : tables) : bool :=
  scan_bytes t && (0 <? num_symbols t)
  && (Z.of_nat (length (dfa t)) =? num_states t * num_symbols t)
  && forallb (fun c => c <? num_states t) (dfa t)
  && forallb (fun e => (0 <=? snd e) && (snd e <? num_symbols t)
                       && (fst e <=? fst (last (symbol_map t) (0, 0)))) (symbol_map t)
  && negb (Nat.eqb (length (symbol_map t)) 0)
  && (0 <? num_states t).

