(* C09: Tables.Scan (with checkpoints) = "run the automaton and remember the last accepting position",
   for every table set accepted by the validator and every text. *)
From Coq Require Import List ZArith Bool Lia.
From TM Require Import Lex.Tables Lex.Scan Lex.RegexParse_proofs.
Import ListNotations.
Local Open Scope Z_scope.

Lemma zrange_in n x : In x (zrange n) <-> 0 <= x < n.
Proof.
  unfold zrange. rewrite in_map_iff. split.
  - intros (k & Hk & Hin). apply in_seq in Hin. lia.
  - intros H. exists (Z.to_nat x). split; [lia|]. apply in_seq. lia.
Qed.

Lemma lookup_sym_in m r : m <> [] -> exists e, In e m /\ lookup_sym m r = snd e.
Proof.
  induction m as [|[s0 t0] rest IH]; [congruence|]. intros _. cbn [lookup_sym].
  destruct rest as [|[s1 t1] rest'].
  - exists (s0, t0). split; [left; reflexivity|reflexivity].
  - destruct (s1 >? r).
    + exists (s0, t0). split; [left; reflexivity|reflexivity].
    + destruct IH as (e & He & Hl); [congruence|]. exists e. split; [right; assumption|assumption].
Qed.

Lemma decode_width t text : text <> [] -> (1 <= snd (decode t text))%nat.
Proof.
  intros H. unfold decode. destruct (scan_bytes t).
  - destruct text; [congruence|]. cbn. lia.
  - apply decode_rune_width. assumption.
Qed.

Section WithTables.
  Variable t : tables.
  Hypothesis Hchk : check_tables t = true.

  Lemma chk_parts :
    0 < num_symbols t /\ 0 < nstates t /\
    (forall s y, 0 <= s < nstates t -> 0 <= y < num_symbols t -> cell_ok t s y = true) /\
    (forall s, In s (state_map t) -> 0 <= s < nstates t /\ label t s = 0) /\
    (forall r, 0 <= lookup_sym (symbol_map t) r < num_symbols t).
  Proof.
    pose proof Hchk as H0. unfold check_tables in H0.
    apply andb_true_iff in H0. destruct H0 as [H0 A6].
    apply andb_true_iff in H0. destruct H0 as [H0 A5].
    apply andb_true_iff in H0. destruct H0 as [H0 A4].
    apply andb_true_iff in H0. destruct H0 as [H0 A3].
    apply andb_true_iff in H0. destruct H0 as [A1 A2].
    apply Z.ltb_lt in A1, A2. rewrite forallb_forall in A3, A4, A5.
    split; [assumption|]. split; [assumption|]. split; [|split].
    - intros s y Hs Hy. specialize (A3 s (proj2 (zrange_in _ _) Hs)). cbv beta in A3.
      rewrite forallb_forall in A3. exact (A3 y (proj2 (zrange_in _ _) Hy)).
    - intros s Hs. specialize (A4 s Hs). cbv beta in A4.
      apply andb_true_iff in A4. destruct A4 as [A4 H3]. apply andb_true_iff in A4. destruct A4 as [H1 H2].
      apply Z.leb_le in H1. apply Z.ltb_lt in H2. apply Z.eqb_eq in H3. lia.
    - intros r.
      assert (Hne : symbol_map t <> []) by (intro E; rewrite E in A6; discriminate A6).
      destruct (lookup_sym_in (symbol_map t) r Hne) as (e & He & Hl). rewrite Hl.
      specialize (A5 e He). cbv beta in A5. apply andb_true_iff in A5. destruct A5 as [H1 H2].
      apply Z.leb_le in H1. apply Z.ltb_lt in H2. lia.
  Qed.

  Definition Inv (s pos size action : Z) (last : option (Z * Z)) : Prop :=
    (label t s = 0 -> (last = None /\ size = 0) \/ (last = Some (size, action) /\ size > 0)) /\
    (label t s <> 0 -> pos > 0).

  (* one step of either loop, on symbol y, at position pos, the next position being pos' *)
  Lemma step_agree s y pos pos' size action last :
    0 <= s < nstates t -> 0 <= y < num_symbols t -> Inv s pos size action last -> pos' > 0 ->
    let c := cell t s y in
    let last' := upd t s pos last in
    match move t s y with
    | Some s' =>
        0 <= s' < nstates t /\
        ((c <? 0) = false /\ s' = c /\ Inv s' pos' size action last' \/
         (c <? 0) = true /\ (c >? action_start t) = true /\ s' = snd (bt_entry t c) /\
           Inv s' pos' pos (fst (bt_entry t c)) last')
    | None =>
        (c <? 0) = true /\ (c >? action_start t) = false /\
        (if (action_start t =? c) && (size >? 0) then (size, action) else (pos, action_start t - c)) = verdict last' pos
    end.
  Proof.
    intros Hs Hy (I1 & I2) Hp'. destruct chk_parts as (_ & _ & Hcell & _ & _).
    specialize (Hcell s y Hs Hy). unfold cell_ok in Hcell. unfold move, upd. cbn zeta.
    set (c := cell t s y) in *. set (a := label t s) in *.
    destruct (0 <=? c) eqn:E0.
    - apply Z.leb_le in E0. apply andb_true_iff in Hcell. destruct Hcell as [C1 C2]. apply Z.ltb_lt in C1.
      split; [lia|]. left. split; [apply Z.ltb_ge; lia|]. split; [reflexivity|].
      apply orb_true_iff in C2. unfold Inv. split.
      + intros Hl. destruct C2 as [C2|C2].
        * apply Z.eqb_eq in C2. rewrite C2. cbn. apply I1. assumption.
        * rewrite Hl in C2. discriminate C2.
      + intros _. lia.
    - apply Z.leb_gt in E0. destruct (c >? action_start t) eqn:E1.
      + destruct (bt_entry t c) as [ba ns] eqn:Eb. cbn [fst snd].
        repeat (apply andb_true_iff in Hcell; destruct Hcell as [Hcell ?]).
        apply Z.eqb_eq in Hcell. subst ba.
        match goal with H : negb (a =? 0) = true |- _ => apply negb_true_iff in H; apply Z.eqb_neq in H; rename H into Ha end.
        match goal with H : (label t ns =? 0) = true |- _ => apply Z.eqb_eq in H; rename H into Hns end.
        match goal with H : (0 <=? ns) = true |- _ => apply Z.leb_le in H end.
        match goal with H : (ns <? nstates t) = true |- _ => apply Z.ltb_lt in H end.
        split; [lia|]. right. split; [apply Z.ltb_lt; lia|]. split; [reflexivity|]. split; [reflexivity|].
        unfold Inv. split; [|intros Hc; congruence].
        intros _. right. destruct (a =? 0) eqn:Ea; [apply Z.eqb_eq in Ea; congruence|].
        split; [reflexivity|]. apply I2. assumption.
      + split; [apply Z.ltb_lt; lia|]. split; [reflexivity|].
        apply andb_true_iff in Hcell. destruct Hcell as [C1 C2]. apply Z.eqb_eq in C1. apply Z.leb_le in C2.
        destruct (a =? 0) eqn:Ea.
        * apply Z.eqb_eq in Ea. assert (Hc : action_start t = c) by lia. rewrite Hc, Z.eqb_refl. cbn [andb].
          destruct (I1 Ea) as [(L & Sz)|(L & Sz)]; rewrite L; cbn [verdict].
          -- subst size. cbn. f_equal. lia.
          -- destruct (size >? 0) eqn:Es; [reflexivity|]. rewrite Z.gtb_ltb in Es. apply Z.ltb_ge in Es. lia.
        * apply Z.eqb_neq in Ea. destruct (action_start t =? c) eqn:Ec; [apply Z.eqb_eq in Ec; lia|].
          cbn [andb verdict]. f_equal. lia.
  Qed.

  Lemma eoi_agree fuel : forall s len size action last,
    0 <= s < nstates t -> len > 0 -> Inv s len size action last ->
    scan_eoi fuel t s len size action = ref_eoi fuel t s len last.
  Proof.
    induction fuel as [|f IH]; intros s len size action last Hs Hlen HI; [reflexivity|].
    destruct chk_parts as (Hns & _ & _ & _ & _).
    pose proof (step_agree s 0 len len size action last Hs ltac:(lia) HI Hlen) as St.
    cbn [scan_eoi ref_eoi]. cbn zeta in St.
    destruct (move t s 0) as [s'|].
    - destruct St as (Hs' & [(E1 & E2 & HI')|(E1 & E2 & E3 & HI')]).
      + rewrite E1. subst s'. apply IH; assumption.
      + rewrite E1, E2. destruct (bt_entry t (cell t s 0)) as [ba ns]. cbn [fst snd] in *. subst s'. apply IH; assumption.
    - destruct St as (E1 & E2 & E3). rewrite E1, E2. exact E3.
  Qed.

  Lemma text_agree fuel : forall text s pos size action last,
    0 <= s < nstates t -> 0 <= pos -> (text = [] -> pos > 0) -> Inv s pos size action last ->
    scan_text t fuel s pos size action text = ref_text t fuel s pos last text.
  Proof.
    induction fuel as [|f IH]; intros text s pos size action last Hs Hpos Hne HI; [reflexivity|].
    destruct chk_parts as (_ & _ & _ & _ & Hsym).
    cbn [scan_text ref_text]. destruct text as [|b rest].
    - apply eoi_agree; auto.
    - set (text := b :: rest) in *.
      pose proof (decode_width t text ltac:(subst text; congruence)) as W.
      destruct (decode t text) as [r w]. cbn [snd] in W.
      pose proof (step_agree s (lookup_sym (symbol_map t) r) pos (pos + Z.of_nat w) size action last Hs (Hsym r) HI ltac:(lia)) as St.
      cbn zeta in St.
      destruct (move t s (lookup_sym (symbol_map t) r)) as [s'|].
      + destruct St as (Hs' & [(E1 & E2 & HI')|(E1 & E2 & E3 & HI')]).
        * rewrite E1. subst s'. apply IH; try assumption; lia.
        * rewrite E1, E2. destruct (bt_entry t (cell t s (lookup_sym (symbol_map t) r))) as [ba ns]. cbn [fst snd] in *.
          subst s'. apply IH; try assumption; lia.
      + destruct St as (E1 & E2 & E3). rewrite E1, E2. exact E3.
  Qed.

  Theorem scan_is_longest : forall sc text, In (nthZ (state_map t) sc) (state_map t) -> text <> [] ->
    scanF t sc text = longest_accept t sc text.
  Proof.
    intros sc text Hsc Hne. unfold scanF, longest_accept.
    destruct chk_parts as (_ & _ & _ & Hst & _). destruct (Hst _ Hsc) as (Hs & Hl).
    apply text_agree; try assumption; try lia.
    - intros E; congruence.
    - unfold Inv. split; [intros _; left; split; reflexivity|intros H; congruence].
  Qed.
End WithTables.
