(* C11 rune_class_lookup, second half: the CompressedMap builder (consume / emit with the strike and count rules and the
   trimming of trailing defaults) stores the class of every rune it covers and leaves uncovered only runes of the default
   class; hence mapRune over the emitted ranges is the plain symbol-map lookup for every ch >= 256. *)
From Coq Require Import List ZArith Bool Lia.
From TM Require Import Lex.Tables Lex.LexerMaps Lex.LexerMaps_proofs.
Import ListNotations.
Local Open Scope Z_scope.

(* ---------- trimming of trailing defaults ---------- *)
Definition drop_d (d : Z) : list Z -> list Z :=
  fix drop (l : list Z) : list Z := match l with x :: t => if x =? d then drop t else l | [] => [] end.

Lemma trim_trailing_eq d vals : trim_trailing d vals = rev (drop_d d (rev vals)).
Proof. unfold trim_trailing, drop_d. rewrite !rev_append_rev, !app_nil_r. reflexivity. Qed.

Lemma drop_d_spec d l : exists k, l = repeat d k ++ drop_d d l.
Proof.
  induction l as [|x t IH]; [exists 0%nat; reflexivity|]. cbn [drop_d]. destruct (Z.eqb_spec x d) as [->|N].
  - destruct IH as (k & E). exists (S k). cbn [repeat app]. f_equal. exact E.
  - exists 0%nat. reflexivity.
Qed.

Lemma rev_repeat {A} (x : A) k : rev (repeat x k) = repeat x k.
Proof. induction k as [|k IH]; [reflexivity|]. cbn [repeat rev]. rewrite IH. symmetry. apply repeat_cons. Qed.

Lemma trim_spec d vals i : (i < length vals)%nat ->
  (if Z.of_nat i <? Z.of_nat (length (trim_trailing d vals)) then nth i (trim_trailing d vals) 0 else d) = nth i vals 0.
Proof.
  intros Hi. rewrite trim_trailing_eq. destruct (drop_d_spec d (rev vals)) as (k & E).
  assert (Ev : vals = rev (drop_d d (rev vals)) ++ repeat d k).
  { rewrite <- (rev_involutive vals) at 1. rewrite E at 1. rewrite rev_app_distr, rev_repeat. reflexivity. }
  set (t := rev (drop_d d (rev vals))) in *. clearbody t. rewrite Ev. rewrite Ev, app_length, repeat_length in Hi.
  destruct (Z.ltb_spec (Z.of_nat i) (Z.of_nat (length t))) as [Hlt|Hge].
  - rewrite app_nth1 by lia. reflexivity.
  - rewrite app_nth2 by lia. symmetry. apply nth_repeat'. lia.
Qed.

(* ---------- seek ---------- *)
Lemma lookup_val' rest : forall s0 t0 r, sorted_from s0 rest -> lookup_sym ((s0, t0) :: rest) r = val t0 rest r.
Proof.
  induction rest as [|[s1 t1] rest IH]; intros s0 t0 r Hs; [reflexivity|].
  cbn [lookup_sym val]. cbn in Hs. destruct Hs as [H1 H2].
  rewrite Z.gtb_ltb. destruct (Z.ltb_spec r s1) as [|Hge]; [reflexivity|]. exact (IH s1 t1 r H2).
Qed.

Fixpoint final_target (target : Z) (rest : list (Z * Z)) : Z :=
  match rest with [] => target | (_, tg) :: r => final_target tg r end.
Fixpoint final_index (index : Z) (rest : list (Z * Z)) : Z :=
  match rest with [] => index | (st, _) :: r => final_index st r end.

Lemma last_final rest : forall s0 tg d, last ((s0, tg) :: rest) d = (final_index s0 rest, final_target tg rest).
Proof.
  induction rest as [|[s1 t1] rest IH]; intros s0 tg d; [reflexivity|].
  change (last ((s0, tg) :: (s1, t1) :: rest) d) with (last ((s1, t1) :: rest) d). rewrite IH. reflexivity.
Qed.

Lemma seek_spec m start : forall p, sorted_from p m -> m <> [] ->
  exists s0 tg rest, seek m start = (s0, tg) :: rest /\ sorted_from start rest /\ sorted_from s0 rest /\
    (forall r, start <= r -> lookup_sym m r = lookup_sym ((s0, tg) :: rest) r) /\
    last m (0, 0) = last ((s0, tg) :: rest) (0, 0).
Proof.
  induction m as [|[s0 t0] m' IH]; intros p Hs Hne; [congruence|].
  cbn [seek]. destruct m' as [|[s1 t1] m''].
  - exists s0, t0, []. repeat split; auto.
  - rewrite Z.gtb_ltb. destruct (Z.ltb_spec start s1) as [Hlt|Hge].
    + exists s0, t0, ((s1, t1) :: m''). cbn in Hs. destruct Hs as (H1 & H2 & H3).
      split; [reflexivity|]. split; [cbn; split; assumption|]. split; [cbn; split; assumption|]. split; [reflexivity|reflexivity].
    + cbn in Hs. destruct Hs as (H1 & H2 & H3).
      destruct (IH s0 (conj H2 H3) ltac:(congruence)) as (s & tg & rest & E & S1 & S2 & L & La).
      exists s, tg, rest. split; [exact E|]. split; [exact S1|]. split; [exact S2|]. split.
      * intros r Hr. rewrite <- (L r Hr). cbn [lookup_sym]. rewrite Z.gtb_ltb. destruct (Z.ltb_spec r s1); [lia|reflexivity].
      * rewrite <- La. reflexivity.
Qed.

(* ---------- the builder ---------- *)
Section Builder.
  Variable v : Z -> Z.          (* the class of every rune >= start *)
  Variable start dv : Z.

  Definition covers (e : centry) (r : Z) : Prop := ce_lo e <= r < ce_hi e.
  Definition good_entry (e : centry) : Prop := ce_lo e <= ce_hi e /\ forall r, covers e r -> ce_val e r = v r.

  (* ret is kept reversed: the head is the last range *)
  Fixpoint sorted_rev (ret : list centry) (bound : Z) : Prop :=
    match ret with
    | [] => True
    | e :: t => ce_hi e <= bound /\ sorted_rev t (ce_lo e)
    end.

  Definition curr_ok (curr : option (Z * Z * list Z)) (index : Z) : Prop :=
    match curr with
    | None => True
    | Some (clo, chi, vals) =>
        chi = index /\ clo <= chi /\ Z.of_nat (length vals) = chi - clo /\
        forall i, 0 <= i < chi - clo -> nth (Z.to_nat i) vals 0 = v (clo + i)
    end.
  Definition curr_covers (curr : option (Z * Z * list Z)) (r : Z) : Prop :=
    match curr with None => False | Some (clo, chi, _) => clo <= r < chi end.
  Definition bound_of (curr : option (Z * Z * list Z)) (index : Z) : Z :=
    match curr with None => index | Some (clo, _, _) => clo end.

  Definition inv (s : cstate) (index : Z) : Prop :=
    sorted_rev (snd s) (bound_of (fst s) index) /\ Forall good_entry (snd s) /\ curr_ok (fst s) index /\
    forall r, start <= r < index -> (forall e, In e (snd s) -> ~ covers e r) -> ~ curr_covers (fst s) r -> v r = dv.

  Lemma sorted_rev_mono ret : forall b b', sorted_rev ret b -> b <= b' -> sorted_rev ret b'.
  Proof. destruct ret as [|e t]; intros b b' H Hb; [exact I|]. cbn in *. destruct H. split; [lia|assumption]. Qed.

  Lemma emit_inv s index : inv s index -> inv (emit s) index /\ fst (emit s) = None.
  Proof.
    destruct s as [[((clo, chi), vals)|] ret]; unfold emit; cbn [fst snd]; [|intros H; split; [exact H|reflexivity]].
    intros (Hs & Hg & (Hchi & Hle & Hlen & Hv) & Hu). cbn [bound_of] in Hs. split; [|reflexivity].
    unfold inv. cbn [fst snd bound_of]. split; [|split; [|split; [exact I|]]].
    - cbn [sorted_rev ce_hi ce_lo]. split; [lia|exact Hs].
    - constructor; [|exact Hg]. split; [cbn; exact Hle|]. intros r (H1 & H2). cbn [ce_lo ce_hi] in H1, H2.
      unfold ce_val. cbn [ce_lo ce_vals ce_default].
      pose proof (trim_spec (last vals 0) vals (Z.to_nat (r - clo)) ltac:(lia)) as T.
      rewrite Z2Nat.id in T by lia. rewrite T. rewrite Hv by lia. f_equal. lia.
    - intros r Hr Hnc _. apply Hu; [exact Hr|intros e He; apply Hnc; right; exact He|].
      cbn [curr_covers]. intros Hc. apply (Hnc _ (or_introl eq_refl)). unfold covers. cbn [ce_lo ce_hi]. exact Hc.
  Qed.

  Lemma nth_repeat_Z (a : Z) n k : (k < n)%nat -> nth k (repeat a n) 0 = a.
  Proof. apply nth_repeat'. Qed.

  (* one segment [lo, hi) of class target *)
  Lemma consume_inv s lo hi target strike : inv s lo -> start <= lo -> lo <= hi -> (forall r, lo <= r < hi -> v r = target) ->
    inv (consume dv s lo hi target strike) hi.
  Proof.
    intros Hinv Hst Hlh Hseg.
    assert (Hskip : forall s0, inv s0 lo -> fst s0 = None -> target = dv -> inv s0 hi).
    { intros [c0 ret0] (Hs & Hg & _ & Hu) E Ht. cbn [fst] in E. subst c0. unfold inv. cbn [fst snd bound_of curr_ok] in *.
      split; [eapply sorted_rev_mono; [exact Hs|lia]|]. split; [exact Hg|]. split; [exact I|].
      intros r Hr Hnc Hcc. destruct (Z.lt_ge_cases r lo) as [Hlt|Hge]; [apply Hu; [lia|exact Hnc|exact Hcc]|].
      rewrite Hseg by lia. exact Ht. }
    assert (Hfin : forall s', inv s' hi -> inv (if hi - lo >? 8 then emit s' else s') hi).
    { intros s' H'. destruct (hi - lo >? 8); [apply emit_inv; exact H'|exact H']. }
    unfold consume. destruct s as [[((clo, chi), vals)|] ret]; cbn [fst snd].
    - destruct Hinv as (Hs & Hg & (Hchi & Hle & Hlen & Hv) & Hu). cbn [fst snd bound_of] in *. subst chi.
      destruct ((target =? dv) && (strike + (hi - lo) >? 8)) eqn:E.
      + apply andb_true_iff in E. destruct E as [E _]. apply Z.eqb_eq in E.
        destruct (emit_inv (Some (clo, lo, vals), ret) lo) as (He & Hn).
        { unfold inv. cbn [fst snd bound_of curr_ok]. repeat split; assumption. }
        apply Hskip; assumption.
      + apply Hfin. unfold inv. cbn [fst snd bound_of curr_ok]. split; [exact Hs|]. split; [exact Hg|]. split.
        * split; [reflexivity|]. split; [lia|]. split; [rewrite app_length, repeat_length; lia|].
          intros i Hi. destruct (Z.lt_ge_cases i (lo - clo)) as [Hlt|Hge].
          -- rewrite app_nth1 by lia. apply Hv. lia.
          -- rewrite app_nth2 by lia. rewrite nth_repeat_Z by lia. symmetry. apply Hseg. lia.
        * intros r Hr Hnc Hcc. cbn [curr_covers] in Hcc. apply Hu; [lia|exact Hnc|cbn [curr_covers]; lia].
    - destruct (Z.eqb_spec target dv) as [E|N].
      + apply Hskip; [exact Hinv|reflexivity|exact E].
      + destruct Hinv as (Hs & Hg & _ & Hu). cbn [fst snd bound_of] in *.
        apply Hfin. unfold inv. cbn [fst snd bound_of curr_ok]. split; [exact Hs|]. split; [exact Hg|]. split.
        * split; [reflexivity|]. split; [lia|]. split; [rewrite repeat_length; lia|].
          intros i Hi. rewrite nth_repeat_Z by lia. symmetry. apply Hseg. lia.
        * intros r Hr Hnc Hcc. cbn [curr_covers] in Hcc. apply Hu; [lia|exact Hnc|cbn [curr_covers]; tauto].
  Qed.

  Lemma cm_loop_inv rest : forall index target strike s, sorted_from index rest -> start <= index ->
    (forall r, index <= r -> v r = val target rest r) -> inv s index ->
    inv (cm_loop dv rest index target strike s) (final_index index rest) /\
    index <= final_index index rest /\
    forall r, final_index index rest <= r -> v r = final_target target rest.
  Proof.
    induction rest as [|[st tg] rest IH]; intros index target strike s Hs Hst Hv Hinv; cbn [cm_loop final_index final_target].
    - split; [exact Hinv|]. split; [lia|]. intros r Hr. apply Hv. exact Hr.
    - cbn in Hs. destruct Hs as [H1 H2].
      destruct (IH st tg (st - index) (consume dv s index st target strike) H2 ltac:(lia)) as (I1 & I2 & I3).
      + intros r Hr. rewrite Hv by lia. cbn [val]. destruct (Z.ltb_spec r st); [lia|reflexivity].
      + apply consume_inv; [exact Hinv|exact Hst|lia|]. intros r Hr. rewrite Hv by lia. cbn [val].
        destruct (Z.ltb_spec r st); [reflexivity|lia].
      + split; [exact I1|]. split; [lia|exact I3].
  Qed.
End Builder.

(* ---------- from the reversed builder list to sorted ranges ---------- *)
Lemma sortedb_mono ranges : forall lb lb', ranges_sortedb lb ranges = true -> lb' <= lb -> ranges_sortedb lb' ranges = true.
Proof.
  destruct ranges as [|e t]; intros lb lb' H Hl; [reflexivity|]. cbn [ranges_sortedb] in *.
  apply andb_true_iff in H. destruct H as [H H3]. apply andb_true_iff in H. destruct H as [H1 H2]. apply Z.leb_le in H1.
  rewrite H2, H3. replace (lb' <=? ce_lo e) with true by (symmetry; apply Z.leb_le; lia). reflexivity.
Qed.

Lemma rev_sorted v ret : forall b tail, sorted_rev ret b -> Forall (good_entry v) ret -> ranges_sortedb b tail = true ->
  exists lb, ranges_sortedb lb (rev ret ++ tail) = true.
Proof.
  induction ret as [|e t IH]; intros b tail Hs Hg Ht; [exists b; exact Ht|].
  cbn [rev]. rewrite <- app_assoc. cbn [app]. cbn in Hs. destruct Hs as [H1 H2]. inversion Hg as [|? ? (Hle & _) Hg']; subst.
  apply (IH (ce_lo e) (e :: tail) H2 Hg'). cbn [ranges_sortedb].
  rewrite (sortedb_mono tail b (ce_hi e) Ht H1). rewrite andb_true_r. apply andb_true_iff. split; apply Z.leb_le; lia.
Qed.

Lemma covers_dec (l : list centry) r : (exists e, In e l /\ covers e r) \/ (forall e, In e l -> ~ covers e r).
Proof.
  induction l as [|e t IH]; [right; intros e []|].
  destruct IH as [(e' & Hin & Hc)|Hno]; [left; exists e'; split; [right; exact Hin|exact Hc]|].
  unfold covers. destruct (Z_le_dec (ce_lo e) r) as [H1|H1]; [destruct (Z_lt_dec r (ce_hi e)) as [H2|H2]|].
  - left. exists e. split; [left; reflexivity|split; assumption].
  - right. intros e0 [<-|Hin]; [lia|apply Hno; exact Hin].
  - right. intros e0 [<-|Hin]; [lia|apply Hno; exact Hin].
Qed.

Lemma In_rng ranges e : In e ranges -> exists k, 0 <= k < Z.of_nat (length ranges) /\ rng ranges k = e.
Proof.
  intros H. destruct (In_nth ranges e dce H) as (n & Hn & E). exists (Z.of_nat n). split; [lia|].
  unfold rng. rewrite Nat2Z.id. exact E.
Qed.

Lemma rng_In ranges k : 0 <= k < Z.of_nat (length ranges) -> In (rng ranges k) ranges.
Proof. intros H. unfold rng. apply nth_In. lia. Qed.

(* the compressed map, looked up with mapRune, is the symbol-map lookup from `start` on *)
Theorem compressed_map_lookup m start ch : sorted_map m -> 0 <= start <= ch ->
  map_rune (compressed_map m start) (last_target m) ch = lookup_sym m ch.
Proof.
  intros Hsm Hch. destruct m as [|[s00 t00] m0]; [destruct Hsm|]. destruct Hsm as [-> Hsm].
  set (m := (0, t00) :: m0) in *.
  destruct (seek_spec m start (-1)) as (s0 & tg & rest & Es & S1 & S2 & L & La);
    [cbn; split; [lia|exact Hsm]|unfold m; congruence|].
  unfold compressed_map. rewrite Es.
  set (dv := last_target m). set (v := fun r => val tg rest r).
  assert (Hdv : dv = final_target tg rest).
  { unfold dv, last_target. rewrite La, last_final. reflexivity. }
  destruct (cm_loop_inv v start dv rest start tg 0 (None, [])) as (I1 & I2 & I3); try assumption; try lia.
  { intros r _. reflexivity. }
  { unfold inv. cbn [fst snd bound_of curr_ok sorted_rev]. repeat split; auto. intros r Hr. lia. }
  destruct (emit_inv v start dv _ _ I1) as ((Hs & Hg & _ & Hu) & Hn). rewrite Hn in Hs, Hu. cbn [bound_of curr_covers] in Hs, Hu.
  set (ret := snd (emit (cm_loop dv rest start tg 0 (None, [])))) in *.
  assert (Hlook : lookup_sym m ch = v ch).
  { rewrite (L ch ltac:(lia)). unfold v. apply lookup_val'. exact S2. }
  destruct (rev_sorted v ret _ [] Hs Hg eq_refl) as (lb & Hsorted). rewrite app_nil_r in Hsorted.
  destruct (map_rune_spec (rev ret) dv ch (sortedb_sorted _ _ Hsorted)) as (M1 & M2).
  rewrite Hlook. destruct (covers_dec ret ch) as [(e & Hin & Hc)|Hno].
  - apply in_rev in Hin. destruct (In_rng _ _ Hin) as (k & Hk & Ek). rewrite (M1 k Hk); [|unfold holds; rewrite Ek; exact Hc].
    rewrite Ek. apply in_rev in Hin. rewrite Forall_forall in Hg. apply (Hg e Hin). exact Hc.
  - rewrite M2.
    + destruct (Z.lt_ge_cases ch (final_index start rest)) as [Hlt|Hge].
      * symmetry. apply Hu; [lia|exact Hno|tauto].
      * rewrite (I3 ch Hge). exact Hdv.
    + intros k Hk Hh. apply (Hno (rng (rev ret) k)); [apply in_rev; apply rng_In; exact Hk|exact Hh].
Qed.

(* rune_class_lookup: the tables emitted for a symbol map give the plain symbol-map lookup, for every character *)
Theorem rune_class_lookup m ch : sorted_map m -> 0 <= ch -> rune_class (rune_tables_of m) ch = lookup_sym m ch.
Proof.
  intros Hs Hc. destruct (Z_le_gt_dec (last_start m) 2048) as [Hsmall|Hbig]; [apply rune_class_lookup_array; auto|].
  destruct (Z_lt_ge_dec ch 256) as [Hlt|Hge]; [apply rune_class_lookup_array; auto|].
  unfold rune_tables_of, rune_class. rewrite Z.gtb_ltb. destruct (Z.ltb_spec 2048 (last_start m)); [|lia].
  cbn [rt_class rt_use_map rt_last rt_ranges].
  destruct (symbol_arr_spec m 256 Hs ltac:(lia)) as (Ln & _). cbn zeta in Ln.
  assert (E : (negb (256 =? 0) && (256 <? last_start m)) = true) by (apply andb_true_iff; split; [reflexivity|apply Z.ltb_lt; lia]).
  rewrite E in Ln. rewrite Ln. destruct (Z.ltb_spec ch 256); [lia|].
  apply compressed_map_lookup; [exact Hs|lia].
Qed.
