(* Model of lex/regexp.go: ParseRegexp (parser.next, parse, parseClass, parseEscape, parseQuantifier, reduce,
   canAppend, hexval, octval) on the bytes of the pattern, with byte offsets.
   Differences in representation only: the parser's flat stack with opParen markers is a list of frames;
   the first error stops the model (the Go parser records the first error and discards the result).
   Go's unicode tables and unicode.SimpleFold are Section variables supplied as data by the harness.
   Executable definitions only. *)
From Coq Require Import List ZArith Bool.
From TM Require Import Lex.Tables Lex.Charset.
Import ListNotations.
Local Open Scope Z_scope.

Inductive re : Type :=
| RLit (bytes : bool) (text : list Z) (off : Z)
| RCC (cs : charset) (off : Z)
| RRep (mn mx : Z) (sub : re)
| RCat (subs : list re)
| RAlt (subs : list re)
| RExt (name : list Z) (off : Z).

(* error = (message id, Offset, EndOffset) *)
Inductive res (A : Type) : Type :=
| Ok (a : A)
| Err (m o e : Z).
Arguments Ok {A} a.
Arguments Err {A} m o e.

Definition bind {A B} (x : res A) (f : A -> res B) : res B :=
  match x with Ok a => f a | Err m o e => Err m o e end.
Notation "'do' x <- e ; f" := (bind e (fun x => f)) (at level 200, x name, e at level 100, f at level 200).
Notation "'do' ' x <- e ; f" := (bind e (fun x => f)) (at level 200, x strict pattern, e at level 100, f at level 200).

(* message ids *)
Definition E_invalid_rune := 1.
Definition E_perl_flags := 2.
Definition E_unexpected_close := 3.
Definition E_unexpected_quant := 4.
Definition E_external := 5.
Definition E_missing_close := 6.
Definition E_cannot_parse_quant := 7.
Definition E_invalid_quant := 8.
Definition E_missing_bracket := 9.
Definition E_invalid_char := 10.
Definition E_class_range := 11.
Definition E_escape := 12.
Definition E_escape_octal_max := 13.
Definition E_p_range := 14.
Definition E_unknown_class := 15.
Definition E_exceeds_ff := 16.
Definition E_exceeds_maxrune := 17.
Definition E_trailing_backslash := 18.
Definition E_fuel := 99.

Definition max_rune_u : Z := 1114111.   (* unicode.MaxRune *)

Record popts := mkOpts { o_fold : bool; o_bytes : bool }.
Definition opt_max (o : popts) : Z := if o_bytes o then 255 else max_rune_u.

Record pstate := mkP {
  p_src : list Z;       (* the pattern, bytes *)
  p_off : Z;            (* parser.offset *)
  p_scan : Z;           (* parser.scanOffset *)
  p_ch : Z;             (* parser.ch, -1 = end *)
  p_rest : list Z       (* p_src from p_scan on *)
}.

Definition src_len (p : pstate) : Z := Z.of_nat (length (p_src p)).
Definition slice (s : list Z) (a b : Z) : list Z := firstn (Z.to_nat (b - a)) (skipn (Z.to_nat a) s).

(* parser.next *)
Definition next (p : pstate) : res pstate :=
  match p_rest p with
  | [] => Ok (mkP (p_src p) (p_scan p) (p_scan p) (-1) [])
  | b :: t =>
      if b <? 128 then Ok (mkP (p_src p) (p_scan p) (p_scan p + 1) b t)
      else
        let '(r, w) := decode_rune (p_rest p) in
        if (r =? rune_error) && (Nat.eqb w 1) then Err E_invalid_rune (p_scan p) (p_scan p + 1)
        else Ok (mkP (p_src p) (p_scan p) (p_scan p + Z.of_nat w) r (skipn w (p_rest p)))
  end.

Definition set_scan (p : pstate) (so : Z) : pstate :=
  mkP (p_src p) (p_off p) so (p_ch p) (skipn (Z.to_nat so) (p_src p)).

Definition init (src : list Z) : res pstate := next (mkP src 0 0 0 src).

Definition isid (r : Z) : bool :=
  ((97 <=? r) && (r <=? 122)) || (r =? 95) || ((48 <=? r) && (r <=? 57)) || ((65 <=? r) && (r <=? 90)).
Definition is_digit (r : Z) : bool := (48 <=? r) && (r <=? 57).

(* hexval after the repair of F4: only A..F (the pinned code accepted A..Z, see hexval_pinned) *)
Definition hexval (r : Z) : Z :=
  if (97 <=? r) && (r <=? 102) then r - 97 + 10
  else if (65 <=? r) && (r <=? 70) then r - 65 + 10
  else if (48 <=? r) && (r <=? 57) then r - 48
  else -1.

Definition hexval_pinned (r : Z) : Z :=
  if (97 <=? r) && (r <=? 102) then r - 97 + 10
  else if (65 <=? r) && (r <=? 90) then r - 65 + 10
  else if (48 <=? r) && (r <=? 57) then r - 48
  else -1.

Definition octval (r : Z) : Z := if (48 <=? r) && (r <=? 55) then r - 48 else -1.

(* r<<4 + d with saturation just above unicode.MaxRune (repair of F5; the pinned code wrapped at 32 bits) *)
Definition hex_acc (r d : Z) : Z := let v := r * 16 + d in if v >? max_rune_u then max_rune_u + 1 else v.

(* int32 wrap-around of the pinned accumulation, kept for the refutation example *)
Definition wrap32 (v : Z) : Z := let m := v mod 4294967296 in if m >=? 2147483648 then m - 4294967296 else m.
Definition hex_acc_pinned (r d : Z) : Z := wrap32 (r * 16 + d).

(* string(rune): UTF-8 encoding; surrogates and out-of-range values encode U+FFFD *)
Definition encode_rune (r : Z) : list Z :=
  if r <? 0 then [239; 191; 189]
  else if r <? 128 then [r]
  else if r <? 2048 then [192 + r / 64; 128 + r mod 64]
  else if (55296 <=? r) && (r <=? 57343) then [239; 191; 189]
  else if r <? 65536 then [224 + r / 4096; 128 + (r / 64) mod 64; 128 + r mod 64]
  else if r <=? max_rune_u then [240 + r / 262144; 128 + (r / 4096) mod 64; 128 + (r / 64) mod 64; 128 + r mod 64]
  else [239; 191; 189].

(* strconv.Atoi on a digit string: None on int64 overflow *)
Definition atoi (ds : list Z) : option Z :=
  let v := fold_left (fun acc d => acc * 10 + (d - 48)) ds 0 in
  if v >? 9223372036854775807 then None else Some v.

Section Parser.
  Variable sf : Z -> Z.                                       (* unicode.SimpleFold *)
  (* unicode.Categories / Scripts / Properties with FoldCategory / FoldScript: kind 0,1,2, table, fold table *)
  Variable named : list Z -> option (Z * table * table).

  Definition cs_fold (c : charset) (ascii : bool) : charset := fold sf 8 c ascii.

  Definition foldable (r : Z) (o : popts) : bool := negb (r =? sf r) && (negb (o_bytes o) || (r <? 128)).

  (* parser.rune *)
  Definition mk_rune (r : Z) (o : popts) : charset :=
    if o_fold o && (negb (o_bytes o) || (r <? 128)) then cs_fold [(r, r)] (o_bytes o) else [(r, r)].

  (* appendNamedSet + newCharset; None = errUnknownUnicodeClass *)
  Definition named_set (name : list Z) (o : popts) : option charset :=
    if list_eq_dec Z.eq_dec name [65; 110; 121] then Some (new_charset [(0, opt_max o)])            (* Any *)
    else if list_eq_dec Z.eq_dec name [65; 115; 99; 105; 105] then Some (new_charset [(0, 127)])    (* Ascii *)
    else if o_bytes o then None
    else match named name with
         | None => None
         | Some (kind, t, ft) =>
             let r := append_table_rev [] t in
             let r := if (kind =? 0) || (kind =? 1) then (if o_fold o then append_table_rev r ft else r) else r in
             Some (new_charset (rev r))
         end.

  Fixpoint skip_ids (fuel : nat) (p : pstate) : res pstate :=
    match fuel with
    | O => Err E_fuel 0 0
    | S f => if isid (p_ch p) then (do p' <- next p; skip_ids f p') else Ok p
    end.

  Fixpoint skip_digits (fuel : nat) (p : pstate) : res pstate :=
    match fuel with
    | O => Err E_fuel 0 0
    | S f => if is_digit (p_ch p) then (do p' <- next p; skip_digits f p') else Ok p
    end.

  (* fixed number of hex digits *)
  Fixpoint hex_fixed (n : nat) (start : Z) (p : pstate) (r : Z) : res (pstate * Z) :=
    match n with
    | O => Ok (p, r)
    | S n' =>
        let d := hexval (p_ch p) in
        if d =? -1 then Err E_escape start (p_scan p)
        else do p' <- next p; hex_fixed n' start p' (hex_acc r d)
    end.

  (* \x{...}: at least one digit, until '}' *)
  Fixpoint hex_brace (fuel : nat) (start : Z) (p : pstate) (r : Z) : res (pstate * Z) :=
    match fuel with
    | O => Err E_fuel 0 0
    | S f =>
        let d := hexval (p_ch p) in
        if d =? -1 then Err E_escape start (p_scan p)
        else do p' <- next p;
             let r' := hex_acc r d in
             if p_ch p' =? 125 then Ok (p', r') else hex_brace f start p' r'
    end.

  Fixpoint oct_fixed (n : nat) (start : Z) (p : pstate) (r : Z) : res (pstate * Z) :=
    match n with
    | O => Ok (p, r)
    | S n' =>
        let d := octval (p_ch p) in
        if d =? -1 then Err E_escape start (p_scan p)
        else do p' <- next p; oct_fixed n' start p' (r * 8 + d)
    end.

  Definition simple_escape (c : Z) : option Z :=
    if c =? 97 then Some 7 else if c =? 102 then Some 12 else if c =? 110 then Some 10
    else if c =? 114 then Some 13 else if c =? 116 then Some 9 else if c =? 118 then Some 11 else None.

  (* parseEscape: p_ch p = '\\' *)
  Definition parse_escape (fuel : nat) (p0 : pstate) (o : popts) (standalone : bool) : res (pstate * charset) :=
    let start := p_off p0 in
    let mx := opt_max o in
    do p <- next p0;
    let c := p_ch p in
    if (48 <=? c) && (c <=? 55) then
      do '(p', r) <- oct_fixed 3 start p 0;
      if r >? 255 then Err E_escape_octal_max start (p_off p') else Ok (p', mk_rune r o)
    else if (c =? 112) || (c =? 80) then           (* p P *)
      let negated := c =? 80 in
      do p1 <- next p;
      do '(p2, negated, name) <-
        (if p_ch p1 =? 123 then
           do p2 <- next p1;
           do '(p3, negated) <- (if p_ch p2 =? 94 then (do p3 <- next p2; Ok (p3, negb negated)) else Ok (p2, negated));
           let name_start := p_off p3 in
           do p4 <- skip_ids fuel p3;
           if negb (p_ch p4 =? 125) || (name_start =? p_off p4) then Err E_p_range start (p_scan p4)
           else Ok (p4, negated, slice (p_src p4) name_start (p_off p4))
         else Ok (p1, negated, slice (p_src p1) (p_off p1) (p_scan p1)));
      do p3 <- next p2;
      match named_set name o with
      | None => Err E_unknown_class start (p_off p3)
      | Some cs => Ok (p3, if negated then invert cs mx else cs)
      end
    else if c =? 100 then do p' <- next p; Ok (p', [(48, 57)])
    else if c =? 68 then do p' <- next p; Ok (p', [(0, 47); (58, mx)])
    else if c =? 119 then do p' <- next p; Ok (p', [(48, 57); (65, 90); (95, 95); (97, 122)])
    else if c =? 87 then do p' <- next p; Ok (p', [(0, 47); (58, 64); (91, 94); (96, 96); (123, mx)])
    else if (c =? 115) || (c =? 83) then
      do p' <- next p;
      let s := [(9, 9); (10, 10); (11, 11); (12, 12); (13, 13); (32, 32)] in
      Ok (p', if c =? 83 then invert s mx else s)
    else if (c =? 120) || (c =? 117) || (c =? 85) then
      let l := if c =? 117 then 4%nat else if c =? 85 then 8%nat else 2%nat in
      do p1 <- next p;
      do '(p2, r) <-
        (if p_ch p1 =? 123 then
           do p2 <- next p1;
           do '(p3, r) <- hex_brace fuel (p_off p2) p2 0;
           do p4 <- next p3; Ok (p4, r)
         else hex_fixed l start p1 0);
      if ((r >? mx) && negb standalone) || (r >? max_rune_u)
      then Err (if o_bytes o then E_exceeds_ff else E_exceeds_maxrune) start (p_off p2)
      else Ok (p2, mk_rune r o)
    else if c =? -1 then Err E_trailing_backslash start (p_off p)
    else
      match simple_escape c with
      | Some r => do p' <- next p; Ok (p', mk_rune r o)
      | None =>
          if (c >=? 128) || (negb (c =? 95) && isid c) then Err E_escape start (p_scan p)
          else do p' <- next p; Ok (p', mk_rune c o)
      end.

  (* parseClass: p_ch p = '['.  r is kept reversed (last appended range first). *)
  Fixpoint parse_class (fuel : nat) (p0 : pstate) (o : popts) {struct fuel} : res (pstate * charset) :=
    match fuel with
    | O => Err E_fuel 0 0
    | S fuel' =>
      let start := p_off p0 in
      let mx := opt_max o in
      do p <- next p0;
      do '(p, negated) <- (if p_ch p =? 94 then (do p' <- next p; Ok (p', true)) else Ok (p, false));
      do '(p, r) <- (if p_ch p =? 93 then (do p' <- next p; Ok (p', [(93, 93)])) else Ok (p, []));
      let fold := o_fold o in
      let o := mkOpts false (o_bytes o) in
      let fix loop (n : nat) (p : pstate) (r : charset) (subs : list charset) {struct n}
          : res (pstate * charset * list charset) :=
        match n with
        | O => Err E_fuel 0 0
        | S n' =>
          let c := p_ch p in
          if c =? 93 then Ok (p, r, subs)
          else
            let lo_start := p_off p in
            (* after the switch: have a low bound lo, parser positioned after it *)
            let range_part (p : pstate) (lo : Z) (r : charset) :=
              let so := p_scan p in
              if negb (p_ch p =? 45) || (so =? src_len p) || (match p_rest p with b :: _ => b =? 93 | [] => false end)
              then loop n' p (append_range_rev r lo lo) subs
              else
                do p1 <- next p;
                do '(p2, hi) <-
                  (if p_ch p1 =? 92 then
                     do '(p2, cs) <- parse_escape fuel' p1 o false;
                     if negb (one_rune cs) then Err E_class_range lo_start (p_off p2)
                     else Ok (p2, match cs with (x, _) :: _ => x | [] => 0 end)
                   else
                     if p_ch p1 >? mx then Err E_invalid_char (p_off p1) (p_scan p1)
                     else do p2 <- next p1; Ok (p2, p_ch p1));
                if hi <? lo then Err E_class_range lo_start (p_off p2)
                else loop n' p2 (append_range_rev r lo hi) subs in
            if c =? 46 then
              do p' <- next p; loop n' p' ((11, mx) :: (0, 9) :: r) subs
            else if c =? 45 then
              do p1 <- next p;
              if p_ch p1 =? 91 then
                do '(p2, cs) <- parse_class fuel' p1 o;
                loop n' p2 r (subs ++ [cs])
              else if p_ch p1 =? 92 then
                do '(p2, cs) <- parse_escape fuel' p1 o false;
                if negb (one_rune cs) then loop n' p2 r (subs ++ [cs])
                else range_part p2 (match cs with (x, _) :: _ => x | [] => 0 end) ((45, 45) :: r)
              else loop n' p1 ((45, 45) :: r) subs
            else if c =? -1 then Err E_missing_bracket start (p_off p)
            else if c =? 92 then
              do '(p2, cs) <- parse_escape fuel' p o false;
              if negb (one_rune cs) then loop n' p2 (rev cs ++ r) subs
              else range_part p2 (match cs with (x, _) :: _ => x | [] => 0 end) r
            else
              if c >? mx then Err E_invalid_char (p_off p) (p_scan p)
              else do p' <- next p; range_part p' c r
        end in
      do '(p, r, subs) <- loop fuel' p r [];
      let cs := new_charset (rev r) in
      let cs := fold_left subtract subs cs in
      let cs := if fold then cs_fold cs (o_bytes o) else cs in
      let cs := if negated then invert cs mx else cs in
      do p' <- next p;
      Ok (p', cs)
    end.

  (* parseQuantifier: p_ch p is a digit; start1 = start - 1 is the offset of '{' *)
  Definition parse_quantifier (fuel : nat) (p : pstate) : res (pstate * Z * Z) :=
    let start := p_off p in
    do p1 <- skip_digits fuel p;
    match atoi (slice (p_src p) start (p_off p1)) with
    | None => Err E_cannot_parse_quant start (p_off p1)
    | Some mn =>
        do '(p2, mx) <-
          (if p_ch p1 =? 44 then
             do p2 <- next p1;
             let to_start := p_off p2 in
             do p3 <- skip_digits fuel p2;
             if to_start <? p_off p3 then
               match atoi (slice (p_src p) to_start (p_off p3)) with
               | None => Err E_cannot_parse_quant to_start (p_off p3)
               | Some mx => if mx <? mn then Err E_invalid_quant (start - 1) (p_scan p3) else Ok (p3, mx)
               end
             else Ok (p3, -1)
           else Ok (p1, mn));
        if negb (p_ch p2 =? 125) then Err E_cannot_parse_quant start (p_scan p2)
        else do p3 <- next p2; Ok (p3, mn, mx)
    end.

  (* Regexp.empty *)
  Definition re_empty (r : re) : bool :=
    match r with
    | RCat [] | RAlt [] => true
    | RLit _ [] _ => true
    | RRep _ mx _ => mx =? 0
    | _ => false
    end.

  (* a frame = an opParen marker with the alternatives reduced so far, plus the items pushed after it (reversed) *)
  Definition frame := (list re * list re)%type.

  (* reduce on the top frame *)
  Definition reduce_frame (f : frame) : frame :=
    let '(alts, items) := f in
    let ns := filter (fun r => negb (re_empty r)) (rev items) in
    let child := match ns with [x] => x | _ => RCat ns end in
    (alts ++ [child], []).

  (* p.canAppend *)
  Definition can_append (p : pstate) : bool :=
    match p_rest p with
    | [] => true
    | b :: t =>
        if (b =? 42) || (b =? 43) || (b =? 63) then false
        else if b =? 123 then
          match t with
          | [] => true
          | c :: _ => (c <? 48) || (c >? 57)
          end
        else true
    end.

  Definition push (fr : frame) (x : re) : frame := (fst fr, x :: snd fr).

  Fixpoint perl_flags (fuel : nat) (p : pstate) (set_fold neg : bool) : res (pstate * bool * bool) :=
    match fuel with
    | O => Err E_fuel 0 0
    | S f =>
        let c := p_ch p in
        if (c =? 58) || (c =? 41) then Ok (p, set_fold, neg)
        else if c =? 105 then (do p' <- next p; perl_flags f p' true neg)
        else if c =? 45 then (do p' <- next p; perl_flags f p' set_fold true)
        else Err E_perl_flags (p_off p) (p_scan p)
    end.

  (* index of "\E" in a byte list *)
  Fixpoint index_bsE (l : list Z) (i : Z) : option Z :=
    match l with
    | 92 :: 69 :: _ => Some i
    | _ :: t => index_bsE t (i + 1)
    | [] => None
    end.

  (* the validation loop over the \Q...\E literal *)
  Fixpoint check_lit (fuel : nat) (lit : list Z) (start : Z) : res Z :=
    match fuel with
    | O => Err E_fuel 0 0
    | S f =>
        match lit with
        | [] => Ok start
        | _ =>
            let '(r, w) := decode_rune lit in
            if (r =? rune_error) && Nat.eqb w 1 then Err E_invalid_rune start (start + 1)
            else check_lit f (skipn w lit) (start + Z.of_nat w)
        end
    end.

  Definition close_alt (f : frame) : re :=
    match fst f with
    | [x] => x
    | l => RAlt l
    end.

  (* the main loop of parser.parse.  stack: top frame first.  start: the function-level variable `start`. *)
  Fixpoint parse_loop (fuel : nat) (p : pstate) (o : popts) (top : frame) (below : list frame)
                      (fold_stack : list bool) (start : Z) {struct fuel} : res re :=
    match fuel with
    | O => Err E_fuel 0 0
    | S f =>
      let c := p_ch p in
      let n := length (p_src p) in
      if c =? -1 then
        let top' := reduce_frame top in
        match below with
        | _ :: _ => Err E_missing_close (p_off p) (p_off p)
        | [] => Ok (close_alt top')
        end
      else if c =? 46 then
        do p' <- next p;
        parse_loop f p' o (push top (RCC [(0, 9); (11, opt_max o)] (p_off p))) below fold_stack start
      else if c =? 40 then
        do p1 <- next p;
        if p_ch p1 =? 63 then
          do p2 <- next p1;
          do '(p3, set_fold, neg) <- perl_flags (S n) p2 false false;
          if p_ch p3 =? 41 then
            let o' := if set_fold then mkOpts (negb neg) (o_bytes o) else o in
            do p4 <- next p3;
            parse_loop f p4 o' top below fold_stack start
          else
            do p4 <- next p3;
            let o' := if set_fold then mkOpts (negb neg) (o_bytes o) else o in
            parse_loop f p4 o' ([], []) (top :: below) (o_fold o :: fold_stack) start
        else
          parse_loop f p1 o ([], []) (top :: below) (o_fold o :: fold_stack) start
      else if c =? 124 then
        do p' <- next p;
        parse_loop f p' o (reduce_frame top) below fold_stack start
      else if c =? 41 then
        let top' := reduce_frame top in
        match below, fold_stack with
        | parent :: rest, fo :: fs =>
            do p' <- next p;
            parse_loop f p' (mkOpts fo (o_bytes o)) (push parent (close_alt top')) rest fs start
        | _, _ => Err E_unexpected_close (p_off p) (p_scan p)
        end
      else if ((c =? 92) || (c =? 91)) then
        if (c =? 92) && (match p_rest p with b :: _ => b =? 81 | [] => false end) then
          (* \Q ... \E *)
          let st := p_scan p + 1 in
          let tail := skipn (Z.to_nat st) (p_src p) in
          let '(lit, so) := match index_bsE tail 0 with
                            | None => (tail, src_len p)
                            | Some i => (firstn (Z.to_nat i) tail, st + i + 2)
                            end in
          do p' <- next (set_scan p so);
          do st' <- check_lit (S n) lit st;
          parse_loop f p' o (push top (RLit (o_bytes o) lit st)) below fold_stack st'
        else if c =? 92 then
          do '(p', cs) <- parse_escape (S n) p o true;
          if o_bytes o && one_rune cs && (match cs with (x, _) :: _ => x >? 127 | [] => false end) then
            parse_loop f p' o (push top (RLit true (encode_rune (match cs with (x, _) :: _ => x | [] => 0 end)) (p_off p)))
                       below fold_stack start
          else parse_loop f p' o (push top (RCC cs (p_off p))) below fold_stack start
        else
          do '(p', cs) <- parse_class (S (S n)) p o;
          parse_loop f p' o (push top (RCC cs (p_off p))) below fold_stack start
      else if c =? 123 then
        let offset := p_off p in
        do p1 <- next p;
        if is_digit (p_ch p1) then
          match snd top with
          | [] => Err E_unexpected_quant (p_off p1 - 1) (p_off p1)
          | last :: items =>
              do '(p2, mn, mx) <- parse_quantifier (S n) p1;
              parse_loop f p2 o (fst top, RRep mn mx last :: items) below fold_stack start
          end
        else
          let st := p_off p1 in
          do p2 <- skip_ids (S n) p1;
          if negb (p_ch p2 =? 125) || (st =? p_off p2) then Err E_external offset (p_scan p2)
          else
            do p3 <- next p2;
            parse_loop f p3 o (push top (RExt (slice (p_src p) st (p_off p2)) offset)) below fold_stack start
      else
        let quant := ((c =? 42) || (c =? 43) || (c =? 63)) in
        match (if quant then snd top else []) with
        | last :: items =>
            let rep := if c =? 43 then RRep 1 (-1) last else if c =? 63 then RRep 0 1 last else RRep 0 (-1) last in
            do p' <- next p;
            parse_loop f p' o (fst top, rep :: items) below fold_stack start
        | [] =>
            if o_fold o && foldable c o then
              do p' <- next p;
              parse_loop f p' o (push top (RCC (cs_fold [(c, c)] (o_bytes o)) (p_off p))) below fold_stack start
            else
              let extend :=
                match snd top with
                | RLit b text off :: items =>
                    if Bool.eqb b (o_bytes o) && (if list_eq_dec Z.eq_dec text (slice (p_src p) start (p_off p)) then true else false)
                       && can_append p
                    then Some (fst top, RLit b (slice (p_src p) start (p_scan p)) off :: items)
                    else None
                | _ => None
                end in
              match extend with
              | Some top' => do p' <- next p; parse_loop f p' o top' below fold_stack start
              | None =>
                  do p' <- next p;
                  parse_loop f p' o (push top (RLit (o_bytes o) (slice (p_src p) (p_off p) (p_scan p)) (p_off p)))
                             below fold_stack (p_off p)
              end
        end
    end.

  Definition parse_regexp (src : list Z) (o : popts) : res re :=
    do p <- init src;
    parse_loop (S (S (length src))) p o ([], []) [] [] 0.
End Parser.
