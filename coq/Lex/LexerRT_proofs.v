(* Proofs about the model of the generated lexer: keyword switch, line bookkeeping helpers. *)
From Coq Require Import List ZArith Bool Lia.
From TM Require Import Lex.Tables Lex.Scan Lex.LexerRT Lex.RegexParse_proofs.
Import ListNotations.
Local Open Scope Z_scope.

Definition kw_pred (mask hash : Z) (text : list Z) (c : Z * Z * list Z * Z) : bool :=
  let '(bucket, h, key, _) := c in
  (bucket =? Z.land hash mask) && (hash =? h) && (if list_eq_dec Z.eq_dec key text then true else false).

Lemma kw_switch_unfold lx act hash text subcases mask :
  assocZ act (lx_kw lx) = Some subcases -> assocZ act (lx_mask lx) = Some mask ->
  kw_switch lx act hash text =
    match find (kw_pred mask hash text) subcases with Some (_, _, _, a') => a' | None => act end.
Proof.
  intros H1 H2. unfold kw_switch. rewrite H1, H2.
  assert (E : forall l, find (fun '(bucket, h, key, _) => (bucket =? Z.land hash mask) && (hash =? h)
             && (if list_eq_dec Z.eq_dec key text then true else false)) l = find (kw_pred mask hash text) l).
  { induction l as [|[[[b h] k] a] l IH]; [reflexivity|]. cbn [find kw_pred]. rewrite IH. reflexivity. }
  rewrite E. reflexivity.
Qed.

(* soundness: the switch only ever selects an action listed for exactly the matched text *)
Theorem kw_switch_sound lx act hash text subcases mask a' :
  assocZ act (lx_kw lx) = Some subcases -> assocZ act (lx_mask lx) = Some mask ->
  kw_switch lx act hash text = a' -> a' <> act ->
  exists b h, In (b, h, text, a') subcases /\ h = hash.
Proof.
  intros H1 H2 E Hne. rewrite (kw_switch_unfold _ _ _ _ _ _ H1 H2) in E.
  destruct (find (kw_pred mask hash text) subcases) as [[[[b h] k] a]|] eqn:F; [|congruence].
  apply find_some in F. destruct F as [Hin Hp]. cbn [kw_pred] in Hp.
  apply andb_true_iff in Hp. destruct Hp as [Hp Hk]. apply andb_true_iff in Hp. destruct Hp as [_ Hh].
  destruct (list_eq_dec Z.eq_dec k text); [|discriminate]. apply Z.eqb_eq in Hh. subst.
  exists b, h. split; [assumption|reflexivity].
Qed.

(* completeness: if the matched text is a key whose recorded hash is the hash computed while scanning and whose
   bucket is hash & mask (what asStringSwitch emits), its action is selected; keys determine actions *)
Theorem kw_switch_complete lx act hash text subcases mask b a' :
  assocZ act (lx_kw lx) = Some subcases -> assocZ act (lx_mask lx) = Some mask ->
  In (b, hash, text, a') subcases -> b = Z.land hash mask ->
  (forall b1 h1 a1, In (b1, h1, text, a1) subcases -> a1 = a') ->
  kw_switch lx act hash text = a'.
Proof.
  intros H1 H2 Hin Hb Huniq. rewrite (kw_switch_unfold _ _ _ _ _ _ H1 H2).
  destruct (find (kw_pred mask hash text) subcases) as [[[[b1 h1] k1] a1]|] eqn:F.
  - apply find_some in F. destruct F as [Hin1 Hp]. cbn [kw_pred] in Hp.
    apply andb_true_iff in Hp. destruct Hp as [_ Hk].
    destruct (list_eq_dec Z.eq_dec k1 text); [|discriminate]. subst k1. eapply Huniq; eauto.
  - pose proof (find_none _ _ F _ Hin) as Hp. cbn [kw_pred] in Hp.
    rewrite Hb, !Z.eqb_refl in Hp. destruct (list_eq_dec Z.eq_dec text text); [discriminate|congruence].
Qed.

(* a text that is not a key keeps the class action *)
Theorem kw_switch_other lx act hash text subcases mask :
  assocZ act (lx_kw lx) = Some subcases -> assocZ act (lx_mask lx) = Some mask ->
  (forall b h a, ~ In (b, h, text, a) subcases) ->
  kw_switch lx act hash text = act.
Proof.
  intros H1 H2 Hno. rewrite (kw_switch_unfold _ _ _ _ _ _ H1 H2).
  destruct (find (kw_pred mask hash text) subcases) as [[[[b h] k] a]|] eqn:F; [|reflexivity].
  apply find_some in F. destruct F as [Hin Hp]. cbn [kw_pred] in Hp.
  apply andb_true_iff in Hp. destruct Hp as [_ Hk].
  destruct (list_eq_dec Z.eq_dec k text); [|discriminate]. subst. exfalso. eapply Hno; eauto.
Qed.

(* line bookkeeping: newline counting is additive, so counting on advance and recounting on rewind agree *)
Lemma count_nl_app a b : count_nl (a ++ b) = count_nl a + count_nl b.
Proof. unfold count_nl. rewrite filter_app, app_length. lia. Qed.

Lemma after_last_nl_spec s : forall i acc, 0 <= acc <= i ->
  let r := after_last_nl s i acc in
  acc <= r <= i + Z.of_nat (length s) /\
  (count_nl s = 0 -> r = acc) /\
  (count_nl s > 0 -> i < r).
Proof.
  induction s as [|b t IH]; intros i acc H; cbn [after_last_nl length].
  - cbn. repeat split; try lia.
  - unfold count_nl in *. cbn [filter]. destruct (b =? 10) eqn:E.
    + destruct (IH (i + 1) (i + 1)) as (I1 & I2 & I3); [lia|]. cbn [length]. split; [lia|]. split; [lia|]. intros _. lia.
    + destruct (IH (i + 1) acc) as (I1 & I2 & I3); [lia|]. split; [lia|]. split; [assumption|]. intros Hc. specialize (I3 Hc). lia.
Qed.

(* the forced-progress step of handleInvalidToken: reading a character never moves backwards, and moves forward
   unless the input is exhausted *)
Lemma read_char_progress bytes scan rest :
  let '(ch, scan', rest') := read_char bytes scan rest in
  (rest = [] -> ch = -1 /\ scan' = scan) /\
  (rest <> [] -> scan < scan' /\ scan' + Z.of_nat (length rest') = scan + Z.of_nat (length rest)).
Proof.
  unfold read_char. destruct rest as [|b t].
  - split; [intros _; split; reflexivity|congruence].
  - destruct (bytes || (b <? 128)).
    + split; [congruence|]. intros _. cbn [length]. lia.
    + pose proof (decode_rune_width (b :: t) ltac:(congruence)) as W.
      destruct (decode_rune (b :: t)) as [r w]. cbn [snd] in W. split; [congruence|]. intros _.
      rewrite skipn_length. cbn [length] in *. lia.
Qed.
