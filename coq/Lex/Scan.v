(* C09: model of lex.Tables.Scan with the end-of-input loop (repair of F6), the automaton read off the tables
   (transitions, accepting labels), the reference "remember the last accepting position" run, and the boolean
   validator of the checkpoint encoding.  Executable definitions only. *)
From Coq Require Import List ZArith Bool.
From TM Require Import Lex.Tables.
Import ListNotations.
Local Open Scope Z_scope.

Definition cell (t : tables) (state sym : Z) : Z := nthZ (dfa t) (state * num_symbols t + sym).
Definition nstates (t : tables) : Z := Z.of_nat (length (dfa t)) / num_symbols t.
Definition bt_entry (t : tables) (c : Z) : Z * Z := nth (Z.to_nat (-1 - c)) (backtrack t) (0, 0).

(* ---- Tables.Scan, as repaired: end-of-input transitions are followed until an action is reached ---- *)
Fixpoint scan_eoi (fuel : nat) (t : tables) (state len size action : Z) : Z * Z :=
  match fuel with
  | O => (-1, -1)
  | S f =>
      let astart := action_start t in
      let st := cell t state 0 in
      if st <? 0 then
        if st >? astart then
          let '(a, ns) := bt_entry t st in scan_eoi f t ns len len a
        else if (astart =? st) && (size >? 0) then (size, action)
        else (len, astart - st)
      else scan_eoi f t st len size action
  end.

Fixpoint scan_text (t : tables) (fuel : nat) (state index size action : Z) (text : list Z) : Z * Z :=
  match fuel with
  | O => (-1, -1)
  | S f =>
    let astart := action_start t in
    match text with
    | [] => scan_eoi (S (Z.to_nat (nstates t))) t state index size action
    | _ =>
        let '(r, w) := decode t text in
        let ch := lookup_sym (symbol_map t) r in
        let st := cell t state ch in
        if st <? 0 then
          if st >? astart then
            let '(a, ns) := bt_entry t st in
            scan_text t f ns (index + Z.of_nat w) index a (skipn w text)
          else if (astart =? st) && (size >? 0) then (size, action)
          else (index, astart - st)
        else scan_text t f st (index + Z.of_nat w) size action (skipn w text)
    end
  end.

Definition scanF (t : tables) (sc : Z) (text : list Z) : Z * Z :=
  scan_text t (S (length text)) (nthZ (state_map t) sc) 0 0 0 text.

(* ---- the automaton the tables encode ---- *)
(* a cell is a move (to another state, possibly through a checkpoint) or a stop *)
Definition move (t : tables) (s sym : Z) : option Z :=
  let c := cell t s sym in
  if 0 <=? c then Some c
  else if c >? action_start t then Some (snd (bt_entry t c))
  else None.

(* accepting label of a state: read from its first stop cell, else from its first checkpoint cell; 0 = none *)
Fixpoint row_label (t : tables) (s : Z) (syms : list Z) : option Z :=
  match syms with
  | [] => None
  | y :: rest =>
      let c := cell t s y in
      if (c <? 0) && (c <=? action_start t) then Some (action_start t - c)
      else row_label t s rest
  end.

Fixpoint row_cp_label (t : tables) (s : Z) (syms : list Z) : option Z :=
  match syms with
  | [] => None
  | y :: rest =>
      let c := cell t s y in
      if (c <? 0) && (c >? action_start t) then Some (fst (bt_entry t c))
      else row_cp_label t s rest
  end.

Definition zrange (n : Z) : list Z := map Z.of_nat (seq 0 (Z.to_nat n)).

Definition label (t : tables) (s : Z) : Z :=
  match row_label t s (zrange (num_symbols t)) with
  | Some a => a
  | None => match row_cp_label t s (zrange (num_symbols t)) with Some a => a | None => 0 end
  end.

(* ---- reference semantics: run the automaton, remember the last accepting (position, label) ---- *)
Definition upd (t : tables) (s pos : Z) (last : option (Z * Z)) : option (Z * Z) :=
  if label t s =? 0 then last else Some (pos, label t s).

Definition verdict (last : option (Z * Z)) (pos : Z) : Z * Z :=
  match last with Some (p, a) => (p, a) | None => (pos, 0) end.

Fixpoint ref_eoi (fuel : nat) (t : tables) (s len : Z) (last : option (Z * Z)) : Z * Z :=
  match fuel with
  | O => (-1, -1)
  | S f =>
      let last' := upd t s len last in
      match move t s 0 with
      | Some s' => ref_eoi f t s' len last'
      | None => verdict last' len
      end
  end.

Fixpoint ref_text (t : tables) (fuel : nat) (s pos : Z) (last : option (Z * Z)) (text : list Z) : Z * Z :=
  match fuel with
  | O => (-1, -1)
  | S f =>
    match text with
    | [] => ref_eoi (S (Z.to_nat (nstates t))) t s pos last
    | _ =>
        let last' := upd t s pos last in
        let '(r, w) := decode t text in
        match move t s (lookup_sym (symbol_map t) r) with
        | Some s' => ref_text t f s' (pos + Z.of_nat w) last' (skipn w text)
        | None => verdict last' pos
        end
    end
  end.

Definition longest_accept (t : tables) (sc : Z) (text : list Z) : Z * Z :=
  ref_text t (S (length text)) (nthZ (state_map t) sc) 0 None text.

(* ---- validator of the checkpoint encoding (evaluated on the real tables) ---- *)
Definition cell_ok (t : tables) (s y : Z) : bool :=
  let c := cell t s y in
  let a := label t s in
  if 0 <=? c then
    (* plain move: allowed unless it leaves an accepting state for a non-accepting one *)
    (c <? nstates t) && ((a =? 0) || negb (label t c =? 0))
  else if c >? action_start t then
    (* checkpoint: carries this state's label, which is not 0, into a non-accepting state *)
    let '(ba, ns) := bt_entry t c in
    (ba =? a) && negb (a =? 0) && (0 <=? ns) && (ns <? nstates t) && (label t ns =? 0)
  else
    (* stop: every stop cell of a row names the same action *)
    (action_start t - c =? a) && (0 <=? a).

Definition check_tables (t : tables) : bool :=
  (0 <? num_symbols t) && (0 <? nstates t) &&
  forallb (fun s => forallb (cell_ok t s) (zrange (num_symbols t))) (zrange (nstates t)) &&
  forallb (fun s => (0 <=? s) && (s <? nstates t) && (label t s =? 0)) (state_map t) &&
  forallb (fun e => (0 <=? snd e) && (snd e <? num_symbols t)) (symbol_map t) &&
  negb (Nat.eqb (length (symbol_map t)) 0).
