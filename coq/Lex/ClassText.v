(* C10, class_spec from the concrete syntax: a small grammar of bracket expressions (items), its printer and the sets it
   denotes.  Definitions only (the proofs are in ClassText_proofs.v). *)
From Coq Require Import List ZArith Bool.
From TM Require Import Lex.Tables Lex.Charset Lex.RegexParse.
Import ListNotations.
Local Open Scope Z_scope.

(* items of a class body without nesting *)
Inductive sitem : Type :=
| SChar (c : Z)             (* a literal character *)
| SRange (lo hi : Z)        (* lo-hi *)
| SEsc (e : Z).             (* \a \f \n \r \t \v, e = the letter *)

(* items of a class body: plain items and subtracted nested sets -[...] / -[^...] *)
Inductive citem : Type :=
| CS (s : sitem)
| CSub (neg : bool) (body : list sitem).

(* a character that stands for itself everywhere in a class body: ASCII, none of - . \ ] ^ *)
Definition plainb (c : Z) : bool :=
  (0 <=? c) && (c <? 128) && negb (c =? 45) && negb (c =? 46) && negb (c =? 92) && negb (c =? 93) && negb (c =? 94).

Definition simple_letter (e : Z) : bool := (e =? 97) || (e =? 102) || (e =? 110) || (e =? 114) || (e =? 116) || (e =? 118).
Definition esc_val (e : Z) : Z :=
  if e =? 97 then 7 else if e =? 102 then 12 else if e =? 110 then 10 else if e =? 114 then 13 else if e =? 116 then 9 else 11.

Definition print_sitem (s : sitem) : list Z :=
  match s with
  | SChar c => [c]
  | SRange lo hi => [lo; 45; hi]
  | SEsc e => [92; e]
  end.
Definition print_sbody (b : list sitem) : list Z := concat (map print_sitem b).
Definition print_neg (neg : bool) : list Z := if neg then [94] else [].
Definition print_item (it : citem) : list Z :=
  match it with
  | CS s => print_sitem s
  | CSub neg body => 45 :: 91 :: print_neg neg ++ print_sbody body ++ [93]
  end.
Definition print_body (items : list citem) : list Z := concat (map print_item items).
Definition print_class (neg : bool) (items : list citem) : list Z := 91 :: print_neg neg ++ print_body items ++ [93].

(* the written ranges *)
Definition srange (s : sitem) : Z * Z :=
  match s with SChar c => (c, c) | SRange lo hi => (lo, hi) | SEsc e => (esc_val e, esc_val e) end.
Definition ranges_of (items : list citem) : charset :=
  flat_map (fun it => match it with CS s => [srange s] | CSub _ _ => [] end) items.
Definition subs_of (items : list citem) : list (bool * list sitem) :=
  flat_map (fun it => match it with CS _ => [] | CSub neg body => [(neg, body)] end) items.

(* well-formed: characters are plain, ranges ascending, bodies non-empty *)
Definition wf_sitem (s : sitem) : bool :=
  match s with
  | SChar c => plainb c
  | SRange lo hi => plainb lo && plainb hi && (lo <=? hi)
  | SEsc e => simple_letter e
  end.
Definition ends_range (it : citem) : bool := match it with CS (SRange _ _) | CSub _ _ => true | _ => false end.
(* a subtracted set can be written only at the start, after a range or after another subtracted set: "a-[" is a range *)
Fixpoint sub_placed (prev_ok : bool) (items : list citem) : bool :=
  match items with
  | [] => true
  | it :: t => (match it with CSub _ _ => prev_ok | _ => true end) && sub_placed (ends_range it) t
  end.
Definition wf_item (it : citem) : bool :=
  match it with
  | CS s => wf_sitem s
  | CSub _ body => negb (Nat.eqb (length body) 0) && forallb wf_sitem body
  end.
Definition wf_items (items : list citem) : bool :=
  negb (Nat.eqb (length items) 0) && forallb wf_item items && sub_placed true items.
