(* C11 / C12, specification side at the level of the generated lexer: the token the lexer RULES define at an offset of
   the source (Deriv.spec_scan on the rest of the source = longest match / priority / invalid extent; class rules
   specialised by the keyword table; space rules skipped), the token stream, and "a gap is a sequence of matches of
   space rules".  Executable definitions and one inductive predicate only; nothing here looks at the tables. *)
From Coq Require Import List ZArith Bool.
From TM Require Import Lex.Tables Lex.Scan Lex.LexerRT Lex.LexerWf Lex.Charset Lex.RegexParse Lex.Deriv Lex.DerivSem.
Import ListNotations.
Local Open Scope Z_scope.

(* the token a lexer action stands for *)
Definition tok_of (lx : lexer) (a : Z) : Z :=
  match lx_rule_token lx with [] => a | _ :: _ => nth (Z.to_nat a) (lx_rule_token lx) (-1) end.

(* keyword table, rule level: a class action is replaced by the action listed for exactly the matched text *)
Definition key_is (text : list Z) (c : Z * Z * list Z * Z) : bool :=
  let '(_, _, key, _) := c in if list_eq_dec Z.eq_dec key text then true else false.

Definition kw_spec (lx : lexer) (a : Z) (text : list Z) : Z :=
  match assocZ a (lx_kw lx), assocZ a (lx_mask lx) with
  | Some subcases, Some _ => match find (key_is text) subcases with Some (_, _, _, a') => a' | None => a end
  | _, _ => a
  end.

(* hypothesis on the keyword table (boolean, evaluated on the real switch data): no specialised action is the
   "no match" action, so that a specialised keyword is never mistaken for the invalid token by handleInvalidToken *)
Definition kw_targets_ok (lx : lexer) : bool :=
  forallb (fun e => forallb (fun c => let '(_, _, _, a') := c in negb (a' =? inv_act lx)) (snd e)) (lx_kw lx).

(* the hash the generated lexer accumulates over the symbols of the first `size` bytes (symbols decoded in the context
   of the source, as the lexer reads them) *)
Fixpoint hash_syms (l : list (Z * nat)) (size : Z) (h : Z) : Z :=
  match l with
  | [] => h
  | (c, w) :: t => if size <=? 0 then h else hash_syms t (size - Z.of_nat w) (wrap32u (h * 31 + c))
  end.

(* how a class action is specialised: kwf action (symbols of the rest of the source) size (matched text) *)
Definition kwfun := Z -> list (Z * nat) -> Z -> list Z -> Z.
Definition kwf_switch (lx : lexer) : kwfun := fun a l size text => kw_switch lx a (hash_syms l size 0) text.
Definition kwf_spec (lx : lexer) : kwfun := fun a _ _ text => kw_spec lx a text.

(* one attempt at offset pos: (token, is_space, end offset).  act_of maps the action of a rule to the lexer action
   (the identity when the lexer carries tmToken; the token of the rule when rule actions are inlined). *)
Definition spec_attempt (lx : lexer) (kwf : kwfun) (act_of : Z -> Z) (rules : list srule) (src : list Z) (pos : Z)
  : Z * bool * Z :=
  let bytes := scan_bytes (lx_tables lx) in
  let rest := skipn (Z.to_nat pos) src in
  let '(size, a) := spec_scan bytes rules rest in
  if a =? 0 then
    let inv := tok_of lx (inv_act lx) in
    if size =? 0 then
      match rest with
      | [] => (0, false, pos)                                               (* end of input *)
      | _ => (inv, false, pos + Z.of_nat (snd (decode_b bytes rest)))       (* nothing viable: one character *)
      end
    else (inv, false, pos + size)                                           (* the longest viable prefix *)
  else
    let a' := kwf (act_of a) (symbols bytes rest) size (sub src pos (pos + size)) in
    (tok_of lx a', memZ a' (lx_space lx), pos + size).

(* Next: (token, start, end) *)
Fixpoint spec_next (fuel : nat) (lx : lexer) (kwf : kwfun) (act_of : Z -> Z) (rules : list srule) (src : list Z) (pos : Z)
  : option (Z * Z * Z) :=
  match fuel with
  | O => None
  | S f =>
      let '(tok, space, e) := spec_attempt lx kwf act_of rules src pos in
      if space then spec_next f lx kwf act_of rules src e else Some (tok, pos, e)
  end.

(* the stream of (token, start, end) up to and including the first end-of-input token *)
Fixpoint spec_all (n : nat) (lx : lexer) (kwf : kwfun) (act_of : Z -> Z) (rules : list srule) (src : list Z) (pos : Z)
  : option (list (Z * Z * Z)) :=
  match n with
  | O => None
  | S n' =>
      match spec_next (S (Z.to_nat (Z.of_nat (length src) - pos))) lx kwf act_of rules src pos with
      | None => None
      | Some (tok, s, e) =>
          if tok =? 0 then Some [(tok, s, e)]
          else match spec_all n' lx kwf act_of rules src e with Some r => Some ((tok, s, e) :: r) | None => None end
      end
  end.

(* [a, b) is a concatenation of matches of space rules: each piece is the first i symbols of the rest of the source
   (followed, at the end of the source only, by k <= 4 end markers) matched by a rule whose (specialised) action is a
   space action *)
Inductive space_gap (lx : lexer) (kwf : kwfun) (act_of : Z -> Z) (rules : list srule) (src : list Z) : Z -> Z -> Prop :=
| SG_nil a : space_gap lx kwf act_of rules src a a
| SG_cons a b r act p i k :
    let l := symbols (scan_bytes (lx_tables lx)) (skipn (Z.to_nat a) src) in
    In (r, act, p) rules -> cand 4 l i k -> matches r (word l i k) ->
    memZ (kwf (act_of act) l (offs i l) (sub src a (a + offs i l))) (lx_space lx) = true ->
    space_gap lx kwf act_of rules src (a + offs i l) b ->
    space_gap lx kwf act_of rules src a b.

(* every gap of a stream of records [token; start; end; ...] read from offset lo is such a concatenation *)
Inductive stream_gaps (lx : lexer) (kwf : kwfun) (act_of : Z -> Z) (rules : list srule) (src : list Z) : Z -> list (list Z) -> Prop :=
| SGS_nil lo : stream_gaps lx kwf act_of rules src lo []
| SGS_cons lo o rest :
    space_gap lx kwf act_of rules src lo (nth 1 o 0) ->
    stream_gaps lx kwf act_of rules src (nth 2 o 0) rest ->
    stream_gaps lx kwf act_of rules src lo (o :: rest).
