(* C11 rune_class_lookup: the tables emitted for a symbol map give the plain symbol-map lookup. *)
From Coq Require Import List ZArith Bool Lia.
From TM Require Import Lex.Tables Lex.LexerMaps.
Import ListNotations.
Local Open Scope Z_scope.

Fixpoint sorted_from (prev : Z) (m : list (Z * Z)) : Prop :=
  match m with
  | [] => True
  | (s, _) :: rest => prev < s /\ sorted_from s rest
  end.

(* a symbol map as lex.Compile builds it: starts at 0, strictly increasing starts *)
Definition sorted_map (m : list (Z * Z)) : Prop :=
  match m with
  | (s0, _) :: rest => s0 = 0 /\ sorted_from 0 rest
  | [] => False
  end.

(* value at r when `target` holds before the first start of m *)
Fixpoint val (target : Z) (m : list (Z * Z)) (r : Z) : Z :=
  match m with
  | [] => target
  | (s, tg) :: rest => if r <? s then target else val tg rest r
  end.

Lemma lookup_val rest : forall s0 t0 r, sorted_from s0 rest -> s0 <= r -> lookup_sym ((s0, t0) :: rest) r = val t0 rest r.
Proof.
  induction rest as [|[s1 t1] rest IH]; intros s0 t0 r Hs Hr; [reflexivity|].
  cbn [lookup_sym val]. cbn in Hs. destruct Hs as [H1 H2].
  rewrite Z.gtb_ltb. destruct (Z.ltb_spec r s1) as [|Hge]; [reflexivity|]. exact (IH s1 t1 r H2 Hge).
Qed.

Lemma val_last m : forall target r, sorted_from (-1) m -> m <> [] -> last_start m <= r -> val target m r = last_target m.
Proof.
  induction m as [|[s tg] rest IH]; intros target r Hs Hne Hr; [congruence|].
  cbn [val]. destruct rest as [|[s1 t1] rest'].
  - unfold last_start, last_target in *. cbn in *. destruct (Z.ltb_spec r s); [lia|reflexivity].
  - assert (Hl : last_start ((s, tg) :: (s1, t1) :: rest') = last_start ((s1, t1) :: rest')) by reflexivity.
    assert (Ht : last_target ((s, tg) :: (s1, t1) :: rest') = last_target ((s1, t1) :: rest')) by reflexivity.
    rewrite Hl in Hr. rewrite Ht. cbn in Hs. destruct Hs as (H1 & H2 & H3).
    assert (Hge : s1 <= last_start ((s1, t1) :: rest')).
    { clear -H3. revert s1 t1 H3. induction rest' as [|[s2 t2] r2 IH2]; intros s1 t1 H3; [unfold last_start; cbn; lia|].
      cbn in H3. destruct H3 as [A B]. specialize (IH2 s2 t2 B). unfold last_start in *. cbn [last] in *. cbn [last] in IH2. lia. }
    destruct (Z.ltb_spec r s); [lia|]. apply IH; [cbn; split; [lia|assumption]|congruence|assumption].
Qed.

Lemma nth_repeat' {A} (a d : A) n k : (k < n)%nat -> nth k (repeat a n) d = a.
Proof. revert k. induction n as [|n IH]; intros k H; [lia|]. destruct k; [reflexivity|]. cbn. apply IH. lia. Qed.

(* Tables.SymbolArr: entry r of the array is the class of r, for every r below its length *)
Lemma sym_arr_loop_spec m : forall index target size,
  0 <= index <= size -> sorted_from (index - 1) m -> (m = [] -> index = size) -> (m <> [] -> size <= last_start m) ->
  Z.of_nat (length (sym_arr_loop m index target size)) = size - index /\
  forall r, index <= r < size -> nth (Z.to_nat (r - index)) (sym_arr_loop m index target size) 0 = val target m r.
Proof.
  induction m as [|[st tg] rest IH]; intros index target size Hi Hs He Hl.
  - cbn. specialize (He eq_refl). split; [lia|]. intros r Hr. lia.
  - cbn [sym_arr_loop val]. cbn in Hs. destruct Hs as [Hs1 Hs2].
    set (stop := if st <? size then st else size).
    assert (Hstop : index <= stop <= size /\ stop <= st) by (subst stop; destruct (Z.ltb_spec st size); lia).
    assert (Hidx : (if index <? stop then stop else index) = stop) by (destruct (Z.ltb_spec index stop); lia).
    rewrite Hidx.
    destruct (Z.eqb_spec stop size) as [Heq|Hneq].
    + rewrite app_nil_r, repeat_length. split; [lia|]. intros r Hr.
      rewrite nth_repeat' by lia. destruct (Z.ltb_spec r st); [reflexivity|lia].
    + assert (Hst : stop = st) by (subst stop; destruct (Z.ltb_spec st size); lia).
      destruct (IH st tg size) as (L & N).
      * lia.
      * destruct rest as [|[s1 t1] r1]; [exact I|]. cbn in *. destruct Hs2. split; [lia|assumption].
      * intros ->. specialize (Hl ltac:(congruence)). unfold last_start in Hl. cbn in Hl. lia.
      * intros Hne. specialize (Hl ltac:(congruence)). destruct rest as [|e r1]; [congruence|]. exact Hl.
      * rewrite Hst in *. rewrite app_length, repeat_length. split; [lia|]. intros r Hr.
        destruct (Z.ltb_spec r st) as [Hlt|Hge].
        -- rewrite app_nth1 by (rewrite repeat_length; lia). apply nth_repeat'. lia.
        -- rewrite app_nth2 by (rewrite repeat_length; lia). rewrite repeat_length.
           replace (Z.to_nat (r - index) - Z.to_nat (st - index))%nat with (Z.to_nat (r - st)) by lia.
           apply N. lia.
Qed.

Lemma symbol_arr_spec m max_rune : sorted_map m -> 0 <= max_rune ->
  let size := if negb (max_rune =? 0) && (max_rune <? last_start m) then max_rune else last_start m in
  Z.of_nat (length (symbol_arr m max_rune)) = size /\
  forall r, 0 <= r < size -> nth (Z.to_nat r) (symbol_arr m max_rune) 0 = lookup_sym m r.
Proof.
  intros Hs Hm. destruct m as [|[s0 t0] rest]; [destruct Hs|]. destruct Hs as [-> Hs].
  destruct rest as [|e1 rest'].
  - cbn [symbol_arr length]. unfold last_start. cbn. destruct (negb (max_rune =? 0) && (max_rune <? 0)) eqn:E.
    + apply andb_true_iff in E. destruct E as [_ E]. apply Z.ltb_lt in E. lia.
    + split; [reflexivity|]. intros r Hr. lia.
  - set (m := (0, t0) :: e1 :: rest') in *. cbn zeta.
    set (size := if negb (max_rune =? 0) && (max_rune <? last_start m) then max_rune else last_start m).
    assert (Hlast : 0 <= last_start m).
    { pose proof (val_last m 0 (last_start m)) as _. destruct e1 as [s1 t1]. cbn in Hs. destruct Hs as [H1 H2].
      assert (s1 <= last_start m).
      { unfold m. clear -H2. change (last_start ((0, t0) :: (s1, t1) :: rest')) with (last_start ((s1, t1) :: rest')).
        revert s1 t1 H2. induction rest' as [|[s2 t2] r2 IH2]; intros s1 t1 H2; [unfold last_start; cbn; lia|].
        cbn in H2. destruct H2 as [A B]. specialize (IH2 s2 t2 B). unfold last_start in *. cbn [last] in *. lia. }
      lia. }
    assert (Hsz : 0 <= size <= last_start m).
    { subst size. destruct (negb (max_rune =? 0) && (max_rune <? last_start m)) eqn:E; [|lia].
      apply andb_true_iff in E. destruct E as [_ E]. apply Z.ltb_lt in E. lia. }
    change (symbol_arr m max_rune) with (sym_arr_loop m 0 0 size).
    destruct (sym_arr_loop_spec m 0 0 size) as (L & N).
    + lia.
    + unfold m. cbn. split; [lia|]. destruct e1 as [s1 t1]. cbn in Hs. cbn. destruct Hs. split; [lia|assumption].
    + unfold m. congruence.
    + intros _. lia.
    + split; [lia|]. intros r Hr. specialize (N r Hr). rewrite Z.sub_0_r in N. rewrite N.
      unfold m. cbn [val]. destruct (Z.ltb_spec r 0); [lia|]. symmetry. apply lookup_val; [assumption|lia].
Qed.

Lemma lookup_last m r : sorted_map m -> last_start m <= r -> lookup_sym m r = last_target m.
Proof.
  intros Hs Hr. destruct m as [|[s0 t0] rest]; [destruct Hs|]. destruct Hs as [-> Hs].
  assert (H0 : 0 <= r).
  { destruct rest as [|[s1 t1] r1]; [unfold last_start in Hr; cbn in Hr; lia|].
    assert (0 <= last_start ((0, t0) :: (s1, t1) :: r1)); [|lia].
    change (last_start ((0, t0) :: (s1, t1) :: r1)) with (last_start ((s1, t1) :: r1)).
    cbn in Hs. destruct Hs as [A B]. clear -A B. revert s1 t1 A B.
    induction r1 as [|[s2 t2] r2 IH2]; intros s1 t1 A B; [unfold last_start; cbn; lia|].
    cbn in B. destruct B as [B1 B2]. specialize (IH2 s2 t2 ltac:(lia) B2). unfold last_start in *. cbn [last] in *. lia. }
  rewrite lookup_val by (try assumption; lia).
  pose proof (val_last ((0, t0) :: rest) t0 r) as V. cbn [val] in V. destruct (Z.ltb_spec r 0); [lia|].
  apply V; [cbn; split; [lia|assumption]|congruence|assumption].
Qed.

(* rune_class_lookup for lexers whose map ends at or below 2048 (tmRuneClass only) and, for the others, for all
   characters below 256 *)
Theorem rune_class_lookup_array m ch : sorted_map m -> 0 <= ch ->
  (last_start m <= 2048 \/ ch < 256) ->
  rune_class (rune_tables_of m) ch = lookup_sym m ch.
Proof.
  intros Hs Hc Hcase. unfold rune_tables_of, rune_class. rewrite Z.gtb_ltb.
  destruct (Z.ltb_spec 2048 (last_start m)) as [Hbig|Hsmall]; cbn [rt_class rt_use_map rt_last rt_ranges].
  - destruct Hcase as [Hc1|Hc2]; [lia|].
    destruct (symbol_arr_spec m 256 Hs ltac:(lia)) as (L & N). cbn zeta in L, N.
    assert (E : (negb (256 =? 0) && (256 <? last_start m)) = true) by (apply andb_true_iff; split; [reflexivity|apply Z.ltb_lt; lia]).
    rewrite E in L, N. rewrite L. destruct (Z.ltb_spec ch 256); [|lia]. apply N. lia.
  - destruct (symbol_arr_spec m 0 Hs ltac:(lia)) as (L & N). cbn zeta in L, N. cbn [Z.eqb negb andb] in L, N.
    rewrite L. destruct (Z.ltb_spec ch (last_start m)) as [Hlt|Hge].
    + apply N. lia.
    + symmetry. apply lookup_last; assumption.
Qed.

(* ---- mapRune: the binary search finds the range containing c in every sorted list of disjoint ranges ---- *)
Definition ce_val (e : centry) (c : Z) : Z :=
  let i := c - ce_lo e in
  if i <? Z.of_nat (length (ce_vals e)) then nth (Z.to_nat i) (ce_vals e) 0 else ce_default e.

Definition rng (ranges : list centry) (k : Z) : centry := nth (Z.to_nat k) ranges dce.

Definition ranges_sorted (ranges : list centry) : Prop :=
  let n := Z.of_nat (length ranges) in
  (forall i, 0 <= i < n -> ce_lo (rng ranges i) <= ce_hi (rng ranges i)) /\
  (forall i j, 0 <= i -> i < j -> j < n -> ce_hi (rng ranges i) <= ce_lo (rng ranges j)).

Definition holds (ranges : list centry) (k c : Z) : Prop := ce_lo (rng ranges k) <= c < ce_hi (rng ranges k).

Lemma map_rune_loop_spec ranges d c : ranges_sorted ranges ->
  forall fuel lo hi, (Z.to_nat (hi - lo) < fuel)%nat -> 0 <= lo <= hi -> hi <= Z.of_nat (length ranges) ->
  (forall i, 0 <= i < lo -> ce_hi (rng ranges i) <= c) ->
  (forall i, hi <= i < Z.of_nat (length ranges) -> c < ce_lo (rng ranges i)) ->
  (forall k, 0 <= k < Z.of_nat (length ranges) -> holds ranges k c ->
     map_rune_loop fuel ranges d c lo hi = ce_val (rng ranges k) c) /\
  ((forall k, 0 <= k < Z.of_nat (length ranges) -> ~ holds ranges k c) -> map_rune_loop fuel ranges d c lo hi = d).
Proof.
  intros (Hv & Hs). induction fuel as [|f IH]; intros lo hi Hf Hlo Hhi Hbelow Habove; [lia|].
  cbn [map_rune_loop]. destruct (Z.ltb_spec lo hi) as [Hlt|Hge].
  - set (m := lo + (hi - lo) / 2). assert (Hm : lo <= m < hi) by (subst m; split; [|]; 
      [pose proof (Z.div_pos (hi - lo) 2); lia| assert ((hi - lo) / 2 < hi - lo) by (apply Z.div_lt; lia); lia]).
    fold (rng ranges m).
    destruct (Z.ltb_spec c (ce_lo (rng ranges m))) as [Hc1|Hc1].
    + apply IH; try lia; try assumption.
      intros i Hi. destruct (Z.eq_dec i m) as [->|]; [assumption|].
      pose proof (Hs m i ltac:(lia) ltac:(lia) ltac:(lia)). pose proof (Hv m ltac:(lia)). lia.
    + rewrite Z.geb_leb. destruct (Z.leb_spec (ce_hi (rng ranges m)) c) as [Hc2|Hc2].
      * apply IH; try lia; try assumption.
        intros i Hi. destruct (Z.eq_dec i m) as [->|]; [assumption|].
        destruct (Z_lt_ge_dec i lo); [apply Hbelow; lia|].
        pose proof (Hs i m ltac:(lia) ltac:(lia) ltac:(lia)). pose proof (Hv m ltac:(lia)). lia.
      * split.
        -- intros k Hk Hh. unfold holds in Hh.
           assert (k = m); [|subst k; reflexivity].
           destruct (Z_lt_ge_dec k m) as [Hkm|Hkm].
           { pose proof (Hs k m ltac:(lia) ltac:(lia) ltac:(lia)). lia. }
           destruct (Z.eq_dec k m); [assumption|].
           pose proof (Hs m k ltac:(lia) ltac:(lia) ltac:(lia)). lia.
        -- intros Hnone. exfalso. apply (Hnone m ltac:(lia)). unfold holds. lia.
  - split; [|reflexivity].
    intros k Hk Hh. unfold holds in Hh. exfalso.
    destruct (Z_lt_ge_dec k lo) as [Hkl|Hkl]; [specialize (Hbelow k ltac:(lia)); lia|].
    specialize (Habove k ltac:(lia)). lia.
Qed.

Theorem map_rune_spec ranges d c : ranges_sorted ranges ->
  (forall k, 0 <= k < Z.of_nat (length ranges) -> holds ranges k c -> map_rune ranges d c = ce_val (rng ranges k) c) /\
  ((forall k, 0 <= k < Z.of_nat (length ranges) -> ~ holds ranges k c) -> map_rune ranges d c = d).
Proof.
  intros Hs. unfold map_rune. apply map_rune_loop_spec; try assumption; try lia.
Qed.

Lemma rng_cons e t i : 0 <= i -> rng (e :: t) (i + 1) = rng t i.
Proof. intros Hi. unfold rng. replace (Z.to_nat (i + 1)) with (S (Z.to_nat i)) by lia. reflexivity. Qed.

Lemma sortedb_index ranges : forall lb, ranges_sortedb lb ranges = true ->
  (forall i, 0 <= i < Z.of_nat (length ranges) -> lb <= ce_lo (rng ranges i) /\ ce_lo (rng ranges i) <= ce_hi (rng ranges i)) /\
  (forall i j, 0 <= i -> i < j -> j < Z.of_nat (length ranges) -> ce_hi (rng ranges i) <= ce_lo (rng ranges j)).
Proof.
  induction ranges as [|e t IH]; intros lb H; [cbn; split; intros; lia|].
  cbn [ranges_sortedb] in H. apply andb_true_iff in H. destruct H as [H H3]. apply andb_true_iff in H. destruct H as [H1 H2].
  apply Z.leb_le in H1, H2. destruct (IH _ H3) as (I1 & I2). cbn [length]. split.
  - intros i Hi. destruct (Z.eq_dec i 0) as [->|Hn]; [cbn; lia|].
    replace i with ((i - 1) + 1) by lia. rewrite rng_cons by lia. destruct (I1 (i - 1) ltac:(lia)). lia.
  - intros i j Hi Hij Hj. replace j with ((j - 1) + 1) by lia. rewrite (rng_cons e t (j - 1)) by lia.
    destruct (Z.eq_dec i 0) as [->|Hn].
    + change (rng (e :: t) 0) with e. destruct (I1 (j - 1) ltac:(lia)). lia.
    + replace i with ((i - 1) + 1) by lia. rewrite rng_cons by lia. apply I2; lia.
Qed.

Theorem sortedb_sorted ranges lb : ranges_sortedb lb ranges = true -> ranges_sorted ranges.
Proof.
  intros H. destruct (sortedb_index ranges lb H) as (I1 & I2). split; [intros i Hi; apply (I1 i Hi)|exact I2].
Qed.
