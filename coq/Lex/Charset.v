(* Model of lex/charset.go: character sets as sorted lists of disjoint, non-adjacent closed ranges.
   The Go code stores flattened pairs of runes ([]rune{lo0,hi0,lo1,hi1,...}); the model stores pairs.
   Executable definitions only (proofs: Charset_proofs.v). *)
From Coq Require Import List ZArith Bool.
Import ListNotations.
Local Open Scope Z_scope.

Definition charset := list (Z * Z).

(* ---- semantics (used by theorems and by the specification oracle) ---- *)
Definition in_range (x : Z) (p : Z * Z) : bool := (fst p <=? x) && (x <=? snd p).
Definition mem (x : Z) (cs : charset) : bool := existsb (in_range x) cs.

(* normal form: every range non-empty, ranges ascending with a gap of at least one code point, all >= lb *)
Fixpoint wf_cs (lb : Z) (cs : charset) : Prop :=
  match cs with
  | [] => True
  | (lo, hi) :: t => lb <= lo /\ lo <= hi /\ wf_cs (hi + 2) t
  end.

Fixpoint wf_csb (lb : Z) (cs : charset) : bool :=
  match cs with
  | [] => true
  | (lo, hi) :: t => (lb <=? lo) && (lo <=? hi) && wf_csb (hi + 2) t
  end.

(* ---- newCharset: sort.Sort(rangeOrder) then merge overlapping / adjacent ranges ---- *)
(* rangeOrder.Less: by lo ascending, then hi descending *)
Definition range_lt (a b : Z * Z) : bool := (fst a <? fst b) || ((fst a =? fst b) && (snd a >? snd b)).

Fixpoint insert_range (x : Z * Z) (l : charset) : charset :=
  match l with
  | [] => [x]
  | y :: t => if range_lt y x then y :: insert_range x t else x :: l
  end.

Fixpoint sort_ranges (l : charset) : charset :=
  match l with
  | [] => []
  | x :: t => insert_range x (sort_ranges t)
  end.

(* the merge loop: cur is r[l-2], r[l-1] *)
Fixpoint merge_ranges (cur : Z * Z) (rest : charset) : charset :=
  match rest with
  | [] => [cur]
  | (lo, hi) :: t =>
      let e := snd cur + 1 in
      if lo <=? e then merge_ranges (fst cur, if hi >=? e then hi else snd cur) t
      else cur :: merge_ranges (lo, hi) t
  end.

Definition new_charset (r : charset) : charset :=
  match sort_ranges r with
  | [] => []
  | c :: t => merge_ranges c t
  end.

(* ---- invert ---- *)
Fixpoint invert_loop (next : Z) (r : charset) (max : Z) : charset :=
  match r with
  | [] => if next <=? max then [(next, max)] else []
  | (lo, hi) :: t => (if next <=? lo - 1 then [(next, lo - 1)] else []) ++ invert_loop (hi + 1) t max
  end.

Definition invert (r : charset) (max : Z) : charset := invert_loop 0 r max.

Definition one_rune (c : charset) : bool :=
  match c with
  | [(lo, hi)] => lo =? hi
  | _ => false
  end.

(* ---- subtract: the inner loop over oth for one range [lo,hi] of c; returns (emitted ranges, remaining oth) ---- *)
Fixpoint sub_one (lo hi : Z) (oth : charset) : charset * charset :=
  match oth with
  | [] => ([(lo, hi)], [])
  | (ol, oh) :: t =>
      if hi <? ol then ([(lo, hi)], oth)                 (* loop condition hi >= oth[0] fails *)
      else if oh <? lo then sub_one lo hi t              (* oth = oth[2:]; continue *)
      else
        let pre := if lo <? ol then [(lo, ol - 1)] else [] in
        let lo' := oh + 1 in
        if lo' >? hi then (pre, oth)                     (* continue mainLoop (oth is kept) *)
        else let '(o, r) := sub_one lo' hi t in (pre ++ o, r)
  end.

Fixpoint subtract (c oth : charset) : charset :=
  match c with
  | [] => []
  | (lo, hi) :: t => let '(o, r) := sub_one lo hi oth in o ++ subtract t r
  end.

(* ---- intersect (two-index loop; fuel = len a + len b + 1 is enough) ---- *)
Fixpoint intersect_loop (fuel : nat) (a b : charset) : charset :=
  match fuel with
  | O => []
  | S f =>
    match a, b with
    | (alo, ahi) :: ta, (blo, bhi) :: tb =>
        if ahi <? blo then intersect_loop f ta b
        else if bhi <? alo then intersect_loop f a tb
        else
          let lo := if blo >? alo then blo else alo in
          if bhi <? ahi then (if lo <=? bhi then [(lo, bhi)] else []) ++ intersect_loop f a tb
          else (if lo <=? ahi then [(lo, ahi)] else []) ++ intersect_loop f ta b
    | _, _ => []
    end
  end.

Definition intersect (a b : charset) : charset := intersect_loop (S (length a + length b)) a b.

(* ---- appendRange: merge with the LAST range when overlapping or adjacent.
        The working list is kept reversed (last range first) so that appends are O(1). ---- *)
Definition append_range_rev (rr : charset) (lo hi : Z) : charset :=
  match rr with
  | [] => [(lo, hi)]
  | (s, e) :: t =>
      if (lo <=? e + 1) && (s <=? hi + 1)
      then (if lo <? s then lo else s, if hi >? e then hi else e) :: t
      else (lo, hi) :: rr
  end.

Definition append_range (r : charset) (lo hi : Z) : charset := rev (append_range_rev (rev r) lo hi).

(* ---- appendTable: unicode.RangeTable entries (lo, hi, stride), R16 then R32 ---- *)
Fixpoint append_stride (n : nat) (rr : charset) (c stride : Z) : charset :=
  match n with
  | O => rr
  | S n' => append_stride n' (append_range_rev rr c c) (c + stride) stride
  end.

Definition table := list (Z * Z * Z).

Fixpoint append_table_rev (rr : charset) (x : table) : charset :=
  match x with
  | [] => rr
  | (lo, hi, stride) :: t =>
      if stride =? 1 then append_table_rev (append_range_rev rr lo hi) t
      else append_table_rev (append_stride (if hi <? lo then O else Z.to_nat ((hi - lo) / stride + 1)) rr lo stride) t
  end.

(* ---- fold: add the SimpleFold orbit of every member; sf is Go's unicode.SimpleFold, supplied as data ---- *)
Section Fold.
  Variable sf : Z -> Z.
  Variable orbit_fuel : nat.      (* orbits of SimpleFold have at most 4 elements; 8 is used *)

  Fixpoint fold_orbit (n : nat) (ascii : bool) (c f : Z) (out : charset) : charset :=
    match n with
    | O => out
    | S n' =>
        if f =? c then out
        else fold_orbit n' ascii c (sf f) (if ascii && (f >=? 128) then out else append_range_rev out f f)
    end.

  (* for c := lo; c <= hi; c++ — iterated with Z.iter (binary counter: no unary numbers of the size of a range) *)
  Definition fold_step (ascii : bool) (st : Z * charset) : Z * charset :=
    (fst st + 1, fold_orbit orbit_fuel ascii (fst st) (sf (fst st)) (snd st)).

  Definition fold_range (ascii : bool) (lo hi : Z) (out : charset) : charset :=
    snd (Z.iter (hi - lo + 1) (fold_step ascii) (lo, out)).

  Fixpoint fold_ranges (ascii : bool) (r : charset) (out : charset) : charset :=
    match r with
    | [] => out
    | (lo, hi) :: t => fold_ranges ascii t (fold_range ascii lo hi out)
    end.

  Definition fold (c : charset) (ascii : bool) : charset :=
    new_charset (rev (fold_ranges ascii c (rev c))).
End Fold.
