(* C24, the intermediate layers of pack_scan_agrees stated for an accepted Pack: acceptance conditions are
   exactly [packed]; every 6-bit field of every packed row decodes to the DFA transition; the on-EOI array holds
   the EOI actions; the two scan loops agree from every state (simulation). *)
From Coq Require Import List ZArith NArith Bool Lia ZifyBool ZifyNat ZifyN.
From TM Require Import Lex.Tables Lex.ShiftDfa Lex.ShiftDfa_proofs.
Import ListNotations.
Ltac Zify.zify_post_hook ::= Z.div_mod_to_equations.
Local Open Scope Z_scope.

Lemma first_err_all_zero (step : Z -> Z) l : (forall idx, In idx l -> step idx = 0) ->
  fold_left (fun err idx => if negb (err =? 0) then err else step idx) l 0 = 0.
Proof.
  induction l as [|x l IH]; intro H; cbn [fold_left]; [reflexivity|].
  cbn [Z.eqb negb]. rewrite (H x (or_introl eq_refl)). apply IH. intros idx Hin. apply H. now right.
Qed.

(* the conditions collected in [packed] are not only necessary but sufficient for Pack to accept *)
Lemma packed_pack_ok t s : packed t s -> pack t = PackOk s.
Proof.
  intros [H1 H2 H3 H4 H5 H6 H7]. unfold pack. fold (num_states t).
  replace (num_states t >? 10) with false by lia.
  rewrite H2, H3. cbn [length Nat.eqb negb].
  replace (fst (last (symbol_map t) (0, 0)) >? 128) with false by lia.
  rewrite first_err_all_zero.
  - cbn [Z.eqb negb]. destruct s as [tb eoi]. cbn [sc_table sc_on_eoi] in H6, H7. now rewrite H6, H7.
  - intros idx Hin. apply in_zseq in Hin. destruct (H5 idx Hin) as [e [-> He]].
    destruct (Z.eqb_spec (idx mod num_symbols t) 0) as [E|E]; [|reflexivity].
    rewrite (He E). reflexivity.
Qed.

Theorem pack_ok_iff t s : pack t = PackOk s <-> packed t s.
Proof. split; [apply pack_ok_inv|apply packed_pack_ok]. Qed.

(* decode (pack row) = row: field [st] of the 64-bit row of byte b is the encoded transition of state st on
   the symbol of b: 2*action+1 (odd) for an accepting/error transition, 6*target (even) for a shift *)
Theorem packed_field_is_transition t s : wf24b t = true -> pack t = PackOk s ->
  forall b (st : nat), 0 <= b < 256 -> Z.of_nat st < num_states t ->
  let c := cell t st (lookup_sym (symbol_map t) b) in
  let fld := Z.of_N (N.land (N.shiftr (nth (Z.to_nat b) (sc_table s) 0%N) (6 * N.of_nat st)) 63) in
  (c < 0 -> fld = (-1 - c) * 2 + 1) /\ (0 <= c -> fld = c * 6 /\ c < num_states t).
Proof.
  intros Hwf Hp b st Hb Hst c fld. pose proof (pack_ok_inv t s Hp) as Hpk.
  unfold fld. rewrite (table_field t s Hwf Hpk b st Hb Hst).
  destruct (cell_enc t s Hwf Hpk st _ Hst (sym_range t Hwf b)) as [e [He [Hr [Hneg Hpos]]]].
  unfold enc_cell. fold c in He, Hneg, Hpos |- *. rewrite He. rewrite Z2N.id by lia. split; assumption.
Qed.

(* the on-EOI array holds the action of the EOI transition (symbol 0) of every state *)
Theorem packed_eoi_is_action t s : wf24b t = true -> pack t = PackOk s ->
  forall (st : nat), Z.of_nat st < num_states t ->
  cell t st 0 < 0 /\ Z.of_N (nth st (sc_on_eoi s) 0%N) = -1 - cell t st 0.
Proof.
  intros Hwf Hp st Hst. pose proof (pack_ok_inv t s Hp) as Hpk.
  destruct (wf_facts t Hwf) as (_ & Hns & _ & _ & _ & _ & _).
  pose proof (pk_states t s Hpk) as Hs.
  assert (Hidx : 0 <= Z.of_nat st * num_symbols t + 0 < num_states t * num_symbols t) by nia.
  destruct (pk_cells t s Hpk _ Hidx) as [e [He Hodd]].
  specialize (Hodd ltac:(rewrite Z.add_0_r; apply Z.mod_mul; lia)).
  destruct (enc_target_some _ _ He) as [Hneg Hpos]. fold (cell t st 0) in He, Hneg, Hpos.
  assert (Hc : cell t st 0 < 0).
  { destruct (Z.lt_ge_cases (cell t st 0) 0) as [|Hn]; [assumption|exfalso].
    rewrite (Hpos Hn) in Hodd. rewrite Z.even_mul in Hodd. cbn in Hodd. rewrite orb_true_r in Hodd. discriminate. }
  split; [exact Hc|]. destruct (Hneg Hc) as [-> Hlt].
  rewrite (pk_eoi t s Hpk). rewrite map_seq_nth by lia.
  replace (Z.of_nat st <? num_states t) with true by lia.
  unfold enc_cell. rewrite He. lia.
Qed.

(* simulation: started in ANY state lst of the automaton - the packed scanner holding a row value whose low
   six bits are 6*lst - the shift loop and the table loop return the same size and token *)
Theorem scan_loops_simulate t s : wf24b t = true -> pack t = PackOk s ->
  forall text (lst : nat) state i f,
  (length text < f)%nat -> Z.of_nat lst < num_states t ->
  N.land state 63 = (6 * N.of_nat lst)%N -> Forall (fun b => 0 <= b < 256) text ->
  shift_loop s state i text =
  (fst (scan_loop f t (Z.of_nat lst) i 0 0 text), Z.to_N (snd (scan_loop f t (Z.of_nat lst) i 0 0 text))).
Proof. intros Hwf Hp. apply loop_agree; [exact Hwf|now apply pack_ok_inv]. Qed.
