(* C09, Tier 2: a certificate checker relating the automaton encoded by real lexer tables (Scan.move / Scan.label) to
   the derivative vectors of a rule set (Deriv.v).  `explore` searches the reachable pairs (DFA state, normalised
   derivative vector); `closed_check` re-checks that the set it found is closed and locally consistent — only
   closed_check is proved sound (Bisim_proofs.v).  Executable definitions only. *)
From Coq Require Import List ZArith Bool.
From TM Require Import Lex.Tables Lex.Charset Lex.Scan Lex.Deriv.
Import ListNotations.
Local Open Scope Z_scope.

(* ---- structural equality ---- *)
Fixpoint cs_eqb (a b : charset) : bool :=
  match a, b with
  | [], [] => true
  | (x, y) :: ta, (x', y') :: tb => (x =? x') && (y =? y') && cs_eqb ta tb
  | _, _ => false
  end.

Fixpoint rx_eqb (a b : rx) : bool :=
  match a, b with
  | Void, Void | Eps, Eps => true
  | Sym x, Sym y => cs_eqb x y
  | Cat a1 a2, Cat b1 b2 | Alt a1 a2, Alt b1 b2 => rx_eqb a1 b1 && rx_eqb a2 b2
  | Rep m x r, Rep m' x' r' => (m =? m') && (x =? x') && rx_eqb r r'
  | _, _ => false
  end.

Fixpoint rules_eqb (a b : list srule) : bool :=
  match a, b with
  | [], [] => true
  | (r, x, p) :: ta, (r', x', p') :: tb => rx_eqb r r' && (x =? x') && (p =? p') && rules_eqb ta tb
  | _, _ => false
  end.

(* ---- normalisation of derivatives: alternatives flattened and deduplicated (keeps the explored set finite) ---- *)
Fixpoint alts (r : rx) : list rx :=
  match r with
  | Alt a b => alts a ++ alts b
  | Void => []
  | _ => [r]
  end.

Fixpoint dedupe (l : list rx) : list rx :=
  match l with
  | [] => []
  | x :: t => if existsb (rx_eqb x) t then dedupe t else x :: dedupe t
  end.

Definition mk_alt (l : list rx) : rx := fold_right alt Void l.

Fixpoint norm (r : rx) : rx :=
  match r with
  | Alt a b => mk_alt (dedupe (alts (norm a) ++ alts (norm b)))
  | Cat a b => cat (norm a) b
  | _ => r
  end.

Definition norm_rules (rs : list srule) : list srule := map (fun '(r, a, p) => (norm r, a, p)) rs.

(* ---- the symbol map as intervals (lo, hi, class), clipped to the symbols a text can contain ---- *)
Definition max_sym (bytes : bool) : Z := if bytes then 255 else 1114111.

Fixpoint ivs (mx : Z) (m : list (Z * Z)) : list (Z * Z * Z) :=
  match m with
  | [] => []
  | (s, t) :: rest =>
      match rest with
      | [] => [(s, mx, t)]
      | (s', _) :: _ => (s, (if s' - 1 <? mx then s' - 1 else mx), t) :: ivs mx rest
      end
  end.

Fixpoint sorted_fromb (prev : Z) (m : list (Z * Z)) : bool :=
  match m with
  | [] => true
  | (s, _) :: rest => (prev <? s) && sorted_fromb s rest
  end.

Definition sorted_mapb (m : list (Z * Z)) : bool :=
  match m with
  | (s0, _) :: rest => (s0 =? 0) && sorted_fromb 0 rest
  | [] => false
  end.

(* every class of the expression is constant on [lo, hi] *)
Definition uniform_cs (lo hi : Z) (cs : charset) : bool :=
  existsb (fun p => (fst p <=? lo) && (hi <=? snd p)) cs || forallb (fun p => (hi <? fst p) || (snd p <? lo)) cs.

Fixpoint uniform_rx (lo hi : Z) (r : rx) : bool :=
  match r with
  | Sym cs => uniform_cs lo hi cs
  | Cat a b | Alt a b => uniform_rx lo hi a && uniform_rx lo hi b
  | Rep _ _ s => uniform_rx lo hi s
  | _ => true
  end.

(* ---- local consistency ---- *)
Definition accept_act (vec : list srule) : Z :=
  match best_accept vec None with Some (a, _) => a | None => 0 end.

Definition actions_nonzero (rules : list srule) : bool := forallb (fun '(_, a, _) => negb (a =? 0)) rules.

Definition local_ok (t : tables) (s : Z) (vec : list srule) : bool :=
  (label t s =? accept_act vec) && actions_nonzero vec.

(* joint run on end-of-input markers, at most k moves *)
Fixpoint eoi_chk (k : nat) (t : tables) (s : Z) (vec : list srule) : bool :=
  local_ok t s vec &&
  let vec' := step_rules eoi_sym vec in
  match move t s 0 with
  | None => negb (viable vec')
  | Some s' => viable vec' && match k with O => false | S k' => eoi_chk k' t s' vec' end
  end.

Definition eoi_depth (t : tables) : nat := Nat.min 4 (Z.to_nat (nstates t)).

Definition pair := (Z * list srule)%type.
Definition pair_eqb (a b : pair) : bool := (fst a =? fst b) && rules_eqb (snd a) (snd b).
Definition in_seen (p : pair) (seen : list pair) : bool := existsb (pair_eqb p) seen.

Definition trans_ok (t : tables) (seen : list pair) (s : Z) (vec : list srule) (iv : Z * Z * Z) : bool :=
  let '(lo, hi, tg) := iv in
  (hi <? lo) ||
  (forallb (fun '(r, _, _) => uniform_rx lo hi r) vec &&
   let vec' := step_rules lo vec in
   match move t s tg with
   | None => negb (viable vec')
   | Some s' => viable vec' && in_seen (s', norm_rules vec') seen
   end).

Definition pair_ok (t : tables) (seen : list pair) (p : pair) : bool :=
  let '(s, vec) := p in
  local_ok t s vec && eoi_chk (eoi_depth t) t s vec &&
  forallb (trans_ok t seen s vec) (ivs (max_sym (scan_bytes t)) (symbol_map t)).

Definition closed_check (t : tables) (seen : list pair) : bool :=
  sorted_mapb (symbol_map t) && forallb (pair_ok t seen) seen.

(* ---- exploration (not verified: it only proposes the certificate) ---- *)
Fixpoint explore (fuel budget : nat) (t : tables) (todo seen : list pair) : option (list pair) :=
  match fuel with
  | O => None
  | S f =>
      match todo with
      | [] => Some seen
      | (s, vec) :: rest =>
          if in_seen (s, vec) seen then explore f budget t rest seen
          else
            match budget with
            | O => None                  (* more than `budget` distinct pairs: give up *)
            | S budget' =>
                let succs := flat_map (fun '(lo, hi, tg) =>
                    if hi <? lo then [] else
                    match move t s tg with
                    | Some s' => let vec' := step_rules lo vec in if viable vec' then [(s', norm_rules vec')] else []
                    | None => []
                    end) (ivs (max_sym (scan_bytes t)) (symbol_map t)) in
                explore f budget' t (succs ++ rest) ((s, vec) :: seen)
            end
      end
  end.

(* result: 0 = proved bisimilar (certificate accepted); 1 = exploration gave up (cap);
   2 = certificate rejected for a reason that is not a difference (classes not uniform on a symbol-map interval,
       end-of-input chain longer than the depth, symbol map not sorted);
   3 = accepting labels differ at a reachable pair; 4 = a move exists on one side only *)
Definition diagnose (t : tables) (seen : list pair) : Z :=
  if negb (sorted_mapb (symbol_map t)) then 2
  else if negb (forallb (fun '(s, vec) => label t s =? accept_act vec) seen) then 3
  else if negb (forallb (fun '(s, vec) => forallb (fun '(lo, hi, tg) =>
            (hi <? lo) || Bool.eqb (match move t s tg with Some _ => true | None => false end) (viable (step_rules lo vec)))
            (ivs (max_sym (scan_bytes t)) (symbol_map t))) seen) then 4
  else 2.

Definition check_bisim (cap : nat) (t : tables) (rules : list srule) (sc : Z) : Z :=
  let start := (nthZ (state_map t) sc, norm_rules rules) in
  match explore (cap * 128) cap t [start] [] with
  | None => 1
  | Some seen => if closed_check t seen && in_seen start seen then 0 else diagnose t seen
  end.

(* the statement-level form used by the theorem *)
Definition bisim_cert (t : tables) (rules : list srule) (sc : Z) (seen : list pair) : bool :=
  closed_check t seen && in_seen (nthZ (state_map t) sc, norm_rules rules) seen.
