(* C09: the derivative-based specification matcher (Deriv.v) is correct with respect to the declarative semantics
   (DerivSem.v): nullable, deriv, nonvoid, and spec_scan. *)
From Coq Require Import List ZArith Bool Lia.
From TM Require Import Lex.Tables Lex.Charset Lex.RegexParse Lex.RegexParse_proofs Lex.Deriv Lex.DerivSem.
Import ListNotations.
Local Open Scope Z_scope.

(* ---------- inductive and denotational semantics coincide ---------- *)
Lemma lang_matches r : forall w, lang r w -> matches r w.
Proof.
  induction r as [| |cs|a IHa b IHb|a IHa b IHb|mn mx s IHs]; intros w H; cbn [lang] in H.
  - contradiction.
  - subst. constructor.
  - destruct H as (c & -> & Hc). constructor. exact Hc.
  - destruct H as (u & v & -> & Hu & Hv). constructor; auto.
  - destruct H as [H|H]; [apply MAltL|apply MAltR]; auto.
  - destruct H as (ws & -> & HF & Hc). constructor; [|exact Hc].
    eapply Forall_impl; [|exact HF]. exact IHs.
Qed.

Fixpoint matches_lang r w (H : matches r w) {struct H} : lang r w.
Proof.
  destruct H as [|cs c Hc|a b u v Ha Hb|a b w Ha|a b w Hb|mn mx s ws HF Hc]; cbn [lang].
  - reflexivity.
  - exists c. split; [reflexivity|exact Hc].
  - exists u, v. split; [reflexivity|]. split; apply matches_lang; assumption.
  - left. apply matches_lang; assumption.
  - right. apply matches_lang; assumption.
  - exists ws. split; [reflexivity|]. split; [|exact Hc].
    clear Hc. revert ws HF. fix go 2. intros ws HF. destruct HF as [|x l Hx Hl].
    + constructor.
    + constructor; [apply matches_lang; exact Hx|apply go; exact Hl].
Qed.

Lemma matches_iff_lang r w : matches r w <-> lang r w.
Proof. split; [apply matches_lang|apply lang_matches]. Qed.

(* ---------- nullable ---------- *)
Lemma concat_nil_inv {A} (ws : list (list A)) : concat ws = [] -> Forall (fun w => w = []) ws.
Proof.
  induction ws as [|w ws IH]; intros H; [constructor|]. cbn [concat] in H. apply app_eq_nil in H. destruct H as [H1 H2].
  constructor; auto.
Qed.

Lemma concat_repeat_nil {A} n : concat (repeat (@nil A) n) = [].
Proof. induction n; [reflexivity|]. cbn [repeat concat]. exact IHn. Qed.

Lemma Forall_repeat {A} (P : A -> Prop) x n : P x -> Forall P (repeat x n).
Proof. intros H. induction n; cbn [repeat]; constructor; auto. Qed.

(* a count admitted by the bounds exists whenever the bounds are used with a nullable / nonvoid body *)
Lemma rep_count_exists mn mx : exists k : nat, rep_count mn mx (Z.of_nat k).
Proof.
  destruct (Z.ltb_spec mx 0).
  - exists (Z.to_nat (Z.max 0 mn)). unfold rep_count. lia.
  - exists (Z.to_nat mx). unfold rep_count. lia.
Qed.

Lemma nullable_lang r : nullable r = true <-> lang r [].
Proof.
  induction r as [| |cs|a IHa b IHb|a IHa b IHb|mn mx s IHs]; cbn [nullable lang].
  - split; [discriminate|contradiction].
  - split; auto.
  - split; [discriminate|]. intros (c & H & _). discriminate.
  - rewrite andb_true_iff, IHa, IHb. split.
    + intros [Ha Hb]. exists [], []. auto.
    + intros (u & v & E & Ha & Hb). symmetry in E. apply app_eq_nil in E. destruct E; subst. auto.
  - rewrite orb_true_iff, IHa, IHb. reflexivity.
  - rewrite !orb_true_iff, IHs, Z.leb_le, Z.eqb_eq. split.
    + intros [[H|H]|H].
      * exists []. split; [reflexivity|]. split; [constructor|]. unfold rep_count. cbn [length]. lia.
      * exists []. split; [reflexivity|]. split; [constructor|]. unfold rep_count. cbn [length]. lia.
      * destruct (rep_count_exists mn mx) as [k Hk]. exists (repeat [] k).
        rewrite concat_repeat_nil, repeat_length. split; [reflexivity|]. split; [|exact Hk]. apply Forall_repeat. exact H.
    + intros (ws & E & HF & Hc). destruct ws as [|w ws].
      * unfold rep_count in Hc. cbn [length] in Hc. lia.
      * right. symmetry in E. apply concat_nil_inv in E. inversion E; subst. inversion HF; subst. assumption.
Qed.

Theorem nullable_correct r : nullable r = true <-> matches r [].
Proof. rewrite matches_iff_lang. apply nullable_lang. Qed.

(* ---------- smart constructors ---------- *)
Lemma lang_cat a b w : lang (cat a b) w <-> lang (Cat a b) w.
Proof.
  assert (Hv : forall x, lang (Cat x Void) w <-> False).
  { intros x. cbn [lang]. split; [|contradiction]. intros (u & v & _ & _ & H). exact H. }
  assert (He : forall x, lang (Cat x Eps) w <-> lang x w).
  { intros x. cbn [lang]. split.
    - intros (u & v & -> & Hu & ->). rewrite app_nil_r. exact Hu.
    - intros H. exists w, []. rewrite app_nil_r. auto. }
  assert (Hl : forall x, lang (Cat Eps x) w <-> lang x w).
  { intros x. cbn [lang]. split.
    - intros (u & v & -> & -> & Hv'). exact Hv'.
    - intros H. exists [], w. auto. }
  assert (Hvl : forall x, lang (Cat Void x) w <-> False).
  { intros x. cbn [lang]. split; [|contradiction]. intros (u & v & _ & H & _). exact H. }
  destruct a, b; cbn [cat]; try reflexivity; try (rewrite Hvl; cbn [lang]; tauto); try (rewrite Hv; cbn [lang]; tauto);
    try (rewrite Hl; reflexivity); try (rewrite He; reflexivity).
Qed.

Lemma lang_alt a b w : lang (alt a b) w <-> lang (Alt a b) w.
Proof.
  destruct a; cbn [alt]; try (cbn [lang]; tauto); destruct b; cbn [lang]; tauto.
Qed.

(* ---------- derivatives ---------- *)
(* a repetition matching a non-empty word can be arranged so that its first copy is non-empty *)
Lemma rep_first_nonempty (P : list Z -> Prop) c : forall ws w, Forall P ws -> c :: w = concat ws ->
  exists u ws', P (c :: u) /\ Forall P ws' /\ w = u ++ concat ws' /\ length ws = S (length ws').
Proof.
  induction ws as [|x ws IH]; intros w HF E; [discriminate|].
  inversion HF as [|? ? Hx HF']; subst. destruct x as [|c' u].
  - cbn [concat app] in E. destruct (IH w HF' E) as (u & ws' & Hu & Hws' & Ew & El).
    exists u, (ws' ++ [[]]). split; [exact Hu|]. split; [apply Forall_app; split; [exact Hws'|constructor; [exact Hx|constructor]]|].
    split.
    + rewrite concat_app. cbn [concat]. rewrite !app_nil_r. exact Ew.
    + rewrite app_length. cbn [length]. lia.
  - cbn [concat] in E. inversion E; subst. exists u, ws. auto.
Qed.

Lemma deriv_lang r : forall c w, lang (deriv c r) w <-> lang r (c :: w).
Proof.
  induction r as [| |cs|a IHa b IHb|a IHa b IHb|mn mx s IHs]; intros c w; cbn [deriv].
  - cbn [lang]. tauto.
  - cbn [lang]. split; [contradiction|discriminate].
  - destruct (mem c cs) eqn:Em; cbn [lang].
    + split; [intros ->; exists c; auto|]. intros (c' & E & _). inversion E; reflexivity.
    + split; [contradiction|]. intros (c' & E & Hm). inversion E; subst. congruence.
  - rewrite lang_alt. cbn [lang]. rewrite lang_cat. cbn [lang]. split.
    + intros [(u & v & -> & Hu & Hv)|H].
      * exists (c :: u), v. rewrite <- IHa. auto.
      * destruct (nullable a) eqn:En; [|contradiction]. exists [], (c :: w). rewrite <- IHb, <- nullable_lang. auto.
    + intros (u & v & E & Hu & Hv). destruct u as [|c' u].
      * right. cbn [app] in E. subst v. apply nullable_lang in Hu. rewrite Hu. apply IHb. exact Hv.
      * left. cbn [app] in E. inversion E; subst. exists u, v. rewrite IHa. auto.
  - rewrite lang_alt. cbn [lang]. rewrite IHa, IHb. reflexivity.
  - destruct (Z.eqb_spec mx 0) as [E0|N0].
    + cbn [lang]. split; [contradiction|]. intros (ws & E & HF & Hc). destruct ws as [|x ws]; [discriminate|].
      unfold rep_count in Hc. cbn [length] in Hc. lia.
    + rewrite lang_cat. cbn [lang]. split.
      * intros (u & v & -> & Hu & ws & -> & HF & Hc). exists ((c :: u) :: ws). split; [reflexivity|].
        split; [constructor; [apply IHs; exact Hu|exact HF]|].
        unfold rep_count in *. cbn [length]. destruct (Z.ltb_spec mx 0); lia.
      * intros (ws & E & HF & Hc). destruct (rep_first_nonempty (lang s) c ws w HF E) as (u & ws' & Hu & Hws' & Ew & El).
        exists u, (concat ws'). split; [exact Ew|]. split; [apply IHs; exact Hu|].
        exists ws'. split; [reflexivity|]. split; [exact Hws'|].
        unfold rep_count in *. rewrite El in Hc. destruct (Z.ltb_spec mx 0); lia.
Qed.

Theorem deriv_correct r c w : matches (deriv c r) w <-> matches r (c :: w).
Proof. rewrite !matches_iff_lang. apply deriv_lang. Qed.

Lemma derivs_correct u : forall r w, matches (derivs u r) w <-> matches r (u ++ w).
Proof.
  induction u as [|c u IH]; intros r w; [reflexivity|].
  unfold derivs in *. cbn [fold_left app]. rewrite IH. apply deriv_correct.
Qed.

(* the matcher: a word is matched iff its iterated derivative is nullable *)
Corollary derivs_nullable r w : nullable (derivs w r) = true <-> matches r w.
Proof. rewrite nullable_correct, derivs_correct, app_nil_r. reflexivity. Qed.

(* ---------- nonvoid ---------- *)
Lemma concat_repeat_lang (P : list Z -> Prop) w k : P w -> Forall P (repeat w k).
Proof. apply Forall_repeat. Qed.

Lemma nonvoid_lang r : nonvoid r = true <-> exists w, lang r w.
Proof.
  induction r as [| |cs|a IHa b IHb|a IHa b IHb|mn mx s IHs]; cbn [nonvoid lang].
  - split; [discriminate|]. intros (w & H). destruct H.
  - split; eauto.
  - rewrite existsb_exists. split.
    + intros ((lo, hi) & Hin & Hle). cbn [fst snd] in Hle. exists [lo], lo. split; [reflexivity|].
      unfold mem. apply existsb_exists. exists (lo, hi). split; [exact Hin|]. unfold in_range. cbn [fst snd].
      apply Z.leb_le in Hle. apply andb_true_iff. split; apply Z.leb_le; lia.
    + intros (w & c & _ & Hm). unfold mem in Hm. apply existsb_exists in Hm. destruct Hm as (p & Hin & Hr).
      exists p. split; [exact Hin|]. unfold in_range in Hr. apply andb_true_iff in Hr. destruct Hr as [H1 H2].
      apply Z.leb_le in H1, H2. apply Z.leb_le. lia.
  - rewrite andb_true_iff, IHa, IHb. split.
    + intros [(u & Hu) (v & Hv)]. exists (u ++ v), u, v. auto.
    + intros (w & u & v & _ & Hu & Hv). eauto.
  - rewrite orb_true_iff, IHa, IHb. split.
    + intros [(w & H)|(w & H)]; exists w; auto.
    + intros (w & [H|H]); eauto.
  - rewrite !orb_true_iff, IHs, Z.leb_le, Z.eqb_eq. split.
    + intros [[H|H]|(w & H)].
      * exists [], []. split; [reflexivity|]. split; [constructor|]. unfold rep_count. cbn [length]. lia.
      * exists [], []. split; [reflexivity|]. split; [constructor|]. unfold rep_count. cbn [length]. lia.
      * destruct (rep_count_exists mn mx) as [k Hk]. exists (concat (repeat w k)), (repeat w k).
        rewrite repeat_length. split; [reflexivity|]. split; [apply Forall_repeat; exact H|exact Hk].
    + intros (w & ws & _ & HF & Hc). destruct ws as [|x ws].
      * unfold rep_count in Hc. cbn [length] in Hc. lia.
      * right. inversion HF; subst. eauto.
Qed.

Theorem nonvoid_correct r : nonvoid r = true <-> exists w, matches r w.
Proof.
  rewrite nonvoid_lang. split; intros (w & H); exists w; apply matches_iff_lang; exact H.
Qed.

(* ---------- the translation of the parsed AST preserves its language ---------- *)
Lemma re_ind' (P : re -> Prop) :
  (forall b text off, P (RLit b text off)) -> (forall cs off, P (RCC cs off)) ->
  (forall mn mx s, P s -> P (RRep mn mx s)) ->
  (forall l, Forall P l -> P (RCat l)) -> (forall l, Forall P l -> P (RAlt l)) ->
  (forall name off, P (RExt name off)) -> forall r, P r.
Proof.
  intros H1 H2 H3 H4 H5 H6. fix go 1. intros r. destruct r as [b text off|cs off|mn mx s|l|l|name off].
  - apply H1.
  - apply H2.
  - apply H3. apply go.
  - apply H4. induction l as [|x l IH]; constructor; [apply go|exact IH].
  - apply H5. induction l as [|x l IH]; constructor; [apply go|exact IH].
  - apply H6.
Qed.

Lemma mem_single c x : mem c [(x, x)] = true <-> c = x.
Proof.
  unfold mem, in_range. cbn [existsb fst snd]. rewrite orb_false_r, andb_true_iff, !Z.leb_le. lia.
Qed.

Lemma lang_lit syms : forall w, lang (fold_right (fun c acc => cat (Sym [(c, c)]) acc) Eps syms) w <-> w = syms.
Proof.
  induction syms as [|c syms IH]; intros w; cbn [fold_right].
  - cbn [lang]. reflexivity.
  - rewrite lang_cat. cbn [lang]. split.
    + intros (u & v & -> & (c' & -> & Hm) & Hv). apply mem_single in Hm. apply IH in Hv. subst. reflexivity.
    + intros ->. exists [c], syms. split; [reflexivity|]. split; [exists c; split; [reflexivity|apply mem_single; reflexivity]|apply IH; reflexivity].
Qed.

Theorem rx_of_correct r : forall w, lang (rx_of r) w <-> re_lang r w.
Proof.
  induction r as [b text off|cs off|mn mx s IH|l IH|l IH|name off] using re_ind'; intros w.
  - cbn [rx_of re_lang]. apply lang_lit.
  - reflexivity.
  - cbn [rx_of re_lang lang]. split; intros (ws & E & HF & Hc); exists ws; (split; [exact E|]); (split; [|exact Hc]);
      (eapply Forall_impl; [|exact HF]); intros x Hx; apply IH; exact Hx.
  - cbn [rx_of re_lang]. revert w. induction IH as [|x l Hx _ IHl]; intros w.
    + reflexivity.
    + rewrite lang_cat. cbn [lang]. split; intros (u & v & E & Hu & Hv); exists u, v; (split; [exact E|]);
        (split; [apply Hx; exact Hu|apply IHl; exact Hv]).
  - cbn [rx_of re_lang]. induction IH as [|x l Hx _ IHl].
    + reflexivity.
    + rewrite lang_alt. cbn [lang]. rewrite Hx, IHl. reflexivity.
  - cbn [rx_of re_lang]. destruct (list_eq_dec Z.eq_dec name [101; 111; 105]) as [E|N]; cbn [lang].
    + split.
      * intros (c & -> & Hm). apply mem_single in Hm. subst. auto.
      * intros (_ & ->). exists eoi_sym. split; [reflexivity|apply mem_single; reflexivity].
    + split; [contradiction|]. intros (E & _). contradiction.
Qed.

Corollary rx_of_matches r w : matches (rx_of r) w <-> re_lang r w.
Proof. rewrite matches_iff_lang. apply rx_of_correct. Qed.
