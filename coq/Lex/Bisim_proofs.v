(* C09, Tier 2: soundness of the bisimulation certificate checker (Bisim.closed_check): if the certificate is accepted,
   the reference run of the automaton encoded by the tables equals the derivative-based specification on EVERY text. *)
From Coq Require Import List ZArith Bool Lia.
From TM Require Import Lib.ListX Lex.Tables Lex.Charset Lex.Charset_proofs Lex.RegexParse Lex.RegexParse_proofs Lex.Scan Lex.Scan_proofs
  Lex.Deriv Lex.DerivSem Lex.Deriv_proofs Lex.Deriv_scan_proofs Lex.LexerMaps_proofs Lex.Bisim.
Import ListNotations.
Local Open Scope Z_scope.

(* ---------- structural equality ---------- *)
Lemma cs_eqb_eq a : forall b, cs_eqb a b = true -> a = b.
Proof.
  induction a as [|[x y] ta IH]; destruct b as [|[x' y'] tb]; cbn [cs_eqb]; try discriminate; [reflexivity|].
  intros H. apply andb_true_iff in H. destruct H as [H H3]. apply andb_true_iff in H. destruct H as [H1 H2].
  apply Z.eqb_eq in H1, H2. subst. f_equal. apply IH. exact H3.
Qed.

Lemma rx_eqb_eq a : forall b, rx_eqb a b = true -> a = b.
Proof.
  induction a as [| |cs|a1 IH1 a2 IH2|a1 IH1 a2 IH2|mn mx s IH]; destruct b; cbn [rx_eqb]; try discriminate; intros H.
  - reflexivity.
  - reflexivity.
  - f_equal. apply cs_eqb_eq. exact H.
  - apply andb_true_iff in H. destruct H as [H1 H2]. f_equal; [apply IH1|apply IH2]; assumption.
  - apply andb_true_iff in H. destruct H as [H1 H2]. f_equal; [apply IH1|apply IH2]; assumption.
  - apply andb_true_iff in H. destruct H as [H H3]. apply andb_true_iff in H. destruct H as [H1 H2].
    apply Z.eqb_eq in H1, H2. subst. f_equal. apply IH. exact H3.
Qed.

Lemma rules_eqb_eq a : forall b, rules_eqb a b = true -> a = b.
Proof.
  induction a as [|[[r x] p] ta IH]; destruct b as [|[[r' x'] p'] tb]; cbn [rules_eqb]; try discriminate; [reflexivity|].
  intros H. apply andb_true_iff in H. destruct H as [H H4]. apply andb_true_iff in H. destruct H as [H H3].
  apply andb_true_iff in H. destruct H as [H1 H2]. apply rx_eqb_eq in H1. apply Z.eqb_eq in H2, H3. subst. f_equal. apply IH. exact H4.
Qed.

(* ---------- normalisation preserves the language ---------- *)
Lemma lang_mk_alt l w : lang (mk_alt l) w <-> exists x, In x l /\ lang x w.
Proof.
  induction l as [|y t IH]; unfold mk_alt; cbn [fold_right].
  - cbn [lang]. split; [contradiction|]. intros (x & [] & _).
  - rewrite lang_alt. cbn [lang]. fold (mk_alt t). rewrite IH. split.
    + intros [H|(x & Hin & H)]; [exists y; split; [left; reflexivity|exact H]|exists x; split; [right; exact Hin|exact H]].
    + intros (x & [<-|Hin] & H); [left; exact H|right; exists x; auto].
Qed.

Lemma lang_alts r w : (exists x, In x (alts r) /\ lang x w) <-> lang r w.
Proof.
  induction r as [| |cs|a IHa b IHb|a IHa b IHb|mn mx s IHs]; cbn [alts];
    try (split; [intros (x & [<-|[]] & H); exact H|intros H; eexists; split; [left; reflexivity|exact H]]).
  - split; [intros (x & [] & _)|intros []].
  - cbn [lang]. rewrite <- IHa, <- IHb. split.
    + intros (x & Hin & H). apply in_app_or in Hin. destruct Hin as [Hin|Hin]; [left|right]; exists x; auto.
    + intros [(x & Hin & H)|(x & Hin & H)]; exists x; (split; [apply in_or_app; auto|exact H]).
Qed.

Lemma in_dedupe x l : In x (dedupe l) <-> In x l.
Proof.
  induction l as [|y t IH]; [reflexivity|]. cbn [dedupe]. destruct (existsb (rx_eqb y) t) eqn:E.
  - rewrite IH. split; [right; assumption|]. intros [<-|H]; [|exact H].
    apply existsb_exists in E. destruct E as (z & Hz & Ez). apply rx_eqb_eq in Ez. subst. exact Hz.
  - cbn [In]. rewrite IH. reflexivity.
Qed.

Lemma norm_lang r : forall w, lang (norm r) w <-> lang r w.
Proof.
  induction r as [| |cs|a IHa b IHb|a IHa b IHb|mn mx s IHs]; intros w; cbn [norm]; try reflexivity.
  - rewrite lang_cat. cbn [lang]. split; intros (u & v & E & Hu & Hv); exists u, v; (split; [exact E|]); (split; [apply IHa; exact Hu|exact Hv]).
  - rewrite lang_mk_alt. cbn [lang]. rewrite <- (IHa w), <- (IHb w), <- (lang_alts (norm a) w), <- (lang_alts (norm b) w). split.
    + intros (x & Hin & H). apply (proj1 (in_dedupe _ _)) in Hin. apply in_app_or in Hin. destruct Hin as [Hin|Hin]; [left|right]; exists x; auto.
    + intros [(x & Hin & H)|(x & Hin & H)]; exists x; (split; [apply (proj2 (in_dedupe _ _)); apply in_or_app; auto|exact H]).
Qed.

(* ---------- rule vectors up to language equivalence ---------- *)
Definition req1 (x y : srule) : Prop :=
  snd (fst x) = snd (fst y) /\ snd x = snd y /\ forall w, lang (fst (fst x)) w <-> lang (fst (fst y)) w.
Definition req : list srule -> list srule -> Prop := Forall2 req1.

Lemma req_trans a b c : req a b -> req b c -> req a c.
Proof.
  intros H1. revert c. induction H1 as [|x y ta tb Hxy _ IH]; intros c H2.
  - inversion H2. constructor.
  - inversion H2 as [|y' z tb' tc Hyz Ht]; subst. constructor; [|apply IH; exact Ht].
    destruct Hxy as (A1 & P1 & L1). destruct Hyz as (A2 & P2 & L2). repeat split; try congruence.
    + intros H. apply L2, L1, H.
    + intros H. apply L1, L2, H.
Qed.

Lemma req_norm vec : req vec (norm_rules vec).
Proof.
  induction vec as [|[[r a] p] t IH]; cbn [norm_rules map]; constructor; [|exact IH].
  repeat split; cbn [fst snd]; intros H; apply norm_lang; exact H.
Qed.

Lemma req_step c rs vec : req rs vec -> req (step_rules c rs) (step_rules c vec).
Proof.
  induction 1 as [|[[r a] p] [[r' a'] p'] rs vec (A & P & L) _ IH]; unfold step_rules; cbn [map]; constructor; [|exact IH].
  cbn [fst snd] in *. subst. repeat split; cbn [fst snd]; intros H; apply deriv_lang; apply deriv_lang in H; apply L; exact H.
Qed.

Lemma bool_iff (a b : bool) : (a = true <-> b = true) -> a = b.
Proof. destruct a, b; intros [H1 H2]; try reflexivity; [symmetry; apply H1; reflexivity|apply H2; reflexivity]. Qed.

Lemma req_best rs vec : req rs vec -> forall best, best_accept rs best = best_accept vec best.
Proof.
  induction 1 as [|[[r a] p] [[r' a'] p'] rs vec (A & P & L) _ IH]; intros best; [reflexivity|].
  cbn [best_accept]. cbn [fst snd] in *. subst.
  assert (E : nullable r = nullable r') by (apply bool_iff; rewrite !nullable_lang; apply L). rewrite E. apply IH.
Qed.

Lemma req_viable rs vec : req rs vec -> viable rs = viable vec.
Proof.
  unfold viable. induction 1 as [|[[r a] p] [[r' a'] p'] rs vec (A & P & L) _ IH]; [reflexivity|].
  cbn [existsb]. cbn [fst snd] in *. rewrite IH. f_equal. apply bool_iff. rewrite !nonvoid_lang.
  split; intros (w & H); exists w; apply L; exact H.
Qed.

(* ---------- class uniformity ---------- *)
Lemma uniform_cs_mem lo hi cs c : uniform_cs lo hi cs = true -> lo <= c <= hi -> mem c cs = mem lo cs.
Proof.
  unfold uniform_cs. intros H Hc. apply orb_true_iff in H. destruct H as [H|H].
  - apply existsb_exists in H. destruct H as (p & Hin & Hp). apply andb_true_iff in Hp. destruct Hp as [H1 H2].
    apply Z.leb_le in H1, H2.
    assert (E1 : mem c cs = true) by (apply existsb_exists; exists p; split; [exact Hin|unfold in_range; apply andb_true_iff; split; apply Z.leb_le; lia]).
    assert (E2 : mem lo cs = true) by (apply existsb_exists; exists p; split; [exact Hin|unfold in_range; apply andb_true_iff; split; apply Z.leb_le; lia]).
    rewrite E1, E2. reflexivity.
  - assert (E : forall x, lo <= x <= hi -> mem x cs = false).
    { intros x Hx. destruct (mem x cs) eqn:Em; [|reflexivity]. apply existsb_exists in Em. destruct Em as (p & Hin & Hp).
      rewrite forallb_forall in H. specialize (H p Hin). unfold in_range in Hp. apply andb_true_iff in Hp. destruct Hp as [H1 H2].
      apply Z.leb_le in H1, H2. apply orb_true_iff in H. destruct H as [H|H]; apply Z.ltb_lt in H; lia. }
    rewrite (E c Hc), (E lo ltac:(lia)). reflexivity.
Qed.

Lemma uniform_deriv lo hi c r : uniform_rx lo hi r = true -> lo <= c <= hi -> deriv c r = deriv lo r.
Proof.
  intros H Hc. induction r as [| |cs|a IHa b IHb|a IHa b IHb|mn mx s IHs]; cbn [deriv uniform_rx] in *; try reflexivity.
  - rewrite (uniform_cs_mem lo hi cs c H Hc). reflexivity.
  - apply andb_true_iff in H. destruct H as [H1 H2]. rewrite (IHa H1), (IHb H2). reflexivity.
  - apply andb_true_iff in H. destruct H as [H1 H2]. rewrite (IHa H1), (IHb H2). reflexivity.
  - rewrite (IHs H). reflexivity.
Qed.

Lemma uniform_step lo hi c vec : forallb (fun '(r, _, _) => uniform_rx lo hi r) vec = true -> lo <= c <= hi ->
  step_rules c vec = step_rules lo vec.
Proof.
  intros H Hc. induction vec as [|[[r a] p] t IH]; [reflexivity|]. cbn [forallb] in H. apply andb_true_iff in H. destruct H as [H1 H2].
  unfold step_rules in *. cbn [map]. rewrite (uniform_deriv lo hi c r H1 Hc), (IH H2). reflexivity.
Qed.

(* ---------- the symbol map as intervals ---------- *)
Lemma sorted_fromb_ok m : forall p, sorted_fromb p m = true -> sorted_from p m.
Proof.
  induction m as [|[s t] rest IH]; intros p H; [exact I|]. cbn [sorted_fromb] in H. apply andb_true_iff in H. destruct H as [H1 H2].
  apply Z.ltb_lt in H1. cbn [sorted_from]. split; [exact H1|apply IH; exact H2].
Qed.

Lemma ivs_lookup mx rest : forall s0 t0 c, sorted_from s0 rest -> s0 <= c <= mx ->
  exists lo hi tg, In (lo, hi, tg) (ivs mx ((s0, t0) :: rest)) /\ lo <= c <= hi /\ lookup_sym ((s0, t0) :: rest) c = tg.
Proof.
  induction rest as [|[s1 t1] rest IH]; intros s0 t0 c Hs Hc.
  - exists s0, mx, t0. split; [left; reflexivity|]. split; [lia|reflexivity].
  - cbn [sorted_from] in Hs. destruct Hs as [H1 H2].
    change (ivs mx ((s0, t0) :: (s1, t1) :: rest)) with ((s0, (if s1 - 1 <? mx then s1 - 1 else mx), t0) :: ivs mx ((s1, t1) :: rest)).
    change (lookup_sym ((s0, t0) :: (s1, t1) :: rest) c) with (if s1 >? c then t0 else lookup_sym ((s1, t1) :: rest) c).
    rewrite Z.gtb_ltb. destruct (Z.ltb_spec c s1) as [Hlt|Hge].
    + exists s0, (if s1 - 1 <? mx then s1 - 1 else mx), t0. split; [left; reflexivity|]. split; [destruct (Z.ltb_spec (s1 - 1) mx); lia|reflexivity].
    + destruct (IH s1 t1 c H2 ltac:(lia)) as (lo & hi & tg & Hin & Hr & Hl). exists lo, hi, tg. split; [right; exact Hin|]. split; assumption.
Qed.

(* ---------- decoded symbols are within the symbol range ---------- *)
Definition bytes_ok (text : list Z) : Prop := Forall (fun b => 0 <= b <= 255) text.

Lemma decode_b_range bytes text : text <> [] -> bytes_ok text -> 0 <= fst (decode_b bytes text) <= max_sym bytes.
Proof.
  intros Hne HF. destruct text as [|b0 r]; [congruence|]. inversion HF as [|? ? Hb0 _]; subst.
  unfold decode_b. destruct bytes; [cbn [fst]; unfold max_sym; lia|].
  unfold decode_rune, cont, rune_error, max_sym. cbv zeta.
  repeat match goal with
  | |- context [match ?l with [] => _ | _ :: _ => _ end] => destruct l
  | |- context [if ?c then _ else _] => destruct c eqn:?
  end; cbn [fst];
  repeat match goal with H : _ && _ = true |- _ => apply andb_true_iff in H; destruct H end;
  rewrite ?Z.ltb_lt, ?Z.ltb_ge, ?Z.leb_le, ?Z.eqb_eq, ?Z.eqb_neq in *; try lia;
  repeat match goal with H : context [if ?a =? ?b then _ else _] |- _ => destruct (Z.eqb_spec a b) end; lia.
Qed.

(* ---------- local agreement ---------- *)
Lemma best_accept_in vec a p : best_accept vec None = Some (a, p) -> exists r, In (r, a, p) vec.
Proof.
  intros E. pose proof (best_accept_inv vec [] None) as H. cbn [app] in H. rewrite E in H.
  destruct H as (idx & r & Hn & _); [intros ? ? ? []|]. exists r. eapply nth_error_In. exact Hn.
Qed.

Lemma req_actions rs vec : req rs vec -> actions_nonzero vec = true -> actions_nonzero rs = true.
Proof.
  unfold actions_nonzero. induction 1 as [|[[r a] p] [[r' a'] p'] rs vec (A & P & L) _ IH]; [reflexivity|].
  cbn [forallb fst snd] in *. subst. intros H. apply andb_true_iff in H. destruct H as [H1 H2]. rewrite H1, (IH H2). reflexivity.
Qed.

Lemma local_agree t s vec rs pos last : local_ok t s vec = true -> req rs vec -> upd t s pos last = accept_here rs pos last.
Proof.
  unfold local_ok, accept_act, upd, accept_here. intros H Hr. apply andb_true_iff in H. destruct H as [Hl Hnz]. apply Z.eqb_eq in Hl.
  rewrite (req_best rs vec Hr None). destruct (best_accept vec None) as [[a p]|] eqn:E.
  - destruct (best_accept_in vec a p E) as (r & Hin). unfold actions_nonzero in Hnz. rewrite forallb_forall in Hnz.
    specialize (Hnz _ Hin). cbn in Hnz. rewrite Hl. destruct (a =? 0); [discriminate|reflexivity].
  - rewrite Hl. reflexivity.
Qed.

(* ---------- the end-of-input phase ---------- *)
Lemma eoi_sound t : forall k s vec rs fuel K len last, eoi_chk k t s vec = true -> req rs vec -> (k < fuel)%nat -> (k <= K)%nat ->
  ref_eoi fuel t s len last = spec_eoi K rs len last.
Proof.
  induction k as [|k IH]; intros s vec rs fuel K len last H Hr Hf HK; (destruct fuel as [|fuel]; [lia|]);
    cbn [eoi_chk] in H; apply andb_true_iff in H; destruct H as [Hl H]; cbn [ref_eoi]; rewrite (local_agree t s vec rs len last Hl Hr).
  - destruct (move t s 0) as [s'|].
    + apply andb_true_iff in H. destruct H as [_ H]. discriminate.
    + apply negb_true_iff in H. rewrite <- (req_viable _ _ (req_step eoi_sym rs vec Hr)) in H.
      destruct K as [|K]; cbn [spec_eoi]; [reflexivity|]. rewrite H. reflexivity.
  - destruct (move t s 0) as [s'|].
    + apply andb_true_iff in H. destruct H as [Hv H]. rewrite <- (req_viable _ _ (req_step eoi_sym rs vec Hr)) in Hv.
      destruct K as [|K]; [lia|]. cbn [spec_eoi]. rewrite Hv.
      apply (IH s' (step_rules eoi_sym vec)); [exact H|apply req_step; exact Hr|lia|lia].
    + apply negb_true_iff in H. rewrite <- (req_viable _ _ (req_step eoi_sym rs vec Hr)) in H.
      destruct K as [|K]; cbn [spec_eoi]; [reflexivity|]. rewrite H. reflexivity.
Qed.

(* ---------- the simulation ---------- *)
Section Sim.
  Variable t : tables.
  Variable seen : list pair.
  Hypothesis Hclosed : closed_check t seen = true.

  Definition rel (s : Z) (rs : list srule) : Prop := exists vec, In (s, vec) seen /\ req rs vec.

  Lemma in_seen_In p : in_seen p seen = true -> In p seen.
  Proof.
    unfold in_seen. intros H. apply existsb_exists in H. destruct H as (q & Hin & Hq). unfold pair_eqb in Hq.
    apply andb_true_iff in Hq. destruct Hq as [H1 H2]. apply Z.eqb_eq in H1. apply rules_eqb_eq in H2.
    destruct p, q. cbn [fst snd] in *. subst. exact Hin.
  Qed.

  Lemma sim : forall fuel text s rs pos last, rel s rs -> bytes_ok text ->
    ref_text t fuel s pos last text = spec_text fuel (scan_bytes t) rs pos last text.
  Proof.
    unfold closed_check in Hclosed. apply andb_true_iff in Hclosed. destruct Hclosed as [Hsm Hall]. rewrite forallb_forall in Hall.
    induction fuel as [|fuel IH]; intros text s rs pos last (vec & Hin & Hr) Hb; [reflexivity|].
    specialize (Hall _ Hin). cbn [pair_ok] in Hall. apply andb_true_iff in Hall. destruct Hall as [Hall Htr].
    apply andb_true_iff in Hall. destruct Hall as [Hl He].
    cbn [ref_text spec_text]. destruct text as [|b tl].
    - apply (eoi_sound t (eoi_depth t) s vec); [exact He|exact Hr|unfold eoi_depth; lia|unfold eoi_depth; lia].
    - rewrite (local_agree t s vec rs pos last Hl Hr).
      change (decode t (b :: tl)) with (decode_b (scan_bytes t) (b :: tl)).
      pose proof (decode_b_range (scan_bytes t) (b :: tl) ltac:(discriminate) Hb) as Hc.
      destruct (decode_b (scan_bytes t) (b :: tl)) as [c w]. cbn [fst] in Hc.
      (* the interval of c *)
      destruct (symbol_map t) as [|[s0 t0] rest] eqn:Em; [discriminate|]. cbn [sorted_mapb] in Hsm.
      apply andb_true_iff in Hsm. destruct Hsm as [H0 Hs]. apply Z.eqb_eq in H0. subst s0. apply sorted_fromb_ok in Hs.
      destruct (ivs_lookup (max_sym (scan_bytes t)) rest 0 t0 c Hs Hc) as (lo & hi & tg & Hiv & Hlh & Hlk).
      rewrite Hlk. rewrite forallb_forall in Htr. specialize (Htr _ Hiv). cbn [trans_ok] in Htr.
      apply orb_true_iff in Htr. destruct Htr as [Htr|Htr]; [apply Z.ltb_lt in Htr; lia|].
      apply andb_true_iff in Htr. destruct Htr as [Hu Htr].
      pose proof (req_step c rs vec Hr) as Hr'. rewrite (uniform_step lo hi c vec Hu Hlh) in Hr'.
      rewrite (req_viable _ _ Hr'). destruct (move t s tg) as [s'|].
      + apply andb_true_iff in Htr. destruct Htr as [Hv Hs']. rewrite Hv. apply IH.
        * exists (norm_rules (step_rules lo vec)). split; [apply in_seen_In; exact Hs'|].
          eapply req_trans; [exact Hr'|apply req_norm].
        * unfold bytes_ok. apply Forall_skipn'. exact Hb.
      + apply negb_true_iff in Htr. rewrite Htr. reflexivity.
  Qed.
End Sim.

(* check_bisim, sound: an accepted certificate makes the automaton of the tables agree with the specification on EVERY
   text of bytes *)
Theorem bisim_cert_sound t rules sc seen : bisim_cert t rules sc seen = true ->
  forall text, bytes_ok text -> longest_accept t sc text = spec_scan (scan_bytes t) rules text.
Proof.
  unfold bisim_cert. intros H text Hb. apply andb_true_iff in H. destruct H as [Hc Hs].
  unfold longest_accept, spec_scan. apply (sim t seen Hc); [|exact Hb].
  exists (norm_rules rules). split; [apply (in_seen_In seen); exact Hs|apply req_norm].
Qed.

Theorem check_bisim_sound cap t rules sc : check_bisim cap t rules sc = 0 ->
  forall text, bytes_ok text -> longest_accept t sc text = spec_scan (scan_bytes t) rules text.
Proof.
  unfold check_bisim. intros H. destruct (explore (cap * 128) cap t _ []) as [seen|] eqn:E; [|discriminate].
  destruct (closed_check t seen && in_seen (nthZ (state_map t) sc, norm_rules rules) seen) eqn:Ec.
  - apply (bisim_cert_sound t rules sc seen). exact Ec.
  - exfalso. unfold diagnose in H. repeat match type of H with (if ?c then _ else _) = _ => destruct c end; discriminate.
Qed.

(* together with the validator of the checkpoint encoding: Scan itself agrees with the specification *)
Theorem check_bisim_scan cap t rules sc : check_tables t = true -> In (nthZ (state_map t) sc) (state_map t) ->
  check_bisim cap t rules sc = 0 ->
  forall text, text <> [] -> bytes_ok text -> scanF t sc text = spec_scan (scan_bytes t) rules text.
Proof.
  intros Ht Hsc Hb text Hne Hbytes. rewrite (scan_is_longest t Ht sc text Hsc Hne). apply (check_bisim_sound cap); assumption.
Qed.
