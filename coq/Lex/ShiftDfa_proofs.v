From Coq Require Import List ZArith NArith Bool Lia ZifyBool ZifyNat ZifyN.
From TM Require Import Lex.Tables Lex.ShiftDfa.
Import ListNotations.
Ltac Zify.zify_post_hook ::= Z.div_mod_to_equations.

(* ================= A. 6-bit fields of an OR-accumulated row ================= *)
Section Fields.
Local Open Scope N_scope.
Variable f : nat -> N.
Hypothesis Hf : forall i, f i < 64.

Definition rowk (k : nat) : N :=
  fold_left (fun row st => N.lor row (N.shiftl (f st) (6 * N.of_nat st))) (seq 0 k) 0.

Lemma small_bits x m : x < 64 -> 6 <= m -> N.testbit x m = false.
Proof.
  intros Hx Hm. rewrite <- (N.mod_small x (2 ^ 6)) by (change (2 ^ 6) with 64; exact Hx).
  now apply N.mod_pow2_bits_high.
Qed.

Lemma rowk_S k : rowk (S k) = N.lor (rowk k) (N.shiftl (f k) (6 * N.of_nat k)).
Proof. unfold rowk. rewrite seq_S, fold_left_app. reflexivity. Qed.

Lemma rowk_bits k : forall n,
  N.testbit (rowk k) n =
  if n <? 6 * N.of_nat k then N.testbit (f (N.to_nat (n / 6))) (n mod 6) else false.
Proof.
  induction k as [|k IH]; intro n.
  - cbn. destruct (n <? 0) eqn:E; [lia|reflexivity].
  - rewrite rowk_S, N.lor_spec, IH.
    destruct (n <? 6 * N.of_nat k) eqn:E1.
    + rewrite N.shiftl_spec_low by lia. rewrite orb_false_r.
      destruct (n <? 6 * N.of_nat (S k)) eqn:E2; [reflexivity|lia].
    + rewrite N.shiftl_spec_high' by lia. cbn [orb].
      destruct (n <? 6 * N.of_nat (S k)) eqn:E2.
      * replace (N.to_nat (n / 6)) with k by lia.
        replace (n - 6 * N.of_nat k) with (n mod 6) by lia. reflexivity.
      * apply small_bits; [apply Hf|lia].
Qed.

Lemma ones6_bits m : N.testbit 63 m = (m <? 6).
Proof.
  change 63 with (N.ones 6). destruct (m <? 6) eqn:E.
  - apply N.ones_spec_low. lia.
  - apply N.ones_spec_high. lia.
Qed.

Lemma rowk_field k j : (j < k)%nat -> N.land (N.shiftr (rowk k) (6 * N.of_nat j)) 63 = f j.
Proof.
  intro Hj. apply N.bits_inj. intro m.
  rewrite N.land_spec, ones6_bits, N.shiftr_spec', rowk_bits.
  destruct (m <? 6) eqn:E.
  - rewrite andb_true_r. destruct (m + 6 * N.of_nat j <? 6 * N.of_nat k) eqn:E2; [|lia].
    replace (N.to_nat ((m + 6 * N.of_nat j) / 6)) with j by lia.
    replace ((m + 6 * N.of_nat j) mod 6) with m by lia. reflexivity.
  - rewrite andb_false_r. symmetry. apply small_bits; [apply Hf|lia].
Qed.
End Fields.

Lemma shl64_small x k : (x < 64)%N -> (k <= 54)%N -> shl64 x k = N.shiftl x k.
Proof.
  intros Hx Hk. unfold shl64. apply N.mod_small. rewrite N.shiftl_mul_pow2.
  assert (2 ^ k <= 2 ^ 54)%N by (apply N.pow_le_mono_r; lia).
  change (2 ^ 54)%N with 18014398509481984%N in H. unfold two64. nia.
Qed.

Lemma fold_left_ext_in {A B} (f g : A -> B -> A) l : (forall a x, In x l -> f a x = g a x) ->
  forall a, fold_left f l a = fold_left g l a.
Proof.
  induction l as [|x l IH]; intros H a; cbn [fold_left]; [reflexivity|].
  rewrite H by now left. apply IH. intros; apply H; now right.
Qed.

(* ================= B. what a successful Pack guarantees ================= *)
Local Open Scope Z_scope.

Lemma in_zseq n x : In x (zseq n) <-> 0 <= x < n.
Proof.
  unfold zseq. rewrite in_map_iff. split.
  - intros [k [<- Hk]]. apply in_seq in Hk. lia.
  - intro H. exists (Z.to_nat x). split; [lia|]. apply in_seq. lia.
Qed.

Lemma zseq_nth n i d : 0 <= i < n -> nth (Z.to_nat i) (zseq n) d = i.
Proof.
  intro H. unfold zseq.
  rewrite (nth_indep _ d (Z.of_nat 0)) by (rewrite map_length, seq_length; lia).
  rewrite map_nth. rewrite seq_nth by lia. lia.
Qed.

Lemma map_seq_nth {A} (f : nat -> A) n i d : (i < n)%nat -> nth i (map f (seq 0 n)) d = f i.
Proof.
  intro H. rewrite (nth_indep _ d (f 0%nat)) by (rewrite map_length, seq_length; lia).
  rewrite map_nth, seq_nth by lia. reflexivity.
Qed.

Lemma first_err_stuck (step : Z -> Z) l e : e <> 0 ->
  fold_left (fun err idx => if negb (err =? 0) then err else step idx) l e = e.
Proof.
  intro He. induction l as [|x l IH]; cbn [fold_left]; [reflexivity|].
  destruct (e =? 0) eqn:E; [lia|]. cbn [negb]. exact IH.
Qed.

Lemma first_err_zero (step : Z -> Z) l :
  fold_left (fun err idx => if negb (err =? 0) then err else step idx) l 0 = 0 ->
  forall idx, In idx l -> step idx = 0.
Proof.
  induction l as [|x l IH]; cbn [fold_left]; intros H idx Hin; [destruct Hin|].
  cbn [Z.eqb negb] in H.
  destruct (Z.eq_dec (step x) 0) as [E|E].
  - rewrite E in H. destruct Hin as [<-|Hin]; [exact E|now apply IH].
  - rewrite (first_err_stuck step l (step x) E) in H. contradiction.
Qed.

Lemma nthZ_in (l : list Z) i : 0 <= i < Z.of_nat (length l) -> In (nthZ l i) l.
Proof.
  intro H. unfold nthZ. destruct (i <? 0) eqn:E; [lia|]. apply nth_In. lia.
Qed.

Record packed (t : tables) (s : scanner) : Prop := {
  pk_states : num_states t <= 10;
  pk_bt : backtrack t = [];
  pk_sm : state_map t = [0];
  pk_ascii : fst (last (symbol_map t) (0, 0)) <= 128;
  pk_cells : forall idx, 0 <= idx < num_states t * num_symbols t ->
     exists e, enc_target (nthZ (dfa t) idx) = Some e /\ (idx mod num_symbols t = 0 -> Z.even e = false);
  pk_table : sc_table s = map (pack_row t (Z.to_nat (num_states t))) (zseq 256);
  pk_eoi : sc_on_eoi s = map (fun st => if (Z.of_nat st <? num_states t) then N.div (enc_cell t st 0) 2 else 0%N) (seq 0 11)
}.

Lemma pack_ok_inv t s : pack t = PackOk s -> packed t s.
Proof.
  unfold pack. fold (num_states t).
  destruct (num_states t >? 10) eqn:E1; [discriminate|].
  destruct (negb (Nat.eqb (length (backtrack t)) 0)) eqn:E2; [discriminate|].
  destruct (negb match state_map t with [0] => true | _ => false end) eqn:E3; [discriminate|].
  destruct (fst (last (symbol_map t) (0, 0)) >? 128) eqn:E4; [discriminate|].
  match goal with |- context [fold_left ?F ?L 0] => set (fe := fold_left F L 0) end.
  destruct (negb (fe =? 0)) eqn:E5; [discriminate|].
  intros [= <-]. constructor; cbn [sc_table sc_on_eoi]; try reflexivity.
  - lia.
  - apply negb_false_iff, Nat.eqb_eq in E2. now destruct (backtrack t).
  - apply negb_false_iff in E3. destruct (state_map t) as [|z [|? ?]]; [discriminate| |destruct z; discriminate].
    destruct z; try discriminate. reflexivity.
  - lia.
  - intros idx Hidx. apply negb_false_iff, Z.eqb_eq in E5.
    pose proof (first_err_zero _ _ E5 idx (proj2 (in_zseq _ _) Hidx)) as H. cbn beta in H.
    destruct (enc_target (nthZ (dfa t) idx)) as [e|]; [|discriminate].
    exists e. split; [reflexivity|]. intro Hm. rewrite Hm in H. cbn [Z.eqb andb] in H.
    destruct (Z.even e); [discriminate|reflexivity].
Qed.

Lemma enc_target_some c e : enc_target c = Some e ->
  (c < 0 -> e = (-1 - c) * 2 + 1 /\ -1 - c < 32) /\ (0 <= c -> e = c * 6).
Proof.
  unfold enc_target. destruct (c <? 0) eqn:E.
  - destruct (-1 - c >=? 32) eqn:E2; [discriminate|]. rewrite Z.geb_leb in E2.
    intro H. assert (He : e = (-1 - c) * 2 + 1) by congruence. clear H. split; [intro; lia|lia].
  - intro H. assert (He : e = c * 6) by congruence. clear H. split; [lia|intro; exact He].
Qed.

(* ================= C. the two scanners agree ================= *)
Section Agree.
Variable t : tables.
Variable s : scanner.
Hypothesis Hwf : wf24b t = true.
Hypothesis Hpk : packed t s.

Let ns := num_symbols t.
Let states := num_states t.

Lemma wf_facts :
  scan_bytes t = true /\ 0 < ns /\ Z.of_nat (length (dfa t)) = states * ns /\
  (forall c, In c (dfa t) -> c < states) /\
  (forall e, In e (symbol_map t) -> 0 <= snd e < ns /\ fst e <= fst (last (symbol_map t) (0, 0))) /\
  symbol_map t <> [] /\ 0 < states.
Proof.
  unfold wf24b in Hwf. rewrite !andb_true_iff in Hwf.
  destruct Hwf as [[[[[[H1 H2] H3] H4] H5] H6] H7]. repeat split.
  - exact H1.
  - unfold ns; lia.
  - unfold ns, states; lia.
  - intros c Hc. rewrite forallb_forall in H4. specialize (H4 c Hc). unfold states; lia.
  - rewrite forallb_forall in H5. specialize (H5 e H). unfold ns; lia.
  - rewrite forallb_forall in H5. specialize (H5 e H). unfold ns; lia.
  - rewrite forallb_forall in H5. specialize (H5 e H). lia.
  - intro E. rewrite E in H6. discriminate.
  - unfold states; lia.
Qed.

Lemma lookup_sym_in m r : m <> [] -> exists e, In e m /\ snd e = lookup_sym m r.
Proof.
  induction m as [|[s0 t0] rest IH]; intro Hne; [congruence|].
  cbn [lookup_sym]. destruct rest as [|[s1 t1] rest'].
  - exists (s0, t0). split; [now left|reflexivity].
  - destruct (s1 >? r).
    + exists (s0, t0). split; [now left|reflexivity].
    + destruct (IH ltac:(discriminate)) as [e [He1 He2]]. exists e. split; [now right|exact He2].
Qed.

Lemma lookup_sym_last m r : m <> [] -> (forall e, In e m -> fst e <= r) ->
  lookup_sym m r = snd (last m (0, -1000000)).
Proof.
  induction m as [|[s0 t0] rest IH]; intros Hne Hle; [congruence|].
  cbn [lookup_sym]. destruct rest as [|[s1 t1] rest'].
  - reflexivity.
  - assert (s1 <= r) by (apply (Hle (s1, t1)); right; now left).
    destruct (s1 >? r) eqn:E; [lia|].
    rewrite IH; [reflexivity|discriminate|]. intros e He. apply Hle. now right.
Qed.

Lemma last_indep {A} (l : list A) d d' : l <> [] -> last l d = last l d'.
Proof.
  induction l as [|x l IH]; intro H; [congruence|].
  destruct l as [|y l']; [reflexivity|]. cbn [last]. cbn [last] in IH. apply IH. discriminate.
Qed.

Lemma byte_sym_lookup b : 0 <= b -> byte_sym t b = lookup_sym (symbol_map t) b.
Proof.
  intro Hb. destruct wf_facts as (_ & _ & _ & _ & Hmap & Hne & _).
  unfold byte_sym. destruct (b <? 128) eqn:E; [reflexivity|].
  symmetry. apply lookup_sym_last; [exact Hne|].
  intros e He. destruct (Hmap e He) as [_ Hl]. pose proof (pk_ascii t s Hpk).
  lia.
Qed.

Lemma sym_range b : 0 <= lookup_sym (symbol_map t) b < ns.
Proof.
  destruct wf_facts as (_ & _ & _ & _ & Hmap & Hne & _).
  destruct (lookup_sym_in (symbol_map t) b Hne) as [e [He <-]]. apply (Hmap e He).
Qed.

(* every cell of an in-range state encodes into a 6-bit field *)
Lemma cell_enc (st : nat) sym : Z.of_nat st < states -> 0 <= sym < ns ->
  exists e, enc_target (cell t st sym) = Some e /\ 0 <= e < 64 /\
            (cell t st sym < 0 -> e = (-1 - cell t st sym) * 2 + 1) /\
            (0 <= cell t st sym -> e = cell t st sym * 6 /\ cell t st sym < states).
Proof.
  intros Hst Hsym. destruct wf_facts as (_ & Hns & Hlen & Hcells & _ & _ & _).
  assert (Hidx : 0 <= Z.of_nat st * ns + sym < states * ns) by nia.
  destruct (pk_cells t s Hpk _ Hidx) as [e [He _]]. unfold cell. fold ns.
  exists e. split; [exact He|].
  destruct (enc_target_some _ _ He) as [Hneg Hpos].
  assert (Hc : nthZ (dfa t) (Z.of_nat st * ns + sym) < states).
  { apply Hcells. apply nthZ_in. lia. }
  pose proof (pk_states t s Hpk). fold states in H.
  split; [|split].
  - destruct (Z.lt_ge_cases (nthZ (dfa t) (Z.of_nat st * ns + sym)) 0) as [Hn|Hn].
    + destruct (Hneg Hn). lia.
    + rewrite (Hpos Hn). lia.
  - intro Hn. now destruct (Hneg Hn).
  - intro Hn. split; [now apply Hpos|exact Hc].
Qed.

Lemma enc_cell_lt64 sym (st : nat) : (enc_cell t st sym < 64)%N.
Proof.
  unfold enc_cell. destruct (enc_target (cell t st sym)) as [e|] eqn:E; [|reflexivity].
  destruct (enc_target_some _ _ E) as [Hneg Hpos].
  (* without range knowledge a non-negative cell may encode large: bound it through the table *)
  destruct (Z.lt_ge_cases (cell t st sym) 0) as [Hn|Hn].
  - destruct (Hneg Hn). lia.
  - (* in-range cells are < states <= 10; out-of-range reads give -1000000 < 0 *)
    destruct wf_facts as (_ & _ & _ & Hcells & _ & _ & _).
    unfold cell, nthZ in *.
    destruct (Z.of_nat st * num_symbols t + sym <? 0) eqn:E0; [lia|].
    destruct (Nat.lt_ge_cases (Z.to_nat (Z.of_nat st * num_symbols t + sym)) (length (dfa t))) as [Hl|Hl].
    + pose proof (Hcells _ (nth_In _ (-1000000) Hl)) as Hc. pose proof (pk_states t s Hpk).
      fold states in H. rewrite (Hpos Hn). lia.
    + rewrite nth_overflow in Hn by exact Hl. lia.
Qed.

(* field [st] of table[b] is the encoded transition of state st on b's symbol *)
Lemma table_field b (st : nat) : 0 <= b < 256 -> Z.of_nat st < states ->
  N.land (N.shiftr (nth (Z.to_nat b) (sc_table s) 0%N) (6 * N.of_nat st)) 63
  = enc_cell t st (lookup_sym (symbol_map t) b).
Proof.
  intros Hb Hst. rewrite (pk_table t s Hpk).
  rewrite (nth_indep _ 0%N (pack_row t (Z.to_nat (num_states t)) 0)) by (unfold zseq; rewrite !map_length, seq_length; lia).
  rewrite map_nth, zseq_nth by lia.
  unfold pack_row. rewrite byte_sym_lookup by lia.
  set (sym := lookup_sym (symbol_map t) b).
  pose proof (pk_states t s Hpk) as Hs. fold states in Hs.
  rewrite (fold_left_ext_in _ (fun row st0 => N.lor row (N.shiftl (enc_cell t st0 sym) (6 * N.of_nat st0)))).
  - apply (rowk_field (fun st0 => enc_cell t st0 sym) (enc_cell_lt64 sym)). fold states. lia.
  - intros a x Hx. apply in_seq in Hx. fold states in Hx. f_equal. apply shl64_small; [apply enc_cell_lt64|lia].
Qed.

Definition byte_ok (b : Z) : Prop := 0 <= b < 256.

Lemma land1_of_land63 x y : N.land x 63 = y -> N.land x 1 = N.land y 1.
Proof.
  intros <-. rewrite <- N.land_assoc. reflexivity.
Qed.

Lemma loop_agree : forall text (lst : nat) state i f,
  (length text < f)%nat -> Z.of_nat lst < states ->
  N.land state 63 = (6 * N.of_nat lst)%N -> Forall byte_ok text ->
  shift_loop s state i text =
  (fst (scan_loop f t (Z.of_nat lst) i 0 0 text), Z.to_N (snd (scan_loop f t (Z.of_nat lst) i 0 0 text))).
Proof.
  destruct wf_facts as (Hsb & Hns & Hlen & Hcells & Hmap & Hne & _).
  assert (Hast : action_start t = -1) by (unfold action_start; rewrite (pk_bt t s Hpk); reflexivity).
  induction text as [|b rest IH]; intros lst state i f Hf Hst Hfield Hbytes.
  - destruct f as [|f]; [cbn in Hf; lia|]. cbn [shift_loop scan_loop]. rewrite Hast.
    assert (Hl1 : N.land state 1 = 0%N).
    { rewrite (land1_of_land63 _ _ Hfield). apply N.bits_inj. intro m. rewrite N.land_spec, N.bits_0.
      destruct m; [|now rewrite andb_false_r]. rewrite N.bit0_odd. cbn [andb].
      rewrite andb_true_r. rewrite N.odd_mul. reflexivity. }
    rewrite Hl1. cbn [N.eqb]. rewrite Hfield.
    replace (6 * N.of_nat lst / 6)%N with (N.of_nat lst) by lia. rewrite Nnat.Nat2N.id.
    rewrite (pk_eoi t s Hpk).
    pose proof (pk_states t s Hpk) as Hs. fold states in Hs.
    rewrite map_seq_nth by lia. fold states.
    destruct (Z.of_nat lst <? states) eqn:E; [|lia].
    (* the EOI cell *)
    assert (Hidx : 0 <= Z.of_nat lst * ns + 0 < states * ns) by nia.
    destruct (pk_cells t s Hpk _ Hidx) as [e [He Hodd]]. fold ns in Hodd.
    specialize (Hodd ltac:(rewrite Z.add_0_r; apply Z.mod_mul; lia)).
    unfold enc_cell, cell. fold ns. rewrite He.
    replace (Z.of_nat lst * ns) with (Z.of_nat lst * ns + 0) by lia. fold ns.
    destruct (enc_target_some _ _ He) as [Hneg Hpos].
    set (c := nthZ (dfa t) (Z.of_nat lst * ns + 0)) in *.
    destruct (Z.lt_ge_cases c 0) as [Hn|Hn].
    + destruct (Hneg Hn) as [-> _]. change (0 >? 0) with false.
      destruct (-1 =? c) eqn:E2; cbn [andb fst snd]; f_equal; lia.
    + rewrite (Hpos Hn) in Hodd. rewrite Z.even_mul in Hodd. cbn in Hodd. rewrite orb_true_r in Hodd. discriminate.
  - destruct f as [|f]; [cbn in Hf; lia|]. cbn [length] in Hf.
    inversion Hbytes as [|? ? Hb Hrest]; subst.
    cbn [shift_loop].
    assert (Hl1 : N.land state 1 = 0%N).
    { rewrite (land1_of_land63 _ _ Hfield). apply N.bits_inj. intro m. rewrite N.land_spec, N.bits_0.
      destruct m; [|now rewrite andb_false_r]. rewrite N.bit0_odd.
      rewrite andb_true_r. rewrite N.odd_mul. reflexivity. }
    rewrite Hl1. cbn [N.eqb]. rewrite Hfield.
    cbn [scan_loop]. unfold decode. rewrite Hsb. rewrite Hast. cbn [Z.of_nat Pos.of_succ_nat Pos.succ skipn].
    fold ns. set (sym := lookup_sym (symbol_map t) b).
    pose proof (sym_range b) as Hsym. fold sym in Hsym.
    destruct (cell_enc lst sym Hst Hsym) as [e [He [Hrange [Hneg Hpos]]]].
    unfold cell in He, Hneg, Hpos. fold ns in He, Hneg, Hpos.
    set (c := nthZ (dfa t) (Z.of_nat lst * ns + sym)) in *.
    assert (Hnew : N.land (N.shiftr (nth (Z.to_nat b) (sc_table s) 0%N) (6 * N.of_nat lst)) 63 = Z.to_N e).
    { rewrite (table_field b lst Hb Hst). unfold enc_cell, cell. fold ns. fold sym. fold c. now rewrite He. }
    destruct (c <? 0) eqn:Ec.
    + (* accepting / error cell: both stop here *)
      specialize (Hneg ltac:(lia)).
      assert (Hodd1 : N.land (N.shiftr (nth (Z.to_nat b) (sc_table s) 0%N) (6 * N.of_nat lst)) 1 = 1%N).
      { rewrite (land1_of_land63 _ _ Hnew). apply N.bits_inj. intro m. rewrite N.land_spec.
        destruct m; [|now rewrite andb_false_r]. rewrite N.bit0_odd. cbn.
        rewrite andb_true_r. subst e. rewrite Z2N.inj_add, Z2N.inj_mul by lia.
        rewrite N.odd_add, N.odd_mul. cbn. now rewrite andb_false_r. }
      destruct (c >? -1) eqn:E1; [lia|].
      replace ((-1 =? c) && (0 >? 0)) with false by (now rewrite andb_false_r).
      cbn [fst snd].
      destruct rest as [|b' rest']; cbn [shift_loop]; rewrite Hodd1; cbn [N.eqb Pos.eqb];
        rewrite Hnew; f_equal; lia.
    + specialize (Hpos ltac:(lia)). destruct Hpos as [-> Hcs].
      replace (i + 1) with (i + Z.of_nat 1) by lia.
      replace c with (Z.of_nat (Z.to_nat c)) by lia.
      apply IH; try lia. exact Hrest.
Qed.

Lemma loop_nonneg : forall text (lst : nat) i f,
  (length text < f)%nat -> Z.of_nat lst < states -> Forall byte_ok text ->
  0 <= snd (scan_loop f t (Z.of_nat lst) i 0 0 text).
Proof.
  destruct wf_facts as (Hsb & Hns & Hlen & Hcells & Hmap & Hne & _).
  assert (Hast : action_start t = -1) by (unfold action_start; rewrite (pk_bt t s Hpk); reflexivity).
  induction text as [|b rest IH]; intros lst i f Hf Hst Hbytes.
  - destruct f as [|f]; [cbn in Hf; lia|]. cbn [scan_loop]. rewrite Hast. change (0 >? 0) with false.
    rewrite andb_false_r. cbn [snd].
    assert (Hidx : 0 <= Z.of_nat lst * ns + 0 < states * ns) by nia.
    destruct (pk_cells t s Hpk _ Hidx) as [e [He Hodd]]. fold ns in Hodd.
    specialize (Hodd ltac:(rewrite Z.add_0_r; apply Z.mod_mul; lia)).
    destruct (enc_target_some _ _ He) as [Hneg Hpos]. fold ns.
    replace (Z.of_nat lst * ns) with (Z.of_nat lst * ns + 0) by lia.
    set (c := nthZ (dfa t) (Z.of_nat lst * ns + 0)) in *.
    destruct (Z.lt_ge_cases c 0) as [Hn|Hn]; [lia|].
    rewrite (Hpos Hn) in Hodd. rewrite Z.even_mul in Hodd. cbn in Hodd. rewrite orb_true_r in Hodd. discriminate.
  - destruct f as [|f]; [cbn in Hf; lia|]. cbn [length] in Hf.
    inversion Hbytes as [|? ? Hb Hrest]; subst.
    cbn [scan_loop]. unfold decode. rewrite Hsb, Hast. cbn [Z.of_nat Pos.of_succ_nat Pos.succ skipn].
    fold ns. set (sym := lookup_sym (symbol_map t) b).
    pose proof (sym_range b) as Hsym. fold sym in Hsym.
    destruct (cell_enc lst sym Hst Hsym) as [e [He [Hrange [Hneg Hpos]]]].
    unfold cell in He, Hneg, Hpos. fold ns in He, Hneg, Hpos.
    set (c := nthZ (dfa t) (Z.of_nat lst * ns + sym)) in *.
    destruct (c <? 0) eqn:Ec.
    + destruct (c >? -1) eqn:E1; [lia|]. change (0 >? 0) with false. rewrite andb_false_r. cbn [snd]. lia.
    + specialize (Hpos ltac:(lia)). destruct Hpos as [_ Hcs].
      replace c with (Z.of_nat (Z.to_nat c)) by lia. apply IH; try lia. exact Hrest.
Qed.

Theorem pack_scan_agrees_core : forall text, Forall byte_ok text ->
  shift_scan s text = (fst (scan t 0 text), Z.to_N (snd (scan t 0 text))).
Proof.
  intros text Hb. unfold shift_scan, scan. rewrite (pk_sm t s Hpk).
  change (nthZ [0] 0) with (Z.of_nat 0).
  destruct wf_facts as (_ & _ & _ & _ & _ & _ & Hpos).
  apply loop_agree; [lia|cbn; lia|reflexivity|exact Hb].
Qed.

Theorem scan_action_nonneg : forall text, Forall byte_ok text -> 0 <= snd (scan t 0 text).
Proof.
  intros text Hb. unfold scan. rewrite (pk_sm t s Hpk). change (nthZ [0] 0) with (Z.of_nat 0).
  destruct wf_facts as (_ & _ & _ & _ & _ & _ & Hpos).
  apply loop_nonneg; [lia|cbn; lia|exact Hb].
Qed.
End Agree.

(* C24 in full: whenever Pack accepts well-formed byte-mode tables, the packed scanner returns the same
   (size, token) as lex.Tables.Scan on every byte string *)
Theorem pack_scan_agrees t s : wf24b t = true -> pack t = PackOk s ->
  forall text, Forall (fun b => 0 <= b < 256) text ->
  (fst (shift_scan s text), Z.of_N (snd (shift_scan s text))) = scan t 0 text.
Proof.
  intros Hwf Hp text Hb. pose proof (pack_ok_inv t s Hp) as Hpk.
  rewrite (pack_scan_agrees_core t s Hwf Hpk text Hb). cbn [fst snd].
  pose proof (scan_action_nonneg t s Hwf Hpk text Hb).
  rewrite Z2N.id by assumption. now destruct (scan t 0 text).
Qed.

