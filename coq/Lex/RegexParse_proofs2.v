(* C10, round 3: class_spec, assembly level.  Every successful parseClass returns class_den of the member ranges and the
   subtracted sets it collected, and class_den has the documented set semantics (union of members, minus every
   subtracted set, closed under the fold orbits when folding, complemented within [0, max] when negated). *)
From Coq Require Import List ZArith Bool Lia.
From TM Require Import Lex.Tables Lex.Charset Lex.Charset_proofs Lex.Charset_proofs2 Lex.RegexParse.
Import ListNotations.
Local Open Scope Z_scope.

Section ClassSpec.
  Variable sf : Z -> Z.
  Variable named : list Z -> option (Z * table * table).

  Definition cmax (bytes : bool) : Z := if bytes then 255 else max_rune_u.

  (* what parseClass does with the collected member ranges and subtracted sets *)
  Definition class_base (items : charset) (subs : list charset) : charset :=
    fold_left subtract subs (new_charset items).
  Definition class_den (fold neg bytes : bool) (items : charset) (subs : list charset) : charset :=
    let cs := class_base items subs in
    let cs := if fold then Charset.fold sf 8 cs bytes else cs in
    if neg then invert cs (cmax bytes) else cs.

  (* ---- parseClass ends in class_den ---- *)
  Lemma bind_ok {A B} (x : res A) (f : A -> res B) b : bind x f = Ok b -> exists a, x = Ok a /\ f a = Ok b.
  Proof. destruct x as [a|m o e]; cbn [bind]; [eauto|discriminate]. Qed.

  Theorem parse_class_den : forall fuel p0 o p' cs, parse_class sf named fuel p0 o = Ok (p', cs) ->
    exists p1 items subs, next p0 = Ok p1 /\
      cs = class_den (o_fold o) (p_ch p1 =? 94) (o_bytes o) items subs.
  Proof.
    intros fuel p0 o p' cs H. destruct fuel as [|fuel]; [discriminate|].
    cbn [parse_class] in H.
    apply bind_ok in H. destruct H as (p1 & Hn & H). exists p1.
    apply bind_ok in H. destruct H as ((p2 & negated) & Hneg & H).
    apply bind_ok in H. destruct H as ((p3 & r0) & Hr0 & H).
    apply bind_ok in H. destruct H as (((p4 & r) & subs) & Hloop & H).
    apply bind_ok in H. destruct H as (p5 & Hn5 & H). inversion H; subst p' cs. clear H.
    exists (rev r), subs. split; [exact Hn|].
    assert (negated = (p_ch p1 =? 94)) as ->.
    { destruct (p_ch p1 =? 94).
      - apply bind_ok in Hneg. destruct Hneg as (q & _ & E). inversion E; reflexivity.
      - inversion Hneg; reflexivity. }
    unfold class_den, class_base, cs_fold, opt_max, cmax. cbn [o_bytes o_fold]. reflexivity.
  Qed.

  (* ---- semantics of class_den ---- *)
  Lemma wf_upper cs : forall lb mx, wf_cs lb cs -> (forall x, mem x cs = true -> x <= mx) -> Forall (fun p => snd p <= mx) cs.
  Proof.
    induction cs as [|[lo hi] t IH]; intros lb mx Hwf Hub; [constructor|].
    cbn [wf_cs] in Hwf. destruct Hwf as (H1 & H2 & H3). constructor.
    - cbn [snd]. apply Hub. rewrite mem_cons. apply orb_true_iff. left. zb.
    - apply (IH (hi + 2) mx H3). intros x Hx. apply Hub. rewrite mem_cons, Hx. apply orb_true_r.
  Qed.

  Lemma wf_valid cs : forall lb, wf_cs lb cs -> forall p, In p cs -> lb <= fst p <= snd p.
  Proof.
    induction cs as [|[lo hi] t IH]; intros lb W p Hp; [destruct Hp|].
    cbn [wf_cs] in W. destruct W as (H1 & H2 & H3). destruct Hp as [<-|Hp]; [cbn [fst snd]; lia|].
    specialize (IH (hi + 2) H3 p Hp). lia.
  Qed.

  Lemma wf_lower cs : forall lb x, wf_cs lb cs -> mem x cs = true -> lb <= x.
  Proof.
    intros lb x Hwf Hx. destruct (Z.lt_ge_cases x lb) as [Hlt|Hge]; [|exact Hge].
    rewrite (wf_mem_lt cs lb x Hwf Hlt) in Hx. discriminate.
  Qed.

  Lemma subtract_all_spec subs : forall cs, wf_cs 0 cs -> (forall s, In s subs -> wf_cs 0 s) ->
    wf_cs 0 (fold_left subtract subs cs) /\
    forall x, mem x (fold_left subtract subs cs) = mem x cs && forallb (fun s => negb (mem x s)) subs.
  Proof.
    induction subs as [|s subs IH]; intros cs Hwf Hs; cbn [fold_left forallb].
    - split; [exact Hwf|]. intros x. rewrite andb_true_r. reflexivity.
    - destruct (subtract_spec cs s 0 0 Hwf (Hs s (or_introl eq_refl))) as (W & M).
      destruct (IH (subtract cs s) W (fun s' Hs' => Hs s' (or_intror Hs'))) as (W' & M').
      split; [exact W'|]. intros x. rewrite M', M, andb_assoc. reflexivity.
  Qed.

  Definition in_base (items : charset) (subs : list charset) (x : Z) : Prop :=
    mem x items = true /\ forall s, In s subs -> mem x s = false.

  Theorem class_base_spec : forall items subs mx,
    (forall p, In p items -> 0 <= fst p <= snd p /\ snd p <= mx) -> (forall s, In s subs -> wf_cs 0 s) ->
    wf_cs 0 (class_base items subs) /\
    (forall x, mem x (class_base items subs) = true <-> in_base items subs x) /\
    (forall x, mem x (class_base items subs) = true -> 0 <= x <= mx).
  Proof.
    intros items subs mx Hi Hs. unfold class_base.
    destruct (new_charset_spec items 0 (fun p Hp => proj1 (Hi p Hp))) as (W & M).
    destruct (subtract_all_spec subs _ W Hs) as (W' & M').
    assert (Hiff : forall x, mem x (fold_left subtract subs (new_charset items)) = true <-> in_base items subs x).
    { intros x. rewrite M', M, andb_true_iff, forallb_forall. unfold in_base. split.
      - intros (H1 & H2). split; [exact H1|]. intros s Hin. specialize (H2 s Hin). destruct (mem x s); [discriminate|reflexivity].
      - intros (H1 & H2). split; [exact H1|]. intros s Hin. rewrite (H2 s Hin). reflexivity. }
    split; [exact W'|]. split; [exact Hiff|].
    intros x Hx. split; [eapply wf_lower; eassumption|]. apply Hiff in Hx. destruct Hx as (Hx & _).
    unfold mem in Hx. apply existsb_exists in Hx. destruct Hx as (p & Hp & Hr). destruct (Hi p Hp) as (_ & Hub). revert Hr. zb.
  Qed.

  (* the set a class denotes before negation: the base, closed under fold orbits when folding *)
  Definition in_folded (fold bytes : bool) (items : charset) (subs : list charset) (x : Z) : Prop :=
    in_base items subs x \/
    (fold = true /\ exists c j, in_base items subs c /\ x = Nat.iter j sf c /\ (bytes = false \/ x < 128)).

  Lemma wf_from_members cs lb : wf_cs lb cs -> (forall x, mem x cs = true -> 0 <= x) -> wf_cs 0 cs.
  Proof.
    intros Hwf Hm. destruct cs as [|[lo hi] t]; [exact I|]. cbn [wf_cs] in *. destruct Hwf as (H1 & H2 & H3).
    split; [|split; assumption]. apply Hm. rewrite mem_cons. apply orb_true_iff. left. zb.
  Qed.

  (* class_spec (assembly): for member ranges within [0, max] (every range lo <= hi), subtracted sets in normal form,
     and — when folding — fold orbits that close within the bound, are non-negative and (outside bytes mode) stay within MaxRune:
     the result is in normal form and x belongs to it iff
       not negated:  x is a member not in any subtracted set, or (folding) on the fold orbit of such a code point
                     (in bytes mode only below 0x80);
       negated:      0 <= x <= max and not so. *)
  Theorem class_den_spec : forall fold neg bytes items subs,
    (forall p, In p items -> 0 <= fst p <= snd p /\ snd p <= cmax bytes) -> (forall s, In s subs -> wf_cs 0 s) ->
    (fold = true -> forall c, in_base items subs c -> closes sf 8 c /\ forall j, 0 <= Nat.iter j sf c /\ (bytes = false -> Nat.iter j sf c <= max_rune_u)) ->
    wf_cs 0 (class_den fold neg bytes items subs) /\
    forall x, mem x (class_den fold neg bytes items subs) = true <->
      if neg then 0 <= x <= cmax bytes /\ ~ in_folded fold bytes items subs x else in_folded fold bytes items subs x.
  Proof.
    intros fold neg bytes items subs Hi Hs Hf.
    destruct (class_base_spec items subs (cmax bytes) Hi Hs) as (W & M & B).
    set (d := if fold then Charset.fold sf 8 (class_base items subs) bytes else class_base items subs).
    assert (Hd : wf_cs 0 d /\ (forall x, mem x d = true <-> in_folded fold bytes items subs x) /\
                 (forall x, mem x d = true -> 0 <= x <= cmax bytes)).
    { subst d. destruct fold.
      - assert (Hval : forall p, In p (class_base items subs) -> 0 <= fst p <= snd p).
        { apply wf_valid. exact W. }
        destruct (fold_exact sf 8 (class_base items subs) bytes 0 Hval) as ((lb' & W') & M').
        { intros c Hc. apply (Hf eq_refl). apply M. exact Hc. }
        assert (Hiff : forall x, mem x (Charset.fold sf 8 (class_base items subs) bytes) = true <-> in_folded true bytes items subs x).
        { intros x. rewrite M'. unfold in_folded. rewrite M. split.
          - intros [Hx|(c & j & Hc & Hx & Hb)]; [left; exact Hx|]. right. split; [reflexivity|]. exists c, j. rewrite <- M. auto.
          - intros [Hx|(_ & c & j & Hc & Hx & Hb)]; [left; exact Hx|]. right. exists c, j. rewrite M. auto. }
        assert (Hrange : forall x, mem x (Charset.fold sf 8 (class_base items subs) bytes) = true -> 0 <= x <= cmax bytes).
        { intros x Hx. apply Hiff in Hx. destruct Hx as [Hx|(_ & c & j & Hc & -> & Hb)].
          - apply B. apply M. exact Hx.
          - destruct (Hf eq_refl c Hc) as (_ & Hj). destruct (Hj j) as (H0 & Hmx). split; [exact H0|].
            unfold cmax. destruct bytes; [destruct Hb as [Hb|Hb]; [discriminate|lia]|apply Hmx; reflexivity]. }
        split; [eapply wf_from_members; [exact W'|intros x Hx; apply Hrange; exact Hx]|]. split; [exact Hiff|exact Hrange].
      - split; [exact W|]. split; [|exact B]. intros x. rewrite M. unfold in_folded. split; [auto|].
        intros [Hx|(E & _)]; [exact Hx|discriminate]. }
    destruct Hd as (Wd & Md & Bd). unfold class_den. fold d. destruct neg.
    - destruct (invert_spec d (cmax bytes) Wd) as (Wi & Mi).
      { apply (wf_upper d 0 (cmax bytes) Wd). intros x Hx. apply Bd. exact Hx. }
      split; [exact Wi|]. intros x. rewrite Mi, !andb_true_iff, !Z.leb_le, negb_true_iff, <- Md. split.
      + intros ((H1 & H2) & H3). split; [lia|]. rewrite H3. discriminate.
      + intros ((H1 & H2) & H3). split; [lia|]. destruct (mem x d); [exfalso; apply H3; reflexivity|reflexivity].
    - split; [exact Wd|exact Md].
  Qed.
End ClassSpec.
