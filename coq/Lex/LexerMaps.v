(* C11: model of the rune-class tables a generated lexer carries: lex.Tables.SymbolArr (tmRuneClass),
   lex.Tables.CompressedMap (tmRuneRanges) and mapRune of go_lexer_tables.go.tmpl, and the class lookup at the top
   of the DFA loop of go_lexer.go.tmpl.  Executable definitions only. *)
From Coq Require Import List ZArith Bool.
From TM Require Import Lex.Tables.
Import ListNotations.
Local Open Scope Z_scope.

Definition last_start (m : list (Z * Z)) : Z := fst (last m (0, 0)).
Definition last_target (m : list (Z * Z)) : Z := snd (last m (0, 0)).

(* ---- Tables.SymbolArr ---- *)
(* for _, e := range SymbolMap { for ; index < e.Start && index < size; index++ { ret[index] = target }
                                 if index == size { break }; target = e.Target } *)
Fixpoint sym_arr_loop (m : list (Z * Z)) (index target size : Z) : list Z :=
  match m with
  | [] => []
  | (st, tg) :: rest =>
      let stop := if st <? size then st else size in
      let index' := if index <? stop then stop else index in
      repeat target (Z.to_nat (stop - index)) ++
      (if index' =? size then [] else sym_arr_loop rest index' tg size)
  end.

Definition symbol_arr (m : list (Z * Z)) (max_rune : Z) : list Z :=
  match m with
  | [] | [_] => []
  | _ =>
      let size0 := last_start m in
      let size := if negb (max_rune =? 0) && (max_rune <? size0) then max_rune else size0 in
      sym_arr_loop m 0 0 size
  end.

(* ---- Tables.CompressedMap ---- *)
Record centry := mkCE { ce_lo : Z; ce_hi : Z; ce_default : Z; ce_vals : list Z }.

(* drop the trailing values equal to d *)
Definition trim_trailing (d : Z) (vals : list Z) : list Z :=
  rev_append ((fix drop (l : list Z) : list Z := match l with x :: t => if x =? d then drop t else l | [] => [] end)
                (rev_append vals [])) [].   (* rev_append: linear-time reversal *)

(* the builder state: curr (None when curr.Lo = -1) and ret, reversed *)
Definition cstate := (option (Z * Z * list Z) * list centry)%type.

Definition emit (s : cstate) : cstate :=
  match fst s with
  | None => s
  | Some (lo, hi, vals) =>
      let d := last vals 0 in
      (None, mkCE lo hi d (trim_trailing d vals) :: snd s)
  end.

Definition consume (dv : Z) (s : cstate) (lo hi target strike : Z) : cstate :=
  let count := hi - lo in
  let fill (_ : unit) := repeat target (Z.to_nat count) in      (* built only where the Go code appends *)
  match fst s with
  | None =>
      if target =? dv then s
      else let s' := (Some (lo, hi, fill tt), snd s) in if count >? 8 then emit s' else s'
  | Some (clo, _, vals) =>
      if (target =? dv) && (strike + count >? 8) then emit s
      else let s' := (Some (clo, hi, vals ++ fill tt), snd s) in if count >? 8 then emit s' else s'
  end.

(* the entry containing start (sort.Search with the same predicate as in Scan) and what follows it *)
Fixpoint seek (m : list (Z * Z)) (start : Z) : list (Z * Z) :=
  match m with
  | [] => []
  | e :: rest =>
      match rest with
      | [] => m
      | (s', _) :: _ => if s' >? start then m else seek rest start
      end
  end.

Fixpoint cm_loop (dv : Z) (rest : list (Z * Z)) (index target strike : Z) (s : cstate) : cstate :=
  match rest with
  | [] => s
  | (st, tg) :: rest' => cm_loop dv rest' st tg (st - index) (consume dv s index st target strike)
  end.

Definition compressed_map (m : list (Z * Z)) (start : Z) : list centry :=
  match seek m start with
  | [] => []
  | (_, tg) :: rest => rev (snd (emit (cm_loop (last_target m) rest start tg 0 (None, []))))
  end.

(* ---- mapRune: binary search over tmRuneRanges ---- *)
Definition dce : centry := mkCE 0 0 0 [].

Fixpoint map_rune_loop (fuel : nat) (ranges : list centry) (dflt : Z) (c : Z) (lo hi : Z) : Z :=
  match fuel with
  | O => dflt
  | S f =>
      if lo <? hi then
        let m := lo + (hi - lo) / 2 in
        let r := nth (Z.to_nat m) ranges dce in
        if c <? ce_lo r then map_rune_loop f ranges dflt c lo m
        else if c >=? ce_hi r then map_rune_loop f ranges dflt c (m + 1) hi
        else
          let i := c - ce_lo r in
          if i <? Z.of_nat (length (ce_vals r)) then nth (Z.to_nat i) (ce_vals r) 0 else ce_default r
      else dflt
  end.

Definition map_rune (ranges : list centry) (dflt : Z) (c : Z) : Z :=
  map_rune_loop (S (length ranges)) ranges dflt c 0 (Z.of_nat (length ranges)).

(* the ranges are ascending and disjoint (evaluated on the generated tmRuneRanges on every run) *)
Fixpoint ranges_sortedb (lb : Z) (ranges : list centry) : bool :=
  match ranges with
  | [] => true
  | e :: t => (lb <=? ce_lo e) && (ce_lo e <=? ce_hi e) && ranges_sortedb (ce_hi e) t
  end.

(* ---- what the templates emit for a symbol map, and the class lookup of the DFA loop (ch >= 0) ---- *)
Record rune_tables := mkRT { rt_class : list Z; rt_ranges : list centry; rt_use_map : bool; rt_last : Z }.

Definition rune_tables_of (m : list (Z * Z)) : rune_tables :=
  if last_start m >? 2048 then mkRT (symbol_arr m 256) (compressed_map m 256) true (last_target m)
  else mkRT (symbol_arr m 0) [] false (last_target m).

Definition rune_class (rt : rune_tables) (ch : Z) : Z :=
  if ch <? Z.of_nat (length (rt_class rt)) then nth (Z.to_nat ch) (rt_class rt) 0
  else if rt_use_map rt then map_rune (rt_ranges rt) (rt_last rt) ch
  else rt_last rt.
