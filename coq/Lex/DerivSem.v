(* C09 specification side, declarative part: the language of a symbol-level regular expression (Deriv.rx) as a
   predicate over words of input symbols (code points / bytes; the end-of-input marker {eoi} is the symbol -1), and the
   vocabulary of the statement spec_scan_correct: the symbols a text decodes into, candidate words, "some rule matches",
   "some rule can still extend", the winning rule.  Definitions only (proofs: Deriv_proofs.v). *)
From Coq Require Import List ZArith Bool.
From TM Require Import Lex.Tables Lex.Charset Lex.RegexParse Lex.RegexSpec Lex.Deriv.
Import ListNotations.
Local Open Scope Z_scope.

(* number of copies k admitted by the bounds {mn,mx} (mx < 0: unbounded).  For bounds with mn <= mx the second
   disjunct of the lower bound is subsumed; it records what the matcher does with mx < mn (exactly mx copies). *)
Definition rep_count (mn mx k : Z) : Prop := (mx < 0 \/ k <= mx) /\ (mn <= k \/ k = mx).

(* denotational form *)
Fixpoint lang (r : rx) (w : list Z) : Prop :=
  match r with
  | Void => False
  | Eps => w = []
  | Sym cs => exists c, w = [c] /\ mem c cs = true
  | Cat a b => exists u v, w = u ++ v /\ lang a u /\ lang b v
  | Alt a b => lang a w \/ lang b w
  | Rep mn mx s => exists ws, w = concat ws /\ Forall (lang s) ws /\ rep_count mn mx (Z.of_nat (length ws))
  end.

(* the same as an inductive predicate *)
Inductive matches : rx -> list Z -> Prop :=
| MEps : matches Eps []
| MSym cs c : mem c cs = true -> matches (Sym cs) [c]
| MCat a b u v : matches a u -> matches b v -> matches (Cat a b) (u ++ v)
| MAltL a b w : matches a w -> matches (Alt a b) w
| MAltR a b w : matches b w -> matches (Alt a b) w
| MRep mn mx s ws : Forall (matches s) ws -> rep_count mn mx (Z.of_nat (length ws)) -> matches (Rep mn mx s) (concat ws).

Definition derivs (w : list Z) (r : rx) : rx := fold_left (fun r c => deriv c r) w r.

(* ---- rule sets ---- *)
Definition some_rule (P : rx -> Prop) (rules : list srule) : Prop :=
  exists r a p, In (r, a, p) rules /\ P r.

(* some rule matches exactly w *)
Definition rule_matches (rules : list srule) (w : list Z) : Prop := some_rule (fun r => matches r w) rules.
(* some rule matches an extension of w *)
Definition extendable (rules : list srule) (w : list Z) : Prop := some_rule (fun r => exists e, matches r (w ++ e)) rules.

(* the rule that wins among those satisfying P: highest precedence, the earliest rule among equals; a is its action *)
Definition winner_of (P : rx -> Prop) (rules : list srule) (a : Z) : Prop :=
  exists idx r p, nth_error rules idx = Some (r, a, p) /\ P r /\
    forall idx' r' a' p', nth_error rules idx' = Some (r', a', p') -> P r' -> p' < p \/ (p' = p /\ (idx <= idx')%nat).
Definition winner (rules : list srule) (w : list Z) (a : Z) : Prop := winner_of (fun r => matches r w) rules a.

(* ---- texts ---- *)
(* the (symbol, width in bytes) sequence a text decodes into (UTF-8 with RuneError for invalid bytes, or bytes) *)
Fixpoint decode_all (fuel : nat) (bytes : bool) (text : list Z) : list (Z * nat) :=
  match fuel with
  | O => []
  | S f =>
      match text with
      | [] => []
      | _ => let '(c, w) := decode_b bytes text in (c, w) :: decode_all f bytes (skipn w text)
      end
  end.
Definition symbols (bytes : bool) (text : list Z) : list (Z * nat) := decode_all (length text) bytes text.

(* byte offset after the first i symbols *)
Definition offs (i : nat) (l : list (Z * nat)) : Z :=
  fold_right (fun cw acc => Z.of_nat (snd cw) + acc) 0 (firstn i l).

(* candidate words: the first i symbols, followed — at the end of the text only — by k <= kmax end markers *)
Definition word (l : list (Z * nat)) (i k : nat) : list Z := firstn i (map fst l) ++ repeat eoi_sym k.
Definition cand (kmax : nat) (l : list (Z * nat)) (i k : nat) : Prop :=
  (i <= length l)%nat /\ (k <= kmax)%nat /\ (k <> 0%nat -> i = length l).

(* the statement: the result of the oracle on symbols l, starting at byte offset pos with `last` remembered *)
Definition scan_spec (kmax : nat) (rules : list srule) (l : list (Z * nat)) (pos : Z) (last : option (Z * Z)) (res : Z * Z) : Prop :=
  (exists i k a, cand kmax l i k /\ res = (pos + offs i l, a) /\ winner rules (word l i k) a /\
      forall i' k', cand kmax l i' k' -> rule_matches rules (word l i' k') -> (i' + k' <= i + k)%nat)
  \/
  ((forall i k, cand kmax l i k -> ~ rule_matches rules (word l i k)) /\
   exists m, (m <= length l)%nat /\ res = sverdict last (pos + offs m l) /\
     (m = 0%nat \/ extendable rules (word l m 0)) /\
     forall m', (m' <= length l)%nat -> extendable rules (word l m' 0) -> (m' <= m)%nat).

(* ---- the parsed AST (RegexParse.re) itself: its language over symbols, without going through rx ---- *)
Definition lit_syms (b : bool) (text : list Z) : list Z := if b then text else runes_of (length text) text.

Fixpoint re_lang (r : re) (w : list Z) : Prop :=
  match r with
  | RLit b text _ => w = lit_syms b text
  | RCC cs _ => exists c, w = [c] /\ mem c cs = true
  | RRep mn mx s => exists ws, w = concat ws /\ Forall (re_lang s) ws /\ rep_count mn mx (Z.of_nat (length ws))
  | RCat l => (fix go (l : list re) (w : list Z) : Prop :=
                 match l with [] => w = [] | s :: t => exists u v, w = u ++ v /\ re_lang s u /\ go t v end) l w
  | RAlt l => (fix go (l : list re) : Prop := match l with [] => False | s :: t => re_lang s w \/ go t end) l
  | RExt name _ => name = [101; 111; 105] /\ w = [eoi_sym]      (* {eoi}; other references are not resolved here *)
  end.
