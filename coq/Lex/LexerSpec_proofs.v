(* C11 next_spec / C12 gaps_are_space_matches: the model of the generated lexer's Next returns the token the rules
   define.  Layers: (a) one run of the DFA loop of LexerRT (+ what handleInvalidToken does with the backup) is the
   reference run Scan.longest_accept of C09 on the rest of the source; (b) keyword switch; (c) the restart loop over
   space tokens; (d) the stream. *)
From Coq Require Import List ZArith Bool Lia.
From TM Require Import Lib.ListX Lex.Tables Lex.Scan Lex.Scan_proofs Lex.LexerRT Lex.LexerRT_proofs Lex.LexerWf Lex.LexerWf_proofs
  Lex.Charset Lex.RegexParse Lex.RegexParse_proofs Lex.Deriv Lex.DerivSem Lex.Deriv_proofs Lex.Deriv_scan_proofs Lex.LexerSpec.
Import ListNotations.
Local Open Scope Z_scope.

(* ------------------------------------------------------------------ unfolding lemmas *)
Lemma eoi_run_S f t state backup : eoi_run (S f) t state backup =
  if state <? 0 then Some (state, backup)
  else let st := cell t state 0 in
       if (st >? action_start t) && (st <? 0) then let '(a, ns) := bt_entry t st in eoi_run f t ns (Some a)
       else eoi_run f t st backup.
Proof. reflexivity. Qed.

Lemma ref_eoi_S f t s len last : ref_eoi (S f) t s len last =
  match move t s 0 with Some s' => ref_eoi f t s' len (upd t s len last) | None => verdict (upd t s len last) len end.
Proof. reflexivity. Qed.

Lemma ref_text_nil f t s pos last : ref_text t (S f) s pos last [] = ref_eoi (S (Z.to_nat (nstates t))) t s pos last.
Proof. reflexivity. Qed.

Lemma ref_text_cons f t s pos last b r : ref_text t (S f) s pos last (b :: r) =
  let text := b :: r in
  match move t s (lookup_sym (symbol_map t) (fst (decode t text))) with
  | Some s' => ref_text t f s' (pos + Z.of_nat (snd (decode t text))) (upd t s pos last) (skipn (snd (decode t text)) text)
  | None => verdict (upd t s pos last) pos
  end.
Proof. cbn [ref_text]. destruct (decode t (b :: r)) as [c w]. reflexivity. Qed.

Lemma dfa_loop_S f lx state l hash backup : dfa_loop (S f) lx state l hash backup =
    if state <? 0 then Some (state, l, hash, backup)
    else
      let t := lx_tables lx in
      let first := action_start t in
      if l_ch l <? 0 then
        let st := cell t state 0 in
        if (st >? first) && (st <? 0) then
          let '(a, ns) := bt_entry t st in dfa_loop f lx ns l hash (Some (a, l_off l, hash))
        else dfa_loop f lx st l hash backup
      else
        let st := cell t state (lookup_sym (symbol_map t) (l_ch l)) in
        if st >? first then
          let '(st', backup') := if st <? 0 then let '(a, ns) := bt_entry t st in (ns, Some (a, l_off l, hash)) else (st, backup) in
          dfa_loop f lx st' (advance lx l) (wrap32u (hash * 31 + l_ch l)) backup'
        else dfa_loop f lx st l hash backup.
Proof. reflexivity. Qed.

Lemma decode_is_decode_b t s : decode t s = decode_b (scan_bytes t) s.
Proof. reflexivity. Qed.

(* ------------------------------------------------------------------ characters and symbols *)
Lemma read_char_decode bytes scan rest : rest <> [] ->
  read_char bytes scan rest =
  (fst (decode_b bytes rest), scan + Z.of_nat (snd (decode_b bytes rest)), skipn (snd (decode_b bytes rest)) rest).
Proof.
  intros Hne. destruct rest as [|b r]; [congruence|]. unfold read_char, decode_b. destruct bytes; cbn [orb].
  - reflexivity.
  - destruct (b <? 128) eqn:E.
    + unfold decode_rune. rewrite E. reflexivity.
    + destruct (decode_rune (b :: r)) as [c w]. reflexivity.
Qed.

Lemma decode_all_fuel bytes : forall f1 f2 text, (length text <= f1)%nat -> (length text <= f2)%nat ->
  decode_all f1 bytes text = decode_all f2 bytes text.
Proof.
  induction f1 as [|f1 IH]; intros f2 text H1 H2.
  - destruct text; [|cbn [length] in H1; lia]. destruct f2; reflexivity.
  - destruct text as [|b r]; [destruct f2; reflexivity|].
    destruct f2 as [|f2]; [cbn [length] in H2; lia|]. cbn [decode_all].
    pose proof (decode_b_width bytes (b :: r) ltac:(discriminate)) as W.
    destruct (decode_b bytes (b :: r)) as [c w]. cbn [snd] in W. f_equal.
    apply IH; rewrite skipn_length; cbn [length] in *; lia.
Qed.

Lemma symbols_cons bytes text : text <> [] ->
  symbols bytes text = (fst (decode_b bytes text), snd (decode_b bytes text)) :: symbols bytes (skipn (snd (decode_b bytes text)) text).
Proof.
  intros Hne. unfold symbols. destruct text as [|b r]; [congruence|]. cbn [length decode_all].
  pose proof (decode_b_width bytes (b :: r) ltac:(discriminate)) as W.
  destruct (decode_b bytes (b :: r)) as [c w]. cbn [fst snd] in *. f_equal.
  apply decode_all_fuel; rewrite skipn_length; cbn [length] in *; lia.
Qed.

Lemma symbols_nil bytes : symbols bytes [] = [].
Proof. reflexivity. Qed.

Lemma hash_syms_0 l size h : size <= 0 -> hash_syms l size h = h.
Proof. intros H. destruct l as [|[c w] r]; [reflexivity|]. cbn [hash_syms]. rewrite (proj2 (Z.leb_le size 0) H). reflexivity. Qed.

(* ------------------------------------------------------------------ (a) the DFA loop is the reference run *)
(* the hash of the first `size` bytes of the token starting at tk *)
Definition thash (bytes : bool) (src : list Z) (tk size : Z) : Z :=
  hash_syms (symbols bytes (skipn (Z.to_nat tk) src)) size 0.

(* backup (lexer) versus last accepting position (reference run) *)
Definition bk_rel (tk : Z) (bk : option (Z * Z * Z)) (last : option (Z * Z)) : Prop :=
  match bk, last with
  | None, None => True
  | Some (a, o, _), Some (p, a') => a' = a /\ o = tk + p
  | _, _ => False
  end.

Section Bridge.
  Variable lx : lexer.
  Notation t := (lx_tables lx).
  Notation bytes := (scan_bytes (lx_tables lx)).
  Hypothesis Hwf : wf_lexer_tables lx = true.
  Hypothesis Hchk : check_tables t = true.

  Definition bk_wf (src : list Z) (tk off : Z) (bk : option (Z * Z * Z)) : Prop :=
    match bk with
    | Some (a, o, hh) => tk <= o <= off /\ hh = thash bytes src tk (o - tk) /\ a <> 0
    | None => True
    end /\ (has_bt lx = false -> bk = None).

  Definition hash_inv (src : list Z) (tk off h : Z) : Prop :=
    forall size, off - tk <= size ->
      thash bytes src tk size = hash_syms (symbols bytes (skipn (Z.to_nat off) src)) (size - (off - tk)) h.

  (* what the final cell, the offset reached and the backup stand for *)
  Definition outcome (tk st off2 : Z) (b2 : option (Z * Z * Z)) : Z * Z :=
    let a0 := action_start t - st in
    if a0 =? 0 then match b2 with Some (a, o, _) => (o - tk, a) | None => (off2 - tk, 0) end
    else (off2 - tk, a0).

  Lemma cell_cases s y : 0 <= s < nstates t -> 0 <= y < num_symbols t ->
    let c := cell t s y in
    (0 <= c < nstates t /\ move t s y = Some c /\ (label t s = 0 \/ label t c <> 0)) \/
    (action_start t < c < 0 /\ move t s y = Some (snd (bt_entry t c)) /\ fst (bt_entry t c) = label t s /\ label t s <> 0 /\
       0 <= snd (bt_entry t c) < nstates t /\ label t (snd (bt_entry t c)) = 0) \/
    (c <= action_start t /\ move t s y = None /\ action_start t - c = label t s /\ 0 <= label t s).
  Proof.
    intros Hs Hy. destruct (chk_parts t Hchk) as (_ & _ & Hcell & _ & _).
    specialize (Hcell s y Hs Hy). unfold cell_ok in Hcell. unfold move. cbv zeta.
    assert (Has : action_start t <= -1) by (unfold action_start; lia).
    set (c := cell t s y) in *.
    destruct (Z.leb_spec 0 c) as [E0|E0].
    - left. apply andb_true_iff in Hcell. destruct Hcell as [C1 C2]. apply Z.ltb_lt in C1.
      split; [lia|]. split; [reflexivity|]. apply orb_true_iff in C2. destruct C2 as [C2|C2].
      + left. apply Z.eqb_eq in C2. exact C2.
      + right. apply negb_true_iff in C2. apply Z.eqb_neq in C2. exact C2.
    - destruct (c >? action_start t) eqn:E1.
      + right. left. rewrite Z.gtb_ltb in E1. apply Z.ltb_lt in E1.
        destruct (bt_entry t c) as [ba ns] eqn:Eb. cbn [fst snd].
        repeat (apply andb_true_iff in Hcell; destruct Hcell as [Hcell ?]).
        apply Z.eqb_eq in Hcell.
        repeat match goal with
        | H : negb (_ =? _) = true |- _ => apply negb_true_iff in H; apply Z.eqb_neq in H
        | H : (_ =? _) = true |- _ => apply Z.eqb_eq in H
        | H : (_ <=? _) = true |- _ => apply Z.leb_le in H
        | H : (_ <? _) = true |- _ => apply Z.ltb_lt in H
        end.
        split; [lia|]. split; [reflexivity|]. split; [assumption|]. split; [assumption|]. split; [lia|assumption].
      + right. right. rewrite Z.gtb_ltb in E1. apply Z.ltb_ge in E1.
        apply andb_true_iff in Hcell. destruct Hcell as [C1 C2]. apply Z.eqb_eq in C1. apply Z.leb_le in C2.
        split; [assumption|]. split; [reflexivity|]. split; assumption.
  Qed.

  Lemma no_bt_no_checkpoint c : has_bt lx = false -> action_start t < c < 0 -> False.
  Proof.
    unfold has_bt, action_start. intros H Hc. apply negb_false_iff in H. apply Nat.eqb_eq in H. rewrite H in Hc. cbn in Hc. lia.
  Qed.

  (* a stop cell: the verdict of the reference run is what handleInvalidToken reconstructs from the backup *)
  Lemma stop_outcome s c tk pos bk last :
    action_start t - c = label t s -> (label t s = 0 -> bk_rel tk bk last) ->
    verdict (upd t s pos last) pos = outcome tk c (tk + pos) bk.
  Proof.
    intros Ha HB. unfold outcome, upd. cbv zeta. rewrite Ha.
    destruct (Z.eqb_spec (label t s) 0) as [E|E].
    - specialize (HB E). destruct bk as [[[a o] hh]|], last as [[p a']|]; cbn [bk_rel] in HB; try contradiction.
      + destruct HB as (-> & ->). cbn [verdict]. f_equal. lia.
      + cbn [verdict]. f_equal. lia.
    - cbn [verdict]. f_equal. lia.
  Qed.

  Lemma eoi_run_nobt k : forall s eb c b', has_bt lx = false -> eoi_run k t s eb = Some (c, b') -> b' = eb.
  Proof.
    induction k as [|k IH]; intros s eb c b' Hb E; [discriminate|]. rewrite eoi_run_S in E.
    destruct (s <? 0); [inversion E; reflexivity|]. cbv zeta in E.
    destruct ((cell t s 0 >? action_start t) && (cell t s 0 <? 0)) eqn:Ec.
    - exfalso. apply andb_true_iff in Ec. destruct Ec as [E1 E2]. rewrite Z.gtb_ltb in E1. apply Z.ltb_lt in E1, E2.
      apply (no_bt_no_checkpoint (cell t s 0) Hb). lia.
    - eapply IH; eauto.
  Qed.

  (* the end-of-input phase *)
  Lemma eoi_bridge tk off h inc : forall k s eb last k' c b',
    (k <= k')%nat -> 0 <= s < nstates t ->
    eoi_run (S k) t s eb = Some (c, b') ->
    (label t s = 0 -> bk_rel tk (lift_backup eb off h inc) last) ->
    ref_eoi k' t s (off - tk) last = outcome tk c off (lift_backup b' off h inc) /\
    (forall a, b' = Some a -> eb = Some a \/ a <> 0).
  Proof.
    destruct (chk_parts t Hchk) as (Hns & _ & _ & _ & _).
    induction k as [|k IH]; intros s eb last k' c b' Hk Hs E HB.
    - exfalso. rewrite eoi_run_S in E. rewrite (proj2 (Z.ltb_ge s 0)) in E by lia. cbv zeta in E.
      destruct ((cell t s 0 >? action_start t) && (cell t s 0 <? 0)); [destruct (bt_entry t (cell t s 0))|]; discriminate.
    - destruct k' as [|k']; [lia|]. rewrite eoi_run_S in E. rewrite (proj2 (Z.ltb_ge s 0)) in E by lia. cbv zeta in E.
      rewrite ref_eoi_S.
      destruct (cell_cases s 0 Hs ltac:(lia)) as [(C1 & C2 & C3)|[(C1 & C2 & C3 & C4 & C5 & C6)|(C1 & C2 & C3 & C4)]]; rewrite C2.
      + rewrite (proj2 (Z.ltb_ge (cell t s 0) 0)) in E by lia. rewrite andb_false_r in E.
        apply (IH _ eb _ k' c b'); try assumption; try lia.
        intros Hl. destruct C3 as [C3|C3]; [|congruence]. unfold upd. rewrite C3. cbn. apply HB. assumption.
      + rewrite (proj2 (Z.gtb_lt _ _)) in E by lia. rewrite (proj2 (Z.ltb_lt _ 0)) in E by lia. cbn [andb] in E.
        destruct (bt_entry t (cell t s 0)) as [a ns] eqn:Eb. cbn [fst snd] in *.
        destruct (IH ns (Some a) (upd t s (off - tk) last) k' c b') as (R1 & R2); try assumption; try lia.
        { intros _. unfold upd. destruct (Z.eqb_spec (label t s) 0); [congruence|]. cbn [lift_backup bk_rel]. split; [congruence|lia]. }
        split; [exact R1|]. intros a0 Ha0. right. destruct (R2 a0 Ha0) as [R|R]; [inversion R; subst; congruence|exact R].
      + assert (Egt : (cell t s 0 >? action_start t) = false) by (rewrite Z.gtb_ltb; apply Z.ltb_ge; lia).
        rewrite Egt in E. cbn [andb] in E. rewrite eoi_run_S in E.
        assert (Has : action_start t <= -1) by (unfold action_start; lia).
        rewrite (proj2 (Z.ltb_lt (cell t s 0) 0)) in E by lia. inversion E; subst c b'. clear E.
        split; [|intros a Ha; left; exact Ha].
        rewrite (stop_outcome s (cell t s 0) tk (off - tk) (lift_backup eb off h inc) last C3 HB).
        replace (tk + (off - tk)) with off by lia. reflexivity.
  Qed.

  Lemma ref_text_ne f s pos last text : text <> [] -> ref_text t (S f) s pos last text =
    match move t s (lookup_sym (symbol_map t) (fst (decode_b bytes text))) with
    | Some s' => ref_text t f s' (pos + Z.of_nat (snd (decode_b bytes text))) (upd t s pos last) (skipn (snd (decode_b bytes text)) text)
    | None => verdict (upd t s pos last) pos
    end.
  Proof. intros H. destruct text as [|b r]; [congruence|]. rewrite ref_text_cons. reflexivity. Qed.

  Lemma hash_here src tk off h : tk <= off -> hash_inv src tk off h -> h = thash bytes src tk (off - tk).
  Proof. intros Ht Hh. rewrite (Hh (off - tk)) by lia. rewrite hash_syms_0 by lia. reflexivity. Qed.

  (* the DFA loop from any state reached inside a token *)
  Lemma dfa_bridge fuel : forall s l h bk last st l2 h2 b2,
    dfa_loop fuel lx s l h bk = Some (st, l2, h2, b2) ->
    linv lx l -> 0 <= s < nstates t -> l_tokoff l <= l_off l ->
    (label t s = 0 -> bk_rel (l_tokoff l) bk last) ->
    bk_wf (l_src l) (l_tokoff l) (l_off l) bk -> hash_inv (l_src l) (l_tokoff l) (l_off l) h ->
    (forall f', (length (skipn (Z.to_nat (l_off l)) (l_src l)) < f')%nat ->
       ref_text t f' s (l_off l - l_tokoff l) last (skipn (Z.to_nat (l_off l)) (l_src l)) = outcome (l_tokoff l) st (l_off l2) b2) /\
    st < 0 /\ linv lx l2 /\ same l l2 /\ l_off l <= l_off l2 /\
    bk_wf (l_src l) (l_tokoff l) (l_off l2) b2 /\ h2 = thash bytes (l_src l) (l_tokoff l) (l_off l2 - l_tokoff l).
  Proof.
    induction fuel as [|f IH]; intros s l h bk last st l2 h2 b2 E Hl Hs Htk HB Hbk Hh; [discriminate|].
    destruct (wf_parts lx Hwf) as (W1 & W2 & _ & _ & _ & _ & _ & Weoi & _).
    destruct (chk_parts t Hchk) as (_ & _ & _ & _ & Hsym).
    pose proof (li_off lx l Hl) as Hoff.
    destruct (l_ch l <? 0) eqn:Ech.
    - (* only end-of-input moves remain *)
      assert (He : l_off l = slen l) by (apply (linv_ch lx l Hl); assumption).
      change (dfa_loop (S f) lx s l h (lift_backup None (l_off l) h bk) = Some (st, l2, h2, b2)) in E.
      rewrite (dfa_eoi lx (S f) s l h bk None Ech) in E.
      destruct (eoi_run (S f) t s None) as [[c b]|] eqn:Er; [|discriminate]. inversion E; subst st l2 h2 b2. clear E.
      assert (Er2 : eoi_run (eoi_fuel t) t s None = Some (c, b)).
      { destruct (Weoi s Hs) as (r & Hr). destruct (le_lt_dec (S f) (eoi_fuel t)) as [Hle|Hgt].
        - exact (eoi_run_mono _ _ _ _ _ Er (eoi_fuel t) Hle).
        - pose proof (eoi_run_mono _ _ _ _ _ Hr (S f) ltac:(lia)) as Hm. rewrite Er in Hm. inversion Hm. subst r. exact Hr. }
      unfold eoi_fuel in Er2.
      destruct (eoi_bridge (l_tokoff l) (l_off l) h bk (S (Z.to_nat (nstates t))) s None last (S (Z.to_nat (nstates t))) c b
                  (le_n _) Hs Er2 HB) as (R1 & R2).
      assert (Htext : skipn (Z.to_nat (l_off l)) (l_src l) = []) by (apply skipn_all2; unfold slen in He; lia).
      split. { intros f' Hf'. rewrite Htext. destruct f' as [|f']; [cbn in Hf'; lia|]. rewrite ref_text_nil. exact R1. }
      split; [eapply eoi_run_neg; eauto|]. split; [assumption|]. split; [apply same_refl|]. split; [lia|].
      split; [|apply hash_here; assumption].
      destruct b as [a|]; cbn [lift_backup]; [|exact Hbk]. split.
      + split; [lia|]. split; [apply hash_here; assumption|]. destruct (R2 a eq_refl) as [R|R]; [discriminate|exact R].
      + intros Hb. pose proof (eoi_run_nobt _ _ _ _ _ Hb Er). discriminate.
    - (* a character is available *)
      assert (Hlt : l_off l < slen l).
      { destruct (Z.eq_dec (l_off l) (slen l)) as [E0|]; [|lia]. apply (linv_ch lx l Hl) in E0. congruence. }
      set (tk := l_tokoff l) in *. set (src := l_src l) in *. set (off := l_off l) in *.
      set (text := skipn (Z.to_nat off) src) in *.
      assert (Hne : text <> []).
      { intro E0. assert (Hz : length text = 0%nat) by (rewrite E0; reflexivity). unfold text in Hz. rewrite skipn_length in Hz.
        unfold slen in Hlt. fold src in Hlt. lia. }
      pose proof (li_read lx l Hl) as Hr. fold src off text in Hr. rewrite (read_char_decode _ _ _ Hne) in Hr.
      set (d := decode_b bytes text) in *.
      pose proof (decode_b_width bytes text Hne) as W. fold d in W.
      assert (Hc : l_ch l = fst d) by congruence. assert (Hsc : l_scan l = off + Z.of_nat (snd d)) by congruence.
      clear Hr.
      rewrite dfa_loop_S in E. rewrite (proj2 (Z.ltb_ge s 0)) in E by lia. cbv zeta in E. rewrite Ech in E.
      set (y := lookup_sym (symbol_map t) (l_ch l)) in *.
      destruct (advance_ok lx l Hl Hlt) as (Hl' & Hsame & Hoff' & Hscr). fold off in Hoff', Hscr.
      destruct Hsame as (Hs1 & Hs2 & Hs34). fold src in Hs1. fold tk in Hs2.
      assert (Hsame : same l (advance lx l)) by (unfold same; fold src tk; tauto).
      assert (Hskip : skipn (Z.to_nat (l_scan l)) src = skipn (snd d) text).
      { unfold text. rewrite skipn_skipn'. f_equal. lia. }
      assert (Hh' : hash_inv src tk (l_scan l) (wrap32u (h * 31 + l_ch l))).
      { intros size Hsz. rewrite (Hh size) by lia. fold text. rewrite (symbols_cons bytes text Hne). fold d. cbn [hash_syms].
        rewrite (proj2 (Z.leb_gt (size - (off - tk)) 0)) by lia. rewrite Hskip, Hc. f_equal. lia. }
      assert (Href : forall f' s', (length text < S f')%nat -> move t s y = Some s' ->
                 ref_text t (S f') s (off - tk) last text =
                 ref_text t f' s' (l_scan l - tk) (upd t s (off - tk) last) (skipn (Z.to_nat (l_scan l)) src)).
      { intros f' s' Hf' Hm. rewrite (ref_text_ne f' s (off - tk) last text Hne). fold d. rewrite <- Hc. fold y. rewrite Hm.
        rewrite Hskip. f_equal. lia. }
      assert (Hlen : (length (skipn (Z.to_nat (l_scan l)) src) < length text)%nat).
      { rewrite Hskip, skipn_length. destruct text; [congruence|]. cbn [length] in *. lia. }
      set (c := cell t s y) in *.
      destruct (cell_cases s y Hs (Hsym _)) as [(C1 & C2 & C3)|[(C1 & C2 & C3 & C4 & C5 & C6)|(C1 & C2 & C3 & C4)]]; fold c in C1, C2, C3.
      + (* plain move *)
        assert (Has : action_start t <= -1) by (unfold action_start; lia).
        rewrite (proj2 (Z.gtb_lt c (action_start t))) in E by lia. rewrite (proj2 (Z.ltb_ge c 0)) in E by lia.
        pose proof (IH c (advance lx l) _ bk (upd t s (off - tk) last) st l2 h2 b2 E Hl') as IHc.
        rewrite Hs1, Hs2, Hoff' in IHc.
        destruct IHc as (R1 & R2 & R3 & R4 & R5 & R6 & R7); try assumption; try lia.
        { intros Hlc. destruct C3 as [C3|C3]; [|congruence]. unfold upd. rewrite C3. cbn [Z.eqb]. apply HB. assumption. }
        { destruct Hbk as (B1 & B2). split; [|assumption]. destruct bk as [[[a o] hh]|]; [|exact I].
          destruct B1 as (? & ? & ?). repeat split; try assumption; lia. }
        split. { intros f' Hf'. destruct f' as [|f']; [lia|]. rewrite (Href f' c Hf' C2). apply R1. lia. }
        split; [assumption|]. split; [assumption|]. split; [eapply same_trans; eauto|]. split; [lia|]. split; assumption.
      + (* checkpoint *)
        fold c in C4, C5, C6.
        rewrite (proj2 (Z.gtb_lt c (action_start t))) in E by lia. rewrite (proj2 (Z.ltb_lt c 0)) in E by lia.
        destruct (bt_entry t c) as [a ns] eqn:Eb. cbn [fst snd] in *.
        pose proof (IH ns (advance lx l) _ (Some (a, off, h)) (upd t s (off - tk) last) st l2 h2 b2 E Hl') as IHc.
        rewrite Hs1, Hs2, Hoff' in IHc.
        destruct IHc as (R1 & R2 & R3 & R4 & R5 & R6 & R7); try assumption; try lia.
        { intros _. unfold upd. destruct (Z.eqb_spec (label t s) 0); [congruence|]. cbn [bk_rel]. split; [congruence|lia]. }
        { split.
          - split; [lia|]. split; [apply hash_here; assumption|congruence].
          - intros Hb. exfalso. apply (no_bt_no_checkpoint c Hb). lia. }
        split. { intros f' Hf'. destruct f' as [|f']; [lia|]. rewrite (Href f' ns Hf' C2). apply R1. lia. }
        split; [assumption|]. split; [assumption|]. split; [eapply same_trans; eauto|]. split; [lia|]. split; assumption.
      + (* stop cell *)
        assert (Has : action_start t <= -1) by (unfold action_start; lia).
        assert (Egt : (c >? action_start t) = false) by (rewrite Z.gtb_ltb; apply Z.ltb_ge; lia).
        rewrite Egt in E. destruct f as [|f0]; [discriminate|]. rewrite dfa_loop_S in E.
        rewrite (proj2 (Z.ltb_lt c 0)) in E by lia. inversion E; subst st l2 h2 b2. clear E. fold off.
        split.
        { intros f' Hf'. destruct f' as [|f']; [lia|]. rewrite (ref_text_ne f' s (off - tk) last text Hne). fold d. rewrite <- Hc. fold y.
          rewrite C2. rewrite (stop_outcome s c tk (off - tk) bk last C3 HB). replace (tk + (off - tk)) with off by lia. reflexivity. }
        split; [lia|]. split; [assumption|]. split; [apply same_refl|]. split; [lia|]. split; [assumption|].
        apply hash_here; assumption.
  Qed.
End Bridge.

(* ------------------------------------------------------------------ (b)+(c) one attempt, then Next; rule-token mode *)
Lemma assocZ_in {A} k (m : list (Z * A)) v : assocZ k m = Some v -> In (k, v) m.
Proof.
  unfold assocZ. destruct (find (fun e => fst e =? k) m) as [[k' v']|] eqn:F; [|discriminate].
  intros E. inversion E; subst v'. apply find_some in F. destruct F as [Hin Hk]. cbn [fst] in Hk. apply Z.eqb_eq in Hk. subst k'. exact Hin.
Qed.

Lemma kw_switch_ne lx a h txt : kw_targets_ok lx = true -> a <> inv_act lx -> kw_switch lx a h txt <> inv_act lx.
Proof.
  intros Hk Ha. unfold kw_switch. destruct (assocZ a (lx_kw lx)) as [subc|] eqn:E1; [|assumption].
  destruct (assocZ a (lx_mask lx)); [|assumption].
  match goal with |- context [find ?p subc] => destruct (find p subc) as [[[[b hh] key] a']|] eqn:F; [|assumption] end.
  apply find_some in F. destruct F as [Hin _]. apply assocZ_in in E1.
  unfold kw_targets_ok in Hk. rewrite forallb_forall in Hk. specialize (Hk _ E1). cbn [snd] in Hk.
  rewrite forallb_forall in Hk. specialize (Hk _ Hin). cbv beta iota in Hk. apply negb_true_iff in Hk. apply Z.eqb_neq in Hk. exact Hk.
Qed.

Lemma bytes_ok_skipn n src : bytes_ok src -> bytes_ok (skipn n src).
Proof. unfold bytes_ok. apply Forall_skipn'. Qed.

(* a space attempt of the specification is one piece of a gap *)
Lemma attempt_space_gap lx kwf act_of rules src pos tok e b :
  spec_attempt lx kwf act_of rules src pos = (tok, true, e) ->
  space_gap lx kwf act_of rules src e b -> space_gap lx kwf act_of rules src pos b.
Proof.
  unfold spec_attempt. intros Ha Hg.
  pose proof (spec_scan_correct (scan_bytes (lx_tables lx)) rules (skipn (Z.to_nat pos) src)) as Hc.
  destruct (spec_scan (scan_bytes (lx_tables lx)) rules (skipn (Z.to_nat pos) src)) as [size a].
  destruct (Z.eqb_spec a 0) as [E0|E0].
  - exfalso. destruct (size =? 0); [destruct (skipn (Z.to_nat pos) src)|]; discriminate.
  - inversion Ha as [[Ht Hm He]]. clear Ha.
    destruct Hc as [(i & k & a0 & Hcand & Hres & Hw & _)|(_ & m & _ & Hres & _)].
    + inversion Hres; subst size a0. clear Hres.
      destruct Hw as (idx & r & p & Hn & Hr & _). apply nth_error_In in Hn.
      subst e. eapply SG_cons; [exact Hn|exact Hcand|exact Hr|exact Hm|exact Hg].
    + cbn [sverdict] in Hres. inversion Hres. congruence.
Qed.

Section NextSpec.
  Variable lx : lexer.
  Notation t := (lx_tables lx).
  Notation bytes := (scan_bytes (lx_tables lx)).
  Hypothesis Hwf : wf_lexer_tables lx = true.
  Hypothesis Hchk : check_tables t = true.
  Hypothesis Hkw : kw_targets_ok lx = true.
  Hypothesis Hrt : lx_rule_token lx <> [].
  Variable sc : Z.
  Hypothesis Hsc : In (nthZ (state_map t) sc) (state_map t).
  Variable rules : list srule.
  Hypothesis Hcert : forall text, bytes_ok text -> longest_accept t sc text = spec_scan bytes rules text.
  Notation start := (nthZ (state_map t) sc).
  Notation idact := (fun a : Z => a).

  Lemma scan_at l : linv lx l -> l_off l < slen l ->
    l_scan l = l_off l + Z.of_nat (snd (decode_b bytes (skipn (Z.to_nat (l_off l)) (l_src l)))) /\
    skipn (Z.to_nat (l_off l)) (l_src l) <> [].
  Proof.
    intros Hl Hlt. assert (Hne : skipn (Z.to_nat (l_off l)) (l_src l) <> []).
    { intro E0. assert (Hz : length (skipn (Z.to_nat (l_off l)) (l_src l)) = 0%nat) by (rewrite E0; reflexivity).
      rewrite skipn_length in Hz. pose proof (li_off lx l Hl). unfold slen in *. lia. }
    split; [|exact Hne]. pose proof (li_read lx l Hl) as Hr. rewrite (read_char_decode _ _ _ Hne) in Hr. congruence.
  Qed.

  (* one attempt: DFA loop + finish = the specification of one attempt *)
  Lemma attempt_spec l st l2 h2 b2 tok sp l3 : linv lx l ->
    dfa_loop (inner lx l) lx start (tok_start l) 0 None = Some (st, l2, h2, b2) ->
    finish lx st l2 h2 b2 = (tok, sp, l3) ->
    spec_attempt lx (kwf_switch lx) idact rules (l_src l) (l_off l) = (tok, sp, l_off l3).
  Proof.
    intros Hl E Ef.
    pose proof (linv_tokfields lx l (l_off l) (l_line l) (l_off l - l_lineoff l + 1) Hl) as Hl1. fold (tok_start l) in Hl1.
    destruct (wf_parts lx Hwf) as (_ & _ & _ & _ & _ & Wst & _ & _ & _ & Hkwnone & _).
    pose proof (li_off lx l Hl) as Hoff.
    destruct (dfa_bridge lx Hwf Hchk _ start (tok_start l) 0 None None st l2 h2 b2 E Hl1) as (R1 & R2 & R3 & R4 & R5 & R6 & R7).
    { apply Wst. exact Hsc. }
    { cbn [tok_start l_tokoff l_off]. lia. }
    { intros _. exact I. }
    { split; [exact I|reflexivity]. }
    { intros size Hsz. cbn [tok_start l_tokoff l_off l_src]. unfold thash. replace (size - (l_off l - l_off l)) with size by lia. reflexivity. }
    cbn [tok_start l_src l_off l_tokoff] in R1, R5, R6, R7.
    destruct R4 as (S1 & S2 & _). cbn [tok_start l_src l_tokoff] in S1, S2.
    set (src := l_src l) in *. set (off := l_off l) in *.
    specialize (R1 (S (length (skipn (Z.to_nat off) src))) (Nat.lt_succ_diag_r _)). rewrite Z.sub_diag in R1.
    change (longest_accept t sc (skipn (Z.to_nat off) src) = outcome lx off st (l_off l2) b2) in R1.
    rewrite Hcert in R1 by (apply bytes_ok_skipn; exact (li_src lx l Hl)).
    assert (Hinv : inv_act lx = 0) by (unfold inv_act; destruct (lx_rule_token lx); [congruence|reflexivity]).
    rewrite Hinv in Hkwnone.
    pose proof (li_off lx l2 R3) as Hoff2.
    assert (Hbt : (if has_bt lx then b2 else None) = b2).
    { destruct (has_bt lx) eqn:Eb; [reflexivity|]. destruct R6 as (_ & R6). symmetry. apply R6. exact Eb. }
    unfold spec_attempt. rewrite R1. unfold outcome. cbv zeta. unfold tok_of. rewrite Hinv.
    unfold finish in Ef. rewrite Hbt in Ef. rewrite S1, S2 in Ef.
    revert Ef. destruct (lx_rule_token lx) as [|r0 rt] eqn:Ert; [congruence|]. intros Ef.
    destruct (Z.eqb_spec (action_start t - st) 0) as [E0|E0].
    - rewrite E0 in Ef. rewrite (kw_none lx 0 _ _ Hkwnone) in Ef. rewrite Z.eqb_refl in Ef.
      destruct b2 as [[[a o] hh]|].
      + destruct R6 as ((B1 & B2 & B3) & _).
        destruct (rewind_ok lx l2 o R3 ltac:(lia)) as (A & (C1 & C2 & _) & C3).
        rewrite (proj2 (Z.eqb_neq a 0) B3). inversion Ef; subst tok sp l3. clear Ef.
        rewrite C1, C2, C3, S1, S2. unfold kwf_switch. replace (off + (o - off)) with o by lia.
        rewrite B2. unfold thash. reflexivity.
      + rewrite Z.eqb_refl. destruct (Z.eqb_spec (l_off l2) off) as [Ee|Ee].
        * rewrite Ee, Z.sub_diag, Z.eqb_refl.
          destruct (Z.eq_dec off (slen l)) as [Hend|Hmid].
          -- assert (Hnil : skipn (Z.to_nat off) src = []) by (apply skipn_all2; unfold slen in Hend; fold src in Hend; lia).
             rewrite Hnil. assert (Hend2 : l_off l2 = slen l2) by (unfold slen in *; rewrite S1; fold src in Hend; lia).
             destruct (linv_end lx l2 R3 Hend2) as (Hc & Hs & _). rewrite Hc, Z.eqb_refl, Hs in Ef.
             destruct (rewind_ok lx l2 (l_off l2) R3 ltac:(lia)) as (_ & _ & C3).
             inversion Ef; subst tok sp l3. rewrite C3, Ee. reflexivity.
          -- assert (Hlt2 : l_off l2 < slen l2) by (unfold slen in *; rewrite S1; fold src in Hoff, Hmid |- *; lia).
             destruct (scan_at l2 R3 Hlt2) as (Hs & Hne). rewrite S1, Ee in Hs, Hne.
             destruct (linv_mid lx l2 R3 Hlt2) as (Hch & Hscr & _).
             assert (Ec : (l_ch l2 =? -1) = false) by (apply Z.eqb_neq; lia). rewrite Ec in Ef.
             destruct (rewind_ok lx l2 (l_scan l2) R3 ltac:(lia)) as (_ & _ & C3).
             inversion Ef; subst tok sp l3. rewrite C3, Hs.
             destruct (skipn (Z.to_nat off) src) as [|b0 r1] eqn:Erest; [congruence|]. reflexivity.
        * rewrite (proj2 (Z.eqb_neq (l_off l2 - off) 0)) by lia. inversion Ef; subst tok sp l3.
          replace (off + (l_off l2 - off)) with (l_off l2) by lia. reflexivity.
    - rewrite (proj2 (Z.eqb_neq _ _) E0).
      assert (Hne : kw_switch lx (action_start t - st) h2 (sub src off (l_off l2)) <> 0).
      { rewrite <- Hinv. apply kw_switch_ne; [exact Hkw|rewrite Hinv; exact E0]. }
      rewrite (proj2 (Z.eqb_neq _ _) Hne) in Ef. inversion Ef; subst tok sp l3. clear Ef.
      unfold kwf_switch. replace (off + (l_off l2 - off)) with (l_off l2) by lia.
      rewrite R7. unfold thash. reflexivity.
  Qed.

  (* (c) the restart loop: Next = spec_next, and what was skipped is a sequence of matches of space rules *)
  Lemma next_spec fuel : forall l tok l', (remaining l < fuel)%nat -> linv lx l ->
    next_tok fuel lx sc l = Some (tok, l') ->
    spec_next fuel lx (kwf_switch lx) idact rules (l_src l) (l_off l) = Some (tok, l_tokoff l', l_off l') /\
    space_gap lx (kwf_switch lx) idact rules (l_src l) (l_off l) (l_tokoff l').
  Proof.
    induction fuel as [|f IH]; intros l tok l' Hf Hl En; [lia|].
    rewrite (next_tok_unfold lx sc f l) in En.
    destruct (attempt_ok lx Hwf sc Hsc l Hl) as (st & l2 & h2 & b2 & E & Hfin).
    rewrite E in En. destruct (finish lx st l2 h2 b2) as [[tok0 sp] l3] eqn:Ef.
    destruct (Hfin tok0 sp l3 eq_refl) as (Hl3 & (S1 & S2 & _) & Hprog).
    cbn [tok_start l_src l_tokoff] in S1, S2.
    pose proof (attempt_spec l st l2 h2 b2 tok0 sp l3 Hl E Ef) as Ha.
    cbn [spec_next]. rewrite Ha.
    pose proof (li_off lx l Hl) as Hoff. pose proof (li_off lx l3 Hl3) as Hoff3.
    assert (Hslen : slen l3 = slen l) by (unfold slen; rewrite S1; reflexivity).
    destruct sp.
    - destruct Hprog as [Hp|(_ & _ & _ & Hsp)]; [|discriminate].
      destruct (IH l3 tok l') as (I1 & I2); [unfold remaining in *; lia|assumption|assumption|].
      rewrite S1 in I1, I2. split; [exact I1|].
      eapply attempt_space_gap; eauto.
    - inversion En; subst tok0 l3. split; [rewrite S2; reflexivity|]. rewrite S2. apply SG_nil.
  Qed.

  Definition obs3 (o : list Z) : Z * Z * Z := (nth 0 o 0, nth 1 o 0, nth 2 o 0).

  (* (d) the stream *)
  Lemma lex_all_spec n : forall l toks, linv lx l -> lex_all n lx sc l = Some toks ->
    spec_all n lx (kwf_switch lx) idact rules (l_src l) (l_off l) = Some (map obs3 toks).
  Proof.
    induction n as [|n IH]; intros l toks Hl Ea; [discriminate|].
    cbn [lex_all] in Ea. cbn [spec_all].
    destruct (next_terminates lx Hwf sc Hsc l Hl) as (tok & l' & En & F1 & F2 & _).
    rewrite En in Ea.
    destruct (next_spec (next_fuel l) l tok l' ltac:(unfold next_fuel; lia) Hl En) as (Hs & _).
    unfold next_fuel, remaining, slen in Hs. rewrite Hs.
    destruct (tok =? 0).
    - inversion Ea; subst toks. reflexivity.
    - destruct (lex_all n lx sc l') as [r|] eqn:Er; [|discriminate]. inversion Ea; subst toks.
      pose proof (IH l' r F1 Er) as Hr. rewrite F2 in Hr. rewrite Hr. reflexivity.
  Qed.
End NextSpec.

(* ------------------------------------------------------------------ closed forms *)
Definition certified (t : tables) (sc : Z) (rules : list srule) : Prop :=
  forall text, bytes_ok text -> longest_accept t sc text = spec_scan (scan_bytes t) rules text.

Theorem next_is_specified_token lx sc rules l :
  wf_lexer_tables lx = true -> check_tables (lx_tables lx) = true -> kw_targets_ok lx = true -> lx_rule_token lx <> [] ->
  In (nthZ (state_map (lx_tables lx)) sc) (state_map (lx_tables lx)) ->
  certified (lx_tables lx) sc rules -> linv lx l ->
  exists tok l', next_tok (next_fuel l) lx sc l = Some (tok, l') /\
    spec_next (next_fuel l) lx (kwf_switch lx) (fun a => a) rules (l_src l) (l_off l) = Some (tok, l_tokoff l', l_off l') /\
    space_gap lx (kwf_switch lx) (fun a => a) rules (l_src l) (l_off l) (l_tokoff l').
Proof.
  intros Hwf Hchk Hkw Hrt Hsc Hcert Hl.
  destruct (next_terminates lx Hwf sc Hsc l Hl) as (tok & l' & En & _).
  exists tok, l'. split; [exact En|].
  apply (next_spec lx Hwf Hchk Hkw Hrt sc Hsc rules Hcert (next_fuel l) l tok l'); [unfold next_fuel; lia|exact Hl|exact En].
Qed.

Theorem stream_is_specified lx sc rules src :
  wf_lexer_tables lx = true -> check_tables (lx_tables lx) = true -> kw_targets_ok lx = true -> lx_rule_token lx <> [] ->
  In (nthZ (state_map (lx_tables lx)) sc) (state_map (lx_tables lx)) ->
  certified (lx_tables lx) sc rules -> bytes_ok src ->
  exists toks, lex_all (S (length src)) lx sc (LexerRT.init lx src) = Some toks /\
    spec_all (S (length src)) lx (kwf_switch lx) (fun a => a) rules src 0 = Some (map obs3 toks).
Proof.
  intros Hwf Hchk Hkw Hrt Hsc Hcert Hsrc. destruct (init_ok lx src Hsrc) as (Hi & Hs & Ho).
  destruct (tokens_finite_and_end_in_eoi lx Hwf sc Hsc (S (length src)) (LexerRT.init lx src)) as (toks & E & _).
  - unfold remaining, slen. rewrite Hs, Ho. lia.
  - exact Hi.
  - exists toks. split; [exact E|].
    pose proof (lex_all_spec lx Hwf Hchk Hkw Hrt sc Hsc rules Hcert (S (length src)) (LexerRT.init lx src) toks Hi E) as H.
    rewrite Hs, Ho in H. exact H.
Qed.

(* (a) as a statement of its own: one run of the DFA loop from the start state at a token start, read through
   handleInvalidToken's use of the backup (outcome), is the reference run of C09 on the rest of the source *)
Theorem attempt_is_longest_accept lx sc l st l2 h2 b2 :
  wf_lexer_tables lx = true -> check_tables (lx_tables lx) = true ->
  In (nthZ (state_map (lx_tables lx)) sc) (state_map (lx_tables lx)) -> linv lx l ->
  dfa_loop (inner lx l) lx (nthZ (state_map (lx_tables lx)) sc) (tok_start l) 0 None = Some (st, l2, h2, b2) ->
  longest_accept (lx_tables lx) sc (skipn (Z.to_nat (l_off l)) (l_src l)) = outcome lx (l_off l) st (l_off l2) b2 /\
  st < 0 /\ l_off l <= l_off l2 /\
  h2 = thash (scan_bytes (lx_tables lx)) (l_src l) (l_off l) (l_off l2 - l_off l) /\
  match b2 with
  | Some (a, o, hh) => l_off l <= o <= l_off l2 /\ hh = thash (scan_bytes (lx_tables lx)) (l_src l) (l_off l) (o - l_off l) /\ a <> 0
  | None => True
  end.
Proof.
  intros Hwf Hchk Hsc Hl E.
  pose proof (linv_tokfields lx l (l_off l) (l_line l) (l_off l - l_lineoff l + 1) Hl) as Hl1. fold (tok_start l) in Hl1.
  destruct (wf_parts lx Hwf) as (_ & _ & _ & _ & _ & Wst & _).
  destruct (dfa_bridge lx Hwf Hchk _ _ (tok_start l) 0 None None st l2 h2 b2 E Hl1) as (R1 & R2 & R3 & R4 & R5 & R6 & R7).
  { apply Wst. exact Hsc. }
  { cbn [tok_start l_tokoff l_off]. lia. }
  { intros _. exact I. }
  { split; [exact I|reflexivity]. }
  { intros size Hsz. cbn [tok_start l_tokoff l_off l_src]. unfold thash. replace (size - (l_off l - l_off l)) with size by lia. reflexivity. }
  cbn [tok_start l_src l_off l_tokoff] in R1, R5, R6, R7.
  specialize (R1 (S (length (skipn (Z.to_nat (l_off l)) (l_src l)))) (Nat.lt_succ_diag_r _)). rewrite Z.sub_diag in R1.
  split; [exact R1|]. split; [exact R2|]. split; [exact R5|]. split; [exact R7|]. exact (proj1 R6).
Qed.

(* the certificate of C09 (check_bisim) provides the hypothesis `certified` *)
From TM Require Lex.Bisim Lex.Bisim_proofs.

Lemma check_bisim_certified cap t rules sc : Bisim.check_bisim cap t rules sc = 0 -> certified t sc rules.
Proof.
  intros H text Hb. apply (Bisim_proofs.check_bisim_sound cap t rules sc H).
  unfold Bisim_proofs.bytes_ok. unfold bytes_ok in Hb. eapply Forall_impl; [|exact Hb]. cbv beta. intros a Ha. lia.
Qed.

(* ------------------------------------------------------------------ C12: gaps of the whole stream *)
Lemma lex_all_gaps lx sc rules :
  wf_lexer_tables lx = true -> check_tables (lx_tables lx) = true -> kw_targets_ok lx = true -> lx_rule_token lx <> [] ->
  In (nthZ (state_map (lx_tables lx)) sc) (state_map (lx_tables lx)) -> certified (lx_tables lx) sc rules ->
  forall n l toks, linv lx l -> lex_all n lx sc l = Some toks ->
  stream_gaps lx (kwf_switch lx) (fun a => a) rules (l_src l) (l_off l) toks.
Proof.
  intros Hwf Hchk Hkw Hrt Hsc Hcert. induction n as [|n IH]; intros l toks Hl Ea; [discriminate|].
  cbn [lex_all] in Ea.
  destruct (next_terminates lx Hwf sc Hsc l Hl) as (tok & l' & En & F1 & F2 & _).
  rewrite En in Ea.
  destruct (next_spec lx Hwf Hchk Hkw Hrt sc Hsc rules Hcert (next_fuel l) l tok l' ltac:(unfold next_fuel; lia) Hl En) as (_ & Hg).
  destruct (tok =? 0).
  - inversion Ea; subst toks. apply SGS_cons; [exact Hg|apply SGS_nil].
  - destruct (lex_all n lx sc l') as [r|] eqn:Er; [|discriminate]. inversion Ea; subst toks.
    apply SGS_cons; [exact Hg|]. pose proof (IH l' r F1 Er) as Hr. rewrite F2 in Hr. exact Hr.
Qed.

Theorem gaps_are_space_matches lx sc rules src :
  wf_lexer_tables lx = true -> check_tables (lx_tables lx) = true -> kw_targets_ok lx = true -> lx_rule_token lx <> [] ->
  In (nthZ (state_map (lx_tables lx)) sc) (state_map (lx_tables lx)) -> certified (lx_tables lx) sc rules -> bytes_ok src ->
  exists toks, lex_all (S (length src)) lx sc (LexerRT.init lx src) = Some toks /\
    stream_gaps lx (kwf_switch lx) (fun a => a) rules src 0 toks.
Proof.
  intros Hwf Hchk Hkw Hrt Hsc Hcert Hsrc. destruct (init_ok lx src Hsrc) as (Hi & Hs & Ho).
  destruct (tokens_finite_and_end_in_eoi lx Hwf sc Hsc (S (length src)) (LexerRT.init lx src)) as (toks & E & _).
  - unfold remaining, slen. rewrite Hs, Ho. lia.
  - exact Hi.
  - exists toks. split; [exact E|].
    pose proof (lex_all_gaps lx sc rules Hwf Hchk Hkw Hrt Hsc Hcert (S (length src)) (LexerRT.init lx src) toks Hi E) as H.
    rewrite Hs, Ho in H. exact H.
Qed.

Theorem gap_before_token lx sc rules l :
  wf_lexer_tables lx = true -> check_tables (lx_tables lx) = true -> kw_targets_ok lx = true -> lx_rule_token lx <> [] ->
  In (nthZ (state_map (lx_tables lx)) sc) (state_map (lx_tables lx)) ->
  certified (lx_tables lx) sc rules -> linv lx l ->
  exists tok l', next_tok (next_fuel l) lx sc l = Some (tok, l') /\
    space_gap lx (kwf_switch lx) (fun a => a) rules (l_src l) (l_off l) (l_tokoff l').
Proof.
  intros H1 H2 H3 H4 H5 H6 H7.
  destruct (next_is_specified_token lx sc rules l H1 H2 H3 H4 H5 H6 H7) as (tok & l' & E & _ & G). exists tok, l'. split; assumption.
Qed.
