(* Proofs about the model of lex/charset.go: set semantics and normal-form preservation. *)
From Coq Require Import List ZArith Bool Lia.
From TM Require Import Lex.Charset.
Import ListNotations.
Local Open Scope Z_scope.

Ltac zb1 :=
  match goal with
  | |- context [?a >? ?b] => rewrite (Z.gtb_ltb a b)
  | |- context [?a >=? ?b] => rewrite (Z.geb_leb a b)
  | H : context [?a >? ?b] |- _ => rewrite (Z.gtb_ltb a b) in H
  | H : context [?a >=? ?b] |- _ => rewrite (Z.geb_leb a b) in H
  | |- context [?a <=? ?b] => destruct (Z.leb_spec a b)
  | |- context [?a <? ?b] => destruct (Z.ltb_spec a b)
  | |- context [?a =? ?b] => destruct (Z.eqb_spec a b)
  | H : context [?a <=? ?b] |- _ => destruct (Z.leb_spec a b)
  | H : context [?a <? ?b] |- _ => destruct (Z.ltb_spec a b)
  | H : context [?a =? ?b] |- _ => destruct (Z.eqb_spec a b)
  end.
Ltac zb := unfold in_range in *; cbn [fst snd] in *; repeat zb1; cbn [andb orb negb] in *;
           try reflexivity; try discriminate; try lia.

Ltac splits := repeat match goal with |- _ /\ _ => split end.

Lemma mem_cons x p t : mem x (p :: t) = in_range x p || mem x t.
Proof. reflexivity. Qed.

Lemma mem_app x a b : mem x (a ++ b) = mem x a || mem x b.
Proof. unfold mem. apply existsb_app. Qed.

Lemma mem_rev x a : mem x (rev a) = mem x a.
Proof.
  induction a as [|p a IH]; [reflexivity|].
  cbn [rev]. rewrite mem_app, IH, mem_cons. cbn [mem existsb]. rewrite orb_false_r. apply orb_comm.
Qed.

Lemma wf_mono lb lb' cs : wf_cs lb cs -> lb' <= lb -> wf_cs lb' cs.
Proof. destruct cs as [|[lo hi] t]; cbn; [trivial|]. intros (H1 & H2 & H3) H. splits; try lia; assumption. Qed.

Lemma wf_mem_lt cs : forall lb x, wf_cs lb cs -> x < lb -> mem x cs = false.
Proof.
  induction cs as [|[lo hi] t IH]; intros lb x Hwf Hx; [reflexivity|].
  cbn in Hwf. destruct Hwf as (H1 & H2 & H3). rewrite mem_cons, (IH (hi + 2) x H3) by lia. zb.
Qed.

Lemma wf_app a : forall lb h b, wf_cs lb a -> (forall p, In p a -> snd p <= h) -> lb <= h + 2 -> wf_cs (h + 2) b ->
  wf_cs lb (a ++ b).
Proof.
  induction a as [|[lo hi] a IH]; intros lb h b Ha Hh Hlb Hb; cbn [app].
  - eapply wf_mono; eauto.
  - cbn in Ha. destruct Ha as (H1 & H2 & H3). cbn. splits; try assumption.
    apply IH with (h := h); try assumption.
    + intros p Hp. apply Hh. right. assumption.
    + specialize (Hh (lo, hi) (or_introl eq_refl)). cbn in Hh. lia.
Qed.

Lemma wf_csb_ok cs : forall lb, wf_csb lb cs = true <-> wf_cs lb cs.
Proof.
  induction cs as [|[lo hi] t IH]; intros lb; cbn; [tauto|].
  rewrite !andb_true_iff, IH, !Z.leb_le. tauto.
Qed.

(* ------------------------------------------------------------------ invert *)
Lemma invert_loop_mem r : forall next max, wf_cs next r -> Forall (fun p => snd p <= max) r ->
  forall x, mem x (invert_loop next r max) = (next <=? x) && (x <=? max) && negb (mem x r).
Proof.
  induction r as [|[lo hi] t IH]; intros next max Hwf Hmax x; cbn [invert_loop].
  - destruct (next <=? max) eqn:E; cbn [mem existsb]; zb.
  - cbn in Hwf. destruct Hwf as (H1 & H2 & H3). inversion Hmax as [|? ? Hm1 Hm2]; subst. cbn in Hm1.
    rewrite mem_app, (IH (hi + 1) max) by (try assumption; eapply wf_mono; eauto; lia).
    rewrite mem_cons.
    destruct (Z_le_gt_dec x hi) as [Hx|Hx].
    + rewrite (wf_mem_lt t (hi + 2) x H3) by lia.
      destruct (next <=? lo - 1) eqn:E; cbn [mem existsb]; zb.
    + destruct (mem x t); destruct (next <=? lo - 1) eqn:E; cbn [mem existsb]; zb.
Qed.

Lemma invert_loop_wf r : forall next max, wf_cs next r -> wf_cs next (invert_loop next r max).
Proof.
  induction r as [|[lo hi] t IH]; intros next max Hwf; cbn [invert_loop].
  - destruct (next <=? max) eqn:E; cbn; [|trivial]. apply Z.leb_le in E. lia.
  - cbn in Hwf. destruct Hwf as (H1 & H2 & H3).
    assert (Hr : wf_cs (hi + 1) (invert_loop (hi + 1) t max)) by (apply IH; eapply wf_mono; eauto; lia).
    destruct (next <=? lo - 1) eqn:E; cbn [app].
    + apply Z.leb_le in E. cbn. splits; try lia. eapply wf_mono; eauto. lia.
    + eapply wf_mono; eauto. lia.
Qed.

Theorem invert_spec : forall cs max, wf_cs 0 cs -> Forall (fun p => snd p <= max) cs ->
  wf_cs 0 (invert cs max) /\
  forall x, mem x (invert cs max) = (0 <=? x) && (x <=? max) && negb (mem x cs).
Proof.
  intros cs max Hwf Hmax. split.
  - apply invert_loop_wf. assumption.
  - intros x. apply invert_loop_mem; assumption.
Qed.

(* ------------------------------------------------------------------ subtract *)
Lemma wf_head lb lo hi t : wf_cs lb ((lo, hi) :: t) -> wf_cs lo ((lo, hi) :: t).
Proof. cbn. intros (H1 & H2 & H3). splits; try lia; assumption. Qed.

Lemma sub_one_spec oth : forall lo hi lbo o r, wf_cs lbo oth -> lo <= hi -> sub_one lo hi oth = (o, r) ->
  (forall x, mem x o = in_range x (lo, hi) && negb (mem x oth)) /\
  wf_cs lo o /\ (forall p, In p o -> snd p <= hi) /\
  (exists lbr, wf_cs lbr r) /\ (forall x, hi < x -> mem x r = mem x oth).
Proof.
  induction oth as [|[ol oh] t IH]; intros lo hi lbo o r Hwf Hlh Heq; cbn [sub_one] in Heq.
  - inversion Heq; subst. splits.
    + intros x. cbn [mem existsb]. zb.
    + cbn. lia.
    + intros p [Hp|[]]; subst; cbn; lia.
    + exists 0. exact I.
    + intros; reflexivity.
  - pose proof (wf_head _ _ _ _ Hwf) as Hwf'.
    cbn in Hwf. destruct Hwf as (H1 & H2 & H3).
    destruct (hi <? ol) eqn:E1.
    { apply Z.ltb_lt in E1. inversion Heq; subst. splits.
      - intros x. destruct (Z_lt_ge_dec x ol) as [Hx|Hx].
        + rewrite (wf_mem_lt _ ol x Hwf') by lia. cbn [mem existsb]. zb.
        + cbn [mem existsb]. zb.
      - cbn. lia.
      - intros p [Hp|[]]; subst; cbn; lia.
      - exists ol. exact Hwf'.
      - intros; reflexivity. }
    apply Z.ltb_ge in E1.
    destruct (oh <? lo) eqn:E2.
    { apply Z.ltb_lt in E2.
      destruct (IH lo hi (oh + 2) o r H3 Hlh Heq) as (I1 & I2 & I3 & I4 & I5).
      splits; try assumption.
      - intros x. rewrite I1, mem_cons. destruct (mem x t); zb.
      - intros x Hx. rewrite I5 by assumption. rewrite mem_cons. zb. }
    apply Z.ltb_ge in E2.
    destruct (oh + 1 >? hi) eqn:E3.
    { rewrite Z.gtb_ltb in E3. apply Z.ltb_lt in E3. inversion Heq; subst. splits.
      - intros x. rewrite mem_cons. destruct (Z_le_gt_dec x hi) as [Hx|Hx].
        + rewrite (wf_mem_lt t (oh + 2) x H3) by lia. destruct (lo <? ol) eqn:E; cbn [mem existsb]; zb.
        + destruct (mem x t); destruct (lo <? ol) eqn:E; cbn [mem existsb]; zb.
      - destruct (lo <? ol) eqn:E; cbn; [|trivial]. apply Z.ltb_lt in E. lia.
      - intros p Hp. destruct (lo <? ol) eqn:E; [|destruct Hp]. destruct Hp as [Hp|[]]; subst; cbn; lia.
      - exists ol. exact Hwf'.
      - intros; reflexivity. }
    rewrite Z.gtb_ltb in E3. apply Z.ltb_ge in E3.
    destruct (sub_one (oh + 1) hi t) as [o' r'] eqn:Es. inversion Heq; subst.
    destruct (IH (oh + 1) hi (oh + 2) o' r H3 E3 Es) as (I1 & I2 & I3 & I4 & I5).
    splits; try assumption.
    + intros x. rewrite mem_app, I1, mem_cons. destruct (Z_le_gt_dec x oh) as [Hx|Hx].
      * rewrite (wf_mem_lt t (oh + 2) x H3) by lia. destruct (lo <? ol) eqn:E; cbn [mem existsb]; zb.
      * destruct (mem x t); destruct (lo <? ol) eqn:E; cbn [mem existsb]; zb.
    + destruct (lo <? ol) eqn:E; cbn [app].
      * apply Z.ltb_lt in E. cbn. splits; try lia. eapply wf_mono; eauto. lia.
      * eapply wf_mono; eauto. lia.
    + intros p Hp. apply in_app_or in Hp. destruct Hp as [Hp|Hp]; [|apply I3; assumption].
      destruct (lo <? ol) eqn:E; [|destruct Hp]. destruct Hp as [Hp|[]]; subst; cbn; lia.
    + intros x Hx. rewrite I5 by assumption. rewrite mem_cons. zb.
Qed.

Lemma subtract_spec_gen c : forall oth lb lbo, wf_cs lb c -> wf_cs lbo oth ->
  wf_cs lb (subtract c oth) /\ forall x, mem x (subtract c oth) = mem x c && negb (mem x oth).
Proof.
  induction c as [|[lo hi] t IH]; intros oth lb lbo Hc Ho; cbn [subtract].
  - split; [exact I|reflexivity].
  - cbn in Hc. destruct Hc as (H1 & H2 & H3).
    destruct (sub_one lo hi oth) as [o r] eqn:Es.
    destruct (sub_one_spec oth lo hi lbo o r Ho H2 Es) as (I1 & I2 & I3 & (lbr & I4) & I5).
    destruct (IH r (hi + 2) lbr H3 I4) as (J1 & J2).
    split.
    + eapply wf_mono; [|exact H1]. apply wf_app with (h := hi); try assumption. lia.
    + intros x. rewrite mem_app, I1, J2, mem_cons.
      destruct (Z_le_gt_dec x hi) as [Hx|Hx].
      * rewrite (wf_mem_lt t (hi + 2) x H3) by lia. cbn [andb]. rewrite !orb_false_r. reflexivity.
      * rewrite (I5 x) by lia. destruct (mem x t), (mem x oth); zb.
Qed.

Theorem subtract_spec : forall a b lb lbb, wf_cs lb a -> wf_cs lbb b ->
  wf_cs lb (subtract a b) /\ forall x, mem x (subtract a b) = mem x a && negb (mem x b).
Proof. intros. eapply subtract_spec_gen; eauto. Qed.

(* ------------------------------------------------------------------ intersect *)
Lemma intersect_loop_spec fuel : forall a b lba lbb, wf_cs lba a -> wf_cs lbb b -> (length a + length b < fuel)%nat ->
  wf_cs (Z.max lba lbb) (intersect_loop fuel a b) /\
  forall x, mem x (intersect_loop fuel a b) = mem x a && mem x b.
Proof.
  induction fuel as [|f IH]; intros a b lba lbb Ha Hb Hf; [lia|].
  cbn [intersect_loop].
  destruct a as [|[alo ahi] ta]; [split; [exact I|reflexivity]|].
  destruct b as [|[blo bhi] tb]; [split; [exact I|intros; rewrite andb_false_r; reflexivity]|].
  pose proof (wf_head _ _ _ _ Ha) as Ha'. pose proof (wf_head _ _ _ _ Hb) as Hb'.
  cbn in Ha, Hb. destruct Ha as (A1 & A2 & A3). destruct Hb as (B1 & B2 & B3). cbn [length] in Hf.
  destruct (ahi <? blo) eqn:E1.
  { apply Z.ltb_lt in E1.
    destruct (IH ta ((blo, bhi) :: tb) (ahi + 2) blo A3 Hb') as (I1 & I2); [cbn [length]; lia|].
    split; [eapply wf_mono; eauto; lia|].
    intros x. rewrite I2, (mem_cons x (alo, ahi)).
    destruct (Z_lt_ge_dec x blo) as [Hx|Hx].
    - rewrite (wf_mem_lt _ blo x Hb') by lia. rewrite !andb_false_r. reflexivity.
    - assert (in_range x (alo, ahi) = false) as -> by zb. reflexivity. }
  apply Z.ltb_ge in E1.
  destruct (bhi <? alo) eqn:E2.
  { apply Z.ltb_lt in E2.
    destruct (IH ((alo, ahi) :: ta) tb alo (bhi + 2) Ha' B3) as (I1 & I2); [cbn [length]; lia|].
    split; [eapply wf_mono; eauto; lia|].
    intros x. rewrite I2, (mem_cons x (blo, bhi)).
    destruct (Z_lt_ge_dec x alo) as [Hx|Hx].
    - rewrite (wf_mem_lt _ alo x Ha') by lia. reflexivity.
    - assert (in_range x (blo, bhi) = false) as -> by zb. reflexivity. }
  apply Z.ltb_ge in E2.
  destruct (bhi <? ahi) eqn:E3.
  { apply Z.ltb_lt in E3.
    destruct (IH ((alo, ahi) :: ta) tb alo (bhi + 2) Ha' B3) as (I1 & I2); [cbn [length]; lia|].
    assert (Hlo : (if blo >? alo then blo else alo) <= bhi) by (destruct (blo >? alo); lia).
    apply Z.leb_le in Hlo. rewrite Hlo. cbn [app]. split.
    + apply Z.leb_le in Hlo. cbn [wf_cs]. split; [|split]; [| exact Hlo |].
      * destruct (blo >? alo) eqn:E; lia.
      * eapply wf_mono; [exact I1|]. lia.
    + intros x. rewrite mem_cons, I2, !(mem_cons x (blo, bhi)), (mem_cons x (alo, ahi)).
      destruct (Z_le_gt_dec x bhi) as [Hx|Hx].
      * rewrite (wf_mem_lt tb (bhi + 2) x B3), (wf_mem_lt ta (ahi + 2) x A3) by lia.
        destruct (blo >? alo) eqn:E; rewrite Z.gtb_ltb in E; zb.
      * destruct (mem x tb), (mem x ta); destruct (blo >? alo) eqn:E; rewrite Z.gtb_ltb in E; zb. }
  apply Z.ltb_ge in E3.
  destruct (IH ta ((blo, bhi) :: tb) (ahi + 2) blo A3 Hb') as (I1 & I2); [cbn [length]; lia|].
  assert (Hlo : (if blo >? alo then blo else alo) <= ahi) by (destruct (blo >? alo); lia).
  apply Z.leb_le in Hlo. rewrite Hlo. cbn [app]. split.
  + apply Z.leb_le in Hlo. cbn [wf_cs]. split; [|split]; [| exact Hlo |].
    * destruct (blo >? alo) eqn:E; lia.
    * eapply wf_mono; [exact I1|]. lia.
  + intros x. rewrite mem_cons, I2, !(mem_cons x (blo, bhi)), (mem_cons x (alo, ahi)).
    destruct (Z_le_gt_dec x ahi) as [Hx|Hx].
    * rewrite (wf_mem_lt ta (ahi + 2) x A3) by lia.
      destruct (Z_le_gt_dec x bhi) as [Hy|Hy].
      -- rewrite (wf_mem_lt tb (bhi + 2) x B3) by lia. destruct (blo >? alo) eqn:E; rewrite Z.gtb_ltb in E; zb.
      -- lia.
    * destruct (mem x tb), (mem x ta); destruct (blo >? alo) eqn:E; rewrite Z.gtb_ltb in E; zb.
Qed.

Theorem intersect_spec : forall a b lba lbb, wf_cs lba a -> wf_cs lbb b ->
  wf_cs (Z.max lba lbb) (intersect a b) /\ forall x, mem x (intersect a b) = mem x a && mem x b.
Proof. intros. unfold intersect. apply intersect_loop_spec; auto. Qed.

(* ------------------------------------------------------------------ newCharset *)
Definition valid (p : Z * Z) : Prop := fst p <= snd p.

Fixpoint lo_sorted (lb : Z) (l : charset) : Prop :=
  match l with
  | [] => True
  | p :: t => lb <= fst p /\ lo_sorted (fst p) t
  end.

Lemma lo_sorted_mono l : forall lb lb', lo_sorted lb l -> lb' <= lb -> lo_sorted lb' l.
Proof. destruct l as [|p t]; cbn; [trivial|]. intros lb lb' (H1 & H2) H. split; [lia|assumption]. Qed.

Lemma insert_mem x p l : mem x (insert_range p l) = in_range x p || mem x l.
Proof.
  induction l as [|y t IH]; [reflexivity|]. cbn [insert_range].
  destruct (range_lt y p); [|reflexivity].
  rewrite !mem_cons, IH. destruct (in_range x y), (in_range x p); reflexivity.
Qed.

Lemma insert_in q p l : In q (insert_range p l) <-> q = p \/ In q l.
Proof.
  induction l as [|y t IH]; cbn [insert_range].
  - cbn. intuition.
  - destruct (range_lt y p); cbn [In]; [rewrite IH|]; intuition.
Qed.

Lemma insert_sorted p l : forall lb, lo_sorted lb l -> lb <= fst p -> lo_sorted lb (insert_range p l).
Proof.
  induction l as [|y t IH]; intros lb Hs Hp; cbn [insert_range].
  - cbn. auto.
  - cbn in Hs. destruct Hs as (H1 & H2). unfold range_lt. 
    destruct ((fst y <? fst p) || (fst y =? fst p) && (snd y >? snd p)) eqn:E.
    + cbn. split; [assumption|]. apply IH; [assumption|].
      apply orb_true_iff in E. destruct E as [E|E]; [apply Z.ltb_lt in E; lia|].
      apply andb_true_iff in E. destruct E as [E _]. apply Z.eqb_eq in E. lia.
    + apply orb_false_iff in E. destruct E as [E1 E2]. apply Z.ltb_ge in E1.
      cbn. split; [assumption|]. split; [assumption|]. assumption.
Qed.

Lemma sort_mem x l : mem x (sort_ranges l) = mem x l.
Proof. induction l as [|p t IH]; [reflexivity|]. cbn [sort_ranges]. rewrite insert_mem, IH. reflexivity. Qed.

Lemma sort_in q l : In q (sort_ranges l) <-> In q l.
Proof. induction l as [|p t IH]; [tauto|]. cbn [sort_ranges]. rewrite insert_in, IH. cbn. intuition. Qed.

Lemma sort_sorted l : forall lb, (forall p, In p l -> lb <= fst p) -> lo_sorted lb (sort_ranges l).
Proof.
  induction l as [|p t IH]; intros lb H; [exact I|]. cbn [sort_ranges].
  apply insert_sorted; [apply IH; intros q Hq; apply H; right; assumption|apply H; left; reflexivity].
Qed.

Lemma merge_spec rest : forall cur, valid cur -> (forall p, In p rest -> valid p) -> lo_sorted (fst cur) rest ->
  wf_cs (fst cur) (merge_ranges cur rest) /\
  forall x, mem x (merge_ranges cur rest) = in_range x cur || mem x rest.
Proof.
  induction rest as [|[lo hi] t IH]; intros [cl ch] Hc Hv Hs; unfold valid in *; cbn [fst snd] in *.
  - cbn. split; [lia|]. intros x. reflexivity.
  - cbn [merge_ranges fst snd]. cbn in Hs. destruct Hs as (S1 & S2).
    assert (Hlh : lo <= hi) by (apply (Hv (lo, hi)); left; reflexivity).
    assert (Hv' : forall p, In p t -> fst p <= snd p) by (intros p Hp; apply Hv; right; assumption).
    destruct (lo <=? ch + 1) eqn:E.
    + apply Z.leb_le in E.
      destruct (IH (cl, if hi >=? ch + 1 then hi else ch)) as (I1 & I2); cbn [fst snd]; try assumption.
      * destruct (hi >=? ch + 1); lia.
      * eapply lo_sorted_mono; eauto.
      * split; [assumption|]. intros x. rewrite I2, mem_cons.
        destruct (mem x t); zb.
    + apply Z.leb_gt in E.
      destruct (IH (lo, hi)) as (I1 & I2); cbn [fst snd]; try assumption.
      split.
      * cbn. split; [lia|]. split; [assumption|]. eapply wf_mono; [exact I1|]. cbn [fst]. lia.
      * intros x. rewrite mem_cons, I2, mem_cons. reflexivity.
Qed.

Theorem new_charset_spec : forall r lb, (forall p, In p r -> lb <= fst p <= snd p) ->
  wf_cs lb (new_charset r) /\ forall x, mem x (new_charset r) = mem x r.
Proof.
  intros r lb H. unfold new_charset.
  pose proof (sort_sorted r lb (fun p Hp => proj1 (H p Hp))) as Hs.
  assert (Hv : forall p, In p (sort_ranges r) -> valid p).
  { intros p Hp. apply (proj1 (sort_in p r)) in Hp. destruct (H p Hp). unfold valid. lia. }
  assert (Hm : forall x, mem x (sort_ranges r) = mem x r) by (intros; apply sort_mem).
  destruct (sort_ranges r) as [|c t]; [split; [exact I|intros x; rewrite <- Hm; reflexivity]|].
  cbn in Hs. destruct Hs as (S1 & S2).
  destruct (merge_spec t c) as (M1 & M2); try assumption.
  - apply Hv. left. reflexivity.
  - intros p Hp. apply Hv. right. assumption.
  - split; [eapply wf_mono; eauto|]. intros x. rewrite M2, <- Hm. reflexivity.
Qed.

(* ------------------------------------------------------------------ appendRange *)
Lemma append_range_rev_mem rr lo hi x : lo <= hi -> (forall p, In p rr -> valid p) ->
  mem x (append_range_rev rr lo hi) = mem x rr || in_range x (lo, hi).
Proof.
  intros Hlh Hv. destruct rr as [|[s e] t]; cbn [append_range_rev].
  - cbn [mem existsb]. rewrite orb_false_r. reflexivity.
  - assert (Hse : s <= e) by (apply (Hv (s, e)); left; reflexivity).
    destruct ((lo <=? e + 1) && (s <=? hi + 1)) eqn:E.
    + apply andb_true_iff in E. destruct E as [E1 E2]. apply Z.leb_le in E1, E2.
      rewrite !mem_cons. destruct (mem x t); zb.
    + rewrite !mem_cons. destruct (in_range x (lo, hi)), (in_range x (s, e)), (mem x t); reflexivity.
Qed.

Lemma append_range_rev_valid rr lo hi : lo <= hi -> (forall p, In p rr -> valid p) ->
  forall p, In p (append_range_rev rr lo hi) -> valid p.
Proof.
  intros Hlh Hv p. destruct rr as [|[s e] t]; cbn [append_range_rev].
  - intros [Hp|[]]; subst; exact Hlh.
  - assert (Hse : s <= e) by (apply (Hv (s, e)); left; reflexivity).
    destruct ((lo <=? e + 1) && (s <=? hi + 1)) eqn:E.
    + intros [Hp|Hp]; [subst|apply Hv; right; assumption]. unfold valid. cbn [fst snd].
      zb.
    + intros [Hp|Hp]; [subst; exact Hlh|apply Hv; assumption].
Qed.

Theorem append_range_spec : forall r lo hi x, lo <= hi -> (forall p, In p r -> fst p <= snd p) ->
  mem x (append_range r lo hi) = mem x r || in_range x (lo, hi).
Proof.
  intros r lo hi x Hlh Hv. unfold append_range. rewrite mem_rev, append_range_rev_mem; try assumption.
  - rewrite mem_rev. reflexivity.
  - intros p Hp. apply in_rev in Hp. apply Hv. assumption.
Qed.

(* ------------------------------------------------------------------ fold *)
Lemma nat_iter_succ_r {A} (f : A -> A) k x : Nat.iter (S k) f x = Nat.iter k f (f x).
Proof. induction k as [|k IH]; [reflexivity|]. cbn [Nat.iter nat_rect] in *. rewrite IH. reflexivity. Qed.

Section FoldProofs.
  Variable sf : Z -> Z.

  Definition justified (ascii : bool) (src : Z -> Prop) (x : Z) : Prop :=
    exists c k, src c /\ x = Nat.iter k sf c /\ (ascii = false \/ x < 128).

  Lemma fold_orbit_props n : forall ascii c f out,
    (forall p, In p out -> valid p) ->
    (forall p, In p (fold_orbit sf n ascii c f out) -> valid p) /\
    (forall x, mem x out = true -> mem x (fold_orbit sf n ascii c f out) = true) /\
    (forall x, mem x (fold_orbit sf n ascii c f out) = true ->
       mem x out = true \/ (exists k, x = Nat.iter k sf f) /\ (ascii = false \/ x < 128)).
  Proof.
    induction n as [|n IH]; intros ascii c f out Hv; cbn [fold_orbit].
    - splits; auto.
    - destruct (f =? c); [splits; auto|].
      set (out' := if ascii && (f >=? 128) then out else append_range_rev out f f).
      assert (Hv' : forall p, In p out' -> valid p).
      { subst out'. destruct (ascii && (f >=? 128)); [assumption|]. apply append_range_rev_valid; [lia|assumption]. }
      assert (Hsup : forall x, mem x out = true -> mem x out' = true).
      { subst out'. intros x Hx. destruct (ascii && (f >=? 128)); [assumption|].
        rewrite append_range_rev_mem by (try lia; assumption). rewrite Hx. reflexivity. }
      assert (Hsnd : forall x, mem x out' = true -> mem x out = true \/ x = f /\ (ascii = false \/ x < 128)).
      { subst out'. intros x Hx. destruct (ascii && (f >=? 128)) eqn:E; [left; assumption|].
        rewrite append_range_rev_mem in Hx by (try lia; assumption).
        apply orb_true_iff in Hx. destruct Hx as [Hx|Hx]; [left; assumption|]. right.
        assert (x = f) by (revert Hx; zb). subst x. split; [reflexivity|].
        apply andb_false_iff in E. destruct E as [E|E]; [left; assumption|]. right. rewrite Z.geb_leb in E.
        apply Z.leb_gt in E. lia. }
      destruct (IH ascii c (sf f) out' Hv') as (I1 & I2 & I3). splits.
      + assumption.
      + intros x Hx. apply I2, Hsup, Hx.
      + intros x Hx. destruct (I3 x Hx) as [Ho|((k & Hk) & Hf)].
        * destruct (Hsnd x Ho) as [?|(? & ?)]; [left; assumption|]. right. split; [exists 0%nat; assumption|assumption].
        * right. split; [|assumption]. exists (S k). rewrite nat_iter_succ_r. assumption.
  Qed.

  (* the loop over one range lo..hi: after p steps the members lo .. lo+p-1 have been treated *)
  Lemma fold_range_props n ascii lo : forall p out0,
    (forall q, In q out0 -> valid q) ->
    let st := Pos.iter (fold_step sf n ascii) (lo, out0) p in
    fst st = lo + Zpos p /\
    (forall q, In q (snd st) -> valid q) /\
    (forall x, mem x out0 = true -> mem x (snd st) = true) /\
    (forall x, mem x (snd st) = true ->
       mem x out0 = true \/ justified ascii (fun c => lo <= c < lo + Zpos p) x).
  Proof.
    intros p out0 Hv.
    apply (Pos.iter_ind _ (fold_step sf n ascii) (lo, out0)
      (fun p st => fst st = lo + Zpos p /\ (forall q, In q (snd st) -> valid q) /\
        (forall x, mem x out0 = true -> mem x (snd st) = true) /\
        (forall x, mem x (snd st) = true -> mem x out0 = true \/ justified ascii (fun c => lo <= c < lo + Zpos p) x))).
    - unfold fold_step. cbn [fst snd].
      destruct (fold_orbit_props n ascii lo (sf lo) out0 Hv) as (I1 & I2 & I3). splits; auto.
      intros x Hx. destruct (I3 x Hx) as [?|((k & Hk) & Hf)]; [left; assumption|]. right.
      exists lo, (S k). split; [lia|]. split; [rewrite nat_iter_succ_r; assumption|assumption].
    - intros q [c out] (P1 & P2 & P3 & P4). cbn [fst snd] in *. unfold fold_step. cbn [fst snd].
      destruct (fold_orbit_props n ascii c (sf c) out P2) as (I1 & I2 & I3). splits; auto.
      + lia.
      + intros x Hx. destruct (I3 x Hx) as [Ho|((k & Hk) & Hf)].
        * destruct (P4 x Ho) as [?|(c0 & k0 & Hc0 & ? & ?)]; [left; assumption|]. right.
          exists c0, k0. split; [lia|]. split; assumption.
        * right. exists c, (S k). split; [lia|]. split; [rewrite nat_iter_succ_r; assumption|assumption].
  Qed.

  Lemma fold_ranges_props n ascii r : forall out0,
    (forall q, In q out0 -> valid q) ->
    (forall q, In q (fold_ranges sf n ascii r out0) -> valid q) /\
    (forall x, mem x out0 = true -> mem x (fold_ranges sf n ascii r out0) = true) /\
    (forall x, mem x (fold_ranges sf n ascii r out0) = true ->
       mem x out0 = true \/ justified ascii (fun c => mem c r = true) x).
  Proof.
    induction r as [|[lo hi] t IH]; intros out0 Hv; cbn [fold_ranges].
    - splits; auto.
    - unfold fold_range, Z.iter.
      destruct (hi - lo + 1) as [|p|p] eqn:Ep.
      + cbn [snd]. destruct (IH out0 Hv) as (I1 & I2 & I3). splits; auto.
        intros x Hx. destruct (I3 x Hx) as [?|(c & k & Hc & ? & ?)]; [left; assumption|]. right.
        exists c, k. split; [rewrite mem_cons, Hc; apply orb_true_r|split; assumption].
      + destruct (fold_range_props n ascii lo p out0 Hv) as (R1 & R2 & R3 & R4).
        destruct (IH _ R2) as (I1 & I2 & I3). splits; auto.
        intros x Hx. destruct (I3 x Hx) as [Ho|(c & k & Hc & ? & ?)].
        * destruct (R4 x Ho) as [?|(c & k & Hc & ? & ?)]; [left; assumption|]. right.
          exists c, k. split; [rewrite mem_cons; apply orb_true_iff; left; zb|split; assumption].
        * right. exists c, k. split; [rewrite mem_cons, Hc; apply orb_true_r|split; assumption].
      + cbn [snd]. destruct (IH out0 Hv) as (I1 & I2 & I3). splits; auto.
        intros x Hx. destruct (I3 x Hx) as [?|(c & k & Hc & ? & ?)]; [left; assumption|]. right.
        exists c, k. split; [rewrite mem_cons, Hc; apply orb_true_r|split; assumption].
  Qed.

  (* fold adds nothing but fold-orbit members of the set (ASCII only when asked), and loses nothing *)
  Theorem fold_sound_and_extensive : forall n cs ascii lb, (forall p, In p cs -> lb <= fst p <= snd p) ->
    (forall x, mem x cs = true -> mem x (fold sf n cs ascii) = true) /\
    (forall x, mem x (fold sf n cs ascii) = true ->
       mem x cs = true \/ exists c k, mem c cs = true /\ x = Nat.iter k sf c /\ (ascii = false \/ x < 128)).
  Proof.
    intros n cs ascii lb H. unfold fold.
    assert (Hv : forall q, In q (rev cs) -> valid q).
    { intros q Hq. apply in_rev in Hq. destruct (H q Hq). unfold valid. lia. }
    destruct (fold_ranges_props n ascii cs (rev cs) Hv) as (I1 & I2 & I3).
    set (out := fold_ranges sf n ascii cs (rev cs)) in *.
    (* new_charset keeps the set; validity is enough for that direction *)
    assert (Hm : forall x, mem x (new_charset (rev out)) = mem x out).
    { intros x. unfold new_charset.
      assert (Hvo : forall p, In p (sort_ranges (rev out)) -> valid p).
      { intros p Hp. apply (proj1 (sort_in p _)) in Hp. apply in_rev in Hp. apply I1. assumption. }
      assert (Hmm : mem x (sort_ranges (rev out)) = mem x out) by (rewrite sort_mem, mem_rev; reflexivity).
      destruct (sort_ranges (rev out)) as [|c t] eqn:Es; [rewrite <- Hmm; reflexivity|].
      assert (Hs : lo_sorted (fst c) t).
      { pose proof (sort_sorted (rev out) (fst c)) as S. rewrite Es in S. cbn in S.
        (* c is the least element by lo *)
        clear S. pose proof (sort_sorted (rev out)) as S.
        assert (exists m, forall p, In p (rev out) -> m <= fst p) as (m & Hmin).
        { clear. induction (rev out) as [|a l IHl]; [exists 0; intros p []|]. destruct IHl as (m & Hm).
          exists (Z.min m (fst a)). intros p [Hp|Hp]; [subst; lia|specialize (Hm p Hp); lia]. }
        specialize (S m Hmin). rewrite Es in S. cbn in S. destruct S as (_ & S). exact S. }
      destruct (merge_spec t c) as (_ & M2); try assumption.
      - apply Hvo. left. reflexivity.
      - intros p Hp. apply Hvo. right. assumption.
      - rewrite M2, <- Hmm. reflexivity. }
    split.
    - intros x Hx. rewrite Hm. apply I2. rewrite mem_rev. assumption.
    - intros x Hx. rewrite Hm in Hx. destruct (I3 x Hx) as [Ho|J]; [left; rewrite mem_rev in Ho; assumption|right; exact J].
  Qed.
End FoldProofs.
