(* C12: well-formedness predicate for the tables of a generated lexer (boolean, evaluated on the real tables of
   every generated and shipped lexer), the pure end-of-input run, and the uncapped token stream used in the
   statements.  Executable definitions only. *)
From Coq Require Import List ZArith Bool.
From TM Require Import Lex.Tables Lex.Scan Lex.LexerRT.
Import ListNotations.
Local Open Scope Z_scope.

(* the action / token that stands for "no rule matched" in a stop cell *)
Definition inv_act (lx : lexer) : Z :=
  match lx_rule_token lx with [] => lx_invalid lx | _ :: _ => 0 end.

(* the DFA loop at the end of the input (l.ch = -1): only end-of-input moves; backup = checkpoint action *)
Fixpoint eoi_run (fuel : nat) (t : tables) (state : Z) (backup : option Z) : option (Z * option Z) :=
  match fuel with
  | O => None
  | S f =>
      if state <? 0 then Some (state, backup)
      else
        let st := cell t state 0 in
        if (st >? action_start t) && (st <? 0) then
          let '(a, ns) := bt_entry t st in eoi_run f t ns (Some a)
        else eoi_run f t st backup
  end.

Definition eoi_fuel (t : tables) : nat := S (S (Z.to_nat (nstates t))).

(* the lexer state at the end of an (empty) input *)
Definition end_state : lstate := mkL [] 0 0 (-1) [] 0 1 1 0 1.

Definition lift_backup (b : option Z) (off hash : Z) (inc : option (Z * Z * Z)) : option (Z * Z * Z) :=
  match b with Some a => Some (a, off, hash) | None => inc end.

(* a start state never stops with a token on a real character without consuming it: its stop cells say "no match" *)
Definition start_ok (lx : lexer) (s0 : Z) : bool :=
  let t := lx_tables lx in
  forallb (fun y => let c := cell t s0 y in (0 <=? c) || (c =? action_start t - inv_act lx))
          (map (Z.add 1) (zrange (num_symbols t - 1))).

(* from a start state at the end of the input (nothing consumed) Next answers end-of-input, and not as a space token *)
Definition eoi_ok (lx : lexer) (s0 : Z) : bool :=
  let t := lx_tables lx in
  match eoi_run (eoi_fuel t) t s0 None with
  | None => false
  | Some (c, b) =>
      let '(tok, space, _) := finish lx c end_state 0 (lift_backup b 0 0 None) in
      (tok =? 0) && negb space
  end.

(* structural part: everything the DFA loop indexes is in range and end-of-input moves cannot cycle *)
Definition wf_tables (t : tables) : bool :=
  (0 <? num_symbols t) && (0 <? nstates t) && (Z.of_nat (length (dfa t)) =? nstates t * num_symbols t) &&
  forallb (fun c => c <? nstates t) (dfa t) &&                                       (* transitions in range *)
  forallb (fun e => (0 <=? snd e) && (snd e <? nstates t)) (backtrack t) &&         (* checkpoint targets in range *)
  forallb (fun s => (0 <=? s) && (s <? nstates t)) (state_map t) &&
  negb (Nat.eqb (length (symbol_map t)) 0) &&
  forallb (fun e => (1 <=? snd e) && (snd e <? num_symbols t)) (symbol_map t) &&    (* characters never map to the end marker *)
  forallb (fun s => match eoi_run (eoi_fuel t) t s None with Some _ => true | None => false end)
          (zrange (nstates t)).                                                     (* no end-of-input cycle *)

(* entry part: what a start state may do before anything is consumed (for lexers without hand-written actions) *)
Definition wf_entry (lx : lexer) : bool :=
  forallb (fun s0 => start_ok lx s0 && eoi_ok lx s0) (state_map (lx_tables lx)) &&
  (match assocZ (inv_act lx) (lx_kw lx) with None => true | Some _ => false end) &&
  (0 <=? inv_act lx).

Definition wf_lexer_tables (lx : lexer) : bool := wf_tables (lx_tables lx) && wf_entry lx.

(* remaining bytes, and the fuel Next needs: one attempt per remaining byte plus the final one *)
Definition remaining (l : lstate) : nat := Z.to_nat (slen l - l_off l).
Definition next_fuel (l : lstate) : nat := S (remaining l).

(* the whole token stream: Next until end-of-input; None = a call did not return within its fuel, or more than n calls *)
Fixpoint lex_all (n : nat) (lx : lexer) (sc : Z) (l : lstate) : option (list (list Z)) :=
  match n with
  | O => None
  | S n' =>
      match next_tok (next_fuel l) lx sc l with
      | None => None
      | Some (tok, l') =>
          if tok =? 0 then Some [obs tok l']
          else match lex_all n' lx sc l' with Some r => Some (obs tok l' :: r) | None => None end
      end
  end.
