(* C10, round 3: fold is EXACTLY the union of the fold orbits of the members (completeness added to
   Charset_proofs.fold_sound_and_extensive), with the normal form of the result. *)
From Coq Require Import List ZArith Bool Lia.
From TM Require Import Lex.Charset Lex.Charset_proofs.
Import ListNotations.
Local Open Scope Z_scope.

Lemma iter_plus {A} (f : A -> A) a b x : Nat.iter (a + b) f x = Nat.iter a f (Nat.iter b f x).
Proof.
  induction a as [|a IH]; [reflexivity|].
  change (f (Nat.iter (a + b) f x) = f (Nat.iter a f (Nat.iter b f x))). rewrite IH. reflexivity.
Qed.

Lemma valid_lower_bound (l : charset) : (forall p, In p l -> valid p) -> exists m, forall p, In p l -> m <= fst p <= snd p.
Proof.
  induction l as [|a l IH]; intros H; [exists 0; intros p []|].
  destruct IH as (m & Hm); [intros p Hp; apply H; right; exact Hp|].
  exists (Z.min m (fst a)). intros p [Hp|Hp].
  - subst. specialize (H p (or_introl eq_refl)). unfold valid in H. lia.
  - specialize (Hm p Hp). lia.
Qed.

Section FoldExact.
  Variable sf : Z -> Z.

  (* a closing orbit has a least period *)
  Lemma least_period c : forall n, (exists k, (1 <= k <= n)%nat /\ Nat.iter k sf c = c) ->
    exists k, (1 <= k <= n)%nat /\ Nat.iter k sf c = c /\ forall j, (1 <= j < k)%nat -> Nat.iter j sf c <> c.
  Proof.
    induction n as [|n IH]; intros (k & Hk & Ek); [lia|].
    destruct (Nat.eq_dec k (S n)) as [->|Hne].
    - (* is there a smaller one? *)
      assert (Hdec : (exists k', (1 <= k' <= n)%nat /\ Nat.iter k' sf c = c) \/ forall j, (1 <= j <= n)%nat -> Nat.iter j sf c <> c).
      { clear. induction n as [|n IH]; [right; intros j Hj; lia|].
        destruct IH as [(k' & Hk' & E)|Hno]; [left; exists k'; split; [lia|exact E]|].
        destruct (Z.eq_dec (Nat.iter (S n) sf c) c) as [E|N].
        - left. exists (S n). split; [lia|exact E].
        - right. intros j Hj. destruct (Nat.eq_dec j (S n)) as [->|Hne]; [exact N|apply Hno; lia]. }
      destruct Hdec as [Hex|Hno].
      + destruct (IH Hex) as (k' & Hk' & E' & Hmin). exists k'. split; [lia|]. split; [exact E'|exact Hmin].
      + exists (S n). split; [lia|]. split; [exact Ek|]. intros j Hj. apply Hno. lia.
    - assert (Hex : exists k0, (1 <= k0 <= n)%nat /\ Nat.iter k0 sf c = c) by (exists k; split; [lia|exact Ek]).
      destruct (IH Hex) as (k' & Hk' & E' & Hmin).
      exists k'. split; [lia|]. split; [exact E'|exact Hmin].
  Qed.

  Lemma iter_period c k : Nat.iter k sf c = c -> forall q, Nat.iter (q * k) sf c = c.
  Proof.
    intros E q. induction q as [|q IH]; [reflexivity|]. cbn [Nat.mul]. rewrite iter_plus, IH. exact E.
  Qed.

  Lemma iter_mod c k j : (k <> 0)%nat -> Nat.iter k sf c = c -> Nat.iter j sf c = Nat.iter (j mod k) sf c.
  Proof.
    intros Hk E. pose proof (Nat.div_mod j k Hk) as D.
    replace (Nat.iter j sf c) with (Nat.iter (j mod k + (j / k) * k) sf c) by (f_equal; lia).
    rewrite iter_plus, (iter_period c k E). reflexivity.
  Qed.

  (* the orbit loop adds f, sf f, ... as long as c is not reached *)
  Lemma fold_orbit_complete n : forall ascii c f out m, (forall p, In p out -> valid p) ->
    (m <= n)%nat -> (forall j, (j < m)%nat -> Nat.iter j sf f <> c) ->
    forall j, (j < m)%nat -> (ascii = false \/ Nat.iter j sf f < 128) ->
    mem (Nat.iter j sf f) (fold_orbit sf n ascii c f out) = true.
  Proof.
    induction n as [|n IH]; intros ascii c f out m Hv Hm Hne j Hj Hf; [lia|].
    cbn [fold_orbit]. destruct (Z.eqb_spec f c) as [E|N]; [exfalso; apply (Hne 0%nat); [lia|exact E]|].
    set (out' := if ascii && (f >=? 128) then out else append_range_rev out f f).
    assert (Hv' : forall p, In p out' -> valid p).
    { subst out'. destruct (ascii && (f >=? 128)); [assumption|]. apply append_range_rev_valid; [lia|assumption]. }
    destruct j as [|j].
    - cbn [Nat.iter nat_rect] in *.
      destruct (fold_orbit_props sf n ascii c (sf f) out' Hv') as (_ & I2 & _). apply I2.
      subst out'. assert (E : ascii && (f >=? 128) = false).
      { destruct Hf as [->|Hf]; [reflexivity|]. apply andb_false_iff. right. rewrite Z.geb_leb. apply Z.leb_gt. lia. }
      rewrite E. rewrite append_range_rev_mem by (try lia; assumption). apply orb_true_iff. right. zb.
    - rewrite nat_iter_succ_r. rewrite nat_iter_succ_r in Hf. apply (IH ascii c (sf f) out' (pred m)); try assumption; try lia.
      intros j' Hj'. rewrite <- nat_iter_succ_r. apply Hne. lia.
  Qed.

  (* all orbit members of c (other than c itself, which is a member already) are added by one step *)
  Lemma fold_step_complete n ascii c out : (forall p, In p out -> valid p) ->
    (exists k, (1 <= k <= n)%nat /\ Nat.iter k sf c = c) ->
    forall j, (ascii = false \/ Nat.iter j sf c < 128) ->
    Nat.iter j sf c = c \/ mem (Nat.iter j sf c) (fold_orbit sf n ascii c (sf c) out) = true.
  Proof.
    intros Hv Hex j Hf. destruct (least_period c n Hex) as (k & Hk & Ek & Hmin).
    rewrite (iter_mod c k j ltac:(lia) Ek) in *. pose proof (Nat.mod_upper_bound j k ltac:(lia)) as Hlt.
    destruct (j mod k)%nat as [|j'] eqn:Ej; [left; reflexivity|]. right.
    rewrite nat_iter_succ_r. rewrite nat_iter_succ_r in Hf.
    apply (fold_orbit_complete n ascii c (sf c) out (pred k)); try assumption; try lia.
    intros i Hi. rewrite <- nat_iter_succ_r. apply Hmin. lia.
  Qed.

  Definition closes (n : nat) (c : Z) : Prop := exists k, (1 <= k <= n)%nat /\ Nat.iter k sf c = c.

  Lemma fold_range_complete n ascii lo : forall p out0,
    (forall q, In q out0 -> valid q) ->
    (forall c, lo <= c < lo + Zpos p -> closes n c) ->
    let st := Pos.iter (fold_step sf n ascii) (lo, out0) p in
    fst st = lo + Zpos p /\ (forall q, In q (snd st) -> valid q) /\
    forall c j, lo <= c < lo + Zpos p -> (ascii = false \/ Nat.iter j sf c < 128) ->
      Nat.iter j sf c = c \/ mem (Nat.iter j sf c) (snd st) = true.
  Proof.
    intros p out0 Hv Hcl0. cbv zeta. revert Hcl0.
    apply (Pos.iter_ind _ (fold_step sf n ascii) (lo, out0)
      (fun p st => (forall c, lo <= c < lo + Zpos p -> closes n c) ->
        fst st = lo + Zpos p /\ (forall q, In q (snd st) -> valid q) /\
        forall c j, lo <= c < lo + Zpos p -> (ascii = false \/ Nat.iter j sf c < 128) ->
          Nat.iter j sf c = c \/ mem (Nat.iter j sf c) (snd st) = true)).
    - intros Hcl. unfold fold_step. cbn [fst snd].
      destruct (fold_orbit_props sf n ascii lo (sf lo) out0 Hv) as (I1 & _ & _). splits; [reflexivity|exact I1|].
      intros c j Hc Hf. assert (c = lo) by lia. subst c. apply fold_step_complete; [exact Hv|apply Hcl; lia|exact Hf].
    - intros q [c0 out] IHq Hcl. cbn [fst snd] in *. unfold fold_step. cbn [fst snd].
      destruct IHq as (P1 & P2 & P3); [intros c Hc; apply Hcl; lia|].
      destruct (fold_orbit_props sf n ascii c0 (sf c0) out P2) as (I1 & I2 & _). splits; [lia|exact I1|].
      intros c j Hc Hf. destruct (Z.eq_dec c c0) as [->|Hne].
      + apply fold_step_complete; [exact P2|apply Hcl; lia|exact Hf].
      + destruct (P3 c j ltac:(lia) Hf) as [E|Hm]; [left; exact E|right; apply I2; exact Hm].
  Qed.

  Lemma fold_range_complete' n ascii lo p out0 :
    (forall q, In q out0 -> valid q) -> (forall c, lo <= c < lo + Zpos p -> closes n c) ->
    forall c j, lo <= c < lo + Zpos p -> (ascii = false \/ Nat.iter j sf c < 128) ->
      Nat.iter j sf c = c \/ mem (Nat.iter j sf c) (snd (Pos.iter (fold_step sf n ascii) (lo, out0) p)) = true.
  Proof. intros Hv Hcl. exact (proj2 (proj2 (fold_range_complete n ascii lo p out0 Hv Hcl))). Qed.

  Lemma fold_ranges_complete n ascii r : forall out0,
    (forall q, In q out0 -> valid q) -> (forall c, mem c r = true -> closes n c) ->
    forall c j, mem c r = true -> (ascii = false \/ Nat.iter j sf c < 128) ->
      Nat.iter j sf c = c \/ mem (Nat.iter j sf c) (fold_ranges sf n ascii r out0) = true.
  Proof.
    induction r as [|[lo hi] t IH]; intros out0 Hv Hcl c j Hc Hf; [discriminate|].
    cbn [fold_ranges]. rewrite mem_cons in Hc.
    assert (Hclt : forall c, mem c t = true -> closes n c) by (intros c' Hc'; apply Hcl; rewrite mem_cons, Hc'; apply orb_true_r).
    unfold fold_range, Z.iter. destruct (hi - lo + 1) as [|p|p] eqn:Ep; cbn [snd].
    - apply orb_true_iff in Hc. destruct Hc as [Hc|Hc]; [exfalso; revert Hc; zb|]. apply IH; assumption.
    - destruct (fold_range_props sf n ascii lo p out0 Hv) as (_ & R2 & _).
      apply orb_true_iff in Hc. destruct Hc as [Hc|Hc]; [|apply IH; assumption].
      assert (Hin : lo <= c < lo + Z.pos p) by (revert Hc; zb).
      destruct (fold_range_complete' n ascii lo p out0 Hv) with (c := c) (j := j) as [E|Hm]; try assumption.
      + intros c' Hc'. apply Hcl. rewrite mem_cons. apply orb_true_iff. left. zb.
      + left. exact E.
      + right. destruct (fold_ranges_props sf n ascii t _ R2) as (_ & I2 & _). apply I2. exact Hm.
    - apply orb_true_iff in Hc. destruct Hc as [Hc|Hc]; [exfalso; revert Hc; zb|]. apply IH; assumption.
  Qed.

  (* fold, exactly: when the fold orbit of every member closes within the orbit bound n (SimpleFold walks a cycle),
     the result is in normal form and contains x iff x is a member or lies on the orbit of a member
     (and, in bytes mode, is below 0x80) *)
  Theorem fold_exact : forall n cs ascii lb, (forall p, In p cs -> lb <= fst p <= snd p) ->
    (forall c, mem c cs = true -> closes n c) ->
    (exists lb', wf_cs lb' (fold sf n cs ascii)) /\
    forall x, mem x (fold sf n cs ascii) = true <->
      (mem x cs = true \/ exists c j, mem c cs = true /\ x = Nat.iter j sf c /\ (ascii = false \/ x < 128)).
  Proof.
    intros n cs ascii lb H Hcl.
    destruct (fold_sound_and_extensive sf n cs ascii lb H) as (Hext & Hsound).
    assert (Hv : forall q, In q (rev cs) -> valid q).
    { intros q Hq. apply in_rev in Hq. destruct (H q Hq). unfold valid. lia. }
    destruct (fold_ranges_props sf n ascii cs (rev cs) Hv) as (I1 & I2 & I3).
    assert (Hvo : forall p, In p (rev (fold_ranges sf n ascii cs (rev cs))) -> valid p).
    { intros p Hp. apply in_rev in Hp. apply I1. exact Hp. }
    destruct (valid_lower_bound _ Hvo) as (m & Hm).
    destruct (new_charset_spec _ m Hm) as (Hwf & Hmem).
    split; [exists m; exact Hwf|]. intros x. split; [apply Hsound|].
    intros [Hx|(c & j & Hc & -> & Hf)]; [apply Hext; exact Hx|].
    destruct (fold_ranges_complete n ascii cs (rev cs) Hv Hcl c j Hc Hf) as [E|Hin].
    - rewrite E. apply Hext. exact Hc.
    - unfold fold. rewrite Hmem, mem_rev. exact Hin.
  Qed.
End FoldExact.
