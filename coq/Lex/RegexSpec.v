(* Specification side of C10: the DOCUMENTED meaning of a pattern, given as a syntax-directed description
   produced by the pattern generator (which knows what it wrote), evaluated with the proved charset operations
   (Charset_proofs.v), and a common language-level normal form for specification and implementation ASTs.
   Executable definitions only. *)
From Coq Require Import List ZArith Bool.
From TM Require Import Lex.Tables Lex.Charset Lex.RegexParse.
Import ListNotations.
Local Open Scope Z_scope.

(* a bracket expression: negation, member ranges (single characters, a-b ranges, resolved \d \w \p{..} sets),
   subtracted classes; or an already resolved set *)
Inductive scls : Type :=
| SSet (cs : charset)
| SCls (neg : bool) (items : list scls) (subs : list scls).

Inductive sre : Type :=
| SChr (fold : bool) (c : Z)                (* one code point, written literally or as an escape *)
| SCl (fold : bool) (c : scls)              (* a bracket expression *)
| SClE (fold : bool) (q : bool) (c : scls)  (* a class escape (\d \w \s \p{..} and complements) outside brackets;
                                               q: of the kind the implementation does not fold there (see lenient) *)
| SDot
| SRepS (mn mx : Z) (s : sre)
| SCatS (l : list sre)
| SAltS (l : list sre)
| SExtS (name : list Z).

(* language-level normal form shared by both sides *)
Inductive nre : Type :=
| NSet (cs : charset)
| NCat (l : list nre)
| NAlt (l : list nre)
| NRep (mn mx : Z) (s : nre)
| NExt (name : list Z).

Definition ncat (l : list nre) : nre :=
  let flat := flat_map (fun x => match x with NCat l' => l' | _ => [x] end) l in
  match flat with
  | [x] => x
  | _ => NCat flat
  end.

Definition nrep (mn mx : Z) (s : nre) : nre :=
  if mx =? 0 then NCat [] else
  match s with
  | NCat [] => NCat []
  | _ => NRep mn mx s
  end.

Definition nalt (l : list nre) : nre :=
  match l with
  | [x] => x
  | _ => NAlt l
  end.

(* decode a valid UTF-8 byte string into code points *)
Fixpoint runes_of (fuel : nat) (bs : list Z) : list Z :=
  match fuel with
  | O => []
  | S f =>
      match bs with
      | [] => []
      | _ => let '(r, w) := decode_rune bs in r :: runes_of f (skipn w bs)
      end
  end.

Section Spec.
  Variable sf : Z -> Z.
  Variable bytes : bool.
  (* lenient = true: a \d \w \s / unicode.Properties escape outside brackets is NOT case-folded.  Only used to classify a disagreement
     (known finding "fold-ignored-by-standalone-class-escape"), never to accept one. *)
  Variable lenient : bool.
  Definition smax : Z := if bytes then 255 else max_rune_u.
  Definition closure (cs : charset) : charset := fold sf 8 cs bytes.

  Fixpoint den_cls (c : scls) : charset :=
    match c with
    | SSet cs => cs
    | SCls neg items subs =>
        let base := new_charset (flat_map den_cls items) in
        let d := fold_left (fun acc s => subtract acc (den_cls s)) subs base in
        if neg then invert d smax else d
    end.

  (* the outermost class is folded before it is inverted *)
  Definition den_top (fold : bool) (c : scls) : charset :=
    match c with
    | SSet cs => if fold then closure cs else cs
    | SCls neg items subs =>
        let d := den_cls (SCls false items subs) in
        let d := if fold then closure d else d in
        if neg then invert d smax else d
    end.

  Definition den_chr (fold : bool) (c : Z) : nre :=
    if bytes && (c >? 127) then NCat (map (fun b => NSet [(b, b)]) (encode_rune c))
    else NSet (if fold then closure [(c, c)] else [(c, c)]).

  Fixpoint norm_spec (s : sre) : nre :=
    match s with
    | SChr f c => den_chr f c
    | SCl f c => NSet (den_top f c)
    | SClE f q c => NSet (den_top (f && negb (lenient && q)) c)
    | SDot => NSet [(0, 9); (11, smax)]
    | SRepS mn mx s => nrep mn mx (norm_spec s)
    | SCatS l => ncat (map norm_spec l)
    | SAltS l => nalt (map norm_spec l)
    | SExtS n => NExt n
    end.

  Fixpoint norm_impl (r : re) : nre :=
    match r with
    | RLit b text _ =>
        ncat (map (fun c => NSet [(c, c)]) (if b then text else runes_of (length text) text))
    | RCC cs _ => NSet (new_charset cs)     (* \s is stored as six adjacent singletons: compare sets, not lists *)
    | RRep mn mx s => nrep mn mx (norm_impl s)
    | RCat l => ncat (map norm_impl l)
    | RAlt l => nalt (map norm_impl l)
    | RExt n _ => NExt n
    end.
End Spec.
