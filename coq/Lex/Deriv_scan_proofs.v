(* C09: spec_scan (Deriv.v) computes the declarative statement scan_spec (DerivSem.v). *)
From Coq Require Import List ZArith Bool Lia.
From TM Require Import Lex.Tables Lex.Charset Lex.RegexParse Lex.RegexParse_proofs Lex.Deriv Lex.DerivSem Lex.Deriv_proofs.
Import ListNotations.
Local Open Scope Z_scope.

(* ---------- rule sets under a derivative step ---------- *)
Lemma in_step_rules c R r' a p : In (r', a, p) (step_rules c R) <-> exists r, In (r, a, p) R /\ r' = deriv c r.
Proof.
  unfold step_rules. rewrite in_map_iff. split.
  - intros (((r, a0), p0) & E & Hin). inversion E; subst. eauto.
  - intros (r & Hin & ->). exists (r, a, p). auto.
Qed.

Lemma nth_step_rules c R idx r' a p : nth_error (step_rules c R) idx = Some (r', a, p) <->
  exists r, nth_error R idx = Some (r, a, p) /\ r' = deriv c r.
Proof.
  unfold step_rules. rewrite nth_error_map. unfold srule in *.
  destruct (nth_error R idx) as [((r, a0), p0)|]; cbn [option_map].
  - split.
    + intros E. inversion E; subst. eexists. split; reflexivity.
    + intros (r0 & E & ->). inversion E; subst. reflexivity.
  - split; [discriminate|]. intros (r0 & E & _). discriminate.
Qed.

Lemma some_rule_step (P Q : rx -> Prop) c R : (forall r, P (deriv c r) <-> Q r) ->
  (some_rule P (step_rules c R) <-> some_rule Q R).
Proof.
  intros H. unfold some_rule. split.
  - intros (r' & a & p & Hin & Hp). apply in_step_rules in Hin. destruct Hin as (r & Hin & ->). exists r, a, p. split; [exact Hin|]. apply H. exact Hp.
  - intros (r & a & p & Hin & Hq). exists (deriv c r), a, p. split; [apply in_step_rules; eauto|]. apply H. exact Hq.
Qed.

Lemma rule_matches_step c R w : rule_matches (step_rules c R) w <-> rule_matches R (c :: w).
Proof. apply some_rule_step. intros r. apply deriv_correct. Qed.

Lemma extendable_step c R w : extendable (step_rules c R) w <-> extendable R (c :: w).
Proof.
  apply some_rule_step. intros r. split; intros (e & H); exists e; [apply deriv_correct in H|apply deriv_correct]; exact H.
Qed.

Lemma winner_step c R w a : winner (step_rules c R) w a -> winner R (c :: w) a.
Proof.
  unfold winner, winner_of. intros (idx & r' & p & Hn & Hm & Hbest).
  apply nth_step_rules in Hn. destruct Hn as (r & Hn & ->). exists idx, r, p. split; [exact Hn|].
  split; [apply deriv_correct; exact Hm|]. intros idx' r1 a1 p1 Hn1 Hm1.
  apply (Hbest idx' (deriv c r1) a1 p1); [apply nth_step_rules; eauto|apply deriv_correct; exact Hm1].
Qed.

Lemma viable_extendable R : viable R = true <-> extendable R [].
Proof.
  unfold viable, extendable, some_rule. rewrite existsb_exists. split.
  - intros (((r, a), p) & Hin & Hv). apply nonvoid_correct in Hv. exists r, a, p. auto.
  - intros (r & a & p & Hin & Hv). exists (r, a, p). split; [exact Hin|]. apply nonvoid_correct. exact Hv.
Qed.

Lemma matches_extendable R u v : rule_matches R (u ++ v) -> extendable R u.
Proof. intros (r & a & p & Hin & H). exists r, a, p. split; [exact Hin|]. exists v. exact H. Qed.

(* ---------- best_accept picks the winner among the rules matching the empty word ---------- *)
Definition best_inv (pre : list srule) (best : option (Z * Z)) : Prop :=
  match best with
  | None => forall r a p, In (r, a, p) pre -> nullable r = false
  | Some (a, p) => exists idx r, nth_error pre idx = Some (r, a, p) /\ nullable r = true /\
      forall idx' r' a' p', nth_error pre idx' = Some (r', a', p') -> nullable r' = true -> p' < p \/ (p' = p /\ (idx <= idx')%nat)
  end.

Lemma nth_error_snoc {A} (l : list A) x idx y : nth_error (l ++ [x]) idx = Some y ->
  nth_error l idx = Some y \/ (idx = length l /\ y = x).
Proof.
  intros H. destruct (Nat.lt_ge_cases idx (length l)) as [Hlt|Hge].
  - rewrite nth_error_app1 in H by exact Hlt. auto.
  - rewrite nth_error_app2 in H by exact Hge. destruct (idx - length l)%nat as [|n] eqn:E.
    + cbn in H. inversion H. right. split; [lia|reflexivity].
    + cbn in H. destruct n; discriminate.
Qed.

Lemma best_accept_inv rules : forall pre best, best_inv pre best -> best_inv (pre ++ rules) (best_accept rules best).
Proof.
  induction rules as [|((r, a), p) t IH]; intros pre best H; cbn [best_accept].
  - rewrite app_nil_r. exact H.
  - specialize (IH (pre ++ [(r, a, p)])). rewrite <- app_assoc in IH. cbn [app] in IH.
    apply IH. clear IH. destruct (nullable r) eqn:En.
    + destruct best as [(ba, bp)|].
      * destruct H as (idx & r0 & Hn & Hnl & Hbest). destruct (Z.ltb_spec bp p) as [Hlt|Hge].
        -- exists (length pre), r. split; [rewrite nth_error_app2 by lia; rewrite Nat.sub_diag; reflexivity|].
           split; [exact En|]. intros idx' r' a' p' Hn' Hnl'. apply nth_error_snoc in Hn'. destruct Hn' as [Hn'|(-> & E)].
           ++ left. destruct (Hbest _ _ _ _ Hn' Hnl'); lia.
           ++ inversion E; subst. right. split; [reflexivity|lia].
        -- exists idx, r0. split; [rewrite nth_error_app1; [exact Hn|apply nth_error_Some; congruence]|].
           split; [exact Hnl|]. intros idx' r' a' p' Hn' Hnl'. apply nth_error_snoc in Hn'. destruct Hn' as [Hn'|(-> & E)].
           ++ eapply Hbest; eassumption.
           ++ inversion E; subst. assert (idx < length pre)%nat by (apply nth_error_Some; congruence). lia.
      * exists (length pre), r. split; [rewrite nth_error_app2 by lia; rewrite Nat.sub_diag; reflexivity|].
        split; [exact En|]. intros idx' r' a' p' Hn' Hnl'. apply nth_error_snoc in Hn'. destruct Hn' as [Hn'|(-> & E)].
        -- apply nth_error_In in Hn'. apply H in Hn'. congruence.
        -- inversion E; subst. right. split; [reflexivity|lia].
    + destruct best as [(ba, bp)|].
      * destruct H as (idx & r0 & Hn & Hnl & Hbest). exists idx, r0.
        split; [rewrite nth_error_app1; [exact Hn|apply nth_error_Some; congruence]|].
        split; [exact Hnl|]. intros idx' r' a' p' Hn' Hnl'. apply nth_error_snoc in Hn'. destruct Hn' as [Hn'|(-> & E)].
        -- eapply Hbest; eassumption.
        -- inversion E; subst. congruence.
      * intros r' a' p' Hin. apply in_app_or in Hin. destruct Hin as [Hin|[E|[]]]; [eapply H; eassumption|inversion E; subst; exact En].
Qed.

Lemma accept_cases R pos last :
  (exists a, accept_here R pos last = Some (pos, a) /\ winner R [] a) \/
  (accept_here R pos last = last /\ ~ rule_matches R []).
Proof.
  pose proof (best_accept_inv R [] None) as H. cbn [app] in H. unfold accept_here.
  destruct (best_accept R None) as [(a, p)|].
  - left. exists a. split; [reflexivity|]. destruct H as (idx & r & Hn & Hnl & Hbest); [intros ? ? ? []|].
    exists idx, r, p. split; [exact Hn|]. split; [apply nullable_correct; exact Hnl|].
    intros idx' r' a' p' Hn' Hm'. eapply Hbest; [exact Hn'|apply nullable_correct; exact Hm'].
  - right. split; [reflexivity|]. intros (r & a & p & Hin & Hm). apply nullable_correct in Hm.
    rewrite (H ltac:(intros ? ? ? []) r a p Hin) in Hm. discriminate.
Qed.

(* ---------- words, offsets, candidates ---------- *)
Lemma word_cons c w t i k : word ((c, w) :: t) (S i) k = c :: word t i k.
Proof. reflexivity. Qed.
Lemma word_0 l k : word l 0 k = repeat eoi_sym k.
Proof. reflexivity. Qed.
Lemma offs_cons c w t i : offs (S i) ((c, w) :: t) = Z.of_nat w + offs i t.
Proof. reflexivity. Qed.
Lemma offs_0 l : offs 0 l = 0.
Proof. reflexivity. Qed.
Lemma offs_nil i : offs i [] = 0.
Proof. destruct i; reflexivity. Qed.

Lemma cand_cons K x t i k : cand K (x :: t) (S i) k <-> cand K t i k.
Proof. unfold cand. cbn [length]. split; intros (H1 & H2 & H3); repeat split; try lia; intros H; specialize (H3 H); lia. Qed.
Lemma cand_cons_0 K x t k : cand K (x :: t) 0 k -> k = 0%nat.
Proof. unfold cand. cbn [length]. intros (H1 & H2 & H3). destruct k; [reflexivity|]. specialize (H3 ltac:(discriminate)). discriminate. Qed.
Lemma cand_00 K l : cand K l 0 0.
Proof. unfold cand. repeat split; try lia. Qed.
Lemma cand_nil K i k : cand K [] i k <-> i = 0%nat /\ (k <= K)%nat.
Proof. unfold cand. cbn [length]. split; [intros (H1 & H2 & H3); lia|intros (-> & H); repeat split; lia]. Qed.

(* ---------- the end-of-input phase ---------- *)
Lemma eoi_spec : forall K R len last, scan_spec K R [] len last (spec_eoi K R len last).
Proof.
  induction K as [|K IH]; intros R len last; cbn [spec_eoi]; unfold scan_spec.
  - destruct (accept_cases R len last) as [(a & Ea & Hw)|(Ea & Hn)]; rewrite Ea.
    + left. exists 0%nat, 0%nat, a. split; [apply cand_00|]. split; [cbn [sverdict]; rewrite offs_0, Z.add_0_r; reflexivity|].
      split; [exact Hw|]. intros i' k' Hc _. apply cand_nil in Hc. lia.
    + right. split.
      * intros i k Hc. apply cand_nil in Hc. destruct Hc as (-> & Hk). assert (k = 0%nat) by lia. subst. exact Hn.
      * exists 0%nat. split; [cbn [length]; lia|]. split; [rewrite offs_0, Z.add_0_r; reflexivity|]. split; [left; reflexivity|].
        cbn [length]. intros m' Hm' _. exact Hm'.
  - destruct (viable (step_rules eoi_sym R)) eqn:V.
    + specialize (IH (step_rules eoi_sym R) len (accept_here R len last)). unfold scan_spec in IH.
      destruct IH as [(i & k & a & Hc & Hres & Hw & Hmax)|(Hnone & m & Hm & Hres & _ & _)].
      * apply cand_nil in Hc. destruct Hc as (-> & Hk). left. exists 0%nat, (S k), a.
        split; [apply cand_nil; split; [reflexivity|lia]|]. split; [rewrite Hres, !offs_0; reflexivity|].
        split; [apply winner_step in Hw; exact Hw|]. intros i' k' Hc' Hm'. apply cand_nil in Hc'. destruct Hc' as (-> & Hk').
        destruct k' as [|k']; [lia|]. rewrite word_0 in Hm'. cbn [repeat] in Hm'. apply rule_matches_step in Hm'.
        specialize (Hmax 0%nat k' ltac:(apply cand_nil; split; [reflexivity|lia]) Hm'). lia.
      * cbn [length] in Hm. assert (m = 0%nat) by lia. subst m. rewrite offs_0 in Hres.
        assert (Hno : forall i' k', cand (S K) [] i' k' -> rule_matches R (word [] i' k') -> (i' + k' <= 0)%nat).
        { intros i' k' Hc' Hm'. apply cand_nil in Hc'. destruct Hc' as (-> & Hk'). destruct k' as [|k']; [lia|].
          rewrite word_0 in Hm'. cbn [repeat] in Hm'. apply rule_matches_step in Hm'. exfalso.
          apply (Hnone 0%nat k'); [apply cand_nil; split; [reflexivity|lia]|exact Hm']. }
        destruct (accept_cases R len last) as [(a & Ea & Hw)|(Ea & Hn)]; rewrite Ea in Hres |- *.
        -- left. exists 0%nat, 0%nat, a. split; [apply cand_00|]. split; [rewrite Hres, offs_0, Z.add_0_r; reflexivity|].
           split; [exact Hw|]. exact Hno.
        -- right. split.
           ++ intros i k Hc Hm'. pose proof (Hno i k Hc Hm') as Hz. assert (i = 0%nat /\ k = 0%nat) as (-> & ->) by lia. exact (Hn Hm').
           ++ exists 0%nat. split; [cbn [length]; lia|]. split; [rewrite offs_0; exact Hres|]. split; [left; reflexivity|].
              cbn [length]. intros m' Hm' _. exact Hm'.
    + assert (Hno : forall i' k', cand (S K) [] i' k' -> rule_matches R (word [] i' k') -> (i' + k' <= 0)%nat).
      { intros i' k' Hc' Hm'. apply cand_nil in Hc'. destruct Hc' as (-> & Hk'). destruct k' as [|k']; [lia|].
        rewrite word_0 in Hm'. cbn [repeat] in Hm'. apply rule_matches_step in Hm'. exfalso.
        apply (matches_extendable _ [] _) in Hm'. apply viable_extendable in Hm'. congruence. }
      destruct (accept_cases R len last) as [(a & Ea & Hw)|(Ea & Hn)]; rewrite Ea.
      * left. exists 0%nat, 0%nat, a. split; [apply cand_00|]. split; [cbn [sverdict]; rewrite offs_0, Z.add_0_r; reflexivity|].
        split; [exact Hw|]. exact Hno.
      * right. split.
        -- intros i k Hc Hm'. pose proof (Hno i k Hc Hm') as Hz. assert (i = 0%nat /\ k = 0%nat) as (-> & ->) by lia. exact (Hn Hm').
        -- exists 0%nat. split; [cbn [length]; lia|]. split; [rewrite offs_0, Z.add_0_r; reflexivity|]. split; [left; reflexivity|].
           cbn [length]. intros m' Hm' _. exact Hm'.
Qed.

(* ---------- the text phase, over the decoded symbols ---------- *)
Fixpoint run (K : nat) (rules : list srule) (pos : Z) (last : option (Z * Z)) (l : list (Z * nat)) : Z * Z :=
  match l with
  | [] => spec_eoi K rules pos last
  | (c, w) :: t =>
      let last' := accept_here rules pos last in
      let rules' := step_rules c rules in
      if viable rules' then run K rules' (pos + Z.of_nat w) last' t else sverdict last' pos
  end.

Lemma run_spec K : forall l R pos last, scan_spec K R l pos last (run K R pos last l).
Proof.
  induction l as [|(c, w) t IH]; intros R pos last; [apply eoi_spec|].
  cbn [run]. cbv zeta. unfold scan_spec.
  destruct (viable (step_rules c R)) eqn:V.
  - specialize (IH (step_rules c R) (pos + Z.of_nat w) (accept_here R pos last)). unfold scan_spec in IH.
    destruct IH as [(i & k & a & Hc & Hres & Hw & Hmax)|(Hnone & m & Hm & Hres & Hext & Hmmax)].
    + left. exists (S i), k, a. split; [apply cand_cons; exact Hc|]. split; [rewrite Hres, offs_cons; f_equal; lia|].
      split; [rewrite word_cons; apply winner_step; exact Hw|]. intros i' k' Hc' Hm'. destruct i' as [|i'].
      * apply cand_cons_0 in Hc'. lia.
      * apply (proj1 (cand_cons _ _ _ _ _)) in Hc'. rewrite word_cons in Hm'. apply rule_matches_step in Hm'. specialize (Hmax i' k' Hc' Hm'). lia.
    + assert (Hno : forall i' k', cand K ((c, w) :: t) i' k' -> rule_matches R (word ((c, w) :: t) i' k') -> (i' + k' <= 0)%nat).
      { intros i' k' Hc' Hm'. destruct i' as [|i']; [apply cand_cons_0 in Hc'; lia|]. exfalso.
        apply (proj1 (cand_cons _ _ _ _ _)) in Hc'. rewrite word_cons in Hm'. apply rule_matches_step in Hm'. exact (Hnone i' k' Hc' Hm'). }
      destruct (accept_cases R pos last) as [(a & Ea & Hw)|(Ea & Hn)]; rewrite Ea in Hres |- *.
      * left. exists 0%nat, 0%nat, a. split; [apply cand_00|]. split; [rewrite Hres, offs_0, Z.add_0_r; reflexivity|].
        split; [exact Hw|]. exact Hno.
      * right. split.
        -- intros i k Hc Hm'. pose proof (Hno i k Hc Hm') as Hz. assert (i = 0%nat /\ k = 0%nat) as (-> & ->) by lia. exact (Hn Hm').
        -- exists (S m). split; [cbn [length]; lia|]. split; [rewrite Hres, offs_cons; f_equal; lia|].
           split.
           ++ right. unfold word. rewrite app_nil_r. cbn [map fst firstn]. apply extendable_step.
              destruct Hext as [->|Hext]; [cbn [firstn]; apply viable_extendable; exact V|].
              unfold word in Hext. rewrite app_nil_r in Hext. exact Hext.
           ++ intros m' Hm' Hext'. destruct m' as [|m']; [lia|]. cbn [length] in Hm'.
              unfold word in Hext'. rewrite app_nil_r in Hext'. cbn [map fst firstn] in Hext'. apply extendable_step in Hext'.
              specialize (Hmmax m' ltac:(lia)). unfold word in Hmmax. rewrite app_nil_r in Hmmax. specialize (Hmmax Hext'). lia.
  - assert (Hnv : forall w', ~ extendable R (c :: w')).
    { intros w' H. apply extendable_step in H. destruct H as (r & a & p & Hin & e & He).
      assert (extendable (step_rules c R) []) as Hx by (exists r, a, p; split; [exact Hin|]; exists (w' ++ e); exact He).
      apply viable_extendable in Hx. congruence. }
    assert (Hno : forall i' k', cand K ((c, w) :: t) i' k' -> rule_matches R (word ((c, w) :: t) i' k') -> (i' + k' <= 0)%nat).
    { intros i' k' Hc' Hm'. destruct i' as [|i']; [apply cand_cons_0 in Hc'; lia|]. exfalso.
      rewrite word_cons in Hm'. apply (Hnv (word t i' k')).
      apply matches_extendable with (v := []). rewrite app_nil_r. exact Hm'. }
    destruct (accept_cases R pos last) as [(a & Ea & Hw)|(Ea & Hn)]; rewrite Ea.
    + left. exists 0%nat, 0%nat, a. split; [apply cand_00|]. split; [cbn [sverdict]; rewrite offs_0, Z.add_0_r; reflexivity|].
      split; [exact Hw|]. exact Hno.
    + right. split.
      * intros i k Hc Hm'. pose proof (Hno i k Hc Hm') as Hz. assert (i = 0%nat /\ k = 0%nat) as (-> & ->) by lia. exact (Hn Hm').
      * exists 0%nat. split; [lia|]. split; [rewrite offs_0, Z.add_0_r; reflexivity|]. split; [left; reflexivity|].
        intros m' _ Hext'. destruct m' as [|m']; [lia|]. exfalso. unfold word in Hext'. rewrite app_nil_r in Hext'.
        cbn [map fst firstn] in Hext'. exact (Hnv _ Hext').
Qed.

(* ---------- spec_text is run over the decoded symbols ---------- *)
Lemma decode_b_width bytes s : s <> [] -> (1 <= snd (decode_b bytes s) <= length s)%nat.
Proof.
  intros H. unfold decode_b. destruct bytes; [|apply decode_rune_width; exact H].
  destruct s; [congruence|]. cbn [snd length]. lia.
Qed.

Lemma spec_text_run bytes : forall f1 f2 text R pos last, (length text < f1)%nat -> (length text <= f2)%nat ->
  spec_text f1 bytes R pos last text = run 4 R pos last (decode_all f2 bytes text).
Proof.
  induction f1 as [|f1 IH]; intros f2 text R pos last H1 H2; [lia|].
  cbn [spec_text]. destruct text as [|b t].
  - destruct f2; reflexivity.
  - destruct f2 as [|f2]; [cbn [length] in H2; lia|]. cbn [decode_all].
    pose proof (decode_b_width bytes (b :: t) ltac:(discriminate)) as W.
    destruct (decode_b bytes (b :: t)) as [c w]. cbn [snd] in W. cbn [run]. cbv zeta.
    destruct (viable (step_rules c R)); [|reflexivity].
    apply IH; rewrite skipn_length; cbn [length] in *; lia.
Qed.

Theorem spec_scan_correct bytes rules text :
  scan_spec 4 rules (symbols bytes text) 0 None (spec_scan bytes rules text).
Proof.
  unfold spec_scan, symbols. rewrite (spec_text_run bytes _ (length text)) by lia. apply run_spec.
Qed.

(* the byte offsets are offsets into the text: all widths add up to its length *)
Lemma decode_all_total bytes : forall f text, (length text <= f)%nat ->
  offs (length (decode_all f bytes text)) (decode_all f bytes text) = Z.of_nat (length text).
Proof.
  induction f as [|f IH]; intros text H.
  - destruct text; [reflexivity|cbn [length] in H; lia].
  - cbn [decode_all]. destruct text as [|b t]; [reflexivity|].
    pose proof (decode_b_width bytes (b :: t) ltac:(discriminate)) as W.
    destruct (decode_b bytes (b :: t)) as [c w]. cbn [snd] in W. cbn [length]. rewrite offs_cons.
    rewrite IH by (rewrite skipn_length; cbn [length] in *; lia). rewrite skipn_length. cbn [length] in *. lia.
Qed.

Lemma symbols_total bytes text :
  offs (length (symbols bytes text)) (symbols bytes text) = Z.of_nat (length text).
Proof. apply decode_all_total. lia. Qed.

(* ---------- corollaries in "given the longest candidate" form ---------- *)
Corollary spec_scan_longest bytes rules text i k : let l := symbols bytes text in
  cand 4 l i k -> rule_matches rules (word l i k) ->
  (forall i' k', cand 4 l i' k' -> rule_matches rules (word l i' k') -> (i' + k' <= i + k)%nat) ->
  fst (spec_scan bytes rules text) = offs i l /\ winner rules (word l i k) (snd (spec_scan bytes rules text)).
Proof.
  intros l Hc Hm Hmax. destruct (spec_scan_correct bytes rules text) as [(i0 & k0 & a & Hc0 & Hres & Hw & Hmax0)|(Hnone & _)].
  - fold l in Hc0, Hres, Hw, Hmax0. assert (Hm0 : rule_matches rules (word l i0 k0)).
    { destruct Hw as (idx & r & p & Hn & Hr & _). exists r, a, p. split; [eapply nth_error_In; exact Hn|exact Hr]. }
    pose proof (Hmax i0 k0 Hc0 Hm0). pose proof (Hmax0 i k Hc Hm).
    assert (i0 = i /\ k0 = k) as (-> & ->) by (unfold cand in *; lia).
    rewrite Hres. cbn [fst snd]. split; [lia|exact Hw].
  - exfalso. exact (Hnone i k Hc Hm).
Qed.

Corollary spec_scan_invalid bytes rules text m : let l := symbols bytes text in
  (forall i k, cand 4 l i k -> ~ rule_matches rules (word l i k)) ->
  (m <= length l)%nat -> (m = 0%nat \/ extendable rules (word l m 0)) ->
  (forall m', (m' <= length l)%nat -> extendable rules (word l m' 0) -> (m' <= m)%nat) ->
  spec_scan bytes rules text = (offs m l, 0).
Proof.
  intros l Hnone Hm Hext Hmax. destruct (spec_scan_correct bytes rules text) as [(i0 & k0 & a & Hc0 & Hres & Hw & Hmax0)|(_ & m0 & Hm0 & Hres & Hext0 & Hmax1)].
  - exfalso. apply (Hnone i0 k0 Hc0). destruct Hw as (idx & r & p & Hn & Hr & _). exists r, a, p. split; [eapply nth_error_In; exact Hn|exact Hr].
  - fold l in Hm0, Hres, Hext0, Hmax1. assert (m0 = m).
    { assert (m0 <= m)%nat by (destruct Hext0 as [->|Hext0]; [lia|exact (Hmax m0 Hm0 Hext0)]).
      assert (m <= m0)%nat by (destruct Hext as [->|Hext]; [lia|exact (Hmax1 m Hm Hext)]). lia. }
    subst m0. rewrite Hres. reflexivity.
Qed.
