(* Model of lex.Tables (lex/lex.go) and Tables.Scan.  Executable definitions only. *)
From Coq Require Import List ZArith Bool.
Import ListNotations.
Local Open Scope Z_scope.

Record tables := mkTables {
  scan_bytes  : bool;
  symbol_map  : list (Z * Z);      (* (Start, Target), sorted by Start, first Start = 0 *)
  num_symbols : Z;
  state_map   : list Z;
  dfa         : list Z;
  backtrack   : list (Z * Z)       (* (Action, NextState) *)
}.

Definition nthZ (l : list Z) (i : Z) : Z := if i <? 0 then -1000000 else nth (Z.to_nat i) l (-1000000).

(* sort.Search(len(m), func(i) bool { return i+1 == len(m) || m[i+1].Start > r }) on a sorted map:
   the entry whose successor (if any) starts after r *)
Fixpoint lookup_sym (m : list (Z * Z)) (r : Z) : Z :=
  match m with
  | [] => -1000000
  | (_, t) :: rest =>
      match rest with
      | [] => t
      | (s', _) :: _ => if s' >? r then t else lookup_sym rest r
      end
  end.

Definition action_start (t : tables) : Z := -1 - Z.of_nat (length (backtrack t)).

(* ---- UTF-8 decoding as utf8.DecodeRuneInString: (rune, width); invalid => (0xFFFD, 1) ---- *)
Definition rune_error : Z := 65533.

Definition cont (b : Z) : bool := (128 <=? b) && (b <=? 191).

Definition decode_rune (s : list Z) : Z * nat :=
  match s with
  | [] => (rune_error, 0%nat)
  | b0 :: r =>
    if b0 <? 128 then (b0, 1%nat)
    else if b0 <? 194 then (rune_error, 1%nat)
    else if b0 <? 224 then
      match r with
      | b1 :: _ => if cont b1 then ((b0 - 192) * 64 + (b1 - 128), 2%nat) else (rune_error, 1%nat)
      | _ => (rune_error, 1%nat)
      end
    else if b0 <? 240 then
      match r with
      | b1 :: b2 :: _ =>
        let lo := if b0 =? 224 then 160 else 128 in
        let hi := if b0 =? 237 then 159 else 191 in
        if (lo <=? b1) && (b1 <=? hi) && cont b2
        then ((b0 - 224) * 4096 + (b1 - 128) * 64 + (b2 - 128), 3%nat) else (rune_error, 1%nat)
      | _ => (rune_error, 1%nat)
      end
    else if b0 <? 245 then
      match r with
      | b1 :: b2 :: b3 :: _ =>
        let lo := if b0 =? 240 then 144 else 128 in
        let hi := if b0 =? 244 then 143 else 191 in
        if (lo <=? b1) && (b1 <=? hi) && cont b2 && cont b3
        then ((b0 - 240) * 262144 + (b1 - 128) * 4096 + (b2 - 128) * 64 + (b3 - 128), 4%nat)
        else (rune_error, 1%nat)
      | _ => (rune_error, 1%nat)
      end
    else (rune_error, 1%nat)
  end.

Definition decode (t : tables) (s : list Z) : Z * nat :=
  if scan_bytes t then (match s with b :: _ => (b, 1%nat) | [] => (0, 0%nat) end) else decode_rune s.

(* result (size, action); (-1,-1) = fuel exhausted (impossible with fuel = length text + 1) *)
Fixpoint scan_loop (fuel : nat) (t : tables) (state index size action : Z) (text : list Z) : Z * Z :=
  match fuel with
  | O => (-1, -1)
  | S f =>
    let astart := action_start t in
    match text with
    | [] =>
        let st := nthZ (dfa t) (state * num_symbols t) in
        if (astart =? st) && (size >? 0) then (size, action) else (index, astart - st)
    | _ =>
        let '(r, w) := decode t text in
        let start := index in
        let index := index + Z.of_nat w in
        let ch := lookup_sym (symbol_map t) r in
        let st := nthZ (dfa t) (state * num_symbols t + ch) in
        if st <? 0 then
          if st >? astart then
            let '(a, ns) := nth (Z.to_nat (-1 - st)) (backtrack t) (0, 0) in
            scan_loop f t ns index start a (skipn w text)
          else if (astart =? st) && (size >? 0) then (size, action)
          else (start, astart - st)
        else scan_loop f t st index size action (skipn w text)
    end
  end.

Definition scan (t : tables) (start : Z) (text : list Z) : Z * Z :=
  scan_loop (S (length text)) t (nthZ (state_map t) start) 0 0 0 text.
