(* Proofs about the escape decoding of the model of lex/regexp.go. *)
From Coq Require Import List ZArith Bool Lia.
From TM Require Import Lex.Tables Lex.Charset Lex.Charset_proofs Lex.RegexParse.
Import ListNotations.
Local Open Scope Z_scope.

Definition is_hex_digit (c : Z) : Prop := 48 <= c <= 57 \/ 65 <= c <= 70 \/ 97 <= c <= 102.
Definition hex_value (c : Z) : Z := if c <=? 57 then c - 48 else if c <=? 70 then c - 55 else c - 87.

Lemma hexval_spec c : (is_hex_digit c /\ hexval c = hex_value c /\ 0 <= hexval c < 16) \/ (~ is_hex_digit c /\ hexval c = -1).
Proof.
  unfold is_hex_digit, hexval, hex_value.
  destruct (Z.leb_spec 97 c), (Z.leb_spec c 102), (Z.leb_spec 65 c), (Z.leb_spec c 70), (Z.leb_spec 48 c), (Z.leb_spec c 57);
    cbn [andb]; try (left; lia); try (right; lia).
Qed.

Lemma octval_spec c : (48 <= c <= 55 /\ octval c = c - 48) \/ (~ 48 <= c <= 55 /\ octval c = -1).
Proof. unfold octval. destruct (Z.leb_spec 48 c), (Z.leb_spec c 55); cbn [andb]; lia. Qed.

(* the saturating accumulator never wraps: it is the exact value capped just above unicode.MaxRune *)
Lemma hex_acc_exact ds : forall v, 0 <= v -> Forall (fun d => 0 <= d < 16) ds ->
  fold_left hex_acc ds (Z.min v (max_rune_u + 1)) = Z.min (fold_left (fun r d => r * 16 + d) ds v) (max_rune_u + 1).
Proof.
  induction ds as [|d ds IH]; intros v Hv Hd; [reflexivity|].
  inversion Hd as [|? ? Hd1 Hd2]; subst. cbn [fold_left].
  rewrite <- IH by (try assumption; lia). f_equal.
  unfold hex_acc, max_rune_u. destruct (Z.ltb_spec 1114111 (Z.min v (1114111 + 1) * 16 + d)); rewrite Z.gtb_ltb.
  - destruct (Z.ltb_spec 1114111 (Z.min v (1114111 + 1) * 16 + d)); lia.
  - destruct (Z.ltb_spec 1114111 (Z.min v (1114111 + 1) * 16 + d)); lia.
Qed.

Corollary hex_acc_in_range_iff ds : Forall (fun d => 0 <= d < 16) ds ->
  (fold_left hex_acc ds 0 <= max_rune_u <-> fold_left (fun r d => r * 16 + d) ds 0 <= max_rune_u) /\
  (fold_left hex_acc ds 0 <= max_rune_u -> fold_left hex_acc ds 0 = fold_left (fun r d => r * 16 + d) ds 0).
Proof.
  intros H. pose proof (hex_acc_exact ds 0 ltac:(lia) H) as E. change (Z.min 0 (max_rune_u + 1)) with 0 in E.
  rewrite E. lia.
Qed.

(* next never moves backwards and stays inside the pattern *)
Definition pst_ok (p : pstate) : Prop :=
  0 <= p_off p <= p_scan p /\ p_scan p + Z.of_nat (length (p_rest p)) = Z.of_nat (length (p_src p)).

Lemma decode_rune_width s : s <> [] -> (1 <= snd (decode_rune s) <= length s)%nat.
Proof.
  destruct s as [|b0 r]; [congruence|]. intros _. unfold decode_rune. cbv zeta.
  repeat match goal with
  | |- context [if ?c then _ else _] => destruct c
  | |- context [match ?l with [] => _ | _ :: _ => _ end] => destruct l
  end; cbn [snd length]; lia.
Qed.

Lemma next_ok p p' : pst_ok p -> next p = Ok p' ->
  pst_ok p' /\ p_off p' = p_scan p /\ p_src p' = p_src p /\ p_scan p <= p_scan p'.
Proof.
  unfold pst_ok, next. intros (H1 & H2) E. destruct (p_rest p) as [|b t] eqn:Er; rewrite ?Er in H2.
  - inversion E; subst; cbn. cbn in H2. splits; try reflexivity; lia.
  - destruct (b <? 128).
    + inversion E; subst; cbn. cbn [length] in H2. splits; try reflexivity; lia.
    + pose proof (decode_rune_width (b :: t) ltac:(congruence)) as W.
      destruct (decode_rune (b :: t)) as [r w]. cbn [snd] in W.
      destruct ((r =? rune_error) && Nat.eqb w 1); [discriminate|]. inversion E; subst; cbn [p_off p_scan p_rest p_src].
      rewrite skipn_length. cbn [length] in *. splits; try reflexivity; lia.
Qed.

Lemma next_err p m a e : pst_ok p -> next p = Err m a e -> 0 <= a <= e /\ e <= Z.of_nat (length (p_src p)).
Proof.
  unfold pst_ok, next. intros (H1 & H2) E. destruct (p_rest p) as [|b t] eqn:Er; [discriminate|]. rewrite ?Er in H2.
  destruct (b <? 128); [discriminate|]. destruct (decode_rune (b :: t)) as [r w].
  destruct ((r =? rune_error) && Nat.eqb w 1); [|discriminate]. inversion E; subst. cbn [length] in H2. lia.
Qed.
