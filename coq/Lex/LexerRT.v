(* Model of the generated Go lexer (gen/templates/go_lexer.go.tmpl): Init, Next (restart loop, DFA loop with
   end-of-input moves, backtracking checkpoints, keyword hash switch, handleInvalidToken, space rules), rewind
   (line / line offset bookkeeping), Pos, Line, Column.  The rune class is the plain symbol-map lookup (the array
   and compressed-map lookups of go_lexer_tables.go.tmpl are related to it in LexerMaps.v).
   Executable definitions only. *)
From Coq Require Import List ZArith Bool.
From TM Require Import Lex.Tables Lex.Scan.
Import ListNotations.
Local Open Scope Z_scope.

Record lexer := mkLexer {
  lx_tables : tables;
  lx_rule_token : list Z;                    (* tmToken; [] when lexer actions are the tokens themselves *)
  lx_space : list Z;                         (* space actions (rules in rule-token mode, tokens otherwise) *)
  lx_invalid : Z;                            (* the invalid_token terminal *)
  lx_kw : list (Z * list (Z * Z * list Z * Z));  (* class action -> subcases (bucket, hash, key bytes, specialised action) *)
  lx_mask : list (Z * Z);                    (* class action -> switch mask (size - 1) *)
  lx_token_line : bool;
  lx_token_column : bool
}.

Record lstate := mkL {
  l_src : list Z;
  l_off : Z; l_scan : Z; l_ch : Z; l_rest : list Z;   (* l_rest = source from scanOffset *)
  l_tokoff : Z;
  l_line : Z; l_tokline : Z; l_lineoff : Z; l_tokcol : Z
}.

Definition slen (l : lstate) : Z := Z.of_nat (length (l_src l)).
Definition sub (s : list Z) (a b : Z) : list Z := firstn (Z.to_nat (b - a)) (skipn (Z.to_nat a) s).
Definition count_nl (s : list Z) : Z := Z.of_nat (length (filter (fun b => b =? 10) s)).

(* 1 + strings.LastIndexByte(s, '\n') *)
Fixpoint after_last_nl (s : list Z) (i : Z) (acc : Z) : Z :=
  match s with
  | [] => acc
  | b :: t => after_last_nl t (i + 1) (if b =? 10 then i + 1 else acc)
  end.

(* read the character at scanOffset: (ch, new scanOffset, new rest) *)
Definition read_char (bytes : bool) (scan : Z) (rest : list Z) : Z * Z * list Z :=
  match rest with
  | [] => (-1, scan, [])
  | b :: t =>
      if bytes || (b <? 128) then (b, scan + 1, t)
      else let '(r, w) := decode_rune rest in (r, scan + Z.of_nat w, skipn w rest)
  end.

(* Lexer.rewind *)
Definition rewind (lx : lexer) (l : lstate) (offset : Z) : lstate :=
  let n := slen l in
  let offset' := if (offset <? l_off l) then offset else if offset >? n then n else offset in
  let line := if lx_token_line lx then
                (if offset <? l_off l then l_line l - count_nl (sub (l_src l) offset (l_off l))
                 else l_line l + count_nl (sub (l_src l) (l_off l) offset'))
              else l_line l in
  let lineoff := if lx_token_line lx && lx_token_column lx then after_last_nl (firstn (Z.to_nat offset') (l_src l)) 0 0 else l_lineoff l in
  let rest := skipn (Z.to_nat offset') (l_src l) in
  let '(ch, scan, rest') := read_char (scan_bytes (lx_tables lx)) offset' rest in
  mkL (l_src l) offset' scan ch rest' (l_tokoff l) line (l_tokline l) lineoff (l_tokcol l).

Definition init (lx : lexer) (src : list Z) : lstate :=
  rewind lx (mkL src 0 0 0 src 0 1 1 0 1) 0.

Definition wrap32u (x : Z) : Z := x mod 4294967296.

(* one character consumed inside the DFA loop: hash, line counting, scan the next character *)
Definition advance (lx : lexer) (l : lstate) : lstate :=
  let nl := l_ch l =? 10 in
  let line := if lx_token_line lx && nl then l_line l + 1 else l_line l in
  let lineoff := if lx_token_line lx && lx_token_column lx && nl then l_scan l else l_lineoff l in
  let '(ch, scan, rest') := read_char (scan_bytes (lx_tables lx)) (l_scan l) (l_rest l) in
  mkL (l_src l) (l_scan l) scan ch rest' (l_tokoff l) line (l_tokline l) lineoff (l_tokcol l).

(* the DFA loop; backup = (rule or token, offset, hash); returns (final negative state, lexer state, hash, backup) *)
Fixpoint dfa_loop (fuel : nat) (lx : lexer) (state : Z) (l : lstate) (hash : Z) (backup : option (Z * Z * Z))
  : option (Z * lstate * Z * option (Z * Z * Z)) :=
  match fuel with
  | O => None
  | S f =>
    if state <? 0 then Some (state, l, hash, backup)
    else
      let t := lx_tables lx in
      let first := action_start t in
      if l_ch l <? 0 then
        let st := cell t state 0 in
        if (st >? first) && (st <? 0) then
          let '(a, ns) := bt_entry t st in dfa_loop f lx ns l hash (Some (a, l_off l, hash))
        else dfa_loop f lx st l hash backup
      else
        let st := cell t state (lookup_sym (symbol_map t) (l_ch l)) in
        if st >? first then
          let '(st', backup') := if st <? 0 then let '(a, ns) := bt_entry t st in (ns, Some (a, l_off l, hash)) else (st, backup) in
          dfa_loop f lx st' (advance lx l) (wrap32u (hash * 31 + l_ch l)) backup'
        else dfa_loop f lx st l hash backup
  end.

Definition assocZ {A} (k : Z) (m : list (Z * A)) : option A :=
  match find (fun e => fst e =? k) m with Some e => Some (snd e) | None => None end.

(* the generated keyword switch: mask the hash, then compare hash and text in the subcases of that bucket *)
Definition kw_switch (lx : lexer) (act : Z) (hash : Z) (text : list Z) : Z :=
  match assocZ act (lx_kw lx), assocZ act (lx_mask lx) with
  | Some subcases, Some mask =>
      match find (fun '(bucket, h, key, _) => (bucket =? Z.land hash mask) && (hash =? h)
                                   && (if list_eq_dec Z.eq_dec key text then true else false)) subcases with
      | Some (_, _, _, a') => a'
      | None => act
      end
  | _, _ => act
  end.

Definition memZ (x : Z) (l : list Z) : bool := existsb (Z.eqb x) l.
Definition has_bt (lx : lexer) : bool := negb (Nat.eqb (length (backtrack (lx_tables lx))) 0).

(* what follows the DFA loop for one attempt: returns (token, is_space, lexer state) *)
Definition finish (lx : lexer) (state : Z) (l : lstate) (hash : Z) (backup : option (Z * Z * Z)) : Z * bool * lstate :=
  let t := lx_tables lx in
  let act0 := action_start t - state in
  let text (l : lstate) := sub (l_src l) (l_tokoff l) (l_off l) in
  match lx_rule_token lx with
  | _ :: _ =>
      (* rule-token mode *)
      let rule := kw_switch lx act0 hash (text l) in
      let tok := nth (Z.to_nat rule) (lx_rule_token lx) (-1) in
      if rule =? 0 then
        match (if has_bt lx then backup else None) with
        | Some (brule, boff, bhash) =>
            let l' := rewind lx l boff in
            let rule' := kw_switch lx brule bhash (text l') in
            (nth (Z.to_nat rule') (lx_rule_token lx) (-1), memZ rule' (lx_space lx), l')
        | None =>
            if l_off l =? l_tokoff l then
              ((if l_ch l =? -1 then 0 else tok), false, rewind lx l (l_scan l))
            else (tok, false, l)
        end
      else (tok, memZ rule (lx_space lx), l)
  | [] =>
      let tok := kw_switch lx act0 hash (text l) in
      if tok =? lx_invalid lx then
        match (if has_bt lx then backup else None) with
        | Some (btok, boff, bhash) =>
            let l' := rewind lx l boff in
            let tok' := kw_switch lx btok bhash (text l') in
            (tok', memZ tok' (lx_space lx), l')
        | None =>
            if l_off l =? l_tokoff l then
              ((if l_ch l =? -1 then 0 else tok), false, rewind lx l (l_scan l))
            else (tok, false, l)
        end
      else (tok, memZ tok (lx_space lx), l)
  end.

(* Next: restart while space tokens are produced *)
Fixpoint next_tok (fuel : nat) (lx : lexer) (sc : Z) (l : lstate) : option (Z * lstate) :=
  match fuel with
  | O => None
  | S f =>
      let l1 := mkL (l_src l) (l_off l) (l_scan l) (l_ch l) (l_rest l) (l_off l)
                    (l_line l) (l_line l) (l_lineoff l) (l_off l - l_lineoff l + 1) in
      let inner := S (S (Z.to_nat (slen l - l_off l) + Z.to_nat (nstates (lx_tables lx)))) in
      match dfa_loop inner lx (nthZ (state_map (lx_tables lx)) sc) l1 0 None with
      | None => None
      | Some (state, l2, hash, backup) =>
          let '(tok, space, l3) := finish lx state l2 hash backup in
          if space then next_tok f lx sc l3 else Some (tok, l3)
      end
  end.

(* the observable record of one token: (token, start, end, line, column) *)
Definition obs (tok : Z) (l : lstate) : list Z := [tok; l_tokoff l; l_off l; l_tokline l; l_tokcol l].

(* token stream: up to cap tokens, stopping after the first end-of-input token, which is then requested twice more *)
Fixpoint stream (cap : nat) (lx : lexer) (sc : Z) (l : lstate) : list (list Z) :=
  match cap with
  | O => [[-2]]
  | S c =>
      match next_tok (S (S (length (l_src l)))) lx sc l with
      | None => [[-3]]                                   (* out of fuel: the generated lexer does not return *)
      | Some (tok, l') =>
          if tok =? 0 then
            match next_tok (S (S (length (l_src l)))) lx sc l' with
            | Some (tok2, l2) =>
                match next_tok (S (S (length (l_src l)))) lx sc l2 with
                | Some (tok3, l3) => [obs tok l'; obs tok2 l2; obs tok3 l3]
                | None => [obs tok l'; obs tok2 l2; [-3]]
                end
            | None => [obs tok l'; [-3]]
            end
          else obs tok l' :: stream c lx sc l'
      end
  end.

Definition run_lexer (lx : lexer) (sc : Z) (src : list Z) (bom : bool) : list (list Z) :=
  let l0 := init lx src in
  let l0 := match src with
            | b0 :: b1 :: b2 :: _ =>
                if bom && (b0 =? 239) && (b1 =? 187) && (b2 =? 191) then rewind lx l0 3 else l0
            | _ => l0
            end in
  stream 300 lx sc l0.
