(* Proofs for Gen/PermInv.v: sorting erases the iteration order. *)
From Coq Require Import List ZArith Bool Lia Sorting.Sorted Sorting.Permutation.
From TM Require Import Gen.PermInv.
Import ListNotations.
Local Open Scope Z_scope.

Section SortProofs.
  Variable A : Type.
  Variable leb : A -> A -> bool.
  Hypothesis leb_total : forall a b, leb a b = true \/ leb b a = true.
  Hypothesis leb_trans : forall a b c, leb a b = true -> leb b c = true -> leb a c = true.

  Definition le (a b : A) : Prop := leb a b = true.

  Lemma insert_perm x l : Permutation (insert A leb x l) (x :: l).
  Proof.
    induction l as [|y t IH]; cbn [insert]; [reflexivity|].
    destruct (leb x y); [reflexivity|]. rewrite IH. apply perm_swap.
  Qed.

  Lemma isort_perm l : Permutation (isort A leb l) l.
  Proof. induction l as [|x t IH]; cbn [isort]; [reflexivity|]. rewrite insert_perm. now constructor. Qed.

  Lemma insert_sorted x l : StronglySorted le l -> StronglySorted le (insert A leb x l).
  Proof.
    induction 1 as [|y t Hs IH Hall]; cbn [insert]; [repeat constructor|].
    destruct (leb x y) eqn:E.
    - constructor; [now constructor|]. constructor; [exact E|].
      eapply Forall_impl; [|exact Hall]. intros z Hz. unfold le in *. eapply leb_trans; eauto.
    - constructor; [exact IH|].
      assert (Hyx : le y x) by (destruct (leb_total x y); [congruence|assumption]).
      rewrite Forall_forall. intros z Hz.
      apply (Permutation_in _ (insert_perm x t)) in Hz. destruct Hz as [<-|Hz]; [exact Hyx|].
      rewrite Forall_forall in Hall. now apply Hall.
  Qed.

  Lemma isort_sorted l : StronglySorted le (isort A leb l).
  Proof. induction l as [|x t IH]; cbn [isort]; [constructor|]. now apply insert_sorted. Qed.

  (* two sorted permutations of each other are equal, provided the order is antisymmetric on the elements *)
  Lemma sorted_perm_eq : forall l1 l2,
    (forall a b, In a l1 -> In b l1 -> le a b -> le b a -> a = b) ->
    StronglySorted le l1 -> StronglySorted le l2 -> Permutation l1 l2 -> l1 = l2.
  Proof.
    induction l1 as [|a t1 IH]; intros l2 Hanti H1 H2 Hp.
    - apply Permutation_nil in Hp. now subst.
    - destruct l2 as [|b t2]; [apply Permutation_sym, Permutation_nil in Hp; discriminate|].
      inversion H1 as [|? ? Hs1 Ha]; subst. inversion H2 as [|? ? Hs2 Hb]; subst.
      rewrite Forall_forall in Ha, Hb.
      assert (Hab : a = b).
      { assert (Hin_b : In b (a :: t1)) by (eapply Permutation_in; [apply Permutation_sym; exact Hp|now left]).
        assert (Hin_a : In a (b :: t2)) by (eapply Permutation_in; [exact Hp|now left]).
        destruct Hin_b as [->|Hbt]; [reflexivity|]. destruct Hin_a as [->|Hat]; [reflexivity|].
        apply Hanti; [now left | now right | now apply Ha | now apply Hb]. }
      subst b. f_equal. apply IH; try assumption.
      + intros x y Hx Hy. apply Hanti; now right.
      + now apply Permutation_cons_inv in Hp.
  Qed.

  (* THE generic lemma: sorting erases the permutation *)
  Lemma isort_perm_invariant l1 l2 :
    (forall a b, In a l1 -> In b l1 -> le a b -> le b a -> a = b) ->
    Permutation l1 l2 -> isort A leb l1 = isort A leb l2.
  Proof.
    intros Hanti Hp. apply sorted_perm_eq; try apply isort_sorted.
    - intros a b Ha Hb. apply Hanti; eapply Permutation_in; try apply isort_perm; assumption.
    - rewrite isort_perm, Hp. symmetry. apply isort_perm.
  Qed.
End SortProofs.

(* ---- byte strings: Go's < on strings is a total order ---- *)
Lemma str_leb_refl a : str_leb a a = true.
Proof. induction a as [|x a IH]; [reflexivity|]. cbn [str_leb]. now rewrite Z.ltb_irrefl. Qed.

Lemma str_leb_total : forall a b, str_leb a b = true \/ str_leb b a = true.
Proof.
  induction a as [|x a IH]; intros [|y b]; cbn [str_leb]; try (now left); try (now right).
  destruct (x <? y) eqn:E1; [now left|]. destruct (y <? x) eqn:E2; [now right|]. apply IH.
Qed.

Lemma str_leb_antisym : forall a b, str_leb a b = true -> str_leb b a = true -> a = b.
Proof.
  induction a as [|x a IH]; intros [|y b]; cbn [str_leb]; try discriminate; [reflexivity|].
  destruct (x <? y) eqn:E1; destruct (y <? x) eqn:E2; try discriminate.
  - apply Z.ltb_lt in E1, E2. lia.
  - intros H1 H2. apply Z.ltb_ge in E1, E2. assert (x = y) by lia. subst. f_equal. now apply IH.
Qed.

Lemma str_leb_trans : forall a b c, str_leb a b = true -> str_leb b c = true -> str_leb a c = true.
Proof.
  induction a as [|x a IH]; intros [|y b] [|z c]; cbn [str_leb]; try discriminate; try reflexivity.
  destruct (x <? y) eqn:E1; destruct (y <? x) eqn:E2; destruct (y <? z) eqn:E3; destruct (z <? y) eqn:E4;
    destruct (x <? z) eqn:E5; destruct (z <? x) eqn:E6; try discriminate; try reflexivity;
    rewrite ?Z.ltb_lt, ?Z.ltb_ge in *; try lia.
  apply IH.
Qed.

(* ---- the sites ---- *)

(* asStringSwitch: the whole switch is the same for every iteration order of the map *)
Lemma string_switch_invariant m pi1 pi2 :
  Permutation pi1 pi2 -> string_switch m pi1 = string_switch m pi2.
Proof.
  intro Hp. unfold string_switch. rewrite (Permutation_length Hp).
  rewrite (isort_perm_invariant _ str_leb str_leb_total str_leb_trans pi1 pi2); [reflexivity | | exact Hp].
  intros a b _ _. apply str_leb_antisym.
Qed.

(* sortAndDedup (duplicates allowed) *)
Lemma sort_and_dedup_invariant l1 l2 : Permutation l1 l2 -> sort_and_dedup l1 = sort_and_dedup l2.
Proof.
  intro Hp. unfold sort_and_dedup.
  rewrite (isort_perm_invariant _ str_leb str_leb_total str_leb_trans l1 l2); [reflexivity | | exact Hp].
  intros a b _ _. apply str_leb_antisym.
Qed.

(* trie: entries of a map (distinct keys) collected in any order and sorted by key *)
Lemma key_leb_total {V} (a b : Z * V) : key_leb a b = true \/ key_leb b a = true.
Proof. unfold key_leb. rewrite !Z.leb_le. lia. Qed.
Lemma key_leb_trans {V} (a b c : Z * V) : key_leb a b = true -> key_leb b c = true -> key_leb a c = true.
Proof. unfold key_leb. rewrite !Z.leb_le. lia. Qed.

Lemma collect_sorted_invariant {V} (pi1 pi2 : list (Z * V)) :
  NoDup (map fst pi1) -> Permutation pi1 pi2 -> collect_sorted pi1 = collect_sorted pi2.
Proof.
  intros Hnd Hp. unfold collect_sorted.
  apply (isort_perm_invariant _ key_leb key_leb_total key_leb_trans); [|exact Hp].
  intros a b Ha Hb H1 H2. unfold le, key_leb in H1, H2. rewrite Z.leb_le in H1, H2.
  assert (Hk : fst a = fst b) by lia.
  (* distinct keys: two entries with the same key are the same entry *)
  clear H1 H2 Hp. induction pi1 as [|x t IH]; [contradiction|].
  cbn [map] in Hnd. inversion Hnd as [|? ? Hnin Hnd']; subst.
  destruct Ha as [->|Ha]; destruct Hb as [->|Hb]; try reflexivity.
  - exfalso. apply Hnin. rewrite Hk. now apply in_map.
  - exfalso. apply Hnin. rewrite <- Hk. now apply in_map.
  - apply IH; assumption.
Qed.
