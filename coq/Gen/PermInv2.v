(* C18, second part: the remaining order-sensitive sites of the inventory (harness/mapsites.json), each as a
   function of the iteration order pi of the map it ranges over (or, for topoSort, of the order in which the
   rows were first met).
     writes keyed by the iteration key     compiler/lexer.go resolveTokenComments (second loop), compiler.go
                                           addTypes / generateTables (MayBeMissing), syntax.go popRule,
                                           expand.go updateArgRefs, syntax.go Rearrange, lalr computeStates /
                                           checkLR0 (bits of a BitSet): apply_writes
     resolveTokenComments, first loop      token_comments (over the rule slice)
     sort.Strings after the loop           gen/post_ts.go ExtractTsImports (2x), grammar.go ActionVars.String (2x)
     sort.Slice (std first, then path)     gen/post_go.go ExtractGoImports: go_imports
     first match of an injective map       gen/funcs.go reverseLookup: reverse_lookup
     syntax/types.go topoSort              heights (the memoised depth-first walk), topo_order (bucket sort by
                                           height, sort.Slice by identity inside a bucket)
   No proofs here. *)
From Coq Require Import List ZArith Bool Arith.
From TM Require Import Gen.PermInv.
Import ListNotations.
Local Open Scope Z_scope.

(* ---- independent writes: target[k] = v for every entry (k, v) in iteration order ---- *)
Definition upd {V : Type} (f : Z -> V) (k : Z) (v : V) : Z -> V := fun x => if x =? k then v else f x.
Definition apply_writes {V : Type} (pi : list (Z * V)) (f : Z -> V) : Z -> V :=
  fold_left (fun g kv => upd g (fst kv) (snd kv)) pi f.

(* ---- resolveTokenComments: comments[tok] = the constant of the token's rules when they all agree, "" otherwise ---- *)
Fixpoint lookup {V : Type} (m : list (Z * V)) (k : Z) : option V :=
  match m with [] => None | (k', v) :: t => if k' =? k then Some v else lookup t k end.
Fixpoint set_assoc {V : Type} (m : list (Z * V)) (k : Z) (v : V) : list (Z * V) :=
  match m with
  | [] => [(k, v)]
  | (k', v') :: t => if k' =? k then (k, v) :: t else (k', v') :: set_assoc t k v
  end.
Definition comment_step (m : list (Z * list Z)) (r : Z * list Z) : list (Z * list Z) :=
  let '(tok, val) := r in
  match lookup m tok with
  | Some old => if negb (str_eqb val old) then set_assoc m tok [] else set_assoc m tok val
  | None => set_assoc m tok val
  end.
Definition token_comments (rules : list (Z * list Z)) : list (Z * list Z) := fold_left comment_step rules [].

(* ---- sort.Strings over values collected in iteration order ---- *)
Definition sort_strings (l : list (list Z)) : list (list Z) := isort _ str_leb l.

(* ---- ExtractGoImports: (alias, path) values of a map keyed by path; standard packages first, then by path ---- *)
Section GoImports.
  Variable std : list Z -> bool.                     (* isStdPackage *)
  Definition imp_leb (a b : list Z * list Z) : bool :=
    if Bool.eqb (std (snd a)) (std (snd b)) then str_leb (snd a) (snd b) else std (snd a).
  Definition go_imports (pi : list (list Z * list Z)) : list (list Z * list Z) := isort _ imp_leb pi.
End GoImports.

(* ---- reverseLookup: for k, v := range m { if v == i { return k } }; return -1 ---- *)
Definition reverse_lookup (pi : list (Z * Z)) (i : Z) : Z :=
  match find (fun kv => snd kv =? i) pi with Some kv => fst kv | None => -1 end.

(* ---- topoSort ---- *)
Definition set_nth {A : Type} (l : list A) (i : nat) (x : A) : list A :=
  firstn i l ++ match skipn i l with [] => [] | _ :: t => x :: t end.

(* fn of topoSort: memoised depth of node i; a node is marked done BEFORE its successors are visited *)
Fixpoint depth (fuel : nat) (g : list (list nat)) (i : nat) (st : list bool * list nat) : nat * (list bool * list nat) :=
  match fuel with
  | O => (O, st)
  | S k =>
    if nth i (fst st) false then (nth i (snd st) O, st)
    else
      let st1 := (set_nth (fst st) i true, snd st) in
      let '(ret, st2) :=
        fold_left (fun acc e => let '(v, s') := depth k g e (snd acc) in
                                (if Nat.ltb (fst acc) (S v) then S v else fst acc, s'))
                  (nth i g []) (O, st1) in
      (ret, (fst st2, set_nth (snd st2) i ret))
  end.

Definition heights (g : list (list nat)) : list nat :=
  let n := length g in
  snd (fold_left (fun st i => snd (depth (S n) g i st)) (seq 0 n) (repeat false n, repeat O n)).

(* a row = (height, identity, payload); the bucket sort is stable, then every bucket is sorted by identity *)
Definition row (P : Type) : Type := (nat * list Z * P)%type.
Definition row_h {P} (r : row P) : nat := fst (fst r).
Definition row_id {P} (r : row P) : list Z := snd (fst r).
Definition row_leb {P} (a b : row P) : bool := str_leb (row_id a) (row_id b).
Definition max_height {P} (rows : list (row P)) : nat := fold_right Nat.max O (map row_h rows).
Definition topo_order {P} (rows : list (row P)) : list (row P) :=
  flat_map (fun h => isort _ row_leb (filter (fun r => Nat.eqb (row_h r) h) rows)) (seq 0 (S (max_height rows))).

(* topoSort on identities: list[i] has identity ids[i], edges g *)
Definition topo_sort (ids : list (list Z)) (g : list (list nat)) : list (list Z) :=
  map row_id (topo_order (map (fun hi => (fst hi, snd hi, tt)) (combine (heights g) ids))).
