(* Proofs for Gen/PermInv2.v *)
From Coq Require Import List ZArith Bool Arith Lia Sorting.Sorted Sorting.Permutation.
From TM Require Import Gen.PermInv Gen.PermInv_proofs Gen.PermInv2.
Import ListNotations.
Local Open Scope Z_scope.

(* ------------------------------------------------------------------ writes keyed by the iteration key *)

(* entries agree on duplicate keys (a Go map has none; BitSet.Set(k) / m[k] = true may repeat a key) *)
Definition consistent {V : Type} (pi : list (Z * V)) : Prop :=
  forall k v v', In (k, v) pi -> In (k, v') pi -> v = v'.

Lemma apply_writes_other {V} : forall (pi : list (Z * V)) f x,
  ~ In x (map fst pi) -> apply_writes pi f x = f x.
Proof.
  induction pi as [|[k w] t IH]; intros f x Hn; [reflexivity|].
  unfold apply_writes in *. cbn [fold_left fst snd]. rewrite IH.
  - unfold upd. destruct (x =? k) eqn:E; [|reflexivity]. apply Z.eqb_eq in E. exfalso. apply Hn. left. now subst.
  - intro H. apply Hn. now right.
Qed.

Lemma apply_writes_in {V} : forall (pi : list (Z * V)) f x v,
  consistent pi -> In (x, v) pi -> apply_writes pi f x = v.
Proof.
  induction pi as [|[k w] t IH]; intros f x v Hc Hin; [contradiction|].
  assert (Hct : consistent t) by (intros a b c H1 H2; eapply Hc; right; eassumption).
  unfold apply_writes in *. cbn [fold_left fst snd].
  destruct (in_dec Z.eq_dec x (map fst t)) as [Hk|Hk].
  - apply in_map_iff in Hk as ([x' v'] & Hx & Hin'). cbn in Hx. subst x'.
    assert (v' = v) by (eapply Hc; [right; exact Hin' | exact Hin]). subst v'.
    now apply IH.
  - fold (apply_writes t (upd f k w) x). rewrite apply_writes_other by exact Hk.
    destruct Hin as [Heq|Hin]; [|exfalso; apply Hk; apply in_map_iff; exists (x, v); split; [reflexivity|exact Hin]].
    injection Heq as -> ->. unfold upd. now rewrite Z.eqb_refl.
Qed.

Lemma writes_commute {V} (pi1 pi2 : list (Z * V)) :
  consistent pi1 -> Permutation pi1 pi2 -> forall f x, apply_writes pi1 f x = apply_writes pi2 f x.
Proof.
  intros Hc Hp f x.
  assert (Hc2 : consistent pi2).
  { intros k v v' H1 H2. eapply Hc; eapply Permutation_in; try (apply Permutation_sym; exact Hp); eassumption. }
  destruct (in_dec Z.eq_dec x (map fst pi1)) as [Hk|Hk].
  - apply in_map_iff in Hk as ([x' v] & Hx & Hin). cbn in Hx. subst x'.
    rewrite (apply_writes_in pi1 f x v Hc Hin).
    symmetry. apply apply_writes_in; [exact Hc2|]. eapply Permutation_in; eassumption.
  - rewrite apply_writes_other by exact Hk. symmetry. apply apply_writes_other.
    intro H. apply Hk. eapply Permutation_in; [apply Permutation_sym, Permutation_map; exact Hp|exact H].
Qed.

Lemma nodup_keys_consistent {V} (pi : list (Z * V)) : NoDup (map fst pi) -> consistent pi.
Proof.
  induction pi as [|[k w] t IH]; intros Hnd a v v' H1 H2; [contradiction|].
  cbn [map fst] in Hnd. inversion Hnd as [|? ? Hnin Hnd']; subst.
  destruct H1 as [E1|H1], H2 as [E2|H2].
  - congruence.
  - injection E1 as -> ->. exfalso. apply Hnin. apply in_map_iff. exists (a, v'). split; [reflexivity|exact H2].
  - injection E2 as -> ->. exfalso. apply Hnin. apply in_map_iff. exists (a, v). split; [reflexivity|exact H1].
  - eapply IH; eassumption.
Qed.

(* ------------------------------------------------------------------ resolveTokenComments *)

Lemma set_assoc_keys {V} : forall (m : list (Z * V)) k v x,
  In x (map fst (set_assoc m k v)) <-> x = k \/ In x (map fst m).
Proof.
  induction m as [|[k' v'] t IH]; intros k v x; cbn [set_assoc map fst].
  - cbn. intuition.
  - destruct (k' =? k) eqn:E.
    + apply Z.eqb_eq in E. subst. cbn [map fst In]. intuition.
    + cbn [map fst In]. rewrite IH. intuition.
Qed.

Lemma set_assoc_nodup {V} : forall (m : list (Z * V)) k v,
  NoDup (map fst m) -> NoDup (map fst (set_assoc m k v)).
Proof.
  induction m as [|[k' v'] t IH]; intros k v Hnd; cbn [set_assoc].
  - cbn. constructor; [intros []|constructor].
  - cbn [map fst] in Hnd. inversion Hnd as [|? ? Hnin Hnd']; subst.
    destruct (k' =? k) eqn:E.
    + apply Z.eqb_eq in E. subst. cbn [map fst]. now constructor.
    + cbn [map fst]. constructor; [|now apply IH].
      rewrite set_assoc_keys. intros [->|H]; [rewrite Z.eqb_refl in E; discriminate|contradiction].
Qed.

Lemma token_comments_nodup rules : NoDup (map fst (token_comments rules)).
Proof.
  unfold token_comments.
  assert (H : forall rs m, NoDup (map fst m) -> NoDup (map fst (fold_left comment_step rs m))).
  { induction rs as [|[tok val] rs IH]; intros m Hm; [exact Hm|]. cbn [fold_left]. apply IH.
    unfold comment_step. destruct (lookup m tok); [destruct (negb _)|]; now apply set_assoc_nodup. }
  apply H. constructor.
Qed.

(* the second loop of resolveTokenComments over any two iteration orders of the comments map *)
Lemma resolve_token_comments_invariant rules pi1 pi2 :
  Permutation (token_comments rules) pi1 -> Permutation (token_comments rules) pi2 ->
  forall syms x, apply_writes pi1 syms x = apply_writes pi2 syms x.
Proof.
  intros H1 H2. apply writes_commute.
  - apply nodup_keys_consistent. eapply Permutation_NoDup; [apply Permutation_map; exact H1|apply token_comments_nodup].
  - rewrite <- H1. exact H2.
Qed.

(* ------------------------------------------------------------------ sort.Strings *)

Lemma sort_strings_invariant l1 l2 : Permutation l1 l2 -> sort_strings l1 = sort_strings l2.
Proof.
  intro Hp. unfold sort_strings.
  apply (isort_perm_invariant _ str_leb str_leb_total str_leb_trans); [|exact Hp].
  intros a b _ _. apply str_leb_antisym.
Qed.

(* ------------------------------------------------------------------ ExtractGoImports *)

Section GoImportsProofs.
  Variable std : list Z -> bool.

  Lemma imp_leb_total a b : imp_leb std a b = true \/ imp_leb std b a = true.
  Proof.
    unfold imp_leb. destruct (std (snd a)), (std (snd b)); cbn; try (now left); try (now right); apply str_leb_total.
  Qed.

  Lemma imp_leb_trans a b c : imp_leb std a b = true -> imp_leb std b c = true -> imp_leb std a c = true.
  Proof.
    unfold imp_leb. destruct (std (snd a)), (std (snd b)), (std (snd c)); cbn; try congruence; try (intros; reflexivity);
      apply str_leb_trans.
  Qed.

  Lemma go_imports_invariant pi1 pi2 :
    NoDup (map snd pi1) -> Permutation pi1 pi2 -> go_imports std pi1 = go_imports std pi2.
  Proof.
    intros Hnd Hp. unfold go_imports.
    apply (isort_perm_invariant _ (imp_leb std) imp_leb_total imp_leb_trans); [|exact Hp].
    intros a b Ha Hb H1 H2. unfold le, imp_leb in H1, H2.
    assert (Hk : snd a = snd b).
    { destruct (std (snd a)), (std (snd b)); cbn in H1, H2; try discriminate; now apply str_leb_antisym. }
    clear H1 H2 Hp. induction pi1 as [|x t IH]; [contradiction|].
    cbn [map] in Hnd. inversion Hnd as [|? ? Hnin Hnd']; subst.
    destruct Ha as [->|Ha]; destruct Hb as [->|Hb]; try reflexivity.
    - exfalso. apply Hnin. rewrite Hk. now apply in_map.
    - exfalso. apply Hnin. rewrite <- Hk. now apply in_map.
    - now apply IH.
  Qed.
End GoImportsProofs.

(* ------------------------------------------------------------------ reverseLookup *)

Lemma find_value_in : forall (pi : list (Z * Z)) k i,
  NoDup (map snd pi) -> In (k, i) pi -> find (fun kv => snd kv =? i) pi = Some (k, i).
Proof.
  induction pi as [|[k' v'] t IH]; intros k i Hnd Hin; [contradiction|].
  cbn [map snd] in Hnd. inversion Hnd as [|? ? Hnin Hnd']; subst.
  cbn [find snd]. destruct (v' =? i) eqn:E.
  - apply Z.eqb_eq in E. subst v'. destruct Hin as [Heq|Hin]; [congruence|].
    exfalso. apply Hnin. apply in_map_iff. exists (k, i). split; [reflexivity|exact Hin].
  - destruct Hin as [Heq|Hin]; [injection Heq as -> ->; rewrite Z.eqb_refl in E; discriminate|].
    now apply IH.
Qed.

Lemma find_value_none : forall (pi : list (Z * Z)) i,
  ~ In i (map snd pi) -> find (fun kv => snd kv =? i) pi = None.
Proof.
  induction pi as [|[k' v'] t IH]; intros i Hn; [reflexivity|].
  cbn [find snd]. destruct (v' =? i) eqn:E.
  - apply Z.eqb_eq in E. exfalso. apply Hn. left. exact E.
  - apply IH. intro H. apply Hn. now right.
Qed.

Lemma reverse_lookup_invariant pi1 pi2 i :
  NoDup (map snd pi1) -> Permutation pi1 pi2 -> reverse_lookup pi1 i = reverse_lookup pi2 i.
Proof.
  intros Hnd Hp. unfold reverse_lookup.
  assert (Hnd2 : NoDup (map snd pi2)) by (eapply Permutation_NoDup; [apply Permutation_map; exact Hp|exact Hnd]).
  destruct (in_dec Z.eq_dec i (map snd pi1)) as [Hi|Hi].
  - apply in_map_iff in Hi as ([k v] & Hv & Hin). cbn in Hv. subst v.
    rewrite (find_value_in pi1 k i Hnd Hin).
    rewrite (find_value_in pi2 k i Hnd2); [reflexivity|]. eapply Permutation_in; eassumption.
  - rewrite (find_value_none pi1 i Hi). rewrite find_value_none; [reflexivity|].
    intro H. apply Hi. eapply Permutation_in; [apply Permutation_sym, Permutation_map; exact Hp|exact H].
Qed.

(* ------------------------------------------------------------------ topoSort: bucket sort + sort inside buckets *)

Lemma perm_filter {A} (p : A -> bool) l1 l2 : Permutation l1 l2 -> Permutation (filter p l1) (filter p l2).
Proof.
  induction 1 as [|x l l' _ IH|x y l|l l' l'' _ IH1 _ IH2]; cbn [filter].
  - constructor.
  - destruct (p x); [now constructor|exact IH].
  - destruct (p x), (p y); try reflexivity. apply perm_swap.
  - now transitivity (filter p l').
Qed.

Lemma perm_max l1 l2 : Permutation l1 l2 -> fold_right Nat.max O l1 = fold_right Nat.max O l2.
Proof.
  induction 1 as [|x l l' _ IH|x y l|l l' l'' _ IH1 _ IH2]; cbn [fold_right]; try lia.
Qed.

Lemma row_leb_total {P} (a b : row P) : row_leb a b = true \/ row_leb b a = true.
Proof. apply str_leb_total. Qed.
Lemma row_leb_trans {P} (a b c : row P) : row_leb a b = true -> row_leb b c = true -> row_leb a c = true.
Proof. apply str_leb_trans. Qed.

Lemma nodup_id_eq {P} : forall (rows : list (row P)) a b,
  NoDup (map row_id rows) -> In a rows -> In b rows -> row_id a = row_id b -> a = b.
Proof.
  induction rows as [|x t IH]; intros a b Hnd Ha Hb Hk; [contradiction|].
  cbn [map] in Hnd. inversion Hnd as [|? ? Hnin Hnd']; subst.
  destruct Ha as [->|Ha]; destruct Hb as [->|Hb]; try reflexivity.
  - exfalso. apply Hnin. rewrite Hk. now apply in_map.
  - exfalso. apply Hnin. rewrite <- Hk. now apply in_map.
  - now apply IH.
Qed.

(* the order produced by topoSort depends only on the SET of rows (height, identity, fields): any order in which
   the fields were first met gives the same result *)
Lemma topo_order_invariant {P} (rows1 rows2 : list (row P)) :
  NoDup (map row_id rows1) -> Permutation rows1 rows2 -> topo_order rows1 = topo_order rows2.
Proof.
  intros Hnd Hp. unfold topo_order, max_height.
  rewrite (perm_max _ _ (Permutation_map row_h Hp)).
  apply flat_map_ext. intro h.
  apply (isort_perm_invariant _ row_leb row_leb_total row_leb_trans); [|now apply perm_filter].
  intros a b Ha Hb H1 H2. apply filter_In in Ha as [Ha _]. apply filter_In in Hb as [Hb _].
  apply (nodup_id_eq rows1); try assumption. now apply str_leb_antisym.
Qed.

