(* C18: order-sensitive sites that iterate over a Go map. Map iteration order is modelled as a parameter:
   the map's entries arrive as a list `pi` in SOME order (any permutation of the entry set). Each site is a
   function of pi; the theorems say the result does not depend on pi.
     gen/funcs.go   asStringSwitch   (collect keys, sort.Strings, bucket by hash % size, sort buckets)
     lalr/trie.go   collect (terminal -> gotos) / (rule -> gotos) map entries, sort by key
     syntax/types.go sortAndDedup
   Strings are byte lists; sorting is an insertion sort (any correct sort gives the same list). No proofs. *)
From Coq Require Import List ZArith Bool.
Import ListNotations.
Local Open Scope Z_scope.

Section Sort.
  Variable A : Type.
  Variable leb : A -> A -> bool.
  Fixpoint insert (x : A) (l : list A) : list A :=
    match l with
    | [] => [x]
    | y :: t => if leb x y then x :: l else y :: insert x t
    end.
  Fixpoint isort (l : list A) : list A :=
    match l with [] => [] | x :: t => insert x (isort t) end.
End Sort.

(* Go's string comparison: lexicographic on bytes *)
Fixpoint str_leb (a b : list Z) : bool :=
  match a, b with
  | [], _ => true
  | _ :: _, [] => false
  | x :: a', y :: b' => if x <? y then true else if y <? x then false else str_leb a' b'
  end.

Definition str_eqb (a b : list Z) : bool := str_leb a b && str_leb b a.

(* ---- syntax/types.go sortAndDedup ---- *)
Fixpoint dedup (l : list (list Z)) : list (list Z) :=
  match l with
  | [] => []
  | x :: t => match t with
              | y :: _ => if str_eqb x y then dedup t else x :: dedup t
              | [] => [x]
              end
  end.
Definition sort_and_dedup (l : list (list Z)) : list (list Z) := dedup (isort _ str_leb l).

(* ---- lalr/trie.go: entries of a map[int]V collected in iteration order, then sorted by key ---- *)
Definition key_leb {V : Type} (a b : Z * V) : bool := fst a <=? fst b.
Definition collect_sorted {V : Type} (pi : list (Z * V)) : list (Z * V) := isort _ key_leb pi.

(* ---- gen/funcs.go asStringSwitch ---- *)
Definition u32 (x : Z) : Z := x mod 4294967296.

(* stringHash over the runes of the string (the harness passes ASCII keys: one rune per byte) *)
Fixpoint string_hash_from (h : Z) (s : list Z) : Z :=
  match s with [] => h | r :: t => string_hash_from (u32 (h * 31 + r)) t end.
Definition string_hash (s : list Z) : Z := string_hash_from 0 s.

Fixpoint switch_size (fuel : nat) (size n : Z) : Z :=
  match fuel with O => size | S k => if size <? n then switch_size k (size * 2) n else size end.

(* a bucket: (hash % size, entries (hash, string, action) in insertion order) *)
Definition bucket := (Z * list (Z * list Z * Z))%type.

Fixpoint add_to_bucket (v : Z) (e : Z * list Z * Z) (bs : list bucket) : list bucket :=
  match bs with
  | [] => [(v, [e])]                                      (* new bucket appended at the end *)
  | (v', es) :: t => if v' =? v then (v', es ++ [e]) :: t else (v', es) :: add_to_bucket v e t
  end.

Definition bucket_leb (a b : bucket) : bool := fst a <=? fst b.

(* m is the map as a lookup function; pi the iteration order of its keys *)
Definition string_switch (m : list Z -> Z) (pi : list (list Z)) : Z * list bucket :=
  let size := switch_size 32 8 (Z.of_nat (length pi)) in
  let keys := isort _ str_leb pi in
  let bs := fold_left (fun bs s => let h := string_hash s in add_to_bucket (h mod size) (h, s, m s) bs) keys [] in
  (size, isort _ bucket_leb bs).
