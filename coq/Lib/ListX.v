(* Small list lemmas missing from the 8.16 standard library. *)
From Coq Require Import List Arith Lia.
Import ListNotations.

Lemma In_firstn {A} (x : A) n l : In x (firstn n l) -> In x l.
Proof. intro H. rewrite <- (firstn_skipn n l). apply in_or_app. now left. Qed.

Lemma In_skipn {A} (x : A) n l : In x (skipn n l) -> In x l.
Proof. intro H. rewrite <- (firstn_skipn n l). apply in_or_app. now right. Qed.

Lemma Forall_firstn' {A} (P : A -> Prop) n l : Forall P l -> Forall P (firstn n l).
Proof. rewrite !Forall_forall. intros H x Hx. apply H. eapply In_firstn; eauto. Qed.

Lemma Forall_skipn' {A} (P : A -> Prop) n l : Forall P l -> Forall P (skipn n l).
Proof. rewrite !Forall_forall. intros H x Hx. apply H. eapply In_skipn; eauto. Qed.
