(* Small list lemmas missing from the 8.16 standard library. *)
From Coq Require Import List Arith Lia.
Import ListNotations.

Lemma In_firstn {A} (x : A) n l : In x (firstn n l) -> In x l.
Proof. intro H. rewrite <- (firstn_skipn n l). apply in_or_app. now left. Qed.

Lemma In_skipn {A} (x : A) n l : In x (skipn n l) -> In x l.
Proof. intro H. rewrite <- (firstn_skipn n l). apply in_or_app. now right. Qed.

Lemma Forall_firstn' {A} (P : A -> Prop) n l : Forall P l -> Forall P (firstn n l).
Proof. rewrite !Forall_forall. intros H x Hx. apply H. eapply In_firstn; eauto. Qed.

Lemma Forall_skipn' {A} (P : A -> Prop) n l : Forall P l -> Forall P (skipn n l).
Proof. rewrite !Forall_forall. intros H x Hx. apply H. eapply In_skipn; eauto. Qed.

Lemma skipn_skipn' {A} (x y : nat) (l : list A) : skipn x (skipn y l) = skipn (x + y) l.
Proof.
  revert l; induction y as [|y IH]; intro l.
  - now rewrite Nat.add_0_r.
  - rewrite Nat.add_succ_r. destruct l as [|a l]; [now rewrite !skipn_nil|]. cbn [skipn]. apply IH.
Qed.

Lemma nth_firstn' {A} (l : list A) : forall n i d, (i < n)%nat -> nth i (firstn n l) d = nth i l d.
Proof.
  induction l as [|x l IH]; intros n i d H; [now rewrite firstn_nil|].
  destruct n as [|n]; [lia|]. destruct i as [|i]; [reflexivity|]. cbn [firstn nth]. apply IH. lia.
Qed.

Lemma nth_skipn' {A} (l : list A) : forall n i d, nth i (skipn n l) d = nth (n + i) l d.
Proof.
  induction l as [|x l IH]; intros n i d; [rewrite skipn_nil; now destruct i, n|].
  destruct n as [|n]; [reflexivity|]. cbn [skipn plus nth]. apply IH.
Qed.

Lemma firstn_add' {A} (n m : nat) (l : list A) : firstn (n + m) l = firstn n l ++ firstn m (skipn n l).
Proof.
  revert l; induction n as [|n IH]; intro l; [reflexivity|].
  destruct l as [|x l]; [now rewrite !firstn_nil|]. cbn [plus firstn skipn app]. now rewrite IH.
Qed.

Lemma firstn_S_nth' {A} (l : list A) : forall i d, (i < length l)%nat -> firstn (S i) l = firstn i l ++ [nth i l d].
Proof.
  induction l as [|x l IH]; intros i d H; [cbn in H; lia|].
  destruct i as [|i]; [reflexivity|]. cbn [firstn nth app]. f_equal. apply IH. cbn in H. lia.
Qed.
