(* C13: building blocks for "sortTail builds a permutation": the insertion sort by name permutes its input, the
   slots it hands out are distinct, and a list that is a permutation of 0..n-1 passes perm_ok. *)
From Coq Require Import List ZArith Bool Arith Lia Permutation.
From TM Require Import Util.Ident Syn.Expr Syn.Expand Syn.SortPerm.
Import ListNotations.

Lemma insert_by_name_perm names x l : Permutation (insert_by_name names x l) (x :: l).
Proof.
  induction l as [|y l IH]; cbn [insert_by_name]; [apply Permutation_refl|].
  destruct (bytes_ltb (names x) (names y)); [apply Permutation_refl|].
  eapply Permutation_trans; [apply perm_skip; exact IH|apply perm_swap].
Qed.

(* sort.Slice as modelled: the sorted list is a permutation of the local list, for every name function *)
Theorem sort_by_name_perm names l : Permutation (sort_by_name names l) l.
Proof.
  unfold sort_by_name.
  assert (H : forall l acc, Permutation (fold_left (fun acc x => insert_by_name names x acc) l acc) (l ++ acc)).
  { clear l. induction l as [|x l IH]; intro acc; cbn [fold_left app]; [apply Permutation_refl|].
    eapply Permutation_trans; [apply IH|]. eapply Permutation_trans; [apply Permutation_app_head, insert_by_name_perm|].
    apply Permutation_sym, Permutation_middle. }
  specialize (H l []). now rewrite app_nil_r in H.
Qed.

(* the local list of sortTail has no duplicates when the extracted nonterminals lie behind the original ones *)
Lemma sort_tail_local_nodup start curr total size : (S curr <= total - size)%nat ->
  NoDup (seq start (S curr - start) ++ seq (total - size) size).
Proof.
  intro H.
  assert (G : forall l1, NoDup l1 -> (forall x, In x l1 -> (x < total - size)%nat) -> NoDup (l1 ++ seq (total - size) size)).
  { induction 1 as [|a l1 Hn Hd IH]; intro Hlt; cbn [app]; [apply seq_NoDup|]. constructor.
    - intro Hin. apply in_app_or in Hin as [Hin|Hin]; [contradiction|]. apply in_seq in Hin.
      specialize (Hlt a (or_introl eq_refl)). lia.
    - apply IH. intros x Hx. apply Hlt. now right. }
  apply G; [apply seq_NoDup|]. intros x Hx. apply in_seq in Hx. lia.
Qed.

(* any list that is a permutation of 0..n-1 passes the run-time check *)
Theorem permutation_perm_ok perm n : Permutation perm (seq 0 n) -> perm_ok perm n = true.
Proof.
  intro HP. unfold perm_ok. rewrite (Permutation_length HP), seq_length, Nat.eqb_refl. cbn [andb].
  apply andb_true_iff. split.
  - apply forallb_forall. intros p Hp. apply Nat.ltb_lt. apply (Permutation_in _ HP) in Hp. apply in_seq in Hp. lia.
  - apply NoDup_nodupb. eapply Permutation_NoDup; [apply Permutation_sym; exact HP|apply seq_NoDup].
Qed.
