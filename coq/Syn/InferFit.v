(* The bridge between the inference model (Syn/Infer.v) and the validator for arrow bodies (Syn/Types.v,
   Syn/TypesSym.v): the children an expression of the grammar produces (as a cexpr) and the accessor-level
   fields of an inferred phrase. Fragment: sequences, optionals, lists, %prec, nested arrows and reported
   tokens (no nonterminal references, no choices, no named fields, no categories). Definitions only; proofs
   are in InferFit_proofs.v. *)
From Coq Require Import List NArith ZArith Bool Arith.
From TM Require Import Syn.Types Syn.TypesSym Syn.Infer.
Import ListNotations.
Local Open Scope nat_scope.

(* produces no node: nothing, or a terminal that is not reported *)
Definition silent (m : model) (e : expr) : bool :=
  match e with
  | XEmpty | XLook => true
  | XRef sym => (sym <? m_nterms m) && match tok_name m sym with None => true | Some _ => false end
  | _ => false
  end.

Fixpoint simple (m : model) (e : expr) : bool :=
  match e with
  | XEmpty | XLook => true
  | XRef sym => sym <? m_nterms m
  | XArrow name _ => negb (str_eqb name ignore_content)
  | XSeq l => forallb (simple m) l
  | XChoice _ | XAssign _ _ | XAppend _ _ => false
  | XOpt e1 | XPrec e1 => simple m e1
  | XList e1 sep _ => simple m e1 && silent m sep
  end.

(* the children of a node whose arrow body is [e]; [tid] numbers the node types *)
Fixpoint cexpr_of (tid : str -> N) (m : model) (e : expr) : cexpr :=
  match e with
  | XEmpty | XLook => CEmpty
  | XRef sym => match tok_name m sym with Some n => CNode (tid n) | None => CEmpty end
  | XArrow name _ => CNode (tid name)
  | XSeq l =>
      (fix go (l : list expr) (acc : cexpr) {struct l} : cexpr :=
         match l with [] => acc | x :: r => go r (CSeq acc (cexpr_of tid m x)) end) l CEmpty
  | XOpt e1 => COpt (cexpr_of tid m e1)
  | XPrec e1 => cexpr_of tid m e1
  | XList e1 _ oom => CList (cexpr_of tid m e1) oom
  | XChoice _ | XAssign _ _ | XAppend _ _ => CEmpty
  end.

(* the phrase of an expression of the fragment, without the Tarjan state *)
Fixpoint phr (m : model) (e : expr) : phrase :=
  match e with
  | XArrow name _ => new_phrase name
  | XSeq l => concat_phrases (map (phr m) l)
  | XRef sym => match tok_name m sym with Some n => new_phrase n | None => mkPh [] true end
  | XPrec e1 => phr m e1
  | XOpt e1 => mkPh (map set_null (ph_fields (phr m e1))) (ph_ordered (phr m e1))
  | XList e1 _ oom =>
      mkPh (map (fun f => mkPF (pf_name f) (pf_types f) true (pf_null f || negb oom) (pf_ident f)) (ph_fields (phr m e1)))
           (ph_ordered (phr m e1))
  | _ => mkPh [] true
  end.

(* accessor-level fields of a phrase whose fields all fetch from the parent *)
Definition to_fields (tid : str -> N) (p : phrase) : list field :=
  map (fun f => mkF (map tid (pf_types f)) (-1) (negb (pf_null f)) (pf_list f)
                    (if length (pf_types f) =? 1 then 0%Z else (-1)%Z)) (ph_fields p).

(* an injective numbering of names (x zeros, a one, the rest), to instantiate [tid] *)
Fixpoint enc_str (s : str) : positive :=
  match s with
  | [] => xH
  | x :: r => Nat.iter (N.to_nat x) xO (xI (enc_str r))
  end.
Definition tid_enc (s : str) : N := Npos (enc_str s).
