(* Model of syntax/templates.go: Instantiate (resolveInstance, instance.resolve, allocate, check, doExpr,
   doSet, suffix, the final sort + Rearrange), and the meaning of templated grammars:
   predicate evaluation, the template denotation [tden], and the exhaustive semantic specialisation used
   by the oracle.  Executable and Prop-valued definitions only. *)
From Coq Require Import List ZArith Bool Arith.
From TM Require Import Util.Ident Gram.Cfg Syn.Expr Syn.Expand Syn.ExtLang.
Import ListNotations.
Local Open Scope Z_scope.

Definition env := list (Z * bytes).        (* instance.args: (param, value) *)

Fixpoint env_get (e : env) (p : Z) : option bytes :=
  match e with [] => None | (q, v) :: r => if q =? p then Some v else env_get r p end.

(* instance.resolve; None = log.Fatal("grammar inconsistency on TakeFrom") *)
Definition resolve_arg (ctx : option env) (a : arg) : option (Z * bytes) :=
  match a_value a with
  | _ :: _ => Some (a_param a, a_value a)
  | [] => match ctx with
          | Some e => match env_get e (a_take a) with Some v => Some (a_param a, v) | None => None end
          | None => None
          end
  end.

(* instantiator.check; the second component is "a log.Fatal was reached" *)
Fixpoint check_pred (ctx : option env) (p : pred) : bool * bool :=
  match p with
  | PEq param v =>
      match resolve_arg ctx (mkArg 0 [] param) with
      | Some (_, x) => (bytes_eqb x v, false)
      | None => (false, true)
      end
  | POr l =>
      (fix go (l : list pred) : bool * bool :=
         match l with
         | [] => (false, false)
         | s :: r => let '(b, f) := check_pred ctx s in
                     if f then (false, true) else if b then (true, false) else go r
         end) l
  | PAnd l =>
      (fix go (l : list pred) : bool * bool :=
         match l with
         | [] => (true, false)
         | s :: r => let '(b, f) := check_pred ctx s in
                     if f then (false, true) else if b then go r else (false, false)
         end) l
  | PNot s => let '(b, f) := check_pred ctx s in (negb b, f)
  end.

(* ---- instances ---- *)
Record inst := mkInst { i_nt : Z; i_sig : list (Z * bytes) (* bound parameters in argument order *) }.

Record ist := mkI { is_list : list inst; is_fatal : bool }.

Fixpoint sig_eqb (a b : list (Z * bytes)) : bool :=
  match a, b with
  | [], [] => true
  | (p, v) :: a', (q, w) :: b' => (p =? q) && bytes_eqb v w && sig_eqb a' b'
  | _, _ => false
  end.

Fixpoint find_inst (nt : Z) (sg : list (Z * bytes)) (l : list inst) (k : nat) : option nat :=
  match l with
  | [] => None
  | i :: r => if (i_nt i =? nt) && sig_eqb (i_sig i) sg then Some k else find_inst nt sg r (S k)
  end.

(* allocate sorts the arguments by parameter (insertion sort; parameters are distinct) *)
Fixpoint insert_bp (x : Z * bytes) (l : env) : env :=
  match l with
  | [] => [x]
  | y :: t => if fst x <? fst y then x :: l else y :: insert_bp x t
  end.
Definition inst_env (i : inst) : env := fold_left (fun acc x => insert_bp x acc) (i_sig i) [].

(* resolveInstance *)
Definition resolve_instance (st : ist) (ctx : option env) (nt : Z) (args : list arg) : nat * ist :=
  let '(sg, fatal) := fold_left (fun '(sg, fatal) a =>
      match resolve_arg ctx a with
      | Some bp => (sg ++ [bp], fatal)
      | None => (sg, true)
      end) args ([], is_fatal st) in
  match find_inst nt sg (is_list st) O with
  | Some k => (k, mkI (is_list st) fatal)
  | None => (length (is_list st), mkI (is_list st ++ [mkInst nt sg]) fatal)
  end.

Definition is_cond (e : expr) : bool := match e with ECond _ _ => true | _ => false end.
Definition set_ifatal (st : ist) (f : bool) : ist := mkI (is_list st) (is_fatal st || f).

(* the loop over the children of a Choice (kc: conditional alternatives are filtered), a Sequence (ks:
   children that became Empty are dropped) or a Lookahead *)
Section SubsLoop.
  Variable f : ist -> expr -> expr * ist.
  Variable chk : pred -> bool * bool.
  Fixpoint subs_loop (kc ks : bool) (l : list expr) (st : ist) {struct l} : list expr * ist :=
    match l with
    | [] => ([], st)
    | s :: rest =>
        let k := fun (cs : expr * ist) =>
          let '(conv, st) := cs in
          let '(r, st) := subs_loop kc ks rest st in
          if ks && is_empty_e conv then (r, st) else (conv :: r, st) in
        match s with
        | ECond p inner =>
            if kc then
              let '(b, fl) := chk p in
              let st := set_ifatal st fl in
              if b then k (f st inner) else subs_loop kc ks rest st
            else k (f st s)
        | _ => k (f st s)
        end
    end.
End SubsLoop.

(* doExpr *)
Fixpoint do_expr (T : Z) (ctx : option env) (st : ist) (e : expr) {struct e} : expr * ist :=
  let subs_of (kind_choice kind_seq : bool) :=
    subs_loop (fun st x => do_expr T ctx st x) (check_pred ctx) kind_choice kind_seq in
  match e with
  | ERef s args =>
      if T <=? s then
        let '(k, st) := resolve_instance st ctx (s - T) args in (ERef (T + Z.of_nat k) [], st)
      else (e, st)
  | ECond p s =>
      let '(b, f) := check_pred ctx p in
      let st := set_ifatal st f in
      if b then do_expr T ctx st s else (EEmpty, st)
  | EChoice l =>
      match l with
      | [] => (e, st)
      | _ => let '(r, st) := subs_of true false l st in
             match r with [] => (EEmpty, st) | [x] => (x, st) | _ => (EChoice r, st) end
      end
  | ESeq l =>
      match l with
      | [] => (e, st)
      | _ => let '(r, st) := subs_of false true l st in (ESeq r, st)
      end
  | EOpt s => let '(c, st) := do_expr T ctx st s in if is_empty_e c then (EEmpty, st) else (EOpt c, st)
  | EAssign n s => let '(c, st) := do_expr T ctx st s in (EAssign n c, st)
  | EAppend n s => let '(c, st) := do_expr T ctx st s in (EAppend n c, st)
  | EArrow n f s => let '(c, st) := do_expr T ctx st s in (EArrow n f c, st)
  | EPrec sym s => let '(c, st) := do_expr T ctx st s in (EPrec sym c, st)
  | ELaNot s => let '(c, st) := do_expr T ctx st s in (ELaNot c, st)
  | ELookahead l =>
      match l with
      | [] => (e, st)
      | _ => let '(r, st) := subs_of false false l st in (ELookahead r, st)
      end
  | EList fl el sep =>
      let '(c, st) := do_expr T ctx st el in
      match sep with
      | None => (EList fl c None, st)
      | Some s => let '(d, st) := do_expr T ctx st s in (EList fl c (Some d), st)
      end
  | EEmpty | ESet _ | EMarker _ | ECmd _ => (e, st)
  end.

(* doSet: only nonterminals without arguments can be named in set expressions of this model *)
Fixpoint do_set (T : Z) (st : ist) (t : tset) : tset * ist :=
  match t with
  | TSym op s =>
      if T <=? s then let '(k, st) := resolve_instance st None (s - T) [] in (TSym op (T + Z.of_nat k), st)
      else (t, st)
  | TUnion l =>
      let '(r, st) := (fix go (l : list tset) (st : ist) : list tset * ist :=
                         match l with [] => ([], st)
                         | x :: rest => let '(y, st) := do_set T st x in let '(r, st) := go rest st in (y :: r, st) end) l st in
      (TUnion r, st)
  | TInter l =>
      let '(r, st) := (fix go (l : list tset) (st : ist) : list tset * ist :=
                         match l with [] => ([], st)
                         | x :: rest => let '(y, st) := do_set T st x in let '(r, st) := go rest st in (y :: r, st) end) l st in
      (TInter r, st)
  | TCompl i x => let '(y, st) := do_set T st x in (TCompl i y, st)
  | TNamed _ => (t, st)
  end.

Definition s_true : bytes := [116; 114; 117; 101].
Definition s_false : bytes := [102; 97; 108; 115; 101].

(* suffix; the flag = log.Fatal("broken invariant") on a value that is neither "true" nor "false" *)
Definition suffix_of (params : list param) (e : env) : bytes * bool :=
  fold_left (fun '(sfx, fatal) '(p, v) =>
      if bytes_eqb v s_true then (sfx ++ [95] ++ p_name (nth (Z.to_nat p) params (mkParam [] [] false)), fatal)
      else if bytes_eqb v s_false then (sfx, fatal) else (sfx, true)) e ([], false).

(* the main loop: instantiate every allocated instance (the list grows while it is walked) *)
Fixpoint inst_loop (fuel : nat) (T : Z) (nts : list nonterm) (i : nat) (st : ist) (vals : list expr) : list expr * ist :=
  match fuel with
  | O => (vals, mkI (is_list st) true)
  | S f =>
    match nth_error (is_list st) i with
    | None => (vals, st)
    | Some cur =>
        let v := nt_value (nth (Z.to_nat (i_nt cur)) nts (mkNt [] [] EEmpty 0)) in
        let '(c, st) := do_expr T (Some (inst_env cur)) st v in
        inst_loop f T nts (S i) st (vals ++ [c])
    end
  end.

Record tresult := mkTR {
  tr_nonterms : list (bytes * expr * Z);     (* name, value, group *)
  tr_inputs : list input;
  tr_sets : list tset;
  tr_fatal : bool
}.

(* order by (nonterm, suffix) *)
Definition inst_lt (a b : Z * bytes) : bool :=
  if fst a <? fst b then true else if fst b <? fst a then false else bytes_ltb (snd a) (snd b).
Fixpoint insert_inst (keys : nat -> Z * bytes) (x : nat) (l : list nat) : list nat :=
  match l with
  | [] => [x]
  | y :: t => if inst_lt (keys x) (keys y) then x :: l else y :: insert_inst keys x t
  end.

Definition instantiate (fuel : nat) (m : model) : tresult :=
  let T := nterms m in
  match m_params m with
  | [] => mkTR (map (fun nt => (nt_name nt, nt_value nt, nt_group nt)) (m_nonterms m)) (m_inputs m) (m_sets m) false
  | _ =>
    let st := mkI [] false in
    let '(inputs, st) := fold_left (fun '(acc, st) i =>
        let '(k, st) := resolve_instance st None (in_nt i) [] in
        (acc ++ [mkInput (Z.of_nat k) (in_noeoi i)], st)) (m_inputs m) ([], st) in
    let '(sets, st) := fold_left (fun '(acc, st) s => let '(y, st) := do_set T st s in (acc ++ [y], st)) (m_sets m) ([], st) in
    let '(vals, st) := inst_loop fuel T (m_nonterms m) O st [] in
    let insts := is_list st in
    let sfx := map (fun i => suffix_of (m_params m) (inst_env i)) insts in
    let fatal := is_fatal st || existsb snd sfx in
    let named := map (fun '(i, (s, v)) =>
        let nt := nth (Z.to_nat (i_nt i)) (m_nonterms m) (mkNt [] [] EEmpty 0) in
        (nt_name nt ++ fst s, v, i_nt i + 1)) (List.combine insts (List.combine sfx vals)) in
    let keys k := (i_nt (nth k insts (mkInst 0 [])), fst (nth k sfx ([], false))) in
    let sorted := fold_left (fun acc x => insert_inst keys x acc) (seq 0 (length insts)) [] in
    (* perm[instance.index] = position in the sorted list *)
    let perm := map (fun k => index_of k sorted O) (seq 0 (length insts)) in
    let f := perm_sym T perm in
    let moved := rearrange_list perm named ([], EEmpty, 0) in
    mkTR (map (fun '(n, v, g) => (n, rename_expr f v, g)) moved)
         (map (fun i => mkInput (Z.of_nat (nth (Z.to_nat (in_nt i)) perm O)) (in_noeoi i)) inputs)
         (map (rename_tset f) sets)
         fatal
  end.

(* ---------- the meaning of a templated grammar ---------- *)
(* predicate evaluation under an environment (unbound parameter: false) *)
Fixpoint eval_pred (e : env) (p : pred) : bool :=
  match p with
  | PEq param v => match env_get e param with Some x => bytes_eqb x v | None => false end
  | POr l => existsb (eval_pred e) l
  | PAnd l => forallb (eval_pred e) l
  | PNot s => negb (eval_pred e s)
  end.

(* argument binding of a reference under the caller's environment *)
Definition bind_args (e : env) (args : list arg) : env :=
  flat_map (fun a => match resolve_arg (Some e) a with Some bp => [bp] | None => [] end) args.

Section TDen.
  Variable T : Z.
  Variable trho : Z -> env -> lang.       (* nonterminal symbol, bound arguments (in argument order) -> language *)
  Variable setden : Z -> Z -> Prop.

  Definition alt_enabled (e : env) (a : expr) : bool :=
    match a with ECond p _ => eval_pred e p | _ => true end.

  (* template denotation under the environment of the enclosing instance.  Disabled alternatives of a choice
     are removed; a group left without alternatives, and a conditional that is not an alternative of a
     choice (a parenthesised single rule, a nonterminal with one rule), vanish: they match the empty string.
     This is the reading pinned by syntax/templates_test.go (`F<T>: a ([T] b) a` with T=false gives `F: a a`). *)
  Fixpoint tden (e : env) (x : expr) : lang :=
    match x with
    | EEmpty | EMarker _ | ECmd _ | ELookahead _ | ELaNot _ => lang_eps
    | EOpt s => fun w => w = [] \/ tden e s w
    | EChoice l =>
        match l with
        | [] => lang_any []
        | _ => if existsb (alt_enabled e) l
               then lang_any (map (fun a => if alt_enabled e a then tden e a else (fun _ => False)) l)
               else lang_eps
        end
    | ESeq l => lang_cat (map (tden e) l)
    | ERef s args => if s <? T then (fun w => w = [s]) else trho s (bind_args e args)
    | ESet i => fun w => exists a, w = [a] /\ setden i a
    | EArrow _ _ s | EAssign _ s | EAppend _ s | EPrec _ s => tden e s
    | ECond p s => if eval_pred e p then tden e s else lang_eps
    | EList fl el sep =>
        let E := tden e el in
        let S := match sep with None => lang_eps | Some s => tden e s end in
        fun w => (Z.odd fl = false /\ w = []) \/ plus_sep E S w
    end.
End TDen.

(* ---------- exhaustive semantic specialisation (oracle) ---------- *)
(* all boolean valuations of a parameter list, in argument order *)
Fixpoint valuations (ps : list Z) : list env :=
  match ps with
  | [] => [[]]
  | p :: r => flat_map (fun v => [(p, s_true) :: v; (p, s_false) :: v]) (valuations r)
  end.

(* every (nonterminal, valuation) pair, numbered consecutively *)
Definition all_pairs (nts : list nonterm) : list (Z * env) :=
  flat_map (fun '(i, nt) => map (fun v => (Z.of_nat i, v)) (valuations (nt_params nt)))
           (List.combine (seq 0 (length nts)) nts).

Fixpoint pair_index (nt : Z) (sg : env) (l : list (Z * env)) (k : nat) : option nat :=
  match l with
  | [] => None
  | (n, v) :: r => if (n =? nt) && sig_eqb v sg then Some k else pair_index nt sg r (S k)
  end.

(* specialise an expression under an environment: conditionals are decided (a false one becomes the empty
   choice = no string), references point at the pair of the callee.  [eps_if_dead]: the variant reading in
   which a disabled conditional stands for the empty string. *)
Fixpoint specialise (eps_if_dead : bool) (T : Z) (pairs : list (Z * env)) (e : env) (x : expr) : expr :=
  match x with
  | ERef s args =>
      if s <? T then ERef s []
      else match pair_index (s - T) (bind_args e args) pairs O with
           | Some k => ERef (T + Z.of_nat k) []
           | None => EChoice []            (* not a boolean valuation of the callee: no such instance *)
           end
  | ECond p s => if eval_pred e p then specialise eps_if_dead T pairs e s else if eps_if_dead then EEmpty else EChoice []
  | EOpt s => EOpt (specialise eps_if_dead T pairs e s)
  | EChoice l =>
      let l' := map (specialise eps_if_dead T pairs e) l in
      if eps_if_dead then
        (* drop the disabled alternatives; if none is left the choice stands for the empty string *)
        let live := flat_map (fun a => if match a with ECond p _ => eval_pred e p | _ => true end
                                       then [specialise eps_if_dead T pairs e a] else []) l in
        match l, live with [], _ => EChoice [] | _, [] => EEmpty | _, _ => EChoice live end
      else EChoice l'
  | ESeq l => ESeq (map (specialise eps_if_dead T pairs e) l)
  | EAssign n s => EAssign n (specialise eps_if_dead T pairs e s)
  | EAppend n s => EAppend n (specialise eps_if_dead T pairs e s)
  | EArrow n f s => EArrow n f (specialise eps_if_dead T pairs e s)
  | EPrec sym s => EPrec sym (specialise eps_if_dead T pairs e s)
  | EList fl el sep => EList fl (specialise eps_if_dead T pairs e el) (option_map (specialise eps_if_dead T pairs e) sep)
  | ELookahead _ | ELaNot _ | EEmpty | ESet _ | EMarker _ | ECmd _ => x
  end.

Definition spec_values (eps_if_dead : bool) (T : Z) (nts : list nonterm) : list (Z * env) * list expr :=
  let pairs := all_pairs nts in
  (pairs, map (fun '(n, v) => specialise eps_if_dead T pairs v (nt_value (nth (Z.to_nat n) nts (mkNt [] [] EEmpty 0)))) pairs).

(* ---------- the pieces of Instantiate by name, and the run-time checkable side conditions of the
              correctness theorem (Templates_global.v) ---------- *)
Definition inst_start (m : model) : ist :=
  let T := nterms m in
  let '(inputs, st) := fold_left (fun '(acc, st) i =>
      let '(k, st) := resolve_instance st None (in_nt i) [] in
      (acc ++ [mkInput (Z.of_nat k) (in_noeoi i)], st)) (m_inputs m) ([], mkI [] false) in
  snd (fold_left (fun '(acc, st) s => let '(y, st) := do_set T st s in (acc ++ [y], st)) (m_sets m) ([], st)).

Definition inst_perm (m : model) (insts : list inst) : list nat :=
  let sfx := map (fun i => suffix_of (m_params m) (inst_env i)) insts in
  let keys k := (i_nt (nth k insts (mkInst 0 [])), fst (nth k sfx ([], false))) in
  let sorted := fold_left (fun acc x => insert_inst keys x acc) (seq 0 (length insts)) [] in
  map (fun k => index_of k sorted O) (seq 0 (length insts)).

Definition inst_eqb (a b : inst) : bool := (i_nt a =? i_nt b) && sig_eqb (i_sig a) (i_sig b).
Fixpoint inst_nodupb (l : list inst) : bool :=
  match l with [] => true | x :: r => negb (existsb (inst_eqb x) r) && inst_nodupb r end.

Definition inst_checks (fuel : nat) (m : model) : bool :=
  match m_params m with
  | [] => true
  | _ =>
    let '(vals, st) := inst_loop fuel (nterms m) (m_nonterms m) O (inst_start m) [] in
    negb (is_fatal st) && inst_nodupb (is_list st) &&
    perm_ok (inst_perm m (is_list st)) (length vals) &&
    forallb (bounded (nterms m + Z.of_nat (length vals))) vals
  end.

(* the part of inst_checks that is not proved for all models: no Fatal branch, instances pairwise different,
   references of the instantiated table in range.  That the final sort builds a permutation is a theorem
   (Templates_perm.inst_perm_ok), so inst_checks_core implies inst_checks. *)
Definition inst_checks_core (fuel : nat) (m : model) : bool :=
  match m_params m with
  | [] => true
  | _ =>
    let '(vals, st) := inst_loop fuel (nterms m) (m_nonterms m) O (inst_start m) [] in
    negb (is_fatal st) && inst_nodupb (is_list st) &&
    forallb (bounded (nterms m + Z.of_nat (length vals))) vals
  end.

(* ---------- lookahead flags (oracle side only; PropagateLookaheads itself is not modelled) ---------- *)
(* The meaning of a lookahead flag: it is visible in every nonterminal without being declared; a reference
   passes it on unchanged when it is an entry point of the enclosing rule (the first significant symbol, as in
   entryPoints), resets it to false elsewhere, and an explicit argument overrides both.  [la_explicit] rewrites a
   model into one where the lookahead flags are ordinary parameters of every nonterminal with explicit arguments
   everywhere, so that the ordinary template semantics applies. *)
Definition la_flags (m : model) : list Z :=
  flat_map (fun '(i, p) => if p_la p then [Z.of_nat i] else []) (List.combine (seq 0 (length (m_params m))) (m_params m)).

Definition seq_skipped (e : expr) : bool :=
  match e with EEmpty | EMarker _ | ECmd _ | ELookahead _ => true | _ => false end.

Fixpoint la_expr (T : Z) (la : list Z) (entry : bool) (e : expr) : expr :=
  match e with
  | ERef s args =>
      if s <? T then e else
      let is_la p := existsb (Z.eqb p) la in
      let regular := filter (fun a => negb (is_la (a_param a))) args in
      let extra := map (fun v => match filter (fun a => a_param a =? v) args with
                                 | a :: _ => a
                                 | [] => if entry then mkArg v [] v else mkArg v s_false 0
                                 end) la in
      ERef s (regular ++ extra)
  | ESeq l =>
      ESeq ((fix go (l : list expr) (first : bool) : list expr :=
               match l with
               | [] => []
               | x :: r => if seq_skipped x then x :: go r first
                           else la_expr T la (first && entry) x :: go r false
               end) l true)
  | EChoice l => EChoice (map (la_expr T la entry) l)
  | EOpt x => EOpt (la_expr T la entry x)
  | EAssign n x => EAssign n (la_expr T la entry x)
  | EAppend n x => EAppend n (la_expr T la entry x)
  | EArrow n f x => EArrow n f (la_expr T la entry x)
  | ECond p x => ECond p (la_expr T la entry x)
  | EPrec sym x => EPrec sym (la_expr T la entry x)
  | EList fl el sep => EList fl (la_expr T la entry el) (option_map (la_expr T la false) sep)
  | _ => e
  end.

Definition la_explicit (m : model) : model :=
  let la := la_flags m in
  match la with
  | [] => m
  | _ =>
    mkModel (m_terms m) (m_params m)
      (map (fun nt => mkNt (nt_name nt) (nt_params nt ++ la) (la_expr (nterms m) la true (nt_value nt)) (nt_group nt)) (m_nonterms m))
      (m_inputs m) (m_sets m)
  end.
