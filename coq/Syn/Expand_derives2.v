(* C13: the bridge between the least solution of an expanded table and Derive.derives, extended to tables that still
   hold set nonterminals (ESet i: one terminal of the resolved set) and lookahead nonterminals (the empty rule):
   exactly the tables ExtLang.to_cfg accepts. *)
From Coq Require Import List ZArith Bool Arith Lia.
From TM Require Import Util.Ident Gram.Cfg Gram.Derive Syn.Expr Syn.Expand Syn.ExtLang Syn.Expand_proofs Syn.Expand_global
  Syn.Expand_derives Syn.Expand_correct Syn.ExpandWf Syn.Expand_wf_proofs.
Import ListNotations.
Local Open Scope Z_scope.

(* pointwise equivalent tables have the same least solution *)
Lemma lfp_congr T setden vals vals' : length vals = length vals' ->
  (forall rho Y w, in_sys T vals Y ->
     (den T rho setden (value_of T vals Y) w <-> den T rho setden (value_of T vals' Y) w)) ->
  forall X w, lfp T setden vals X w <-> lfp T setden vals' X w.
Proof.
  intros Hlen Heq X w. unfold lfp. split; intros H rho Hp; apply H; intros Y u Hin Hd.
  - assert (Hin' : in_sys T vals' Y) by (unfold in_sys in *; now rewrite <- Hlen). apply Hp; [exact Hin'|]. now apply (Heq rho Y u Hin).
  - assert (Hin' : in_sys T vals Y) by (unfold in_sys in *; now rewrite Hlen). apply Hp; [exact Hin'|]. now apply (Heq rho Y u Hin').
Qed.

(* a set nonterminal as the choice of its terminals, a lookahead nonterminal as the empty rule *)
Definition desugar_val (setterms : Z -> list Z) (v : expr) : expr :=
  match v with
  | ESet i => EChoice (map (fun a => ERef a []) (setterms i))
  | ELookahead _ => EChoice [EEmpty]
  | _ => v
  end.

Lemma rules_of_desugar setterms X v :
  rules_of_nonterm setterms X v = rules_of_nonterm (fun _ => []) X (desugar_val setterms v).
Proof.
  destruct v; try reflexivity. cbn [desugar_val rules_of_nonterm].
  match goal with |- context [setterms ?j] => induction (setterms j) as [|a l IH] end; [reflexivity|].
  cbn [map fold_right rhs_of]. now rewrite <- IH.
Qed.

Lemma to_cfg_desugar T setterms vals :
  to_cfg T setterms vals = to_cfg T (fun _ => []) (map (desugar_val setterms) vals).
Proof.
  unfold to_cfg. rewrite map_length.
  assert (G : forall s,
    fold_right (fun '(k, v) acc => match rules_of_nonterm setterms (T + Z.of_nat k) v, acc with
                                   | Some a, Some b => Some (a ++ b) | _, _ => None end)
               (Some []) (List.combine (seq s (length vals)) vals) =
    fold_right (fun '(k, v) acc => match rules_of_nonterm (fun _ => []) (T + Z.of_nat k) v, acc with
                                   | Some a, Some b => Some (a ++ b) | _, _ => None end)
               (Some []) (List.combine (seq s (length vals)) (map (desugar_val setterms) vals))).
  { induction vals as [|v vals IH]; intro s; [reflexivity|]. cbn [length seq List.combine map fold_right].
    now rewrite IH, rules_of_desugar. }
  now rewrite G.
Qed.

Lemma den_desugar T rho (setden : Z -> Z -> Prop) setterms :
  (forall i a, setden i a <-> In a (setterms i)) -> (forall i a, In a (setterms i) -> 0 <= a < T) ->
  forall v w, den T rho setden (desugar_val setterms v) w <-> den T rho setden v w.
Proof.
  intros Hs Hr v w. destruct v as [| ? | ? | ? | ? ? | ? ? | ? ? | ? ? ? | i | ? | ? | ? | ? | ? ? ? | ? ? | ? ?]; try tauto; cbn [desugar_val den].
  - rewrite map_map, lang_any_map. split.
    + intros (a & Ha & Hd). cbn [den] in Hd. destruct (Hr i a Ha) as [_ Hlt]. apply Z.ltb_lt in Hlt. rewrite Hlt in Hd.
      exists a. split; [exact Hd | now apply Hs].
    + intros (a & -> & Ha). apply Hs in Ha. exists a. split; [exact Ha|]. cbn [den].
      destruct (Hr i a Ha) as [_ Hlt]. apply Z.ltb_lt in Hlt. now rewrite Hlt.
  - cbn [map lang_any den]. tauto.
Qed.

(* the grammar computed by to_cfg from an expanded table (flat choices, set nonterminals with their resolved terminals,
   lookahead nonterminals) has the language of the table *)
Theorem to_cfg_language_sets T (setden : Z -> Z -> Prop) setterms vals g :
  0 <= T ->
  to_cfg T setterms vals = Some g ->
  (forall i a, setden i a <-> In a (setterms i)) ->
  (forall i a, In a (setterms i) -> 0 <= a < T) ->
  (forall k, (k < length vals)%nat ->
    (exists alts, nth k vals (EChoice []) = EChoice alts /\
       forall a, In a alts -> exists rhs, rhs_of a = Some rhs /\ forall s, In s rhs -> 0 <= s) \/
    (exists i, nth k vals (EChoice []) = ESet i) \/
    (exists subs, nth k vals (EChoice []) = ELookahead subs)) ->
  forall X w, T <= X -> (lfp T setden vals X w <-> derives g X w).
Proof.
  intros HT Hg Hs Hr Hshape X w HX. rewrite to_cfg_desugar in Hg.
  set (vals' := map (desugar_val setterms) vals) in *.
  assert (Hnth : forall k, nth k vals' (EChoice []) = desugar_val setterms (nth k vals (EChoice []))).
  { intro k. unfold vals'. change (EChoice []) with (desugar_val setterms (EChoice [])) at 1. apply map_nth. }
  rewrite (lfp_congr T setden vals vals').
  - apply (to_cfg_language T setden vals' g HT Hg); [|exact HX].
    intros k Hk. unfold vals' in Hk. rewrite map_length in Hk. rewrite Hnth.
    destruct (Hshape k Hk) as [(alts & -> & Ha) | [(i & ->) | (subs & ->)]]; cbn [desugar_val].
    + exists alts. split; [reflexivity | exact Ha].
    + eexists. split; [reflexivity|]. intros a Ha. apply in_map_iff in Ha as (t & <- & Ht).
      exists [t]. split; [reflexivity|]. intros s [<-|[]]. destruct (Hr i t Ht). lia.
    + eexists. split; [reflexivity|]. intros a [<-|[]]. exists []. split; [reflexivity | intros s []].
  - unfold vals'. now rewrite map_length.
  - intros rho Y u _. unfold value_of. rewrite Hnth. symmetry. now apply den_desugar.
Qed.

Lemma perm_sym_high T perm s : T <= s -> T <= perm_sym T perm s.
Proof. intro H. unfold perm_sym. replace (s <? T) with false by (symmetry; now apply Z.ltb_ge). lia. Qed.

(* the FULL statement of C13 with derivations on the right: the language of an original nonterminal in the extended
   notation is what the plain grammar read from the expanded model (set nonterminals with their resolved terminals,
   lookahead nonterminals as empty rules) derives from the renamed nonterminal *)
Theorem expand_correct_derives (setden : Z -> Z -> Prop) setterms m g :
  wf_model m = true ->
  to_cfg (nterms m) setterms (map snd (res_nonterms (expand m))) = Some g ->
  (forall i a, setden i a <-> In a (setterms i)) ->
  (forall i a, In a (setterms i) -> 0 <= a < nterms m) ->
  (forall k, (k < length (res_nonterms (expand m)))%nat ->
    (exists alts, nth k (map snd (res_nonterms (expand m))) (EChoice []) = EChoice alts /\
       forall a, In a alts -> exists rhs, rhs_of a = Some rhs /\ forall s, In s rhs -> 0 <= s) \/
    (exists i, nth k (map snd (res_nonterms (expand m))) (EChoice []) = ESet i) \/
    (exists subs, nth k (map snd (res_nonterms (expand m))) (EChoice []) = ELookahead subs)) ->
  forall X, nterms m <= X < nterms m + Z.of_nat (length (m_nonterms m)) -> forall w,
    lfp (nterms m) setden (map nt_value (m_nonterms m)) X w <->
    derives g (perm_sym (nterms m) (x_perm (snd (phase1 m))) X) w.
Proof.
  intros Hwf Hg Hs Hr Hshape X HX w.
  rewrite (expand_correct_wf setden m Hwf X HX w).
  apply (to_cfg_language_sets (nterms m) setden setterms _ g); auto.
  - unfold nterms. lia.
  - intros k Hk. rewrite map_length in Hk. now apply Hshape.
  - apply perm_sym_high. lia.
Qed.
