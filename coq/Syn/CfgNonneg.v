(* C13: executable side condition of the derives bridge (Syn/Expand_derives3.v): the plain grammar read from an
   expanded model mentions no negative symbol.  Executable definitions only. *)
From Coq Require Import List ZArith Bool.
From TM Require Import Gram.Cfg.
Import ListNotations.
Local Open Scope Z_scope.

Definition nonneg_rules (g : grammar) : bool :=
  forallb (fun r => forallb (fun s => 0 <=? s) (r_rhs r)) (g_rules g).
