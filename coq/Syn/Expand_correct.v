From Coq Require Import List ZArith Bool Arith Lia.
From TM Require Import Util.Ident Syn.Expr Syn.Expand Syn.ExtLang Syn.Expand_proofs Syn.Expand_global.
Import ListNotations.
Local Open Scope Z_scope.

(* The whole of syntax.Expand: Rearrange (a permutation applied consistently) and the final theorem. *)
(* ---------- Rearrange: a permutation applied consistently does not change any language ---------- *)
Section Rename.
  Variable T : Z.
  Variable setden : Z -> Z -> Prop.

  Lemma den_rename (f : Z -> Z) rho :
    (forall s, s < T -> f s = s) -> (forall s, T <= s -> T <= f s) ->
    forall e w, den T rho setden (rename_expr f e) w <-> den T (fun s => rho (f s)) setden e w.
  Proof.
    intros Hlo Hhi. induction e using expr_ind2; intro w; cbn [rename_expr den]; try tauto.
    - rewrite (IHe w). tauto.
    - rewrite map_map. apply lang_any_ext. apply Forall2_map_same. exact H.
    - rewrite map_map. apply lang_cat_ext. apply Forall2_map_same. exact H.
    - destruct (s <? T) eqn:Es.
      + apply Z.ltb_lt in Es. rewrite (Hlo s Es). replace (s <? T) with true by (symmetry; now apply Z.ltb_lt). tauto.
      + apply Z.ltb_ge in Es. replace (f s <? T) with false by (symmetry; apply Z.ltb_ge; now apply Hhi). tauto.
    - auto.
    - auto.
    - auto.
    - assert (G : forall u, plus_sep (den T rho setden (rename_expr f e))
                              (match option_map (rename_expr f) s with None => lang_eps | Some x => den T rho setden x end) u <->
                            plus_sep (den T (fun s => rho (f s)) setden e)
                              (match s with None => lang_eps | Some x => den T (fun s => rho (f s)) setden x end) u).
      { apply plus_sep_ext; [exact IHe|]. destruct s as [x|]; cbn [option_map]; [apply (H x eq_refl) | tauto]. }
      rewrite (G w). tauto.
    - auto.
    - auto.
  Qed.

  Variable vals : list expr.
  Variable perm : list nat.
  Let n := length vals.
  Hypothesis Hlen : length perm = n.
  Hypothesis Hrange : forall i, (i < n)%nat -> (nth i perm O < n)%nat.
  Hypothesis Hinj : forall i j, (i < n)%nat -> (j < n)%nat -> nth i perm O = nth j perm O -> i = j.
  Hypothesis Hbound : forall i, (i < n)%nat -> bounded (T + Z.of_nat n) (nth i vals (EChoice [])) = true.
  Hypothesis HT : 0 <= T.

  Definition fwd : Z -> Z := perm_sym T perm.
  Definition bwd (s : Z) : Z := if s <? T then s else T + Z.of_nat (index_of (Z.to_nat (s - T)) perm O).

  Definition renamed : list expr := rearrange_list perm (map (rename_expr fwd) vals) EEmpty.

  Lemma index_of_spec x : forall l k, (index_of x l k < k + length l)%nat -> nth (index_of x l k - k) l O = x /\ (k <= index_of x l k)%nat.
  Proof.
    induction l as [|y l IH]; intros k H; cbn [index_of length] in *; [lia|].
    destruct (Nat.eqb_spec x y) as [->|N].
    - rewrite Nat.sub_diag. split; [reflexivity | lia].
    - destruct (IH (S k)) as [H1 H2]; [lia|]. split; [|lia].
      replace (index_of x l (S k) - k)%nat with (S (index_of x l (S k) - S k)) by lia. exact H1.
  Qed.

  Lemma index_of_nth i : (i < n)%nat -> index_of (nth i perm O) perm O = i.
  Proof.
    intro Hi.
    assert (G : forall l k j, (j < length l)%nat -> (index_of (nth j l O) l k <= k + j)%nat).
    { induction l as [|y l IH]; intros k j Hj; cbn [length] in Hj; [lia|]. cbn [index_of]. destruct j as [|j]; cbn [nth].
      - rewrite Nat.eqb_refl. lia.
      - destruct (Nat.eqb (nth j l O) y); [lia|]. specialize (IH (S k) j). lia. }
    assert (Hle : (index_of (nth i perm O) perm O <= i)%nat) by (specialize (G perm O i); lia).
    destruct (index_of_spec (nth i perm O) perm O) as [H1 _]; [lia|]. rewrite Nat.sub_0_r in H1.
    apply Hinj; [lia | exact Hi | exact H1].
  Qed.

  (* the permutation is onto *)
  Lemma perm_onto p : (p < n)%nat -> exists i, (i < n)%nat /\ nth i perm O = p.
  Proof.
    intro Hp.
    assert (Hnd : NoDup perm).
    { apply NoDup_nth with (d := O). intros i j Hi Hj He. rewrite Hlen in *. now apply Hinj. }
    assert (Hincl : incl perm (seq 0 n)).
    { intros x Hx. apply In_nth with (d := O) in Hx as (i & Hi & <-). rewrite Hlen in Hi. apply in_seq. specialize (Hrange i Hi). lia. }
    assert (Hincl2 : incl (seq 0 n) perm).
    { apply NoDup_length_incl; auto. rewrite seq_length. lia. }
    assert (Hin : In p perm) by (apply Hincl2, in_seq; lia).
    apply In_nth with (d := O) in Hin as (i & Hi & He). exists i. rewrite Hlen in Hi. auto.
  Qed.

  Lemma renamed_length : length renamed = n.
  Proof. unfold renamed, rearrange_list. now rewrite map_length, seq_length, map_length. Qed.

  Lemma renamed_at i : (i < n)%nat -> nth (nth i perm O) renamed (EChoice []) = rename_expr fwd (nth i vals (EChoice [])).
  Proof.
    intro Hi. unfold renamed, rearrange_list. rewrite map_length.
    rewrite (nth_indep _ (EChoice []) ((fun p => nth (index_of p perm O) (map (rename_expr fwd) vals) EEmpty) O))
      by (rewrite map_length, seq_length; now apply Hrange).
    rewrite (map_nth (fun p => nth (index_of p perm O) (map (rename_expr fwd) vals) EEmpty)).
    rewrite seq_nth by (now apply Hrange). cbn [plus]. rewrite index_of_nth by exact Hi.
    rewrite (nth_indep _ EEmpty (rename_expr fwd (EChoice []))) by (rewrite map_length; exact Hi).
    apply map_nth.
  Qed.

  Lemma fwd_low s : s < T -> fwd s = s.
  Proof. intro H. unfold fwd, perm_sym. now replace (s <? T) with true by (symmetry; now apply Z.ltb_lt). Qed.
  Lemma fwd_high s : T <= s -> T <= fwd s.
  Proof. intro H. unfold fwd, perm_sym. replace (s <? T) with false by (symmetry; now apply Z.ltb_ge). lia. Qed.
  Lemma fwd_at i : fwd (T + Z.of_nat i) = T + Z.of_nat (nth i perm O).
  Proof. unfold fwd, perm_sym. replace (T + Z.of_nat i <? T) with false by (symmetry; apply Z.ltb_ge; lia). f_equal. f_equal. f_equal. lia. Qed.
  Lemma bwd_fwd s : s < T + Z.of_nat n -> bwd (fwd s) = s.
  Proof.
    intro Hs. destruct (Z_lt_ge_dec s T) as [Hlt|Hge].
    - rewrite (fwd_low s Hlt). unfold bwd. now replace (s <? T) with true by (symmetry; now apply Z.ltb_lt).
    - replace s with (T + Z.of_nat (Z.to_nat (s - T))) by lia. rewrite fwd_at. unfold bwd.
      replace (T + Z.of_nat (nth (Z.to_nat (s - T)) perm O) <? T) with false by (symmetry; apply Z.ltb_ge; lia).
      replace (Z.to_nat (T + Z.of_nat (nth (Z.to_nat (s - T)) perm 0%nat) - T)) with (nth (Z.to_nat (s - T)) perm O) by lia.
      rewrite index_of_nth by lia. reflexivity.
  Qed.

  Theorem rearrange_language_preserved : forall X, T <= X < T + Z.of_nat n -> forall w,
    lfp T setden vals X w <-> lfp T setden renamed (fwd X) w.
  Proof.
    intros X HX w. split.
    - (* every pre-fixpoint of the renamed table, read through fwd, is a pre-fixpoint of the table *)
      intros Hl rho' Hp'. apply (Hl (fun s => rho' (fwd s))).
      intros Y u Hin Hd. destruct (in_sys_self T vals Y Hin) as (i & Hi & ->). rewrite fwd_at. apply Hp'.
      + split; [lia|]. rewrite renamed_length. specialize (Hrange i Hi). lia.
      + unfold value_of in *. replace (Z.to_nat (T + Z.of_nat (nth i perm O) - T)) with (nth i perm O) by lia.
        replace (Z.to_nat (T + Z.of_nat i - T)) with i in Hd by lia.
        rewrite (renamed_at i Hi). apply (den_rename fwd rho' fwd_low fwd_high). exact Hd.
    - intros Hl rho Hp.
      assert (Hp' : prefixpoint T setden renamed (fun s => rho (bwd s))).
      { intros Y' u Hin Hd. destruct (in_sys_self T renamed Y' Hin) as (p & Hpn & ->). rewrite renamed_length in Hpn.
        destruct (perm_onto p Hpn) as (i & Hi & <-).
        unfold value_of in Hd. replace (Z.to_nat (T + Z.of_nat (nth i perm O) - T)) with (nth i perm O) in Hd by lia.
        rewrite (renamed_at i Hi) in Hd. apply (den_rename fwd (fun s => rho (bwd s)) fwd_low fwd_high) in Hd.
        rewrite <- fwd_at, (bwd_fwd (T + Z.of_nat i)) by lia. apply Hp; [split; lia|].
        unfold value_of. replace (Z.to_nat (T + Z.of_nat i - T)) with i by lia.
        apply (den_local T setden (T + Z.of_nat n) (fun s => rho (bwd (fwd s))) rho); [|now apply Hbound | exact Hd].
        intros Z0 Hz u0. now rewrite bwd_fwd. }
      pose proof (Hl _ Hp') as H. cbn beta in H. rewrite bwd_fwd in H by lia. exact H.
  Qed.
End Rename.

(* ---------- the whole of Expand ---------- *)
Lemma nodupb_NoDup l : nodupb l = true -> NoDup l.
Proof.
  induction l as [|x l IH]; cbn [nodupb]; intro H; constructor; apply andb_true_iff in H as [H1 H2]; auto.
  intro Hin. apply negb_true_iff in H1. assert (existsb (Nat.eqb x) l = true) by (apply existsb_exists; exists x; split; auto; apply Nat.eqb_refl). congruence.
Qed.

Lemma map_snd_combine {A B} (a : list A) (b : list B) : length a = length b -> map snd (List.combine a b) = b.
Proof. revert b. induction a as [|x a IH]; intros [|y b] H; cbn in *; try discriminate; auto. f_equal. apply IH. lia. Qed.

Lemma snd_final (T : Z) (R : list (bytes * expr)) : forall s,
  map snd (map (fun '(self, (nm, v)) => (nm, expand_top T self v)) (List.combine (seq s (length R)) R)) =
  map (fun '(self, v) => expand_top T self v) (List.combine (seq s (length R)) (map snd R)).
Proof. induction R as [|[nm v] R IH]; intro s; cbn [length seq List.combine map snd]; [reflexivity|]. f_equal. apply IH. Qed.

Lemma snd_renamed f (M : list (bytes * expr)) :
  map snd (map (fun '(nm, v) => (nm, rename_expr f v)) M) = map (rename_expr f) (map snd M).
Proof. induction M as [|[nm v] M IH]; cbn; [reflexivity|]. now rewrite IH. Qed.

Lemma snd_rearranged perm (all : list (bytes * expr)) d :
  map snd (rearrange_list perm all d) = rearrange_list perm (map snd all) (snd d).
Proof.
  unfold rearrange_list. rewrite map_map, map_length. apply map_ext. intro p. symmetry. apply map_nth.
Qed.

Lemma rename_rearranged f perm (X : list expr) :
  map (rename_expr f) (rearrange_list perm X EEmpty) = rearrange_list perm (map (rename_expr f) X) EEmpty.
Proof.
  unfold rearrange_list. rewrite map_map, map_length. apply map_ext. intro p.
  change EEmpty with (rename_expr f EEmpty) at 2. symmetry. apply map_nth.
Qed.

Lemma list_inv_rename f v : list_inv v -> list_inv (rename_expr f v).
Proof. destruct v; cbn; auto. intros H Ho. rewrite (H Ho). reflexivity. Qed.

Theorem expand_correct setden m vals1 st :
  phase1 m = (vals1, st) -> x_fatal st = false -> 0 <= nterms m ->
  (forall i, (i < length (m_nonterms m))%nat -> bounded (nterms m + Z.of_nat (length (m_nonterms m))) (value_at m i) = true) ->
  perm_ok (x_perm st) (length (vals1 ++ map snd (x_extras st))) = true ->
  forallb (bounded (nterms m + Z.of_nat (length (vals1 ++ map snd (x_extras st))))) (vals1 ++ map snd (x_extras st)) = true ->
  forall X, nterms m <= X < nterms m + Z.of_nat (length (m_nonterms m)) -> forall w,
    lfp (nterms m) setden (map nt_value (m_nonterms m)) X w <->
    lfp (nterms m) setden (map snd (res_nonterms (expand m))) (perm_sym (nterms m) (x_perm st) X) w.
Proof.
  intros Hp Hnf HT Hwf Hperm Hb X HX w.
  set (B := vals1 ++ map snd (x_extras st)) in *. set (perm := x_perm st) in *.
  apply andb_true_iff in Hperm as [Hperm Hnd]. apply andb_true_iff in Hperm as [Hlen Hrng].
  apply Nat.eqb_eq in Hlen. apply nodupb_NoDup in Hnd.
  assert (Hrange : forall i, (i < length B)%nat -> (nth i perm O < length B)%nat).
  { intros i Hi. rewrite forallb_forall in Hrng. apply Nat.ltb_lt. apply Hrng. apply nth_In. now rewrite Hlen. }
  assert (Hinj : forall i j, (i < length B)%nat -> (j < length B)%nat -> nth i perm O = nth j perm O -> i = j).
  { intros i j Hi Hj He. rewrite <- Hlen in Hi, Hj. exact (proj1 (NoDup_nth perm O) Hnd i j Hi Hj He). }
  assert (Hbound : forall i, (i < length B)%nat -> bounded ((nterms m) + Z.of_nat (length B)) (nth i B (EChoice [])) = true).
  { intros i Hi. rewrite forallb_forall in Hb. apply Hb. now apply nth_In. }
  assert (Hlen1 : length vals1 = length (m_nonterms m)).
  { exact (proj1 (phase1_preserves (nterms m) (fun _ _ => False) setden m eq_refl vals1 st Hp)). }
  (* the final table is phase 2 of the renamed, rearranged table *)
  assert (Hfinal : map snd (res_nonterms (expand m)) = phase2_table (nterms m) (renamed (nterms m) B perm)).
  { unfold expand. rewrite Hp. cbn [res_nonterms]. fold perm.
    rewrite snd_final. unfold phase2_table. rewrite map_length.
    assert (Hr : map snd (map (fun '(n, v) => (n, rename_expr (perm_sym (nterms m) perm) v))
                    (rearrange_list perm (List.combine (map nt_name (m_nonterms m)) vals1 ++ x_extras st) ([], EEmpty))) = renamed (nterms m) B perm).
    { rewrite snd_renamed, snd_rearranged. cbn [snd]. rewrite rename_rearranged. unfold renamed, fwd. f_equal. f_equal.
      rewrite map_app, map_snd_combine by (rewrite map_length; lia). reflexivity. }
    match goal with |- map _ (List.combine (seq 0 (length ?R)) (map snd ?M)) = _ =>
      assert (HM : map snd M = renamed (nterms m) B perm) by exact Hr;
      assert (HR : length R = length (renamed (nterms m) B perm)) by (rewrite <- HM; rewrite !map_length; reflexivity);
      rewrite HM, HR end.
    reflexivity. }
  rewrite Hfinal.
  rewrite (phase1_language_preserved setden m vals1 st Hp Hnf Hwf X HX w). fold B.
  rewrite (rearrange_language_preserved (nterms m) setden B perm Hlen Hrange Hinj Hbound X); [|split; [lia|]; unfold B; rewrite app_length, Hlen1; lia].
  apply phase2_language_preserved; [exact HT|].
  (* the renamed table keeps the list invariant *)
  unfold renamed, rearrange_list. rewrite Forall_forall. intros v Hv. apply in_map_iff in Hv as (p & <- & _).
  destruct (nth_in_or_default (index_of p perm O) (map (rename_expr (fwd (nterms m) perm)) B) EEmpty) as [Hin | ->]; [|exact I].
  apply in_map_iff in Hin as (v0 & <- & Hv0). apply list_inv_rename.
  assert (HB : Forall list_inv B).
  { unfold B. apply Forall_app. split; [eapply phase1_vals_list_inv; eauto|].
    pose proof (phase1_extras_inv m vals1 st Hp) as Hi. unfold extras_inv in Hi.
    rewrite Forall_forall in *. intros v1 Hv1. apply in_map_iff in Hv1 as (nv & <- & Hnv). now apply Hi. }
  rewrite Forall_forall in HB. now apply HB.
Qed.

(* the same with the side conditions as one boolean, evaluated on every generated model by the check *)
Corollary expand_correct_checked setden m :
  expand_checks m = true -> 0 <= nterms m ->
  forall X, nterms m <= X < nterms m + Z.of_nat (length (m_nonterms m)) -> forall w,
    lfp (nterms m) setden (map nt_value (m_nonterms m)) X w <->
    lfp (nterms m) setden (map snd (res_nonterms (expand m))) (perm_sym (nterms m) (x_perm (snd (phase1 m))) X) w.
Proof.
  unfold expand_checks. destruct (phase1 m) as [vals1 st] eqn:Hp. intros Hc HT X HX w. cbn [snd].
  apply andb_true_iff in Hc as [Hc Hb]. apply andb_true_iff in Hc as [Hc Hperm]. apply andb_true_iff in Hc as [Hnf Hwf].
  apply negb_true_iff in Hnf.
  apply (expand_correct setden m vals1 st Hp Hnf HT); auto.
  intros i Hi. rewrite forallb_forall in Hwf. unfold value_at. apply Hwf. now apply nth_In.
Qed.
