From Coq Require Import List ZArith Bool Arith Lia.
From TM Require Import Util.Ident Gram.Cfg Syn.Expr Syn.Expand Syn.ExtLang Syn.Expand_proofs Syn.Expand_global Syn.Expand_correct Syn.Templates Syn.Templates_proofs.
Import ListNotations.
Local Open Scope Z_scope.

(* Whole-model theorems for Syn/Templates.v: the language of a templated grammar as a least solution, the
   instance work list, and Instantiate as a whole. *)
(* ---------- the language of a templated grammar: least solution over (nonterminal, arguments) ---------- *)
Section TLfp.
  Variable T : Z.
  Variable setden : Z -> Z -> Prop.
  Variable nts : list nonterm.

  Definition tvalue (Y : Z) : expr := nt_value (nth (Z.to_nat (Y - T)) nts (mkNt [] [] EEmpty 0)).

  Definition tprefixpoint (trho : Z -> env -> lang) : Prop :=
    forall Y sg w, tden T trho setden (inst_env (mkInst (Y - T) sg)) (tvalue Y) w -> trho Y sg w.

  Definition tlfp : Z -> env -> lang := fun Y sg w => forall trho, tprefixpoint trho -> trho Y sg w.

  Lemma tden_mono (trho trho' : Z -> env -> lang) : (forall Y e w, trho Y e w -> trho' Y e w) ->
    forall e x w, tden T trho setden e x w -> tden T trho' setden e x w.
  Proof.
    intros Hr e. induction x using expr_ind2; intro w; cbn [tden]; auto.
    - intros [?|?]; auto.
    - destruct l as [|a l]; [auto|]. destruct (existsb (alt_enabled e) (a :: l)); [|auto].
      apply lang_any_mono. apply Forall2_map_same. rewrite Forall_forall in *. intros y Hy u. destruct (alt_enabled e y); auto.
    - apply lang_cat_mono. apply Forall2_map_same. exact H.
    - destruct (s <? T); auto.
    - intros [?|Hp]; [auto|right]. revert Hp. apply plus_sep_mono; [exact IHx|]. destruct s as [y|]; [apply (H y eq_refl) | auto].
    - destruct (eval_pred e p); auto.
  Qed.

  Lemma tlfp_prefixpoint : tprefixpoint tlfp.
  Proof. intros Y sg w Hd trho Hp. apply Hp. revert Hd. apply tden_mono. intros Z0 e u Hl. now apply Hl. Qed.

  Lemma tlfp_fixpoint Y sg w : tlfp Y sg w <-> tden T tlfp setden (inst_env (mkInst (Y - T) sg)) (tvalue Y) w.
  Proof.
    split; [|apply tlfp_prefixpoint]. intro Hl.
    set (trho' := fun Y sg w => tden T tlfp setden (inst_env (mkInst (Y - T) sg)) (tvalue Y) w).
    apply (Hl trho'). intros Z0 sg0 u Hd. unfold trho'. revert Hd. apply tden_mono. intros Z1 e v Hv. now apply tlfp_prefixpoint.
  Qed.
End TLfp.

(* ---------- the instance work list ---------- *)
Section InstLoop.
  Variable T : Z.
  Variable nts : list nonterm.
  Notation tprefix := Templates_proofs.prefix.
  Notation dummy := (mkNt [] [] EEmpty 0).

  Lemma tprefix_length st st' : tprefix st st' -> (length (is_list st) <= length (is_list st'))%nat.
  Proof. intros [more H]. rewrite H, app_length. lia. Qed.

  Lemma tprefix_nth st st' k cur : tprefix st st' -> nth_error (is_list st) k = Some cur -> nth_error (is_list st') k = Some cur.
  Proof. intros [more H] Hk. rewrite H, nth_error_app1; auto. apply nth_error_Some. congruence. Qed.

  (* do_expr only needs the denotation-free part of its specification here *)
  Lemma do_expr_state e x st x' st' : do_expr T (Some e) st x = (x', st') ->
    tprefix st st' /\ (is_fatal st' = false -> is_fatal st = false).
  Proof.
    intro H. destruct (do_expr_good T (fun _ _ _ => False) (fun _ _ => False) (fun _ _ => False) e x st x' st' H) as (Hp & Hf & _).
    split; [exact Hp|]. now apply Templates_proofs.not_fatal_back.
  Qed.

  Lemma inst_loop_spec : forall fuel i st vals0 vals st',
    inst_loop fuel T nts i st vals0 = (vals, st') -> is_fatal st' = false ->
    length vals0 = i -> (i <= length (is_list st))%nat ->
    tprefix st st' /\ length vals = length (is_list st') /\
    (forall k, (k < i)%nat -> nth k vals EEmpty = nth k vals0 EEmpty) /\
    (forall k, (i <= k)%nat -> (k < length (is_list st'))%nat ->
       exists cur stk stk', nth_error (is_list st') k = Some cur /\
         do_expr T (Some (inst_env cur)) stk (nt_value (nth (Z.to_nat (i_nt cur)) nts dummy)) = (nth k vals EEmpty, stk') /\
         tprefix stk' st' /\ is_fatal stk' = false).
  Proof.
    induction fuel as [|f IH]; intros i st vals0 vals st' H Hnf Hlen Hi; cbn [inst_loop] in H.
    - injection H as <- <-. cbn in Hnf. discriminate.
    - destruct (nth_error (is_list st) i) as [cur|] eqn:En.
      + destruct (do_expr T (Some (inst_env cur)) st _) as [c st1] eqn:Ed.
        destruct (do_expr_state _ _ _ _ _ Ed) as [Hp1 Hf1].
        assert (Hi1 : (S i <= length (is_list st1))%nat).
        { pose proof (tprefix_length _ _ Hp1). assert (i < length (is_list st))%nat by (apply nth_error_Some; congruence). lia. }
        destruct (IH (S i) st1 (vals0 ++ [c]) vals st' H Hnf) as (Hp2 & Hl2 & Hold & Hnew); [rewrite app_length; cbn; lia | exact Hi1 |].
        split; [eapply Templates_proofs.prefix_trans; eauto|]. split; [exact Hl2|]. split.
        * intros k Hk. rewrite (Hold k) by lia. rewrite app_nth1 by lia. reflexivity.
        * intros k Hk1 Hk2. destruct (Nat.eq_dec k i) as [->|N].
          -- exists cur, st, st1. split; [eapply tprefix_nth; [exact Hp2|]; eapply tprefix_nth; eauto|].
             split; [|split; [exact Hp2|]].
             ++ rewrite (Hold i) by lia. rewrite app_nth2 by lia. rewrite Hlen, Nat.sub_diag. exact Ed.
             ++ (* not fatal: the final state is not *)
                destruct (is_fatal st1) eqn:F; auto.
                assert (Hm : forall fuel i st vals0 vals st', inst_loop fuel T nts i st vals0 = (vals, st') -> is_fatal st = true -> is_fatal st' = true).
                { clear. induction fuel as [|f IH]; intros i st vals0 vals st' H Hf; cbn [inst_loop] in H.
                  - now injection H as <- <-.
                  - destruct (nth_error (is_list st) i) as [cur|]; [|now injection H as <- <-].
                    destruct (do_expr T (Some (inst_env cur)) st _) as [c st1] eqn:Ed.
                    destruct (do_expr_good T (fun _ _ _ => False) (fun _ _ => False) (fun _ _ => False) _ _ _ _ _ Ed) as (_ & Hfm & _).
                    eapply IH; [exact H|]. now apply Hfm. }
                rewrite (Hm _ _ _ _ _ _ H F) in Hnf. discriminate.
          -- apply Hnew; [lia | exact Hk2].
      + injection H as <- <-. assert (i = length (is_list st)) by (apply nth_error_None in En; lia).
        split; [apply Templates_proofs.prefix_refl|]. split; [lia|]. split; [auto|]. intros k Hk1 Hk2. lia.
  Qed.
End InstLoop.

(* ---------- every instance means its template under its arguments ---------- *)
Section InstLanguage.
  Variable T : Z.
  Variable setden : Z -> Z -> Prop.
  Variable nts : list nonterm.
  Notation tprefix := Templates_proofs.prefix.
  Notation dummy := (mkNt [] [] EEmpty 0).

  Variable fuel : nat.
  Variable st0 : ist.                 (* after the inputs and the sets have been resolved *)
  Variable vals : list expr.
  Variable st' : ist.
  Hypothesis Hloop : inst_loop fuel T nts O st0 [] = (vals, st').
  Hypothesis Hnf : is_fatal st' = false.
  Hypothesis Hnodup : NoDup (is_list st').       (* instances are pairwise different: evaluated per run *)

  Let insts := is_list st'.

  Lemma inst_facts : length vals = length insts /\
    forall k, (k < length insts)%nat ->
      exists cur stk stk', nth_error insts k = Some cur /\
        do_expr T (Some (inst_env cur)) stk (nt_value (nth (Z.to_nat (i_nt cur)) nts dummy)) = (nth k vals EEmpty, stk') /\
        tprefix stk' st' /\ is_fatal stk' = false.
  Proof.
    destruct (inst_loop_spec T nts fuel O st0 [] vals st' Hloop Hnf eq_refl (Nat.le_0_l _)) as (_ & Hl & _ & Hnew).
    split; [exact Hl|]. intros k Hk. apply Hnew; [lia | exact Hk].
  Qed.

  Lemma value_vals k : (k < length vals)%nat -> value_of T vals (T + Z.of_nat k) = nth k vals EEmpty.
  Proof. intro Hk. unfold value_of. replace (Z.to_nat (T + Z.of_nat k - T)) with k by lia. now apply nth_indep. Qed.

  Lemma tvalue_inst cur : tvalue T nts (T + i_nt cur) = nt_value (nth (Z.to_nat (i_nt cur)) nts dummy).
  Proof. unfold tvalue. replace (T + i_nt cur - T) with (i_nt cur) by lia. reflexivity. Qed.

  Theorem instance_language : forall k cur, nth_error insts k = Some cur -> forall w,
    lfp T setden vals (T + Z.of_nat k) w <-> tlfp T setden nts (T + i_nt cur) (i_sig cur) w.
  Proof.
    destruct inst_facts as [Hlen Hinst]. intros k cur Hk w. split.
    - (* the instantiated grammar derives nothing the template does not *)
      intro Hl.
      set (rho := fun Y u => exists k0 c0, Y = T + Z.of_nat k0 /\ nth_error insts k0 = Some c0 /\ tlfp T setden nts (T + i_nt c0) (i_sig c0) u).
      assert (Hp : prefixpoint T setden vals rho).
      { intros Y u Hin Hd. destruct (in_sys_self T vals Y Hin) as (k0 & Hk0 & ->). rewrite Hlen in Hk0.
        destruct (Hinst k0 Hk0) as (c0 & stk & stk' & Hc0 & Hdo & Hpre & Hnfk).
        exists k0, c0. repeat split; auto. apply tlfp_prefixpoint. replace (T + i_nt c0 - T) with (i_nt c0) by lia.
        rewrite tvalue_inst. destruct c0 as [n0 s0]. cbn [i_nt i_sig] in *.
        destruct (do_expr_good T (tlfp T setden nts) setden rho _ _ _ _ _ Hdo) as (_ & _ & Hg). apply Hg; [|exact Hnfk|].
        - intros k1 i1 Hk1 u0. split.
          + intros (k2 & c2 & He & Hc2 & Ht). assert (k2 = k1) by lia. subst k2.
            assert (Hi1 : nth_error insts k1 = Some i1) by (eapply tprefix_nth; eauto).
            assert (c2 = i1) by congruence. subst c2. exact Ht.
          + intro Ht. exists k1, i1. repeat split; auto. eapply tprefix_nth; eauto.
        - rewrite value_vals in Hd by (rewrite Hlen; exact Hk0). exact Hd. }
      destruct (Hl rho Hp) as (k0 & c0 & He & Hc0 & Ht). assert (k0 = k) by lia. subst k0.
      assert (c0 = cur) by congruence. subst c0. exact Ht.
    - (* and everything the template derives *)
      intros Ht rho Hp.
      set (trho := fun Y sg u => forall k0, nth_error insts k0 = Some (mkInst (Y - T) sg) -> rho (T + Z.of_nat k0) u).
      assert (Htp : tprefixpoint T setden nts trho).
      { intros Y sg u Hd k0 Hk0.
        assert (Hk0' : (k0 < length insts)%nat) by (apply nth_error_Some; congruence).
        destruct (Hinst k0 Hk0') as (c0 & stk & stk' & Hc0 & Hdo & Hpre & Hnfk).
        assert (c0 = mkInst (Y - T) sg) by congruence. subst c0. cbn [i_nt i_sig] in *.
        apply Hp; [split; [lia | rewrite Hlen; lia]|]. rewrite value_vals by (rewrite Hlen; exact Hk0').
        destruct (do_expr_good T trho setden rho _ _ _ _ _ Hdo) as (_ & _ & Hg). apply Hg; [|exact Hnfk|].
        - intros k1 i1 Hk1 u0. assert (Hi1 : nth_error insts k1 = Some i1) by (eapply tprefix_nth; eauto). split.
          + intros Hr k2 Hk2. replace (T + i_nt i1 - T) with (i_nt i1) in Hk2 by lia. destruct i1 as [n1 s1]. cbn [i_nt i_sig] in Hk2.
            assert (k2 = k1); [|now subst].
            assert (Hlt1 : (k1 < length insts)%nat) by (apply nth_error_Some; congruence).
            assert (Hlt2 : (k2 < length insts)%nat) by (apply nth_error_Some; congruence).
            apply (proj1 (NoDup_nth_error insts) Hnodup k2 k1 Hlt2). congruence.
          + intro Hr. apply Hr. replace (T + i_nt i1 - T) with (i_nt i1) by lia. now destruct i1.
        - unfold tvalue in Hd. replace (Z.to_nat (Y - T)) with (Z.to_nat (Y - T)) in Hd by reflexivity. exact Hd. }
      pose proof (Ht trho Htp) as H. apply H. replace (T + i_nt cur - T) with (i_nt cur) by lia. now destruct cur.
  Qed.
End InstLanguage.

(* ---------- the whole of Instantiate ---------- *)
Definition val3 (t : bytes * expr * Z) : expr := snd (fst t).

Lemma val3_rearranged perm (all : list (bytes * expr * Z)) :
  map val3 (rearrange_list perm all ([], EEmpty, 0)) = rearrange_list perm (map val3 all) EEmpty.
Proof.
  unfold rearrange_list. rewrite map_map, map_length. apply map_ext. intro p.
  change EEmpty with (val3 ([], EEmpty, 0)). symmetry. apply map_nth.
Qed.

Lemma val3_renamed f (M : list (bytes * expr * Z)) :
  map val3 (map (fun '(n, v, g) => (n, rename_expr f v, g)) M) = map (rename_expr f) (map val3 M).
Proof. induction M as [|[[n v] g] M IH]; cbn; [reflexivity|]. now rewrite IH. Qed.

Lemma val3_named {I S} (name : I -> S -> bytes) (grp : I -> Z) (insts : list I) (sfx : list S) (vals : list expr) :
  length insts = length vals -> length sfx = length vals ->
  map val3 (map (fun '(i, (s, v)) => (name i s, v, grp i)) (List.combine insts (List.combine sfx vals))) = vals.
Proof.
  revert sfx vals. induction insts as [|i insts IH]; intros [|s sfx] [|v vals] H1 H2; cbn in *; try discriminate; auto.
  f_equal. apply IH; lia.
Qed.

Lemma instantiate_values fuel m vals st' :
  m_params m <> [] ->
  inst_loop fuel (nterms m) (m_nonterms m) O (inst_start m) [] = (vals, st') ->
  length vals = length (is_list st') ->
  map val3 (tr_nonterms (instantiate fuel m)) = renamed (nterms m) vals (inst_perm m (is_list st')).
Proof.
  intros Hparams Hloop Hlen. unfold instantiate, inst_start in *.
  destruct (m_params m) as [|p0 ps] eqn:Ep; [congruence|].
  destruct (fold_left _ (m_inputs m) ([], mkI [] false)) as [inputs st1].
  destruct (fold_left _ (m_sets m) ([], st1)) as [sets st2]. cbn [snd] in Hloop. rewrite Hloop.
  cbn [tr_nonterms]. rewrite val3_renamed, val3_rearranged.
  rewrite val3_named by (rewrite ?map_length; auto).
  unfold renamed, fwd, inst_perm. rewrite Ep.
  rewrite <- (rename_rearranged _ _ vals). reflexivity.
Qed.

Lemma sig_eqb_refl a : sig_eqb a a = true.
Proof. induction a as [|[p v] a IH]; cbn; auto. rewrite Z.eqb_refl, IH. cbn. rewrite andb_true_r. clear. induction v; cbn; auto. now rewrite Z.eqb_refl. Qed.

Lemma inst_nodupb_NoDup l : inst_nodupb l = true -> NoDup l.
Proof.
  induction l as [|x l IH]; cbn [inst_nodupb]; intro H; constructor; apply andb_true_iff in H as [H1 H2]; auto.
  intro Hin. apply negb_true_iff in H1.
  assert (existsb (inst_eqb x) l = true).
  { apply existsb_exists. exists x. split; auto. unfold inst_eqb. now rewrite Z.eqb_refl, sig_eqb_refl. }
  congruence.
Qed.

(* Instantiate as a whole: every instantiated nonterminal derives exactly what its template derives under its
   arguments; in particular an input derives what its (parameterless) template derives *)
Theorem instantiate_correct setden fuel m :
  m_params m <> [] -> inst_checks fuel m = true -> 0 <= nterms m ->
  let st := snd (inst_loop fuel (nterms m) (m_nonterms m) O (inst_start m) []) in
  forall k cur, nth_error (is_list st) k = Some cur -> forall w,
    tlfp (nterms m) setden (m_nonterms m) (nterms m + i_nt cur) (i_sig cur) w <->
    lfp (nterms m) setden (map val3 (tr_nonterms (instantiate fuel m)))
        (nterms m + Z.of_nat (nth k (inst_perm m (is_list st)) O)) w.
Proof.
  intros Hparams Hc HT. unfold inst_checks in Hc. destruct (m_params m) as [|p0 ps] eqn:Ep; [congruence|].
  destruct (inst_loop fuel (nterms m) (m_nonterms m) O (inst_start m) []) as [vals st'] eqn:Hloop. cbn [snd].
  apply andb_true_iff in Hc as [Hc Hb]. apply andb_true_iff in Hc as [Hc Hperm]. apply andb_true_iff in Hc as [Hnf Hnd].
  apply negb_true_iff in Hnf. apply inst_nodupb_NoDup in Hnd.
  intros k cur Hk w.
  destruct (inst_facts (nterms m) (m_nonterms m) fuel (inst_start m) vals st' Hloop Hnf) as [Hlen _].
  rewrite (instantiate_values fuel m vals st') by (rewrite ?Ep; auto; discriminate).
  rewrite <- (instance_language (nterms m) setden (m_nonterms m) fuel (inst_start m) vals st' Hloop Hnf Hnd k cur Hk w).
  set (perm := inst_perm m (is_list st')) in *.
  apply andb_true_iff in Hperm as [Hperm Hndp]. apply andb_true_iff in Hperm as [Hl Hrng].
  apply Nat.eqb_eq in Hl. apply nodupb_NoDup in Hndp.
  assert (Hk' : (k < length vals)%nat) by (rewrite Hlen; apply nth_error_Some; congruence).
  rewrite (rearrange_language_preserved (nterms m) setden vals perm Hl) with (X := nterms m + Z.of_nat k).
  - now rewrite (fwd_at (nterms m) vals perm Hl).
  - intros i Hi. rewrite forallb_forall in Hrng. apply Nat.ltb_lt. apply Hrng. apply nth_In. now rewrite Hl.
  - intros i j Hi Hj He. rewrite <- Hl in Hi, Hj. exact (proj1 (NoDup_nth perm O) Hndp i j Hi Hj He).
  - intros i Hi. rewrite forallb_forall in Hb. apply Hb. now apply nth_In.
  - lia.
Qed.
