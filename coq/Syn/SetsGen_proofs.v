(* C15: soundness of the generated-system check SetsGen.sets_gen_ok: at the nodes of the keys (first, s) and
   (last, s) every stable (= least) solution of the generated equations is exactly first_in / last_in. *)
From Coq Require Import List ZArith Bool Arith Lia.
From TM Require Import Util.IntSet Util.IntSet_proofs Util.Graph Util.Closure Util.ClosureCert Util.ClosureSem
  Gram.Cfg Syn.Expr Syn.Sets Syn.SetsSpec Syn.SetsSpec_proofs Syn.SetsSpec_proofs2 Syn.Sets_closure Syn.SetsGen.
Import ListNotations.
Local Open Scope Z_scope.

Lemma find_key_in op s : forall keys v, find_key op s keys = Some v -> In (op, s, v) keys.
Proof.
  induction keys as [|[[o x] w] keys IH]; intros v H; cbn [find_key] in H; [discriminate|].
  destruct ((o =? op) && (x =? s)) eqn:E.
  - injection H as <-. apply andb_true_iff in E as [E1 E2]. apply Z.eqb_eq in E1, E2. subst. now left.
  - right. auto.
Qed.

Lemma list_eqb_nat_true : forall a b, list_eqb Nat.eqb a b = true -> a = b.
Proof.
  induction a as [|x a IH]; intros [|y b] H; cbn [list_eqb] in H; try discriminate; auto.
  apply andb_true_iff in H as [H1 H2]. apply Nat.eqb_eq in H1. subst. f_equal. auto.
Qed.

Lemma zl_eqb_true : forall a b, zl_eqb a b = true -> a = b.
Proof.
  induction a as [|x a IH]; intros [|y b] H; cbn [zl_eqb] in H; try discriminate; auto.
  apply andb_true_iff in H as [H1 H2]. apply Z.eqb_eq in H1. subst. f_equal. auto.
Qed.

Section Gen.
  Variable T : Z.
  Variable nl : list Z.
  Variable R : list prule.
  Variable nodes : list cnode.
  Variable keys : list (Z * Z * nat).
  Variable op : Z.

  Definition rhss_of (s : Z) : list (list Z) := map snd (filter (fun r => fst r =? s) R).

  Hypothesis HR : forall r, In r R -> T <= fst r.
  Hypothesis Hnl : forall X rhs y, In (X, rhs) R -> In y rhs -> (mem y nl = true <-> nullable_in R y).
  Hypothesis Hkey : forall s v, find_key op s keys = Some v ->
    (v < length nodes)%nat /\ n_op (nd nodes v) = OpUnion /\ inverse (n_val (nd nodes v)) = false /\
    ((s < T /\ 0 <= s /\ elems (n_val (nd nodes v)) = [s] /\ n_edges (nd nodes v) = []) \/
     (T <= s /\ elems (n_val (nd nodes v)) = [] /\ expected_edges keys nl op (rhss_of s) = Some (n_edges (nd nodes v)))).

  Lemma rhss_of_in s rhs : In rhs (rhss_of s) <-> In (s, rhs) R.
  Proof.
    unfold rhss_of. rewrite in_map_iff. split.
    - intros ([x r] & <- & Hf). apply filter_In in Hf as [Hin He]. cbn in He. apply Z.eqb_eq in He. cbn in *. now subst.
    - intro Hin. exists (s, rhs). split; [reflexivity|]. apply filter_In. split; [exact Hin | cbn; apply Z.eqb_refl].
  Qed.

  Lemma scan_keys_spec : forall syms E, scan_keys keys nl op syms = Some E ->
    (forall w, In w E -> exists pre y post, syms = pre ++ y :: post /\ forallb (fun s => mem s nl) pre = true /\ find_key op y keys = Some w) /\
    (forall pre y post, syms = pre ++ y :: post -> forallb (fun s => mem s nl) pre = true -> exists w, find_key op y keys = Some w /\ In w E).
  Proof.
    induction syms as [|x rest IH]; intros E H; cbn [scan_keys] in H.
    - injection H as <-. split; [intros w []|]. intros [|? ?] y post He; discriminate.
    - destruct (find_key op x keys) as [w0|] eqn:Ek; [|discriminate]. destruct (mem x nl) eqn:Em.
      + destruct (scan_keys keys nl op rest) as [E'|] eqn:Es; [|discriminate]. cbn in H. injection H as <-.
        destruct (IH E' eq_refl) as [I1 I2]. split.
        * intros w [<-|Hw]; [exists [], x, rest; auto|]. destruct (I1 w Hw) as (pre & y & post & Hrest & Hp & Hf).
          exists (x :: pre), y, post. cbn [forallb app]. rewrite Em, Hrest. auto.
        * intros [|p pre] y post He Hp; cbn [app] in He; injection He as Hx1 Hx2; subst.
          -- exists w0. split; [exact Ek | now left].
          -- cbn [forallb] in Hp. apply andb_true_iff in Hp as [_ Hp]. destruct (I2 pre y post eq_refl Hp) as (w & Hf & Hw).
             exists w. split; [exact Hf | now right].
      + injection H as <-. split.
        * intros w [<-|[]]. exists [], x, rest. auto.
        * intros [|p pre] y post He Hp; cbn [app] in He; injection He as Hx1 Hx2; subst.
          -- exists w0. split; [exact Ek | now left].
          -- cbn [forallb] in Hp. rewrite Em in Hp. discriminate.
  Qed.

  Lemma expected_spec : forall rhss E, expected_edges keys nl op rhss = Some E ->
    (forall w, In w E -> exists rhs Er, In rhs rhss /\ scan_keys keys nl op rhs = Some Er /\ In w Er) /\
    (forall rhs, In rhs rhss -> exists Er, scan_keys keys nl op rhs = Some Er /\ incl Er E).
  Proof.
    induction rhss as [|rhs rest IH]; intros E H; cbn [expected_edges] in H.
    - injection H as <-. split; [intros w [] | intros rhs []].
    - destruct (scan_keys keys nl op rhs) as [a|] eqn:Ea; [|discriminate].
      destruct (expected_edges keys nl op rest) as [b|] eqn:Eb; [|discriminate]. injection H as <-.
      destruct (IH b eq_refl) as [I1 I2]. split.
      + intros w Hw. apply in_app_or in Hw as [Hw|Hw].
        * exists rhs, a. split; [now left | auto].
        * destruct (I1 w Hw) as (r & Er & Hr & Hs & Hi). exists r, Er. split; [now right | auto].
      + intros r [<-|Hr].
        * exists a. split; [exact Ea | apply incl_appl, incl_refl].
        * destruct (I2 r Hr) as (Er & Hs & Hi). exists Er. split; [exact Hs | apply incl_appr, Hi].
  Qed.

  Lemma pre_nullable X pre y post : In (X, pre ++ y :: post) R ->
    (forallb (fun s => mem s nl) pre = true <-> all_nullable R pre).
  Proof.
    intro Hin. rewrite forallb_forall. unfold all_nullable. split; intros H s Hs.
    - apply (Hnl X (pre ++ y :: post) s Hin); [apply in_or_app; now left | now apply H].
    - apply (Hnl X (pre ++ y :: post) s Hin); [apply in_or_app; now left | now apply H].
  Qed.

  Variable sol : valuation.

  (* every derivable membership at a key node is a first_in fact *)
  Lemma gen_sound : forall v a, lfp nodes sol v a -> forall s, find_key op s keys = Some v -> first_in T R s a.
  Proof.
    induction 1 as [v x Hv Ho Hd | v w x Hv Ho Hw Hl IH | v x Hv Ho Hall IH | v w x Hv Ho He Hn]; intros s Hk;
      destruct (Hkey s v Hk) as (_ & Hu & Hinv & Hcase); try congruence.
    - unfold den in Hd. rewrite Hinv in Hd. destruct Hcase as [(Hs & H0 & Hel & _) | (_ & Hel & _)]; rewrite Hel in Hd.
      + destruct Hd as [<-|[]]. apply fi_term. lia.
      + destruct Hd.
    - destruct Hcase as [(_ & _ & _ & Hed) | (Hs & _ & Hex)]; [rewrite Hed in Hw; destruct Hw|].
      destruct (expected_spec _ _ Hex) as [I1 _]. destruct (I1 w Hw) as (rhs & Er & Hr & Hsc & Hi).
      apply rhss_of_in in Hr. destruct (scan_keys_spec _ _ Hsc) as [S1 _]. destruct (S1 w Hi) as (pre & y & post & -> & Hp & Hf).
      apply (fi_rule T R s pre y post x Hr); [now apply (pre_nullable s pre y post Hr) | now apply IH].
  Qed.

  (* every first_in fact is derivable at the key node *)
  Lemma gen_complete : forall s a, first_in T R s a -> forall v, find_key op s keys = Some v -> lfp nodes sol v a.
  Proof.
    induction 1 as [a Ha | X pre y post a Hin Hp Hf IH]; intros v Hk; destruct (Hkey _ v Hk) as (Hv & Hu & Hinv & Hcase).
    - destruct Hcase as [(_ & _ & Hel & _) | (Hs & _ & _)]; [|lia].
      apply lfp_const; auto. unfold den. rewrite Hinv, Hel. now left.
    - destruct Hcase as [(Hs & _) | (_ & _ & Hex)]; [specialize (HR _ Hin); cbn in HR; lia|].
      destruct (expected_spec _ _ Hex) as [_ I2]. destruct (I2 (pre ++ y :: post) (proj2 (rhss_of_in X _) Hin)) as (Er & Hsc & Hincl).
      destruct (scan_keys_spec _ _ Hsc) as [_ S2].
      destruct (S2 pre y post eq_refl (proj2 (pre_nullable X pre y post Hin) Hp)) as (w & Hfw & Hw).
      apply (lfp_union nodes sol v w a Hv Hu (Hincl w Hw)). now apply IH.
  Qed.

  Theorem gen_exact : stable_solution nodes sol -> forall s v, find_key op s keys = Some v ->
    forall a, sol v a <-> first_in T R s a.
  Proof.
    intros Hs s v Hk a. destruct (Hkey s v Hk) as (Hv & _). rewrite (Hs v a Hv). split.
    - intro H. eapply gen_sound; eauto.
    - intro H. eapply gen_complete; eauto.
  Qed.
End Gen.

(* ---------- from the boolean check to the hypotheses ---------- *)
Lemma rhss_of_defs op rules s :
  map (fun r => orient op (o_rhs r)) (defs_of rules s) = rhss_of (map (fun r => (o_lhs r, orient op (o_rhs r))) rules) s.
Proof.
  unfold rhss_of, defs_of. induction rules as [|r rules IH]; cbn [filter map fst]; [reflexivity|].
  destruct (o_lhs r =? s); cbn [map snd]; now rewrite IH.
Qed.

Lemma first_in_range T R s a : first_in T R s a -> 0 <= a < T.
Proof. induction 1; auto. Qed.

Section Lift.
  Variable T : Z.
  Variable nl : list Z.
  Variable rules : list orule.
  Variable nodes : list cnode.
  Variable keys : list (Z * Z * nat).
  Hypothesis Hok : gen_keys_ok T nl rules nodes keys = true.
  Let P := prules_of rules.

  Lemma ok_parts : (forall r, In r rules -> T <= o_lhs r) /\
    (forall r y, In r rules -> In y (o_rhs r) -> (mem y nl = true <-> nullable_in P y)) /\
    (forall k, In k keys -> key_ok T nl rules nodes keys k = true).
  Proof.
    unfold gen_keys_ok in Hok. apply andb_true_iff in Hok as [H12 H3]. apply andb_true_iff in H12 as [H1 H2].
    rewrite forallb_forall in H1, H3. split; [|split; [|exact H3]].
    - intros r Hr. specialize (H1 r Hr). apply andb_true_iff in H1 as [_ H1]. now apply Z.leb_le.
    - unfold nl_ok in H2. destruct (spec_nullable (prules_of rules)) as [nl'|] eqn:En; [|discriminate].
      pose proof (spec_nullable_exact _ _ En) as Hex. intros r y Hr Hy. rewrite forallb_forall in H2.
      specialize (H2 r Hr). rewrite forallb_forall in H2. specialize (H2 y Hy). apply eqb_prop in H2. rewrite H2. apply Hex.
  Qed.

  Lemma key_hyp op (Hop : op = 1 \/ op = 2) s v : find_key op s keys = Some v ->
    (v < length nodes)%nat /\ n_op (nd nodes v) = OpUnion /\ inverse (n_val (nd nodes v)) = false /\
    ((s < T /\ 0 <= s /\ elems (n_val (nd nodes v)) = [s] /\ n_edges (nd nodes v) = []) \/
     (T <= s /\ elems (n_val (nd nodes v)) = [] /\
      expected_edges keys nl op (rhss_of (map (fun r => (o_lhs r, orient op (o_rhs r))) rules) s) = Some (n_edges (nd nodes v)))).
  Proof.
    intro Hk. destruct ok_parts as (_ & _ & H3). specialize (H3 _ (find_key_in _ _ _ _ Hk)). unfold key_ok in H3.
    assert (Hb : (op =? 1) || (op =? 2) = true) by (destruct Hop as [-> | ->]; reflexivity). rewrite Hb in H3.
    fold (nd nodes v) in H3.
    apply andb_true_iff in H3 as [H3 Hcase]. apply andb_true_iff in H3 as [H3 Hinv]. apply andb_true_iff in H3 as [Hv Hu].
    apply Nat.ltb_lt in Hv. apply negb_true_iff in Hinv. split; [exact Hv|]. split; [destruct (n_op (nd nodes v)); try discriminate; reflexivity|].
    split; [exact Hinv|]. destruct (s <? T) eqn:Es.
    - left. apply Z.ltb_lt in Es. apply andb_true_iff in Hcase as [Hc He]. apply andb_true_iff in Hc as [H0 Hel].
      apply Z.leb_le in H0. apply zl_eqb_true in Hel. destruct (n_edges (nd nodes v)); [auto | discriminate].
    - right. apply Z.ltb_ge in Es. apply andb_true_iff in Hcase as [Hel Hex]. split; [exact Es|].
      split; [destruct (elems (n_val (nd nodes v))); [reflexivity | discriminate]|].
      rewrite rhss_of_defs in Hex. destruct (expected_edges _ _ _ _) as [E|]; [|discriminate].
      apply list_eqb_nat_true in Hex. now rewrite Hex.
  Qed.

  Lemma R1 : map (fun r => (o_lhs r, orient 1 (o_rhs r))) rules = P.
  Proof. reflexivity. Qed.
  Lemma R2 : map (fun r => (o_lhs r, orient 2 (o_rhs r))) rules = rev_rules P.
  Proof. unfold P, prules_of, rev_rules. rewrite map_map. reflexivity. Qed.

  Lemma in_P X rhs : In (X, rhs) P -> exists r, In r rules /\ X = o_lhs r /\ rhs = o_rhs r.
  Proof. unfold P, prules_of. intro H. apply in_map_iff in H as (r & He & Hr). injection He as <- <-. eauto. Qed.

  Variable sol : valuation.
  Hypothesis Hs : stable_solution nodes sol.

  Theorem gen_first_exact s v : find_key 1 s keys = Some v -> forall a, sol v a <-> first_in T P s a.
  Proof.
    destruct ok_parts as (H1 & H2 & _).
    apply (gen_exact T nl P nodes keys 1).
    - intros [X rhs] Hin. apply in_P in Hin as (r & Hr & -> & _). cbn. now apply H1.
    - intros X rhs y Hin Hy. apply in_P in Hin as (r & Hr & _ & ->). now apply (H2 r).
    - intros s0 v0 Hk. rewrite <- R1. now apply key_hyp; [left|].
    - exact Hs.
  Qed.

  Theorem gen_last_exact s v : find_key 2 s keys = Some v -> forall a, sol v a <-> last_in T P s a.
  Proof.
    destruct ok_parts as (H1 & H2 & _). intros Hk a. rewrite <- first_rev. revert s v Hk a.
    apply (gen_exact T nl (rev_rules P) nodes keys 2).
    - intros [X rhs] Hin. apply in_rev_rules in Hin. apply in_P in Hin as (r & Hr & -> & _). cbn. now apply H1.
    - intros X rhs y Hin Hy. apply in_rev_rules in Hin. apply in_P in Hin as (r & Hr & _ & He).
      rewrite nullable_rev. apply (H2 r); [exact Hr|]. rewrite <- He. now apply in_rev in Hy.
    - intros s0 v0 Hk. rewrite <- R2. now apply key_hyp; [right|].
    - exact Hs.
  Qed.
End Lift.

(* ---------- through the model of ResolveSets ---------- *)
Lemma combine_nth_in {A B} (d : B) : forall (l : list A) (r : list B) i t, nth_error l i = Some t -> (i < length r)%nat ->
  In (t, nth i r d) (List.combine l r).
Proof.
  induction l as [|x l IH]; intros r i t Hn Hi; [destruct i; discriminate|].
  destruct r as [|y r]; [cbn in Hi; lia|]. destruct i as [|i]; cbn in *.
  - injection Hn as <-. now left.
  - right. apply IH; [exact Hn | lia].
Qed.

Lemma proxy_value nodes (sol : valuation) p w : stable_solution nodes sol -> (p < length nodes)%nat -> (w < length nodes)%nat ->
  n_op (nd nodes p) = OpUnion -> inverse (n_val (nd nodes p)) = false -> elems (n_val (nd nodes p)) = [] -> n_edges (nd nodes p) = [w] ->
  forall a, sol p a <-> sol w a.
Proof.
  intros Hs Hp Hw Hu Hinv Hel Hed a. rewrite (Hs p a Hp), (Hs w a Hw). split.
  - intro H. inversion H as [v x _ _ Hd | v w' x _ _ Hin Hl | v x _ Ho _ | v w' x _ Ho _ _]; subst; try congruence.
    + unfold den in Hd. rewrite Hinv, Hel in Hd. destruct Hd.
    + rewrite Hed in Hin. destruct Hin as [<-|[]]. exact Hl.
  - intro H. apply (lfp_union nodes sol p w a Hp Hu); [rewrite Hed; now left | exact H].
Qed.

Theorem sets_exact_first_last T vals sets inputs ts : sets <> [] ->
  sets_certb T vals sets inputs = true -> sets_gen_ok T vals sets inputs = true ->
  resolve_sets T vals sets inputs = SetsOk ts ->
  forall i op s, nth_error sets i = Some (TSym op s) -> op = 1 \/ op = 2 ->
  forall a, In a (nth i ts []) <-> set_den T (prules_of (rules_of T vals sets inputs)) (TSym op s) a.
Proof.
  intros Hne Hc Hg Hr i op s Hi Hop a.
  destruct (resolve_sets_ok_least T vals sets inputs ts Hne Hc Hr) as (vals_of & Hst & _ & _ & _ & Hts).
  unfold sets_gen_ok in Hg. destruct (resolve_est T vals sets inputs) as [result st] eqn:Ee. cbn [fst snd] in *.
  apply andb_true_iff in Hg as [Hg Htop]. apply andb_true_iff in Hg as [Hk Hlen]. apply Nat.eqb_eq in Hlen.
  assert (Hlt : (i < length result)%nat) by (rewrite Hlen; apply nth_error_Some; congruence).
  rewrite forallb_forall in Htop. specialize (Htop _ (combine_nth_in O sets result i _ Hi Hlt)). cbn beta iota in Htop.
  unfold top_ok in Htop.
  assert (Hb : (op =? 1) || (op =? 2) = true) by (destruct Hop as [-> | ->]; reflexivity). rewrite Hb in Htop.
  set (p := nth i result O) in *. fold (nd (e_nodes st) p) in Htop.
  apply andb_true_iff in Htop as [Htop Hfk]. apply andb_true_iff in Htop as [Htop Hel]. apply andb_true_iff in Htop as [Htop Hinv].
  apply andb_true_iff in Htop as [Hp Hu]. apply Nat.ltb_lt in Hp. apply negb_true_iff in Hinv.
  assert (Hu' : n_op (nd (e_nodes st) p) = OpUnion) by (destruct (n_op (nd (e_nodes st) p)); try discriminate; reflexivity).
  assert (Hel' : elems (n_val (nd (e_nodes st) p)) = []) by (destruct (elems (n_val (nd (e_nodes st) p))); [reflexivity | discriminate]).
  destruct (find_key op s (e_keys st)) as [v|] eqn:Ek; [|discriminate].
  destruct (n_edges (nd (e_nodes st) p)) as [|w [|? ?]] eqn:Eed; try discriminate. apply Nat.eqb_eq in Hfk. subst w.
  set (sol := fun v x => den (vals_of v) x) in *.
  assert (Hv : (v < length (e_nodes st))%nat).
  { destruct (key_hyp T _ _ _ _ Hk op Hop s v Ek) as (Hv & _). exact Hv. }
  pose proof (proxy_value (e_nodes st) sol p v Hst Hp Hv Hu' Hinv Hel' Eed a) as Hpv.
  rewrite (Hts i a Hlt). unfold in_terms. fold p. change (den (vals_of p) a) with (sol p a). rewrite Hpv.
  cbn [set_den]. unfold op_in. destruct Hop as [-> | ->]; cbn [Z.eqb Pos.eqb].
  - rewrite (gen_first_exact T _ _ _ _ Hk sol Hst s v Ek a). split; [tauto|]. intro H. split; [exact H|]. intros _. eapply first_in_range; eauto.
  - rewrite (gen_last_exact T _ _ _ _ Hk sol Hst s v Ek a). split; [tauto|]. intro H. split; [exact H|]. intros _.
    apply first_rev in H. eapply first_in_range; eauto.
Qed.
