(* Whole-model theorems for Syn/Expand.v: phase 1 as a whole, the invariant of extracted lists, least
   fixpoints (Knaster-Tarski) of value tables, and the global language preservation of phase 1 and phase 2. *)
From Coq Require Import List ZArith Bool Arith Lia.
From TM Require Import Util.Ident Syn.Expr Syn.Expand Syn.ExtLang Syn.Expand_proofs.
Import ListNotations.
Local Open Scope Z_scope.


(* ---------- phase 1 as a whole ---------- *)
Section Phase1.
  Variable T : Z.
  Variable rho : Z -> lang.
  Variable setden : Z -> Z -> Prop.
  Notation den := (den T rho setden).

  Lemma sort_tail_extras c st : x_extras (sort_tail c st) = x_extras st /\ x_fatal (sort_tail c st) = x_fatal st.
  Proof. unfold sort_tail. destruct (Nat.eqb _ 0); cbn; auto. Qed.

  Lemma consistent_ctx c c' st : cT c = cT c' -> n_orig c = n_orig c' ->
    consistent T rho setden c st -> consistent T rho setden c' st.
  Proof. intros H1 H2 Hc k nv Hk w. rewrite <- H1, <- H2. now apply Hc. Qed.

  Variable m : model.
  Hypothesis HT : T = nterms m.

  Definition ctx_at (i : nat) : xctx := mkCtx (m_terms m) (map nt_name (m_nonterms m)) (m_sets m) i.

  Definition step (acc : list expr * xst) (i : nat) : list expr * xst :=
    let '(vals, st) := acc in
    let nts := m_nonterms m in
    let n := length nts in
    let c := ctx_at i in
    let st := mkX (x_extras st) (upd_nat (x_perm st) i (i + x_extra st)%nat) (x_extra st) (x_start st) (x_base st) (x_fatal st) in
    let '(v, st) := expand_nonterm c st (nt_value (nth i nts (mkNt [] [] EEmpty 0))) in
    let delay := (0 <? group_at nts i) && Nat.ltb (S i) n && (group_at nts i =? group_at nts (S i)) in
    (vals ++ [v], if delay then st else sort_tail c st).

  Lemma fold_left_ext {A B} (f g : A -> B -> A) : (forall a b, f a b = g a b) -> forall l a, fold_left f l a = fold_left g l a.
  Proof. intros H l. induction l as [|x l IH]; intro a; cbn; auto. now rewrite H, IH. Qed.

  Lemma phase1_fold : phase1 m = fold_left step (seq 0 (length (m_nonterms m))) ([], mkX [] (repeat O (length (m_nonterms m))) O O O false).
  Proof. unfold phase1. apply fold_left_ext. intros [vals st] i. reflexivity. Qed.

  Definition value_at (i : nat) : expr := nt_value (nth i (m_nonterms m) (mkNt [] [] EEmpty 0)).

  Lemma step_good vals st i vals' st' : step (vals, st) i = (vals', st') ->
    exists v, vals' = vals ++ [v] /\
      prefix st st' /\ fatal_mono st st' /\
      (consistent T rho setden (ctx_at 0) st' -> x_fatal st' = false -> forall w, den (value_at i) w <-> den v w).
  Proof.
    unfold step. fold (value_at i).
    match goal with |- context [expand_nonterm (ctx_at i) ?s (value_at i)] => set (st1 := s) end.
    destruct (expand_nonterm (ctx_at i) st1 (value_at i)) as [v st2] eqn:E. intro H.
    match type of H with (_, ?s3) = _ => set (st3 := s3) in * end.
    injection H as <- <-. exists v. split; [reflexivity|].
    assert (HTi : T = cT (ctx_at i)) by (rewrite HT; reflexivity).
    destruct (expand_nonterm_good T rho setden (ctx_at i) HTi _ _ _ _ E) as (Hp & Hf & Hd).
    assert (He3 : x_extras st3 = x_extras st2 /\ x_fatal st3 = x_fatal st2).
    { subst st3. match goal with |- context [if ?d then _ else _] => destruct d end; [auto | apply sort_tail_extras]. }
    destruct He3 as [He3 Hf3].
    split; [destruct Hp as [more Hm]; exists more; rewrite He3, Hm; reflexivity|].
    split; [intro Hx; rewrite Hf3; apply Hf; exact Hx|].
    intros Hc Hnf w. apply Hd.
    - apply (consistent_ctx (ctx_at 0) (ctx_at i)); [reflexivity | reflexivity|].
      intros k nv Hk. apply Hc. rewrite He3. exact Hk.
    - now rewrite <- Hf3.
  Qed.

  Lemma fold_step_good : forall is vals st vals' st', fold_left step is (vals, st) = (vals', st') ->
    prefix st st' /\ fatal_mono st st' /\
    exists news, vals' = vals ++ news /\ length news = length is /\
      (consistent T rho setden (ctx_at 0) st' -> x_fatal st' = false ->
       forall k, (k < length is)%nat -> forall w, den (value_at (nth k is O)) w <-> den (nth k news EEmpty) w).
  Proof.
    induction is as [|i is IH]; intros vals st vals' st' H; cbn [fold_left] in H.
    - injection H as <- <-. split; [apply prefix_refl|]. split; [now intro|]. exists []. rewrite app_nil_r.
      split; [reflexivity|]. split; [reflexivity|]. intros _ _ k0 Hk. cbn in Hk. lia.
    - destruct (step (vals, st) i) as [vals1 st1] eqn:E1.
      destruct (step_good _ _ _ _ _ E1) as (v & -> & Hp1 & Hf1 & Hd1).
      destruct (IH _ _ _ _ H) as (Hp2 & Hf2 & news & -> & Hlen & Hd2).
      split; [eapply prefix_trans; eauto|]. split; [unfold fatal_mono in *; intro; auto|].
      exists (v :: news). rewrite <- app_assoc. split; [reflexivity|]. split; [cbn; lia|].
      intros Hc Hnf k Hk w. destruct k as [|k]; cbn [nth].
      + apply Hd1; [eapply consistent_prefix; eauto | apply (not_fatal_back _ _ Hf2 Hnf)].
      + apply Hd2; auto. cbn in Hk. lia.
  Qed.

  (* every original nonterminal keeps its meaning through phase 1 *)
  Theorem phase1_preserves vals st : phase1 m = (vals, st) ->
    length vals = length (m_nonterms m) /\
    (consistent T rho setden (ctx_at 0) st -> x_fatal st = false ->
     forall i, (i < length (m_nonterms m))%nat -> forall w, den (value_at i) w <-> den (nth i vals EEmpty) w).
  Proof.
    rewrite phase1_fold. intro H. destruct (fold_step_good _ _ _ _ _ H) as (_ & _ & news & -> & Hlen & Hd).
    rewrite seq_length in Hlen. cbn [app]. split; [exact Hlen|]. intros Hc Hnf i Hi w.
    specialize (Hd Hc Hnf i). rewrite seq_length in Hd. specialize (Hd Hi w). rewrite seq_nth in Hd by exact Hi. exact Hd.
  Qed.
End Phase1.


(* "at this point all lists either have at least one element or have no separators" *)
Definition list_inv (v : expr) : Prop :=
  match v with EList fl _ sep => Z.odd fl = false -> sep = None | _ => True end.

Definition extras_inv (st : xst) : Prop := Forall (fun nv => list_inv (snd nv)) (x_extras st).

Lemma extract_inv c st e r st' : extras_inv st -> list_inv e -> extract c st e = (r, st') -> extras_inv st'.
Proof.
  unfold extract, extras_inv. intros Hi He H.
  destruct (find_extra _ (x_extras st) 0) as [[k v]|]; [destruct (expr_eqb e v)|]; injection H as <- <-; auto;
    cbn [x_extras]; apply Forall_app; split; auto; constructor; auto.
Qed.

Lemma set_fatal_inv st : extras_inv st -> extras_inv (set_fatal st).
Proof. auto. Qed.

Theorem expand_expr_inv c : forall e st alts st', extras_inv st -> expand_expr c st e = (alts, st') -> extras_inv st'.
Proof.
  induction e using expr_ind2; intros st alts st' Hi Hx; cbn [expand_expr] in Hx; try (injection Hx as <- <-; exact Hi).
  - destruct (expand_expr c st e) as [r st1] eqn:E1. injection Hx as <- <-. eapply IHe; eauto.
  - revert st alts st' Hi Hx. induction H as [|x l Hxl Hl IH]; intros st alts st' Hi Hx.
    + injection Hx as <- <-. exact Hi.
    + destruct (expand_expr c st x) as [r st1] eqn:E1.
      match type of Hx with (let '(r2, st) := ?G in _) = _ => destruct G as [r2 st2] eqn:E2 end.
      injection Hx as <- <-. eapply IH; [|exact E2]. eapply Hxl; eauto.
  - assert (G : forall l, Forall (fun e => forall st alts st', extras_inv st -> expand_expr c st e = (alts, st') -> extras_inv st') l ->
              forall acc st alts st', extras_inv st ->
              (fix go (subs : list expr) (acc : list expr) (st : xst) {struct subs} : list expr * xst :=
                 match subs with
                 | [] => (acc, st)
                 | s :: rest => let '(r, st) := expand_expr c st s in go rest (multi_concat acc r) st
                 end) l acc st = (alts, st') -> extras_inv st').
    { clear. intros l HF. induction HF as [|x l Hxl Hl IH]; intros acc st alts st' Hi Hx.
      - injection Hx as <- <-. exact Hi.
      - destruct (expand_expr c st x) as [r st1] eqn:E1. eapply IH; [|exact Hx]. eapply Hxl; eauto. }
    eapply G; eauto.
  - destruct (expand_expr c st e) as [r st1] eqn:E1. injection Hx as <- <-. eapply IHe; eauto.
  - destruct (expand_expr c st e) as [r st1] eqn:E1. injection Hx as <- <-. eapply IHe; eauto.
  - destruct (expand_expr c st e) as [r st1] eqn:E1. injection Hx as <- <-. eapply IHe; eauto.
  - destruct (extract c st (ESet i)) as [r st1] eqn:E1. injection Hx as <- <-. eapply extract_inv; eauto. exact I.
  - destruct (extract c st (ELookahead l)) as [r st1] eqn:E1. injection Hx as <- <-. eapply extract_inv; eauto. exact I.
  - destruct (expand_expr c st e) as [el st1] eqn:E1. pose proof (IHe _ _ _ Hi E1) as Hi1.
    destruct s as [sp|].
    + destruct (expand_expr c st1 sp) as [spl st2] eqn:E2. pose proof (H sp eq_refl _ _ _ Hi1 E2) as Hi2.
      match type of Hx with (let '(ret, st) := extract c ?s3 ?v in _) = _ =>
        destruct (extract c s3 v) as [ret st4] eqn:E3;
        assert (Hi4 : extras_inv st4) end.
      { eapply extract_inv; [| |exact E3].
        - destruct spl as [|? [|? ?]]; exact Hi2.
        - unfold list_inv. intro Ho. exfalso.
          assert (Hodd : Z.odd (Z.lor f 1) = true) by (rewrite <- Z.bit0_odd, Z.lor_spec; cbn; apply orb_true_r).
          congruence. }
      destruct (negb (Z.odd f) && Z.odd (Z.lor f 1)).
      * destruct (extract c st4 (EOpt ret)) as [ret2 st5] eqn:E4. injection Hx as <- <-. eapply extract_inv; eauto. exact I.
      * injection Hx as <- <-. exact Hi4.
    + match type of Hx with (let '(ret, st) := extract c ?s3 ?v in _) = _ =>
        destruct (extract c s3 v) as [ret st4] eqn:E3;
        assert (Hi4 : extras_inv st4) by (refine (extract_inv c s3 v ret st4 Hi1 _ E3); unfold list_inv; cbv beta iota; intros _; reflexivity) end.
      destruct (negb (Z.odd f) && Z.odd f).
      * destruct (extract c st4 (EOpt ret)) as [ret2 st5] eqn:E4. injection Hx as <- <-. eapply extract_inv; eauto. exact I.
      * injection Hx as <- <-. exact Hi4.
Qed.

Lemma expand_rule_inv c rule st alts st' : extras_inv st -> expand_rule c st rule = (alts, st') -> extras_inv st'.
Proof.
  destruct rule; cbn [expand_rule]; try (apply expand_expr_inv).
  intros Hi Hx. destruct (expand_expr c st rule) as [r st1] eqn:E1. injection Hx as <- <-. eapply expand_expr_inv; eauto.
Qed.

Lemma expand_nonterm_inv c v st v' st' : extras_inv st -> expand_nonterm c st v = (v', st') -> extras_inv st'.
Proof.
  intro Hi.
  assert (Gdef : forall v0, (let '(r, st) := expand_rule c st v0 in (EChoice (collapse_empty r), st)) = (v', st') -> extras_inv st').
  { intros v0 Hx. destruct (expand_rule c st v0) as [r st1] eqn:E1. injection Hx as <- <-. eapply expand_rule_inv; eauto. }
  destruct v; cbn [expand_nonterm]; try apply Gdef.
  - intro Hx.
    assert (G : forall rules out st out' st', extras_inv st ->
              fold_left (fun '(out, st) rule => let '(r, st) := expand_rule c st rule in (out ++ r, st)) rules (out, st) = (out', st') -> extras_inv st').
    { clear. induction rules as [|x rules IH]; intros out st out' st' Hi Hx; cbn [fold_left] in Hx.
      - injection Hx as <- <-. exact Hi.
      - destruct (expand_rule c st x) as [r st1] eqn:E1. eapply IH; [|exact Hx]. eapply expand_rule_inv; eauto. }
    destruct (fold_left _ es ([], st)) as [out st1] eqn:E1. injection Hx as <- <-. eapply G; eauto.
  - intro Hx. injection Hx as <- <-. exact Hi.
  - intro Hx. injection Hx as <- <-. exact Hi.
Qed.

Lemma sort_tail_inv c st : extras_inv st -> extras_inv (sort_tail c st).
Proof. unfold extras_inv, sort_tail. destruct (Nat.eqb _ 0); cbn; auto. Qed.

Theorem phase1_extras_inv m vals st : phase1 m = (vals, st) -> extras_inv st.
Proof.
  unfold phase1.
  assert (G : forall is acc st0 vals st, extras_inv st0 ->
            fold_left (fun '(vals, st) i =>
              let c := mkCtx (m_terms m) (map nt_name (m_nonterms m)) (m_sets m) i in
              let st := mkX (x_extras st) (upd_nat (x_perm st) i (i + x_extra st)%nat) (x_extra st) (x_start st) (x_base st) (x_fatal st) in
              let '(v, st) := expand_nonterm c st (nt_value (nth i (m_nonterms m) (mkNt [] [] EEmpty 0))) in
              let delay := (0 <? group_at (m_nonterms m) i) && Nat.ltb (S i) (length (m_nonterms m)) && (group_at (m_nonterms m) i =? group_at (m_nonterms m) (S i)) in
              (vals ++ [v], if delay then st else sort_tail c st)) is (acc, st0) = (vals, st) -> extras_inv st).
  { induction is as [|i is IH]; intros acc st0 vals0 st1 Hi Hx; cbn [fold_left] in Hx.
    - injection Hx as <- <-. exact Hi.
    - match type of Hx with fold_left _ _ (let '(v, st) := expand_nonterm ?c ?s ?val in _) = _ =>
        destruct (expand_nonterm c s val) as [v st2] eqn:E end.
      eapply IH; [|exact Hx]. assert (Hi2 : extras_inv st2) by (eapply expand_nonterm_inv; [|exact E]; exact Hi).
      match goal with |- extras_inv (if ?d then _ else _) => destruct d end; [exact Hi2 | now apply sort_tail_inv]. }
  intro H. eapply G; [|exact H]. constructor.
Qed.


(* ---------- monotonicity and locality of the denotation ---------- *)
Lemma lang_any_mono (a b : list lang) : Forall2 (fun x y : lang => forall w, x w -> y w) a b -> forall w, lang_any a w -> lang_any b w.
Proof. induction 1; intro w; cbn; [tauto|]. intros [Hx|Hx]; [left; auto | right; auto]. Qed.

Lemma lang_cat_mono (a b : list lang) : Forall2 (fun x y : lang => forall w, x w -> y w) a b -> forall w, lang_cat a w -> lang_cat b w.
Proof. induction 1; intro w; cbn; [tauto|]. intros (w1 & w2 & -> & H1 & H2). exists w1, w2. auto. Qed.

Lemma plus_sep_mono (E E' S S' : lang) : (forall w, E w -> E' w) -> (forall w, S w -> S' w) -> forall w, plus_sep E S w -> plus_sep E' S' w.
Proof. intros HE HS w. induction 1; [apply ps_one; auto | apply ps_more; auto]. Qed.

Lemma Forall2_map_same {A B} (f g : A -> B) (R : B -> B -> Prop) l : Forall (fun x => R (f x) (g x)) l -> Forall2 R (map f l) (map g l).
Proof. induction 1; cbn; constructor; auto. Qed.

Section Den.
  Variable T : Z.
  Variable setden : Z -> Z -> Prop.

  Theorem den_mono (rho rho' : Z -> lang) : (forall Y w, rho Y w -> rho' Y w) ->
    forall e w, den T rho setden e w -> den T rho' setden e w.
  Proof.
    intros Hr. induction e using expr_ind2; intro w; cbn [den]; auto.
    - intros [?|?]; auto.
    - apply lang_any_mono. apply Forall2_map_same. exact H.
    - apply lang_cat_mono. apply Forall2_map_same. exact H.
    - destruct (s <? T); auto.
    - intros [?|Hp]; [auto|right]. revert Hp. apply plus_sep_mono; [exact IHe|].
      destruct s as [x|]; [apply (H x eq_refl) | auto].
  Qed.

  Theorem den_local (B : Z) (rho rho' : Z -> lang) : (forall Y, Y < B -> forall w, rho Y w <-> rho' Y w) ->
    forall e, bounded B e = true -> forall w, den T rho setden e w <-> den T rho' setden e w.
  Proof.
    intros Hr. induction e using expr_ind2; intros Hb w; cbn [den]; cbn [bounded] in Hb; try tauto.
    - rewrite (IHe Hb w). tauto.
    - apply lang_any_ext. apply Forall2_map_same. rewrite forallb_forall in Hb. rewrite Forall_forall in *. intros x Hx. apply H; auto.
    - apply lang_cat_ext. apply Forall2_map_same. rewrite forallb_forall in Hb. rewrite Forall_forall in *. intros x Hx. apply H; auto.
    - destruct (s <? T); [tauto|]. apply Hr. now apply Z.ltb_lt.
    - auto.
    - auto.
    - auto.
    - apply andb_true_iff in Hb as [Hb1 Hb2].
      assert (G : forall u, plus_sep (den T rho setden e) (match s with None => lang_eps | Some x => den T rho setden x end) u <->
                            plus_sep (den T rho' setden e) (match s with None => lang_eps | Some x => den T rho' setden x end) u).
      { apply plus_sep_ext; [apply IHe; auto|]. destruct s as [x|]; [apply (H x eq_refl); auto | tauto]. }
      rewrite (G w). tauto.
    - auto.
    - auto.
  Qed.
End Den.

(* ---------- least fixpoints (Knaster-Tarski on languages) ---------- *)
Section Lfp.
  Variable T : Z.
  Variable setden : Z -> Z -> Prop.
  Notation den := (fun rho => den T rho setden).

  Definition value_of (vals : list expr) (Y : Z) : expr := nth (Z.to_nat (Y - T)) vals (EChoice []).
  Definition in_sys (vals : list expr) (Y : Z) : Prop := T <= Y < T + Z.of_nat (length vals).

  Definition prefixpoint (vals : list expr) (rho : Z -> lang) : Prop :=
    forall Y w, in_sys vals Y -> den rho (value_of vals Y) w -> rho Y w.

  (* the language of nonterminal X in the grammar given by the value table: the least solution *)
  Definition lfp (vals : list expr) : Z -> lang := fun X w => forall rho, prefixpoint vals rho -> rho X w.

  Lemma lfp_least vals rho : prefixpoint vals rho -> forall X w, lfp vals X w -> rho X w.
  Proof. intros Hp X w H. now apply H. Qed.

  Lemma lfp_prefixpoint vals : prefixpoint vals (lfp vals).
  Proof.
    intros Y w Hin Hd rho Hp. apply Hp; auto. revert Hd. apply den_mono. intros Z0 u Hl. now apply Hl.
  Qed.

  Lemma lfp_postfixpoint vals Y w : lfp vals Y w -> in_sys vals Y /\ den (lfp vals) (value_of vals Y) w.
  Proof.
    intro Hl.
    set (rho' := fun Y w => in_sys vals Y /\ den (lfp vals) (value_of vals Y) w).
    assert (Hp : prefixpoint vals rho').
    { intros Z0 u Hz Hd. split; [exact Hz|]. revert Hd. apply den_mono. intros Z1 v [Hin Hv]. now apply lfp_prefixpoint. }
    exact (Hl rho' Hp).
  Qed.

  (* the least solution is a solution *)
  Theorem lfp_fixpoint vals Y w : in_sys vals Y -> (lfp vals Y w <-> den (lfp vals) (value_of vals Y) w).
  Proof. intro Hin. split; [intro H; now apply lfp_postfixpoint | now apply lfp_prefixpoint]. Qed.
End Lfp.

(* ---------- phase 1 preserves the language of every original nonterminal (global) ---------- *)
Section Global1.
  Variable setden : Z -> Z -> Prop.
  Variable m : model.
  Let T := nterms m.
  Let n0 := length (m_nonterms m).
  Let A := map nt_value (m_nonterms m).

  Variable vals1 : list expr.
  Variable st : xst.
  Hypothesis Hphase : phase1 m = (vals1, st).
  Hypothesis Hnf : x_fatal st = false.
  (* the original rules mention only terminals and original nonterminals *)
  Hypothesis Hwf : forall i, (i < n0)%nat -> bounded (T + Z.of_nat n0) (value_at m i) = true.

  Let E := map snd (x_extras st).
  Let B := vals1 ++ E.
  Let B' := A ++ E.

  Lemma len_vals1 : length vals1 = n0.
  Proof. exact (proj1 (phase1_preserves T (fun _ _ => False) setden m eq_refl vals1 st Hphase)). Qed.

  Lemma len_A : length A = n0. Proof. unfold A. apply map_length. Qed.

  Lemma value_orig (V : list expr) i : length V = n0 -> (i < n0)%nat -> value_of T (V ++ E) (T + Z.of_nat i) = nth i V (EChoice []).
  Proof.
    intros HV Hi. unfold value_of. replace (Z.to_nat (T + Z.of_nat i - T)) with i by lia. rewrite app_nth1 by lia. reflexivity.
  Qed.

  Lemma value_extra (V : list expr) k : length V = n0 -> value_of T (V ++ E) (T + Z.of_nat (n0 + k)) = nth k E (EChoice []).
  Proof.
    intros HV. unfold value_of. replace (Z.to_nat (T + Z.of_nat (n0 + k) - T)) with (n0 + k)%nat by lia.
    rewrite app_nth2 by lia. f_equal. lia.
  Qed.

  Lemma in_sys_cases (V : list expr) Y : length V = n0 -> in_sys T (V ++ E) Y ->
    (exists i, (i < n0)%nat /\ Y = T + Z.of_nat i) \/ (exists k, (k < length E)%nat /\ Y = T + Z.of_nat (n0 + k)).
  Proof.
    intros HV [H1 H2]. rewrite app_length, HV in H2. destruct (Z_lt_ge_dec Y (T + Z.of_nat n0)) as [Hlt|Hge].
    - left. exists (Z.to_nat (Y - T)). split; lia.
    - right. exists (Z.to_nat (Y - T - Z.of_nat n0)). split; lia.
  Qed.

  Lemma A_nth i : nth i A (EChoice []) = value_at m i \/ (n0 <= i)%nat.
  Proof.
    destruct (Nat.lt_ge_cases i n0) as [Hi|Hi]; [left | now right].
    unfold A, value_at. rewrite (nth_indep _ (EChoice []) (nt_value (mkNt [] [] EEmpty 0))) by (rewrite map_length; exact Hi).
    apply map_nth.
  Qed.

  (* a solution of a system that contains the extracted nonterminals is consistent in the sense of expandExpr *)
  Lemma solution_consistent (V : list expr) rho : length V = n0 ->
    (forall Y w, in_sys T (V ++ E) Y -> (rho Y w <-> den T rho setden (value_of T (V ++ E) Y) w)) ->
    consistent T rho setden (ctx_at m 0) st.
  Proof.
    intros HV Hsol k nv Hk w.
    assert (Hlen : (k < length E)%nat) by (unfold E; rewrite map_length; apply nth_error_Some; congruence).
    replace (cT (ctx_at m 0)) with T by reflexivity.
    replace (n_orig (ctx_at m 0)) with n0 by (unfold n_orig, ctx_at; cbn; now rewrite map_length).
    rewrite Hsol.
    - rewrite (value_extra V k HV). unfold E. erewrite nth_indep by (rewrite map_length; apply nth_error_Some; congruence).
      rewrite (map_nth snd (x_extras st) ([], EChoice []) k). erewrite nth_error_nth by exact Hk. tauto.
    - split; [lia|]. rewrite app_length, HV. lia.
  Qed.

  Lemma orig_equiv rho : consistent T rho setden (ctx_at m 0) st ->
    forall i, (i < n0)%nat -> forall w, den T rho setden (nth i A (EChoice [])) w <-> den T rho setden (nth i vals1 (EChoice [])) w.
  Proof.
    intros Hc i Hi w. destruct (A_nth i) as [->|Hge]; [|lia].
    destruct (phase1_preserves T rho setden m eq_refl vals1 st Hphase) as [Hl Hd].
    rewrite (Hd Hc Hnf i Hi w). rewrite (nth_indep vals1 EEmpty (EChoice [])) by (rewrite Hl; exact Hi). tauto.
  Qed.

  (* a solution of one of the two systems is a pre-fixpoint of the other *)
  Lemma solution_transfer (V V' : list expr) rho : length V = n0 -> length V' = n0 ->
    (forall rho, consistent T rho setden (ctx_at m 0) st -> forall i, (i < n0)%nat -> forall w,
        den T rho setden (nth i V' (EChoice [])) w <-> den T rho setden (nth i V (EChoice [])) w) ->
    (forall Y w, in_sys T (V ++ E) Y -> (rho Y w <-> den T rho setden (value_of T (V ++ E) Y) w)) ->
    prefixpoint T setden (V' ++ E) rho.
  Proof.
    intros HV HV' Heq Hsol Y w Hin Hd.
    assert (Hc : consistent T rho setden (ctx_at m 0) st) by exact (solution_consistent V rho HV Hsol).
    assert (Hin' : in_sys T (V ++ E) Y) by (destruct Hin as [H1 H2]; split; [exact H1|]; rewrite app_length in *; lia).
    apply Hsol; [exact Hin'|].
    destruct (in_sys_cases V' Y HV' Hin) as [(i & Hi & ->) | (k & Hk & ->)].
    - rewrite (value_orig V' i HV' Hi) in Hd. rewrite (value_orig V i HV Hi). now apply (Heq rho Hc i Hi w).
    - rewrite (value_extra V' k HV') in Hd. now rewrite (value_extra V k HV).
  Qed.

  Lemma lfp_solution (V : list expr) : forall Y w, in_sys T V Y -> (lfp T setden V Y w <-> den T (lfp T setden V) setden (value_of T V Y) w).
  Proof. intros Y w Hin. now apply lfp_fixpoint. Qed.

  Theorem phase1_lfp_B_B' : forall Y w, lfp T setden B Y w <-> lfp T setden B' Y w.
  Proof.
    intros Y w. split; apply lfp_least.
    - (* lfp B' is a pre-fixpoint of B *)
      apply (solution_transfer A vals1 (lfp T setden B') len_A len_vals1).
      + intros rho Hc i Hi u. symmetry. now apply orig_equiv.
      + apply lfp_solution.
    - apply (solution_transfer vals1 A (lfp T setden B) len_vals1 len_A).
      + intros rho Hc i Hi u. now apply orig_equiv.
      + apply lfp_solution.
  Qed.

  Lemma lfpA_sub_lfpB' : forall Y w, lfp T setden A Y w -> lfp T setden B' Y w.
  Proof.
    apply lfp_least. intros Y w Hin Hd. apply lfp_prefixpoint.
    - destruct Hin as [H1 H2]. split; [exact H1|]. unfold B'. rewrite app_length. lia.
    - assert (Hi : (Z.to_nat (Y - T) < n0)%nat) by (destruct Hin as [H1 H2]; rewrite len_A in H2; lia).
      replace Y with (T + Z.of_nat (Z.to_nat (Y - T))) at 1 by (destruct Hin; lia).
      unfold B'. rewrite (value_orig A _ len_A Hi). exact Hd.
  Qed.

  Theorem phase1_lfp_A_B' : forall Y, T <= Y < T + Z.of_nat n0 -> forall w, lfp T setden A Y w <-> lfp T setden B' Y w.
  Proof.
    intros Y HY w. split; [apply lfpA_sub_lfpB'|].
    set (rho := fun Y w => if Y <? T + Z.of_nat n0 then lfp T setden A Y w else lfp T setden B' Y w).
    assert (Hsub : forall Z0 u, rho Z0 u -> lfp T setden B' Z0 u).
    { intros Z0 u. unfold rho. destruct (Z0 <? T + Z.of_nat n0); [apply lfpA_sub_lfpB' | auto]. }
    assert (Hp : prefixpoint T setden B' rho).
    { intros Z0 u Hin Hd. destruct (in_sys_cases A Z0 len_A Hin) as [(i & Hi & ->) | (k & Hk & ->)].
      - unfold B' in Hd. rewrite (value_orig A i len_A Hi) in Hd. unfold rho.
        replace (T + Z.of_nat i <? T + Z.of_nat n0) with true by (symmetry; apply Z.ltb_lt; lia).
        apply lfp_prefixpoint; [split; [lia | rewrite len_A; lia]|].
        unfold value_of. replace (Z.to_nat (T + Z.of_nat i - T)) with i by lia.
        destruct (A_nth i) as [Ea|Hge]; [|lia]. rewrite Ea in *.
        apply (den_local T setden (T + Z.of_nat n0) rho (lfp T setden A)); [|apply Hwf; exact Hi | exact Hd].
        intros Z1 Hz u0. unfold rho. replace (Z1 <? T + Z.of_nat n0) with true by (symmetry; apply Z.ltb_lt; lia). tauto.
      - unfold rho. replace (T + Z.of_nat (n0 + k) <? T + Z.of_nat n0) with false by (symmetry; apply Z.ltb_ge; lia).
        apply lfp_prefixpoint; [exact Hin|]. revert Hd. apply den_mono. exact Hsub. }
    intro Hl. pose proof (lfp_least T setden B' rho Hp Y w Hl) as Hr. unfold rho in Hr.
    replace (Y <? T + Z.of_nat n0) with true in Hr by (symmetry; apply Z.ltb_lt; lia). exact Hr.
  Qed.

  (* phase 1, global: the expanded table (new values of the original nonterminals, extracted nonterminals with
     their list / optional / set values) gives every original nonterminal the language it had *)
  Theorem phase1_language_preserved : forall Y, T <= Y < T + Z.of_nat n0 -> forall w,
    lfp T setden A Y w <-> lfp T setden B Y w.
  Proof. intros Y HY w. rewrite (phase1_lfp_A_B' Y HY w). symmetry. apply phase1_lfp_B_B'. Qed.
End Global1.

(* ---------- phase 2, global: the list / optional rules define the same least solution ---------- *)
Inductive plus_sep_r (E S : lang) : lang :=
| psr_one w : E w -> plus_sep_r E S w
| psr_more w1 s w2 : E w1 -> S s -> plus_sep_r E S w2 -> plus_sep_r E S (w1 ++ s ++ w2).

Lemma plus_sep_r_snoc (E S : lang) w1 s w2 : plus_sep_r E S w1 -> S s -> E w2 -> plus_sep_r E S (w1 ++ s ++ w2).
Proof.
  induction 1 as [w H | u s' v Hu Hs' Hv IH]; intros Hs He.
  - apply psr_more; auto. now apply psr_one.
  - rewrite <- !app_assoc. apply psr_more; auto.
Qed.

Lemma plus_sep_to_r (E S : lang) w : plus_sep E S w -> plus_sep_r E S w.
Proof. induction 1; [now apply psr_one | now apply plus_sep_r_snoc]. Qed.

Lemma plus_closed_left (E S L : lang) : (forall w, E w -> L w) -> (forall w1 s w2, L w1 -> S s -> E w2 -> L (w1 ++ s ++ w2)) ->
  forall w, plus_sep E S w -> L w.
Proof. intros H1 H2 w. induction 1; auto. Qed.

Lemma plus_closed_right (E S L : lang) : (forall w, E w -> L w) -> (forall w1 s w2, E w1 -> S s -> L w2 -> L (w1 ++ s ++ w2)) ->
  forall w, plus_sep E S w -> L w.
Proof. intros H1 H2 w H. apply plus_sep_to_r in H. induction H; auto. Qed.

Section Top2.
  Variable T : Z.
  Variable rho : Z -> lang.
  Variable setden : Z -> Z -> Prop.
  Notation den := (den T rho setden).
  Hypothesis HT : 0 <= T.

  (* if the interpretation is closed under the rules written for a list / optional nonterminal, it contains
     the language of the list / optional *)
  Theorem expand_top_closed self v :
    list_inv v ->
    (forall u, den (expand_top T self v) u -> rho (T + Z.of_nat self) u) ->
    forall w, den v w -> rho (T + Z.of_nat self) w.
  Proof.
    intros Hinv Hrule w. destruct v; try (exact (Hrule w)).
    - (* Optional *) cbn [expand_top] in Hrule. intro Hd. apply Hrule. cbn [ExtLang.den map lang_any] in *. unfold lang_eps. tauto.
    - (* List *)
      cbn [list_inv] in Hinv.
      set (self_ref := ERef (T + Z.of_nat self) []).
      assert (Href : forall u, den self_ref u <-> rho (T + Z.of_nat self) u).
      { intro u. subst self_ref. cbn [ExtLang.den]. replace (T + Z.of_nat self <? T) with false by (symmetry; apply Z.ltb_ge; lia). tauto. }
      set (E := den v). set (S := match sep with None => lang_eps | Some s => den s end).
      set (rr := Z.testbit flags 1).
      set (rec := match sep with
                  | None => ESeq [self_ref]
                  | Some s => if rr then concat_list [s; ESeq [self_ref]] else concat_list [ESeq [self_ref]; s]
                  end).
      (* the recursive part, as a language *)
      assert (Hrec : forall u, den rec u <->
                if rr then (exists s w2, u = s ++ w2 /\ S s /\ rho (T + Z.of_nat self) w2)
                else (exists w1 s, u = w1 ++ s /\ rho (T + Z.of_nat self) w1 /\ S s)).
      { intro u. subst rec S. destruct sep as [sp|].
        - destruct rr.
          + rewrite den_concat_list. cbn [map lang_cat ExtLang.den]. split.
            * intros (a & b & -> & Ha & (c0 & d & -> & (x & y & -> & Hx & ->) & ->)). exists a, x. rewrite !app_nil_r. repeat split; auto. now apply Href.
            * intros (s & w2 & -> & Hs & Hw). exists s, w2. repeat split; auto. exists w2, []. rewrite app_nil_r. repeat split; auto.
              exists w2, []. rewrite app_nil_r. repeat split; auto. now apply Href.
          + rewrite den_concat_list. cbn [map lang_cat ExtLang.den]. split.
            * intros (a & b & -> & (x & y & -> & Hx & ->) & (c0 & d & -> & Hs & ->)). exists x, c0. rewrite !app_nil_r. repeat split; auto. now apply Href.
            * intros (w1 & s & -> & Hw & Hs). exists w1, s. repeat split; auto.
              -- exists w1, []. rewrite app_nil_r. repeat split; auto. now apply Href.
              -- exists s, []. now rewrite app_nil_r.
        - cbn [ExtLang.den map lang_cat]. unfold lang_eps. destruct rr; split.
          + intros (x & y & -> & Hx & ->). exists [], x. rewrite app_nil_r. repeat split; auto. now apply Href.
          + intros (s & w2 & -> & -> & Hw). exists w2, []. cbn [app]. rewrite app_nil_r. repeat split; auto. now apply Href.
          + intros (x & y & -> & Hx & ->). exists x, []. repeat split; auto. now apply Href.
          + intros (w1 & s & -> & Hw & ->). exists w1, []. repeat split; auto. now apply Href. }
      (* what the rules give: closure under the base and the step, in the direction of the recursion *)
      assert (Hclosed :
        (forall u, E u -> (if Z.odd flags then True else True) -> rho (T + Z.of_nat self) u \/ Z.odd flags = false) -> True) by auto.
      clear Hclosed.
      assert (Hbody : forall u, (if rr then den (concat_list [v; rec]) u else den (concat_list [rec; v]) u) -> rho (T + Z.of_nat self) u).
      { intros u Hu. apply Hrule. cbn [expand_top]. fold self_ref. fold rr. fold rec.
        destruct rr.
        - destruct v; cbn [ExtLang.den map lang_any]; try (left; exact Hu).
          rewrite map_app, lang_any_app. left.
          rewrite den_multi_concat. change (concat_list [EChoice es; rec]) with (concat2 (EChoice es) rec) in Hu.
          apply den_concat2 in Hu as (a & b & -> & Ha & Hb). exists a, b. cbn [map lang_any]. cbn [ExtLang.den] in Ha. tauto.
        - destruct v; cbn [ExtLang.den map lang_any]; try (left; exact Hu).
          rewrite map_app, lang_any_app. left.
          rewrite den_multi_concat. change (concat_list [rec; EChoice es]) with (concat2 rec (EChoice es)) in Hu.
          apply den_concat2 in Hu as (a & b & -> & Ha & Hb). exists a, b. cbn [map lang_any]. cbn [ExtLang.den] in Hb. tauto. }
      assert (Hbase : forall u, (if Z.odd flags then E u else u = []) -> rho (T + Z.of_nat self) u).
      { intros u Hu. apply Hrule. cbn [expand_top]. fold self_ref. fold rr. fold rec.
        assert (Hone : forall x u, den (concat_list [x]) u <-> den x u).
        { intros x u0. rewrite den_concat_list. cbn [map]. apply lang_cat_one. }
        destruct v; cbn [ExtLang.den map lang_any];
          try (right; left; destruct (Z.odd flags); rewrite ?Hone; cbn [ExtLang.den]; unfold lang_eps, E in *; cbn [ExtLang.den] in *; exact Hu).
        rewrite map_app, lang_any_app. right. destruct (Z.odd flags).
        - unfold E in Hu. cbn [ExtLang.den] in Hu. exact Hu.
        - cbn [map lang_any ExtLang.den]. unfold lang_eps. tauto. }
      intros [[Ho ->] | Hp].
      + apply Hbase. now rewrite Ho.
      + destruct (Z.odd flags) eqn:Eo.
        * (* non-empty list *)
          destruct rr eqn:Err.
          -- revert w Hp. apply plus_closed_right; [intros u Hu; now apply Hbase|].
             intros w1 s w2 H1 Hs H2. apply Hbody. change (concat_list [v; rec]) with (concat2 v rec). apply den_concat2.
             exists w1, (s ++ w2). repeat split; auto. apply Hrec. exists s, w2. auto.
          -- revert w Hp. apply plus_closed_left; [intros u Hu; now apply Hbase|].
             intros w1 s w2 H1 Hs H2. apply Hbody. change (concat_list [rec; v]) with (concat2 rec v). apply den_concat2.
             exists (w1 ++ s), w2. rewrite <- app_assoc. repeat split; auto. apply Hrec. exists w1, s. auto.
        * (* star list: no separator; the base is the empty string *)
          assert (HS : forall s, S s <-> s = []) by (intro s; subst S; rewrite (Hinv eq_refl); unfold lang_eps; tauto).
          assert (Hnil : rho (T + Z.of_nat self) []) by (apply Hbase; reflexivity).
          destruct rr eqn:Err.
          -- revert w Hp. apply plus_closed_right.
             ++ intros u Hu. apply Hbody. change (concat_list [v; rec]) with (concat2 v rec). apply den_concat2.
                exists u, []. rewrite app_nil_r. repeat split; auto. apply Hrec. exists [], []. repeat split; auto. now apply HS.
             ++ intros w1 s w2 H1 Hs H2. apply Hbody. change (concat_list [v; rec]) with (concat2 v rec). apply den_concat2.
                exists w1, (s ++ w2). repeat split; auto. apply Hrec. exists s, w2. auto.
          -- revert w Hp. apply plus_closed_left.
             ++ intros u Hu. apply Hbody. change (concat_list [rec; v]) with (concat2 rec v). apply den_concat2.
                exists [], u. repeat split; auto. apply Hrec. exists [], []. repeat split; auto. now apply HS.
             ++ intros w1 s w2 H1 Hs H2. apply Hbody. change (concat_list [rec; v]) with (concat2 rec v). apply den_concat2.
                exists (w1 ++ s), w2. rewrite <- app_assoc. repeat split; auto. apply Hrec. exists w1, s. auto.
  Qed.
End Top2.

Section Global2.
  Variable T : Z.
  Variable setden : Z -> Z -> Prop.
  Hypothesis HT : 0 <= T.
  Variable vals : list expr.
  Hypothesis Hinv : Forall list_inv vals.

  Definition phase2_table : list expr :=
    map (fun '(self, v) => expand_top T self v) (List.combine (seq 0 (length vals)) vals).

  Lemma phase2_length : length phase2_table = length vals.
  Proof. unfold phase2_table. rewrite map_length, combine_length, seq_length. lia. Qed.

  Lemma phase2_value self : (self < length vals)%nat ->
    value_of T phase2_table (T + Z.of_nat self) = expand_top T self (value_of T vals (T + Z.of_nat self)).
  Proof.
    intro Hs. unfold value_of, phase2_table. replace (Z.to_nat (T + Z.of_nat self - T)) with self by lia.
    rewrite (nth_indep _ (EChoice []) ((fun '(self, v) => expand_top T self v) (self, nth self vals (EChoice []))))
      by (rewrite map_length, combine_length, seq_length; lia).
    rewrite (map_nth (fun '(self, v) => expand_top T self v) _ (self, nth self vals (EChoice [])) self).
    rewrite combine_nth by (now rewrite seq_length). rewrite seq_nth by exact Hs. cbn [plus].
    now rewrite (nth_indep vals (nth self vals (EChoice [])) (EChoice []) Hs).
  Qed.

  Lemma in_sys_self (V : list expr) Y : in_sys T V Y -> exists self, (self < length V)%nat /\ Y = T + Z.of_nat self.
  Proof. intros [H1 H2]. exists (Z.to_nat (Y - T)). split; lia. Qed.

  Lemma list_inv_at self : list_inv (value_of T vals (T + Z.of_nat self)).
  Proof.
    unfold value_of. replace (Z.to_nat (T + Z.of_nat self - T)) with self by lia.
    destruct (Nat.lt_ge_cases self (length vals)) as [Hlt|Hge].
    - rewrite Forall_forall in Hinv. apply Hinv. now apply nth_In.
    - rewrite nth_overflow by exact Hge. exact I.
  Qed.

  (* phase 2, global: replacing the list / optional values by the synthesised rules does not change any language *)
  Theorem phase2_language_preserved : forall Y w, lfp T setden vals Y w <-> lfp T setden phase2_table Y w.
  Proof.
    intros Y w. split; apply lfp_least.
    - (* lfp of the rules is closed under the list equations *)
      intros Y0 u Hin Hd. destruct (in_sys_self _ _ Hin) as (self & Hs & ->).
      apply (expand_top_closed T (lfp T setden phase2_table) setden self (value_of T vals (T + Z.of_nat self)));
        [apply list_inv_at | | exact Hd].
      intros u0 Hu. apply lfp_prefixpoint.
      + destruct Hin as [H1 H2]. split; [exact H1 | now rewrite phase2_length].
      + now rewrite phase2_value.
    - (* the least solution of the list equations satisfies the rules *)
      intros Y0 u Hin Hd. unfold in_sys in Hin. rewrite phase2_length in Hin. destruct (in_sys_self vals Y0) as (self & Hs & ->).
      { destruct Hin as [H1 H2]. split; auto. }
      apply lfp_prefixpoint; [destruct Hin; split; auto|].
      rewrite phase2_value in Hd by exact Hs.
      apply (expand_top_good T (lfp T setden vals) setden self (value_of T vals (T + Z.of_nat self)) HT); [| |exact Hd].
      + intros fl el sep Hv Ho. pose proof (list_inv_at self) as Hl. rewrite Hv in Hl. exact (Hl Ho).
      + intro u0. apply lfp_fixpoint. destruct Hin; split; auto.
  Qed.
End Global2.

(* ---------- both phases together (without the reordering of nonterminals) ---------- *)
Lemma expand_nonterm_list_inv c st v v' st' : expand_nonterm c st v = (v', st') -> list_inv v'.
Proof.
  destruct v; cbn [expand_nonterm]; intro H;
    try (destruct (expand_rule c st _) as [r st1]; injection H as <- <-; exact I);
    try (injection H as <- <-; exact I).
  destruct (fold_left _ es ([], st)) as [out st1]. injection H as <- <-. exact I.
Qed.

Lemma phase1_vals_list_inv m vals st : phase1 m = (vals, st) -> Forall list_inv vals.
Proof.
  unfold phase1.
  assert (G : forall is acc st0 vals st, Forall list_inv acc ->
            fold_left (fun '(vals, st) i =>
              let c := mkCtx (m_terms m) (map nt_name (m_nonterms m)) (m_sets m) i in
              let st := mkX (x_extras st) (upd_nat (x_perm st) i (i + x_extra st)%nat) (x_extra st) (x_start st) (x_base st) (x_fatal st) in
              let '(v, st) := expand_nonterm c st (nt_value (nth i (m_nonterms m) (mkNt [] [] EEmpty 0))) in
              let delay := (0 <? group_at (m_nonterms m) i) && Nat.ltb (S i) (length (m_nonterms m)) && (group_at (m_nonterms m) i =? group_at (m_nonterms m) (S i)) in
              (vals ++ [v], if delay then st else sort_tail c st)) is (acc, st0) = (vals, st) -> Forall list_inv vals).
  { induction is as [|i is IH]; intros acc st0 vals0 st1 Hi Hx; cbn [fold_left] in Hx.
    - injection Hx as <- <-. exact Hi.
    - match type of Hx with fold_left _ _ (let '(v, st) := expand_nonterm ?c ?s ?val in _) = _ =>
        destruct (expand_nonterm c s val) as [v st2] eqn:E end.
      eapply IH; [|exact Hx]. apply Forall_app. split; [exact Hi|]. constructor; [|constructor]. eapply expand_nonterm_list_inv; eauto. }
  intro H. eapply G; [|exact H]. constructor.
Qed.

(* C13 for the model of Expand, up to the order of the nonterminals: the table produced by phase 1 and
   rewritten by phase 2 gives every original nonterminal exactly the language of the extended notation *)
Theorem expand_language_preserved setden m vals1 st :
  phase1 m = (vals1, st) -> x_fatal st = false -> 0 <= nterms m ->
  (forall i, (i < length (m_nonterms m))%nat -> bounded (nterms m + Z.of_nat (length (m_nonterms m))) (value_at m i) = true) ->
  forall X, nterms m <= X < nterms m + Z.of_nat (length (m_nonterms m)) -> forall w,
    lfp (nterms m) setden (map nt_value (m_nonterms m)) X w <->
    lfp (nterms m) setden (phase2_table (nterms m) (vals1 ++ map snd (x_extras st))) X w.
Proof.
  intros Hp Hnf HT Hwf X HX w.
  rewrite (phase1_language_preserved setden m vals1 st Hp Hnf Hwf X HX w).
  apply phase2_language_preserved; [exact HT|].
  apply Forall_app. split; [eapply phase1_vals_list_inv; eauto|].
  pose proof (phase1_extras_inv m vals1 st Hp) as Hi. unfold extras_inv in Hi.
  rewrite Forall_forall in *. intros v Hv. apply in_map_iff in Hv as (nv & <- & Hnv). now apply Hi.
Qed.
