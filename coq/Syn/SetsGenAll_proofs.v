(* C15: soundness of the extended generated-system check SetsGenAll.sets_gen_all_ok: at the nodes of the keys
   (any, s), (follow, s), (precede, s) every stable (= least) solution of the generated equations is exactly
   any_in / follow_in / precede_in, and the node of a closed set expression is the corresponding union /
   intersection / complement of these sets. *)
From Coq Require Import List ZArith Bool Arith Lia.
From TM Require Import Util.IntSet Util.IntSet_proofs Util.Graph Util.Closure Util.ClosureCert Util.ClosureSem
  Util.Closure_proofs4
  Gram.Cfg Syn.Expr Syn.Sets Syn.SetsSpec Syn.SetsSpec_proofs Syn.SetsSpec_proofs2 Syn.SetsSpec_proofs3 Syn.Sets_closure
  Syn.SetsGen Syn.SetsGen_proofs Syn.SetsGenAll.
Import ListNotations.
Local Open Scope Z_scope.

(* ---------- helpers ---------- *)
Lemma concat_opt_spec {A} : forall (l : list (option (list A))) E, concat_opt l = Some E ->
  (forall w, In w E -> exists a, In (Some a) l /\ In w a) /\
  (forall x, In x l -> exists a, x = Some a /\ incl a E).
Proof.
  induction l as [|x l IH]; intros E H; cbn [concat_opt] in H.
  - injection H as <-. split; [intros w [] | intros x []].
  - destruct x as [a|]; [|discriminate]. destruct (concat_opt l) as [b|]; [|discriminate]. injection H as <-.
    destruct (IH b eq_refl) as [I1 I2]. split.
    + intros w Hw. apply in_app_or in Hw as [Hw|Hw].
      * exists a. split; [now left | exact Hw].
      * destruct (I1 w Hw) as (c & Hc & Hi). exists c. split; [now right | exact Hi].
    + intros x [<-|Hx].
      * exists a. split; [reflexivity | apply incl_appl, incl_refl].
      * destruct (I2 x Hx) as (c & -> & Hi). exists c. split; [reflexivity | apply incl_appr, Hi].
Qed.

Lemma all_keys_spec keys op : forall syms E, all_keys keys op syms = Some E ->
  (forall w, In w E -> exists y, In y syms /\ find_key op y keys = Some w) /\
  (forall y, In y syms -> exists w, find_key op y keys = Some w /\ In w E).
Proof.
  induction syms as [|x rest IH]; intros E H; cbn [all_keys] in H.
  - injection H as <-. split; [intros w [] | intros y []].
  - destruct (find_key op x keys) as [w0|] eqn:Ek; [|discriminate].
    destruct (all_keys keys op rest) as [E'|]; [|discriminate]. injection H as <-.
    destruct (IH E' eq_refl) as [I1 I2]. split.
    + intros w [<-|Hw]; [exists x; split; [now left | exact Ek]|].
      destruct (I1 w Hw) as (y & Hy & Hf). exists y. split; [now right | exact Hf].
    + intros y [<-|Hy]; [exists w0; split; [exact Ek | now left]|].
      destruct (I2 y Hy) as (w & Hf & Hw). exists w. split; [exact Hf | now right].
Qed.

Lemma union_node_spec nodes v c : union_node nodes v c = true ->
  (v < length nodes)%nat /\ n_op (nd nodes v) = OpUnion /\ inverse (n_val (nd nodes v)) = false /\
  elems (n_val (nd nodes v)) = c.
Proof.
  unfold union_node. fold (nd nodes v). intro H.
  apply andb_true_iff in H as [H Hel]. apply andb_true_iff in H as [H Hinv]. apply andb_true_iff in H as [Hv Hu].
  apply Nat.ltb_lt in Hv. apply negb_true_iff in Hinv. apply zl_eqb_true in Hel.
  repeat split; auto. destruct (n_op (nd nodes v)); try discriminate; reflexivity.
Qed.

Lemma rhss_of_prules rules s : map o_rhs (defs_of rules s) = rhss_of (prules_of rules) s.
Proof.
  unfold rhss_of, defs_of, prules_of. induction rules as [|r rules IH]; cbn [filter map fst]; [reflexivity|].
  destruct (o_lhs r =? s); cbn [map snd]; now rewrite IH.
Qed.

Lemma any_in_range T R s a : any_in T R s a -> 0 <= a < T.
Proof. induction 1; auto. Qed.

Lemma follow_in_range T R s a : follow_in T R s a -> 0 <= a < T.
Proof. induction 1; auto. eapply first_in_range; eauto. Qed.

(* ---------- the keys (any, s) ---------- *)
Section Any.
  Variable T : Z.
  Variable R : list prule.
  Variable nodes : list cnode.
  Variable keys : list (Z * Z * nat).

  Hypothesis HR : forall r, In r R -> T <= fst r.
  Hypothesis Hkey : forall s v, find_key 0 s keys = Some v ->
    (v < length nodes)%nat /\ n_op (nd nodes v) = OpUnion /\ inverse (n_val (nd nodes v)) = false /\
    ((s < T /\ 0 <= s /\ elems (n_val (nd nodes v)) = [s] /\ n_edges (nd nodes v) = []) \/
     (T <= s /\ elems (n_val (nd nodes v)) = [] /\
      concat_opt (map (all_keys keys 0) (rhss_of R s)) = Some (n_edges (nd nodes v)))).

  Variable sol : valuation.

  Lemma any_sound : forall v a, lfp nodes sol v a -> forall s, find_key 0 s keys = Some v -> any_in T R s a.
  Proof.
    induction 1 as [v x Hv Ho Hd | v w x Hv Ho Hw Hl IH | v x Hv Ho Hall IH | v w x Hv Ho He Hn]; intros s Hk;
      destruct (Hkey s v Hk) as (_ & Hu & Hinv & Hcase); try congruence.
    - unfold den in Hd. rewrite Hinv in Hd. destruct Hcase as [(Hs & H0 & Hel & _) | (_ & Hel & _)]; rewrite Hel in Hd.
      + destruct Hd as [<-|[]]. apply an_term. lia.
      + destruct Hd.
    - destruct Hcase as [(_ & _ & _ & Hed) | (Hs & _ & Hex)]; [rewrite Hed in Hw; destruct Hw|].
      destruct (concat_opt_spec _ _ Hex) as [I1 _]. destruct (I1 w Hw) as (Er & Hr & Hi).
      apply in_map_iff in Hr as (rhs & Hsc & Hr). apply rhss_of_in in Hr.
      destruct (all_keys_spec _ _ _ _ Hsc) as [S1 _]. destruct (S1 w Hi) as (y & Hy & Hf).
      apply in_split in Hy as (pre & post & ->).
      apply (an_rule T R s pre y post x Hr). now apply IH.
  Qed.

  Lemma any_complete : forall s a, any_in T R s a -> forall v, find_key 0 s keys = Some v -> lfp nodes sol v a.
  Proof.
    induction 1 as [a Ha | X pre y post a Hin Hf IH]; intros v Hk; destruct (Hkey _ v Hk) as (Hv & Hu & Hinv & Hcase).
    - destruct Hcase as [(_ & _ & Hel & _) | (Hs & _ & _)]; [|lia].
      apply lfp_const; auto. unfold den. rewrite Hinv, Hel. now left.
    - destruct Hcase as [(Hs & _) | (_ & _ & Hex)]; [specialize (HR _ Hin); cbn in HR; lia|].
      destruct (concat_opt_spec _ _ Hex) as [_ I2].
      destruct (I2 (all_keys keys 0 (pre ++ y :: post))) as (Er & Hsc & Hincl).
      { apply in_map. now apply rhss_of_in. }
      destruct (all_keys_spec _ _ _ _ Hsc) as [_ S2].
      destruct (S2 y) as (w & Hfw & Hw); [apply in_or_app; right; now left|].
      apply (lfp_union nodes sol v w a Hv Hu (Hincl w Hw)). now apply IH.
  Qed.
End Any.

(* ---------- the keys (follow, s) / (precede, s), generic in the orientation ---------- *)
Section Fol.
  Variable T : Z.
  Variable nl : list Z.
  Variable R : list prule.
  Variable nodes : list cnode.
  Variable keys : list (Z * Z * nat).
  Variables fiop fop : Z.
  Variable ctx : Z -> list (Z * list Z).
  Variable sol : valuation.

  Hypothesis Hctx : forall s X post, In (X, post) (ctx s) <-> exists pre, In (X, pre ++ s :: post) R.
  Hypothesis Hnl : forall X rhs y, In (X, rhs) R -> In y rhs -> (mem y nl = true <-> nullable_in R y).
  Hypothesis Hfirst : forall y w, find_key fiop y keys = Some w -> forall a, lfp nodes sol w a <-> first_in T R y a.
  Hypothesis Hkey : forall s v, find_key fop s keys = Some v ->
    (v < length nodes)%nat /\ n_op (nd nodes v) = OpUnion /\ inverse (n_val (nd nodes v)) = false /\
    elems (n_val (nd nodes v)) = [] /\
    concat_opt (map (ctx_edges keys nl fiop fop) (ctx s)) = Some (n_edges (nd nodes v)).

  Lemma all_null_iff X rhs l : In (X, rhs) R -> incl l rhs -> (all_null nl l = true <-> all_nullable R l).
  Proof.
    intros Hin Hl. unfold all_null, all_nullable. rewrite forallb_forall. split; intros H s Hs.
    - apply (Hnl X rhs s Hin (Hl s Hs)). now apply H.
    - apply (Hnl X rhs s Hin (Hl s Hs)). now apply H.
  Qed.

  Lemma fol_sound : forall v a, lfp nodes sol v a -> forall s, find_key fop s keys = Some v -> follow_in T R s a.
  Proof.
    induction 1 as [v x Hv Ho Hd | v w x Hv Ho Hw Hl IH | v x Hv Ho Hall IH | v w x Hv Ho He Hn]; intros s Hk;
      destruct (Hkey s v Hk) as (_ & Hu & Hinv & Hel & Hex); try congruence.
    - unfold den in Hd. rewrite Hinv, Hel in Hd. destruct Hd.
    - destruct (concat_opt_spec _ _ Hex) as [I1 _]. destruct (I1 w Hw) as (Ec & Hc & Hi).
      apply in_map_iff in Hc as ([X post] & Hce & Hc). apply Hctx in Hc as [pre Hin].
      unfold ctx_edges in Hce. cbn [fst snd] in Hce.
      destruct (scan_keys keys nl fiop post) as [E0|] eqn:Esc; [|discriminate].
      assert (Hscan : In w E0 -> follow_in T R s x).
      { intro Hw0. destruct (scan_keys_spec _ _ _ _ _ Esc) as [S1 _].
        destruct (S1 w Hw0) as (mid & y & post' & -> & Hp & Hf).
        apply (fo_next T R X pre s mid y post' x Hin).
        - apply (all_null_iff X _ mid Hin); [|exact Hp].
          intros z Hz. apply in_or_app. right. right. apply in_or_app. now left.
        - now apply (Hfirst y w Hf). }
      destruct (all_null nl post) eqn:En.
      + destruct (find_key fop X keys) as [w0|] eqn:Ek; [|discriminate]. injection Hce as <-.
        apply in_app_or in Hi as [Hi|[<-|[]]]; [now apply Hscan|].
        apply (fo_end T R X pre s post x Hin).
        * apply (all_null_iff X _ post Hin); [|exact En]. intros z Hz. apply in_or_app. right. now right.
        * now apply IH.
      + injection Hce as <-. now apply Hscan.
  Qed.

  Lemma fol_complete : forall s a, follow_in T R s a -> forall v, find_key fop s keys = Some v -> lfp nodes sol v a.
  Proof.
    induction 1 as [X pre s mid y post a Hin Hmid Hf | X pre s post a Hin Hpost Hfo IH]; intros v Hk;
      destruct (Hkey _ v Hk) as (Hv & Hu & Hinv & Hel & Hex); destruct (concat_opt_spec _ _ Hex) as [_ I2].
    - destruct (I2 (ctx_edges keys nl fiop fop (X, mid ++ y :: post))) as (Ec & Hce & Hincl).
      { apply in_map. apply Hctx. now exists pre. }
      unfold ctx_edges in Hce. cbn [fst snd] in Hce.
      destruct (scan_keys keys nl fiop (mid ++ y :: post)) as [E0|] eqn:Esc; [|discriminate].
      destruct (scan_keys_spec _ _ _ _ _ Esc) as [_ S2].
      destruct (S2 mid y post eq_refl) as (w & Hfw & Hw).
      { apply (all_null_iff X _ mid Hin); [|exact Hmid].
        intros z Hz. apply in_or_app. right. right. apply in_or_app. now left. }
      assert (HwE : In w Ec).
      { destruct (all_null nl (mid ++ y :: post)).
        - destruct (find_key fop X keys); [|discriminate]. injection Hce as <-. apply in_or_app. now left.
        - now injection Hce as <-. }
      apply (lfp_union nodes sol v w a Hv Hu (Hincl w HwE)). now apply (Hfirst y w Hfw).
    - destruct (I2 (ctx_edges keys nl fiop fop (X, post))) as (Ec & Hce & Hincl).
      { apply in_map. apply Hctx. now exists pre. }
      unfold ctx_edges in Hce. cbn [fst snd] in Hce.
      destruct (scan_keys keys nl fiop post) as [E0|]; [|discriminate].
      assert (En : all_null nl post = true).
      { apply (all_null_iff X _ post Hin); [|exact Hpost]. intros z Hz. apply in_or_app. right. now right. }
      rewrite En in Hce. destruct (find_key fop X keys) as [w0|] eqn:Ek; [|discriminate]. injection Hce as <-.
      apply (lfp_union nodes sol v w0 a Hv Hu); [apply Hincl, in_or_app; right; now left|]. now apply IH.
  Qed.
End Fol.

(* ---------- the trees of translate ---------- *)
Lemma tree_ok_eq nodes keys t p : tree_ok nodes keys t p =
  match is_proxy nodes p with
  | None => false
  | Some r =>
    match t with
    | TSym op s => (0 <=? op) && (op <=? 4) && match find_key op s keys with Some v => Nat.eqb v r | None => false end
    | TUnion l =>
        match op_node nodes OpUnion r with
        | Some ws => (fix go (l : list tset) (ws : list nat) : bool :=
               match l, ws with
               | [], [] => true
               | x :: l', w :: ws' => tree_ok nodes keys x w && go l' ws'
               | _, _ => false
               end) l ws
        | None => false
        end
    | TInter l =>
        match op_node nodes OpIntersection r with
        | Some ws => (fix go (l : list tset) (ws : list nat) : bool :=
               match l, ws with
               | [], [] => true
               | x :: l', w :: ws' => tree_ok nodes keys x w && go l' ws'
               | _, _ => false
               end) l ws
        | None => false
        end
    | TCompl _ x => match op_node nodes OpComplement r with Some [v] => tree_ok nodes keys x v | _ => false end
    | TNamed _ => false
    end
  end.
Proof. destruct t; reflexivity. Qed.

Section Tree.
  Variable T : Z.
  Variable R : list prule.
  Variable nodes : list cnode.
  Variable keys : list (Z * Z * nat).
  Variable sol : valuation.
  Hypothesis Hwf : nodes_wf nodes.
  Hypothesis Hs : stable_solution nodes sol.
  Hypothesis Hleaf : forall op s v, 0 <= op <= 4 -> find_key op s keys = Some v -> forall a, sol v a <-> op_in T R op s a.

  Lemma op_node_spec o r ws : op_node nodes o r = Some ws ->
    (r < length nodes)%nat /\ n_op (nd nodes r) = o /\ inverse (n_val (nd nodes r)) = false /\
    elems (n_val (nd nodes r)) = [] /\ n_edges (nd nodes r) = ws.
  Proof.
    unfold op_node. fold (nd nodes r). destruct (_ && _) eqn:E; [|discriminate]. intro H. injection H as <-.
    apply andb_true_iff in E as [E Hel]. apply andb_true_iff in E as [E Hinv]. apply andb_true_iff in E as [Hv Ho].
    apply Nat.ltb_lt in Hv. apply negb_true_iff in Hinv. repeat split; auto.
    - destruct (n_op (nd nodes r)), o; try discriminate; reflexivity.
    - destruct (elems (n_val (nd nodes r))); [reflexivity | discriminate].
  Qed.

  Lemma union_sol r ws : op_node nodes OpUnion r = Some ws -> forall a, sol r a <-> exists w, In w ws /\ sol w a.
  Proof.
    intros H a. destruct (op_node_spec _ _ _ H) as (Hv & Ho & Hinv & Hel & Hed).
    pose proof (stable_is_solution nodes sol Hwf Hs r a Hv) as He. unfold eqn_holds in He. rewrite Ho, Hed in He.
    rewrite He. unfold den. rewrite Hinv, Hel. split; [intros [[]|H1]; exact H1 | intro H1; now right].
  Qed.

  Lemma inter_sol r ws : op_node nodes OpIntersection r = Some ws -> forall a, sol r a <-> forall w, In w ws -> sol w a.
  Proof.
    intros H a. destruct (op_node_spec _ _ _ H) as (Hv & Ho & Hinv & Hel & Hed).
    pose proof (stable_is_solution nodes sol Hwf Hs r a Hv) as He. unfold eqn_holds in He. rewrite Ho, Hed in He. exact He.
  Qed.

  Lemma compl_sol r v : op_node nodes OpComplement r = Some [v] -> forall a, sol r a <-> ~ sol v a.
  Proof.
    intros H a. destruct (op_node_spec _ _ _ H) as (Hv & Ho & Hinv & Hel & Hed).
    pose proof (stable_is_solution nodes sol Hwf Hs r a Hv) as He. unfold eqn_holds in He. rewrite Ho, Hed in He.
    rewrite He. split; [intros (w & Hw & Hn); injection Hw as <-; exact Hn | intro Hn; exists v; auto].
  Qed.

  Lemma proxy_sol p r : is_proxy nodes p = Some r -> forall a, sol p a <-> sol r a.
  Proof.
    unfold is_proxy. destruct (union_node nodes p []) eqn:Eu; [|discriminate]. fold (nd nodes p).
    destruct (n_edges (nd nodes p)) as [|w [|? ?]] eqn:Eed; try discriminate. intro H. injection H as <-. intro a.
    destruct (union_node_spec _ _ _ Eu) as (Hv & Ho & Hinv & Hel).
    pose proof (stable_is_solution nodes sol Hwf Hs p a Hv) as He. unfold eqn_holds in He. rewrite Ho, Eed in He.
    rewrite He. unfold den. rewrite Hinv, Hel. split.
    - intros [[]|(w' & [<-|[]] & H1)]. exact H1.
    - intro H1. right. exists w. split; [now left | exact H1].
  Qed.

  Theorem tree_sem : forall t p, tree_ok nodes keys t p = true -> forall a, sol p a <-> set_den T R t a.
  Proof.
    induction t using tset_ind2; intros p Hok a; rewrite tree_ok_eq in Hok;
      destruct (is_proxy nodes p) as [r|] eqn:Ep; try discriminate; rewrite (proxy_sol p r Ep a); cbn [set_den].
    - apply andb_true_iff in Hok as [Hop Hk]. apply andb_true_iff in Hop as [H0 H4]. apply Z.leb_le in H0, H4.
      destruct (find_key op s keys) as [v|] eqn:Ek; [|discriminate]. apply Nat.eqb_eq in Hk. subst v.
      apply (Hleaf op s r); [lia | exact Ek].
    - destruct (op_node nodes OpUnion r) as [ws|] eqn:Eo; [|discriminate]. rewrite (union_sol r ws Eo a). clear Eo Ep.
      revert ws Hok. induction H as [|x l Hx Hl IH]; intros [|w ws] Hok; try discriminate.
      + split; [intros (w & [] & _) | intros []].
      + apply andb_true_iff in Hok as [H1 H2]. specialize (IH ws H2). rewrite <- IH, <- (Hx w H1 a). split.
        * intros (w' & [<-|Hw] & Hsw); [now left | right; now exists w'].
        * intros [Hsw | (w' & Hw & Hsw)]; [exists w; split; [now left | exact Hsw] | exists w'; split; [now right | exact Hsw]].
    - destruct (op_node nodes OpIntersection r) as [ws|] eqn:Eo; [|discriminate]. rewrite (inter_sol r ws Eo a). clear Eo Ep.
      revert ws Hok. induction H as [|x l Hx Hl IH]; intros [|w ws] Hok; try discriminate.
      + split; [intros _; exact I | intros _ w []].
      + apply andb_true_iff in Hok as [H1 H2]. specialize (IH ws H2). rewrite <- IH, <- (Hx w H1 a). split.
        * intro Hall. split; [apply Hall; now left | intros w' Hw; apply Hall; now right].
        * intros [Hsw Hall] w' [<-|Hw]; [exact Hsw | now apply Hall].
    - destruct (op_node nodes OpComplement r) as [[|v [|? ?]]|] eqn:Eo; try discriminate.
      rewrite (compl_sol r v Eo a), (IHt v Hok a). tauto.
  Qed.
End Tree.

(* ---------- from the boolean check to the hypotheses ---------- *)
Lemma split_at {A} (d : A) : forall (l : list A) n, (n < length l)%nat -> l = firstn n l ++ nth n l d :: skipn (S n) l.
Proof.
  induction l as [|x l IH]; intros n Hn; [cbn in Hn; lia|]. destruct n as [|n]; [reflexivity|].
  cbn [firstn nth skipn app]. f_equal. apply IH. cbn in Hn. lia.
Qed.

Lemma split_len {A} (d : A) (pre : list A) s post :
  nth (length pre) (pre ++ s :: post) d = s /\ firstn (length pre) (pre ++ s :: post) = pre /\
  skipn (S (length pre)) (pre ++ s :: post) = post /\ (length pre < length (pre ++ s :: post))%nat.
Proof.
  induction pre as [|x pre IH]; cbn [length app nth firstn skipn].
  - repeat split. lia.
  - destruct IH as (H1 & H2 & H3 & H4). repeat split; auto. now f_equal. lia.
Qed.

Lemma usages_spec rules s r pos :
  In (r, pos) (usages rules s) <-> In r rules /\ (pos < length (o_rhs r))%nat /\ nth pos (o_rhs r) (-1) = s.
Proof.
  unfold usages. rewrite in_flat_map. split.
  - intros (r' & Hr & Hm). apply in_map_iff in Hm as (p & He & Hp). injection He as -> ->.
    apply filter_In in Hp as [Hp He]. apply in_seq in Hp. apply Z.eqb_eq in He. repeat split; auto. lia.
  - intros (Hr & Hp & He). exists r. split; [exact Hr|]. apply in_map. apply filter_In. split; [apply in_seq; lia | now apply Z.eqb_eq].
Qed.

Lemma ctxs_follow rules s X post :
  In (X, post) (ctxs 4 rules s) <-> exists pre, In (X, pre ++ s :: post) (prules_of rules).
Proof.
  unfold ctxs. cbn [Z.eqb Pos.eqb]. rewrite in_map_iff. split.
  - intros ([r pos] & He & Hu). injection He as <- <-. apply usages_spec in Hu as (Hr & Hp & Hn).
    exists (firstn pos (o_rhs r)). unfold prules_of. apply in_map_iff. exists r. split; [|exact Hr].
    f_equal. rewrite <- Hn. now apply split_at.
  - intros (pre & Hin). unfold prules_of in Hin. apply in_map_iff in Hin as (r & He & Hr). injection He as <- Hrhs.
    destruct (split_len (-1) pre s post) as (H1 & H2 & H3 & H4).
    exists (r, length pre). split; [now rewrite Hrhs, H3|]. apply usages_spec. rewrite Hrhs. auto.
Qed.

Lemma ctxs_precede rules s X post :
  In (X, post) (ctxs 3 rules s) <-> exists pre, In (X, pre ++ s :: post) (rev_rules (prules_of rules)).
Proof.
  unfold ctxs. cbn [Z.eqb Pos.eqb]. rewrite in_map_iff. split.
  - intros ([r pos] & He & Hu). injection He as <- <-. apply usages_spec in Hu as (Hr & Hp & Hn).
    exists (rev (skipn (S pos) (o_rhs r))). apply in_rev_rules. rewrite rev_flip.
    unfold prules_of. apply in_map_iff. exists r. split; [|exact Hr].
    f_equal. rewrite <- Hn. now apply split_at.
  - intros (pre & Hin). apply in_rev_rules in Hin. rewrite rev_app_distr in Hin. cbn [rev] in Hin. rewrite <- app_assoc in Hin.
    cbn [app] in Hin. unfold prules_of in Hin. apply in_map_iff in Hin as (r & He & Hr). injection He as <- Hrhs.
    destruct (split_len (-1) (rev post) s (rev pre)) as (H1 & H2 & H3 & H4).
    exists (r, length (rev post)). split; [now rewrite Hrhs, H2, rev_involutive|]. apply usages_spec. rewrite Hrhs. auto.
Qed.

Section LiftAll.
  Variable T : Z.
  Variable nl : list Z.
  Variable rules : list orule.
  Variable nodes : list cnode.
  Variable keys : list (Z * Z * nat).
  Hypothesis Hok : gen_all_keys_ok T nl rules nodes keys = true.
  Let P := prules_of rules.

  Lemma all_parts : gen_keys_ok T nl rules nodes keys = true /\
    (forall k, In k keys -> any_key_ok T rules nodes keys k = true) /\
    (forall k, In k keys -> fol_key_ok nl rules nodes keys k = true).
  Proof.
    unfold gen_all_keys_ok in Hok. apply andb_true_iff in Hok as [H12 H3]. apply andb_true_iff in H12 as [H1 H2].
    rewrite forallb_forall in H2, H3. auto.
  Qed.

  Let Hg : gen_keys_ok T nl rules nodes keys = true := proj1 all_parts.

  Lemma P_lhs : forall r, In r P -> T <= fst r.
  Proof.
    destruct (ok_parts T nl rules nodes keys Hg) as (H1 & _). intros [X rhs] Hin.
    apply in_P in Hin as (r & Hr & -> & _). cbn. now apply H1.
  Qed.

  Lemma P_nl : forall X rhs y, In (X, rhs) P -> In y rhs -> (mem y nl = true <-> nullable_in P y).
  Proof.
    destruct (ok_parts T nl rules nodes keys Hg) as (_ & H2 & _). intros X rhs y Hin Hy.
    apply in_P in Hin as (r & Hr & _ & ->). now apply (H2 r).
  Qed.

  Lemma Prev_nl : forall X rhs y, In (X, rhs) (rev_rules P) -> In y rhs -> (mem y nl = true <-> nullable_in (rev_rules P) y).
  Proof.
    intros X rhs y Hin Hy. apply in_rev_rules in Hin. rewrite nullable_rev. apply (P_nl X (rev rhs) y Hin). now apply in_rev in Hy.
  Qed.

  Lemma any_key_hyp s v : find_key 0 s keys = Some v ->
    (v < length nodes)%nat /\ n_op (nd nodes v) = OpUnion /\ inverse (n_val (nd nodes v)) = false /\
    ((s < T /\ 0 <= s /\ elems (n_val (nd nodes v)) = [s] /\ n_edges (nd nodes v) = []) \/
     (T <= s /\ elems (n_val (nd nodes v)) = [] /\
      concat_opt (map (all_keys keys 0) (rhss_of P s)) = Some (n_edges (nd nodes v)))).
  Proof.
    intro Hk. pose proof all_parts as (Hx1 & H2 & Hx3). specialize (H2 _ (find_key_in _ _ _ _ Hk)). unfold any_key_ok in H2.
    cbn [Z.eqb] in H2. fold (nd nodes v) in H2. destruct (s <? T) eqn:Es.
    - apply Z.ltb_lt in Es. apply andb_true_iff in H2 as [H2 He]. apply andb_true_iff in H2 as [H0 Hu]. apply Z.leb_le in H0.
      destruct (union_node_spec _ _ _ Hu) as (Hv & Ho & Hinv & Hel). repeat split; auto. left. repeat split; auto.
      destruct (n_edges (nd nodes v)); [reflexivity | discriminate].
    - apply Z.ltb_ge in Es. apply andb_true_iff in H2 as [Hu He].
      destruct (union_node_spec _ _ _ Hu) as (Hv & Ho & Hinv & Hel). repeat split; auto. right. repeat split; auto.
      rewrite rhss_of_prules in He. fold P in He. destruct (concat_opt _) as [E|]; [|discriminate].
      apply list_eqb_nat_true in He. now rewrite He.
  Qed.

  Lemma fol_key_hyp op (Hop : op = 3 \/ op = 4) s v : find_key op s keys = Some v ->
    (v < length nodes)%nat /\ n_op (nd nodes v) = OpUnion /\ inverse (n_val (nd nodes v)) = false /\
    elems (n_val (nd nodes v)) = [] /\
    concat_opt (map (ctx_edges keys nl (if op =? 3 then 2 else 1) op) (ctxs op rules s)) = Some (n_edges (nd nodes v)).
  Proof.
    intro Hk. pose proof all_parts as (Hx1 & Hx2 & H3). specialize (H3 _ (find_key_in _ _ _ _ Hk)). unfold fol_key_ok in H3.
    assert (Hb : (op =? 3) || (op =? 4) = true) by (destruct Hop as [-> | ->]; reflexivity). rewrite Hb in H3.
    fold (nd nodes v) in H3. apply andb_true_iff in H3 as [Hu He].
    destruct (union_node_spec _ _ _ Hu) as (Hv & Ho & Hinv & Hel). repeat split; auto.
    destruct (concat_opt _) as [E|]; [|discriminate]. apply list_eqb_nat_true in He. now rewrite He.
  Qed.

  Variable sol : valuation.
  Hypothesis Hs : stable_solution nodes sol.

  Theorem gen_any_exact s v : find_key 0 s keys = Some v -> forall a, sol v a <-> any_in T P s a.
  Proof.
    intros Hk a. destruct (any_key_hyp s v Hk) as (Hv & _). rewrite (Hs v a Hv). split.
    - intro H. exact (any_sound T P nodes keys any_key_hyp sol v a H s Hk).
    - intro H. exact (any_complete T P nodes keys P_lhs any_key_hyp sol s a H v Hk).
  Qed.

  Lemma first_lfp y w : find_key 1 y keys = Some w -> forall a, lfp nodes sol w a <-> first_in T P y a.
  Proof.
    intros Hk a. destruct (key_hyp T nl rules nodes keys Hg 1 (or_introl eq_refl) y w Hk) as (Hv & _).
    rewrite <- (Hs w a Hv). exact (gen_first_exact T nl rules nodes keys Hg sol Hs y w Hk a).
  Qed.

  Lemma last_lfp y w : find_key 2 y keys = Some w -> forall a, lfp nodes sol w a <-> first_in T (rev_rules P) y a.
  Proof.
    intros Hk a. destruct (key_hyp T nl rules nodes keys Hg 2 (or_intror eq_refl) y w Hk) as (Hv & _).
    rewrite <- (Hs w a Hv), first_rev. exact (gen_last_exact T nl rules nodes keys Hg sol Hs y w Hk a).
  Qed.

  Theorem gen_follow_exact s v : find_key 4 s keys = Some v -> forall a, sol v a <-> follow_in T P s a.
  Proof.
    intros Hk a. destruct (fol_key_hyp 4 (or_intror eq_refl) s v Hk) as (Hv & _). rewrite (Hs v a Hv).
    pose proof (fun s v H => fol_key_hyp 4 (or_intror eq_refl) s v H) as Hkey. cbn [Z.eqb Pos.eqb] in Hkey.
    split.
    - intro H. exact (fol_sound T nl P nodes keys 1 4 (ctxs 4 rules) sol (ctxs_follow rules) P_nl first_lfp Hkey v a H s Hk).
    - intro H. exact (fol_complete T nl P nodes keys 1 4 (ctxs 4 rules) sol (ctxs_follow rules) P_nl first_lfp Hkey s a H v Hk).
  Qed.

  Theorem gen_precede_exact s v : find_key 3 s keys = Some v -> forall a, sol v a <-> precede_in T P s a.
  Proof.
    intros Hk a. destruct (fol_key_hyp 3 (or_introl eq_refl) s v Hk) as (Hv & _). rewrite (Hs v a Hv), <- follow_rev.
    pose proof (fun s v H => fol_key_hyp 3 (or_introl eq_refl) s v H) as Hkey. cbn [Z.eqb Pos.eqb] in Hkey.
    split.
    - intro H. exact (fol_sound T nl (rev_rules P) nodes keys 2 3 (ctxs 3 rules) sol (ctxs_precede rules) Prev_nl last_lfp Hkey v a H s Hk).
    - intro H. exact (fol_complete T nl (rev_rules P) nodes keys 2 3 (ctxs 3 rules) sol (ctxs_precede rules) Prev_nl last_lfp Hkey s a H v Hk).
  Qed.

  (* all five kinds at once *)
  Theorem gen_leaf_exact op s v : 0 <= op <= 4 -> find_key op s keys = Some v -> forall a, sol v a <-> op_in T P op s a.
  Proof.
    intros Hop Hk a. unfold op_in.
    assert (Hc : op = 0 \/ op = 1 \/ op = 2 \/ op = 3 \/ op = 4) by lia.
    destruct Hc as [-> | [-> | [-> | [-> | ->]]]]; cbn [Z.eqb Pos.eqb].
    - now apply gen_any_exact.
    - exact (gen_first_exact T nl rules nodes keys Hg sol Hs s v Hk a).
    - exact (gen_last_exact T nl rules nodes keys Hg sol Hs s v Hk a).
    - now apply gen_precede_exact.
    - now apply gen_follow_exact.
  Qed.
End LiftAll.

(* ---------- finite / co-finite: which closed expressions stay inside [0, T) ---------- *)
Fixpoint cofin (t : tset) : bool :=
  match t with
  | TSym _ _ => false
  | TUnion l => existsb cofin l
  | TInter l => forallb cofin l
  | TCompl _ x => negb (cofin x)
  | TNamed _ => false
  end.

Lemma precede_in_range T R s a : precede_in T R s a -> 0 <= a < T.
Proof. intro H. apply follow_rev in H. eapply follow_in_range; eauto. Qed.

Lemma last_in_range T R s a : last_in T R s a -> 0 <= a < T.
Proof. intro H. apply first_rev in H. eapply first_in_range; eauto. Qed.

Lemma op_in_range T R op s a : op_in T R op s a -> 0 <= a < T.
Proof.
  unfold op_in. destruct (op =? 0); [apply any_in_range|]. destruct (op =? 1); [apply first_in_range|].
  destruct (op =? 2); [apply last_in_range|]. destruct (op =? 3); [apply precede_in_range|].
  destruct (op =? 4); [apply follow_in_range | tauto].
Qed.

Lemma cofin_spec T R : forall t,
  (cofin t = false -> forall a, set_den T R t a -> 0 <= a < T) /\
  (cofin t = true -> forall a, ~ 0 <= a < T -> set_den T R t a).
Proof.
  induction t using tset_ind2; cbn [cofin set_den].
  - split; [intros _ a; apply op_in_range | discriminate].
  - induction H as [|x l [Hx0 Hx1] Hl [IH0 IH1]]; cbn [existsb]; [split; [intros _ a [] | discriminate]|]. split.
    + intro Hc. apply orb_false_iff in Hc as [Hc1 Hc2]. intros a [Ha|Ha]; [now apply (Hx0 Hc1) | now apply (IH0 Hc2)].
    + intro Hc. apply orb_true_iff in Hc as [Hc|Hc]; intros a Ha; [left; now apply Hx1 | right; now apply IH1].
  - induction H as [|x l [Hx0 Hx1] Hl [IH0 IH1]]; cbn [forallb]; [split; [discriminate | intros _ a _; exact I]|]. split.
    + intro Hc. apply andb_false_iff in Hc as [Hc|Hc]; intros a [Ha1 Ha2]; [now apply (Hx0 Hc) | now apply (IH0 Hc)].
    + intro Hc. apply andb_true_iff in Hc as [Hc1 Hc2]. intros a Ha. split; [now apply Hx1 | now apply IH1].
  - destruct IHt as [I0 I1]. split.
    + intro Hc. apply negb_false_iff in Hc. intros a Hn. destruct (Z_le_dec 0 a); [destruct (Z_lt_dec a T); [lia|]|];
        exfalso; apply Hn, (I1 Hc); lia.
    + intro Hc. apply negb_true_iff in Hc. intros a Ha Hd. apply Ha. now apply (I0 Hc).
  - split; [intros _ a [] | discriminate].
Qed.

Lemma list_bound (l : list Z) : exists m, forall x, In x l -> x < m.
Proof.
  induction l as [|y l [m Hm]]; [exists 0; intros x [] |]. exists (Z.max m (y + 1)). intros x [<-|Hx]; [lia|].
  specialize (Hm x Hx). lia.
Qed.

Lemma fresh_out T (l : list Z) : exists b, ~ 0 <= b < T /\ ~ In b l.
Proof.
  destruct (list_bound l) as [m Hm]. exists (Z.max m T). split; [lia|]. intro Hin. specialize (Hm _ Hin). lia.
Qed.

(* ---------- through the model of ResolveSets ---------- *)
Theorem sets_exact_all T vals sets inputs ts : sets <> [] ->
  sets_certb T vals sets inputs = true -> sets_gen_all_ok T vals sets inputs = true ->
  resolve_sets T vals sets inputs = SetsOk ts ->
  forall i t, nth_error sets i = Some t -> tree_scope t = true ->
  forall a, In a (nth i ts []) <-> 0 <= a < T /\ set_den T (prules_of (rules_of T vals sets inputs)) t a.
Proof.
  intros Hne Hc Hg Hr i t Hi Hsc a.
  destruct (resolve_sets_ok_least T vals sets inputs ts Hne Hc Hr) as (vals_of & Hst & _ & _ & _ & Hts).
  unfold sets_certb in Hc. apply closure_certb_sound in Hc as [Hwf _].
  unfold sets_gen_all_ok in Hg. destruct (resolve_est T vals sets inputs) as [result st] eqn:Ee. cbn [fst snd] in *.
  apply andb_true_iff in Hg as [Hg Htop]. apply andb_true_iff in Hg as [Hk Hlen]. apply Nat.eqb_eq in Hlen.
  assert (Hlt : (i < length result)%nat) by (rewrite Hlen; apply nth_error_Some; congruence).
  rewrite forallb_forall in Htop. specialize (Htop _ (combine_nth_in O sets result i _ Hi Hlt)). cbn beta iota in Htop.
  rewrite Hsc in Htop. set (p := nth i result O) in *.
  set (sol := fun v x => den (vals_of v) x) in *. set (P := prules_of (rules_of T vals sets inputs)).
  pose proof (tree_sem T P (e_nodes st) (e_keys st) sol Hwf Hst
                (gen_leaf_exact T _ _ _ _ Hk sol Hst) t p Htop) as Htree.
  rewrite (Hts i a Hlt). unfold in_terms. fold p. change (den (vals_of p) a) with (sol p a). rewrite (Htree a).
  split; [|intros [Hra Hd]; split; [exact Hd | intros _; exact Hra]].
  intros [Hd Hra]. split; [|exact Hd]. destruct (inverse (vals_of p)) eqn:Einv; [now apply Hra|].
  destruct (cofin_spec T P t) as [C0 C1]. destruct (cofin t) eqn:Ecf; [|now apply (C0 eq_refl a)].
  exfalso. destruct (fresh_out T (elems (vals_of p))) as (b & Hb & Hnb). apply Hnb.
  pose proof (proj2 (Htree b) (C1 eq_refl b Hb)) as Hsb. unfold sol, den in Hsb. now rewrite Einv in Hsb.
Qed.

(* the single kinds, for the record *)
Corollary sets_exact_kind T vals sets inputs ts : sets <> [] ->
  sets_certb T vals sets inputs = true -> sets_gen_all_ok T vals sets inputs = true ->
  resolve_sets T vals sets inputs = SetsOk ts ->
  forall i op s, nth_error sets i = Some (TSym op s) -> 0 <= op <= 4 ->
  forall a, In a (nth i ts []) <-> set_den T (prules_of (rules_of T vals sets inputs)) (TSym op s) a.
Proof.
  intros Hne Hc Hg Hr i op s Hi Hop a.
  assert (Hsc : tree_scope (TSym op s) = true) by (cbn [tree_scope]; apply andb_true_iff; split; apply Z.leb_le; lia).
  rewrite (sets_exact_all T vals sets inputs ts Hne Hc Hg Hr i _ Hi Hsc a). split; [tauto|].
  intro H. split; [|exact H]. cbn [set_den] in H. eapply op_in_range; eauto.
Qed.

(* the extended check implies the old one *)
Lemma sets_gen_all_ok_keys T vals sets inputs : sets_gen_all_ok T vals sets inputs = true ->
  gen_all_keys_ok T (nullable_syms T vals) (rules_of T vals sets inputs)
    (e_nodes (snd (resolve_est T vals sets inputs))) (e_keys (snd (resolve_est T vals sets inputs))) = true.
Proof.
  unfold sets_gen_all_ok. destruct (resolve_est T vals sets inputs) as [result st]. cbn [snd]. intro H.
  apply andb_true_iff in H as [H _]. now apply andb_true_iff in H as [H _].
Qed.

(* the generated system IS the declarative one: key nodes and expression trees *)
Theorem gen_system_exact T nl rules nodes keys sol :
  gen_all_keys_ok T nl rules nodes keys = true -> nodes_wf nodes -> stable_solution nodes sol ->
  (forall op s v, 0 <= op <= 4 -> find_key op s keys = Some v ->
     forall a, sol v a <-> op_in T (prules_of rules) op s a) /\
  (forall t p, tree_ok nodes keys t p = true -> forall a, sol p a <-> set_den T (prules_of rules) t a).
Proof.
  intros Hk Hwf Hs. split.
  - exact (gen_leaf_exact T nl rules nodes keys Hk sol Hs).
  - exact (tree_sem T (prules_of rules) nodes keys sol Hwf Hs (gen_leaf_exact T nl rules nodes keys Hk sol Hs)).
Qed.

Corollary sets_exact_any T vals sets inputs ts : sets <> [] ->
  sets_certb T vals sets inputs = true -> sets_gen_all_ok T vals sets inputs = true ->
  resolve_sets T vals sets inputs = SetsOk ts ->
  forall i s, nth_error sets i = Some (TSym 0 s) ->
  forall a, In a (nth i ts []) <-> any_in T (prules_of (rules_of T vals sets inputs)) s a.
Proof. intros Hne Hc Hg Hr i s Hi a. apply (sets_exact_kind T vals sets inputs ts Hne Hc Hg Hr i 0 s Hi). lia. Qed.

Corollary sets_exact_follow_precede T vals sets inputs ts : sets <> [] ->
  sets_certb T vals sets inputs = true -> sets_gen_all_ok T vals sets inputs = true ->
  resolve_sets T vals sets inputs = SetsOk ts ->
  forall i s,
    (nth_error sets i = Some (TSym 4 s) ->
       forall a, In a (nth i ts []) <-> follow_in T (prules_of (rules_of T vals sets inputs)) s a) /\
    (nth_error sets i = Some (TSym 3 s) ->
       forall a, In a (nth i ts []) <-> precede_in T (prules_of (rules_of T vals sets inputs)) s a).
Proof.
  intros Hne Hc Hg Hr i s. split; intros Hi a.
  - apply (sets_exact_kind T vals sets inputs ts Hne Hc Hg Hr i 4 s Hi). lia.
  - apply (sets_exact_kind T vals sets inputs ts Hne Hc Hg Hr i 3 s Hi). lia.
Qed.
