(* Declarative reading of token-set expressions and an executable naive specification (oracle, P3):
   - inductive definitions nullable_in / first_in / last_in / any_in / follow_in / precede_in over flat rules;
   - Kleene tables for them with a run-time stability check (proved exact in SetsSpec_proofs.v);
   - the full system (set nonterminals inside rules, named sets referring to each other, union,
     intersection, complement) generated eagerly as an equation system for the naive stratified solver
     ClosureSpec.spec_solve / spec_errors.  Independent of the demand-driven queue of ResolveSets and of
     the Tarjan-based closure.  Executable and Prop-valued definitions only. *)
From Coq Require Import List ZArith Bool Arith.
From TM Require Import Util.IntSet Util.Graph Util.Closure Util.ClosureSpec Gram.Cfg Syn.Expr Syn.Sets.
Import ListNotations.
Local Open Scope Z_scope.

(* ---------- declarative definitions over flat rules (lhs, rhs) ---------- *)
Definition prule := (Z * list Z)%type.

Section Decl.
  Variable T : Z.
  Variable rules : list prule.

  Inductive nullable_in : Z -> Prop :=
  | nu_rule X rhs : In (X, rhs) rules -> (forall s, In s rhs -> nullable_in s) -> nullable_in X.

  Definition all_nullable (l : list Z) : Prop := forall s, In s l -> nullable_in s.

  (* a is a first terminal of symbol s *)
  Inductive first_in : Z -> Z -> Prop :=
  | fi_term a : 0 <= a < T -> first_in a a
  | fi_rule X pre y post a : In (X, pre ++ y :: post) rules -> all_nullable pre -> first_in y a -> first_in X a.

  Inductive last_in : Z -> Z -> Prop :=
  | la_term a : 0 <= a < T -> last_in a a
  | la_rule X pre y post a : In (X, pre ++ y :: post) rules -> all_nullable post -> last_in y a -> last_in X a.

  Inductive any_in : Z -> Z -> Prop :=
  | an_term a : 0 <= a < T -> any_in a a
  | an_rule X pre y post a : In (X, pre ++ y :: post) rules -> any_in y a -> any_in X a.

  Inductive follow_in : Z -> Z -> Prop :=
  | fo_next X pre s mid y post a : In (X, pre ++ s :: mid ++ y :: post) rules -> all_nullable mid -> first_in y a -> follow_in s a
  | fo_end X pre s post a : In (X, pre ++ s :: post) rules -> all_nullable post -> follow_in X a -> follow_in s a.

  Inductive precede_in : Z -> Z -> Prop :=
  | pr_prev X pre y mid s post a : In (X, pre ++ y :: mid ++ s :: post) rules -> all_nullable mid -> last_in y a -> precede_in s a
  | pr_start X pre s post a : In (X, pre ++ s :: post) rules -> all_nullable pre -> precede_in X a -> precede_in s a.
End Decl.

(* ---------- executable tables with a stability check ---------- *)
Definition table := list (Z * list Z).      (* symbol -> sorted terminals *)
Fixpoint tget (t : table) (x : Z) : list Z :=
  match t with [] => [] | (y, l) :: r => if y =? x then l else tget r x end.
Fixpoint tadd (t : table) (x : Z) (l : list Z) : table :=
  match t with
  | [] => [(x, union [] l)]
  | (y, l0) :: r => if y =? x then (y, union l0 l) :: r else (y, l0) :: tadd r x l
  end.
Definition table_size (t : table) : nat := fold_left (fun n e => (n + length (snd e))%nat) t (length t).

Definition spec_nullable_step (rules : list prule) (nl : list Z) : list Z :=
  fold_left (fun nl '(x, rhs) => if forallb (fun s => mem s nl) rhs then ins x nl else nl) rules nl.

(* Some nl: the iteration stabilised (then nl is exactly nullable_in) *)
Definition spec_nullable (rules : list prule) : option (list Z) :=
  let nl := iterate (S (length rules)) (spec_nullable_step rules) [] in
  if zl_eqb (spec_nullable_step rules nl) nl then Some nl else None.

(* value of [op] on a symbol given the table for nonterminals *)
Definition sym_val (T : Z) (t : table) (s : Z) : list Z := if (0 <=? s) && (s <? T) then [s] else tget t s.

(* first-like contribution of a symbol string: symbols up to the first non-nullable one *)
Fixpoint prefix_vals (T : Z) (nl : list Z) (t : table) (syms : list Z) : list Z :=
  match syms with
  | [] => []
  | s :: rest => union (sym_val T t s) (if mem s nl then prefix_vals T nl t rest else [])
  end.

(* one Kleene step: every rule adds what the table of the previous round gives *)
Definition step_with (contrib : table -> prule -> list Z) (rules : list prule) (t : table) : table :=
  fold_left (fun acc r => tadd acc (fst r) (contrib t r)) rules t.

Definition first_contrib (T : Z) (nl : list Z) (t : table) (r : prule) : list Z := prefix_vals T nl t (snd r).
Definition last_contrib (T : Z) (nl : list Z) (t : table) (r : prule) : list Z := prefix_vals T nl t (rev (snd r)).
Definition any_contrib (T : Z) (t : table) (r : prule) : list Z :=
  fold_left (fun acc s => union acc (sym_val T t s)) (snd r) [].

Definition first_step (T : Z) (nl : list Z) (rules : list prule) : table -> table := step_with (first_contrib T nl) rules.
Definition last_step (T : Z) (nl : list Z) (rules : list prule) : table -> table := step_with (last_contrib T nl) rules.
Definition any_step (T : Z) (rules : list prule) : table -> table := step_with (any_contrib T) rules.

Fixpoint table_eqb (a b : table) : bool :=
  match a, b with
  | [], [] => true
  | (x, l) :: a', (y, k) :: b' => (x =? y) && zl_eqb l k && table_eqb a' b'
  | _, _ => false
  end.

Definition fix_table (fuel : nat) (step : table -> table) : option table :=
  let t := iterate fuel step [] in
  if table_eqb (step t) t then Some t else None.

Definition spec_first (T : Z) (nl : list Z) (rules : list prule) : option table :=
  fix_table (S (length rules * Z.to_nat T + length rules)) (first_step T nl rules).
Definition spec_last (T : Z) (nl : list Z) (rules : list prule) : option table :=
  fix_table (S (length rules * Z.to_nat T + length rules)) (last_step T nl rules).
Definition spec_any (T : Z) (rules : list prule) : option table :=
  fix_table (S (length rules * Z.to_nat T + length rules)) (any_step T rules).

(* follow: for every occurrence of s in a rule: first of what comes next; the lhs' follow when the rest is nullable *)
Definition all_null (nl : list Z) (l : list Z) : bool := forallb (fun s => mem s nl) l.

Fixpoint follow_contrib (T : Z) (nl : list Z) (fst_t : table) (t : table) (x : Z) (rhs : list Z) (acc : table) : table :=
  match rhs with
  | [] => acc
  | s :: rest =>
      let acc := tadd acc s (prefix_vals T nl fst_t rest) in
      let acc := if all_null nl rest then tadd acc s (tget t x) else acc in
      follow_contrib T nl fst_t t x rest acc
  end.
Definition follow_step (T : Z) (nl : list Z) (fst_t : table) (rules : list prule) (t : table) : table :=
  fold_left (fun acc '(x, rhs) => follow_contrib T nl fst_t t x rhs acc) rules t.
Definition spec_follow (T : Z) (nl : list Z) (fst_t : table) (rules : list prule) : option table :=
  fix_table (S ((length rules + Z.to_nat T + 2) * (Z.to_nat T + 1) * 4)) (follow_step T nl fst_t rules).
Definition precede_step (T : Z) (nl : list Z) (lst_t : table) (rules : list prule) (t : table) : table :=
  fold_left (fun acc '(x, rhs) => follow_contrib T nl lst_t t x (rev rhs) acc) rules t.
Definition spec_precede (T : Z) (nl : list Z) (lst_t : table) (rules : list prule) : option table :=
  fix_table (S ((length rules + Z.to_nat T + 2) * (Z.to_nat T + 1) * 4)) (precede_step T nl lst_t rules).

(* ---------- reachability from the first eoi input (part of the statement) ---------- *)
Definition nt_syms (T : Z) (sets : list tset) (v : expr) : list Z :=
  match v with
  | EChoice alts => flat_map accept alts
  | ESet i => fst (tset_syms 64 sets [i] (nth (Z.to_nat i) sets (TUnion [])))
  | ELookahead subs => la_syms subs
  | _ => []
  end.

Definition reach_step (T : Z) (vals : list expr) (sets : list tset) (r : list Z) : list Z :=
  fold_left (fun r x => fold_left (fun r s => if T <=? s then ins s r else r)
                                  (nt_syms T sets (nth (Z.to_nat (x - T)) vals (EChoice []))) r) r r.

Definition spec_reachable (T : Z) (vals : list expr) (sets : list tset) (inputs : list input) : list Z :=
  match first_eoi_input inputs with
  | None => []
  | Some nt => iterate (S (length vals)) (reach_step T vals sets) [T + nt]
  end.

(* reachable flat rules; a set nonterminal contributes no plain rule (its terminals come from its set),
   a lookahead nonterminal the empty rule *)
Definition spec_rules (T : Z) (vals : list expr) (reach : list Z) : list prule :=
  flat_map (fun '(i, v) =>
      let x := T + Z.of_nat i in
      if mem x reach then
        match v with
        | EChoice alts => map (fun a => (x, accept a)) alts
        | ELookahead _ => [(x, [])]
        | _ => []
        end
      else []) (List.combine (seq 0 (length vals)) vals).

Definition set_rules (T : Z) (vals : list expr) (reach : list Z) : list (Z * Z) :=   (* (nonterminal, set index) *)
  flat_map (fun '(i, v) =>
      let x := T + Z.of_nat i in
      if mem x reach then match v with ESet k => [(x, k)] | _ => [] end else [])
    (List.combine (seq 0 (length vals)) vals).

(* ---------- the full system as equations for the naive solver ---------- *)
(* node (op, sym) = op * S + sym for op in 0..4, S = T + N; then one node per set-expression node *)
Record gst := mkG { g_nodes : list cnode; g_compl : list (nat * Z) }.

Definition gadd (st : gst) (o : cop) (edges : list nat) : nat * gst :=
  (length (g_nodes st), mkG (g_nodes st ++ [mkNode o edges (mkIntSet false [])]) (g_compl st)).

Definition key_node (S : Z) (op sym : Z) : nat := Z.to_nat (op * S + sym).

(* top-level set i lives at node [base + i] *)
Fixpoint gen_tset (fuel : nat) (S : Z) (base : nat) (st : gst) (t : tset) : nat * gst :=
  match fuel with
  | O => (O, st)
  | Datatypes.S f =>
    match t with
    | TSym op sym => (key_node S op sym, st)
    | TNamed i => ((base + Z.to_nat i)%nat, st)
    | TUnion l =>
        let '(vs, st) := fold_left (fun '(vs, st) x => let '(v, st) := gen_tset f S base st x in (vs ++ [v], st)) l ([], st) in
        gadd st OpUnion vs
    | TInter l =>
        let '(vs, st) := fold_left (fun '(vs, st) x => let '(v, st) := gen_tset f S base st x in (vs ++ [v], st)) l ([], st) in
        gadd st OpIntersection vs
    | TCompl id x =>
        let '(v, st) := gen_tset f S base st x in
        let '(r, st) := gadd st OpComplement [v] in
        (r, mkG (g_nodes st) (g_compl st ++ [(r, id)]))
    end
  end.

Definition positions_of (s : Z) (rhs : list Z) : list nat :=
  filter (fun p => nth p rhs (-1) =? s) (seq 0 (length rhs)).

(* nodes contributing to a first-like scan of a symbol string *)
Fixpoint prefix_nodes (S : Z) (nl : list Z) (op : Z) (syms : list Z) : list nat :=
  match syms with
  | [] => []
  | s :: rest => key_node S op s :: (if mem s nl then prefix_nodes S nl op rest else [])
  end.

Definition spec_system (T : Z) (vals : list expr) (sets : list tset) (inputs : list input) : gst * nat (* base *) :=
  let N := Z.of_nat (length vals) in
  let S := T + N in
  let reach := spec_reachable T vals sets inputs in
  let rules := spec_rules T vals reach in
  let srules := set_rules T vals reach in
  let nl := match spec_nullable rules with Some nl => nl | None => [] end in
  let base := Z.to_nat (5 * S) in
  let setnode k := (base + Z.to_nat k)%nat in
  let key_nodes :=
    flat_map (fun op =>
      map (fun sym =>
        let is_t := sym <? T in
        let own := if is_t && ((op =? 0) || (op =? 1) || (op =? 2)) then [sym] else [] in
        let defs := filter (fun r => fst r =? sym) rules in
        let from_sets := if (op =? 0) || (op =? 1) || (op =? 2)
                         then map (fun '(_, k) => setnode k) (filter (fun r => fst r =? sym) srules) else [] in
        let edges :=
          if op =? 0 then flat_map (fun r => map (key_node S 0) (snd r)) defs ++ from_sets
          else if op =? 1 then flat_map (fun r => prefix_nodes S nl 1 (snd r)) defs ++ from_sets
          else if op =? 2 then flat_map (fun r => prefix_nodes S nl 2 (rev (snd r))) defs ++ from_sets
          else if op =? 3 then
            flat_map (fun r => flat_map (fun p =>
                let before := rev (firstn p (snd r)) in
                prefix_nodes S nl 2 before ++ (if all_null nl before then [key_node S 3 (fst r)] else []))
              (positions_of sym (snd r))) rules
          else
            flat_map (fun r => flat_map (fun p =>
                let after := skipn (Datatypes.S p) (snd r) in
                prefix_nodes S nl 1 after ++ (if all_null nl after then [key_node S 4 (fst r)] else []))
              (positions_of sym (snd r))) rules in
        mkNode OpUnion edges (mkIntSet false own))
      (map Z.of_nat (seq 0 (Z.to_nat S)))) [0; 1; 2; 3; 4] in
  (* placeholders for the top-level sets, filled below *)
  let st := mkG (key_nodes ++ map (fun _ => mkNode OpUnion [] (mkIntSet false [])) sets) [] in
  let st := fold_left (fun st '(i, s) =>
      let '(v, st) := gen_tset 64 S base st s in
      mkG (upd (g_nodes st) (base + i) (mkNode OpUnion [v] (mkIntSet false []))) (g_compl st))
    (List.combine (seq 0 (length sets)) sets) st in
  (st, base).

Inductive spec_result := SpecOk (terms : list (list Z)) | SpecErr (ids : list Z).

Definition bits_to_terms (b : bits) : list Z :=
  map (fun i => Z.of_nat i) (filter (fun i => nth i b false) (seq 0 (length b))).

Definition spec_sets (T : Z) (vals : list expr) (sets : list tset) (inputs : list input) : spec_result :=
  let '(st, base) := spec_system T vals sets inputs in
  match spec_errors (g_nodes st) with
  | [] =>
      let sol := spec_solve (Z.to_nat T) (g_nodes st) in
      SpecOk (map (fun i => bits_to_terms (nth (base + i) sol [])) (seq 0 (length sets)))
  | errs => SpecErr (map (fun v => compl_id v (g_compl st)) errs)
  end.

(* set expressions of one kind [op sym] on a plain grammar, from the proved-exact tables *)
Definition plain_table (T : Z) (rules : list prule) (op : Z) : option table :=
  match spec_nullable rules with
  | None => None
  | Some nl =>
      if op =? 0 then spec_any T rules
      else if op =? 1 then spec_first T nl rules
      else if op =? 2 then spec_last T nl rules
      else if op =? 3 then match spec_last T nl rules with Some l => spec_precede T nl l rules | None => None end
      else match spec_first T nl rules with Some f => spec_follow T nl f rules | None => None end
  end.

(* ---------- closed set expressions over a plain grammar: declarative meaning and evaluation from the tables ---------- *)
(* no reference to a named set *)
Fixpoint closed_tset (t : tset) : bool :=
  match t with
  | TSym _ _ => true
  | TUnion l | TInter l => forallb closed_tset l
  | TCompl _ x => closed_tset x
  | TNamed _ => false
  end.

Section SetDen.
  Variable T : Z.
  Variable rules : list prule.

  Definition op_in (op s a : Z) : Prop :=
    if op =? 0 then any_in T rules s a else if op =? 1 then first_in T rules s a
    else if op =? 2 then last_in T rules s a else if op =? 3 then precede_in T rules s a
    else if op =? 4 then follow_in T rules s a else False.

  Fixpoint set_den (t : tset) (a : Z) : Prop :=
    match t with
    | TSym op s => op_in op s a
    | TUnion l => (fix any (l : list tset) : Prop := match l with [] => False | x :: r => set_den x a \/ any r end) l
    | TInter l => (fix all (l : list tset) : Prop := match l with [] => True | x :: r => set_den x a /\ all r end) l
    | TCompl _ x => ~ set_den x a
    | TNamed _ => False
    end.
End SetDen.

Record tables := mkTabs { tb_any : table; tb_first : table; tb_last : table; tb_precede : table; tb_follow : table }.

Definition all_tables (T : Z) (rules : list prule) : option tables :=
  match plain_table T rules 0, plain_table T rules 1, plain_table T rules 2, plain_table T rules 3, plain_table T rules 4 with
  | Some a, Some f, Some l, Some p, Some fo => Some (mkTabs a f l p fo)
  | _, _, _, _, _ => None
  end.

(* membership of terminal a in a closed set expression, from the tables *)
Fixpoint mem_set (T : Z) (tb : tables) (t : tset) (a : Z) : bool :=
  match t with
  | TSym op s =>
      if op =? 0 then mem a (sym_val T (tb_any tb) s) else if op =? 1 then mem a (sym_val T (tb_first tb) s)
      else if op =? 2 then mem a (sym_val T (tb_last tb) s) else if op =? 3 then mem a (tget (tb_precede tb) s)
      else if op =? 4 then mem a (tget (tb_follow tb) s) else false
  | TUnion l => existsb (fun x => mem_set T tb x a) l
  | TInter l => forallb (fun x => mem_set T tb x a) l
  | TCompl _ x => negb (mem_set T tb x a)
  | TNamed _ => false
  end.

Definition eval_set (T : Z) (tb : tables) (t : tset) : list Z :=
  filter (mem_set T tb t) (map Z.of_nat (seq 0 (Z.to_nat T))).
