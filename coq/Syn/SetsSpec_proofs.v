(* The executable tables of SetsSpec.v are exact: when the Kleene iteration has stabilised (checked at
   run time, result [Some _]) the table is precisely the inductive definition (nullable_in, first_in,
   last_in, any_in). *)
From Coq Require Import List ZArith Bool Arith Lia.
From TM Require Import Gram.Cfg Syn.Expr Syn.Sets Syn.SetsSpec.
Import ListNotations.
Local Open Scope Z_scope.

(* ---------- sorted-list sets of Cfg.v ---------- *)
Lemma mem_ins x y l : mem x (ins y l) = (x =? y) || mem x l.
Proof.
  unfold mem. induction l as [|z l IH]; cbn [ins existsb].
  - now rewrite orb_false_r.
  - destruct (y <? z) eqn:E1; [reflexivity|]. destruct (y =? z) eqn:E2.
    + apply Z.eqb_eq in E2. subst. cbn [existsb]. destruct (x =? z); reflexivity.
    + cbn [existsb]. rewrite IH. destruct (x =? z), (x =? y); reflexivity.
Qed.

Lemma mem_fold_ins x a : forall b, mem x (fold_left (fun acc y => ins y acc) a b) = mem x b || mem x a.
Proof.
  induction a as [|y a IH]; intro b; cbn [fold_left].
  - unfold mem at 3. cbn. now rewrite orb_false_r.
  - rewrite IH, mem_ins. unfold mem at 4. cbn [existsb]. fold (mem x a).
    destruct (x =? y), (mem x b), (mem x a); reflexivity.
Qed.

Lemma mem_union x a b : mem x (union a b) = mem x a || mem x b.
Proof. unfold union. rewrite mem_fold_ins. apply orb_comm. Qed.

Lemma mem_nil x : mem x [] = false. Proof. reflexivity. Qed.

Lemma mem_In x l : mem x l = true <-> In x l.
Proof.
  unfold mem. rewrite existsb_exists. split.
  - intros (y & Hy & E). apply Z.eqb_eq in E. now subst.
  - intro H. exists x. split; auto. apply Z.eqb_refl.
Qed.

Lemma zl_eqb_eq a : forall b, zl_eqb a b = true -> a = b.
Proof.
  induction a as [|x a IH]; intros [|y b] H; try discriminate; auto.
  cbn in H. apply andb_true_iff in H as [H1 H2]. apply Z.eqb_eq in H1. subst. f_equal. auto.
Qed.

Lemma table_eqb_eq a : forall b, table_eqb a b = true -> a = b.
Proof.
  induction a as [|[x l] a IH]; intros [|[y k] b] H; try discriminate; auto.
  cbn in H. apply andb_true_iff in H as [H H3]. apply andb_true_iff in H as [H1 H2].
  apply Z.eqb_eq in H1. apply zl_eqb_eq in H2. subst. f_equal. auto.
Qed.

(* ---------- nullable ---------- *)
Section Nullable.
  Variable rules : list prule.

  Definition nstep (nl : list Z) (r : prule) : list Z :=
    if forallb (fun s => mem s nl) (snd r) then ins (fst r) nl else nl.

  Lemma spec_nullable_step_fold nl : spec_nullable_step rules nl = fold_left nstep rules nl.
  Proof.
    unfold spec_nullable_step. revert nl. induction rules as [|[x rhs] rs IH]; intro nl; cbn [fold_left]; auto.
  Qed.

  Lemma nstep_grows nl r y : mem y nl = true -> mem y (nstep nl r) = true.
  Proof. unfold nstep. intro H. destruct (forallb _ _); auto. rewrite mem_ins, H. apply orb_true_r. Qed.

  Lemma fold_nstep_grows rs : forall nl y, mem y nl = true -> mem y (fold_left nstep rs nl) = true.
  Proof. induction rs as [|r rs IH]; intros nl y H; cbn [fold_left]; auto. apply IH. now apply nstep_grows. Qed.

  Lemma forallb_mem_mono (nl nl' : list Z) rhs :
    (forall y, mem y nl = true -> mem y nl' = true) ->
    forallb (fun s => mem s nl) rhs = true -> forallb (fun s => mem s nl') rhs = true.
  Proof. intros Hm H. rewrite forallb_forall in *. intros s Hs. apply Hm. now apply H. Qed.

  (* every rule of rs whose body is within the start set has its head in the result *)
  Lemma fold_nstep_closed rs : forall nl0 nl r,
    (forall y, mem y nl0 = true -> mem y nl = true) ->
    In r rs -> forallb (fun s => mem s nl0) (snd r) = true -> mem (fst r) (fold_left nstep rs nl) = true.
  Proof.
    induction rs as [|r0 rs IH]; intros nl0 nl r Hm Hin Hb; [destruct Hin|]. cbn [fold_left].
    destruct Hin as [-> | Hin].
    - apply fold_nstep_grows. unfold nstep. rewrite (forallb_mem_mono nl0 nl _ Hm Hb). rewrite mem_ins, Z.eqb_refl. reflexivity.
    - apply (IH nl0); auto. intros y Hy. apply nstep_grows. auto.
  Qed.

  Lemma fold_nstep_sound rs : (forall r, In r rs -> In r rules) -> forall nl,
    (forall y, mem y nl = true -> nullable_in rules y) ->
    forall y, mem y (fold_left nstep rs nl) = true -> nullable_in rules y.
  Proof.
    induction rs as [|r rs IH]; intros Hsub nl Hnl y Hy; cbn [fold_left] in Hy; auto.
    apply (IH (fun r' H => Hsub r' (or_intror H)) (nstep nl r)); auto.
    intros z Hz. unfold nstep in Hz. destruct (forallb _ (snd r)) eqn:Eb; auto.
    rewrite mem_ins in Hz. apply orb_true_iff in Hz as [Hz | Hz]; auto.
    apply Z.eqb_eq in Hz. subst z. destruct r as [x rhs]. apply (nu_rule rules x rhs).
    - apply Hsub. now left.
    - intros s Hs. apply Hnl. rewrite forallb_forall in Eb. now apply Eb.
  Qed.

  Lemma iterate_sound k : forall nl, (forall y, mem y nl = true -> nullable_in rules y) ->
    forall y, mem y (iterate k (spec_nullable_step rules) nl) = true -> nullable_in rules y.
  Proof.
    induction k as [|k IH]; intros nl Hnl y Hy; cbn [iterate] in Hy; auto.
    apply (IH (spec_nullable_step rules nl)); auto. intros z Hz. rewrite spec_nullable_step_fold in Hz.
    eapply fold_nstep_sound; eauto.
  Qed.

  Theorem spec_nullable_exact nl : spec_nullable rules = Some nl ->
    forall X, mem X nl = true <-> nullable_in rules X.
  Proof.
    unfold spec_nullable. set (n0 := iterate _ _ _). destruct (zl_eqb _ n0) eqn:E; [|discriminate].
    intro H. injection H as <-. apply zl_eqb_eq in E. intro X. split.
    - apply iterate_sound. intros y Hy. discriminate.
    - induction 1 as [X rhs Hin _ IH]. rewrite <- E, spec_nullable_step_fold.
      apply (fold_nstep_closed rules n0 n0 (X, rhs)); auto. cbn [snd]. apply forallb_forall. exact IH.
  Qed.
End Nullable.

(* ---------- tables ---------- *)
Lemma tget_tadd t x l y a :
  mem a (tget (tadd t x l) y) = if y =? x then mem a (tget t x) || mem a l else mem a (tget t y).
Proof.
  induction t as [|[z l0] t IH]; cbn [tadd tget].
  - destruct (Z.eqb_spec x y) as [->|N].
    + rewrite Z.eqb_refl, mem_union. reflexivity.
    + destruct (Z.eqb_spec y x) as [->|_]; [congruence | reflexivity].
  - destruct (Z.eqb_spec z x) as [->|Nzx]; cbn [tget].
    + destruct (Z.eqb_spec x y) as [->|N].
      * rewrite Z.eqb_refl, mem_union. reflexivity.
      * destruct (Z.eqb_spec y x) as [->|_]; [congruence | reflexivity].
    + destruct (Z.eqb_spec z y) as [->|Nzy].
      * destruct (Z.eqb_spec y x) as [->|_]; [congruence | reflexivity].
      * exact IH.
Qed.

Section Step.
  Variable contrib : prule -> list Z.     (* contribution of a rule, from the previous round's table *)

  Definition add_rule (acc : table) (r : prule) : table := tadd acc (fst r) (contrib r).

  Lemma fold_add_grows rs : forall acc x a, mem a (tget acc x) = true -> mem a (tget (fold_left add_rule rs acc) x) = true.
  Proof.
    induction rs as [|r rs IH]; intros acc x a H; cbn [fold_left]; auto. apply IH. unfold add_rule.
    rewrite tget_tadd. destruct (x =? fst r) eqn:E; auto. apply Z.eqb_eq in E. subst. now rewrite H.
  Qed.

  Lemma fold_add_contains rs : forall acc r a, In r rs -> mem a (contrib r) = true ->
    mem a (tget (fold_left add_rule rs acc) (fst r)) = true.
  Proof.
    induction rs as [|r0 rs IH]; intros acc r a Hin Ha; [destruct Hin|]. cbn [fold_left]. destruct Hin as [-> | Hin].
    - apply fold_add_grows. unfold add_rule. rewrite tget_tadd, Z.eqb_refl, Ha. apply orb_true_r.
    - now apply IH.
  Qed.

  Lemma fold_add_origin rs : forall acc x a, mem a (tget (fold_left add_rule rs acc) x) = true ->
    mem a (tget acc x) = true \/ exists r, In r rs /\ fst r = x /\ mem a (contrib r) = true.
  Proof.
    induction rs as [|r0 rs IH]; intros acc x a H; cbn [fold_left] in H; [now left|].
    apply IH in H as [H | (r & Hin & Hx & Ha)].
    - unfold add_rule in H. rewrite tget_tadd in H. destruct (x =? fst r0) eqn:E; [|now left].
      apply Z.eqb_eq in E. apply orb_true_iff in H as [H | H]; [left; now subst | right].
      exists r0. split; [now left|]. auto.
    - right. exists r. split; [now right|]. auto.
  Qed.
End Step.

Lemma step_with_fold contrib rules t : step_with contrib rules t = fold_left (add_rule (contrib t)) rules t.
Proof. reflexivity. Qed.

Section First.
  Variable T : Z.
  Variable rules : list prule.
  Variable nl : list Z.
  Hypothesis Hnl : forall X, mem X nl = true <-> nullable_in rules X.
  Hypothesis Hlhs : forall r, In r rules -> T <= fst r.      (* left-hand sides are nonterminals *)

  (* what a first-like scan of a symbol string collects *)
  Lemma prefix_vals_spec t syms a :
    mem a (prefix_vals T nl t syms) = true <->
    exists pre y post, syms = pre ++ y :: post /\ (forall s, In s pre -> mem s nl = true) /\ mem a (sym_val T t y) = true.
  Proof.
    induction syms as [|s rest IH]; cbn [prefix_vals].
    - split; [discriminate|]. intros (pre & y & post & H & _). destruct pre; discriminate.
    - rewrite mem_union, orb_true_iff. split.
      + intros [H | H].
        * exists [], s, rest. repeat split; auto; intros ? [].
        * destruct (mem s nl) eqn:Es; [|discriminate]. apply IH in H as (pre & y & post & -> & Hp & Hy).
          exists (s :: pre), y, post. repeat split; auto. intros z [<- | Hz]; auto.
      + intros (pre & y & post & Heq & Hp & Hy). destruct pre as [|p pre]; cbn in Heq; injection Heq as <- ->.
        * now left.
        * right. rewrite (Hp s (or_introl eq_refl)). apply IH. exists pre, y, post. repeat split; auto. intros z Hz. apply Hp. now right.
  Qed.

  Lemma sym_val_term t a s : 0 <= s < T -> (mem a (sym_val T t s) = true <-> a = s).
  Proof.
    intro H. unfold sym_val. replace ((0 <=? s) && (s <? T)) with true by (symmetry; apply andb_true_iff; split; [apply Z.leb_le | apply Z.ltb_lt]; lia).
    unfold mem. cbn. rewrite orb_false_r. apply Z.eqb_eq.
  Qed.

  Lemma sym_val_nonterm t s : T <= s -> sym_val T t s = tget t s.
  Proof. intro H. unfold sym_val. replace (s <? T) with false by (symmetry; apply Z.ltb_ge; lia). now rewrite andb_false_r. Qed.

  Definition first_sound (t : table) : Prop := forall x a, mem a (tget t x) = true -> first_in T rules x a.

  Lemma sym_val_sound t y a : first_sound t -> mem a (sym_val T t y) = true -> first_in T rules y a.
  Proof.
    intros Ht H. unfold sym_val in H. destruct ((0 <=? y) && (y <? T)) eqn:E.
    - apply andb_true_iff in E as [E1 E2]. apply Z.leb_le in E1. apply Z.ltb_lt in E2.
      unfold mem in H. cbn in H. rewrite orb_false_r in H. apply Z.eqb_eq in H. subst. apply fi_term. lia.
    - now apply Ht.
  Qed.

  Lemma first_step_sound t : first_sound t -> first_sound (first_step T nl rules t).
  Proof.
    intros Ht x a H. unfold first_step in H. rewrite step_with_fold in H.
    apply fold_add_origin in H as [H | ([X rhs] & Hin & Hx & Ha)]; [now apply Ht|]. cbn [fst] in Hx. subst X.
    unfold first_contrib in Ha. cbn [snd] in Ha. apply prefix_vals_spec in Ha as (pre & y & post & -> & Hp & Hy).
    eapply fi_rule; [exact Hin | | eapply sym_val_sound; eauto]. intros s Hs. apply Hnl. auto.
  Qed.

  Lemma iterate_first_sound k : forall t, first_sound t -> first_sound (iterate k (first_step T nl rules) t).
  Proof. induction k as [|k IH]; intros t Ht; cbn [iterate]; auto. apply IH. now apply first_step_sound. Qed.

  Theorem spec_first_exact t : spec_first T nl rules = Some t ->
    forall s a, mem a (sym_val T t s) = true <-> first_in T rules s a.
  Proof.
    unfold spec_first, fix_table. set (t0 := iterate _ _ _). destruct (table_eqb _ t0) eqn:E; [|discriminate].
    intro H. injection H as <-. apply table_eqb_eq in E.
    assert (Hs : first_sound t0) by (apply iterate_first_sound; intros x a H; discriminate).
    intros s a. split; [now apply sym_val_sound|].
    induction 1 as [b Hb | X pre y post b Hin Hpre _ IH].
    - now apply sym_val_term.
    - rewrite (sym_val_nonterm t0 X (Hlhs _ Hin)). rewrite <- E. unfold first_step. rewrite step_with_fold.
      apply (fold_add_contains (first_contrib T nl t0) rules t0 (X, pre ++ y :: post)); auto.
      unfold first_contrib. cbn [snd]. apply prefix_vals_spec. exists pre, y, post. repeat split; auto.
      intros z Hz. apply Hnl. now apply Hpre.
  Qed.

  (* last: the same argument on reversed right-hand sides *)
  Definition last_sound (t : table) : Prop := forall x a, mem a (tget t x) = true -> last_in T rules x a.

  Lemma sym_val_sound_last t y a : last_sound t -> mem a (sym_val T t y) = true -> last_in T rules y a.
  Proof.
    intros Ht H. unfold sym_val in H. destruct ((0 <=? y) && (y <? T)) eqn:E.
    - apply andb_true_iff in E as [E1 E2]. apply Z.leb_le in E1. apply Z.ltb_lt in E2.
      unfold mem in H. cbn in H. rewrite orb_false_r in H. apply Z.eqb_eq in H. subst. apply la_term. lia.
    - now apply Ht.
  Qed.

  Lemma rev_split (rhs pre post : list Z) y : rev rhs = pre ++ y :: post -> rhs = rev post ++ y :: rev pre.
  Proof. intro H. rewrite <- (rev_involutive rhs), H, rev_app_distr. cbn [rev]. now rewrite <- app_assoc. Qed.

  Lemma last_step_sound t : last_sound t -> last_sound (last_step T nl rules t).
  Proof.
    intros Ht x a H. unfold last_step in H. rewrite step_with_fold in H.
    apply fold_add_origin in H as [H | ([X rhs] & Hin & Hx & Ha)]; [now apply Ht|]. cbn [fst] in Hx. subst X.
    unfold last_contrib in Ha. cbn [snd] in Ha. apply prefix_vals_spec in Ha as (pre & y & post & Heq & Hp & Hy).
    apply rev_split in Heq. subst rhs.
    eapply la_rule; [exact Hin | | eapply sym_val_sound_last; eauto]. intros s Hs. apply Hnl. apply Hp. now apply in_rev.
  Qed.

  Lemma iterate_last_sound k : forall t, last_sound t -> last_sound (iterate k (last_step T nl rules) t).
  Proof. induction k as [|k IH]; intros t Ht; cbn [iterate]; auto. apply IH. now apply last_step_sound. Qed.

  Theorem spec_last_exact t : spec_last T nl rules = Some t ->
    forall s a, mem a (sym_val T t s) = true <-> last_in T rules s a.
  Proof.
    unfold spec_last, fix_table. set (t0 := iterate _ _ _). destruct (table_eqb _ t0) eqn:E; [|discriminate].
    intro H. injection H as <-. apply table_eqb_eq in E.
    assert (Hs : last_sound t0) by (apply iterate_last_sound; intros x a H; discriminate).
    intros s a. split; [now apply sym_val_sound_last|].
    induction 1 as [b Hb | X pre y post b Hin Hpost _ IH].
    - now apply sym_val_term.
    - rewrite (sym_val_nonterm t0 X (Hlhs _ Hin)). rewrite <- E. unfold last_step. rewrite step_with_fold.
      apply (fold_add_contains (last_contrib T nl t0) rules t0 (X, pre ++ y :: post)); auto.
      unfold last_contrib. cbn [snd]. apply prefix_vals_spec. exists (rev post), y, (rev pre). repeat split; auto.
      + rewrite rev_app_distr. cbn [rev]. now rewrite <- app_assoc.
      + intros z Hz. apply Hnl. apply Hpost. now apply in_rev.
  Qed.
End First.
