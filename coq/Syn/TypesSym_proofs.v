(* Soundness of the symbolic validator of Syn/TypesSym.v for bodies with lists of any length. *)
From Coq Require Import List NArith ZArith Bool Arith Lia.
From TM Require Import Syn.Types Syn.Types_proofs Syn.TypesSym.
Import ListNotations.
Local Open Scope nat_scope.

Definition count (sel : list N) (kids : list N) : nat := length (filter (sel_has sel) kids).

Lemma count_app : forall sel a b, count sel (a ++ b) = count sel a + count sel b.
Proof. intros. unfold count. rewrite filter_app, app_length. reflexivity. Qed.

Lemma sat_add_le : forall a b, sat_add a b <= a + b.
Proof. intros. unfold sat_add. destruct (2 <=? a + b) eqn:E; [apply Nat.leb_le in E|]; lia. Qed.

Lemma sat_add_small : forall a b, sat_add a b <= 1 -> sat_add a b = a + b.
Proof. intros a b. unfold sat_add. destruct (2 <=? a + b) eqn:E; lia. Qed.

(* every child sequence of e has at least cnt_min children matching sel *)
Lemma cnt_min_sound : forall e kids, produces e kids -> forall sel, cnt_min sel e <= count sel kids.
Proof.
  intros e kids P. induction P; intro sel; cbn [cnt_min]; try lia.
  - unfold count. cbn [filter]. destruct (sel_has sel t); cbn; lia.
  - rewrite count_app. specialize (IHP1 sel). specialize (IHP2 sel). pose proof (sat_add_le (cnt_min sel a) (cnt_min sel b)). lia.
  - specialize (IHP sel). lia.
  - specialize (IHP sel). lia.
  - specialize (IHP sel). destruct ne; lia.
  - rewrite count_app. specialize (IHP1 sel). specialize (IHP2 sel). cbn [cnt_min] in IHP2. destruct ne; lia.
Qed.

(* ... and, when cnt_max is 0 or 1, at most that many *)
Lemma cnt_max_sound : forall e kids, produces e kids -> forall sel, cnt_max sel e <= 1 -> count sel kids <= cnt_max sel e.
Proof.
  intros e kids P. induction P; intros sel H; cbn [cnt_max] in *; try (unfold count; cbn; lia).
  - unfold count. cbn [filter]. destruct (sel_has sel t); cbn; lia.
  - rewrite count_app. pose proof (sat_add_small _ _ H) as E. rewrite E in *. specialize (IHP1 sel). specialize (IHP2 sel). lia.
  - specialize (IHP sel). lia.
  - specialize (IHP sel). lia.
  - apply IHP. exact H.
  - destruct (cnt_max sel a =? 0) eqn:E; [|lia]. apply Nat.eqb_eq in E. specialize (IHP sel). lia.
  - destruct (cnt_max sel a =? 0) eqn:E; [|lia]. apply Nat.eqb_eq in E. rewrite count_app.
    specialize (IHP1 sel). specialize (IHP2 sel). cbn [cnt_max] in IHP2. rewrite E in IHP2. cbn in IHP2. lia.
Qed.

Lemma cnodes_sound : forall e kids, produces e kids -> forall t, In t kids -> In t (cnodes e).
Proof.
  intros e kids P. induction P; intros t' H; cbn [cnodes] in *; try contradiction; auto.
  - apply in_app_or in H. apply in_or_app. destruct H; [left|right]; auto.
  - apply in_or_app. left. auto.
  - apply in_or_app. right. auto.
  - apply in_app_or in H. destruct H; auto.
Qed.

(* ---------- Child / Children from the parent ---------- *)
Lemma find_from_0_some : forall kids sel idx, 1 <= count sel kids -> exists j, find_from kids sel 0 idx = Some j.
Proof.
  induction kids as [|t r IH]; intros sel idx H; unfold count in H; cbn [filter] in H; [cbn in H; lia|].
  cbn [find_from]. cbn [Nat.leb andb]. destruct (sel_has sel t) eqn:E; [now exists idx|]. apply IH. exact H.
Qed.

Lemma all_from_0_in : forall kids sel idx j t,
  nth_error kids j = Some t -> sel_has sel t = true -> In (idx + j) (all_from kids sel 0 idx).
Proof.
  induction kids as [|x r IH]; intros sel idx j t Hj Hs; [destruct j; discriminate|].
  cbn [all_from]. cbn [Nat.leb andb]. apply in_or_app. destruct j as [|j].
  - injection Hj as ->. rewrite Hs. left. left. lia.
  - right. replace (idx + S j) with (S idx + j) by lia. eapply IH; eauto.
Qed.

Lemma find_from_0_unique : forall kids sel idx j t,
  nth_error kids j = Some t -> sel_has sel t = true -> count sel kids <= 1 ->
  find_from kids sel 0 idx = Some (idx + j).
Proof.
  induction kids as [|x r IH]; intros sel idx j t Hj Hs Hc; [destruct j; discriminate|].
  cbn [find_from]. cbn [Nat.leb andb]. unfold count in Hc. cbn [filter] in Hc. destruct j as [|j].
  - injection Hj as ->. rewrite Hs. f_equal. lia.
  - destruct (sel_has sel x) eqn:E.
    + exfalso. cbn [length] in Hc. cbn [nth_error] in Hj.
      assert (1 <= length (filter (sel_has sel) r)); [|lia].
      clear - Hj Hs. revert j Hj. induction r as [|y r IH]; intros j Hj; [destruct j; discriminate|].
      cbn [filter]. destruct j as [|j]; [injection Hj as ->; rewrite Hs; cbn; lia|].
      specialize (IH j Hj). destruct (sel_has sel y); cbn; lia.
    + replace (idx + S j) with (S idx + j) by lia. eapply IH; eauto.
Qed.

(* ---------- accessors that fetch from the parent ---------- *)
Lemma accessor_parent_single : forall cats fs i kids f,
  nth_error fs i = Some f -> f_after f = (-1)%Z -> f_list f = false ->
  accessor cats fs i kids =
    match find_from kids (f_sel f) 0 0 with
    | Some j => if assert_ok cats (f_assert f) (nth_error kids j) then ROne true (Z.of_nat j) else RPanic
    | None => if assert_ok cats (f_assert f) None then ROne false (-1) else RPanic
    end.
Proof.
  intros cats fs i kids f Hf Ha Hl. unfold accessor. rewrite Hf, Ha, Hl. cbn [decode Z.ltb Z.compare walk step_one].
  destruct (find_from kids (f_sel f) 0 0); reflexivity.
Qed.

Lemma accessor_parent_list : forall cats fs i kids f,
  nth_error fs i = Some f -> f_after f = (-1)%Z -> f_list f = true ->
  accessor cats fs i kids =
    if forallb (fun j => assert_ok cats (f_assert f) (nth_error kids j)) (all_from kids (f_sel f) 0 0)
    then RMany (all_from kids (f_sel f) 0 0) else RPanic.
Proof.
  intros cats fs i kids f Hf Ha Hl. unfold accessor. rewrite Hf, Ha, Hl. cbn [decode Z.ltb Z.compare walk step_all]. reflexivity.
Qed.

Lemma assert_covers_b_sound : forall cats f, assert_covers_b cats f = true -> assert_covers cats f.
Proof.
  intros cats f H L. unfold assert_covers_b in H. destruct (f_assert f <=? 0)%Z eqn:E; [apply Z.leb_le in E; lia|].
  destruct (nth_error cats (Z.to_nat (f_assert f - 1))) as [c|]; [|discriminate]. exists c. split; [reflexivity|].
  apply andb_true_iff in H. destruct H as [H1 H2]. split; [exact H1|]. intros t Ht. rewrite forallb_forall in H2.
  unfold sel_has in Ht. apply existsb_exists in Ht. destruct Ht as (x & Hx & Ex). apply N.eqb_eq in Ex. subst x. now apply H2.
Qed.

Lemma combine_map_seq : forall {A B} (g : nat -> B) (l : list A) a x r,
  In (x, r) (combine l (map g (seq a (length l)))) -> exists i, nth_error l i = Some x /\ r = g (a + i).
Proof.
  intros A B g. induction l as [|y l IH]; intros a x r H; [contradiction|].
  cbn [length seq map combine] in H. destruct H as [H|H].
  - injection H as -> <-. exists 0. split; [reflexivity | f_equal; lia].
  - destruct (IH _ _ _ H) as (i & Hi & ->). exists (S i). split; [exact Hi | f_equal; lia].
Qed.

(* the symbolic validator is sound for every child sequence, whatever the lengths of the lists *)
Theorem check_sym_sound : forall cats fs inj e,
  check_sym cats fs inj e = true -> forall kids, produces e kids -> node_ok cats fs inj kids = true.
Proof.
  intros cats fs inj e H kids P. unfold check_sym in H.
  apply andb_true_iff in H. destruct H as [H H3]. apply andb_true_iff in H. destruct H as [H1 H2].
  rewrite forallb_forall in H1, H2, H3.
  assert (A1 : forall i f, nth_error fs i = Some f -> f_after f = (-1)%Z /\ assert_covers cats f).
  { intros i f Hf. specialize (H1 f (nth_error_In _ _ Hf)). apply andb_true_iff in H1. destruct H1 as [Ha Hb].
    apply Z.eqb_eq in Ha. split; [exact Ha | now apply assert_covers_b_sound]. }
  assert (NP : forall i f, nth_error fs i = Some f -> accessor cats fs i kids <> RPanic).
  { intros i f Hf. eapply accessor_never_panics; [exact Hf | apply (A1 i f Hf)]. }
  unfold node_ok. repeat (apply andb_true_iff; split).
  - (* no panic *)
    apply forallb_forall. intros r Hr. unfold accessors in Hr. apply in_map_iff in Hr. destruct Hr as (i & <- & Hi).
    apply in_seq in Hi. destruct (nth_error fs i) as [f|] eqn:Hf; [|apply nth_error_None in Hf; lia].
    specialize (NP i f Hf). destruct (accessor cats fs i kids); [contradiction | reflexivity | reflexivity].
  - (* required single accessors return a node *)
    apply forallb_forall. intros [f r] Hfr. unfold accessors in Hfr. apply combine_map_seq in Hfr.
    destruct Hfr as (i & Hf & ->). cbn [Nat.add]. destruct (f_required f && negb (f_list f)) eqn:RQ; [|reflexivity].
    apply andb_true_iff in RQ. destruct RQ as [Rq Nl]. apply negb_true_iff in Nl.
    destruct (A1 i f Hf) as [Ha Hc]. specialize (NP i f Hf).
    rewrite (accessor_parent_single cats fs i kids f Hf Ha Nl) in *.
    specialize (H2 f (nth_error_In _ _ Hf)). rewrite Rq, Nl in H2. cbn [negb andb] in H2.
    apply andb_true_iff in H2. destruct H2 as [H2 _]. apply Nat.leb_le in H2.
    pose proof (cnt_min_sound e kids P (f_sel f)) as CM.
    destruct (find_from_0_some kids (f_sel f) 0) as (j & Hj); [lia|]. rewrite Hj in *.
    destruct (assert_ok cats (f_assert f) (nth_error kids j)); [reflexivity | contradiction].
  - (* returned nodes are in the selector *)
    apply forallb_forall. intros [f r] Hfr. unfold accessors in Hfr. apply combine_map_seq in Hfr.
    destruct Hfr as (i & Hf & ->). cbn [Nat.add]. apply forallb_forall. intros j Hj.
    destruct (accessor_types cats fs i kids f j Hf Hj) as (t & Ht & Hs). rewrite Ht. exact Hs.
  - (* every child that is not the injected token is returned by some accessor *)
    apply forallb_forall. intros j Hj. apply in_seq in Hj. destruct (nth_error kids j) as [t|] eqn:Ht; [|reflexivity].
    destruct (N.eqb t inj) eqn:EI; [reflexivity|]. cbn [orb].
    assert (In t (cnodes e)) as Hin by (eapply cnodes_sound; [exact P | eapply nth_error_In; exact Ht]).
    specialize (H3 t Hin). rewrite EI in H3. cbn [orb] in H3. apply existsb_exists in H3. destruct H3 as (f & Hfin & Hs).
    destruct (In_nth_error _ _ Hfin) as (i & Hf).
    apply existsb_exists. exists (accessor cats fs i kids). split.
    { unfold accessors. apply in_map_iff. exists i. split; [reflexivity|]. apply in_seq.
      assert (i < length fs) by (apply nth_error_Some; congruence). lia. }
    destruct (A1 i f Hf) as [Ha Hc]. specialize (NP i f Hf). apply existsb_exists. exists j. split; [|apply Nat.eqb_refl].
    destruct (f_list f) eqn:Hl.
    + rewrite (accessor_parent_list cats fs i kids f Hf Ha Hl) in *.
      match goal with |- context [if ?c then _ else _] => destruct c end; [|contradiction].
      cbn [returned]. apply (all_from_0_in kids (f_sel f) 0 j t Ht Hs).
    + rewrite (accessor_parent_single cats fs i kids f Hf Ha Hl) in *.
      specialize (H2 f Hfin). rewrite Hl in H2. apply andb_true_iff in H2. destruct H2 as [_ H2]. apply Nat.leb_le in H2.
      pose proof (cnt_max_sound e kids P (f_sel f) H2) as CM.
      rewrite (find_from_0_unique kids (f_sel f) 0 j t Ht Hs) in * by lia. cbn [Nat.add] in *.
      destruct (assert_ok cats (f_assert f) (nth_error kids j)); [|contradiction].
      cbn [returned]. left. apply Nat2Z.id.
Qed.

(* the combined validator: universal for bodies with lists (symbolic branch) and for list-free bodies *)
Theorem check_type_any_sound : forall cats fs inj rep bodies,
  check_type_any cats fs inj rep bodies = true ->
  forall e, In e bodies -> forall kids, produces e kids -> node_ok cats fs inj kids = true.
Proof.
  intros cats fs inj rep bodies H e He kids P. unfold check_type_any in H. rewrite forallb_forall in H.
  specialize (H e He). unfold check_body in H. apply orb_true_iff in H. destruct H as [H|H].
  - eapply check_sym_sound; eauto.
  - apply andb_true_iff in H. destruct H as [LF H]. rewrite forallb_forall in H. apply H.
    now apply child_seqs_complete.
Qed.
