(* C15: the result of the model of ResolveSets is THE solution of the equation system it generates
   (least, stable, unique), and it reports an error exactly when a generated complement depends on itself.
   Lifts Util/Closure_proofs*.v through resolve_sets. *)
From Coq Require Import List ZArith Bool Arith Lia.
From TM Require Import Util.IntSet Util.IntSet_proofs Util.Graph Util.Closure Util.ClosureCert Util.ClosureSem
  Util.Closure_proofs Util.Closure_proofs3 Util.Closure_proofs4 Gram.Cfg Syn.Expr Syn.Sets.
Import ListNotations.
Local Open Scope Z_scope.

Lemma resolve_sets_eq T vals sets inputs : sets <> [] ->
  resolve_sets T vals sets inputs =
  let '(result, st) := resolve_est T vals sets inputs in
  let c := compute (e_nodes st) in
  if c_oof c then SetsOof else
  match c_err c with
  | [] => SetsOk (map (fun v => set_terminals T (val_at c v)) result)
  | errs => SetsErr (map (fun v => compl_id v (e_compl st)) errs)
  end.
Proof.
  intro H. unfold resolve_sets, resolve_est. destruct sets as [|s sets]; [congruence|].
  destruct (translate_all T (s :: sets) (mkE [] [] [] [] [])) as [result st]. reflexivity.
Qed.

(* membership in the terminal list extracted from a computed set: the denotation, cut to [0,T) when co-finite *)
Definition in_terms (T : Z) (s : intset) (a : Z) : Prop := den s a /\ (inverse s = true -> 0 <= a < T).

Lemma set_terminals_spec T s a : In a (set_terminals T s) <-> in_terms T s a.
Proof.
  unfold set_terminals, in_terms, den. destruct (inverse s).
  - rewrite filter_In, in_map_iff, negb_true_iff. rewrite <- not_true_iff_false, existsb_eqb_in. split.
    + intros [[n [<- Hn]] H]. apply in_seq in Hn. split; [exact H|]. intros _. lia.
    + intros [H Hr]. specialize (Hr eq_refl). split; [|exact H]. exists (Z.to_nat a). split; [lia|]. apply in_seq. lia.
  - split; [intro H; split; [exact H|discriminate]|tauto].
Qed.

(* sets_exact w.r.t. the generated system: every returned set is the value of its node in the unique stable
   (= least) solution of the generated equations *)
Theorem resolve_sets_ok_least T vals sets inputs ts : sets <> [] ->
  sets_certb T vals sets inputs = true ->
  resolve_sets T vals sets inputs = SetsOk ts ->
  let nodes := e_nodes (snd (resolve_est T vals sets inputs)) in
  let result := fst (resolve_est T vals sets inputs) in
  exists vals_of : nat -> intset,
    stable_solution nodes (fun v x => den (vals_of v) x) /\
    (forall sol, stable_solution nodes sol -> forall v x, (v < length nodes)%nat -> (sol v x <-> den (vals_of v) x)) /\
    (forall v, ~ compl_on_cycle nodes v) /\
    ts = map (fun v => set_terminals T (vals_of v)) result /\
    forall i a, (i < length result)%nat -> (In a (nth i ts []) <-> in_terms T (vals_of (nth i result O)) a).
Proof.
  intros Hne Hc Hr nodes result. rewrite (resolve_sets_eq T vals sets inputs Hne) in Hr.
  unfold sets_certb in Hc. unfold nodes, result. destruct (resolve_est T vals sets inputs) as [res st]. cbn [fst snd] in *.
  cbv zeta in Hr. destruct (c_oof (compute (e_nodes st))) eqn:Eo; [discriminate|].
  destruct (c_err (compute (e_nodes st))) eqn:Ee; [|discriminate]. inversion Hr; subst ts. clear Hr.
  destruct (compute_ok_least (e_nodes st) Hc Eo Ee) as [Hs Hu].
  exists (val_at (compute (e_nodes st))). split; [exact Hs|]. split; [exact Hu|]. split.
  - intros v Hv. apply (compute_err_cycle (e_nodes st) Hc) in Hv. rewrite Ee in Hv. exact Hv.
  - split; [reflexivity|]. intros i a Hi.
    rewrite (nth_indep _ [] (set_terminals T (val_at (compute (e_nodes st)) O))) by (now rewrite map_length).
    rewrite (map_nth (fun v => set_terminals T (val_at (compute (e_nodes st)) v)) res O i). apply set_terminals_spec.
Qed.

(* self_complement_rejected w.r.t. the generated system *)
Theorem resolve_sets_err_cycle T vals sets inputs : sets <> [] ->
  sets_certb T vals sets inputs = true ->
  let nodes := e_nodes (snd (resolve_est T vals sets inputs)) in
  let compl := e_compl (snd (resolve_est T vals sets inputs)) in
  (forall ids, resolve_sets T vals sets inputs = SetsErr ids ->
     exists errs, errs <> [] /\ ids = map (fun v => compl_id v compl) errs /\
                  forall u, In u errs <-> compl_on_cycle nodes u) /\
  ((exists ids, resolve_sets T vals sets inputs = SetsErr ids) \/ resolve_sets T vals sets inputs = SetsOof
     <-> (exists u, compl_on_cycle nodes u) \/ resolve_sets T vals sets inputs = SetsOof).
Proof.
  intros Hne Hc nodes compl. rewrite (resolve_sets_eq T vals sets inputs Hne).
  unfold sets_certb in Hc. unfold nodes, compl. destruct (resolve_est T vals sets inputs) as [res st]. cbn [fst snd] in *.
  cbv zeta. pose proof (compute_err_cycle (e_nodes st) Hc) as He.
  destruct (c_oof (compute (e_nodes st))) eqn:Eo.
  - split; [intros ids H; discriminate|]. split; intros _; now right.
  - destruct (c_err (compute (e_nodes st))) as [|e errs] eqn:Ee.
    + split; [intros ids H; discriminate|]. split.
      * intros [[ids H]|H]; discriminate.
      * intros [[u Hu]|H]; [|discriminate]. apply He in Hu. destruct Hu.
    + split.
      * intros ids H. inversion H; subst ids. exists (e :: errs). split; [discriminate|]. split; [reflexivity|exact He].
      * split; intros _; left; [exists e; apply He; now left|eexists; reflexivity].
Qed.
