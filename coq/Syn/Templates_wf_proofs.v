(* C14: the run-time side conditions [inst_checks_core] of the correctness theorem of Instantiate follow from the
   static predicate [TemplatesWf.wf_templates]: no Fatal branch (every tested / propagated parameter is bound, the
   fuel covers all (nonterminal, valuation) pairs), instances pairwise different (find before allocate), references
   of the instantiated table in range. *)
From Coq Require Import List ZArith Bool Arith Lia Permutation.
From TM Require Import Util.Ident Syn.Expr Syn.Expand Syn.ExtLang Syn.Expand_proofs Syn.Expand_global Syn.Templates
  Syn.Templates_proofs Syn.Templates_global Syn.Templates_perm Syn.Expand_wf_proofs Syn.TemplatesWf.
Import ListNotations.
Local Open Scope Z_scope.

Definition boolv (v : bytes) : Prop := v = s_true \/ v = s_false.

Lemma bool_val_boolv v : bool_val v = true -> boolv v.
Proof. unfold bool_val, boolv. intro H. apply orb_true_iff in H as [H|H]; apply bytes_eqb_true in H; auto. Qed.

Lemma bytes_eqb_refl v : bytes_eqb v v = true.
Proof. induction v; cbn; auto. now rewrite Z.eqb_refl. Qed.

(* ---------- valuations / all_pairs ---------- *)
Lemma valuations_in : forall ps v, map fst v = ps -> Forall (fun pv => boolv (snd pv)) v -> In v (valuations ps).
Proof.
  induction ps as [|p r IH]; intros v Hm Hb.
  - destruct v; [now left | discriminate].
  - destruct v as [|[q b] v']; [discriminate|]. cbn in Hm. injection Hm as -> Hm. inversion Hb as [|? ? Hb1 Hb2]; subst.
    cbn [valuations]. apply in_flat_map. exists v'. split; [now apply IH|]. cbn in Hb1. destruct Hb1 as [->| ->]; cbn; auto.
Qed.

Lemma valuations_out : forall ps v, In v (valuations ps) -> map fst v = ps /\ Forall (fun pv => boolv (snd pv)) v.
Proof.
  induction ps as [|p r IH]; intros v Hin; cbn [valuations] in Hin.
  - destruct Hin as [<-|[]]. split; [reflexivity | constructor].
  - apply in_flat_map in Hin as (v' & Hv' & Hin). destruct (IH v' Hv') as [Hm Hb].
    destruct Hin as [<-|[<-|[]]]; (split; [cbn; now rewrite Hm | constructor; [cbn; unfold boolv; auto | exact Hb]]).
Qed.

Section Wf.
  Variable T : Z.
  Variable nts : list nonterm.
  Let n := length nts.
  Notation params_at i := (nt_params (nth i nts nt_dummy)).

  Lemma combine_seq_in {A} (l : list A) d i : (i < length l)%nat -> In (i, nth i l d) (List.combine (seq 0 (length l)) l).
  Proof.
    intro Hi. assert (H : nth i (List.combine (seq 0 (length l)) l) (O, d) = (i, nth i l d)).
    { rewrite combine_nth by (now rewrite seq_length). now rewrite seq_nth. }
    rewrite <- H. apply nth_In. rewrite combine_length, seq_length. lia.
  Qed.

  Lemma combine_seq_out {A} (l : list A) d i x : In (i, x) (List.combine (seq 0 (length l)) l) -> (i < length l)%nat /\ x = nth i l d.
  Proof.
    intro Hin. apply (In_nth _ _ (O, d)) in Hin as (k & Hk & He). rewrite combine_length, seq_length in Hk.
    rewrite combine_nth in He by (now rewrite seq_length). rewrite seq_nth in He by lia. injection He as <- <-. split; [lia | reflexivity].
  Qed.

  Lemma all_pairs_in i v : (i < n)%nat -> In v (valuations (params_at i)) -> In (Z.of_nat i, v) (all_pairs nts).
  Proof.
    intros Hi Hv. unfold all_pairs. apply in_flat_map. exists (i, nth i nts nt_dummy). split; [now apply combine_seq_in|].
    apply in_map_iff. exists v. auto.
  Qed.

  Lemma all_pairs_out nt v : In (nt, v) (all_pairs nts) -> exists i, (i < n)%nat /\ nt = Z.of_nat i /\ In v (valuations (params_at i)).
  Proof.
    unfold all_pairs. intro Hin. apply in_flat_map in Hin as ([i x] & Hc & Hm).
    apply (combine_seq_out nts nt_dummy) in Hc as [Hi ->]. apply in_map_iff in Hm as (v' & He & Hv'). injection He as <- <-.
    exists i. auto.
  Qed.

  Definition all_insts : list inst := map (fun '(nt, v) => mkInst nt v) (all_pairs nts).

  Definition tinv (st : ist) : Prop := NoDup (is_list st) /\ incl (is_list st) all_insts.

  Lemma tinv_length st : tinv st -> (length (is_list st) <= length (all_pairs nts))%nat.
  Proof. intros [Hnd Hi]. pose proof (NoDup_incl_length Hnd Hi) as H. unfold all_insts in H. now rewrite map_length in H. Qed.

  Lemma all_insts_in nt sg : 0 <= nt < Z.of_nat n -> map fst sg = params_at (Z.to_nat nt) -> Forall (fun pv => boolv (snd pv)) sg ->
    In (mkInst nt sg) all_insts.
  Proof.
    intros Hnt Hm Hb. unfold all_insts. apply in_map_iff. exists (nt, sg). split; [reflexivity|].
    replace nt with (Z.of_nat (Z.to_nat nt)) at 1 by lia. apply all_pairs_in; [lia|]. now apply valuations_in.
  Qed.

  Lemma all_insts_out cur : In cur all_insts -> exists i, (i < n)%nat /\ i_nt cur = Z.of_nat i /\
    map fst (i_sig cur) = params_at i /\ Forall (fun pv => boolv (snd pv)) (i_sig cur).
  Proof.
    unfold all_insts. intro Hin. apply in_map_iff in Hin as ([nt v] & <- & Hp). apply all_pairs_out in Hp as (i & Hi & -> & Hv).
    apply valuations_out in Hv as [Hm Hb]. exists i. cbn. auto.
  Qed.

  (* ---------- environments ---------- *)
  Definition env_ok (P : list Z) (e : env) : Prop :=
    (forall p, In p P -> exists v, env_get e p = Some v) /\ Forall (fun pv => boolv (snd pv)) e.

  Lemma env_get_in e p v : env_get e p = Some v -> In (p, v) e.
  Proof.
    induction e as [|[q w] e IH]; cbn [env_get]; [discriminate|]. destruct (Z.eqb_spec q p) as [->|N].
    - intro H. injection H as ->. now left.
    - intro H. right. auto.
  Qed.

  Lemma env_get_some e p : In p (map fst e) -> exists v, env_get e p = Some v.
  Proof.
    induction e as [|[q w] e IH]; cbn [map env_get fst]; [intros []|]. destruct (Z.eqb_spec q p) as [->|N]; [eauto|].
    intros [H|H]; [congruence | auto].
  Qed.

  Lemma insert_bp_perm x l : Permutation (insert_bp x l) (x :: l).
  Proof.
    induction l as [|y l IH]; cbn [insert_bp]; [apply Permutation_refl|].
    destruct (fst x <? fst y); [apply Permutation_refl|]. eapply Permutation_trans; [apply perm_skip; exact IH | apply perm_swap].
  Qed.

  Lemma inst_env_perm i : Permutation (inst_env i) (i_sig i).
  Proof.
    unfold inst_env.
    assert (H : forall l acc, Permutation (fold_left (fun acc x => insert_bp x acc) l acc) (l ++ acc)).
    { induction l as [|x l IH]; intro acc; cbn [fold_left app]; [apply Permutation_refl|].
      eapply Permutation_trans; [apply IH|]. eapply Permutation_trans; [apply Permutation_app_head, insert_bp_perm|].
      apply Permutation_sym, Permutation_middle. }
    specialize (H (i_sig i) []). now rewrite app_nil_r in H.
  Qed.

  Lemma inst_env_ok cur i : map fst (i_sig cur) = params_at i -> Forall (fun pv => boolv (snd pv)) (i_sig cur) ->
    env_ok (params_at i) (inst_env cur).
  Proof.
    intros Hm Hb. pose proof (inst_env_perm cur) as HP. split.
    - intros p Hp. apply env_get_some. rewrite <- Hm in Hp.
      eapply Permutation_in; [apply Permutation_map, Permutation_sym, HP | exact Hp].
    - eapply Permutation_Forall; [apply Permutation_sym; exact HP | exact Hb].
  Qed.

  Lemma mem_z_in p l : mem_z p l = true -> In p l.
  Proof. unfold mem_z. intro H. apply existsb_exists in H as (x & Hx & He). apply Z.eqb_eq in He. now subst. Qed.

  Lemma pred_scoped_bound P e : env_ok P e -> forall p, pred_scoped P p = true -> pred_bound e p = true.
  Proof.
    intros [He _]. induction p using pred_ind2; cbn [pred_scoped pred_bound]; intro Hs; auto.
    - rewrite forallb_forall in *. rewrite Forall_forall in H. auto.
    - rewrite forallb_forall in *. rewrite Forall_forall in H. auto.
    - destruct (He i (mem_z_in _ _ Hs)) as [v0 ->]. reflexivity.
  Qed.

  (* ---------- resolveInstance ---------- *)
  Definition arg_res (ctx : option env) (a : arg) : Prop := exists v, resolve_arg ctx a = Some (a_param a, v) /\ boolv v.

  Lemma arg_ok_res P e a : env_ok P e -> arg_ok P a = true -> arg_res (Some e) a.
  Proof.
    intros [He Hb] Ha. unfold arg_ok in Ha. unfold arg_res, resolve_arg. destruct (a_value a) as [|x0 v0] eqn:Ev.
    - destruct (He _ (mem_z_in _ _ Ha)) as [w Hw]. rewrite Hw. exists w. split; [reflexivity|].
      apply env_get_in in Hw. rewrite Forall_forall in Hb. exact (Hb _ Hw).
    - exists (x0 :: v0). split; [reflexivity | now apply bool_val_boolv].
  Qed.

  Lemma resolve_fold ctx : forall args sg0 f0, Forall (arg_res ctx) args ->
    exists sg, fold_left (fun '(sg, fatal) a => match resolve_arg ctx a with Some bp => (sg ++ [bp], fatal) | None => (sg, true) end)
                 args (sg0, f0) = (sg0 ++ sg, f0) /\ map fst sg = map a_param args /\ Forall (fun pv => boolv (snd pv)) sg.
  Proof.
    induction args as [|a args IH]; intros sg0 f0 Hr; cbn [fold_left].
    - exists []. rewrite app_nil_r. repeat split; constructor.
    - inversion Hr as [|? ? (v & Hv & Hb) Hr']; subst. rewrite Hv. destruct (IH (sg0 ++ [(a_param a, v)]) f0 Hr') as (sg & Hf & Hm & Hbs).
      exists ((a_param a, v) :: sg). rewrite Hf, <- app_assoc. cbn [app map fst]. split; [reflexivity|]. split; [now rewrite Hm|].
      constructor; auto.
  Qed.

  Lemma find_inst_none nt sg : forall l k, find_inst nt sg l k = None -> ~ In (mkInst nt sg) l.
  Proof.
    induction l as [|i l IH]; intros k H Hin; [destruct Hin|]. cbn [find_inst] in H.
    destruct ((i_nt i =? nt) && sig_eqb (i_sig i) sg) eqn:E; [discriminate|]. destruct Hin as [->|Hin]; [|eapply IH; eauto].
    cbn [i_nt i_sig] in E. now rewrite Z.eqb_refl, sig_eqb_refl in E.
  Qed.

  Lemma NoDup_snoc {A} (l : list A) x : NoDup l -> ~ In x l -> NoDup (l ++ [x]).
  Proof.
    intros Hnd Hx. eapply Permutation_NoDup; [apply Permutation_cons_append|]. now constructor.
  Qed.

  Definition srel (st st' : ist) : Prop :=
    tinv st' /\ is_fatal st' = is_fatal st /\ (length (is_list st) <= length (is_list st'))%nat.

  Lemma srel_refl st : tinv st -> srel st st. Proof. unfold srel. auto. Qed.
  Lemma srel_trans a b c : srel a b -> srel b c -> srel a c.
  Proof. intros (A1 & A2 & A3) (B1 & B2 & B3). unfold srel. repeat split; try apply B1; try congruence; lia. Qed.

  Lemma resolve_instance_wf st ctx nt args k st' :
    tinv st -> 0 <= nt < Z.of_nat n -> map a_param args = params_at (Z.to_nat nt) -> Forall (arg_res ctx) args ->
    resolve_instance st ctx nt args = (k, st') -> srel st st' /\ (k < length (is_list st'))%nat.
  Proof.
    intros [Hnd Hincl] Hnt Hm Hr. unfold resolve_instance.
    destruct (resolve_fold ctx args [] (is_fatal st) Hr) as (sg & -> & Hms & Hb). cbn [app].
    destruct (find_inst nt sg (is_list st) 0) as [j|] eqn:Ei; intro H; injection H as <- <-.
    - apply find_inst_nth in Ei as [_ Hn]. rewrite Nat.sub_0_r in Hn. split; [repeat split; auto|].
      cbn [is_list]. apply nth_error_Some. congruence.
    - unfold srel, tinv. cbn [is_list is_fatal]. rewrite app_length. cbn [length]. split; [|lia]. split; [|split; [reflexivity | lia]]. split.
      + apply NoDup_snoc; [exact Hnd | eapply find_inst_none; eauto].
      + intros x Hx. apply in_app_or in Hx as [Hx|[<-|[]]]; [now apply Hincl|]. apply all_insts_in; auto. now rewrite Hms.
  Qed.
End Wf.

Lemma list_eqb_Z_true : forall a b, list_eqb Z.eqb a b = true -> a = b.
Proof.
  induction a as [|x a IH]; intros [|y b] H; cbn [list_eqb] in H; try discriminate; auto.
  apply andb_true_iff in H as [H1 H2]. apply Z.eqb_eq in H1. subst. f_equal. auto.
Qed.

(* ---------- doExpr under a well-formed environment ---------- *)
Section DoExpr.
  Variable T : Z.
  Variable nts : list nonterm.
  Variable P : list Z.
  Variable e : env.
  Hypothesis He : env_ok P e.
  Notation len st := (Z.of_nat (length (is_list st))).
  Notation wf := (wf_texpr T nts P).
  Notation loop := (subs_loop (fun st x => do_expr T (Some e) st x) (check_pred (Some e))).

  Definition rgood (st st' : ist) (x' : expr) : Prop := srel nts st st' /\ bounded (T + len st') x' = true.
  Definition Q (x : expr) : Prop := forall st x' st', wf x = true -> tinv nts st -> do_expr T (Some e) st x = (x', st') -> rgood st st' x'.
  Definition Q2 (x : expr) : Prop := Q x /\ match x with ECond _ inner => Q inner | _ => True end.

  Lemma check_no_fatal p b fl : pred_scoped P p = true -> check_pred (Some e) p = (b, fl) -> fl = false.
  Proof. intros Hp Ec. pose proof (check_pred_no_fatal e p (pred_scoped_bound P e He p Hp)) as Hn. now rewrite Ec in Hn. Qed.

  Lemma srel_ifatal st : tinv nts st -> srel nts st (set_ifatal st false).
  Proof. intros Hi. unfold srel, tinv, set_ifatal. cbn [is_list is_fatal]. rewrite orb_false_r. repeat split; try apply Hi; lia. Qed.

  Lemma srel_len st st' : srel nts st st' -> T + len st <= T + len st'.
  Proof. intros (_ & _ & H). lia. Qed.

  Lemma subs_loop_wf kc ks : forall l, Forall Q2 l -> forallb wf l = true ->
    forall st r st', tinv nts st -> loop kc ks l st = (r, st') ->
    srel nts st st' /\ Forall (bnd (T + len st')) r.
  Proof.
    intros l HF. induction HF as [|s l [Hs Hs2] Hl IH]; intros Hw st r st' Hi Hgo.
    - injection Hgo as <- <-. split; [now apply srel_refl | constructor].
    - cbn [forallb] in Hw. apply andb_true_iff in Hw as [Hws Hwl]. cbn [subs_loop] in Hgo.
      assert (Generic : forall a stx, srel nts st stx -> Q a -> wf a = true ->
                (let '(conv, st1) := do_expr T (Some e) stx a in
                 let '(r2, st2) := loop kc ks l st1 in
                 if ks && is_empty_e conv then (r2, st2) else (conv :: r2, st2)) = (r, st') ->
                srel nts st st' /\ Forall (bnd (T + len st')) r).
      { intros a stx Hsx Qa Hwa Hk. destruct (do_expr T (Some e) stx a) as [conv st1] eqn:E1.
        destruct (Qa _ _ _ Hwa (proj1 Hsx) E1) as (Hr1 & Hb1).
        destruct (loop kc ks l st1) as [r2 st2] eqn:E2. destruct (IH Hwl _ _ _ (proj1 Hr1) E2) as (Hr2 & Hf2).
        assert (st2 = st') by (destruct (ks && is_empty_e conv); now injection Hk). subst st2.
        split; [eapply srel_trans; [exact Hsx|]; eapply srel_trans; eauto|].
        destruct (ks && is_empty_e conv); injection Hk as <-; [exact Hf2|]. constructor; [|exact Hf2].
        eapply bounded_mono; [|exact Hb1]. now apply srel_len. }
      destruct s as [ |?|?|?|? ?|? ?|? ?|? ? ?|?|?|?|?|?|? ? ?|p0 inner|? ?];
        try (apply (Generic _ st (srel_refl _ _ Hi) Hs Hws); exact Hgo).
      destruct kc.
      + cbn [wf_texpr] in Hws. apply andb_true_iff in Hws as [Hps Hwin].
        destruct (check_pred (Some e) p0) as [b fl] eqn:Ec. rewrite (check_no_fatal _ _ _ Hps Ec) in Hgo.
        pose proof (srel_ifatal st Hi) as Hsf. destruct b.
        * apply (Generic inner (set_ifatal st false) Hsf Hs2 Hwin). exact Hgo.
        * destruct (IH Hwl _ _ _ (proj1 Hsf) Hgo) as (Hr2 & Hf2). split; [eapply srel_trans; eauto | exact Hf2].
      + apply (Generic _ st (srel_refl _ _ Hi) Hs Hws). exact Hgo.
  Qed.

  Lemma wrap_Q (mk : expr -> expr) x :
    (forall B y, bounded B y = true -> bounded B (mk y) = true) -> Q x ->
    forall st x' st', wf x = true -> tinv nts st -> (let '(c, st) := do_expr T (Some e) st x in (mk c, st)) = (x', st') -> rgood st st' x'.
  Proof.
    intros Hm Qx st x' st' Hw Hi H. destruct (do_expr T (Some e) st x) as [c st1] eqn:E1. injection H as <- <-.
    destruct (Qx _ _ _ Hw Hi E1) as (Hr & Hb). split; auto.
  Qed.

  Ltac trivial_case :=
    let st := fresh "st" in let x' := fresh "x'" in let st' := fresh "st'" in let Hw := fresh "Hw" in let Hi := fresh "Hi" in let Hx := fresh "Hx" in
    intros st x' st' Hw Hi Hx; cbn [do_expr] in Hx; injection Hx as <- <-; split; [now apply srel_refl | reflexivity].

  Lemma all_Q2 : forall x, Q2 x.
  Proof.
    induction x using expr_ind2; (split; [|try exact I]).
    - trivial_case.
    - (* Optional *)
      intros st x' st' Hw Hi Hx. cbn [do_expr wf_texpr] in Hx, Hw. destruct (do_expr T (Some e) st x) as [c st1] eqn:E1.
      destruct (proj1 IHx _ _ _ Hw Hi E1) as (Hr & Hb). destruct (is_empty_e c); injection Hx as <- <-; split; auto.
    - (* Choice *)
      intros st x' st' Hw Hi Hx. cbn [do_expr wf_texpr] in Hx, Hw. destruct l as [|a l].
      + injection Hx as <- <-. split; [now apply srel_refl | reflexivity].
      + destruct (loop true false (a :: l) st) as [r st1] eqn:E1.
        destruct (subs_loop_wf true false _ H Hw _ _ _ Hi E1) as (Hr & Hf).
        destruct r as [|y [|z r]]; injection Hx as <- <-; (split; [exact Hr|]).
        * reflexivity.
        * now inversion Hf.
        * cbn [bounded]. now apply forallb_Forall.
    - (* Sequence *)
      intros st x' st' Hw Hi Hx. cbn [do_expr wf_texpr] in Hx, Hw. destruct l as [|a l].
      + injection Hx as <- <-. split; [now apply srel_refl | reflexivity].
      + destruct (loop false true (a :: l) st) as [r st1] eqn:E1.
        destruct (subs_loop_wf false true _ H Hw _ _ _ Hi E1) as (Hr & Hf). injection Hx as <- <-.
        split; [exact Hr|]. cbn [bounded]. now apply forallb_Forall.
    - (* Reference *)
      intros st x' st' Hw Hi Hx. cbn [do_expr wf_texpr] in Hx, Hw. unfold ref_ok in Hw. destruct (T <=? s) eqn:Es.
      + apply Z.leb_le in Es. apply andb_true_iff in Hw as [Hw Hargs]. apply andb_true_iff in Hw as [Hlt Heq].
        apply Z.ltb_lt in Hlt. apply list_eqb_Z_true in Heq.
        destruct (resolve_instance st (Some e) (s - T) a) as [k st1] eqn:E1. injection Hx as <- <-.
        assert (Hres : Forall (arg_res (Some e)) a).
        { apply Forall_forall. intros x Hx. rewrite forallb_forall in Hargs. eapply arg_ok_res; eauto. }
        assert (Hrange : 0 <= s - T < Z.of_nat (length nts)) by lia.
        destruct (resolve_instance_wf nts st (Some e) (s - T) a k st1 Hi Hrange Heq Hres E1) as (Hr & Hk).
        split; [exact Hr|]. cbn [bounded]. apply Z.ltb_lt. lia.
      + apply Z.leb_gt in Es. injection Hx as <- <-. split; [now apply srel_refl|]. cbn [bounded]. apply Z.ltb_lt. lia.
    - intros st x' st' Hw Hi Hx. cbn [do_expr wf_texpr] in Hx, Hw. apply (wrap_Q (EAssign n) x); auto; apply IHx.
    - intros st x' st' Hw Hi Hx. cbn [do_expr wf_texpr] in Hx, Hw. apply (wrap_Q (EAppend n) x); auto; apply IHx.
    - intros st x' st' Hw Hi Hx. cbn [do_expr wf_texpr] in Hx, Hw. apply (wrap_Q (EArrow n f) x); auto; apply IHx.
    - trivial_case.
    - trivial_case.
    - trivial_case.
    - (* Lookahead *)
      intros st x' st' Hw Hi Hx. cbn [do_expr wf_texpr] in Hx, Hw. destruct l as [|a l].
      + injection Hx as <- <-. split; [now apply srel_refl | reflexivity].
      + destruct (loop false false (a :: l) st) as [r st1] eqn:E1.
        destruct (subs_loop_wf false false _ H Hw _ _ _ Hi E1) as (Hr & Hf). injection Hx as <- <-.
        split; [exact Hr | reflexivity].
    - (* LookaheadNot *)
      intros st x' st' Hw Hi Hx. cbn [do_expr wf_texpr] in Hx, Hw. apply (wrap_Q ELaNot x); auto; apply IHx.
    - (* List *)
      intros st x' st' Hw Hi Hx. cbn [do_expr wf_texpr] in Hx, Hw. apply andb_true_iff in Hw as [Hwe Hws].
      destruct (do_expr T (Some e) st x) as [c st1] eqn:E1.
      destruct (proj1 IHx _ _ _ Hwe Hi E1) as (Hr1 & Hb1). destruct s as [sp|].
      + destruct (do_expr T (Some e) st1 sp) as [d st2] eqn:E2. injection Hx as <- <-.
        destruct (proj1 (H sp eq_refl) _ _ _ Hws (proj1 Hr1) E2) as (Hr2 & Hb2).
        split; [eapply srel_trans; eauto|]. cbn [bounded]. rewrite Hb2, andb_true_r.
        eapply bounded_mono; [|exact Hb1]. now apply srel_len.
      + injection Hx as <- <-. split; [exact Hr1|]. cbn [bounded]. now rewrite Hb1.
    - (* Conditional *)
      intros st x' st' Hw Hi Hx. cbn [do_expr wf_texpr] in Hx, Hw. apply andb_true_iff in Hw as [Hps Hwin].
      destruct (check_pred (Some e) p) as [b fl] eqn:Ec. rewrite (check_no_fatal _ _ _ Hps Ec) in Hx.
      pose proof (srel_ifatal st Hi) as Hsf. destruct b.
      + destruct (proj1 IHx _ _ _ Hwin (proj1 Hsf) Hx) as (Hr & Hb). split; [eapply srel_trans; eauto | exact Hb].
      + injection Hx as <- <-. split; [exact Hsf | reflexivity].
    - exact (proj1 IHx).
    - intros st x' st' Hw Hi Hx. cbn [do_expr wf_texpr] in Hx, Hw. apply (wrap_Q (EPrec s) x); auto; apply IHx.
  Qed.

  Theorem do_expr_wf x st x' st' : wf x = true -> tinv nts st -> do_expr T (Some e) st x = (x', st') -> rgood st st' x'.
  Proof. exact (proj1 (all_Q2 x) st x' st'). Qed.
End DoExpr.

(* ---------- set expressions, inputs, the work list ---------- *)
Section TsetInd.
  Variable P : tset -> Prop.
  Hypothesis Hsym : forall op s, P (TSym op s).
  Hypothesis Hunion : forall l, Forall P l -> P (TUnion l).
  Hypothesis Hinter : forall l, Forall P l -> P (TInter l).
  Hypothesis Hcompl : forall i t, P t -> P (TCompl i t).
  Hypothesis Hnamed : forall i, P (TNamed i).
  Fixpoint tset_ind3 (t : tset) : P t :=
    let fix all (l : list tset) : Forall P l :=
      match l with [] => Forall_nil P | x :: r => Forall_cons x (tset_ind3 x) (all r) end in
    match t with
    | TSym op s => Hsym op s
    | TUnion l => Hunion l (all l)
    | TInter l => Hinter l (all l)
    | TCompl i x => Hcompl i x (tset_ind3 x)
    | TNamed i => Hnamed i
    end.
End TsetInd.

Section Whole.
  Variable T : Z.
  Variable nts : list nonterm.
  Let n := length nts.
  Notation len st := (Z.of_nat (length (is_list st))).
  Notation params_at i := (nt_params (nth i nts nt_dummy)).

  Lemma plain_nt_res st ctx nt k st' : tinv nts st -> plain_nt nts nt = true ->
    resolve_instance st ctx nt [] = (k, st') -> srel nts st st'.
  Proof.
    intros Hi Hp H. unfold plain_nt in Hp. apply andb_true_iff in Hp as [Hp Hnil]. apply andb_true_iff in Hp as [H0 H1].
    apply Z.leb_le in H0. apply Z.ltb_lt in H1.
    destruct (nt_params (nth (Z.to_nat nt) nts nt_dummy)) eqn:Ep; [|discriminate].
    apply (resolve_instance_wf nts st ctx nt [] k st' Hi (conj H0 H1)); [now rewrite Ep | constructor | exact H].
  Qed.

  Lemma do_set_wf : forall t st y st', tset_ok T nts t = true -> tinv nts st -> do_set T st t = (y, st') -> srel nts st st'.
  Proof.
    induction t using tset_ind3; intros st y st' Hok Hi Hx; cbn [do_set tset_ok] in Hx, Hok.
    - destruct (T <=? s).
      + destruct (resolve_instance st None (s - T) []) as [k st1] eqn:E1. injection Hx as <- <-. eapply plain_nt_res; eauto.
      + injection Hx as <- <-. now apply srel_refl.
    - assert (G : forall l, Forall (fun t => forall st y st', tset_ok T nts t = true -> tinv nts st -> do_set T st t = (y, st') -> srel nts st st') l ->
                forallb (tset_ok T nts) l = true -> forall st r st', tinv nts st ->
                (fix go (l : list tset) (st : ist) : list tset * ist :=
                   match l with [] => ([], st)
                   | x :: rest => let '(y, st) := do_set T st x in let '(r, st) := go rest st in (y :: r, st) end) l st = (r, st') ->
                srel nts st st').
      { clear. intros l HF. induction HF as [|x l Hx Hl IH]; intros Hok st r st' Hi Hgo.
        - injection Hgo as <- <-. now apply srel_refl.
        - cbn [forallb] in Hok. apply andb_true_iff in Hok as [Ho1 Ho2].
          destruct (do_set T st x) as [y st1] eqn:E1.
          match type of Hgo with (let '(r, st) := ?G in _) = _ => destruct G as [r2 st2] eqn:E2 end. injection Hgo as <- <-.
          pose proof (Hx _ _ _ Ho1 Hi E1) as Hr1. eapply srel_trans; [exact Hr1|]. eapply IH; [exact Ho2 | apply Hr1 | exact E2]. }
      match type of Hx with (let '(r, st) := ?G in _) = _ => destruct G as [r st1] eqn:E1 end. injection Hx as <- <-.
      eapply G; eauto.
    - assert (G : forall l, Forall (fun t => forall st y st', tset_ok T nts t = true -> tinv nts st -> do_set T st t = (y, st') -> srel nts st st') l ->
                forallb (tset_ok T nts) l = true -> forall st r st', tinv nts st ->
                (fix go (l : list tset) (st : ist) : list tset * ist :=
                   match l with [] => ([], st)
                   | x :: rest => let '(y, st) := do_set T st x in let '(r, st) := go rest st in (y :: r, st) end) l st = (r, st') ->
                srel nts st st').
      { clear. intros l HF. induction HF as [|x l Hx Hl IH]; intros Hok st r st' Hi Hgo.
        - injection Hgo as <- <-. now apply srel_refl.
        - cbn [forallb] in Hok. apply andb_true_iff in Hok as [Ho1 Ho2].
          destruct (do_set T st x) as [y st1] eqn:E1.
          match type of Hgo with (let '(r, st) := ?G in _) = _ => destruct G as [r2 st2] eqn:E2 end. injection Hgo as <- <-.
          pose proof (Hx _ _ _ Ho1 Hi E1) as Hr1. eapply srel_trans; [exact Hr1|]. eapply IH; [exact Ho2 | apply Hr1 | exact E2]. }
      match type of Hx with (let '(r, st) := ?G in _) = _ => destruct G as [r st1] eqn:E1 end. injection Hx as <- <-.
      eapply G; eauto.
    - destruct (do_set T st t) as [y0 st1] eqn:E1. injection Hx as <- <-. eapply IHt; eauto.
    - injection Hx as <- <-. now apply srel_refl.
  Qed.

  Lemma fold_inputs_wf : forall inputs acc st acc' st', tinv nts st ->
    forallb (fun i => plain_nt nts (in_nt i)) inputs = true ->
    fold_left (fun '(acc, st) i => let '(k, st) := resolve_instance st None (in_nt i) [] in
                                   (acc ++ [mkInput (Z.of_nat k) (in_noeoi i)], st)) inputs (acc, st) = (acc', st') ->
    srel nts st st'.
  Proof.
    induction inputs as [|i inputs IH]; intros acc st acc' st' Hi Hok H; cbn [fold_left] in H.
    - injection H as <- <-. now apply srel_refl.
    - cbn [forallb] in Hok. apply andb_true_iff in Hok as [Ho1 Ho2].
      destruct (resolve_instance st None (in_nt i) []) as [k st1] eqn:E1.
      pose proof (plain_nt_res _ _ _ _ _ Hi Ho1 E1) as Hr1. eapply srel_trans; [exact Hr1|]. eapply IH; [apply Hr1 | exact Ho2 | exact H].
  Qed.

  Lemma fold_sets_wf : forall sets acc st acc' st', tinv nts st ->
    forallb (tset_ok T nts) sets = true ->
    fold_left (fun '(acc, st) s => let '(y, st) := do_set T st s in (acc ++ [y], st)) sets (acc, st) = (acc', st') ->
    srel nts st st'.
  Proof.
    induction sets as [|s sets IH]; intros acc st acc' st' Hi Hok H; cbn [fold_left] in H.
    - injection H as <- <-. now apply srel_refl.
    - cbn [forallb] in Hok. apply andb_true_iff in Hok as [Ho1 Ho2].
      destruct (do_set T st s) as [y st1] eqn:E1.
      pose proof (do_set_wf _ _ _ _ Ho1 Hi E1) as Hr1. eapply srel_trans; [exact Hr1|]. eapply IH; [apply Hr1 | exact Ho2 | exact H].
  Qed.

  Hypothesis Hbodies : forall i, (i < n)%nat -> wf_texpr T nts (params_at i) (nt_value (nth i nts nt_dummy)) = true.

  Lemma inst_loop_wf : forall fuel i st vals0 vals st',
    tinv nts st -> is_fatal st = false -> (i <= length (is_list st))%nat -> length vals0 = i ->
    Forall (bnd (T + len st)) vals0 -> (length (all_pairs nts) - i < fuel)%nat ->
    inst_loop fuel T nts i st vals0 = (vals, st') ->
    tinv nts st' /\ is_fatal st' = false /\ length vals = length (is_list st') /\ Forall (bnd (T + len st')) vals.
  Proof.
    induction fuel as [|f IH]; intros i st vals0 vals st' Hi Hnf Hle Hl0 Hb0 Hfuel H; [lia|]. cbn [inst_loop] in H.
    destruct (nth_error (is_list st) i) as [cur|] eqn:En.
    - assert (Hlt : (i < length (is_list st))%nat) by (apply nth_error_Some; congruence).
      pose proof (tinv_length nts st Hi) as HL.
      destruct (all_insts_out nts cur (proj2 Hi cur (nth_error_In _ _ En))) as (i0 & Hi0 & Hnt & Hm & Hb).
      rewrite Hnt, Nat2Z.id in H. fold nt_dummy in H.
      destruct (do_expr T (Some (inst_env cur)) st (nt_value (nth i0 nts nt_dummy))) as [c st1] eqn:Ed.
      destruct (do_expr_wf T nts (params_at i0) (inst_env cur) (inst_env_ok nts cur i0 Hm Hb) _ _ _ _ (Hbodies i0 Hi0) Hi Ed)
        as ((Hi1 & Hf1 & Hle1) & Hbc).
      apply (IH (S i) st1 (vals0 ++ [c]) vals st'); auto; try lia.
      + congruence.
      + rewrite app_length. cbn [length]. lia.
      + apply Forall_app. split; [eapply Forall_bounded_mono; [|exact Hb0]; lia | constructor; [exact Hbc | constructor]].
    - injection H as <- <-. apply nth_error_None in En. repeat split; try apply Hi; auto. lia.
  Qed.
End Whole.

Lemma NoDup_inst_nodupb l : NoDup l -> inst_nodupb l = true.
Proof.
  induction 1 as [|x l Hn Hd IH]; [reflexivity|]. cbn [inst_nodupb]. rewrite IH, andb_true_r. apply negb_true_iff.
  destruct (existsb (inst_eqb x) l) eqn:E; [|reflexivity]. exfalso. apply Hn.
  apply existsb_exists in E as (y & Hy & E). unfold inst_eqb in E. apply andb_true_iff in E as [E1 E2].
  apply Z.eqb_eq in E1. apply sig_eqb_true in E2. destruct x, y. cbn in *. subst. exact Hy.
Qed.

Lemma inst_start_wf fuel m : wf_templates fuel m = true ->
  tinv (m_nonterms m) (inst_start m) /\ is_fatal (inst_start m) = false.
Proof.
  intro Hwf. unfold wf_templates in Hwf. apply andb_true_iff in Hwf as [Hwf _]. apply andb_true_iff in Hwf as [Hwf Hsets].
  apply andb_true_iff in Hwf as [_ Hinputs].
  unfold inst_start.
  destruct (fold_left _ (m_inputs m) ([], mkI [] false)) as [inputs st1] eqn:E1.
  destruct (fold_left _ (m_sets m) ([], st1)) as [sets st2] eqn:E2. cbn [snd].
  assert (H0 : tinv (m_nonterms m) (mkI [] false)) by (split; [constructor | intros x []]).
  destruct (fold_inputs_wf (m_nonterms m) _ _ _ _ _ H0 Hinputs E1) as (Hi1 & Hf1 & _).
  destruct (fold_sets_wf (nterms m) (m_nonterms m) _ _ _ _ _ Hi1 Hsets E2) as (Hi2 & Hf2 & _).
  split; [exact Hi2|]. rewrite Hf2, Hf1. reflexivity.
Qed.

(* the static predicate implies the run-time side conditions of the correctness theorem *)
Theorem wf_templates_checks fuel m : wf_templates fuel m = true -> inst_checks_core fuel m = true.
Proof.
  intro Hwf. unfold inst_checks_core. destruct (m_params m) as [|p0 ps]; [reflexivity|].
  destruct (inst_start_wf fuel m Hwf) as [Hi0 Hf0].
  unfold wf_templates in Hwf. apply andb_true_iff in Hwf as [Hwf Hfuel]. apply andb_true_iff in Hwf as [Hwf _].
  apply andb_true_iff in Hwf as [Hbod _]. apply Nat.ltb_lt in Hfuel.
  destruct (inst_loop fuel (nterms m) (m_nonterms m) O (inst_start m) []) as [vals st'] eqn:Hl.
  assert (Hbodies : forall i, (i < length (m_nonterms m))%nat ->
            wf_texpr (nterms m) (m_nonterms m) (nt_params (nth i (m_nonterms m) nt_dummy)) (nt_value (nth i (m_nonterms m) nt_dummy)) = true).
  { intros i Hi. rewrite forallb_forall in Hbod. apply Hbod. now apply nth_In. }
  destruct (inst_loop_wf (nterms m) (m_nonterms m) Hbodies fuel O (inst_start m) [] vals st' Hi0 Hf0) as (Hi & Hf & Hlen & Hb);
    [lia | reflexivity | constructor | lia | exact Hl|].
  rewrite Hf, (NoDup_inst_nodupb _ (proj1 Hi)). cbn [negb andb]. rewrite Hlen. now apply forallb_Forall.
Qed.

(* Instantiate as a whole, with a static hypothesis only *)
Theorem instantiate_correct_wf setden fuel m :
  m_params m <> [] -> wf_templates fuel m = true ->
  let st := snd (inst_loop fuel (nterms m) (m_nonterms m) O (inst_start m) []) in
  forall k cur, nth_error (is_list st) k = Some cur -> forall w,
    tlfp (nterms m) setden (m_nonterms m) (nterms m + i_nt cur) (i_sig cur) w <->
    lfp (nterms m) setden (map val3 (tr_nonterms (instantiate fuel m)))
        (nterms m + Z.of_nat (nth k (inst_perm m (is_list st)) O)) w.
Proof.
  intros Hp Hwf. apply instantiate_correct_core; [exact Hp | now apply wf_templates_checks | unfold nterms; lia].
Qed.
