(* Model of syntax/nullable.go (Nullable, isNullable) and syntax/set.go (ResolveSets, rules, oneRule.accept)
   on top of the closure model Util/Closure.v.  Executable definitions only. *)
From Coq Require Import List ZArith Bool Arith.
From TM Require Import Util.IntSet Util.Graph Util.Closure Util.ClosureCert Gram.Cfg Syn.Expr.
Import ListNotations.
Local Open Scope Z_scope.

(* ---------- Nullable ---------- *)
Fixpoint is_nullable (nl : list Z) (e : expr) : bool :=
  match e with
  | EEmpty | EOpt _ | EMarker _ | ECmd _ | ELookahead _ => true
  | ESet _ => false
  | EList fl el _ => if Z.odd fl then is_nullable nl el else true
  | EAssign _ s | EAppend _ s | EArrow _ _ s | EPrec _ s => is_nullable nl s
  | EChoice l => match l with [] => true | _ => existsb (is_nullable nl) l end
  | ESeq l => forallb (is_nullable nl) l
  | ERef s _ => mem s nl
  | ECond _ _ | ELaNot _ => false
  end.

(* one pass of the inner loop (the bit set is updated in place) *)
Definition nullable_pass (T : Z) (vals : list expr) (nl : list Z) : list Z :=
  fold_left (fun nl '(i, v) =>
      let s := T + Z.of_nat i in
      if mem s nl then nl else if is_nullable nl v then ins s nl else nl)
    (List.combine (seq 0 (length vals)) vals) nl.

Definition nullable_syms (T : Z) (vals : list expr) : list Z :=
  iterate (S (length vals)) (nullable_pass T vals) [].

(* ---------- rules(m) ---------- *)
Record orule := mkORule { o_lhs : Z; o_rhs : list Z; o_set : Z (* -1: none *) }.

(* oneRule.accept (other kinds are a log.Fatal: not reachable on expanded models) *)
Fixpoint accept (e : expr) : list Z :=
  match e with
  | ESeq l => flat_map accept l
  | ERef s _ => [s]
  | EArrow _ _ s | EAssign _ s | EAppend _ s | EPrec _ s => accept s
  | _ => []
  end.

(* TokenSet.ForEach: the symbols of a set expression, following named sets once *)
Fixpoint tset_syms (fuel : nat) (sets : list tset) (seen : list Z) (t : tset) : list Z * list Z (* syms, seen *) :=
  match fuel with
  | O => ([], seen)
  | S f =>
    match t with
    | TSym _ s => ([s], seen)
    | TCompl _ x => tset_syms f sets seen x
    | TUnion l | TInter l =>
        fold_left (fun '(acc, seen) x => let '(r, seen) := tset_syms f sets seen x in (acc ++ r, seen)) l ([], seen)
    | TNamed i => if mem i seen then ([], seen)
                  else tset_syms f sets (i :: seen) (nth (Z.to_nat i) sets (TUnion []))
    end
  end.

Definition la_syms (l : list expr) : list Z :=
  flat_map (fun s => match s with ELaNot (ERef x _) => [x] | ERef x _ => [x] | _ => [] end) l.

Record rst := mkRS { rs_seen : list Z; rs_queue : list Z (* stack, top first *); rs_out : list orule }.

Definition enqueue (T : Z) (st : rst) (sym : Z) : rst :=
  if sym <? T then st else
  let nt := sym - T in
  if mem nt (rs_seen st) then st else mkRS (nt :: rs_seen st) (nt :: rs_queue st) (rs_out st).

Fixpoint rules_loop (fuel : nat) (T : Z) (vals : list expr) (sets : list tset) (st : rst) : rst :=
  match fuel with
  | O => st
  | S f =>
    match rs_queue st with
    | [] => st
    | nt :: rest =>
      let st := mkRS (rs_seen st) rest (rs_out st) in
      let lhs := T + nt in
      let st :=
        match nth (Z.to_nat nt) vals (EChoice []) with
        | ELookahead subs =>
            let st := mkRS (rs_seen st) (rs_queue st) (rs_out st ++ [mkORule lhs [] (-1)]) in
            fold_left (enqueue T) (la_syms subs) st
        | ESet idx =>
            let st := mkRS (rs_seen st) (rs_queue st) (rs_out st ++ [mkORule lhs [] idx]) in
            fold_left (enqueue T) (fst (tset_syms 64 sets [idx] (nth (Z.to_nat idx) sets (TUnion [])))) st
        | EChoice alts =>
            fold_left (fun st alt =>
                let rhs := accept alt in
                let st := fold_left (enqueue T) rhs st in
                mkRS (rs_seen st) (rs_queue st) (rs_out st ++ [mkORule lhs rhs (-1)])) alts st
        | _ => st
        end in
      rules_loop f T vals sets st
    end
  end.

Definition first_eoi_input (inputs : list input) : option Z :=
  match filter (fun i => negb (in_noeoi i)) inputs with i :: _ => Some (in_nt i) | [] => None end.

Definition rules_of (T : Z) (vals : list expr) (sets : list tset) (inputs : list input) : list orule :=
  match first_eoi_input inputs with
  | None => []
  | Some nt => rs_out (rules_loop (S (length vals)) T vals sets (mkRS [nt] [nt] []))
  end.

(* ---------- equation generation ---------- *)
Record est := mkE {
  e_nodes : list cnode;
  e_keys : list (Z * Z * nat);          (* (op, sym) -> node *)
  e_queue : list (Z * Z);               (* stack, top first *)
  e_visited : list (Z * nat);           (* top-level set index -> proxy node *)
  e_compl : list (nat * Z)              (* complement node -> id of the TCompl it came from *)
}.

Definition add_node (st : est) (o : cop) (edges : list nat) (elems : list Z) : nat * est :=
  let id := length (e_nodes st) in
  (id, mkE (e_nodes st ++ [mkNode o edges (mkIntSet false elems)]) (e_keys st) (e_queue st) (e_visited st) (e_compl st)).

Definition note_compl (st : est) (v : nat) (id : Z) : est :=
  mkE (e_nodes st) (e_keys st) (e_queue st) (e_visited st) (e_compl st ++ [(v, id)]).

Definition include (st : est) (v : nat) (ws : list nat) : est :=
  let nd := nth v (e_nodes st) dummy_node in
  mkE (upd (e_nodes st) v (mkNode (n_op nd) (n_edges nd ++ ws) (n_val nd))) (e_keys st) (e_queue st) (e_visited st) (e_compl st).

Fixpoint find_key (op sym : Z) (l : list (Z * Z * nat)) : option nat :=
  match l with
  | [] => None
  | (o, s, v) :: r => if (o =? op) && (s =? sym) then Some v else find_key op sym r
  end.

Definition instantiate (T : Z) (st : est) (op sym : Z) : nat * est :=
  match find_key op sym (e_keys st) with
  | Some v => (v, st)
  | None =>
      if ((op =? 0) || (op =? 1) || (op =? 2)) && (sym <? T) then
        let '(v, st) := add_node st OpUnion [] [sym] in
        (v, mkE (e_nodes st) ((op, sym, v) :: e_keys st) (e_queue st) (e_visited st) (e_compl st))
      else
        let '(v, st) := add_node st OpUnion [] [] in
        (v, mkE (e_nodes st) ((op, sym, v) :: e_keys st) ((op, sym) :: e_queue st) (e_visited st) (e_compl st))
  end.

Fixpoint find_visited (i : Z) (l : list (Z * nat)) : option nat :=
  match l with [] => None | (j, v) :: r => if j =? i then Some v else find_visited i r end.

(* translate; [top] = Some i when s is the pointer Model.Sets[i] *)
Fixpoint translate (fuel : nat) (T : Z) (sets : list tset) (st : est) (top : option Z) (s : tset) : nat * est :=
  match fuel with
  | O => (O, st)
  | S f =>
    match s with
    | TNamed i =>
        match find_visited i (e_visited st) with
        | Some v => (v, st)
        | None => translate f T sets st (Some i) (nth (Z.to_nat i) sets (TUnion []))
        end
    | _ =>
      let '(proxy, st) := add_node st OpUnion [] [] in
      let st := match top with
                | Some i => mkE (e_nodes st) (e_keys st) (e_queue st) ((i, proxy) :: e_visited st) (e_compl st)
                | None => st
                end in
      match s with
      | TSym op sym => let '(v, st) := instantiate T st op sym in (proxy, include st proxy [v])
      | TUnion l =>
          let '(vs, st) := fold_left (fun '(vs, st) x => let '(v, st) := translate f T sets st None x in (vs ++ [v], st)) l ([], st) in
          let '(ret, st) := add_node st OpUnion [] [] in
          let st := include st ret vs in
          (proxy, include st proxy [ret])
      | TInter l =>
          let '(vs, st) := fold_left (fun '(vs, st) x => let '(v, st) := translate f T sets st None x in (vs ++ [v], st)) l ([], st) in
          let '(ret, st) := add_node st OpIntersection vs [] in
          (proxy, include st proxy [ret])
      | TCompl id x =>
          let '(v, st) := translate f T sets st None x in
          let '(ret, st) := add_node st OpComplement [v] [] in
          (proxy, include (note_compl st ret id) proxy [ret])
      | TNamed _ => (proxy, st)
      end
    end
  end.

(* a top-level alias Sets[i] = Sets[j] is represented by (TNamed j) at position i *)
Definition translate_all (T : Z) (sets : list tset) (st : est) : list nat * est :=
  fold_left (fun '(res, st) '(i, s) =>
      let '(v, st) := match s with
                      | TNamed _ => translate 64 T sets st None s
                      | _ => match find_visited (Z.of_nat i) (e_visited st) with
                             | Some v => (v, st)
                             | None => translate 64 T sets st (Some (Z.of_nat i)) s
                             end
                      end in
      (res ++ [v], st)) (List.combine (seq 0 (length sets)) sets) ([], st).

Definition defs_of (rules : list orule) (sym : Z) : list orule := filter (fun r => o_lhs r =? sym) rules.

(* index[sym]: usages (rule, pos) in rule order *)
Definition usages (rules : list orule) (sym : Z) : list (orule * nat) :=
  flat_map (fun r => map (fun p => (r, p)) (filter (fun p => nth p (o_rhs r) (-1) =? sym) (seq 0 (length (o_rhs r))))) rules.

(* scan a symbol string: include op(sym) for each symbol up to and including the first non-nullable one *)
Fixpoint scan (T : Z) (nl : list Z) (op : Z) (st : est) (key : nat) (syms : list Z) : est * bool (* scoped *) :=
  match syms with
  | [] => (st, false)
  | s :: rest =>
      let '(v, st) := instantiate T st op s in
      let st := include st key [v] in
      if mem s nl then scan T nl op st key rest else (st, true)
  end.

Definition include_set (st : est) (key : nat) (result : list nat) (r : orule) : est :=
  if 0 <=? o_set r then include st key [nth (Z.to_nat (o_set r)) result O] else st.

Definition process_key (T : Z) (nl : list Z) (rules : list orule) (result : list nat) (st : est) (op sym : Z) : est :=
  match find_key op sym (e_keys st) with
  | None => st
  | Some key =>
    if op =? 0 then
      fold_left (fun st r =>
          let st := fold_left (fun st s => let '(v, st) := instantiate T st 0 s in include st key [v]) (o_rhs r) st in
          include_set st key result r) (defs_of rules sym) st
    else if op =? 1 then
      fold_left (fun st r => include_set (fst (scan T nl 1 st key (o_rhs r))) key result r) (defs_of rules sym) st
    else if op =? 2 then
      fold_left (fun st r => include_set (fst (scan T nl 2 st key (rev (o_rhs r)))) key result r) (defs_of rules sym) st
    else if op =? 3 then
      fold_left (fun st '(r, pos) =>
          let '(st, scoped) := scan T nl 2 st key (rev (firstn pos (o_rhs r))) in
          if scoped then st else let '(v, st) := instantiate T st 3 (o_lhs r) in include st key [v]) (usages rules sym) st
    else
      fold_left (fun st '(r, pos) =>
          let '(st, scoped) := scan T nl 1 st key (skipn (S pos) (o_rhs r)) in
          if scoped then st else let '(v, st) := instantiate T st 4 (o_lhs r) in include st key [v]) (usages rules sym) st
  end.

Fixpoint queue_loop (fuel : nat) (T : Z) (nl : list Z) (rules : list orule) (result : list nat) (st : est) : est :=
  match fuel with
  | O => st
  | S f =>
    match e_queue st with
    | [] => st
    | (op, sym) :: rest =>
        let st := mkE (e_nodes st) (e_keys st) rest (e_visited st) (e_compl st) in
        queue_loop f T nl rules result (process_key T nl rules result st op sym)
    end
  end.

Inductive sets_result :=
| SetsOk (terms : list (list Z))
| SetsErr (complements : list Z)       (* ids of the offending complements, in report order *)
| SetsOof.

Definition set_terminals (T : Z) (s : intset) : list Z :=
  if inverse s then filter (fun t => negb (existsb (Z.eqb t) (elems s))) (map Z.of_nat (seq 0 (Z.to_nat T)))
  else elems s.

Fixpoint compl_id (v : nat) (l : list (nat * Z)) : Z :=
  match l with [] => -1 | (w, id) :: r => if Nat.eqb v w then id else compl_id v r end.

Definition resolve_sets (T : Z) (vals : list expr) (sets : list tset) (inputs : list input) : sets_result :=
  match sets with
  | [] => SetsOk []
  | _ =>
    let nl := nullable_syms T vals in
    let rules := rules_of T vals sets inputs in
    let '(result, st) := translate_all T sets (mkE [] [] [] [] []) in
    let fuel := (5 * (Z.to_nat T + length vals) + 5)%nat in
    let st := queue_loop fuel T nl rules result st in
    let c := compute (e_nodes st) in
    if c_oof c then SetsOof else
    match c_err c with
    | [] => SetsOk (map (fun v => set_terminals T (n_val (nth v (c_nodes c) dummy_node))) result)
    | errs => SetsErr (map (fun v => compl_id v (e_compl st)) errs)
    end
  end.

(* the rewrite of Set nonterminals at the end of ResolveSets *)
Definition resolved_value (terms : list (list Z)) (v : expr) : expr :=
  match v with
  | ESet i => match nth (Z.to_nat i) terms [] with
              | [] => EChoice [EEmpty]
              | ts => EChoice (map (fun t => ERef t []) ts)
              end
  | _ => v
  end.

(* the equation system ResolveSets hands to Closure.Compute (first part of resolve_sets), and the executable side
   condition of the theorems about it: the node list is what Closure.Add/Intersect/Complement build and the
   Tarjan output satisfies its contract (ClosureCert.closure_certb, proved sound) *)
Definition resolve_est (T : Z) (vals : list expr) (sets : list tset) (inputs : list input) : list nat * est :=
  let nl := nullable_syms T vals in
  let rules := rules_of T vals sets inputs in
  let '(result, st) := translate_all T sets (mkE [] [] [] [] []) in
  let fuel := (5 * (Z.to_nat T + length vals) + 5)%nat in
  (result, queue_loop fuel T nl rules result st).

Definition sets_certb (T : Z) (vals : list expr) (sets : list tset) (inputs : list input) : bool :=
  closure_certb (e_nodes (snd (resolve_est T vals sets inputs))).

(* compiler/syntax.go (load) and compiler/compiler.go: with an `error` terminal the loader adds the named set
   afterErr = set(follow error); a non-empty result turns error recovery on *)
Definition after_err_set (err : Z) : tset := TSym 4 err.
Definition is_recovering (after_err_terms : list Z) : bool := match after_err_terms with [] => false | _ => true end.
