(* Model of syntax/expand.go: Expand (both phases), expandRule, expandExpr, extractNonterm, sortTail,
   concat / multiConcat / collapseEmpty, and Model.Rearrange; with ExpandOptions = DefaultExpandOptions
   (no type callbacks, so no list/optional commands are synthesised) and untyped symbols.
   Executable definitions only. *)
From Coq Require Import List ZArith Bool Arith.
From TM Require Import Util.Ident Syn.Expr.
Import ListNotations.
Local Open Scope Z_scope.

(* ---- concat / multiConcat / collapseEmpty ---- *)
Definition seq_parts (e : expr) : list expr :=
  match e with ESeq l => l | EEmpty => [] | _ => [e] end.

Definition mk_seq (subs : list expr) : expr :=
  match subs with [] => EEmpty | [x] => x | _ => ESeq subs end.

Definition concat_list (l : list expr) : expr := mk_seq (flat_map seq_parts l).
Definition concat2 (a b : expr) : expr := concat_list [a; b].

Definition multi_concat (a b : list expr) : list expr :=
  flat_map (fun x => map (fun y => concat2 x y) b) a.

Definition is_empty_e (e : expr) : bool := match e with EEmpty => true | _ => false end.

Fixpoint drop_later_empties (l : list expr) (seen : bool) : list expr :=
  match l with
  | [] => []
  | r :: rest =>
      if is_empty_e r then (if seen then drop_later_empties rest true else r :: drop_later_empties rest true)
      else r :: drop_later_empties rest seen
  end.

Definition collapse_empty (l : list expr) : list expr :=
  if (Nat.leb (length (filter is_empty_e l)) 1) then l else drop_later_empties l false.

(* ---- expander state ---- *)
Record xst := mkX {
  x_extras : list (bytes * expr);   (* extracted nonterminals, appended after the original ones *)
  x_perm : list nat;
  x_extra : nat;
  x_start : nat;
  x_base : nat;
  x_fatal : bool                    (* log.Fatal("... only simple separators ...") reached *)
}.

Record xctx := mkCtx {
  c_terms : list bytes;
  c_names : list bytes;             (* names of the original nonterminals *)
  c_sets : list tset;
  c_curr : nat
}.

Definition n_orig (c : xctx) : nat := length (c_names c).

Definition nt_name_at (c : xctx) (st : xst) (i : Z) : bytes :=
  let k := Z.to_nat i in
  if Nat.ltb k (n_orig c) then nth k (c_names c) []
  else fst (nth (k - n_orig c) (x_extras st) ([], EEmpty)).

Definition cT (c : xctx) : Z := Z.of_nat (length (c_terms c)).

(* e.m lookup: only extracted nonterminals are registered *)
Fixpoint find_extra (name : bytes) (l : list (bytes * expr)) (k : nat) : option (nat * expr) :=
  match l with
  | [] => None
  | (n, v) :: rest => if bytes_eqb n name then Some (k, v) else find_extra name rest (S k)
  end.

Definition name_taken (name : bytes) (l : list (bytes * expr)) : bool :=
  match find_extra name l 0 with Some _ => true | None => false end.

Fixpoint fresh_name (fuel : nat) (base : bytes) (index : Z) (l : list (bytes * expr)) : bytes :=
  match fuel with
  | O => base ++ itoa index
  | S f => let n := base ++ itoa index in if name_taken n l then fresh_name f base (index + 1) l else n
  end.

(* extractNonterm *)
Definition extract (c : xctx) (st : xst) (e : expr) : expr * xst :=
  let name := prov_name (c_terms c) (nt_name_at c st) (c_sets c) e in
  let reuse := match find_extra name (x_extras st) 0 with
               | Some (k, v) => if expr_eqb e v then Some k else None
               | None => None
               end in
  match reuse with
  | Some k => (ERef (cT c + Z.of_nat (n_orig c + k)) [], st)
  | None =>
      let name :=
        if is_nil name || name_taken name (x_extras st) then
          let base := if is_nil name then nth (c_curr c) (c_names c) [] ++ [36] else name in
          fresh_name (S (length (x_extras st))) base 1 (x_extras st)
        else name in
      let idx := (n_orig c + length (x_extras st))%nat in
      let extra := S (x_extra st) in
      (ERef (cT c + Z.of_nat idx) [],
       mkX (x_extras st ++ [(name, e)]) (x_perm st ++ [(c_curr c + extra)%nat]) extra (x_start st) (x_base st) (x_fatal st))
  end.

Definition set_fatal (st : xst) : xst :=
  mkX (x_extras st) (x_perm st) (x_extra st) (x_start st) (x_base st) true.

(* expandExpr *)
Fixpoint expand_expr (c : xctx) (st : xst) (e : expr) {struct e} : list expr * xst :=
  match e with
  | EEmpty => ([e], st)
  | EOpt s => let '(r, st) := expand_expr c st s in (r ++ [EEmpty], st)
  | ESeq subs =>
      (fix go (subs : list expr) (acc : list expr) (st : xst) {struct subs} : list expr * xst :=
         match subs with
         | [] => (acc, st)
         | s :: rest => let '(r, st) := expand_expr c st s in go rest (multi_concat acc r) st
         end) subs [EEmpty] st
  | EChoice subs =>
      (fix go (subs : list expr) (st : xst) {struct subs} : list expr * xst :=
         match subs with
         | [] => ([], st)
         | s :: rest => let '(r, st) := expand_expr c st s in
                        let '(r2, st) := go rest st in (r ++ r2, st)
         end) subs st
  | EArrow n f s => let '(r, st) := expand_expr c st s in (map (EArrow n f) r, st)
  | EAssign n s =>
      let '(r, st) := expand_expr c st s in
      (map (fun v => if is_empty_e v then v else EAssign n v) r, st)
  | EAppend n s =>
      let '(r, st) := expand_expr c st s in
      (map (fun v => if is_empty_e v then v else EAppend n v) r, st)
  | ESet _ | ELookahead _ => let '(r, st) := extract c st e in ([r], st)
  | EList fl elem sep =>
      let '(el, st) := expand_expr c st elem in
      let el1 := match el with [x] => x | _ => EChoice el end in
      let '(sep', fl', st) :=
        match sep with
        | None => (None, fl, st)
        | Some s =>
            let '(sp, st) := expand_expr c st s in
            let st := match sp with [_] => st | _ => set_fatal st end in
            (Some (hd EEmpty sp), Z.lor fl 1, st)
        end in
      let '(ret, st) := extract c st (EList fl' el1 sep') in
      if negb (Z.odd fl) && Z.odd fl' then
        let '(ret, st) := extract c st (EOpt ret) in ([ret], st)
      else ([ret], st)
  | _ => ([e], st)
  end.

(* expandRule *)
Definition expand_rule (c : xctx) (st : xst) (rule : expr) : list expr * xst :=
  match rule with
  | EPrec sym s => let '(r, st) := expand_expr c st s in (map (EPrec sym) r, st)
  | _ => expand_expr c st rule
  end.

(* ---- sortTail ---- *)
Fixpoint insert_by_name (names : nat -> bytes) (x : nat) (l : list nat) : list nat :=
  match l with
  | [] => [x]
  | y :: t => if bytes_ltb (names x) (names y) then x :: l else y :: insert_by_name names x t
  end.
Definition sort_by_name (names : nat -> bytes) (l : list nat) : list nat :=
  fold_left (fun acc x => insert_by_name names x acc) l [].

Fixpoint upd_nat (l : list nat) (i : nat) (v : nat) : list nat :=
  match l, i with
  | [], _ => []
  | _ :: t, O => v :: t
  | x :: t, S k => x :: upd_nat t k v
  end.

Definition sort_tail (c : xctx) (st : xst) : xst :=
  let start := x_start st in
  let base := x_base st in
  let size := (x_extra st - base)%nat in
  let st' := mkX (x_extras st) (x_perm st) (x_extra st) (S (c_curr c)) (x_extra st) (x_fatal st) in
  if Nat.eqb size 0 then st' else
  let total := (n_orig c + length (x_extras st))%nat in
  let local := seq start (S (c_curr c) - start) ++ seq (total - size) size in
  let sorted := sort_by_name (fun i => nt_name_at c st (Z.of_nat i)) local in
  let perm := fst (fold_left (fun '(perm, k) nt => (upd_nat perm nt (start + base + k)%nat, S k)) sorted (x_perm st, O)) in
  mkX (x_extras st) perm (x_extra st) (S (c_curr c)) (x_extra st) (x_fatal st).

(* ---- phase 1: the loop over the original nonterminals ---- *)
Definition expand_nonterm (c : xctx) (st : xst) (v : expr) : expr * xst :=
  match v with
  | EChoice rules =>
      let '(out, st) := fold_left (fun '(out, st) rule =>
                           let '(r, st) := expand_rule c st rule in (out ++ r, st)) rules ([], st) in
      (EChoice (collapse_empty out), st)
  | ESet _ | ELookahead _ => (v, st)
  | _ => let '(r, st) := expand_rule c st v in (EChoice (collapse_empty r), st)
  end.

Definition group_at (nts : list nonterm) (i : nat) : Z := nt_group (nth i nts (mkNt [] [] EEmpty 0)).

Definition phase1 (m : model) : list expr * xst :=
  let nts := m_nonterms m in
  let n := length nts in
  let names := map nt_name nts in
  fold_left (fun '(vals, st) i =>
      let c := mkCtx (m_terms m) names (m_sets m) i in
      let st := mkX (x_extras st) (upd_nat (x_perm st) i (i + x_extra st)%nat) (x_extra st) (x_start st) (x_base st) (x_fatal st) in
      let '(v, st) := expand_nonterm c st (nt_value (nth i nts (mkNt [] [] EEmpty 0))) in
      let delay := (0 <? group_at nts i) && Nat.ltb (S i) n && (group_at nts i =? group_at nts (S i)) in
      (vals ++ [v], if delay then st else sort_tail c st))
    (seq 0 n) ([], mkX [] (repeat O n) O O O false).

(* ---- Rearrange ---- *)
Definition perm_sym (T : Z) (perm : list nat) (s : Z) : Z :=
  if s <? T then s else T + Z.of_nat (nth (Z.to_nat (s - T)) perm O).

Fixpoint rename_expr (f : Z -> Z) (e : expr) : expr :=
  match e with
  | EEmpty | ESet _ | EMarker _ | ECmd _ => e
  | EOpt s => EOpt (rename_expr f s)
  | EChoice l => EChoice (map (rename_expr f) l)
  | ESeq l => ESeq (map (rename_expr f) l)
  | ERef s a => ERef (f s) a
  | EAssign n s => EAssign n (rename_expr f s)
  | EAppend n s => EAppend n (rename_expr f s)
  | EArrow n fl s => EArrow n fl (rename_expr f s)
  | ELookahead l => ELookahead (map (rename_expr f) l)
  | ELaNot s => ELaNot (rename_expr f s)
  | EList fl el sep => EList fl (rename_expr f el) (option_map (rename_expr f) sep)
  | ECond p s => ECond p (rename_expr f s)
  | EPrec sym s => EPrec sym (rename_expr f s)
  end.

Fixpoint rename_tset (f : Z -> Z) (t : tset) : tset :=
  match t with
  | TSym op s => TSym op (f s)
  | TUnion l => TUnion (map (rename_tset f) l)
  | TInter l => TInter (map (rename_tset f) l)
  | TCompl i s => TCompl i (rename_tset f s)
  | TNamed i => t
  end.

Fixpoint index_of (x : nat) (l : list nat) (k : nat) : nat :=
  match l with [] => k | y :: t => if Nat.eqb x y then k else index_of x t (S k) end.

(* out[perm[i]] = nonterms[i] *)
Definition rearrange_list {A} (perm : list nat) (l : list A) (d : A) : list A :=
  map (fun p => nth (index_of p perm O) l d) (seq 0 (length l)).

(* ---- phase 2: top expressions of the extracted nonterminals ---- *)
Definition expand_top (T : Z) (self : nat) (v : expr) : expr :=
  match v with
  | EOpt s => EChoice [s; EEmpty]
  | EList fl elem sep =>
      let rr := Z.testbit fl 1 in
      let non_empty := Z.odd fl in
      let list_ref := ERef (T + Z.of_nat self) [] in
      let rec := match sep with
                 | None => ESeq [list_ref]
                 | Some s => if rr then concat_list [s; ESeq [list_ref]] else concat_list [ESeq [list_ref]; s]
                 end in
      match elem with
      | ERef _ _ =>
          EChoice [ (if rr then concat_list [elem; rec] else concat_list [rec; elem]);
                    (if non_empty then concat_list [elem] else concat_list [EEmpty]) ]
      | EChoice alts =>
          EChoice ((if rr then multi_concat alts [rec] else multi_concat [rec] alts) ++
                   (if non_empty then alts else [EEmpty]))
      | _ =>
          EChoice [ (if rr then concat_list [elem; rec] else concat_list [rec; elem]);
                    (if non_empty then elem else EEmpty) ]
      end
  | _ => v
  end.

(* phase 2 stops with an internal error on an Optional whose operand is not a reference *)
Definition top_error (v : expr) : bool :=
  match v with EOpt (ERef _ _) => false | EOpt _ => true | _ => false end.

Record xresult := mkRes {
  res_nonterms : list (bytes * expr);
  res_inputs : list input;
  res_sets : list tset;
  res_fatal : bool;
  res_error : bool
}.

Definition expand (m : model) : xresult :=
  let '(vals, st) := phase1 m in
  let T := nterms m in
  let all := combine (map nt_name (m_nonterms m)) vals ++ x_extras st in
  let perm := x_perm st in
  let f := perm_sym T perm in
  let moved := rearrange_list perm all ([], EEmpty) in
  let renamed := map (fun '(n, v) => (n, rename_expr f v)) moved in
  let err := existsb (fun '(_, v) => top_error v) renamed in
  let final := map (fun '(self, (n, v)) => (n, expand_top T self v)) (combine (seq 0 (length renamed)) renamed) in
  mkRes final
        (map (fun i => mkInput (Z.of_nat (nth (Z.to_nat (in_nt i)) perm O)) (in_noeoi i)) (m_inputs m))
        (map (rename_tset f) (m_sets m))
        (x_fatal st) err.

(* ---------- run-time checkable side conditions of the correctness theorem (Expand_correct.v) ---------- *)
Fixpoint nodupb (l : list nat) : bool :=
  match l with [] => true | x :: r => negb (existsb (Nat.eqb x) r) && nodupb r end.

(* the permutation built by sortTail is a permutation of [0, n) *)
Definition perm_ok (perm : list nat) (n : nat) : bool :=
  Nat.eqb (length perm) n && forallb (fun p => Nat.ltb p n) perm && nodupb perm.

Definition expand_checks (m : model) : bool :=
  let '(vals, st) := phase1 m in
  let B := vals ++ map snd (x_extras st) in
  negb (x_fatal st) &&
  forallb (fun nt => bounded (nterms m + Z.of_nat (length (m_nonterms m))) (nt_value nt)) (m_nonterms m) &&
  perm_ok (x_perm st) (length B) &&
  forallb (bounded (nterms m + Z.of_nat (length B))) B.
