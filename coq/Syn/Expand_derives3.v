(* C13: the shape hypothesis of Expand_derives2.to_cfg_language_sets follows from the success of to_cfg and the
   executable check that the grammar it returns mentions no negative symbol. *)
From Coq Require Import List ZArith Bool Arith Lia.
From TM Require Import Util.Ident Gram.Cfg Gram.Derive Syn.Expr Syn.Expand Syn.ExtLang Syn.Expand_proofs Syn.Expand_global
  Syn.Expand_derives Syn.Expand_derives2 Syn.Expand_correct Syn.ExpandWf Syn.Expand_wf_proofs Syn.CfgNonneg.
Import ListNotations.
Local Open Scope Z_scope.

Lemma fold_right_opt_some {A B} (f : A -> option (list B)) (l : list A) rs :
  fold_right (fun x acc => match f x, acc with Some a, Some b => Some (a ++ b) | _, _ => None end) (Some []) l = Some rs ->
  forall x, In x l -> exists a, f x = Some a /\ incl a rs.
Proof.
  revert rs. induction l as [|y l IH]; intros rs H x Hx; [destruct Hx|]. cbn [fold_right] in H.
  destruct (f y) as [a|] eqn:Ef; [|discriminate].
  destruct (fold_right _ (Some []) l) as [b|] eqn:Eb; [|discriminate]. injection H as <-.
  destruct Hx as [<-|Hx].
  - exists a. split; [exact Ef | apply incl_appl, incl_refl].
  - destruct (IH b eq_refl x Hx) as (c & Hc & Hi). exists c. split; [exact Hc | apply incl_appr, Hi].
Qed.

Lemma choice_rules_some X alts rs :
  fold_right (fun a acc => match rhs_of a, acc with Some r, Some rs => Some (mkRule X r 0 :: rs) | _, _ => None end) (Some []) alts = Some rs ->
  forall a, In a alts -> exists rhs, rhs_of a = Some rhs.
Proof.
  revert rs. induction alts as [|b alts IH]; intros rs H a Ha; [destruct Ha|]. cbn [fold_right] in H.
  destruct (rhs_of b) as [rb|] eqn:Eb; [|discriminate].
  destruct (fold_right _ (Some []) alts) as [c|] eqn:Ec; [|discriminate].
  destruct Ha as [<-|Ha]; [eauto | eapply IH; eauto].
Qed.

Lemma to_cfg_shape T setterms vals g :
  to_cfg T setterms vals = Some g -> nonneg_rules g = true ->
  forall k, (k < length vals)%nat ->
    (exists alts, nth k vals (EChoice []) = EChoice alts /\
       forall a, In a alts -> exists rhs, rhs_of a = Some rhs /\ forall s, In s rhs -> 0 <= s) \/
    (exists i, nth k vals (EChoice []) = ESet i) \/
    (exists subs, nth k vals (EChoice []) = ELookahead subs).
Proof.
  intros Hg Hnn k Hk. unfold to_cfg in Hg.
  destruct (fold_right _ (Some []) (List.combine (seq 0 (length vals)) vals)) as [rules|] eqn:Er; [|discriminate].
  injection Hg as <-. unfold nonneg_rules in Hnn. cbn [g_rules] in Hnn. rewrite forallb_forall in Hnn.
  assert (Er' : fold_right (fun x acc => match (fun '(k, v) => rules_of_nonterm setterms (T + Z.of_nat k) v) x, acc with
                                         | Some a, Some b => Some (a ++ b) | _, _ => None end)
                           (Some []) (List.combine (seq 0 (length vals)) vals) = Some rules).
  { rewrite <- Er. clear. induction (List.combine (seq 0 (length vals)) vals) as [|[k v] l IH]; [reflexivity|].
    cbn [fold_right]. now rewrite IH. }
  assert (Hin : In (k, nth k vals (EChoice [])) (List.combine (seq 0 (length vals)) vals)).
  { apply (in_combine_seq vals (EChoice [])). split; auto. }
  destruct (fold_right_opt_some _ _ rules Er' _ Hin) as (rs & Hrs & Hincl). cbn beta iota in Hrs.
  destruct (nth k vals (EChoice [])) as [| ? | alts | ? | ? ? | ? ? | ? ? | ? ? ? | i | ? | ? | subs | ? | ? ? ? | ? ? | ? ?];
    cbn [rules_of_nonterm] in Hrs; try discriminate.
  - left. exists alts. split; [reflexivity|]. intros a Ha.
    destruct (choice_rules_some _ alts rs Hrs a Ha) as (rhs & Erhs). exists rhs. split; [exact Erhs|].
    assert (Hr : In (mkRule (T + Z.of_nat k) rhs 0) rs).
    { apply (rules_of_choice _ alts rs Hrs). exists a. cbn [r_rhs r_lhs r_prec]. auto. }
    specialize (Hnn _ (Hincl _ Hr)). cbn [r_rhs] in Hnn. rewrite forallb_forall in Hnn.
    intros s Hs. apply Z.leb_le. now apply Hnn.
  - right. left. now exists i.
  - right. right. now exists subs.
Qed.

(* the bridge with executable side conditions only *)
Theorem to_cfg_language_checked T (setden : Z -> Z -> Prop) setterms vals g :
  0 <= T ->
  to_cfg T setterms vals = Some g -> nonneg_rules g = true ->
  (forall i a, setden i a <-> In a (setterms i)) ->
  (forall i a, In a (setterms i) -> 0 <= a < T) ->
  forall X w, T <= X -> (lfp T setden vals X w <-> derives g X w).
Proof.
  intros HT Hg Hnn Hs Hr. apply (to_cfg_language_sets T setden setterms vals g HT Hg Hs Hr).
  exact (to_cfg_shape T setterms vals g Hg Hnn).
Qed.

(* FULL statement of C13 with derivations; hypotheses: the static wf_model, the success of to_cfg on the expanded
   model, no negative symbol in the grammar it returns (both executable), and correctly resolved sets *)
Theorem expand_correct_derives_checked (setden : Z -> Z -> Prop) setterms m g :
  wf_model m = true ->
  to_cfg (nterms m) setterms (map snd (res_nonterms (expand m))) = Some g -> nonneg_rules g = true ->
  (forall i a, setden i a <-> In a (setterms i)) ->
  (forall i a, In a (setterms i) -> 0 <= a < nterms m) ->
  forall X, nterms m <= X < nterms m + Z.of_nat (length (m_nonterms m)) -> forall w,
    lfp (nterms m) setden (map nt_value (m_nonterms m)) X w <->
    derives g (perm_sym (nterms m) (x_perm (snd (phase1 m))) X) w.
Proof.
  intros Hwf Hg Hnn Hs Hr. apply (expand_correct_derives setden setterms m g Hwf Hg Hs Hr).
  intros k Hk. apply (to_cfg_shape _ setterms _ g Hg Hnn). now rewrite map_length.
Qed.
