(* Closed set expressions over a plain grammar: the evaluation from the proved tables is the declarative meaning. *)
From Coq Require Import List ZArith Bool Arith Lia.
From TM Require Import Gram.Cfg Syn.Expr Syn.Sets Syn.SetsSpec Syn.SetsSpec_proofs Syn.SetsSpec_proofs2.
Import ListNotations.
Local Open Scope Z_scope.

Section TsetInd.
  Variable P : tset -> Prop.
  Hypothesis Hsym : forall op s, P (TSym op s).
  Hypothesis Hunion : forall l, Forall P l -> P (TUnion l).
  Hypothesis Hinter : forall l, Forall P l -> P (TInter l).
  Hypothesis Hcompl : forall i t, P t -> P (TCompl i t).
  Hypothesis Hnamed : forall i, P (TNamed i).
  Fixpoint tset_ind2 (t : tset) : P t :=
    let fix all (l : list tset) : Forall P l :=
      match l with [] => Forall_nil P | x :: r => Forall_cons x (tset_ind2 x) (all r) end in
    match t with
    | TSym op s => Hsym op s
    | TUnion l => Hunion l (all l)
    | TInter l => Hinter l (all l)
    | TCompl i x => Hcompl i x (tset_ind2 x)
    | TNamed i => Hnamed i
    end.
End TsetInd.

Theorem mem_set_exact T rules tb :
  (forall r, In r rules -> T <= fst r) ->
  all_tables T rules = Some tb ->
  forall t, closed_tset t = true -> forall a, (mem_set T tb t a = true <-> set_den T rules t a).
Proof.
  intros Hlhs Hall. unfold all_tables, plain_table in Hall.
  destruct (spec_nullable rules) as [nl|] eqn:En; [|discriminate].
  pose proof (spec_nullable_exact rules nl En) as Hnl.
  cbn [Z.eqb] in Hall.
  destruct (spec_any T rules) as [ta|] eqn:Ea; [|discriminate].
  destruct (spec_first T nl rules) as [tf|] eqn:Ef; [|discriminate].
  destruct (spec_last T nl rules) as [tl|] eqn:El; [|discriminate].
  destruct (spec_precede T nl tl rules) as [tp|] eqn:Ep; [|discriminate].
  destruct (spec_follow T nl tf rules) as [tfo|] eqn:Efo; [|discriminate].
  injection Hall as <-.
  pose proof (spec_any_exact T rules Hlhs ta Ea) as HA.
  pose proof (spec_first_exact T rules nl Hnl Hlhs tf Ef) as HF.
  pose proof (spec_last_exact T rules nl Hnl Hlhs tl El) as HL.
  pose proof (spec_precede_exact T rules nl tl tp Hnl Hlhs HL Ep) as HP.
  pose proof (spec_follow_exact T rules nl Hnl tf HF tfo Efo) as HFo.
  induction t using tset_ind2; intros Hc a; cbn [closed_tset] in Hc; cbn [mem_set set_den tb_any tb_first tb_last tb_precede tb_follow].
  - unfold op_in. destruct (op =? 0); [apply HA|]. destruct (op =? 1); [apply HF|]. destruct (op =? 2); [apply HL|].
    destruct (op =? 3); [apply HP|]. destruct (op =? 4); [apply HFo|]. split; [discriminate | tauto].
  - induction H as [|x l Hx Hl IH]; cbn [existsb]; [split; [discriminate | tauto]|].
    cbn [forallb] in Hc. apply andb_true_iff in Hc as [Hc1 Hc2]. rewrite orb_true_iff, (Hx Hc1 a), (IH Hc2). tauto.
  - induction H as [|x l Hx Hl IH]; cbn [forallb]; [tauto|].
    cbn [forallb] in Hc. apply andb_true_iff in Hc as [Hc1 Hc2]. rewrite andb_true_iff, (Hx Hc1 a), (IH Hc2). tauto.
  - rewrite negb_true_iff. specialize (IHt Hc a). destruct (mem_set _ _ t a).
    + split; [discriminate|]. intro H. exfalso. apply H. now apply IHt.
    + split; [|reflexivity]. intros _ Hs. apply IHt in Hs. discriminate.
  - discriminate.
Qed.

(* the evaluated set: the terminals of [0,T) in the declarative meaning of the expression *)
Theorem eval_set_exact T rules tb :
  (forall r, In r rules -> T <= fst r) ->
  all_tables T rules = Some tb ->
  forall t, closed_tset t = true -> forall a, In a (eval_set T tb t) <-> (0 <= a < T /\ set_den T rules t a).
Proof.
  intros Hlhs Hall t Hc a. unfold eval_set. rewrite filter_In, in_map_iff, (mem_set_exact T rules tb Hlhs Hall t Hc a). split.
  - intros [(k & <- & Hk) Hs]. apply in_seq in Hk. split; [lia | exact Hs].
  - intros [Hr Hs]. split; [|exact Hs]. exists (Z.to_nat a). split; [lia | apply in_seq; lia].
Qed.

(* afterErr: the set the compiler adds for an `error` terminal denotes follow(error); on a plain grammar its
   proved evaluation is exactly the terminals that can follow `error`, and recovery is on iff there is one *)
Theorem after_err_exact T rules tb err :
  (forall r, In r rules -> T <= fst r) -> all_tables T rules = Some tb ->
  (forall a, set_den T rules (after_err_set err) a <-> follow_in T rules err a) /\
  (forall a, In a (eval_set T tb (after_err_set err)) <-> (0 <= a < T /\ follow_in T rules err a)) /\
  (is_recovering (eval_set T tb (after_err_set err)) = true <-> exists a, 0 <= a < T /\ follow_in T rules err a).
Proof.
  intros Hl Ht.
  assert (H2 : forall a, In a (eval_set T tb (after_err_set err)) <-> (0 <= a < T /\ follow_in T rules err a)).
  { intro a. exact (eval_set_exact T rules tb Hl Ht (after_err_set err) eq_refl a). }
  split; [intro a; reflexivity|]. split; [exact H2|].
  destruct (eval_set T tb (after_err_set err)) as [|a l] eqn:E; cbn [is_recovering].
  - split; [discriminate|]. intros [a Ha]. apply H2 in Ha. destruct Ha.
  - split; [|reflexivity]. intros _. exists a. apply H2. now left.
Qed.
