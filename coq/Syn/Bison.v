(* Model of the Bison export: grammar/gen.go (Parser.RulesByNonterm, Grammar.ExprString,
   Grammar.TokensWithoutPrec) and the line skeleton of gen/templates/bison.go.tmpl (everything but the
   rewritten action code).  Strings are byte lists.  Executable definitions only. *)
From Coq Require Import List ZArith Bool Arith.
From TM Require Import Util.Ident Syn.Expr.
Import ListNotations.
Local Open Scope Z_scope.

(* ---------- RulesByNonterm ---------- *)
Section Group.
  Context {A : Type}.

  Fixpoint add_to_group (lhs : Z) (r : A) (groups : list (Z * list A)) : list (Z * list A) :=
    match groups with
    | [] => [(lhs, [r])]
    | (x, rs) :: rest => if x =? lhs then (x, rs ++ [r]) :: rest else (x, rs) :: add_to_group lhs r rest
    end.

  Definition rules_by_nonterm (rules : list (Z * A)) : list (Z * list A) :=
    fold_left (fun groups '(lhs, r) => add_to_group lhs r groups) rules [].
End Group.

(* ---------- ExprString ---------- *)
Definition s_empty : bytes := [37; 101; 109; 112; 116; 121].          (* "%empty" *)
Definition s_prec : bytes := [32; 37; 112; 114; 101; 99; 32].         (* " %prec " *)
Definition s_mark_open : bytes := [47; 42; 46].                        (* "/*." *)
Definition s_mark_close : bytes := [42; 47].                           (* "*/" *)

Section ExprString.
  Variable sym_name : Z -> bytes.   (* Reference: terminal ID / nonterminal name (Expr.String with the model) *)
  Variable sym_id : Z -> bytes.     (* Syms[s].ID, for %prec *)

  (* None = log.Fatalf("cannot stringify kind") *)
  Fixpoint expr_string (e : expr) : option bytes :=
    match e with
    | EEmpty => Some s_empty
    | EPrec s x => match expr_string x with Some r => Some (r ++ s_prec ++ sym_id s) | None => None end
    | EAssign _ x | EAppend _ x | EArrow _ _ x => expr_string x
    | ESeq l =>
        let r := fold_left (fun acc x =>
                   match acc, expr_string x with
                   | Some buf, Some inner =>
                       if is_nil inner || bytes_eqb inner s_empty then Some buf
                       else Some (if is_nil buf then inner else buf ++ [32] ++ inner)
                   | _, _ => None
                   end) l (Some []) in
        match r with
        | Some [] => Some s_empty
        | other => other
        end
    | ERef s _ => Some (sym_name s)
    | EMarker n => Some (s_mark_open ++ n ++ s_mark_close)
    | ECmd _ => Some []
    | _ => None
    end.

  (* the same rule as a list of words (what a reader splitting on spaces sees) *)
  Inductive word := WSym (s : Z) | WMarker (n : bytes) | WPrec (s : Z).

  Fixpoint expr_words (e : expr) : list word :=
    match e with
    | EPrec s x => expr_words x ++ [WPrec s]
    | EAssign _ x | EAppend _ x | EArrow _ _ x => expr_words x
    | ESeq l => flat_map expr_words l
    | ERef s _ => [WSym s]
    | EMarker n => [WMarker n]
    | _ => []
    end.
End ExprString.

Definition word_syms (ws : list word) : list Z :=
  flat_map (fun w => match w with WSym s => [s] | _ => [] end) ws.

(* ---------- the file skeleton ---------- *)
Record bsym := mkBSym { b_name : bytes; b_id : bytes }.

Record brule := mkBRule { br_lhs : Z; br_value : expr; br_has_code : bool }.

Record bgrammar := mkBG {
  bg_syms : list bsym;
  bg_tokens : Z;                               (* NumTokens *)
  bg_inputs : list (Z * bool);                 (* nonterminal index, no-eoi *)
  bg_prec : list (Z * list Z);                 (* associativity (0 left, 1 right, 2 nonassoc), terminals *)
  bg_rules : list brule;
  bg_lookaheads : list (Z * list (Z * bool))   (* lookahead nonterminal symbol -> (symbol, negated) *)
}.

Definition nl : bytes := [10].
Definition sym_at (g : bgrammar) (s : Z) : bsym := nth (Z.to_nat s) (bg_syms g) (mkBSym [] []).
(* Reference printing: terminals by ID (syntax.Terminal.Name = ID), nonterminals by name *)
Definition ref_text (g : bgrammar) (s : Z) : bytes :=
  if s <? bg_tokens g then b_id (sym_at g s) else b_name (sym_at g s).

Definition assoc_text (a : Z) : bytes :=
  if a =? 0 then [108;101;102;116] else if a =? 1 then [114;105;103;104;116]
  else [110;111;110;97;115;115;111;99].

(* TokensWithoutPrec *)
Definition tokens_without_prec (g : bgrammar) : list Z :=
  let used := flat_map snd (bg_prec g) in
  filter (fun t => negb (existsb (Z.eqb t) used)) (map Z.of_nat (seq 0 (Z.to_nat (bg_tokens g)))).

Definition s_start : bytes := [37;115;116;97;114;116;32].                 (* "%start " *)
Definition s_noeoi : bytes := [32;47;47;32;110;111;45;101;111;105].       (* " // no-eoi" *)
Definition s_token : bytes := [37;116;111;107;101;110;32].                (* "%token " *)
Definition s_pp : bytes := [37;37].                                       (* "%%" *)
Definition s_la : bytes := [47;47;32;108;111;111;107;97;104;101;97;100;58;32].  (* "// lookahead: " *)
Definition s_amp : bytes := [32;38;32].                                   (* " & " *)

Fixpoint join (sep : bytes) (l : list bytes) : bytes :=
  match l with [] => [] | [x] => x | x :: r => x ++ sep ++ join sep r end.

Definition lookahead_of (g : bgrammar) (x : Z) : option (list (Z * bool)) :=
  match filter (fun p => fst p =? x) (bg_lookaheads g) with (_, l) :: _ => Some l | [] => None end.

(* the text of the .y file without the action lines; None when ExprString would abort *)
Definition bison_text (g : bgrammar) : option bytes :=
  let header := [37;123] ++ nl ++ [37;125] ++ nl in
  let starts := flat_map (fun '(nt, noeoi) =>
      nl ++ s_start ++ b_name (sym_at g (bg_tokens g + nt)) ++ (if noeoi : bool then s_noeoi else [])) (bg_inputs g) in
  let precs := flat_map (fun '(a, ts) =>
      nl ++ [37] ++ assoc_text a ++ flat_map (fun t => [32] ++ b_id (sym_at g t)) ts) (bg_prec g) in
  let toks := flat_map (fun t => nl ++ s_token ++ b_id (sym_at g t)) (tl (tokens_without_prec g)) in
  let groups := rules_by_nonterm (map (fun r => (br_lhs r, r)) (bg_rules g)) in
  let group_text :=
    fold_left (fun acc '(x, rs) =>
      match acc with
      | None => None
      | Some txt =>
        let la := lookahead_of g x in
        let la_line := match la with
                       | Some l => s_la ++ join s_amp (map (fun '(s, neg) => (if neg : bool then [33] else []) ++ ref_text g s) l) ++ nl
                       | None => []
                       end in
        let rules_txt :=
          fold_left (fun acc '(i, r) =>
            match acc with
            | None => None
            | Some t =>
              let body := match la with
                          | Some _ => Some s_empty
                          | None => expr_string (ref_text g) (fun s => b_id (sym_at g s)) (br_value r)
                          end in
              match body with
              | Some b => Some (t ++ nl ++ (if Nat.eqb i 0 then [32;32] else [124;32]) ++ b)
              | None => None
              end
            end) (List.combine (seq 0 (length rs)) rs) (Some []) in
        match rules_txt with
        | Some rt => Some (txt ++ nl ++ nl ++ la_line ++ b_name (sym_at g x) ++ [32;58] ++ rt ++ nl ++ [59])
        | None => None
        end
      end) groups (Some []) in
  match group_text with
  | Some gt => Some (header ++ starts ++ nl ++ precs ++ toks ++ nl ++ nl ++ s_pp ++ gt ++ nl ++ nl ++ s_pp ++ nl ++ nl)
  | None => None
  end.
