(* Semantics of the extended notation (the meaning C13 refers to):
   - [den]: declarative denotation of an expression as a language, given the languages of the nonterminals;
   - [ext_derives]: an executable chart recogniser working directly on the Expr trees (specification
     oracle; never the proof);
   - [to_cfg]: reading an expanded model as a plain Cfg.grammar (what generateTables does with it).
   Executable definitions and Prop-valued definitions only, no proofs. *)
From Coq Require Import List ZArith Bool Arith.
From TM Require Import Gram.Cfg Syn.Expr.
Import ListNotations.
Local Open Scope Z_scope.

Definition lang := list Z -> Prop.

Fixpoint lang_any (ls : list lang) : lang :=
  match ls with [] => fun _ => False | l :: r => fun w => l w \/ lang_any r w end.

Fixpoint lang_cat (ls : list lang) : lang :=
  match ls with
  | [] => fun w => w = []
  | l :: r => fun w => exists w1 w2, w = w1 ++ w2 /\ l w1 /\ lang_cat r w2
  end.

(* E (S E)* *)
Inductive plus_sep (E S : lang) : lang :=
| ps_one w : E w -> plus_sep E S w
| ps_more w1 s w2 : plus_sep E S w1 -> S s -> E w2 -> plus_sep E S (w1 ++ s ++ w2).

Definition lang_eps : lang := fun w => w = [].

Section Den.
  Variable T : Z.                       (* number of terminals *)
  Variable rho : Z -> lang.             (* language of a nonterminal symbol (>= T) *)
  Variable setden : Z -> Z -> Prop.     (* set index -> its terminals *)

  Fixpoint den (e : expr) : lang :=
    match e with
    | EEmpty | EMarker _ | ECmd _ | ELookahead _ | ELaNot _ => lang_eps
    | EOpt s => fun w => w = [] \/ den s w
    | EChoice l => lang_any (map den l)
    | ESeq l => lang_cat (map den l)
    | ERef s _ => if s <? T then (fun w => w = [s]) else rho s
    | ESet i => fun w => exists a, w = [a] /\ setden i a
    | EArrow _ _ s | EAssign _ s | EAppend _ s | EPrec _ s | ECond _ s => den s
    | EList fl el sep =>
        let E := den el in
        let S := match sep with None => lang_eps | Some s => den s end in
        fun w => (Z.odd fl = false /\ w = []) \/ plus_sep E S w
    end.
End Den.

(* step-indexed least fixpoint: the language of nonterminal symbol X of a model given as a value table *)
Section Lfp.
  Variable T : Z.
  Variable vals : list expr.            (* value of nonterminal k at position k *)
  Variable setden : Z -> Z -> Prop.

  Fixpoint lang_n (n : nat) (X : Z) : lang :=
    match n with
    | O => fun _ => False
    | S k => fun w => T <= X /\ den T (lang_n k) setden (nth (Z.to_nat (X - T)) vals (EChoice [])) w
    end.

  Definition ext_lang (X : Z) : lang := fun w => exists n, lang_n n X w.
End Lfp.

(* ---------- executable recogniser on the Expr trees ---------- *)
Fixpoint nat_ins (x : nat) (l : list nat) : list nat :=
  match l with
  | [] => [x]
  | y :: t => if Nat.ltb x y then x :: l else if Nat.eqb x y then l else y :: nat_ins x t
  end.
Definition nat_union (a b : list nat) : list nat := fold_left (fun acc x => nat_ins x acc) a b.
Definition nat_bind (s : list nat) (f : nat -> list nat) : list nat :=
  fold_left (fun acc p => nat_union (f p) acc) s [].

Section Rec.
  Variable T : Z.
  Variable setterms : Z -> list Z.
  Variable w : list Z.
  Let n := length w.

  (* chart : position i * (n+1) + j -> nonterminal symbols deriving w[i..j) *)
  Variable c : list (list Z).

  Definition tok (i : nat) : Z := nth i w (-1).

  Fixpoint iter_ends (fuel : nat) (step : list nat -> list nat) (s : list nat) : list nat :=
    match fuel with O => s | S f => iter_ends f step (nat_union (step s) s) end.

  (* ends e i : the positions j such that e derives w[i..j) *)
  Fixpoint ends (e : expr) (i : nat) {struct e} : list nat :=
    match e with
    | EEmpty | EMarker _ | ECmd _ | ELookahead _ | ELaNot _ => [i]
    | EOpt s => nat_ins i (ends s i)
    | EChoice l => fold_left (fun acc f => nat_union (f i) acc) (map ends l) []
    | ESeq l => fold_left (fun starts f => nat_bind starts f) (map ends l) [i]
    | ERef s _ =>
        if s <? T then (if Nat.ltb i n && (tok i =? s) then [S i] else [])
        else filter (fun j => mem s (nth (i * S n + j) c [])) (seq i (S n - i))
    | ESet k => if Nat.ltb i n && mem (tok i) (setterms k) then [S i] else []
    | EArrow _ _ s | EAssign _ s | EAppend _ s | EPrec _ s | ECond _ s => ends s i
    | EList fl el sep =>
        let fe := ends el in
        let fs := match sep with None => (fun p => [p]) | Some s => ends s end in
        let plus := iter_ends (S n) (fun s => nat_bind (nat_bind s fs) fe) (fe i) in
        if Z.odd fl then plus else nat_ins i plus
    end.
End Rec.

Definition ext_chart_step (T : Z) (setterms : Z -> list Z) (vals : list expr) (w : list Z) (c : list (list Z)) : list (list Z) :=
  let n := length w in
  map (fun k =>
      let i := (k / S n)%nat in let j := (k mod S n)%nat in
      if (i <=? j)%nat then
        fold_left (fun acc '(x, v) =>
            if existsb (Nat.eqb j) (ends T setterms w c v i) then ins (T + Z.of_nat x) acc else acc)
          (combine (seq 0 (length vals)) vals) (nth k c [])
      else []) (seq 0 (S n * S n)).

Definition chart_count (c : list (list Z)) : nat := fold_left (fun s l => (s + length l)%nat) c 0%nat.

Fixpoint ext_chart_fix (fuel : nat) (T : Z) (setterms : Z -> list Z) (vals : list expr) (w : list Z) (c : list (list Z)) :=
  match fuel with
  | O => c
  | S f => let c' := ext_chart_step T setterms vals w c in
           if Nat.eqb (chart_count c') (chart_count c) then c else ext_chart_fix f T setterms vals w c'
  end.

(* does nonterminal symbol X of the extended model derive w? *)
Definition ext_derives (T : Z) (setterms : Z -> list Z) (vals : list expr) (X : Z) (w : list Z) : bool :=
  let n := length w in
  let c := ext_chart_fix (S (S n * S n * length vals)) T setterms vals w (repeat [] (S n * S n)) in
  mem X (nth n c []).

(* ---------- an expanded model as a plain grammar ---------- *)
(* oneRule.accept / the traverse of generateTables: the symbols of a flat rule; None = not flat *)
Fixpoint rhs_of (e : expr) : option (list Z) :=
  match e with
  | EEmpty | EMarker _ | ECmd _ => Some []
  | ERef s _ => Some [s]
  | ESeq l => fold_right (fun r acc => match r, acc with Some a, Some b => Some (a ++ b) | _, _ => None end)
                         (Some []) (map rhs_of l)
  | EArrow _ _ s | EAssign _ s | EAppend _ s | EPrec _ s => rhs_of s
  | _ => None
  end.

Definition rules_of_nonterm (setterms : Z -> list Z) (X : Z) (v : expr) : option (list rule) :=
  match v with
  | EChoice alts =>
      fold_right (fun a acc => match rhs_of a, acc with
                               | Some r, Some rs => Some (mkRule X r 0 :: rs) | _, _ => None end) (Some []) alts
  | ESet i => Some (map (fun a => mkRule X [a] 0) (setterms i))
  | ELookahead _ => Some [mkRule X [] 0]
  | _ => None
  end.

Definition to_cfg (T : Z) (setterms : Z -> list Z) (vals : list expr) : option grammar :=
  let rs := fold_right (fun '(k, v) acc =>
                match rules_of_nonterm setterms (T + Z.of_nat k) v, acc with
                | Some a, Some b => Some (a ++ b) | _, _ => None end)
              (Some []) (combine (seq 0 (length vals)) vals) in
  match rs with
  | Some rules => Some (mkGrammar T (Z.of_nat (length vals)) rules [] [])
  | None => None
  end.

(* all words over terminals [lo, T) of length <= n *)
Fixpoint words_upto (alphabet : list Z) (n : nat) : list (list Z) :=
  match n with
  | O => [[]]
  | S k => let ws := words_upto alphabet k in
           ws ++ flat_map (fun w => if Nat.eqb (length w) k then map (fun a => a :: w) alphabet else []) ws
  end.
