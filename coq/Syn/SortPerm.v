(* Insertion sort builds a permutation; the inverse permutation read off with index_of satisfies perm_ok.
   Shared by the proofs about Instantiate (final sort) and Expand (sortTail). *)
From Coq Require Import List Arith Bool Lia Permutation.
From TM Require Import Syn.Expand.
Import ListNotations.

Lemma index_of_ge x : forall l k, k <= index_of x l k.
Proof.
  induction l as [|y l IH]; intro k; cbn [index_of]; [lia|].
  destruct (Nat.eqb x y); [lia|]. specialize (IH (S k)). lia.
Qed.

Lemma index_of_lt x : forall l k, In x l -> index_of x l k < k + length l.
Proof.
  induction l as [|y l IH]; intros k H; [destruct H|]. cbn [index_of length].
  destruct (Nat.eqb x y) eqn:E; [lia|]. apply Nat.eqb_neq in E.
  destruct H as [H|H]; [congruence|]. specialize (IH (S k) H). lia.
Qed.

Lemma index_of_nth_in x : forall l k, In x l -> nth (index_of x l k - k) l O = x.
Proof.
  induction l as [|y l IH]; intros k H; [destruct H|]. cbn [index_of].
  destruct (Nat.eqb x y) eqn:E.
  - apply Nat.eqb_eq in E. subst. now rewrite Nat.sub_diag.
  - apply Nat.eqb_neq in E. destruct H as [H|H]; [congruence|].
    pose proof (index_of_ge x l (S k)) as Hge.
    replace (index_of x l (S k) - k) with (S (index_of x l (S k) - S k)) by lia. cbn [nth]. now apply IH.
Qed.

Lemma index_of_inj l x y k : In x l -> In y l -> index_of x l k = index_of y l k -> x = y.
Proof. intros Hx Hy E. rewrite <- (index_of_nth_in x l k Hx), <- (index_of_nth_in y l k Hy). now rewrite E. Qed.

Lemma NoDup_nodupb l : NoDup l -> nodupb l = true.
Proof.
  induction 1 as [|x l Hn Hd IH]; [reflexivity|]. cbn [nodupb]. rewrite IH, andb_true_r. apply negb_true_iff.
  destruct (existsb (Nat.eqb x) l) eqn:E; [|reflexivity]. exfalso. apply Hn.
  apply existsb_exists in E as [y [Hy E]]. apply Nat.eqb_eq in E. now subst.
Qed.

Lemma NoDup_map_on {A B} (f : A -> B) l : NoDup l ->
  (forall x y, In x l -> In y l -> f x = f y -> x = y) -> NoDup (map f l).
Proof.
  induction 1 as [|a l Hn Hd IH]; intro Hinj; cbn [map]; constructor.
  - intro Hin. apply in_map_iff in Hin as [b [E Hb]]. apply Hn.
    rewrite (Hinj a b (or_introl eq_refl) (or_intror Hb) (eq_sym E)). exact Hb.
  - apply IH. intros x y Hx Hy. apply Hinj; now right.
Qed.

(* perm[k] = position of k in a list that is a permutation of 0..n-1 *)
Theorem inverse_perm_ok S n : Permutation S (seq 0 n) ->
  perm_ok (map (fun k => index_of k S 0) (seq 0 n)) n = true.
Proof.
  intro HP. unfold perm_ok.
  assert (Hin : forall k, In k (seq 0 n) -> In k S) by (intros k Hk; eapply Permutation_in; [apply Permutation_sym; exact HP|exact Hk]).
  assert (Hlen : length S = n) by (rewrite (Permutation_length HP); apply seq_length).
  rewrite map_length, seq_length, Nat.eqb_refl. cbn [andb]. apply andb_true_iff. split.
  - apply forallb_forall. intros p Hp. apply in_map_iff in Hp as [k [<- Hk]]. apply Nat.ltb_lt.
    pose proof (index_of_lt k S 0 (Hin k Hk)). lia.
  - apply NoDup_nodupb. apply NoDup_map_on; [apply seq_NoDup|].
    intros x y Hx Hy E. exact (index_of_inj S x y 0 (Hin x Hx) (Hin y Hy) E).
Qed.
