(* Reading the exported .y file back (Syn/BisonRead.v): for a well-formed grammar (bison_wf, a boolean) the
   reader applied to the model's rendering of the rule section returns exactly the rules, grouped by
   nonterminal, with their right-hand side symbols and %prec terminals. *)
From Coq Require Import List ZArith Bool Arith Lia.
From TM Require Import Util.Ident Syn.Expr Syn.Expand_proofs Syn.Sets Syn.Bison Syn.Bison_proofs Syn.BisonRead.
Import ListNotations.
Local Open Scope Z_scope.

(* ---------- strings ---------- *)
Lemma split_on_nosep sep w : ~ In sep w -> split_on sep w = [w].
Proof.
  induction w as [|c w IH]; intro H; [reflexivity|]. cbn [split_on].
  destruct (Z.eqb_spec c sep) as [->|N]; [exfalso; apply H; now left|].
  rewrite IH by (intro K; apply H; now right). reflexivity.
Qed.

Lemma split_on_app sep w rest : ~ In sep w -> split_on sep (w ++ sep :: rest) = w :: split_on sep rest.
Proof.
  induction w as [|c w IH]; intro H; cbn [app split_on].
  - now rewrite Z.eqb_refl.
  - destruct (Z.eqb_spec c sep) as [->|N]; [exfalso; apply H; now left|].
    rewrite IH by (intro K; apply H; now right). reflexivity.
Qed.

Definition unl (L : list bytes) : bytes := flat_map (fun l => nl ++ l) L.

Lemma unl_app L1 L2 : unl (L1 ++ L2) = unl L1 ++ unl L2.
Proof. apply flat_map_app. Qed.

Lemma split_on_unl L : Forall (fun l => ~ In 10 l) L ->
  forall first, ~ In 10 first -> split_on 10 (first ++ unl L) = first :: L.
Proof.
  induction 1 as [|a L Ha HL IH]; intros first Hf.
  - cbn. rewrite app_nil_r. now apply split_on_nosep.
  - cbn [unl flat_map]. unfold nl. cbn [app]. rewrite split_on_app by exact Hf. f_equal. apply IH. exact Ha.
Qed.

Lemma words_join ws : Forall spaceless ws -> words (join [32] ws) = ws.
Proof.
  unfold words. induction ws as [|a ws IH]; intro H; [reflexivity|].
  inversion H as [|? ? [Ha Hsp] Hws]; subst. destruct ws as [|b ws].
  - cbn [join]. rewrite split_on_nosep by exact Hsp. cbn [filter]. destruct a; [congruence | reflexivity].
  - rewrite join_cons2. cbn [app]. rewrite split_on_app by exact Hsp. cbn [filter].
    destruct a; [congruence|]. cbn [is_nil negb]. f_equal. apply IH. exact Hws.
Qed.

Lemma join_no_nl ws : Forall (fun w => ~ In 10 w) ws -> ~ In 10 (join [32] ws).
Proof.
  induction 1 as [|a ws Ha Hws IH]; [intros []|]. destruct ws as [|b ws]; [exact Ha|].
  rewrite join_cons2. intro K. apply in_app_or in K as [K|K]; [auto|].
  apply in_app_or in K as [K|K]; [cbn in K; intuition discriminate | auto].
Qed.

Lemma filter_flat_map {A B} (p : B -> bool) (f : A -> list B) l :
  filter p (flat_map f l) = flat_map (fun x => filter p (f x)) l.
Proof. induction l as [|a l IH]; [reflexivity|]. cbn [flat_map]. now rewrite filter_app, IH. Qed.

Lemma fold_left_ext_in {A B} (F G : A -> B -> A) l :
  (forall a x, In x l -> F a x = G a x) -> forall a, fold_left F l a = fold_left G l a.
Proof.
  induction l as [|x l IH]; intros H a; [reflexivity|]. cbn [fold_left].
  rewrite (H a x) by now left. apply IH. intros a' y Hy. apply H. now right.
Qed.

Lemma all_some_map {A B} (f : A -> option B) (h : A -> B) l :
  Forall (fun a => f a = Some (h a)) l -> all_some (map f l) = Some (map h l).
Proof. induction 1 as [|a l Ha Hl IH]; [reflexivity|]. cbn [map all_some]. now rewrite Ha, IH. Qed.

(* ---------- characters of names ---------- *)
Lemma ok_char_facts c : ok_char c = true ->
  c <> 32 /\ c <> 9 /\ c <> 10 /\ c <> 37 /\ c <> 47 /\ c <> 58 /\ c <> 59 /\ c <> 124.
Proof.
  unfold ok_char. intro H. apply negb_true_iff in H. rewrite !orb_false_iff in H.
  rewrite !Z.eqb_neq in H. intuition.
Qed.

Lemma name_ok_inv w : name_ok w = true -> w <> [] /\ forall c, In c w -> ok_char c = true.
Proof.
  unfold name_ok. intro H. apply andb_true_iff in H as [H1 H2]. split.
  - destruct w; [discriminate | discriminate].
  - now apply forallb_forall.
Qed.

Lemma name_ok_spaceless w : name_ok w = true -> spaceless w.
Proof.
  intro H. destruct (name_ok_inv w H) as [Hne Hc]. split; [exact Hne|].
  intro K. apply Hc in K. apply ok_char_facts in K. intuition.
Qed.

Lemma ok_chars_no_nl w : (forall c, In c w -> ok_char c = true) -> ~ In 10 w.
Proof. intros Hc K. apply Hc in K. apply ok_char_facts in K. intuition. Qed.

Lemma ok_chars_no_space w : (forall c, In c w -> ok_char c = true) -> ~ In 32 w.
Proof. intros Hc K. apply Hc in K. apply ok_char_facts in K. intuition. Qed.

Lemma name_ok_head w : name_ok w = true -> exists c r, w = c :: r /\ ok_char c = true.
Proof.
  intro H. destruct (name_ok_inv w H) as [Hne Hc]. destruct w as [|c r]; [congruence|].
  exists c, r. split; [reflexivity | apply Hc; now left].
Qed.

Lemma name_ok_keep w : name_ok w = true -> keep_word w = true.
Proof.
  intro H. destruct (name_ok_head w H) as (c & r & -> & Hc). apply ok_char_facts in Hc.
  unfold keep_word, s_mark_open, s_empty. cbn [starts_with bytes_eqb].
  destruct (Z.eqb_spec 47 c); [lia|]. destruct (Z.eqb_spec c 37); [lia|]. reflexivity.
Qed.

Lemma name_ok_not_prec w : name_ok w = true -> bytes_eqb w w_prec = false.
Proof.
  intro H. destruct (name_ok_head w H) as (c & r & -> & Hc). apply ok_char_facts in Hc.
  unfold w_prec. cbn [bytes_eqb]. destruct (Z.eqb_spec c 37); [lia | reflexivity].
Qed.

(* ---------- looking names up ---------- *)
Lemma distinct_inj (f : Z -> bytes) l :
  distinct (map f l) = true -> forall x y, In x l -> In y l -> f x = f y -> x = y.
Proof.
  induction l as [|a l IH]; intros H x y Hx Hy E; [destruct Hx|].
  cbn [map distinct] in H. apply andb_true_iff in H as [H1 H2]. apply negb_true_iff in H1.
  assert (K : forall z, In z l -> f a = f z -> False).
  { intros z Hz Ez. assert (T : existsb (bytes_eqb (f a)) (map f l) = true).
    { apply existsb_exists. exists (f z). split; [now apply in_map | rewrite Ez; apply bytes_eqb_refl]. }
    congruence. }
  destruct Hx as [<-|Hx], Hy as [<-|Hy]; auto.
  - exfalso. eapply K; eauto.
  - exfalso. eapply K; eauto.
Qed.

Lemma find_inj (f : Z -> bytes) l s :
  (forall x y, In x l -> In y l -> f x = f y -> x = y) -> In s l ->
  find (fun x => bytes_eqb (f x) (f s)) l = Some s.
Proof.
  induction l as [|a l IH]; intros Hinj Hs; [destruct Hs|]. cbn [find].
  destruct (bytes_eqb (f a) (f s)) eqn:E.
  - apply bytes_eqb_iff in E. f_equal. apply Hinj; auto; now left.
  - destruct Hs as [->|Hs]; [rewrite bytes_eqb_refl in E; discriminate|].
    apply IH; auto. intros x y Hx Hy. apply Hinj; now right.
Qed.

Lemma in_nat_range n s : In s (map Z.of_nat (seq 0 n)) <-> 0 <= s < Z.of_nat n.
Proof.
  rewrite in_map_iff. split.
  - intros (k & <- & Hk). apply in_seq in Hk. lia.
  - intro H. exists (Z.to_nat s). split; [lia | apply in_seq; lia].
Qed.

Lemma in_range_iff lo hi s : in_range lo hi s = true <-> lo <= s < hi.
Proof. unfold in_range. rewrite andb_true_iff, Z.leb_le, Z.ltb_lt. tauto. Qed.

(* ---------- grouping keeps properties of rules ---------- *)
Lemma rules_by_nonterm_all {A} (K : Z -> Prop) (P : Z -> A -> Prop) (rules : list (Z * A)) :
  Forall (fun p => K (fst p) /\ P (fst p) (snd p)) rules ->
  Forall (fun grp => K (fst grp) /\ Forall (P (fst grp)) (snd grp)) (rules_by_nonterm rules).
Proof.
  unfold rules_by_nonterm.
  assert (G : forall g0, Forall (fun grp => K (fst grp) /\ Forall (P (fst grp)) (snd grp)) g0 ->
              Forall (fun p => K (fst p) /\ P (fst p) (snd p)) rules ->
              Forall (fun grp => K (fst grp) /\ Forall (P (fst grp)) (snd grp))
                     (fold_left (fun groups '(lhs, r) => add_to_group lhs r groups) rules g0)).
  { induction rules as [|[lhs r] rest IH]; intros g0 H0 Hr; [exact H0|]. cbn [fold_left].
    inversion Hr as [|? ? [Hk Hp] Hrest]; subst. cbn [fst snd] in Hk, Hp. apply IH; [|exact Hrest].
    clear IH Hr Hrest. induction H0 as [|[y rs] g0 [Hy Hrs] H0 IH0]; cbn [add_to_group].
    - constructor; [|constructor]. cbn [fst snd]. split; [exact Hk | constructor; [exact Hp | constructor]].
    - cbn [fst snd] in Hy, Hrs. destruct (Z.eqb_spec y lhs) as [->|N].
      + constructor; [|exact H0]. cbn [fst snd]. split; [exact Hy|]. apply Forall_app. split; [exact Hrs | constructor; [exact Hp | constructor]].
      + constructor; [|exact IH0]. cbn [fst snd]. split; assumption. }
  intro H. apply G; [constructor | exact H].
Qed.

(* ---------- ExprString depends on the names of the symbols of the rule only ---------- *)
Lemma expr_string_ext_free f i f' i' : forall e, prec_free e = true ->
  (forall s, In s (accept e) -> f s = f' s) -> expr_string f i e = expr_string f' i' e.
Proof.
  induction e using expr_ind2; intros Hpf Hs; cbn [prec_free] in Hpf; try discriminate;
    first [rewrite !expr_string_seq; cbv zeta | cbn [expr_string]]; try reflexivity.
  - (* Sequence *)
    match goal with |- match ?a with _ => _ end = match ?b with _ => _ end => assert (E : a = b) end; [|now rewrite E].
    apply fold_left_ext_in. intros acc x Hx.
    rewrite Forall_forall in H. rewrite forallb_forall in Hpf.
    rewrite (H x Hx (Hpf x Hx)); [reflexivity|].
    intros s Hin. apply Hs. cbn [accept]. apply in_flat_map. exists x. split; assumption.
  - f_equal. apply Hs. cbn [accept]. now left.
  - apply IHe; auto.
  - apply IHe; auto.
  - apply IHe; auto.
Qed.

Lemma expr_string_ext f i f' i' : forall e, rule_ok e = true ->
  (forall s, In s (accept e) -> f s = f' s) -> (forall s, rule_prec e = Some s -> i s = i' s) ->
  expr_string f i e = expr_string f' i' e.
Proof.
  induction e; intros Hok Hs Hp; cbn [rule_ok] in Hok;
    try (apply expr_string_ext_free; [exact Hok | exact Hs]).
  - cbn [expr_string]. apply IHe; auto.
  - cbn [expr_string]. apply IHe; auto.
  - cbn [expr_string]. apply IHe; auto.
  - apply andb_true_iff in Hok as [Hpf _]. cbn [expr_string].
    rewrite (expr_string_ext_free f i f' i' e Hpf Hs). rewrite (Hp sym eq_refl). reflexivity.
Qed.

(* ---------- the words of a printable body ---------- *)
Section Words.
  Variable nm : Z -> bytes.
  Variable idf : Z -> bytes.
  Hypothesis Hnm : forall s, name_ok (nm s) = true.
  Hypothesis Hid : forall s, name_ok (idf s) = true.

  Definition plain_word (w : bytes) : Prop := bytes_eqb w w_prec = false /\ ~ In 10 w.

  Lemma filter_keep_skip w : filter keep_word (if skip_words w then [] else w) = filter keep_word w.
  Proof.
    destruct w as [|a [|b r]]; cbn [skip_words]; try reflexivity.
    destruct (bytes_eqb a s_empty) eqn:E; [|reflexivity]. apply bytes_eqb_iff in E. subst. reflexivity.
  Qed.

  Lemma plain_empty : plain_word s_empty.
  Proof. split; [reflexivity|]. cbn. intuition discriminate. Qed.

  Lemma prec_free_words : forall e, prec_free e = true ->
    filter keep_word (text_words nm idf e) = map nm (accept e) /\ Forall plain_word (text_words nm idf e).
  Proof.
    induction e using expr_ind2; intro Hpf; cbn [prec_free] in Hpf; try discriminate; cbn [text_words accept].
    - split; [reflexivity | constructor; [apply plain_empty | constructor]].
    - (* Sequence *)
      cbv zeta.
      assert (G : filter keep_word (flat_map (fun x => if skip_words (text_words nm idf x) then [] else text_words nm idf x) l)
                  = map nm (flat_map accept l) /\
                  Forall plain_word (flat_map (fun x => if skip_words (text_words nm idf x) then [] else text_words nm idf x) l)).
      { rewrite forallb_forall in Hpf. induction H as [|x l Hx Hl IH]; [split; [reflexivity | constructor]|].
        destruct (Hx (Hpf x (or_introl eq_refl))) as [E1 E2].
        destruct IH as [I1 I2]; [intros y Hy; apply Hpf; now right|].
        cbn [flat_map]. split.
        - rewrite filter_app, filter_keep_skip, E1, I1, map_app. reflexivity.
        - apply Forall_app. split; [|exact I2]. destruct (skip_words _); [constructor | exact E2]. }
      destruct G as [G1 G2]. set (ws := flat_map _ l) in *. destruct ws as [|a r].
      + cbn [filter] in G1. rewrite <- G1. split; [reflexivity | constructor; [apply plain_empty | constructor]].
      + split; assumption.
    - split.
      + cbn [filter map]. match goal with |- context [nm ?s] => now rewrite (name_ok_keep _ (Hnm s)) end.
      + constructor; [|constructor]. split; [apply name_ok_not_prec, Hnm|].
        apply ok_chars_no_nl. apply (name_ok_inv _ (Hnm _)).
    - apply IHe; auto.
    - apply IHe; auto.
    - apply IHe; auto.
    - split; [reflexivity|]. constructor; [|constructor]. split; [reflexivity|].
      rewrite forallb_forall in Hpf. intro K. apply in_app_or in K as [K|K]; [cbn in K; intuition discriminate|].
      apply in_app_or in K as [K|K]; [|cbn in K; intuition discriminate].
      apply Hpf in K. apply ok_char_facts in K. intuition.
    - split; [reflexivity | constructor].
  Qed.

  Lemma prec_free_exportable : forall e, prec_free e = true -> exportable nm idf e.
  Proof.
    induction e using expr_ind2; intro Hpf; cbn [prec_free] in Hpf; try discriminate; cbn [exportable]; auto.
    - rewrite forallb_forall in Hpf. induction H as [|x l Hx Hl IH]; [exact I|]. split.
      + apply Hx, Hpf. now left.
      + apply IH. intros y Hy. apply Hpf. now right.
    - rewrite forallb_forall in Hpf. now apply ok_chars_no_space.
  Qed.

  Lemma prints_words : forall e, prec_free e = true -> prints e = true -> text_words nm idf e <> [].
  Proof.
    induction e; intros Hpf Hpr; cbn [prec_free prints] in *; try discriminate; cbn [text_words]; try discriminate; auto.
    match goal with |- (match ?ws with _ => _ end) <> [] => destruct ws; discriminate end.
  Qed.

  Lemma rule_ok_exportable : forall e, rule_ok e = true -> exportable nm idf e.
  Proof.
    induction e; intro Hok; cbn [rule_ok] in Hok; try (apply prec_free_exportable; exact Hok).
    - cbn [exportable]. auto.
    - cbn [exportable]. auto.
    - cbn [exportable]. auto.
    - apply andb_true_iff in Hok as [Hpf Hpr]. cbn [exportable]. split; [now apply prec_free_exportable | now apply prints_words].
  Qed.

  (* the kept words of a rule: the names of its symbols, then "%prec" and the terminal if there is one *)
  Lemma rule_ok_words : forall e, rule_ok e = true ->
    filter keep_word (text_words nm idf e) =
      map nm (accept e) ++ (match rule_prec e with Some s => [w_prec; idf s] | None => [] end) /\
    Forall (fun w => ~ In 10 w) (text_words nm idf e).
  Proof.
    assert (F : forall e, prec_free e = true ->
              filter keep_word (text_words nm idf e) = map nm (accept e) ++ [] /\ Forall (fun w => ~ In 10 w) (text_words nm idf e)).
    { intros e Hpf. destruct (prec_free_words e Hpf) as [E1 E2]. rewrite app_nil_r. split; [exact E1|].
      eapply Forall_impl; [|exact E2]. intros w [_ Hw]. exact Hw. }
    induction e; intro Hok; cbn [rule_ok] in Hok; try (exact (F _ Hok)).
    - cbn [text_words accept rule_prec]. auto.
    - cbn [text_words accept rule_prec]. auto.
    - cbn [text_words accept rule_prec]. auto.
    - apply andb_true_iff in Hok as [Hpf Hpr]. destruct (prec_free_words e Hpf) as [E1 E2].
      cbn [text_words accept rule_prec]. split.
      + rewrite filter_app, E1. f_equal. cbn [filter]. rewrite (name_ok_keep _ (Hid sym)). reflexivity.
      + apply Forall_app. split; [eapply Forall_impl; [|exact E2]; intros w [_ Hw]; exact Hw|].
        constructor; [cbn; intuition discriminate|]. constructor; [|constructor].
        apply ok_chars_no_nl. apply (name_ok_inv _ (Hid sym)).
  Qed.
End Words.

Lemma join_no_char c sep ws : ~ In c sep -> Forall (fun w => ~ In c w) ws -> ~ In c (join sep ws).
Proof.
  intros Hsep. induction 1 as [|a ws Ha Hws IH]; [intros []|]. destruct ws as [|b ws]; [exact Ha|].
  rewrite join_cons2. intro K. apply in_app_or in K as [K|K]; [auto|].
  apply in_app_or in K as [K|K]; auto.
Qed.

(* ---------- the rule section as lines ---------- *)
Definition body_opt (g : bgrammar) (x : Z) (r : brule) : option bytes :=
  match lookahead_of g x with
  | Some _ => Some s_empty
  | None => expr_string (ref_text g) (fun s => b_id (sym_at g s)) (br_value r)
  end.
Definition body_of (g : bgrammar) (x : Z) (r : brule) : bytes :=
  match body_opt g x r with Some b => b | None => [] end.

Fixpoint body_lines (k : nat) (bs : list bytes) : list bytes :=
  match bs with
  | [] => []
  | b :: r => ((if Nat.eqb k 0 then [32;32] else [124;32]) ++ b) :: body_lines (S k) r
  end.

Definition la_lines (g : bgrammar) (x : Z) : list bytes :=
  match lookahead_of g x with
  | Some l => [s_la ++ join s_amp (map (fun '(s, neg) => (if neg : bool then [33] else []) ++ ref_text g s) l)]
  | None => []
  end.

Definition group_lines (g : bgrammar) (grp : Z * list brule) : list bytes :=
  [[]] ++ la_lines g (fst grp) ++ [b_name (sym_at g (fst grp)) ++ [32;58]] ++
  body_lines 0 (map (body_of g (fst grp)) (snd grp)) ++ [[59]].

Lemma unl_one l : unl [l] = nl ++ l.
Proof. unfold unl. cbn [flat_map]. now rewrite app_nil_r. Qed.

Lemma unl_cons l L : unl (l :: L) = nl ++ l ++ unl L.
Proof. unfold unl. cbn [flat_map]. now rewrite <- app_assoc. Qed.

Section Render.
  Variable g : bgrammar.

  Lemma rules_fold x : forall rs k t,
    Forall (fun r => body_opt g x r = Some (body_of g x r)) rs ->
    fold_left (fun acc '(i, r) =>
        match acc with
        | None => None
        | Some t =>
          match (match lookahead_of g x with
                 | Some _ => Some s_empty
                 | None => expr_string (ref_text g) (fun s => b_id (sym_at g s)) (br_value r)
                 end) with
          | Some b => Some (t ++ nl ++ (if Nat.eqb i 0 then [32;32] else [124;32]) ++ b)
          | None => None
          end
        end) (List.combine (seq k (length rs)) rs) (Some t)
    = Some (t ++ unl (body_lines k (map (body_of g x) rs))).
  Proof.
    induction rs as [|r rs IH]; intros k t H; [cbn; now rewrite app_nil_r|].
    inversion H as [|? ? Hr Hrs]; subst. unfold body_opt in Hr.
    cbn [length seq combine fold_left map body_lines]. rewrite Hr. rewrite IH by exact Hrs.
    rewrite unl_cons. now rewrite <- !app_assoc.
  Qed.

  Lemma groups_fold : forall groups txt,
    Forall (fun grp => Forall (fun r => body_opt g (fst grp) r = Some (body_of g (fst grp) r)) (snd grp)) groups ->
    fold_left (fun acc '(x, rs) =>
      match acc with
      | None => None
      | Some txt =>
        let la := lookahead_of g x in
        let la_line := match la with
                       | Some l => s_la ++ join s_amp (map (fun '(s, neg) => (if neg : bool then [33] else []) ++ ref_text g s) l) ++ nl
                       | None => []
                       end in
        let rules_txt :=
          fold_left (fun acc '(i, r) =>
            match acc with
            | None => None
            | Some t =>
              let body := match la with
                          | Some _ => Some s_empty
                          | None => expr_string (ref_text g) (fun s => b_id (sym_at g s)) (br_value r)
                          end in
              match body with
              | Some b => Some (t ++ nl ++ (if Nat.eqb i 0 then [32;32] else [124;32]) ++ b)
              | None => None
              end
            end) (List.combine (seq 0 (length rs)) rs) (Some []) in
        match rules_txt with
        | Some rt => Some (txt ++ nl ++ nl ++ la_line ++ b_name (sym_at g x) ++ [32;58] ++ rt ++ nl ++ [59])
        | None => None
        end
      end) groups (Some txt)
    = Some (txt ++ unl (flat_map (group_lines g) groups)).
  Proof.
    induction groups as [|[x rs] groups IH]; intros txt H; [cbn; now rewrite app_nil_r|].
    inversion H as [|? ? Hg Hgs]; subst. cbn [fst snd] in Hg.
    cbn [fold_left flat_map]. cbv zeta.
    rewrite (rules_fold x rs 0%nat [] Hg). rewrite IH by exact Hgs. f_equal.
    rewrite unl_app. generalize (unl (flat_map (group_lines g) groups)); intro R.
    unfold group_lines, la_lines. cbn [fst snd].
    destruct (lookahead_of g x) as [l|]; rewrite !unl_app, !unl_one; rewrite <- !app_assoc; reflexivity.
  Qed.

  (* ---------- the reader on these lines ---------- *)
  Lemma strip_header_app name : strip_header (name ++ [32;58]) = Some name.
  Proof. unfold strip_header. rewrite rev_app_distr. cbn. now rewrite rev_involutive. Qed.

  Lemma read_header done cur name : name_ok name = true ->
    read_line (Some (done, cur)) (name ++ [32;58]) = Some (done, Some (name, [])).
  Proof.
    intro H. destruct (name_ok_head name H) as (c & r & -> & Hc). apply ok_char_facts in Hc.
    unfold read_line. rewrite strip_header_app. cbn [app is_nil starts_with bytes_eqb].
    destruct (Z.eqb_spec 9 c); [lia|]. destruct (Z.eqb_spec 47 c); [lia|]. destruct (Z.eqb_spec c 59); [lia|].
    destruct (Z.eqb_spec 32 c); [lia|]. destruct (Z.eqb_spec 124 c); [lia|]. reflexivity.
  Qed.

  Lemma read_body done nme bs pref b : pref = [32;32] \/ pref = [124;32] ->
    read_line (Some (done, Some (nme, bs))) (pref ++ b) = Some (done, Some (nme, bs ++ [b])).
  Proof. intros [-> | ->]; reflexivity. Qed.

  Lemma read_body_lines done nme : forall bs k acc,
    fold_left read_line (body_lines k bs) (Some (done, Some (nme, acc))) = Some (done, Some (nme, acc ++ bs)).
  Proof.
    induction bs as [|b bs IH]; intros k acc; cbn [body_lines fold_left]; [now rewrite app_nil_r|].
    rewrite read_body by (destruct (Nat.eqb k 0); auto). rewrite IH, <- app_assoc. reflexivity.
  Qed.

  Lemma read_group done grp : name_ok (b_name (sym_at g (fst grp))) = true ->
    fold_left read_line (group_lines g grp) (Some (done, None)) =
    Some (done ++ [(b_name (sym_at g (fst grp)), map (body_of g (fst grp)) (snd grp))], None).
  Proof.
    intro Hn. unfold group_lines. rewrite !fold_left_app. cbn [fold_left].
    assert (E : fold_left read_line (la_lines g (fst grp)) (read_line (Some (done, None)) []) = Some (done, None)).
    { unfold la_lines. destruct (lookahead_of g (fst grp)); reflexivity. }
    rewrite E. rewrite read_header by exact Hn. rewrite read_body_lines. reflexivity.
  Qed.

  Lemma read_groups : forall groups done,
    Forall (fun grp => name_ok (b_name (sym_at g (fst grp))) = true) groups ->
    fold_left read_line (flat_map (group_lines g) groups) (Some (done, None)) =
    Some (done ++ map (fun grp => (b_name (sym_at g (fst grp)), map (body_of g (fst grp)) (snd grp))) groups, None).
  Proof.
    induction groups as [|grp groups IH]; intros done H; [cbn; now rewrite app_nil_r|].
    inversion H as [|? ? Hg Hgs]; subst. cbn [flat_map map]. rewrite fold_left_app, read_group by exact Hg.
    rewrite IH by exact Hgs. now rewrite <- app_assoc.
  Qed.
End Render.

(* ---------- well-formed grammars ---------- *)
Section Grammar.
  Variable g : bgrammar.
  Hypothesis Hwf : bison_wf g = true.

  Let n := Z.of_nat (length (bg_syms g)).

  Lemma wf_parts :
    0 <= bg_tokens g <= n /\
    (forall s, 0 <= s < n -> name_ok (ref_text g s) = true) /\
    distinct (map (ref_text g) (all_syms g)) = true /\
    (forall r, In r (bg_rules g) -> rule_wf g r = true).
  Proof.
    unfold bison_wf in Hwf. fold n in Hwf.
    apply andb_true_iff in Hwf as [H Hr]. apply andb_true_iff in H as [H Hd]. apply andb_true_iff in H as [H Hn].
    apply andb_true_iff in H as [H0 H1]. apply Z.leb_le in H0, H1.
    split; [lia|]. split; [|split; [exact Hd | now apply forallb_forall]].
    intros s Hs. rewrite forallb_forall in Hn. apply Hn. unfold all_syms. apply in_nat_range. exact Hs.
  Qed.

  Lemma ref_text_tok s : s < bg_tokens g -> ref_text g s = b_id (sym_at g s).
  Proof. intro H. unfold ref_text. destruct (Z.ltb_spec s (bg_tokens g)); [reflexivity | lia]. Qed.

  Lemma ref_text_nt s : bg_tokens g <= s -> ref_text g s = b_name (sym_at g s).
  Proof. intro H. unfold ref_text. destruct (Z.ltb_spec s (bg_tokens g)); [lia | reflexivity]. Qed.

  Lemma sym_of_word_ref s : 0 <= s < n -> sym_of_word g (ref_text g s) = Some s.
  Proof.
    intro Hs. destruct wf_parts as (_ & _ & Hd & _). unfold sym_of_word.
    apply (find_inj (ref_text g)); [apply distinct_inj; exact Hd | apply in_nat_range; exact Hs].
  Qed.

  Lemma tok_of_id_ref s : 0 <= s < bg_tokens g -> tok_of_id g (b_id (sym_at g s)) = Some s.
  Proof.
    intro Hs. destruct wf_parts as (Ht & _ & Hd & _). unfold tok_of_id.
    apply (find_inj (fun s => b_id (sym_at g s))); [|apply in_nat_range; lia].
    intros x y Hx Hy E. apply in_nat_range in Hx, Hy. rewrite Z2Nat.id in Hx, Hy by lia.
    rewrite <- !ref_text_tok in E by lia.
    apply (distinct_inj (ref_text g) _ Hd); auto; apply in_nat_range; fold n; lia.
  Qed.

  (* total name functions that agree with the grammar on its symbols *)
  Definition nm' (s : Z) : bytes := if in_range 0 n s then ref_text g s else [120].
  Definition id' (s : Z) : bytes := if in_range 0 (bg_tokens g) s then b_id (sym_at g s) else [120].

  Lemma nm'_ok s : name_ok (nm' s) = true.
  Proof.
    unfold nm'. destruct (in_range 0 n s) eqn:E; [|reflexivity].
    apply in_range_iff in E. destruct wf_parts as (_ & Hn & _). now apply Hn.
  Qed.

  Lemma id'_ok s : name_ok (id' s) = true.
  Proof.
    unfold id'. destruct (in_range 0 (bg_tokens g) s) eqn:E; [|reflexivity].
    apply in_range_iff in E. destruct wf_parts as (Ht & Hn & _). rewrite <- ref_text_tok by lia. apply Hn. lia.
  Qed.

  Lemma body_syms_names syms tail p :
    (forall s, In s syms -> 0 <= s < n) -> body_syms g tail = Some ([], p) ->
    body_syms g (map (ref_text g) syms ++ tail) = Some (syms, p).
  Proof.
    intros Hs Ht. induction syms as [|s syms IH]; [exact Ht|]. cbn [map app body_syms].
    destruct wf_parts as (_ & Hn & _).
    rewrite (name_ok_not_prec _ (Hn s (Hs s (or_introl eq_refl)))).
    rewrite sym_of_word_ref by (apply Hs; now left). rewrite IH by (intros y Hy; apply Hs; now right). reflexivity.
  Qed.

  Lemma rule_body r : rule_wf g r = true ->
    body_opt g (br_lhs r) r = Some (body_of g (br_lhs r) r) /\
    ~ In 10 (body_of g (br_lhs r) r) /\
    parse_body g (body_of g (br_lhs r) r) = Some (rule_spec r).
  Proof.
    intro Hr. unfold rule_wf in Hr. fold n in Hr. apply andb_true_iff in Hr as [_ Hr].
    unfold body_of, body_opt. destruct (lookahead_of g (br_lhs r)) as [l|].
    - apply andb_true_iff in Hr as [Hr _]. apply andb_true_iff in Hr as [Ha Hp].
      split; [reflexivity|]. split; [cbn; intuition discriminate|].
      unfold rule_spec. destruct (accept (br_value r)); [|discriminate].
      destruct (rule_prec (br_value r)); [discriminate|]. reflexivity.
    - apply andb_true_iff in Hr as [Hr Hp]. apply andb_true_iff in Hr as [Hok Ha].
      rewrite forallb_forall in Ha.
      assert (Hacc : forall s, In s (accept (br_value r)) -> 0 <= s < n) by (intros s Hs; apply in_range_iff; auto).
      assert (Hpr : forall s, rule_prec (br_value r) = Some s -> 0 <= s < bg_tokens g).
      { intros s Hs. rewrite Hs in Hp. now apply in_range_iff. }
      set (e := br_value r) in *.
      assert (E : expr_string (ref_text g) (fun s => b_id (sym_at g s)) e = expr_string nm' id' e).
      { apply expr_string_ext; [exact Hok | |].
        - intros s Hs. unfold nm'. now rewrite (proj2 (in_range_iff 0 n s) (Hacc s Hs)).
        - intros s Hs. unfold id'. now rewrite (proj2 (in_range_iff 0 (bg_tokens g) s) (Hpr s Hs)). }
      rewrite E.
      destruct (expr_string_text nm' id' (fun s => name_ok_spaceless _ (nm'_ok s)) (fun s => name_ok_spaceless _ (id'_ok s))
                  e (rule_ok_exportable nm' id' e Hok)) as [Es Hsp].
      destruct (rule_ok_words nm' id' nm'_ok id'_ok e Hok) as [Ew Hnl].
      rewrite Es. split; [reflexivity|]. split; [now apply join_no_nl|].
      unfold parse_body. rewrite words_join by exact Hsp. rewrite Ew.
      replace (map nm' (accept e)) with (map (ref_text g) (accept e)).
      2:{ apply map_ext_in. intros s Hs. unfold nm'. now rewrite (proj2 (in_range_iff 0 n s) (Hacc s Hs)). }
      unfold rule_spec. fold e. apply body_syms_names; [exact Hacc|].
      destruct (rule_prec e) as [s|] eqn:Ep; [|reflexivity].
      cbn [body_syms]. change (bytes_eqb w_prec w_prec) with true. cbv iota.
      unfold id'. rewrite (proj2 (in_range_iff 0 (bg_tokens g) s) (Hpr s eq_refl)).
      rewrite tok_of_id_ref by (apply Hpr; reflexivity). reflexivity.
  Qed.

  (* what every group of RulesByNonterm satisfies *)
  Definition key_ok (x : Z) : Prop :=
    bg_tokens g <= x < n /\
    forall l, lookahead_of g x = Some l -> forall p, In p l -> 0 <= fst p < n.
  Definition member_ok (x : Z) (r : brule) : Prop :=
    body_opt g x r = Some (body_of g x r) /\ ~ In 10 (body_of g x r) /\
    parse_body g (body_of g x r) = Some (rule_spec r).

  Lemma groups_ok :
    Forall (fun grp => key_ok (fst grp) /\ Forall (member_ok (fst grp)) (snd grp))
           (rules_by_nonterm (map (fun r => (br_lhs r, r)) (bg_rules g))).
  Proof.
    apply rules_by_nonterm_all. apply Forall_forall. intros p Hp.
    apply in_map_iff in Hp as (r & <- & Hr). cbn [fst snd].
    destruct wf_parts as (_ & _ & _ & Hrules). specialize (Hrules r Hr). split.
    - unfold rule_wf in Hrules. fold n in Hrules. apply andb_true_iff in Hrules as [Hl Hrest].
      split; [now apply in_range_iff|]. intros l El p Hp. rewrite El in Hrest.
      apply andb_true_iff in Hrest as [_ Hla]. rewrite forallb_forall in Hla. apply in_range_iff. now apply Hla.
    - exact (rule_body r Hrules).
  Qed.

  Lemma key_name_ok x : key_ok x -> name_ok (b_name (sym_at g x)) = true.
  Proof.
    intros [Hx _]. destruct wf_parts as (Ht & Hn & _). rewrite <- ref_text_nt by lia. apply Hn. lia.
  Qed.

  Lemma group_lines_no_nl grp : key_ok (fst grp) -> Forall (member_ok (fst grp)) (snd grp) ->
    Forall (fun l => ~ In 10 l) (group_lines g grp).
  Proof.
    intros Hk Hm. unfold group_lines.
    apply Forall_app; split; [|apply Forall_app; split; [|apply Forall_app; split; [|apply Forall_app; split]]].
    - constructor; [intros [] | constructor].
    - unfold la_lines. destruct (lookahead_of g (fst grp)) as [l|] eqn:El; [|constructor].
      constructor; [|constructor]. intro K. apply in_app_or in K as [K|K]; [cbn in K; intuition discriminate|].
      revert K. apply join_no_char; [cbn; intuition discriminate|].
      apply Forall_forall. intros w Hw. apply in_map_iff in Hw as ([s neg] & <- & Hin).
      destruct Hk as [_ Hk]. specialize (Hk l El (s, neg) Hin). cbn [fst] in Hk.
      destruct wf_parts as (_ & Hn & _). specialize (Hn s Hk).
      intro K. apply in_app_or in K as [K|K]; [destruct neg; cbn in K; intuition discriminate|].
      revert K. apply ok_chars_no_nl. apply (name_ok_inv _ Hn).
    - constructor; [|constructor]. intro K. apply in_app_or in K as [K|K]; [|cbn in K; intuition discriminate].
      revert K. apply ok_chars_no_nl. apply (name_ok_inv _ (key_name_ok _ Hk)).
    - assert (G : forall k, Forall (fun l => ~ In 10 l) (body_lines k (map (body_of g (fst grp)) (snd grp)))).
      { induction Hm as [|r rs (_ & Hr & _) Hrs IH]; intro k; cbn [map body_lines]; constructor; [|apply IH].
        intro K. apply in_app_or in K as [K|K]; [destruct (Nat.eqb k 0); cbn in K; intuition discriminate | auto]. }
      apply G.
    - constructor; [cbn; intuition discriminate | constructor].
  Qed.

  Lemma all_lines_no_nl groups :
    Forall (fun grp => key_ok (fst grp) /\ Forall (member_ok (fst grp)) (snd grp)) groups ->
    Forall (fun l => ~ In 10 l) (flat_map (group_lines g) groups).
  Proof.
    induction 1 as [|grp groups [Hk Hm] _ IH]; [constructor|]. cbn [flat_map].
    apply Forall_app. split; [now apply group_lines_no_nl | exact IH].
  Qed.

  Theorem read_back_exact :
    exists text, rule_section g = Some text /\ read_rules g text = Some (expected_groups g).
  Proof.
    pose proof groups_ok as Hg. unfold expected_groups.
    set (groups := rules_by_nonterm (map (fun r => (br_lhs r, r)) (bg_rules g))) in *.
    exists (unl (flat_map (group_lines g) groups)). split.
    - unfold rule_section. fold groups. rewrite <- (app_nil_l (unl _)). apply groups_fold.
      eapply Forall_impl; [|exact Hg]. intros grp [_ Hm]. eapply Forall_impl; [|exact Hm]. intros r (H & _). exact H.
    - unfold read_rules. rewrite <- (app_nil_l (unl _)). rewrite split_on_unl; [| |intros []].
      2:{ apply all_lines_no_nl. exact Hg. }
      unfold read_rule_lines. cbn [fold_left]. change (read_line (Some ([], None)) []) with (Some (@nil rgroup, @None rgroup)).
      rewrite read_groups.
      2:{ eapply Forall_impl; [|exact Hg]. intros grp [Hk _]. now apply key_name_ok. }
      cbn [app]. rewrite map_map.
      rewrite (all_some_map _ (fun grp => (fst grp, map rule_spec (snd grp)))).
      + f_equal. apply map_ext. intros [x rs]. reflexivity.
      + eapply Forall_impl; [|exact Hg]. intros grp [Hk Hm]. unfold interp_group. cbn [fst snd].
        destruct Hk as [Hx _]. destruct wf_parts as (Ht & _). rewrite <- ref_text_nt by lia.
        rewrite sym_of_word_ref by lia. rewrite map_map.
        rewrite (all_some_map _ rule_spec); [reflexivity|].
        eapply Forall_impl; [|exact Hm]. intros r (_ & _ & H). exact H.
  Qed.
End Grammar.

(* the whole file is the rule section inside the fixed frame *)
Lemma bison_text_section g :
  bison_text g = match rule_section g with Some gt => Some (file_of_section g gt) | None => None end.
Proof. reflexivity. Qed.

(* ---------- the expected groups are the rules of the grammar ---------- *)
Lemma glookup_map {A B} (h : A -> B) x (groups : list (Z * list A)) :
  glookup x (map (fun '(y, rs) => (y, map h rs)) groups) = map h (glookup x groups).
Proof.
  induction groups as [|[y rs] groups IH]; [reflexivity|]. cbn [map glookup].
  destruct (y =? x); [reflexivity | exact IH].
Qed.

Theorem expected_groups_rules g :
  (forall x, glookup x (expected_groups g) = map rule_spec (filter (fun r => br_lhs r =? x) (bg_rules g))) /\
  map fst (expected_groups g) = first_occurrences (map br_lhs (bg_rules g)).
Proof.
  unfold expected_groups. split.
  - intro x. rewrite glookup_map, rules_by_nonterm_lookup. f_equal.
    induction (bg_rules g) as [|r rs IH]; [reflexivity|]. cbn [map filter fst].
    destruct (br_lhs r =? x); cbn [map snd]; now rewrite IH.
  - rewrite map_map.
    rewrite (map_ext (fun p : Z * list brule => fst (let '(x, rs) := p in (x, map rule_spec rs))) fst) by (intros [x rs]; reflexivity).
    rewrite rules_by_nonterm_keys, map_map. reflexivity.
Qed.

Theorem read_back_exact_frame g : bison_wf g = true ->
  exists section,
    rule_section g = Some section /\
    bison_text g = Some (file_of_section g section) /\
    read_rules g section = Some (expected_groups g).
Proof.
  intro H. destruct (read_back_exact g H) as (t & E1 & E2). exists t. split; [exact E1|]. split; [|exact E2].
  rewrite bison_text_section, E1. reflexivity.
Qed.

(* ---------- the whole file ---------- *)
Lemma starts_with_app p x : starts_with p (p ++ x) = true.
Proof. induction p as [|a p IH]; [reflexivity|]. cbn [app starts_with]. now rewrite Z.eqb_refl, IH. Qed.

Lemma unl_map {A} (f : A -> bytes) l : flat_map (fun x => nl ++ f x) l = unl (map f l).
Proof. induction l as [|a l IH]; [reflexivity|]. cbn [flat_map map]. rewrite unl_cons, IH. now rewrite <- app_assoc. Qed.

Lemma break_pp_app A B : Forall (fun l => bytes_eqb l s_pp = false) A -> break_pp (A ++ s_pp :: B) = (A, B).
Proof.
  induction 1 as [|a A Ha HA IH]; cbn [app break_pp].
  - reflexivity.
  - now rewrite Ha, IH.
Qed.

Lemma join_flat (f : Z -> bytes) ts : forall w, w ++ flat_map (fun t => [32] ++ f t) ts = join [32] (w :: map f ts).
Proof.
  induction ts as [|t ts IH]; intro w; [cbn; now rewrite app_nil_r|].
  cbn [flat_map map]. rewrite join_cons2. rewrite <- IH. now rewrite <- !app_assoc.
Qed.

Lemma in_tl {A} (x : A) l : In x (tl l) -> In x l.
Proof. destruct l; [auto | now right]. Qed.

Ltac sp_lit := split; [discriminate | cbn; intuition discriminate].

Section File.
  Variable g : bgrammar.
  Hypothesis Hwf : bison_wf g = true.
  Hypothesis Hdw : decls_wf g = true.

  Let n := Z.of_nat (length (bg_syms g)).
  Let groups := rules_by_nonterm (map (fun r => (br_lhs r, r)) (bg_rules g)).
  Let RL := flat_map (group_lines g) groups.
  Let read_groups_result := map (fun grp => (b_name (sym_at g (fst grp)), map (body_of g (fst grp)) (snd grp))) groups.

  Lemma section_is_lines : rule_section g = Some (unl RL).
  Proof.
    unfold rule_section. fold groups. rewrite <- (app_nil_l (unl _)). apply groups_fold.
    eapply Forall_impl; [|exact (groups_ok g Hwf)]. intros grp [_ Hm]. eapply Forall_impl; [|exact Hm]. intros r (H & _). exact H.
  Qed.

  Lemma RL_no_nl : Forall (fun l => ~ In 10 l) RL.
  Proof. apply (all_lines_no_nl g Hwf). exact (groups_ok g Hwf). Qed.

  Lemma RL_read done : fold_left read_line RL (Some (done, None)) = Some (done ++ read_groups_result, None).
  Proof.
    apply read_groups. eapply Forall_impl; [|exact (groups_ok g Hwf)]. intros grp [Hk _]. now apply (key_name_ok g Hwf).
  Qed.

  Lemma RL_interp : all_some (map (interp_group g) read_groups_result) = Some (expected_groups g).
  Proof.
    unfold read_groups_result, expected_groups. fold groups. rewrite map_map.
    rewrite (all_some_map _ (fun grp => (fst grp, map rule_spec (snd grp)))).
    - f_equal. apply map_ext. intros [x rs]. reflexivity.
    - eapply Forall_impl; [|exact (groups_ok g Hwf)]. intros grp [Hk Hm]. unfold interp_group. cbn [fst snd].
      destruct Hk as [Hx _]. destruct (wf_parts g Hwf) as (Ht & _). rewrite <- (ref_text_nt g) by lia.
      rewrite (sym_of_word_ref g Hwf) by lia. rewrite map_map.
      rewrite (all_some_map _ rule_spec); [reflexivity|].
      eapply Forall_impl; [|exact Hm]. intros r (_ & _ & H). exact H.
  Qed.

  Lemma RL_not_pp : Forall (fun l => bytes_eqb l s_pp = false) RL.
  Proof.
    unfold RL. apply Forall_forall. intros l Hl. apply in_flat_map in Hl as (grp & Hg & Hl).
    pose proof (groups_ok g Hwf) as Hok. fold groups in Hok. rewrite Forall_forall in Hok. destruct (Hok grp Hg) as [Hk _].
    unfold group_lines in Hl. apply in_app_or in Hl as [Hl|Hl]; [destruct Hl as [<-|[]]; reflexivity|].
    apply in_app_or in Hl as [Hl|Hl].
    { unfold la_lines in Hl. destruct (lookahead_of g (fst grp)); [|destruct Hl]. destruct Hl as [<-|[]]. reflexivity. }
    apply in_app_or in Hl as [Hl|Hl].
    { destruct Hl as [<-|[]]. destruct (name_ok_head _ (key_name_ok g Hwf _ Hk)) as (c & r & -> & Hc).
      apply ok_char_facts in Hc. cbn [app bytes_eqb s_pp]. unfold s_pp. cbn [bytes_eqb].
      destruct (Z.eqb_spec c 37); [lia | reflexivity]. }
    apply in_app_or in Hl as [Hl|Hl]; [|destruct Hl as [<-|[]]; reflexivity].
    generalize dependent 0%nat. induction (map (body_of g (fst grp)) (snd grp)) as [|b bs IH]; intros k Hl; [destruct Hl|].
    cbn [body_lines] in Hl. destruct Hl as [<-|Hl]; [destruct (Nat.eqb k 0); reflexivity | eauto].
  Qed.

  (* the declaration lines *)
  Definition start_line (p : Z * bool) : bytes :=
    s_start ++ b_name (sym_at g (bg_tokens g + fst p)) ++ (if snd p then s_noeoi else []).
  Definition prec_line (p : Z * list Z) : bytes :=
    [37] ++ assoc_text (fst p) ++ flat_map (fun t => [32] ++ b_id (sym_at g t)) (snd p).
  Definition token_line (t : Z) : bytes := s_token ++ b_id (sym_at g t).
  Definition head_lines : list bytes :=
    [[37;125]; []] ++ map start_line (bg_inputs g) ++ [[]] ++ map prec_line (bg_prec g) ++
    map token_line (tl (tokens_without_prec g)) ++ [[]].

  Lemma file_lines :
    file_of_section g (unl RL) = [37;123] ++ unl (head_lines ++ [s_pp] ++ RL ++ [[]; s_pp; []; []]).
  Proof.
    unfold file_of_section. cbv zeta.
    rewrite (flat_map_ext _ (fun p => nl ++ start_line p)) by (intros [nt e]; reflexivity).
    rewrite (flat_map_ext _ (fun p => nl ++ prec_line p)) by (intros [a ts]; reflexivity).
    change (flat_map (fun t => nl ++ s_token ++ b_id (sym_at g t))) with (flat_map (fun t => nl ++ token_line t)).
    rewrite !unl_map. unfold head_lines. rewrite !unl_app, !unl_cons. unfold unl at 6 7 8. cbn [flat_map].
    rewrite <- !app_assoc. reflexivity.
  Qed.

  Definition w_start : bytes := [37;115;116;97;114;116].   (* "%start" *)
  Definition w_token : bytes := [37;116;111;107;101;110].   (* "%token" *)

  Lemma dw_parts :
    (forall p, In p (bg_inputs g) -> bg_tokens g <= bg_tokens g + fst p < n) /\
    (forall p, In p (bg_prec g) -> 0 <= fst p < 3 /\ forall t, In t (snd p) -> 0 <= t < bg_tokens g).
  Proof.
    unfold decls_wf in Hdw. fold n in Hdw. apply andb_true_iff in Hdw as [H1 H2].
    rewrite forallb_forall in H1, H2. split.
    - intros p Hp. apply in_range_iff. auto.
    - intros p Hp. specialize (H2 p Hp). apply andb_true_iff in H2 as [Ha Ht]. split; [now apply in_range_iff|].
      rewrite forallb_forall in Ht. intros t Hin. apply in_range_iff. auto.
  Qed.

  Lemma tok_id_ok t : 0 <= t < bg_tokens g -> name_ok (b_id (sym_at g t)) = true.
  Proof.
    intro Ht. destruct (wf_parts g Hwf) as (Hn & Hnm & _). rewrite <- (ref_text_tok g) by lia. apply Hnm. fold n. lia.
  Qed.

  Lemma nt_name_ok x : bg_tokens g <= x < n -> name_ok (b_name (sym_at g x)) = true.
  Proof.
    intro Hx. destruct (wf_parts g Hwf) as (Hn & Hnm & _). rewrite <- (ref_text_nt g) by lia. apply Hnm. fold n. lia.
  Qed.

  Lemma read_start d p : In p (bg_inputs g) ->
    read_decl d (start_line p) =
    mkDecls (d_starts d ++ [(b_name (sym_at g (bg_tokens g + fst p)), snd p)]) (d_precs d) (d_tokens d).
  Proof.
    intro Hp. destruct dw_parts as [Hin _]. pose proof (name_ok_spaceless _ (nt_name_ok _ (Hin p Hp))) as Hsp.
    unfold read_decl, start_line. rewrite starts_with_app.
    set (nme := b_name (sym_at g (bg_tokens g + fst p))) in *.
    assert (Hw : spaceless w_start) by sp_lit.
    destruct (snd p).
    - replace (s_start ++ nme ++ s_noeoi) with (join [32] [w_start; nme; [47;47]; w_noeoi]) by (cbn [join]; reflexivity).
      rewrite words_join; [reflexivity|].
      apply Forall_cons; [exact Hw | apply Forall_cons; [exact Hsp | apply Forall_cons; [sp_lit | apply Forall_cons; [sp_lit | apply Forall_nil]]]].
    - replace (s_start ++ nme ++ []) with (join [32] [w_start; nme]) by (cbn [join]; rewrite app_nil_r; reflexivity).
      rewrite words_join; [reflexivity|]. apply Forall_cons; [exact Hw | apply Forall_cons; [exact Hsp | apply Forall_nil]].
  Qed.

  Lemma read_token d t : 0 <= t < bg_tokens g ->
    read_decl d (token_line t) = mkDecls (d_starts d) (d_precs d) (d_tokens d ++ [b_id (sym_at g t)]).
  Proof.
    intro Ht. pose proof (name_ok_spaceless _ (tok_id_ok t Ht)) as Hsp.
    unfold read_decl, token_line. rewrite starts_with_app.
    change (starts_with s_start (s_token ++ b_id (sym_at g t))) with false. cbv iota.
    replace (s_token ++ b_id (sym_at g t)) with (join [32] [w_token; b_id (sym_at g t)]) by reflexivity.
    rewrite words_join; [reflexivity|].
    apply Forall_cons; [sp_lit | apply Forall_cons; [exact Hsp | apply Forall_nil]].
  Qed.

  Lemma read_prec d p : In p (bg_prec g) ->
    read_decl d (prec_line p) =
    mkDecls (d_starts d) (d_precs d ++ [(assoc_text (fst p), map (fun t => b_id (sym_at g t)) (snd p))]) (d_tokens d).
  Proof.
    intro Hp. destruct dw_parts as [_ Hpr]. destruct (Hpr p Hp) as [Ha Hts].
    unfold read_decl, prec_line. rewrite app_assoc.
    rewrite (join_flat (fun t => b_id (sym_at g t)) (snd p) ([37] ++ assoc_text (fst p))).
    assert (Hsp : Forall spaceless (map (fun t => b_id (sym_at g t)) (snd p))).
    { apply Forall_forall. intros w Hw. apply in_map_iff in Hw as (t & <- & Ht). apply name_ok_spaceless, tok_id_ok. auto. }
    assert (Ea : fst p = 0 \/ fst p = 1 \/ fst p = 2) by lia.
    destruct (map (fun t => b_id (sym_at g t)) (snd p)) as [|i ids] eqn:Eids.
    - destruct Ea as [-> | [-> | ->]]; reflexivity.
    - destruct Ea as [-> | [-> | ->]].
      + change ([37] ++ assoc_text 0) with s_pct_left. rewrite join_cons2.
        change (starts_with s_start (s_pct_left ++ [32] ++ join [32] (i :: ids))) with false.
        change (starts_with s_token (s_pct_left ++ [32] ++ join [32] (i :: ids))) with false.
        rewrite starts_with_app. cbv iota. cbn [orb]. rewrite <- join_cons2.
        rewrite words_join; [reflexivity|]. constructor; [sp_lit | exact Hsp].
      + change ([37] ++ assoc_text 1) with s_pct_right. rewrite join_cons2.
        change (starts_with s_start (s_pct_right ++ [32] ++ join [32] (i :: ids))) with false.
        change (starts_with s_token (s_pct_right ++ [32] ++ join [32] (i :: ids))) with false.
        change (starts_with s_pct_left (s_pct_right ++ [32] ++ join [32] (i :: ids))) with false.
        rewrite starts_with_app. cbv iota. cbn [orb]. rewrite <- join_cons2.
        rewrite words_join; [reflexivity|]. constructor; [sp_lit | exact Hsp].
      + change ([37] ++ assoc_text 2) with s_pct_nonassoc. rewrite join_cons2.
        change (starts_with s_start (s_pct_nonassoc ++ [32] ++ join [32] (i :: ids))) with false.
        change (starts_with s_token (s_pct_nonassoc ++ [32] ++ join [32] (i :: ids))) with false.
        change (starts_with s_pct_left (s_pct_nonassoc ++ [32] ++ join [32] (i :: ids))) with false.
        change (starts_with s_pct_right (s_pct_nonassoc ++ [32] ++ join [32] (i :: ids))) with false.
        rewrite starts_with_app. cbv iota. cbn [orb]. rewrite <- join_cons2.
        rewrite words_join; [reflexivity|]. constructor; [sp_lit | exact Hsp].
  Qed.

  Lemma decls_eta d : mkDecls (d_starts d) (d_precs d) (d_tokens d) = d.
  Proof. destruct d; reflexivity. Qed.

  Lemma fold_starts : forall ins d, (forall p, In p ins -> In p (bg_inputs g)) ->
    fold_left read_decl (map start_line ins) d =
    mkDecls (d_starts d ++ map (fun p => (b_name (sym_at g (bg_tokens g + fst p)), snd p)) ins) (d_precs d) (d_tokens d).
  Proof.
    induction ins as [|p ins IH]; intros d H; cbn [map fold_left]; [now rewrite app_nil_r, decls_eta|].
    rewrite read_start by (apply H; now left). rewrite IH by (intros q Hq; apply H; now right).
    cbn [d_starts d_precs d_tokens]. now rewrite <- app_assoc.
  Qed.

  Lemma fold_precs : forall ps d, (forall p, In p ps -> In p (bg_prec g)) ->
    fold_left read_decl (map prec_line ps) d =
    mkDecls (d_starts d) (d_precs d ++ map (fun p => (assoc_text (fst p), map (fun t => b_id (sym_at g t)) (snd p))) ps) (d_tokens d).
  Proof.
    induction ps as [|p ps IH]; intros d H; cbn [map fold_left]; [now rewrite app_nil_r, decls_eta|].
    rewrite read_prec by (apply H; now left). rewrite IH by (intros q Hq; apply H; now right).
    cbn [d_starts d_precs d_tokens]. now rewrite <- app_assoc.
  Qed.

  Lemma fold_tokens : forall ts d, (forall t, In t ts -> 0 <= t < bg_tokens g) ->
    fold_left read_decl (map token_line ts) d =
    mkDecls (d_starts d) (d_precs d) (d_tokens d ++ map (fun t => b_id (sym_at g t)) ts).
  Proof.
    induction ts as [|t ts IH]; intros d H; cbn [map fold_left]; [now rewrite app_nil_r, decls_eta|].
    rewrite read_token by (apply H; now left). rewrite IH by (intros q Hq; apply H; now right).
    cbn [d_starts d_precs d_tokens]. now rewrite <- app_assoc.
  Qed.

  Lemma twp_range t : In t (tl (tokens_without_prec g)) -> 0 <= t < bg_tokens g.
  Proof.
    intro H. apply in_tl in H. unfold tokens_without_prec in H. apply filter_In in H as [H _].
    apply in_nat_range in H. destruct (wf_parts g Hwf) as (Ht & _). lia.
  Qed.

  Lemma read_head :
    read_decls ([37;123] :: head_lines) =
    mkDecls (map (fun p => (b_name (sym_at g (bg_tokens g + fst p)), snd p)) (bg_inputs g))
            (map (fun p => (assoc_text (fst p), map (fun t => b_id (sym_at g t)) (snd p))) (bg_prec g))
            (map (fun t => b_id (sym_at g t)) (tl (tokens_without_prec g))).
  Proof.
    unfold read_decls, head_lines. cbn [fold_left app].
    change (read_decl (read_decl (read_decl (mkDecls [] [] []) [37;123]) [37;125]) []) with (mkDecls [] [] []).
    rewrite fold_left_app, fold_starts by auto. cbn [fold_left app d_starts d_precs d_tokens].
    match goal with |- context [read_decl ?d []] => change (read_decl d []) with d end.
    rewrite fold_left_app, fold_precs by auto. cbn [app d_starts d_precs d_tokens].
    rewrite fold_left_app, fold_tokens by exact twp_range. cbn [fold_left app d_starts d_precs d_tokens].
    match goal with |- context [read_decl ?d []] => change (read_decl d []) with d end.
    reflexivity.
  Qed.

  Lemma head_not_pp : Forall (fun l => bytes_eqb l s_pp = false) ([37;123] :: head_lines).
  Proof.
    constructor; [reflexivity|]. unfold head_lines.
    apply Forall_app; split; [constructor; [reflexivity | constructor; [reflexivity | constructor]]|].
    apply Forall_app; split; [apply Forall_forall; intros l Hl; apply in_map_iff in Hl as (p & <- & _); reflexivity|].
    apply Forall_app; split; [constructor; [reflexivity | constructor]|].
    apply Forall_app; split.
    { apply Forall_forall. intros l Hl. apply in_map_iff in Hl as (p & <- & Hp).
      destruct dw_parts as [_ Hpr]. destruct (Hpr p Hp) as [Ha _]. unfold prec_line.
      assert (Ea : fst p = 0 \/ fst p = 1 \/ fst p = 2) by lia. destruct Ea as [-> | [-> | ->]]; reflexivity. }
    apply Forall_app; split; [apply Forall_forall; intros l Hl; apply in_map_iff in Hl as (p & <- & _); reflexivity|].
    constructor; [reflexivity | constructor].
  Qed.

  Lemma head_no_nl : Forall (fun l => ~ In 10 l) head_lines.
  Proof.
    destruct dw_parts as [Hin Hpr]. unfold head_lines.
    apply Forall_app; split; [constructor; [cbn; intuition discriminate | constructor; [intros [] | constructor]]|].
    apply Forall_app; split.
    { apply Forall_forall. intros l Hl. apply in_map_iff in Hl as (p & <- & Hp). unfold start_line.
      intro K. apply in_app_or in K as [K|K]; [cbn in K; intuition discriminate|].
      apply in_app_or in K as [K|K].
      - revert K. apply ok_chars_no_nl. apply (name_ok_inv _ (nt_name_ok _ (Hin p Hp))).
      - destruct (snd p); cbn in K; intuition discriminate. }
    apply Forall_app; split; [constructor; [intros [] | constructor]|].
    apply Forall_app; split.
    { apply Forall_forall. intros l Hl. apply in_map_iff in Hl as (p & <- & Hp). unfold prec_line.
      destruct (Hpr p Hp) as [Ha Hts].
      intro K. apply in_app_or in K as [K|K]; [cbn in K; intuition discriminate|].
      apply in_app_or in K as [K|K].
      - assert (Ea : fst p = 0 \/ fst p = 1 \/ fst p = 2) by lia.
        destruct Ea as [E | [E | E]]; rewrite E in K; cbn in K; intuition discriminate.
      - apply in_flat_map in K as (t & Ht & K). apply in_app_or in K as [K|K]; [cbn in K; intuition discriminate|].
        revert K. apply ok_chars_no_nl. apply (name_ok_inv _ (tok_id_ok t (Hts t Ht))). }
    apply Forall_app; split.
    { apply Forall_forall. intros l Hl. apply in_map_iff in Hl as (t & <- & Ht). unfold token_line.
      intro K. apply in_app_or in K as [K|K]; [cbn in K; intuition discriminate|].
      revert K. apply ok_chars_no_nl. apply (name_ok_inv _ (tok_id_ok t (twp_range t Ht))). }
    constructor; [intros [] | constructor].
  Qed.

  Theorem read_file_exact :
    exists text, bison_text g = Some text /\ read_file g text = Some (expected_file g).
  Proof.
    exists (file_of_section g (unl RL)). split; [rewrite bison_text_section, section_is_lines; reflexivity|].
    rewrite file_lines. unfold read_file.
    rewrite split_on_unl; [| |cbn; intuition discriminate].
    2:{ apply Forall_app; split; [exact head_no_nl|]. apply Forall_app; split; [constructor; [cbn; intuition discriminate | constructor]|].
        apply Forall_app; split; [exact RL_no_nl|].
        repeat (constructor; [cbn; intuition discriminate|]). constructor. }
    change ([37;123] :: head_lines ++ [s_pp] ++ RL ++ [[]; s_pp; []; []])
      with (([37;123] :: head_lines) ++ s_pp :: (RL ++ [[]; s_pp; []; []])).
    rewrite break_pp_app by exact head_not_pp.
    change (RL ++ [[]; s_pp; []; []]) with (RL ++ [[]] ++ s_pp :: [[]; []]). rewrite app_assoc.
    rewrite break_pp_app by (apply Forall_app; split; [exact RL_not_pp | constructor; [reflexivity | constructor]]).
    rewrite read_head. cbn [d_starts d_precs d_tokens].
    destruct dw_parts as [Hin Hpr]. destruct (wf_parts g Hwf) as (Ht & _).
    (* start symbols *)
    rewrite map_map. rewrite (all_some_map _ (fun p => (bg_tokens g + fst p, snd p))).
    2:{ apply Forall_forall. intros p Hp. rewrite <- (ref_text_nt g) by (apply Hin; exact Hp).
        rewrite (sym_of_word_ref g Hwf) by (fold n; specialize (Hin p Hp); lia). reflexivity. }
    (* precedence lines *)
    rewrite map_map. rewrite (all_some_map _ (fun p => p)).
    2:{ apply Forall_forall. intros p Hp. destruct (Hpr p Hp) as [Ha Hts].
        assert (Ea : assoc_of_text (assoc_text (fst p)) = Some (fst p)).
        { assert (E : fst p = 0 \/ fst p = 1 \/ fst p = 2) by lia. destruct E as [-> | [-> | ->]]; reflexivity. }
        rewrite Ea. rewrite map_map. rewrite (all_some_map _ (fun t => t)).
        - rewrite map_id. destruct p; reflexivity.
        - apply Forall_forall. intros t Hin'. apply (tok_of_id_ref g Hwf). auto. }
    (* %token lines *)
    rewrite map_map. rewrite (all_some_map _ (fun t => t)).
    2:{ apply Forall_forall. intros t Hin'. apply (tok_of_id_ref g Hwf). now apply twp_range. }
    (* rules *)
    unfold read_rule_lines. rewrite fold_left_app, RL_read. cbn [fold_left app].
    change (read_line (Some (read_groups_result, None)) []) with (Some (read_groups_result, @None rgroup)).
    cbv beta iota. rewrite RL_interp. unfold expected_file. rewrite !map_id. f_equal. f_equal.
    apply map_ext. intros [nt e]. reflexivity.
  Qed.
End File.
