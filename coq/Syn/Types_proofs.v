(* Proofs about Syn/Types.v *)
From Coq Require Import List NArith ZArith Bool Arith Lia.
From TM Require Import Syn.Types.
Import ListNotations.
Local Open Scope nat_scope.

Lemma find_from_spec : forall kids sel from idx j,
  find_from kids sel from idx = Some j ->
  idx <= j /\ from <= j /\ exists t, nth_error kids (j - idx) = Some t /\ sel_has sel t = true.
Proof.
  induction kids as [|t r IH]; intros sel from idx j H; cbn [find_from] in H; [discriminate|].
  destruct ((from <=? idx) && sel_has sel t) eqn:E.
  - injection H as <-. apply andb_true_iff in E. destruct E as [E1 E2]. apply Nat.leb_le in E1.
    split; [lia|]. split; [lia|]. exists t. rewrite Nat.sub_diag. now split.
  - destruct (IH _ _ _ _ H) as (H1 & H2 & t' & H3 & H4). split; [lia|]. split; [lia|]. exists t'.
    split; [|exact H4]. replace (j - idx) with (S (j - S idx)) by lia. exact H3.
Qed.

Lemma all_from_spec : forall kids sel from idx j,
  In j (all_from kids sel from idx) ->
  idx <= j /\ from <= j /\ exists t, nth_error kids (j - idx) = Some t /\ sel_has sel t = true.
Proof.
  induction kids as [|t r IH]; intros sel from idx j H; cbn [all_from] in H; [contradiction|].
  apply in_app_or in H. destruct H as [H|H].
  - destruct ((from <=? idx) && sel_has sel t) eqn:E; [|contradiction]. destruct H as [<-|[]].
    apply andb_true_iff in E. destruct E as [E1 E2]. apply Nat.leb_le in E1.
    split; [lia|]. split; [lia|]. exists t. rewrite Nat.sub_diag. now split.
  - destruct (IH _ _ _ _ H) as (H1 & H2 & t' & H3 & H4). split; [lia|]. split; [lia|]. exists t'.
    split; [|exact H4]. replace (j - idx) with (S (j - S idx)) by lia. exact H3.
Qed.

Lemma step_one_spec : forall kids c sel j,
  step_one kids c sel = CKid j ->
  (match c with CKid i => i < j | _ => True end) /\ exists t, nth_error kids j = Some t /\ sel_has sel t = true.
Proof.
  intros kids c sel j H. destruct c as [| |i]; cbn [step_one] in H; [|discriminate|].
  - destruct (find_from kids sel 0 0) as [k|] eqn:E; [|discriminate]. injection H as <-.
    destruct (find_from_spec _ _ _ _ _ E) as (_ & _ & t & H3 & H4). rewrite Nat.sub_0_r in H3. split; [exact I|]. now exists t.
  - destruct (find_from kids sel (S i) 0) as [k|] eqn:E; [|discriminate]. injection H as <-.
    destruct (find_from_spec _ _ _ _ _ E) as (_ & H2 & t & H3 & H4). rewrite Nat.sub_0_r in H3. split; [lia|]. now exists t.
Qed.

Lemma step_all_spec : forall kids c sel j,
  In j (step_all kids c sel) ->
  (match c with CKid i => i < j | CNil => False | CParent => True end) /\
  exists t, nth_error kids j = Some t /\ sel_has sel t = true.
Proof.
  intros kids c sel j H. destruct c as [| |i]; cbn [step_all] in H; [|contradiction|].
  - destruct (all_from_spec _ _ _ _ _ H) as (_ & _ & t & H3 & H4). rewrite Nat.sub_0_r in H3. split; [exact I|]. now exists t.
  - destruct (all_from_spec _ _ _ _ _ H) as (_ & H2 & t & H3 & H4). rewrite Nat.sub_0_r in H3. split; [lia|]. now exists t.
Qed.

(* accessor_types: whatever an accessor returns is a child of the node whose type the declared selector accepts *)
Theorem accessor_types : forall cats fs i kids f j,
  nth_error fs i = Some f -> In j (returned (accessor cats fs i kids)) ->
  exists t, nth_error kids j = Some t /\ sel_has (f_sel f) t = true.
Proof.
  intros cats fs i kids f j Hf Hin. unfold accessor in Hin. rewrite Hf in Hin.
  destruct (f_list f).
  - match type of Hin with context [if ?c then _ else _] => destruct c end; [|contradiction].
    cbn [returned] in Hin. apply step_all_spec in Hin. destruct Hin as [_ Hin]. exact Hin.
  - destruct (step_one kids _ (f_sel f)) as [| |k] eqn:E.
    + destruct (assert_ok cats (f_assert f) None); contradiction.
    + destruct (assert_ok cats (f_assert f) None); contradiction.
    + destruct (assert_ok cats (f_assert f) (nth_error kids k)); [|contradiction].
      cbn [returned] in Hin. destruct Hin as [<-|[]]. rewrite Nat2Z.id. apply step_one_spec in E. destruct E as [_ E]. exact E.
Qed.

(* when an accessor panics it is the generated type assertion: on a returned child whose type the asserted
   category does not list, or on the nil node when the category is not implemented by NilNode *)
Theorem accessor_panics_only_in_assertion : forall cats fs i kids f,
  nth_error fs i = Some f -> accessor cats fs i kids = RPanic ->
  (exists t, assert_ok cats (f_assert f) t = false) /\ (0 < f_assert f)%Z.
Proof.
  intros cats fs i kids f Hf H. unfold accessor in H. rewrite Hf in H.
  assert (G : forall t, assert_ok cats (f_assert f) t = false -> (0 < f_assert f)%Z).
  { intros t E. unfold assert_ok in E. destruct (f_assert f <=? 0)%Z eqn:L; [discriminate|]. apply Z.leb_gt in L. exact L. }
  destruct (f_list f).
  - match type of H with context [forallb ?p ?l] => destruct (forallb p l) eqn:E end; [discriminate|].
    apply forallb_false_iff in E || idtac.
    assert (exists j, assert_ok cats (f_assert f) (nth_error kids j) = false) as (j & Hj).
    { clear - E. induction (step_all kids _ (f_sel f)) as [|x l IH]; cbn in E; [discriminate|].
      apply andb_false_iff in E. destruct E as [E|E]; [now exists x | now apply IH]. }
    split; [exists (nth_error kids j); exact Hj | eapply G; exact Hj].
  - destruct (step_one kids _ (f_sel f)) as [| |k].
    + destruct (assert_ok cats (f_assert f) None) eqn:E; [discriminate|]. split; [exists None; exact E | eapply G; exact E].
    + destruct (assert_ok cats (f_assert f) None) eqn:E; [discriminate|]. split; [exists None; exact E | eapply G; exact E].
    + destruct (assert_ok cats (f_assert f) (nth_error kids k)) eqn:E; [discriminate|]. split; [exists (nth_error kids k); exact E | eapply G; exact E].
Qed.

(* ---------- child sequences of an arrow body ---------- *)
Inductive produces : cexpr -> list N -> Prop :=
| P_empty : produces CEmpty []
| P_node : forall t, produces (CNode t) [t]
| P_seq : forall a b x y, produces a x -> produces b y -> produces (CSeq a b) (x ++ y)
| P_left : forall a b x, produces a x -> produces (CChoice a b) x
| P_right : forall a b x, produces b x -> produces (CChoice a b) x
| P_none : forall a, produces (COpt a) []
| P_some : forall a x, produces a x -> produces (COpt a) x
| P_nil : forall a, produces (CList a false) []
| P_one : forall a ne x, produces a x -> produces (CList a ne) x
| P_more : forall a ne x y, produces a x -> produces (CList a ne) y -> produces (CList a ne) (x ++ y).

Lemma child_seqs_complete : forall e s rep,
  produces e s -> list_free e = true -> In s (child_seqs rep e).
Proof.
  intros e s rep H. induction H; intro LF; cbn [list_free] in LF; cbn [child_seqs]; try discriminate.
  - now left.
  - now left.
  - apply andb_true_iff in LF. destruct LF as [L1 L2]. apply in_flat_map. exists x. split; [now apply IHproduces1|].
    apply in_map_iff. exists y. split; [reflexivity | now apply IHproduces2].
  - apply andb_true_iff in LF. destruct LF as [L1 L2]. apply in_or_app. left. now apply IHproduces.
  - apply andb_true_iff in LF. destruct LF as [L1 L2]. apply in_or_app. right. now apply IHproduces.
  - now left.
  - right. now apply IHproduces.
Qed.

(* the validator is sound for list-free bodies: once it accepts the inferred fields, the property holds for
   every child sequence the body can produce *)
Theorem check_type_sound : forall cats fs inj rep bodies,
  check_type cats fs inj rep bodies = true ->
  forall e, In e bodies -> list_free e = true ->
  forall kids, produces e kids -> node_ok cats fs inj kids = true.
Proof.
  intros cats fs inj rep bodies H e He LF kids P. unfold check_type in H.
  rewrite forallb_forall in H. specialize (H e He). rewrite forallb_forall in H. apply H.
  now apply child_seqs_complete.
Qed.

(* what node_ok = true says, clause by clause *)
Theorem node_ok_meaning : forall cats fs inj kids,
  node_ok cats fs inj kids = true ->
  (forall i, i < length fs -> accessor cats fs i kids <> RPanic) /\
  (forall j t, nth_error kids j = Some t -> t <> inj ->
     exists i, i < length fs /\ In j (returned (accessor cats fs i kids))).
Proof.
  intros cats fs inj kids H. unfold node_ok in H.
  apply andb_true_iff in H. destruct H as [H H4]. apply andb_true_iff in H. destruct H as [H H3].
  apply andb_true_iff in H. destruct H as [H1 H2]. split.
  - intros i Hi E. rewrite forallb_forall in H1. unfold accessors in H1.
    assert (In RPanic (map (fun i0 => accessor cats fs i0 kids) (seq 0 (length fs)))) as HI.
    { apply in_map_iff. exists i. split; [exact E | apply in_seq; lia]. }
    specialize (H1 RPanic HI). discriminate.
  - intros j t Hj Hne. rewrite forallb_forall in H4.
    assert (Hlt : j < length kids) by (apply nth_error_Some; congruence).
    specialize (H4 j). rewrite Hj in H4. assert (In j (seq 0 (length kids))) as HS by (apply in_seq; lia).
    specialize (H4 HS). apply orb_true_iff in H4. destruct H4 as [H4|H4].
    + apply N.eqb_eq in H4. contradiction.
    + apply existsb_exists in H4. destruct H4 as (r & Hr & Hx). unfold accessors in Hr. apply in_map_iff in Hr.
      destruct Hr as (i & <- & Hi). apply in_seq in Hi. exists i. split; [lia|].
      apply existsb_exists in Hx. destruct Hx as (j' & Hj' & Ej). apply Nat.eqb_eq in Ej. now subst j'.
Qed.

(* ---------- no accessor panics once NilNode implements the asserted category ---------- *)
(* what the generated code guarantees for a field with a type assertion to a category: the category exists,
   lists every node type of the field's (expanded) selector, and NilNode implements it (every category but the
   synthetic TokenSet, which no field can name) *)
Definition assert_covers (cats : list category) (f : field) : Prop :=
  (0 < f_assert f)%Z ->
  exists c, nth_error cats (Z.to_nat (f_assert f - 1)) = Some c /\ c_nil c = true /\
            forall t, sel_has (f_sel f) t = true -> sel_has (c_types c) t = true.

Lemma assert_ok_covered : forall cats f t,
  assert_covers cats f ->
  (t = None \/ exists ty, t = Some ty /\ sel_has (f_sel f) ty = true) ->
  assert_ok cats (f_assert f) t = true.
Proof.
  intros cats f t HC Ht. unfold assert_ok. destruct (f_assert f <=? 0)%Z eqn:L; [reflexivity|].
  apply Z.leb_gt in L. destruct (HC L) as (c & Hc & Hn & Hs). rewrite Hc.
  destruct Ht as [->|(ty & -> & Hty)]; [exact Hn | now apply Hs].
Qed.

Theorem accessor_never_panics : forall cats fs i kids f,
  nth_error fs i = Some f -> assert_covers cats f -> accessor cats fs i kids <> RPanic.
Proof.
  intros cats fs i kids f Hf HC. unfold accessor. rewrite Hf.
  destruct (f_list f).
  - match goal with |- context [forallb ?p ?l] => assert (E : forallb p l = true) end.
    { apply forallb_forall. intros j Hj. apply step_all_spec in Hj. destruct Hj as (_ & t & Hj & Hs).
      apply assert_ok_covered; [exact HC|]. right. now exists t. }
    rewrite E. discriminate.
  - destruct (step_one kids _ (f_sel f)) as [| |k] eqn:E.
    + rewrite (assert_ok_covered cats f None HC (or_introl eq_refl)). discriminate.
    + rewrite (assert_ok_covered cats f None HC (or_introl eq_refl)). discriminate.
    + apply step_one_spec in E. destruct E as (_ & t & Hk & Hs).
      rewrite (assert_ok_covered cats f (nth_error kids k) HC); [discriminate|]. right. now exists t.
Qed.
