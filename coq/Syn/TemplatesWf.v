(* Static well-formedness of the input of syntax.Instantiate (C14): a boolean over the model alone that implies the
   run-time side conditions [Templates.inst_checks_core] (Syn/Templates_wf_proofs.v).  Executable definitions
   only; evaluated by ocaml/p_c14.ml on every case. *)
From Coq Require Import List ZArith Bool Arith.
From TM Require Import Util.Ident Syn.Expr Syn.Templates.
Import ListNotations.
Local Open Scope Z_scope.

Definition mem_z (p : Z) (l : list Z) : bool := existsb (Z.eqb p) l.
Definition bool_val (v : bytes) : bool := bytes_eqb v s_true || bytes_eqb v s_false.
Definition nt_dummy : nonterm := mkNt [] [] EEmpty 0.

(* every parameter tested by a predicate is a parameter of the enclosing nonterminal *)
Fixpoint pred_scoped (P : list Z) (p : pred) : bool :=
  match p with
  | PEq i _ => mem_z i P
  | POr l | PAnd l => forallb (pred_scoped P) l
  | PNot q => pred_scoped P q
  end.

(* an argument is the literal true / false or is taken from a parameter of the enclosing nonterminal *)
Definition arg_ok (P : list Z) (a : arg) : bool :=
  match a_value a with [] => mem_z (a_take a) P | v => bool_val v end.

(* a reference to a nonterminal: in range, one argument per parameter of the target, in the target's order *)
Definition ref_ok (T : Z) (nts : list nonterm) (P : list Z) (s : Z) (args : list arg) : bool :=
  if T <=? s then
    (s - T <? Z.of_nat (length nts)) &&
    list_eqb Z.eqb (map a_param args) (nt_params (nth (Z.to_nat (s - T)) nts nt_dummy)) &&
    forallb (arg_ok P) args
  else true.

Fixpoint wf_texpr (T : Z) (nts : list nonterm) (P : list Z) (e : expr) : bool :=
  match e with
  | ERef s args => ref_ok T nts P s args
  | ECond p s => pred_scoped P p && wf_texpr T nts P s
  | EChoice l | ESeq l | ELookahead l => forallb (wf_texpr T nts P) l
  | EOpt s | EAssign _ s | EAppend _ s | EArrow _ _ s | EPrec _ s | ELaNot s => wf_texpr T nts P s
  | EList _ el sep => wf_texpr T nts P el && match sep with None => true | Some s => wf_texpr T nts P s end
  | EEmpty | ESet _ | EMarker _ | ECmd _ => true
  end.

(* a nonterminal named without arguments (inputs, set expressions) has no parameters *)
Definition plain_nt (nts : list nonterm) (nt : Z) : bool :=
  (0 <=? nt) && (nt <? Z.of_nat (length nts)) &&
  match nt_params (nth (Z.to_nat nt) nts nt_dummy) with [] => true | _ => false end.

Fixpoint tset_ok (T : Z) (nts : list nonterm) (t : tset) : bool :=
  match t with
  | TSym _ s => if T <=? s then plain_nt nts (s - T) else true
  | TUnion l | TInter l => forallb (tset_ok T nts) l
  | TCompl _ x => tset_ok T nts x
  | TNamed _ => true
  end.

(* well-formed templated model; the work list of Instantiate cannot be longer than the number of
   (nonterminal, boolean valuation) pairs, so [fuel] beyond that is enough *)
Definition wf_templates (fuel : nat) (m : model) : bool :=
  let T := nterms m in
  let nts := m_nonterms m in
  forallb (fun nt => wf_texpr T nts (nt_params nt) (nt_value nt)) nts &&
  forallb (fun i => plain_nt nts (in_nt i)) (m_inputs m) &&
  forallb (tset_ok T nts) (m_sets m) &&
  Nat.ltb (length (all_pairs nts)) fuel.
