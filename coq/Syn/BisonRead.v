(* A reader of the exported .y file (the line reader the C30 oracle uses), the boolean well-formedness
   predicate under which reading the model's rendering back is exact, and the rule section of Bison.bison_text
   as a function of its own.  Executable definitions only; the proofs are in Syn/BisonRead_proofs.v. *)
From Coq Require Import List ZArith Bool Arith.
From TM Require Import Util.Ident Syn.Expr Syn.Sets Syn.Bison.
Import ListNotations.
Local Open Scope Z_scope.

(* ---------- strings ---------- *)
(* String.split_on_char: empty fields are kept *)
Fixpoint split_on (sep : Z) (s : bytes) : list bytes :=
  match s with
  | [] => [[]]
  | c :: r =>
      if c =? sep then [] :: split_on sep r
      else match split_on sep r with
           | w :: ws => (c :: w) :: ws
           | [] => [[c]]
           end
  end.

Fixpoint starts_with (p s : bytes) : bool :=
  match p, s with
  | [], _ => true
  | a :: p', b :: s' => (a =? b) && starts_with p' s'
  | _ :: _, [] => false
  end.

Definition words (s : bytes) : list bytes := filter (fun w => negb (is_nil w)) (split_on 32 s).

(* l = name ++ " :" *)
Definition strip_header (l : bytes) : option bytes :=
  match rev l with
  | 58 :: 32 :: r => Some (rev r)
  | _ => None
  end.

Definition w_prec : bytes := [37; 112; 114; 101; 99].                 (* "%prec" *)
Definition w_noeoi : bytes := [110;111;45;101;111;105].               (* "no-eoi" *)
Definition s_pct_left : bytes := [37;108;101;102;116].                (* "%left" *)
Definition s_pct_right : bytes := [37;114;105;103;104;116].           (* "%right" *)
Definition s_pct_nonassoc : bytes := [37;110;111;110;97;115;115;111;99].  (* "%nonassoc" *)

(* ---------- the rule section, line by line ---------- *)
Definition rgroup := (bytes * list bytes)%type.        (* nonterminal name, rule bodies *)
Definition rstate := (list rgroup * option rgroup)%type.  (* closed groups, the open one *)

Definition read_line (st : option rstate) (l : bytes) : option rstate :=
  match st with
  | None => None
  | Some (done, cur) =>
      if is_nil l || starts_with [9;9;9] l || starts_with [47;47] l then st       (* blank, action code, comment *)
      else if bytes_eqb l [59] then                                                  (* ";" *)
        match cur with Some grp => Some (done ++ [grp], None) | None => st end
      else if starts_with [32;32] l || starts_with [124;32] l then                   (* "  body", "| body" *)
        match cur with Some (n, bs) => Some (done, Some (n, bs ++ [skipn 2 l])) | None => None end
      else match strip_header l with                                                 (* "name :" *)
           | Some n => if is_nil n then None else Some (done, Some (n, []))
           | None => None
           end
  end.

Definition read_rule_lines (lines : list bytes) : option (list rgroup) :=
  match fold_left read_line lines (Some ([], None)) with
  | Some (done, _) => Some done
  | None => None
  end.

(* ---------- names back to symbols ---------- *)
Definition all_syms (g : bgrammar) : list Z := map Z.of_nat (seq 0 (length (bg_syms g))).
Definition all_toks (g : bgrammar) : list Z := map Z.of_nat (seq 0 (Z.to_nat (bg_tokens g))).

(* terminals are written by ID, nonterminals by name; the first symbol with that text *)
Definition sym_of_word (g : bgrammar) (w : bytes) : option Z :=
  find (fun s => bytes_eqb (ref_text g s) w) (all_syms g).
Definition tok_of_id (g : bgrammar) (w : bytes) : option Z :=
  find (fun s => bytes_eqb (b_id (sym_at g s)) w) (all_toks g).

(* right-hand side symbols up to "%prec", then the precedence terminal; None = unknown word *)
Fixpoint body_syms (g : bgrammar) (ws : list bytes) : option (list Z * option Z) :=
  match ws with
  | [] => Some ([], None)
  | w :: rest =>
      if bytes_eqb w w_prec then
        match rest with
        | t :: _ => match tok_of_id g t with Some s => Some ([], Some s) | None => None end
        | [] => None
        end
      else match sym_of_word g w, body_syms g rest with
           | Some s, Some (l, p) => Some (s :: l, p)
           | _, _ => None
           end
  end.

(* state markers and %empty are not symbols *)
Definition keep_word (w : bytes) : bool := negb (starts_with s_mark_open w) && negb (bytes_eqb w s_empty).

Definition parse_body (g : bgrammar) (b : bytes) : option (list Z * option Z) :=
  body_syms g (filter keep_word (words b)).

Fixpoint all_some {A : Type} (l : list (option A)) : option (list A) :=
  match l with
  | [] => Some []
  | Some x :: r => match all_some r with Some xs => Some (x :: xs) | None => None end
  | None :: _ => None
  end.

Definition rrule := (list Z * option Z)%type.             (* right-hand side, %prec terminal *)

Definition interp_group (g : bgrammar) (grp : rgroup) : option (Z * list rrule) :=
  match sym_of_word g (fst grp), all_some (map (parse_body g) (snd grp)) with
  | Some x, Some rs => Some (x, rs)
  | _, _ => None
  end.

(* the rules of the rule section: per nonterminal, in the order of the file *)
Definition read_rules (g : bgrammar) (section : bytes) : option (list (Z * list rrule)) :=
  match read_rule_lines (split_on 10 section) with
  | Some groups => all_some (map (interp_group g) groups)
  | None => None
  end.

(* ---------- the declarations before the first %% ---------- *)
Record decls := mkDecls {
  d_starts : list (bytes * bool);          (* name, no-eoi *)
  d_precs : list (bytes * list bytes);     (* "left" / "right" / "nonassoc", terminal IDs *)
  d_tokens : list bytes
}.

Definition read_decl (d : decls) (l : bytes) : decls :=
  if starts_with s_start l then
    let ws := words l in
    (* "%start name" or "%start name // no-eoi" *)
    mkDecls (d_starts d ++ [(nth 1 ws [], existsb (bytes_eqb w_noeoi) (skipn 2 ws))]) (d_precs d) (d_tokens d)
  else if starts_with s_token l then
    mkDecls (d_starts d) (d_precs d) (d_tokens d ++ [nth 1 (words l) []])
  else if starts_with s_pct_left l || starts_with s_pct_right l || starts_with s_pct_nonassoc l then
    let ws := words l in
    mkDecls (d_starts d) (d_precs d ++ [(tl (hd [] ws), tl ws)]) (d_tokens d)
  else d.

Definition read_decls (lines : list bytes) : decls := fold_left read_decl lines (mkDecls [] [] []).

Definition assoc_of_text (w : bytes) : option Z :=
  if bytes_eqb w (tl s_pct_left) then Some 0
  else if bytes_eqb w (tl s_pct_right) then Some 1
  else if bytes_eqb w (tl s_pct_nonassoc) then Some 2
  else None.

(* lines up to the first "%%", and the lines after it *)
Fixpoint break_pp (lines : list bytes) : list bytes * list bytes :=
  match lines with
  | [] => ([], [])
  | l :: r => if bytes_eqb l s_pp then ([], r) else let '(a, b) := break_pp r in (l :: a, b)
  end.

Record yfile := mkY {
  y_starts : list (Z * bool);              (* start symbol, no-eoi *)
  y_precs : list (Z * list Z);             (* associativity, terminals *)
  y_tokens : list Z;                       (* %token lines *)
  y_groups : list (Z * list rrule)
}.

Definition read_file (g : bgrammar) (text : bytes) : option yfile :=
  let '(sec0, rest) := break_pp (split_on 10 text) in
  let '(sec1, _) := break_pp rest in
  let d := read_decls sec0 in
  match all_some (map (fun '(n, e) => match sym_of_word g n with Some s => Some (s, e) | None => None end) (d_starts d)),
        all_some (map (fun '(a, ts) => match assoc_of_text a, all_some (map (tok_of_id g) ts) with
                                       | Some a', Some ts' => Some (a', ts') | _, _ => None end) (d_precs d)),
        all_some (map (tok_of_id g) (d_tokens d)),
        match read_rule_lines sec1 with Some groups => all_some (map (interp_group g) groups) | None => None end with
  | Some ss, Some ps, Some ts, Some gs => Some (mkY ss ps ts gs)
  | _, _, _, _ => None
  end.

(* ---------- what the file is expected to say ---------- *)
(* the %prec of a rule *)
Fixpoint rule_prec (e : expr) : option Z :=
  match e with
  | EPrec s _ => Some s
  | EAssign _ x | EAppend _ x | EArrow _ _ x => rule_prec x
  | _ => None
  end.

Definition rule_spec (r : brule) : rrule := (accept (br_value r), rule_prec (br_value r)).

Definition expected_groups (g : bgrammar) : list (Z * list rrule) :=
  map (fun '(x, rs) => (x, map rule_spec rs)) (rules_by_nonterm (map (fun r => (br_lhs r, r)) (bg_rules g))).

Definition expected_file (g : bgrammar) : yfile :=
  mkY (map (fun '(nt, e) => (bg_tokens g + nt, e)) (bg_inputs g)) (bg_prec g) (tl (tokens_without_prec g))
      (expected_groups g).

(* ---------- well-formedness (boolean) ---------- *)
(* characters of symbol texts and marker names: no blank, tab, newline, '%', '/', ':', ';', '|' *)
Definition ok_char (c : Z) : bool :=
  negb ((c =? 32) || (c =? 9) || (c =? 10) || (c =? 37) || (c =? 47) || (c =? 58) || (c =? 59) || (c =? 124)).
Definition name_ok (w : bytes) : bool := negb (is_nil w) && forallb ok_char w.

Fixpoint distinct (l : list bytes) : bool :=
  match l with
  | [] => true
  | x :: r => negb (existsb (bytes_eqb x) r) && distinct r
  end.

(* a flat body without %prec that ExprString can print *)
Fixpoint prec_free (e : expr) : bool :=
  match e with
  | EEmpty | ERef _ _ | ECmd _ => true
  | EMarker n => forallb ok_char n
  | EAssign _ x | EAppend _ x | EArrow _ _ x => prec_free x
  | ESeq l => forallb prec_free l
  | _ => false
  end.

(* the body prints at least one word (ExprString puts " %prec X" behind it) *)
Fixpoint prints (e : expr) : bool :=
  match e with
  | ECmd _ => false
  | EAssign _ x | EAppend _ x | EArrow _ _ x => prints x
  | _ => true
  end.

(* a rule: a flat body, optionally inside one %prec (below Assign/Append/Arrow wrappers only) *)
Fixpoint rule_ok (e : expr) : bool :=
  match e with
  | EPrec _ x => prec_free x && prints x
  | EAssign _ x | EAppend _ x | EArrow _ _ x => rule_ok x
  | _ => prec_free e
  end.

Definition in_range (lo hi s : Z) : bool := (lo <=? s) && (s <? hi).

Definition rule_wf (g : bgrammar) (r : brule) : bool :=
  let n := Z.of_nat (length (bg_syms g)) in
  in_range (bg_tokens g) n (br_lhs r) &&
  match lookahead_of g (br_lhs r) with
  | Some l =>
      (* printed as %empty *)
      is_nil (accept (br_value r)) && (match rule_prec (br_value r) with None => true | Some _ => false end) &&
      forallb (fun p => in_range 0 n (fst p)) l
  | None =>
      rule_ok (br_value r) && forallb (in_range 0 n) (accept (br_value r)) &&
      match rule_prec (br_value r) with Some s => in_range 0 (bg_tokens g) s | None => true end
  end.

Definition bison_wf (g : bgrammar) : bool :=
  let n := Z.of_nat (length (bg_syms g)) in
  (0 <=? bg_tokens g) && (bg_tokens g <=? n) &&
  forallb (fun s => name_ok (ref_text g s)) (all_syms g) &&
  distinct (map (ref_text g) (all_syms g)) &&
  forallb (rule_wf g) (bg_rules g).

(* the declarations: start symbols are nonterminals, associativities 0..2, precedence terminals are tokens *)
Definition decls_wf (g : bgrammar) : bool :=
  let n := Z.of_nat (length (bg_syms g)) in
  forallb (fun p => in_range (bg_tokens g) n (bg_tokens g + fst p)) (bg_inputs g) &&
  forallb (fun p => in_range 0 3 (fst p) && forallb (in_range 0 (bg_tokens g)) (snd p)) (bg_prec g).

(* ---------- the rule section of bison_text ---------- *)
Definition rule_section (g : bgrammar) : option bytes :=
  let groups := rules_by_nonterm (map (fun r => (br_lhs r, r)) (bg_rules g)) in
  fold_left (fun acc '(x, rs) =>
      match acc with
      | None => None
      | Some txt =>
        let la := lookahead_of g x in
        let la_line := match la with
                       | Some l => s_la ++ join s_amp (map (fun '(s, neg) => (if neg : bool then [33] else []) ++ ref_text g s) l) ++ nl
                       | None => []
                       end in
        let rules_txt :=
          fold_left (fun acc '(i, r) =>
            match acc with
            | None => None
            | Some t =>
              let body := match la with
                          | Some _ => Some s_empty
                          | None => expr_string (ref_text g) (fun s => b_id (sym_at g s)) (br_value r)
                          end in
              match body with
              | Some b => Some (t ++ nl ++ (if Nat.eqb i 0 then [32;32] else [124;32]) ++ b)
              | None => None
              end
            end) (List.combine (seq 0 (length rs)) rs) (Some []) in
        match rules_txt with
        | Some rt => Some (txt ++ nl ++ nl ++ la_line ++ b_name (sym_at g x) ++ [32;58] ++ rt ++ nl ++ [59])
        | None => None
        end
      end) groups (Some []).

(* the file around the rule section *)
Definition file_of_section (g : bgrammar) (gt : bytes) : bytes :=
  let header := [37;123] ++ nl ++ [37;125] ++ nl in
  let starts := flat_map (fun '(nt, noeoi) =>
      nl ++ s_start ++ b_name (sym_at g (bg_tokens g + nt)) ++ (if noeoi : bool then s_noeoi else [])) (bg_inputs g) in
  let precs := flat_map (fun '(a, ts) =>
      nl ++ [37] ++ assoc_text a ++ flat_map (fun t => [32] ++ b_id (sym_at g t)) ts) (bg_prec g) in
  let toks := flat_map (fun t => nl ++ s_token ++ b_id (sym_at g t)) (tl (tokens_without_prec g)) in
  header ++ starts ++ nl ++ precs ++ toks ++ nl ++ nl ++ s_pp ++ gt ++ nl ++ nl ++ s_pp ++ nl ++ nl.
