From Coq Require Import List ZArith Bool Arith Lia.
From TM Require Import Gram.Cfg Syn.Expr Syn.Sets Syn.SetsSpec Syn.SetsSpec_proofs.
Import ListNotations.
Local Open Scope Z_scope.

(* ---------- tables built from arbitrary (key, values) contributions ---------- *)
Definition add_item (acc : table) (it : Z * list Z) : table := tadd acc (fst it) (snd it).

Lemma fold_item_grows its : forall acc x a, mem a (tget acc x) = true -> mem a (tget (fold_left add_item its acc) x) = true.
Proof.
  induction its as [|it its IH]; intros acc x a H; cbn [fold_left]; auto. apply IH. unfold add_item.
  rewrite tget_tadd. destruct (x =? fst it) eqn:E; auto. apply Z.eqb_eq in E. subst. now rewrite H.
Qed.

Lemma fold_item_contains its : forall acc it a, In it its -> mem a (snd it) = true ->
  mem a (tget (fold_left add_item its acc) (fst it)) = true.
Proof.
  induction its as [|i0 its IH]; intros acc it a Hin Ha; [destruct Hin|]. cbn [fold_left]. destruct Hin as [-> | Hin].
  - apply fold_item_grows. unfold add_item. rewrite tget_tadd, Z.eqb_refl, Ha. apply orb_true_r.
  - now apply IH.
Qed.

Lemma fold_item_origin its : forall acc x a, mem a (tget (fold_left add_item its acc) x) = true ->
  mem a (tget acc x) = true \/ exists it, In it its /\ fst it = x /\ mem a (snd it) = true.
Proof.
  induction its as [|i0 its IH]; intros acc x a H; cbn [fold_left] in H; [now left|].
  apply IH in H as [H | (it & Hin & Hx & Ha)].
  - unfold add_item in H. rewrite tget_tadd in H. destruct (x =? fst i0) eqn:E; [|now left].
    apply Z.eqb_eq in E. apply orb_true_iff in H as [H | H]; [left; now subst | right].
    exists i0. split; [now left|]. auto.
  - right. exists it. split; [now right|]. auto.
Qed.

(* ---------- any ---------- *)
Section Any.
  Variable T : Z.
  Variable rules : list prule.
  Hypothesis Hlhs : forall r, In r rules -> T <= fst r.

  Lemma any_contrib_spec t r a :
    mem a (any_contrib T t r) = true <-> exists s, In s (snd r) /\ mem a (sym_val T t s) = true.
  Proof.
    unfold any_contrib.
    assert (G : forall l acc, mem a (fold_left (fun acc s => union acc (sym_val T t s)) l acc) = true <->
                              mem a acc = true \/ exists s, In s l /\ mem a (sym_val T t s) = true).
    { induction l as [|s l IH]; intro acc; cbn [fold_left].
      - split; [now left | intros [H | (s & [] & _)]; exact H].
      - rewrite IH, mem_union, orb_true_iff. split.
        + intros [[H|H] | (s' & Hs & H)]; [now left | right; exists s; split; [now left | auto] | right; exists s'; split; [now right | auto]].
        + intros [H | (s' & [<- | Hs] & H)]; [left; now left | left; now right | right; eauto]. }
    rewrite G. split; [intros [H | H]; [discriminate | exact H] | now right].
  Qed.

  Definition any_sound (t : table) : Prop := forall x a, mem a (tget t x) = true -> any_in T rules x a.

  Lemma sym_val_sound_any t y a : any_sound t -> mem a (sym_val T t y) = true -> any_in T rules y a.
  Proof.
    intros Ht H. unfold sym_val in H. destruct ((0 <=? y) && (y <? T)) eqn:E.
    - apply andb_true_iff in E as [E1 E2]. apply Z.leb_le in E1. apply Z.ltb_lt in E2.
      unfold mem in H. cbn in H. rewrite orb_false_r in H. apply Z.eqb_eq in H. subst. apply an_term. lia.
    - now apply Ht.
  Qed.

  Lemma any_step_sound t : any_sound t -> any_sound (any_step T rules t).
  Proof.
    intros Ht x a H. unfold any_step in H. rewrite step_with_fold in H.
    apply fold_add_origin in H as [H | ([X rhs] & Hin & Hx & Ha)]; [now apply Ht|]. cbn [fst] in Hx. subst X.
    apply any_contrib_spec in Ha as (s & Hs & Ha). cbn [snd] in Hs. apply in_split in Hs as (pre & post & ->).
    eapply an_rule; [exact Hin | eapply sym_val_sound_any; eauto].
  Qed.

  Lemma iterate_any_sound k : forall t, any_sound t -> any_sound (iterate k (any_step T rules) t).
  Proof. induction k as [|k IH]; intros t Ht; cbn [iterate]; auto. apply IH. now apply any_step_sound. Qed.

  Theorem spec_any_exact t : spec_any T rules = Some t ->
    forall s a, mem a (sym_val T t s) = true <-> any_in T rules s a.
  Proof.
    unfold spec_any, fix_table. set (t0 := iterate _ _ _). destruct (table_eqb _ t0) eqn:E; [|discriminate].
    intro H. injection H as <-. apply table_eqb_eq in E.
    assert (Hs : any_sound t0) by (apply iterate_any_sound; intros x a H; discriminate).
    intros s a. split; [now apply sym_val_sound_any|].
    induction 1 as [b Hb | X pre y post b Hin _ IH].
    - now apply sym_val_term.
    - rewrite (sym_val_nonterm T t0 X (Hlhs _ Hin)). rewrite <- E. unfold any_step. rewrite step_with_fold.
      apply (fold_add_contains (any_contrib T t0) rules t0 (X, pre ++ y :: post)); auto.
      apply any_contrib_spec. exists y. split; [cbn [snd]; apply in_or_app; right; now left | exact IH].
  Qed.
End Any.

(* ---------- follow and precede ---------- *)
Section Follow.
  Variable T : Z.
  Variable rules : list prule.
  Variable nl : list Z.
  Hypothesis Hnl : forall X, mem X nl = true <-> nullable_in rules X.
  Hypothesis Hlhs : forall r, In r rules -> T <= fst r.

  (* the contributions of one rule: for every occurrence of a symbol, what follows it *)
  Fixpoint contribs (ft t : table) (x : Z) (rhs : list Z) : list (Z * list Z) :=
    match rhs with
    | [] => []
    | s :: rest => (s, prefix_vals T nl ft rest) :: (if all_null nl rest then [(s, tget t x)] else []) ++ contribs ft t x rest
    end.

  Lemma follow_contrib_fold ft t x rhs : forall acc, follow_contrib T nl ft t x rhs acc = fold_left add_item (contribs ft t x rhs) acc.
  Proof.
    induction rhs as [|s rest IH]; intro acc; cbn [follow_contrib contribs fold_left]; [reflexivity|].
    unfold add_item at 1. cbn [fst snd]. destruct (all_null nl rest); cbn [app fold_left]; rewrite IH; reflexivity.
  Qed.

  Lemma step_fold_gen ft t0 rs : forall acc,
    fold_left (fun acc '(x, rhs) => follow_contrib T nl ft t0 x rhs acc) rs acc =
    fold_left add_item (flat_map (fun r => contribs ft t0 (fst r) (snd r)) rs) acc.
  Proof.
    induction rs as [|[x rhs] rs IH]; intro acc; cbn [fold_left flat_map fst snd]; [reflexivity|].
    rewrite fold_left_app, <- follow_contrib_fold. apply IH.
  Qed.

  Lemma step_fold ft t : follow_step T nl ft rules t = fold_left add_item (flat_map (fun r => contribs ft t (fst r) (snd r)) rules) t.
  Proof. unfold follow_step. apply step_fold_gen. Qed.

  Lemma contribs_in ft t x rhs k l : In (k, l) (contribs ft t x rhs) ->
    exists pre rest, rhs = pre ++ k :: rest /\ (l = prefix_vals T nl ft rest \/ (all_null nl rest = true /\ l = tget t x)).
  Proof.
    induction rhs as [|s rest IH]; cbn [contribs]; [intros []|]. intros [H | H].
    - injection H as <- <-. exists [], rest. split; [reflexivity | now left].
    - apply in_app_or in H as [H | H].
      + destruct (all_null nl rest) eqn:En; [|destruct H]. destruct H as [H | []]. injection H as <- <-.
        exists [], rest. split; [reflexivity | right; auto].
      + apply IH in H as (pre & r2 & -> & Hl). exists (s :: pre), r2. split; [reflexivity | exact Hl].
  Qed.

  Lemma contribs_next ft t x pre s rest : In (s, prefix_vals T nl ft rest) (contribs ft t x (pre ++ s :: rest)).
  Proof. induction pre as [|p pre IH]; cbn [app contribs]; [now left | right; apply in_or_app; right; exact IH]. Qed.

  Lemma contribs_end ft t x pre s rest : all_null nl rest = true -> In (s, tget t x) (contribs ft t x (pre ++ s :: rest)).
  Proof.
    intro Hn. induction pre as [|p pre IH]; cbn [app contribs].
    - right. rewrite Hn. apply in_or_app. left. now left.
    - right. apply in_or_app. right. exact IH.
  Qed.

  Lemma all_null_spec l : all_null nl l = true <-> all_nullable rules l.
  Proof.
    unfold all_null, all_nullable. rewrite forallb_forall. split; intros H s Hs; apply Hnl; auto.
  Qed.

  Variable ft : table.
  Hypothesis Hft : forall s a, mem a (sym_val T ft s) = true <-> first_in T rules s a.

  Definition follow_sound (t : table) : Prop := forall x a, mem a (tget t x) = true -> follow_in T rules x a.

  Lemma follow_step_sound t : follow_sound t -> follow_sound (follow_step T nl ft rules t).
  Proof.
    intros Ht x a H. rewrite step_fold in H. apply fold_item_origin in H as [H | ([k l] & Hin & Hk & Ha)]; [now apply Ht|].
    cbn [fst snd] in *. subst k. apply in_flat_map in Hin as ([X rhs] & Hr & Hc). cbn [fst snd] in Hc.
    apply contribs_in in Hc as (pre & rest & -> & [-> | [Hn ->]]).
    - apply (prefix_vals_spec T nl) in Ha as (mid & y & post & -> & Hmid & Hy).
      eapply fo_next; [exact Hr | | apply Hft; exact Hy]. intros s Hs. apply Hnl. auto.
    - eapply fo_end; [exact Hr | now apply all_null_spec | now apply Ht].
  Qed.

  Lemma iterate_follow_sound k : forall t, follow_sound t -> follow_sound (iterate k (follow_step T nl ft rules) t).
  Proof. induction k as [|k IH]; intros t Ht; cbn [iterate]; auto. apply IH. now apply follow_step_sound. Qed.

  Theorem spec_follow_exact t : spec_follow T nl ft rules = Some t ->
    forall s a, mem a (tget t s) = true <-> follow_in T rules s a.
  Proof.
    unfold spec_follow, fix_table. set (t0 := iterate _ _ _). destruct (table_eqb _ t0) eqn:E; [|discriminate].
    intro H. injection H as <-. apply table_eqb_eq in E.
    assert (Hs : follow_sound t0) by (apply iterate_follow_sound; intros x a H; discriminate).
    intros s a. split; [apply Hs|].
    induction 1 as [X pre s mid y post a Hin Hmid Hy | X pre s post a Hin Hpost _ IH]; rewrite <- E, step_fold.
    - apply (fold_item_contains _ t0 (s, prefix_vals T nl ft (mid ++ y :: post))).
      + apply in_flat_map. exists (X, pre ++ s :: mid ++ y :: post). split; [exact Hin | apply contribs_next].
      + cbn [snd]. apply (prefix_vals_spec T nl). exists mid, y, post. repeat split; auto.
        * intros z Hz. apply Hnl. now apply Hmid.
        * now apply Hft.
    - apply (fold_item_contains _ t0 (s, tget t0 X)).
      + apply in_flat_map. exists (X, pre ++ s :: post). split; [exact Hin | apply contribs_end; now apply all_null_spec].
      + exact IH.
  Qed.
End Follow.

(* ---------- precede = follow of the reversed grammar ---------- *)
Definition rev_rules (rules : list prule) : list prule := map (fun r => (fst r, rev (snd r))) rules.

Lemma in_rev_rules rules X rhs : In (X, rhs) (rev_rules rules) <-> In (X, rev rhs) rules.
Proof.
  unfold rev_rules. rewrite in_map_iff. split.
  - intros ([Y r] & H & Hin). cbn in H. injection H as <- <-. now rewrite rev_involutive.
  - intro H. exists (X, rev rhs). cbn. now rewrite rev_involutive.
Qed.

Lemma rev_rules_invol rules : rev_rules (rev_rules rules) = rules.
Proof.
  unfold rev_rules. rewrite map_map. rewrite <- (map_id rules) at 2. apply map_ext. intros [x r]. cbn. now rewrite rev_involutive.
Qed.

Lemma nullable_rev1 rules X : nullable_in rules X -> nullable_in (rev_rules rules) X.
Proof.
  induction 1 as [X rhs Hin _ IH]. apply (nu_rule _ X (rev rhs)).
  - apply in_rev_rules. now rewrite rev_involutive.
  - intros s Hs. apply IH. now apply in_rev.
Qed.

Lemma nullable_rev rules X : nullable_in (rev_rules rules) X <-> nullable_in rules X.
Proof. split; [intro H; apply nullable_rev1 in H; now rewrite rev_rules_invol in H | apply nullable_rev1]. Qed.

Lemma all_nullable_rev rules l : all_nullable (rev_rules rules) (rev l) <-> all_nullable rules l.
Proof. unfold all_nullable. split; intros H s Hs; apply nullable_rev || apply (proj2 (nullable_rev rules s)); apply H; try (now apply in_rev); now apply -> in_rev. Qed.

Lemma rev_flip (pre : list Z) y post : rev (rev post ++ y :: rev pre) = pre ++ y :: post.
Proof. rewrite rev_app_distr. cbn [rev]. rewrite !rev_involutive, <- app_assoc. reflexivity. Qed.

Lemma last_first_rev1 T rules s a : last_in T rules s a -> first_in T (rev_rules rules) s a.
Proof.
  induction 1 as [b Hb | X pre y post b Hin Hpost _ IH]; [now apply fi_term|].
  apply (fi_rule T _ X (rev post) y (rev pre) b); auto.
  - apply in_rev_rules. now rewrite rev_flip.
  - now apply all_nullable_rev.
Qed.

Lemma first_last_rev1 T rules s a : first_in T rules s a -> last_in T (rev_rules rules) s a.
Proof.
  induction 1 as [b Hb | X pre y post b Hin Hpre _ IH]; [now apply la_term|].
  apply (la_rule T _ X (rev post) y (rev pre) b); auto.
  - apply in_rev_rules. now rewrite rev_flip.
  - now apply all_nullable_rev.
Qed.

Lemma first_rev T rules s a : first_in T (rev_rules rules) s a <-> last_in T rules s a.
Proof. split; [intro H; apply first_last_rev1 in H; now rewrite rev_rules_invol in H | apply last_first_rev1]. Qed.

Lemma rev_mid (pre : list Z) y mid s post : rev (pre ++ y :: mid ++ s :: post) = rev post ++ s :: rev mid ++ y :: rev pre.
Proof. rewrite rev_app_distr. cbn [rev]. rewrite rev_app_distr. cbn [rev]. now rewrite <- !app_assoc. Qed.

Lemma precede_follow_rev1 T rules s a : precede_in T rules s a -> follow_in T (rev_rules rules) s a.
Proof.
  induction 1 as [X pre y mid s post a Hin Hmid Hy | X pre s post a Hin Hpre _ IH].
  - apply (fo_next T _ X (rev post) s (rev mid) y (rev pre) a).
    + apply in_rev_rules. rewrite <- rev_mid, rev_involutive. exact Hin.
    + now apply all_nullable_rev.
    + now apply first_rev.
  - apply (fo_end T _ X (rev post) s (rev pre) a); auto.
    + apply in_rev_rules. now rewrite rev_flip.
    + now apply all_nullable_rev.
Qed.

Lemma follow_precede_rev1 T rules s a : follow_in T rules s a -> precede_in T (rev_rules rules) s a.
Proof.
  induction 1 as [X pre s mid y post a Hin Hmid Hy | X pre s post a Hin Hpost _ IH].
  - apply (pr_prev T _ X (rev post) y (rev mid) s (rev pre) a).
    + apply in_rev_rules. rewrite <- rev_mid, rev_involutive. exact Hin.
    + now apply all_nullable_rev.
    + apply last_first_rev1 in Hy || idtac. apply (proj1 (first_rev T (rev_rules rules) y a)). now rewrite rev_rules_invol.
  - apply (pr_start T _ X (rev post) s (rev pre) a); auto.
    + apply in_rev_rules. now rewrite rev_flip.
    + now apply all_nullable_rev.
Qed.

Lemma follow_rev T rules s a : follow_in T (rev_rules rules) s a <-> precede_in T rules s a.
Proof. split; [intro H; apply follow_precede_rev1 in H; now rewrite rev_rules_invol in H | apply precede_follow_rev1]. Qed.

Lemma precede_is_follow_rev T nl lt rules : spec_precede T nl lt rules = spec_follow T nl lt (rev_rules rules).
Proof.
  unfold spec_precede, spec_follow, rev_rules. rewrite map_length.
  assert (G : forall t, precede_step T nl lt rules t = follow_step T nl lt (map (fun r => (fst r, rev (snd r))) rules) t).
  { intro t. unfold precede_step, follow_step. generalize t at 2 4. induction rules as [|[x rhs] rs IH]; intro acc; cbn [fold_left map fst snd]; auto. }
  unfold fix_table.
  assert (Hit : forall k t, iterate k (precede_step T nl lt rules) t = iterate k (follow_step T nl lt (map (fun r => (fst r, rev (snd r))) rules)) t).
  { induction k as [|k IH]; intro t; cbn [iterate]; auto. rewrite G. apply IH. }
  rewrite Hit, G. reflexivity.
Qed.

Theorem spec_precede_exact T rules nl lt t :
  (forall X, mem X nl = true <-> nullable_in rules X) ->
  (forall r, In r rules -> T <= fst r) ->
  (forall s a, mem a (sym_val T lt s) = true <-> last_in T rules s a) ->
  spec_precede T nl lt rules = Some t ->
  forall s a, mem a (tget t s) = true <-> precede_in T rules s a.
Proof.
  intros Hnl Hlhs Hlt Hs s a. rewrite precede_is_follow_rev in Hs. rewrite <- follow_rev.
  assert (HnlR : forall X, mem X nl = true <-> nullable_in (rev_rules rules) X).
  { intro X. rewrite Hnl. symmetry. apply nullable_rev. }
  assert (HftR : forall s0 a0, mem a0 (sym_val T lt s0) = true <-> first_in T (rev_rules rules) s0 a0).
  { intros s0 a0. rewrite Hlt. symmetry. apply first_rev. }
  exact (spec_follow_exact T (rev_rules rules) nl HnlR lt HftR t Hs s a).
Qed.
