(* Proofs about Syn/Bison.v: RulesByNonterm is a partition that keeps the order; the words of an exported
   rule are the right-hand side symbols. *)
From Coq Require Import List ZArith Bool Arith Lia.
From TM Require Import Util.Ident Syn.Expr Syn.Expand_proofs Syn.Sets Syn.Bison.
Import ListNotations.
Local Open Scope Z_scope.

Section Group.
  Context {A : Type}.

  Fixpoint glookup (x : Z) (groups : list (Z * list A)) : list A :=
    match groups with [] => [] | (y, rs) :: rest => if y =? x then rs else glookup x rest end.

  Definition has_key (x : Z) (groups : list (Z * list A)) : bool := existsb (fun g => fst g =? x) groups.

  Lemma glookup_add x lhs (r : A) groups :
    glookup x (add_to_group lhs r groups) = if x =? lhs then glookup x groups ++ [r] else glookup x groups.
  Proof.
    induction groups as [|[y rs] rest IH]; cbn [add_to_group glookup].
    - rewrite (Z.eqb_sym lhs x). destruct (x =? lhs); reflexivity.
    - destruct (Z.eqb_spec y lhs) as [->|N]; cbn [glookup].
      + destruct (Z.eqb_spec lhs x) as [->|N2]; [now rewrite Z.eqb_refl | destruct (Z.eqb_spec x lhs); [congruence | reflexivity]].
      + destruct (Z.eqb_spec y x) as [->|N2]; [destruct (Z.eqb_spec x lhs); [congruence | reflexivity] | exact IH].
  Qed.

  Lemma keys_add lhs (r : A) groups :
    map fst (add_to_group lhs r groups) = if has_key lhs groups then map fst groups else map fst groups ++ [lhs].
  Proof.
    induction groups as [|[y rs] rest IH]; cbn [add_to_group map has_key existsb fst]; [reflexivity|].
    destruct (Z.eqb_spec y lhs) as [->|N]; cbn [map fst orb]; [reflexivity|].
    unfold has_key in IH. rewrite IH. destruct (existsb _ rest); reflexivity.
  Qed.

  (* left-hand sides in order of first appearance *)
  Definition first_occurrences (l : list Z) : list Z :=
    fold_left (fun acc x => if existsb (Z.eqb x) acc then acc else acc ++ [x]) l [].

  Lemma has_key_keys x (groups : list (Z * list A)) : has_key x groups = existsb (Z.eqb x) (map fst groups).
  Proof.
    unfold has_key. induction groups as [|[y rs] rest IH]; cbn; [reflexivity|]. rewrite IH, (Z.eqb_sym y x). reflexivity.
  Qed.

  Theorem rules_by_nonterm_lookup (rules : list (Z * A)) x :
    glookup x (rules_by_nonterm rules) = map snd (filter (fun r => fst r =? x) rules).
  Proof.
    unfold rules_by_nonterm.
    assert (G : forall g0, glookup x (fold_left (fun groups '(lhs, r) => add_to_group lhs r groups) rules g0) =
                           glookup x g0 ++ map snd (filter (fun r => fst r =? x) rules)).
    { induction rules as [|[lhs r] rest IH]; intro g0; cbn [fold_left filter map].
      - now rewrite app_nil_r.
      - rewrite IH, glookup_add. cbn [fst]. rewrite (Z.eqb_sym lhs x). destruct (x =? lhs); cbn [map snd]; [now rewrite <- app_assoc | reflexivity]. }
    rewrite G. reflexivity.
  Qed.

  Theorem rules_by_nonterm_keys (rules : list (Z * A)) :
    map fst (rules_by_nonterm rules) = first_occurrences (map fst rules).
  Proof.
    unfold rules_by_nonterm, first_occurrences.
    assert (G : forall (g0 : list (Z * list A)),
              map fst (fold_left (fun groups '(lhs, r) => add_to_group lhs r groups) rules g0) =
              fold_left (fun acc x => if existsb (Z.eqb x) acc then acc else acc ++ [x]) (map fst rules) (map fst g0)).
    { induction rules as [|[lhs r] rest IH]; intro g0; cbn [fold_left map fst]; [reflexivity|].
      rewrite IH, keys_add, has_key_keys. destruct (existsb _ (map fst g0)); reflexivity. }
    exact (G []).
  Qed.

  Lemma first_occurrences_nodup l : NoDup (first_occurrences l).
  Proof.
    unfold first_occurrences.
    assert (G : forall acc, NoDup acc -> NoDup (fold_left (fun acc x => if existsb (Z.eqb x) acc then acc else acc ++ [x]) l acc)).
    { induction l as [|x l IH]; intros acc Hn; cbn [fold_left]; auto. apply IH.
      destruct (existsb (Z.eqb x) acc) eqn:E; auto.
      assert (Hx : ~ In x acc).
      { intro Hin. assert (existsb (Z.eqb x) acc = true) by (apply existsb_exists; exists x; split; auto; apply Z.eqb_refl). congruence. }
      clear E. induction acc as [|a acc IHa]; cbn.
      - constructor; [intros [] | constructor].
      - inversion Hn; subst. constructor.
        + rewrite in_app_iff. intros [H|[H|[]]]; [auto | subst; apply Hx; now left].
        + apply IHa; auto. intro H. apply Hx. now right. }
    apply G. constructor.
  Qed.

  (* every rule is listed under its left-hand side *)
  Corollary rules_by_nonterm_complete (rules : list (Z * A)) lhs r :
    In (lhs, r) rules -> In r (glookup lhs (rules_by_nonterm rules)).
  Proof.
    intro H. rewrite rules_by_nonterm_lookup. apply in_map_iff. exists (lhs, r). split; auto.
    apply filter_In. split; auto. cbn. apply Z.eqb_refl.
  Qed.
End Group.

(* ---------- the words of an exported rule ---------- *)
Theorem expr_words_symbols : forall e, word_syms (expr_words e) = accept e.
Proof.
  induction e using expr_ind2; cbn [expr_words accept word_syms flat_map]; auto.
  - (* Sequence *)
    induction H as [|x l Hx Hl IH]; cbn [flat_map]; auto.
    unfold word_syms in *. rewrite flat_map_app, Hx, IH. reflexivity.
  - unfold word_syms in *. rewrite flat_map_app, IHe. cbn. now rewrite app_nil_r.
Qed.

(* ---------- ExprString at the level of characters ---------- *)
Definition spaceless (w : bytes) : Prop := w <> [] /\ ~ In 32 w.

Lemma join_cons2 sep a b r : join sep (a :: b :: r) = a ++ sep ++ join sep (b :: r).
Proof. reflexivity. Qed.

Lemma join_app sep ws1 ws2 : ws1 <> [] -> ws2 <> [] -> join sep (ws1 ++ ws2) = join sep ws1 ++ sep ++ join sep ws2.
Proof.
  induction ws1 as [|a ws1 IH]; intros H1 H2; [congruence|]. destruct ws1 as [|b ws1].
  - cbn [app]. destruct ws2 as [|c ws2]; [congruence|]. reflexivity.
  - cbn [app]. rewrite join_cons2. rewrite join_cons2. change (b :: ws1 ++ ws2) with ((b :: ws1) ++ ws2).
    rewrite IH by (auto; discriminate). now rewrite <- !app_assoc.
Qed.

Lemma join_nil_iff ws : Forall spaceless ws -> (join [32] ws = [] <-> ws = []).
Proof.
  intro H. split; [|now intros ->]. destruct ws as [|a [|b r]]; auto; intro E.
  - inversion H as [|? ? [Ha _] _]; subst. cbn in E. congruence.
  - inversion H as [|? ? [Ha _] _]; subst. rewrite join_cons2 in E. apply app_eq_nil in E as [E _]. congruence.
Qed.

Lemma join_space ws a b r : ws = a :: b :: r -> In 32 (join [32] ws).
Proof. intros ->. rewrite join_cons2. apply in_or_app. right. now left. Qed.

Lemma join_eq_word ws w : Forall spaceless ws -> ~ In 32 w -> w <> [] -> (join [32] ws = w <-> ws = [w]).
Proof.
  intros H Hw Hne. split; [|now intros ->]. destruct ws as [|a [|b r]]; intro E.
  - cbn in E. congruence.
  - cbn in E. now subst.
  - exfalso. apply Hw. rewrite <- E. eapply join_space; eauto.
Qed.

Lemma bytes_eqb_refl a : bytes_eqb a a = true.
Proof. induction a as [|x a IH]; cbn; auto. now rewrite Z.eqb_refl. Qed.

Lemma bytes_eqb_iff a b : bytes_eqb a b = true <-> a = b.
Proof.
  split; [|intros ->; apply bytes_eqb_refl]. revert b. induction a as [|x a IH]; intros [|y b] H; try discriminate; auto.
  cbn in H. apply andb_true_iff in H as [H1 H2]. apply Z.eqb_eq in H1. subst. f_equal. auto.
Qed.

Section Text.
  Variable sym_name : Z -> bytes.
  Variable sym_id : Z -> bytes.
  Hypothesis Hname : forall s, spaceless (sym_name s).
  Hypothesis Hid : forall s, spaceless (sym_id s).

  Definition s_prec_word : bytes := [37; 112; 114; 101; 99].   (* "%prec" *)

  Definition skip_words (w : list bytes) : bool :=
    match w with [] => true | [x] => bytes_eqb x s_empty | _ => false end.

  (* the words a reader of the rule text sees *)
  Fixpoint text_words (e : expr) : list bytes :=
    match e with
    | EEmpty => [s_empty]
    | EPrec s x => text_words x ++ [s_prec_word; sym_id s]
    | EAssign _ x | EAppend _ x | EArrow _ _ x => text_words x
    | ESeq l =>
        let ws := flat_map (fun x => let w := text_words x in if skip_words w then [] else w) l in
        match ws with [] => [s_empty] | _ => ws end
    | ERef s _ => [sym_name s]
    | EMarker n => [s_mark_open ++ n ++ s_mark_close]
    | _ => []
    end.

  (* rules the exporter can print: flat bodies; %prec only on a body that prints something;
     marker names without spaces *)
  Fixpoint exportable (e : expr) : Prop :=
    match e with
    | EEmpty | ERef _ _ | ECmd _ => True
    | EMarker n => ~ In 32 n
    | EPrec _ x => exportable x /\ text_words x <> []
    | EAssign _ x | EAppend _ x | EArrow _ _ x => exportable x
    | ESeq l => (fix all (l : list expr) : Prop := match l with [] => True | x :: r => exportable x /\ all r end) l
    | _ => False
    end.

  Lemma s_empty_spaceless : spaceless s_empty.
  Proof. split; [discriminate|]. cbn. intros [H|[H|[H|[H|[H|[H|[]]]]]]]; discriminate. Qed.

  Lemma skip_words_spec w : Forall spaceless w ->
    (skip_words w = true <-> (is_nil (join [32] w) || bytes_eqb (join [32] w) s_empty) = true).
  Proof.
    intro Hw. rewrite orb_true_iff. destruct w as [|a [|b r]]; cbn [skip_words].
    - cbn. tauto.
    - cbn [join]. split; [auto|]. intros [H|H]; auto. inversion Hw as [|? ? [Ha _] _]; subst. destruct a; [congruence | discriminate].
    - split; [discriminate|]. intros [H|H].
      + assert (E : join [32] (a :: b :: r) = []) by (destruct (join [32] (a :: b :: r)); [reflexivity | discriminate]).
        apply (join_nil_iff _ Hw) in E. discriminate.
      + apply bytes_eqb_iff in H. apply (join_eq_word _ s_empty Hw) in H; [discriminate | apply s_empty_spaceless | discriminate].
  Qed.

  Lemma expr_string_seq l :
    expr_string sym_name sym_id (ESeq l) =
    let r := fold_left (fun acc x =>
                   match acc, expr_string sym_name sym_id x with
                   | Some buf, Some inner =>
                       if is_nil inner || bytes_eqb inner s_empty then Some buf
                       else Some (if is_nil buf then inner else buf ++ [32] ++ inner)
                   | _, _ => None
                   end) l (Some []) in
    match r with
    | Some [] => Some s_empty
    | _ => r
    end.
  Proof. reflexivity. Qed.

  Theorem expr_string_text : forall e, exportable e ->
    expr_string sym_name sym_id e = Some (join [32] (text_words e)) /\ Forall spaceless (text_words e).
  Proof.
    induction e using expr_ind2; intro He; cbn [exportable] in He; try (exfalso; exact He);
      cbn [text_words]; first [rewrite expr_string_seq; cbv zeta | cbn [expr_string]].
    - split; [reflexivity | constructor; [apply s_empty_spaceless | constructor]].
    - (* Sequence *)
      assert (G : forall l, Forall (fun e => exportable e -> expr_string sym_name sym_id e = Some (join [32] (text_words e)) /\ Forall spaceless (text_words e)) l ->
                (fix all (l : list expr) : Prop := match l with [] => True | x :: r => exportable x /\ all r end) l ->
                forall W, Forall spaceless W ->
                  fold_left (fun acc x =>
                     match acc, expr_string sym_name sym_id x with
                     | Some buf, Some inner =>
                         if is_nil inner || bytes_eqb inner s_empty then Some buf
                         else Some (if is_nil buf then inner else buf ++ [32] ++ inner)
                     | _, _ => None
                     end) l (Some (join [32] W)) =
                  Some (join [32] (W ++ flat_map (fun x => let w := text_words x in if skip_words w then [] else w) l)) /\
                  Forall spaceless (W ++ flat_map (fun x => let w := text_words x in if skip_words w then [] else w) l)).
      { clear. intros l HF. induction HF as [|x l Hx Hl IH]; intros Hall W HW; cbn [fold_left flat_map].
        - rewrite app_nil_r. auto.
        - destruct Hall as [Hex Hall]. destruct (Hx Hex) as [Es Hs]. rewrite Es.
          destruct (skip_words (text_words x)) eqn:Ek.
          + rewrite (proj1 (skip_words_spec _ Hs) Ek). cbn [app]. apply IH; auto.
          + assert (Ek' : (is_nil (join [32] (text_words x)) || bytes_eqb (join [32] (text_words x)) s_empty) = false).
            { destruct (is_nil _ || bytes_eqb _ _) eqn:E; auto. apply (skip_words_spec _ Hs) in E. congruence. }
            rewrite Ek'.
            assert (Hne : text_words x <> []) by (intro E; rewrite E in Ek; discriminate).
            assert (Hj : (if is_nil (join [32] W) then join [32] (text_words x) else join [32] W ++ [32] ++ join [32] (text_words x))
                         = join [32] (W ++ text_words x)).
            { destruct W as [|a W]; [reflexivity|].
              replace (is_nil (join [32] (a :: W))) with false.
              - now rewrite join_app by (auto; discriminate).
              - symmetry. destruct (is_nil (join [32] (a :: W))) eqn:E; auto.
                assert (E2 : join [32] (a :: W) = []) by (destruct (join [32] (a :: W)); [reflexivity | discriminate]).
                apply (join_nil_iff _ HW) in E2. discriminate. }
            rewrite Hj. rewrite (app_assoc W (text_words x)). apply IH; auto. apply Forall_app. auto. }
      destruct (G l H He [] (Forall_nil _)) as [Ef Hf]. cbn [join] in Ef. rewrite app_nil_l in Ef, Hf.
      match goal with |- context [fold_left ?f l ?init] =>
        match type of Ef with _ = ?rhs => assert (Ef' : fold_left f l init = rhs) by exact Ef; rewrite Ef' end end.
      set (ws := flat_map _ l) in *. destruct ws as [|a r] eqn:Ew.
      + cbn. split; [reflexivity | constructor; [apply s_empty_spaceless | constructor]].
      + split; [|exact Hf].
        destruct (join [32] (a :: r)) eqn:Ej; [|reflexivity].
        apply (join_nil_iff _ Hf) in Ej. discriminate.
    - split; [reflexivity | constructor; [apply Hname | constructor]].
    - apply IHe; auto.
    - apply IHe; auto.
    - apply IHe; auto.
    - split; [reflexivity|]. constructor; [|constructor]. split; [discriminate|].
      intro Hin. apply in_app_or in Hin as [Hin | Hin]; [cbn in Hin; intuition discriminate|].
      apply in_app_or in Hin as [Hin | Hin]; [auto | cbn in Hin; intuition discriminate].
    - split; [reflexivity | constructor].
    - (* Prec *)
      destruct He as [He Hne]. destruct (IHe He) as [Es Hs]. rewrite Es. split.
      + f_equal. rewrite join_app by (auto; discriminate). cbn [join]. unfold s_prec, s_prec_word.
        cbn [app]. reflexivity.
      + apply Forall_app. split; auto. constructor; [|constructor; [apply Hid | constructor]].
        split; [discriminate|]. cbn. intuition discriminate.
  Qed.
End Text.

(* ---------- reading a rule text back: splitting on spaces ---------- *)
Fixpoint split_go (s : bytes) (cur : bytes) : list bytes :=
  match s with
  | [] => if is_nil cur then [] else [cur]
  | c :: r => if c =? 32 then (if is_nil cur then split_go r [] else cur :: split_go r [])
              else split_go r (cur ++ [c])
  end.
Definition read_back (s : bytes) : list bytes := split_go s [].

Lemma split_go_word w : ~ In 32 w -> forall rest cur, split_go (w ++ rest) cur = split_go rest (cur ++ w).
Proof.
  induction w as [|c w IH]; intros Hw rest cur; cbn [app split_go].
  - now rewrite app_nil_r.
  - destruct (Z.eqb_spec c 32) as [->|N]; [exfalso; apply Hw; now left|].
    rewrite IH by (intro H; apply Hw; now right). now rewrite <- app_assoc.
Qed.

Theorem read_back_join ws : Forall spaceless ws -> read_back (join [32] ws) = ws.
Proof.
  unfold read_back. induction ws as [|a ws IH]; intro H; [reflexivity|].
  inversion H as [|? ? [Ha Hsp] Hws]; subst. destruct ws as [|b ws].
  - cbn [join]. rewrite <- (app_nil_r a) at 1. rewrite split_go_word by auto. cbn [app split_go].
    destruct a; [congruence | reflexivity].
  - rewrite join_cons2. rewrite split_go_word by auto. cbn [app split_go]. rewrite Z.eqb_refl.
    destruct a; [congruence|]. cbn [is_nil]. f_equal. apply IH. exact Hws.
Qed.
