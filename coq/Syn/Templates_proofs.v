(* Proofs about Syn/Templates.v: predicate evaluation of the instantiator is the declarative evaluation,
   and doExpr preserves the template denotation for every expression kind. *)
From Coq Require Import List ZArith Bool Arith Lia.
From TM Require Import Util.Ident Gram.Cfg Syn.Expr Syn.Expand Syn.ExtLang Syn.Expand_proofs Syn.Templates.
Import ListNotations.
Local Open Scope Z_scope.

(* ---------- induction principle for predicates ---------- *)
Section PredInd.
  Variable P : pred -> Prop.
  Hypothesis Hor : forall l, Forall P l -> P (POr l).
  Hypothesis Hand : forall l, Forall P l -> P (PAnd l).
  Hypothesis Hnot : forall p, P p -> P (PNot p).
  Hypothesis Heq : forall i v, P (PEq i v).
  Fixpoint pred_ind2 (p : pred) : P p :=
    let fix all (l : list pred) : Forall P l :=
      match l with [] => Forall_nil P | x :: r => Forall_cons x (pred_ind2 x) (all r) end in
    match p with
    | POr l => Hor l (all l)
    | PAnd l => Hand l (all l)
    | PNot q => Hnot q (pred_ind2 q)
    | PEq i v => Heq i v
    end.
End PredInd.

(* instantiator.check = declarative evaluation, whenever no log.Fatal is reached *)
Theorem check_pred_eval e : forall p b, check_pred (Some e) p = (b, false) -> b = eval_pred e p.
Proof.
  induction p using pred_ind2; intros b Hc; cbn [check_pred eval_pred] in *.
  - revert b Hc. induction H as [|x l Hx Hl IH]; intros b Hc.
    + now injection Hc as <-.
    + cbn [existsb]. destruct (check_pred (Some e) x) as [bx fx] eqn:Ex. destruct fx; [discriminate|].
      rewrite <- (Hx bx eq_refl). destruct bx; [now injection Hc as <- | cbn; now apply IH].
  - revert b Hc. induction H as [|x l Hx Hl IH]; intros b Hc.
    + now injection Hc as <-.
    + cbn [forallb]. destruct (check_pred (Some e) x) as [bx fx] eqn:Ex. destruct fx; [discriminate|].
      rewrite <- (Hx bx eq_refl). destruct bx; [cbn; now apply IH | now injection Hc as <-].
  - destruct (check_pred (Some e) p) as [bp fp] eqn:Ep. injection Hc as <- ->. now rewrite <- (IHp bp eq_refl).
  - unfold resolve_arg in Hc. cbn [a_value a_take a_param] in Hc. destruct (env_get e i) as [x|]; [now injection Hc as <- | discriminate].
Qed.

(* no_fatal for predicates: every parameter bound => check never reaches the Fatal branch *)
Fixpoint pred_bound (e : env) (p : pred) : bool :=
  match p with
  | PEq i _ => match env_get e i with Some _ => true | None => false end
  | POr l | PAnd l => forallb (pred_bound e) l
  | PNot q => pred_bound e q
  end.

Theorem check_pred_no_fatal e : forall p, pred_bound e p = true -> snd (check_pred (Some e) p) = false.
Proof.
  induction p using pred_ind2; intro Hb; cbn [check_pred pred_bound] in *.
  - induction H as [|x l Hx Hl IH]; [reflexivity|]. cbn [forallb] in Hb. apply andb_true_iff in Hb as [H1 H2].
    specialize (Hx H1). destruct (check_pred (Some e) x) as [bx fx]. cbn in Hx. subst fx. destruct bx; [reflexivity | auto].
  - induction H as [|x l Hx Hl IH]; [reflexivity|]. cbn [forallb] in Hb. apply andb_true_iff in Hb as [H1 H2].
    specialize (Hx H1). destruct (check_pred (Some e) x) as [bx fx]. cbn in Hx. subst fx. destruct bx; [auto | reflexivity].
  - specialize (IHp Hb). destruct (check_pred (Some e) p) as [bp fp]. exact IHp.
  - unfold resolve_arg. cbn [a_value a_take a_param]. destruct (env_get e i); [reflexivity | discriminate].
Qed.

(* ---------- equality tests ---------- *)
Lemma bytes_eqb_true a : forall b, bytes_eqb a b = true -> a = b.
Proof.
  induction a as [|x a IH]; intros [|y b] H; try discriminate; auto.
  cbn in H. apply andb_true_iff in H as [H1 H2]. apply Z.eqb_eq in H1. subst. f_equal. auto.
Qed.

Lemma sig_eqb_true a : forall b, sig_eqb a b = true -> a = b.
Proof.
  induction a as [|[p v] a IH]; intros [|[q w] b] H; try discriminate; auto.
  cbn in H. apply andb_true_iff in H as [H H3]. apply andb_true_iff in H as [H1 H2].
  apply Z.eqb_eq in H1. apply bytes_eqb_true in H2. subst. f_equal. auto.
Qed.

Lemma find_inst_nth nt sg l : forall k0 k, find_inst nt sg l k0 = Some k ->
  (k0 <= k)%nat /\ nth_error l (k - k0) = Some (mkInst nt sg).
Proof.
  induction l as [|i l IH]; intros k0 k H; cbn [find_inst] in H; [discriminate|].
  destruct ((i_nt i =? nt) && sig_eqb (i_sig i) sg) eqn:E.
  - injection H as <-. rewrite Nat.sub_diag. apply andb_true_iff in E as [E1 E2]. apply Z.eqb_eq in E1. apply sig_eqb_true in E2.
    destruct i as [n s]. cbn in *. subst. auto.
  - apply IH in H as [Hle Hn]. split; [lia|]. replace (k - k0)%nat with (S (k - S k0)) by lia. exact Hn.
Qed.

(* ---------- doExpr preserves the template denotation ---------- *)
Section Main.
  Variable T : Z.
  Variable trho : Z -> env -> lang.
  Variable setden : Z -> Z -> Prop.
  Hypothesis HT : 0 <= T.

  (* the interpretation of the instantiated grammar: instance k means its template under its arguments *)
  Variable rho : Z -> lang.
  Notation den := (den T rho setden).
  Notation tden := (tden T trho setden).

  Definition consistent (st : ist) : Prop :=
    forall k i, nth_error (is_list st) k = Some i ->
    forall w, rho (T + Z.of_nat k) w <-> trho (T + i_nt i) (i_sig i) w.

  Definition prefix (st st' : ist) : Prop := exists more, is_list st' = is_list st ++ more.
  Definition fatal_mono (st st' : ist) : Prop := is_fatal st = true -> is_fatal st' = true.

  Lemma prefix_refl st : prefix st st. Proof. exists []. now rewrite app_nil_r. Qed.
  Lemma prefix_trans a b c : prefix a b -> prefix b c -> prefix a c.
  Proof. intros [m1 H1] [m2 H2]. exists (m1 ++ m2). now rewrite H2, H1, app_assoc. Qed.
  Lemma consistent_prefix st st' : prefix st st' -> consistent st' -> consistent st.
  Proof.
    intros [more Hm] Hc k i Hk. apply Hc. rewrite Hm, nth_error_app1; auto. apply nth_error_Some. congruence.
  Qed.
  Lemma not_fatal_back st st' : fatal_mono st st' -> is_fatal st' = false -> is_fatal st = false.
  Proof. unfold fatal_mono. destruct (is_fatal st); auto. intros H H2. rewrite H in H2; auto. Qed.

  Lemma set_ifatal_prefix st f : prefix st (set_ifatal st f). Proof. exists []. cbn. now rewrite app_nil_r. Qed.
  Lemma set_ifatal_mono st f : fatal_mono st (set_ifatal st f). Proof. intro H. cbn. now rewrite H. Qed.
  Lemma set_ifatal_false st f : is_fatal (set_ifatal st f) = false -> f = false /\ is_fatal st = false.
  Proof. cbn. intro H. apply orb_false_iff in H. tauto. Qed.

  Lemma resolve_sig ctx args : forall sg0 f0 sg f,
    fold_left (fun '(sg, fatal) a => match resolve_arg ctx a with Some bp => (sg ++ [bp], fatal) | None => (sg, true) end)
              args (sg0, f0) = (sg, f) ->
    (f0 = true -> f = true) /\
    (f = false -> sg = sg0 ++ flat_map (fun a => match resolve_arg ctx a with Some bp => [bp] | None => [] end) args).
  Proof.
    induction args as [|a args IH]; intros sg0 f0 sg f H; cbn [fold_left flat_map] in *.
    - injection H as <- <-. split; auto. intros _. now rewrite app_nil_r.
    - destruct (resolve_arg ctx a) as [bp|].
      + apply IH in H as [H1 H2]. split; auto. intro Hf. rewrite (H2 Hf), <- app_assoc. reflexivity.
      + apply IH in H as [H1 H2]. split; [auto|]. intro Hf. rewrite (H1 eq_refl) in Hf. discriminate.
  Qed.

  Lemma resolve_instance_spec st e nt args k st' : resolve_instance st (Some e) nt args = (k, st') ->
    prefix st st' /\ fatal_mono st st' /\
    (is_fatal st' = false -> nth_error (is_list st') k = Some (mkInst nt (bind_args e args))).
  Proof.
    unfold resolve_instance. destruct (fold_left _ args ([], is_fatal st)) as [sg f] eqn:Ef.
    apply resolve_sig in Ef as [Hm Hs]. cbn [app] in Hs.
    destruct (find_inst nt sg (is_list st) 0) as [j|] eqn:Ei; intro H; injection H as <- <-.
    - split; [exists []; cbn; now rewrite app_nil_r|]. split; [exact Hm|]. cbn [is_fatal is_list]. intro Hf.
      apply find_inst_nth in Ei as [_ Hn]. rewrite Nat.sub_0_r in Hn. rewrite Hn, (Hs Hf). reflexivity.
    - split; [eexists; cbn; reflexivity|]. split; [exact Hm|]. cbn [is_fatal is_list]. intro Hf.
      rewrite nth_error_app2 by lia. rewrite Nat.sub_diag. cbn. now rewrite (Hs Hf).
  Qed.

  Definition good (e : env) (st st' : ist) (x x' : expr) : Prop :=
    prefix st st' /\ fatal_mono st st' /\
    (consistent st' -> is_fatal st' = false -> forall w, den x' w <-> tden e x w).

  Lemma lang_cat_eps_drop (l : lang) (ls : list lang) w :
    (forall u, l u <-> u = []) -> (lang_cat (l :: ls) w <-> lang_cat ls w).
  Proof.
    intro Hl. cbn [lang_cat]. split.
    - intros (w1 & w2 & -> & H1 & H2). apply Hl in H1. subst. exact H2.
    - intro H. exists [], w. repeat split; auto. now apply Hl.
  Qed.

  Lemma den_empty_iff x w : is_empty_e x = true -> (den x w <-> w = []).
  Proof. destruct x; try discriminate. intros _. cbn. unfold lang_eps. tauto. Qed.

  Lemma lang_cat_cons_ext (l l' : lang) ls ls' :
    (forall u, l u <-> l' u) -> (forall u, lang_cat ls u <-> lang_cat ls' u) ->
    forall w, lang_cat (l :: ls) w <-> lang_cat (l' :: ls') w.
  Proof.
    intros H1 H2 w. cbn [lang_cat]. split; intros (w1 & w2 & -> & Ha & Hb); exists w1, w2; repeat split; auto;
      try (now apply H1); try (now apply H2).
  Qed.

  Definition elem_good (e : env) (x : expr) : Prop :=
    forall st x' st', do_expr T (Some e) st x = (x', st') -> good e st st' x x'.

  Definition elem_good2 (e : env) (x : expr) : Prop :=
    elem_good e x /\ match x with ECond _ inner => elem_good e inner | _ => True end.

  Definition enabled_lang (e : env) (a : expr) : lang := if alt_enabled e a then tden e a else (fun _ => False).

  Lemma subs_loop_good e kc ks : forall l0, Forall (elem_good2 e) l0 ->
    forall st r st',
      subs_loop (fun st x => do_expr T (Some e) st x) (check_pred (Some e)) kc ks l0 st = (r, st') ->
      prefix st st' /\ fatal_mono st st' /\
      (consistent st' -> is_fatal st' = false ->
         (kc = false -> forall w, lang_cat (map den r) w <-> lang_cat (map (tden e) l0) w) /\
         (kc = true -> ks = false ->
            (forall w, lang_any (map den r) w <-> lang_any (map (enabled_lang e) l0) w) /\
            (r = [] <-> existsb (alt_enabled e) l0 = false))).
  Proof.
    intros l0 HF. induction HF as [|s l0 [Hs Hs2] Hl IH]; intros st r st' Hgo.
    - injection Hgo as <- <-. split; [apply prefix_refl|]. split; [now intro|]. intros _ _. split.
      + intros _ w. cbn. tauto.
      + intros _ _. split; [intro w; cbn; tauto | cbn; tauto].
    - cbn [subs_loop] in Hgo.
      assert (Cases :
        (exists p inner fl, s = ECond p inner /\ kc = true /\ check_pred (Some e) p = (false, fl) /\
            subs_loop (fun st x => do_expr T (Some e) st x) (check_pred (Some e)) kc ks l0 (set_ifatal st fl) = (r, st')) \/
        (exists conv stx st1 a, prefix st stx /\ fatal_mono st stx /\ good e stx st1 a conv /\
            (is_fatal st1 = false -> forall w, tden e a w <-> tden e s w) /\
            (is_fatal st1 = false -> kc = true -> alt_enabled e s = true) /\
            (let '(r2, st2) := subs_loop (fun st x => do_expr T (Some e) st x) (check_pred (Some e)) kc ks l0 st1 in
             if ks && is_empty_e conv then (r2, st2) else (conv :: r2, st2)) = (r, st'))).
      { assert (Generic : forall (Hne : kc = true -> alt_enabled e s = true),
                  (let '(conv, st1) := do_expr T (Some e) st s in
                   let '(r2, st2) := subs_loop (fun st x => do_expr T (Some e) st x) (check_pred (Some e)) kc ks l0 st1 in
                   if ks && is_empty_e conv then (r2, st2) else (conv :: r2, st2)) = (r, st') ->
                  exists conv stx st1 a, prefix st stx /\ fatal_mono st stx /\ good e stx st1 a conv /\
                    (is_fatal st1 = false -> forall w, tden e a w <-> tden e s w) /\
                    (is_fatal st1 = false -> kc = true -> alt_enabled e s = true) /\
                    (let '(r2, st2) := subs_loop (fun st x => do_expr T (Some e) st x) (check_pred (Some e)) kc ks l0 st1 in
                     if ks && is_empty_e conv then (r2, st2) else (conv :: r2, st2)) = (r, st')).
        { intros Hne Hk. destruct (do_expr T (Some e) st s) as [conv st1] eqn:E1. exists conv, st, st1, s.
          split; [apply prefix_refl|]. split; [now intro|]. split; [now apply Hs|]. split; [tauto|]. split; [auto | exact Hk]. }
        destruct s; try (right; apply Generic; [reflexivity | exact Hgo]).
        destruct kc.
        - destruct (check_pred (Some e) p) as [b fl] eqn:Ec. destruct b.
          + right. destruct (do_expr T (Some e) (set_ifatal st fl) s) as [conv st1] eqn:E1. exists conv, (set_ifatal st fl), st1, s.
            pose proof (Hs2 _ _ _ E1) as Hg. destruct Hg as (Hp1 & Hf1 & Hd1).
            assert (Hev : is_fatal st1 = false -> eval_pred e p = true).
            { intro Hnf. apply (not_fatal_back _ _ Hf1) in Hnf. apply set_ifatal_false in Hnf as [-> _].
              symmetry. now apply check_pred_eval. }
            split; [apply set_ifatal_prefix|]. split; [apply set_ifatal_mono|]. split; [split; auto|].
            split; [intros Hnf w; cbn [Templates.tden]; now rewrite (Hev Hnf)|]. split; [intros Hnf _; cbn [alt_enabled]; auto | exact Hgo].
          + left. exists p, s, fl. auto.
        - right. apply Generic; [discriminate | exact Hgo]. }
      destruct Cases as [(p & inner & fl & -> & -> & Ec & Hrest) | (conv & stx & st1 & a & Hpx & Hfx & (Hp1 & Hf1 & Hd1) & Hta & Hen & Hk)].
      + (* disabled alternative *)
        destruct (IH _ _ _ Hrest) as (Hp2 & Hf2 & Hd2).
        split; [eapply prefix_trans; [apply set_ifatal_prefix | exact Hp2]|].
        split; [intro Hx; apply Hf2; now apply set_ifatal_mono|]. intros Hc Hnf.
        assert (Hfl : fl = false) by (apply (not_fatal_back _ _ Hf2) in Hnf; now apply set_ifatal_false in Hnf as [-> _]).
        subst fl. assert (Hev : eval_pred e p = false) by (symmetry; now apply check_pred_eval).
        destruct (Hd2 Hc Hnf) as (_ & Hch). split; [discriminate|]. intros _ Hks. destruct (Hch eq_refl Hks) as (Hl1 & Hl2).
        split.
        * intro w. cbn [map lang_any]. unfold enabled_lang at 1. cbn [alt_enabled]. rewrite Hev, (Hl1 w). tauto.
        * cbn [existsb alt_enabled]. rewrite Hev. exact Hl2.
      + destruct (subs_loop _ _ kc ks l0 st1) as [r2 st2] eqn:E2. destruct (IH _ _ _ E2) as (Hp2 & Hf2 & Hd2).
        assert (Hst : st2 = st') by (destruct (ks && is_empty_e conv); now injection Hk). subst st2.
        split; [eapply prefix_trans; [exact Hpx|]; eapply prefix_trans; eauto|].
        split; [unfold fatal_mono in *; intro; auto|]. intros Hc Hnf.
        assert (Hnf1 : is_fatal st1 = false) by (apply (not_fatal_back _ _ Hf2 Hnf)).
        assert (Hc1 : consistent st1) by (eapply consistent_prefix; eauto).
        assert (Hconv : forall w, den conv w <-> tden e s w) by (intro w; rewrite (Hd1 Hc1 Hnf1 w); now apply Hta).
        destruct (Hd2 Hc Hnf) as (Hseq & Hch). split.
        * intros Hkc w. specialize (Hseq Hkc). cbn [map]. destruct (ks && is_empty_e conv) eqn:Ek; injection Hk as <-.
          -- apply andb_true_iff in Ek as [_ Ek]. rewrite lang_cat_eps_drop; [apply Hseq|].
             intro u. rewrite <- Hconv. now apply den_empty_iff.
          -- cbn [map]. now apply lang_cat_cons_ext.
        * intros Hkc Hks. rewrite Hks in Hk. cbn in Hk. injection Hk as <-. destruct (Hch Hkc Hks) as (Hl1 & Hl2). split.
          -- intro w. cbn [map lang_any]. unfold enabled_lang at 1. rewrite (Hen Hnf1 Hkc), (Hconv w), (Hl1 w). tauto.
          -- cbn [existsb]. rewrite (Hen Hnf1 Hkc). cbn. split; discriminate.
  Qed.

  Lemma wrap_good e (mk : expr -> expr) x :
    (forall y w, den (mk y) w <-> den y w) -> (forall w, tden e (mk x) w <-> tden e x w) ->
    elem_good e x -> forall st x' st', (let '(c, st) := do_expr T (Some e) st x in (mk c, st)) = (x', st') -> good e st st' (mk x) x'.
  Proof.
    intros Hd Ht Hx st x' st' H. destruct (do_expr T (Some e) st x) as [c st1] eqn:E1. injection H as <- <-.
    destruct (Hx _ _ _ E1) as (Hp & Hf & Hg). split; auto. split; auto. intros Hc Hnf w. rewrite Hd, Ht. now apply Hg.
  Qed.

  Lemma all_good2 e : forall x, elem_good2 e x.
  Proof.
    induction x using expr_ind2; (split; [|try exact I]).
    - (* Empty *) intros st x' st' Hx. cbn [do_expr] in Hx. injection Hx as <- <-. split; [apply prefix_refl|]. split; [now intro|]. intros _ _ w. cbn. tauto.
    - (* Optional *)
      intros st x' st' Hx. cbn [do_expr] in Hx. destruct (do_expr T (Some e) st x) as [c st1] eqn:E1. destruct (proj1 IHx _ _ _ E1) as (Hp & Hf & Hd).
      destruct (is_empty_e c) eqn:Ec; injection Hx as <- <-; (split; [auto|]; split; [auto|]); intros Hc Hnf w; cbn [ExtLang.den Templates.tden].
      + rewrite <- (Hd Hc Hnf w), (den_empty_iff c w Ec). unfold lang_eps. tauto.
      + rewrite (Hd Hc Hnf w). tauto.
    - (* Choice *)
      intros st x' st' Hx. cbn [do_expr] in Hx. destruct l as [|a l].
      + injection Hx as <- <-. split; [apply prefix_refl|]. split; [now intro|]. intros _ _ w. cbn. tauto.
      + destruct (subs_loop _ _ true false (a :: l) st) as [r st1] eqn:E1.
        destruct (subs_loop_good e true false _ H _ _ _ E1) as (Hp & Hf & Hd).
        assert (Hst : st1 = st') by (destruct r as [|? [|? ?]]; now injection Hx). subst st1.
        split; auto. split; auto. intros Hc Hnf w. destruct (Hd Hc Hnf) as (_ & Hch). destruct (Hch eq_refl eq_refl) as (Hl1 & Hl2).
        change (tden e (EChoice (a :: l)) w) with
          ((if existsb (alt_enabled e) (a :: l) then lang_any (map (enabled_lang e) (a :: l)) else lang_eps) w).
        destruct r as [|y [|z r]]; injection Hx as <-.
        * rewrite (proj1 Hl2 eq_refl). cbn. unfold lang_eps. tauto.
        * destruct Hl2 as [_ Hl2b]. destruct (existsb (alt_enabled e) (a :: l)) eqn:Ee; [|specialize (Hl2b eq_refl); discriminate].
          rewrite <- (Hl1 w). cbn. tauto.
        * destruct Hl2 as [_ Hl2b]. destruct (existsb (alt_enabled e) (a :: l)) eqn:Ee; [|specialize (Hl2b eq_refl); discriminate].
          rewrite <- (Hl1 w). reflexivity.
    - (* Sequence *)
      intros st x' st' Hx. cbn [do_expr] in Hx. destruct l as [|a l].
      + injection Hx as <- <-. split; [apply prefix_refl|]. split; [now intro|]. intros _ _ w. cbn. tauto.
      + destruct (subs_loop _ _ false true (a :: l) st) as [r st1] eqn:E1.
        destruct (subs_loop_good e false true _ H _ _ _ E1) as (Hp & Hf & Hd). injection Hx as <- <-.
        split; auto. split; auto. intros Hc Hnf w. destruct (Hd Hc Hnf) as (Hseq & _). exact (Hseq eq_refl w).
    - (* Reference *)
      intros st x' st' Hx. cbn [do_expr] in Hx. destruct (T <=? s) eqn:Es.
      + apply Z.leb_le in Es. destruct (resolve_instance st (Some e) (s - T) a) as [k st1] eqn:E1. injection Hx as <- <-.
        destruct (resolve_instance_spec _ _ _ _ _ _ E1) as (Hp & Hf & Hn). split; auto. split; auto. intros Hc Hnf w.
        cbn [ExtLang.den Templates.tden]. replace (T + Z.of_nat k <? T) with false by (symmetry; apply Z.ltb_ge; lia).
        replace (s <? T) with false by (symmetry; apply Z.ltb_ge; lia).
        rewrite (Hc k _ (Hn Hnf) w). cbn [i_nt i_sig]. replace (T + (s - T)) with s by lia. tauto.
      + apply Z.leb_gt in Es. injection Hx as <- <-. split; [apply prefix_refl|]. split; [now intro|]. intros _ _ w.
        cbn [ExtLang.den Templates.tden]. replace (s <? T) with true by (symmetry; apply Z.ltb_lt; lia). tauto.
    - intros st x' st' Hx. cbn [do_expr] in Hx. apply (wrap_good e (EAssign n) x); auto; [intros; cbn; tauto | intros; cbn; tauto | apply IHx].
    - intros st x' st' Hx. cbn [do_expr] in Hx. apply (wrap_good e (EAppend n) x); auto; [intros; cbn; tauto | intros; cbn; tauto | apply IHx].
    - intros st x' st' Hx. cbn [do_expr] in Hx. apply (wrap_good e (EArrow n f) x); auto; [intros; cbn; tauto | intros; cbn; tauto | apply IHx].
    - intros st x' st' Hx. cbn [do_expr] in Hx. injection Hx as <- <-. split; [apply prefix_refl|]. split; [now intro|]. intros _ _ w. cbn. tauto.
    - intros st x' st' Hx. cbn [do_expr] in Hx. injection Hx as <- <-. split; [apply prefix_refl|]. split; [now intro|]. intros _ _ w. cbn. tauto.
    - intros st x' st' Hx. cbn [do_expr] in Hx. injection Hx as <- <-. split; [apply prefix_refl|]. split; [now intro|]. intros _ _ w. cbn. tauto.
    - (* Lookahead *)
      intros st x' st' Hx. cbn [do_expr] in Hx. destruct l as [|a l].
      + injection Hx as <- <-. split; [apply prefix_refl|]. split; [now intro|]. intros _ _ w. cbn. tauto.
      + destruct (subs_loop _ _ false false (a :: l) st) as [r st1] eqn:E1.
        destruct (subs_loop_good e false false _ H _ _ _ E1) as (Hp & Hf & Hd). injection Hx as <- <-.
        split; auto. split; auto. intros _ _ w. cbn. tauto.
    - (* LookaheadNot *)
      intros st x' st' Hx. cbn [do_expr] in Hx. destruct (do_expr T (Some e) st x) as [c st1] eqn:E1. injection Hx as <- <-.
      destruct (proj1 IHx _ _ _ E1) as (Hp & Hf & _). split; auto. split; auto. intros _ _ w. cbn. tauto.
    - (* List *)
      intros st x' st' Hx. cbn [do_expr] in Hx. destruct (do_expr T (Some e) st x) as [c st1] eqn:E1.
      destruct (proj1 IHx _ _ _ E1) as (Hp1 & Hf1 & Hd1). destruct s as [sp|].
      + destruct (do_expr T (Some e) st1 sp) as [d st2] eqn:E2. injection Hx as <- <-.
        destruct (proj1 (H sp eq_refl) _ _ _ E2) as (Hp2 & Hf2 & Hd2).
        split; [eapply prefix_trans; eauto|]. split; [unfold fatal_mono in *; intro; auto|]. intros Hc Hnf w.
        assert (Hnf1 : is_fatal st1 = false) by (apply (not_fatal_back _ _ Hf2 Hnf)).
        assert (Hc1 : consistent st1) by (eapply consistent_prefix; eauto).
        cbn [ExtLang.den Templates.tden].
        rewrite (plus_sep_ext (den c) (tden e x) (den d) (tden e sp) (Hd1 Hc1 Hnf1) (Hd2 Hc Hnf) w). tauto.
      + injection Hx as <- <-. split; auto. split; auto. intros Hc Hnf w. cbn [ExtLang.den Templates.tden].
        rewrite (plus_sep_ext (den c) (tden e x) lang_eps lang_eps (Hd1 Hc Hnf) (fun u => iff_refl _) w). tauto.
    - (* Conditional *)
      intros st x' st' Hx. cbn [do_expr] in Hx. destruct (check_pred (Some e) p) as [b fl] eqn:Ec. destruct b.
      + destruct (proj1 IHx _ _ _ Hx) as (Hp & Hf & Hd).
        split; [eapply prefix_trans; [apply set_ifatal_prefix | exact Hp]|].
        split; [intro Hy; apply Hf; now apply set_ifatal_mono|]. intros Hc Hnf w.
        assert (Hfl : fl = false) by (apply (not_fatal_back _ _ Hf) in Hnf; now apply set_ifatal_false in Hnf as [-> _]).
        subst fl. cbn [Templates.tden]. rewrite <- (check_pred_eval e p true Ec). now apply Hd.
      + injection Hx as <- <-. split; [apply set_ifatal_prefix|]. split; [apply set_ifatal_mono|]. intros _ Hnf w.
        apply set_ifatal_false in Hnf as [-> _]. cbn [Templates.tden ExtLang.den]. rewrite <- (check_pred_eval e p false Ec). tauto.
    - exact (proj1 IHx).
    - intros st x' st' Hx. cbn [do_expr] in Hx. apply (wrap_good e (EPrec s) x); auto; [intros; cbn; tauto | intros; cbn; tauto | apply IHx].
  Qed.

  (* instantiate_preserves, local form: the expression written for an instance denotes what its template
     denotes under the instance's arguments *)
  Theorem do_expr_good e : forall x st x' st', do_expr T (Some e) st x = (x', st') -> good e st st' x x'.
  Proof. intro x. exact (proj1 (all_good2 e x)). Qed.
End Main.

(* no_fatal, arguments: when every propagated argument names a parameter bound in the instance, resolveInstance
   never reaches log.Fatal("grammar inconsistency on TakeFrom") *)
Definition args_bound (e : env) (args : list arg) : bool :=
  forallb (fun a => match resolve_arg (Some e) a with Some _ => true | None => false end) args.

Lemma resolve_instance_no_fatal st e nt args :
  args_bound e args = true -> is_fatal (snd (resolve_instance st (Some e) nt args)) = is_fatal st.
Proof.
  unfold resolve_instance, args_bound. intro Hb.
  assert (G : forall sg0 f0, snd (fold_left (fun '(sg, fatal) a =>
                 match resolve_arg (Some e) a with Some bp => (sg ++ [bp], fatal) | None => (sg, true) end) args (sg0, f0)) = f0).
  { induction args as [|a args IH]; intros sg0 f0; cbn [fold_left]; [reflexivity|].
    cbn [forallb] in Hb. apply andb_true_iff in Hb as [H1 H2]. destruct (resolve_arg (Some e) a); [now apply IH | discriminate]. }
  specialize (G [] (is_fatal st)). destruct (fold_left _ args ([], is_fatal st)) as [sg f]. cbn [snd] in G. subst f.
  destruct (find_inst nt sg (is_list st) 0); reflexivity.
Qed.
