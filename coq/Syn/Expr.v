(* Model of syntax/syntax.go: the Expr tree (all kinds), TokenSet, Predicate, Arg, Model, Expr.Equal,
   and the name helpers of syntax/expand.go (ProvisionalName, appendSetName).  Strings are byte lists.
   Executable definitions only.  Expr.Pos / CmdArgs / Origin / Model are not part of the model (they do
   not influence Equal, names or the produced rules). *)
From Coq Require Import List ZArith Bool Arith.
From TM Require Import Util.Ident.
Import ListNotations.
Local Open Scope Z_scope.

Definition bytes := list Z.

Record arg := mkArg { a_param : Z; a_value : bytes; a_take : Z }.

(* PredicateOp: Or, And, Not, Equals *)
Inductive pred :=
| POr (l : list pred)
| PAnd (l : list pred)
| PNot (p : pred)
| PEq (param : Z) (value : bytes).

Inductive expr :=
| EEmpty
| EOpt (e : expr)
| EChoice (es : list expr)
| ESeq (es : list expr)
| ERef (sym : Z) (args : list arg)
| EAssign (name : bytes) (e : expr)
| EAppend (name : bytes) (e : expr)
| EArrow (name : bytes) (flags : list bytes) (e : expr)
| ESet (idx : Z)
| EMarker (name : bytes)
| ECmd (name : bytes)
| ELookahead (es : list expr)          (* ERef or ELaNot (ERef) *)
| ELaNot (e : expr)
| EList (flags : Z) (elem : expr) (sep : option expr)   (* flags: 1 OneOrMore, 2 RightRecursive *)
| ECond (p : pred) (e : expr)
| EPrec (sym : Z) (e : expr).

(* SetOp: 0 Any, 1 First, 2 Last, 3 Precede, 4 Follow; TNamed i = pointer to Model.Sets[i] *)
Inductive tset :=
| TSym (op : Z) (sym : Z)
| TUnion (l : list tset)
| TInter (l : list tset)
| TCompl (id : Z) (t : tset)      (* id: the harness' name of this complement (its Origin) *)
| TNamed (i : Z).

Record nonterm := mkNt { nt_name : bytes; nt_params : list Z; nt_value : expr; nt_group : Z }.
Record param := mkParam { p_name : bytes; p_default : bytes; p_la : bool }.
Record input := mkInput { in_nt : Z; in_noeoi : bool }.

Record model := mkModel {
  m_terms : list bytes;          (* terminal names *)
  m_params : list param;
  m_nonterms : list nonterm;
  m_inputs : list input;
  m_sets : list tset
}.

Definition nterms (m : model) : Z := Z.of_nat (length (m_terms m)).

(* ---- equality ---- *)
Fixpoint bytes_ltb (a b : bytes) : bool :=
  match a, b with
  | [], [] => false
  | [], _ :: _ => true
  | _ :: _, [] => false
  | x :: a', y :: b' => if x <? y then true else if y <? x then false else bytes_ltb a' b'
  end.

Definition arg_eqb (a b : arg) : bool :=
  (a_param a =? a_param b) && bytes_eqb (a_value a) (a_value b) && (a_take a =? a_take b).

Fixpoint list_eqb {A} (f : A -> A -> bool) (a b : list A) : bool :=
  match a, b with
  | [], [] => true
  | x :: a', y :: b' => f x y && list_eqb f a' b'
  | _, _ => false
  end.

Definition pred_op (p : pred) : Z := match p with POr _ => 0 | PAnd _ => 1 | PNot _ => 2 | PEq _ _ => 3 end.

Fixpoint pred_eqb (p q : pred) : bool :=
  match p, q with
  | POr a, POr b | PAnd a, PAnd b =>
      (fix go (a b : list pred) : bool :=
         match a, b with [], [] => true | x :: a', y :: b' => pred_eqb x y && go a' b' | _, _ => false end) a b
  | PNot a, PNot b => pred_eqb a b
  | PEq i v, PEq j w => (i =? j) && bytes_eqb v w
  | _, _ => false
  end.

(* Expr.Equal *)
Fixpoint expr_eqb (a b : expr) : bool :=
  match a, b with
  | EEmpty, EEmpty => true
  | ERef s x, ERef t y => list_eqb arg_eqb x y && (s =? t)
  | EOpt x, EOpt y | ELaNot x, ELaNot y => expr_eqb x y
  | EChoice xs, EChoice ys | ESeq xs, ESeq ys | ELookahead xs, ELookahead ys =>
      (fix go (xs ys : list expr) : bool :=
         match xs, ys with [], [] => true | x :: xs', y :: ys' => expr_eqb x y && go xs' ys' | _, _ => false end) xs ys
  | EList f x sx, EList g y sy =>
      (f =? g) && expr_eqb x y &&
      match sx, sy with None, None => true | Some p, Some q => expr_eqb p q | _, _ => false end
  | EAssign n x, EAssign k y | EAppend n x, EAppend k y => bytes_eqb n k && expr_eqb x y
  | EArrow n f x, EArrow k g y => bytes_eqb n k && list_eqb bytes_eqb f g && expr_eqb x y
  | EPrec s x, EPrec t y => (s =? t) && expr_eqb x y
  | EMarker n, EMarker k | ECmd n, ECmd k => bytes_eqb n k
  | ESet i, ESet j => i =? j
  | ECond p x, ECond q y => pred_eqb p q && expr_eqb x y
  | _, _ => false
  end.

(* all nonterminal references of e are below the bound B (used by the run-time checks of Expand) *)
(* all nonterminal references of e are below the bound B *)
Fixpoint bounded (B : Z) (e : expr) : bool :=
  match e with
  | ERef s _ => s <? B
  | EOpt s | EAssign _ s | EAppend _ s | EArrow _ _ s | EPrec _ s | ECond _ s => bounded B s
  | EChoice l | ESeq l => forallb (bounded B) l
  | EList _ el sep => bounded B el && match sep with None => true | Some s => bounded B s end
  | _ => true
  end.

(* ---- decimal ---- *)
Fixpoint itoa_go (fuel : nat) (n : Z) (acc : bytes) : bytes :=
  match fuel with
  | O => acc
  | S f => let acc := (48 + n mod 10) :: acc in if n / 10 =? 0 then acc else itoa_go f (n / 10) acc
  end.
Definition itoa (n : Z) : bytes := itoa_go 20 n [].

(* ---- names ---- *)
Definition nth_bytes (l : list bytes) (i : Z) : bytes := nth (Z.to_nat i) l [].

Section Names.
  Variable terms : list bytes.
  Variable ntname : Z -> bytes.         (* index in Model.Nonterms -> name *)
  Variable sets : list tset.

  Definition T : Z := Z.of_nat (length terms).

  (* Model.Ref(sym, nil) *)
  Definition ref_name (sym : Z) : bytes := if sym <? T then nth_bytes terms sym else ntname (sym - T).

  Definition s_first := [102;105;114;115;116;95].              (* "first_" *)
  Definition s_last := [108;97;115;116;95].                    (* "last_" *)
  Definition s_follow := [102;111;108;108;111;119;95].         (* "follow_" *)
  Definition s_precede := [112;114;101;99;101;100;101;95].     (* "precede_" *)
  Definition s_not := [110;111;116;95].                        (* "not_" *)
  Definition s_or := [95;111;114;95].                          (* "_or_" *)

  (* appendSetName; named sets are followed through the Sets table with fuel (a cyclic named set makes
     the Go code recurse forever; the model stops) *)
  Fixpoint set_name (fuel : nat) (t : tset) : bytes :=
    match fuel with
    | O => []
    | S f =>
      match t with
      | TSym op sym =>
          (if op =? 1 then s_first else if op =? 2 then s_last else if op =? 4 then s_follow
           else if op =? 3 then s_precede else []) ++ ref_name sym
      | TCompl _ s => s_not ++ set_name f s
      | TUnion l =>
          (fix go (l : list tset) (first : bool) : bytes :=
             match l with [] => [] | s :: r => (if first then [] else s_or) ++ set_name f s ++ go r false end) l true
      | TInter l =>
          (fix go (l : list tset) (first : bool) : bytes :=
             match l with [] => [] | s :: r => (if first then [] else [95]) ++ set_name f s ++ go r false end) l true
      | TNamed i => set_name f (nth (Z.to_nat i) sets (TUnion []))
      end
    end.

  Definition s_opt := [111;112;116].                                       (* "opt" *)
  Definition s_list := [95;108;105;115;116].                               (* "_list" *)
  Definition s_optlist := [95;111;112;116;108;105;115;116].                (* "_optlist" *)
  Definition s_separated := [95;115;101;112;97;114;97;116;101;100].        (* "_separated" *)
  Definition s_withsep := [95;119;105;116;104;115;101;112].                (* "_withsep" *)
  Definition s_setof := [115;101;116;111;102;95].                          (* "setof_" *)
  Definition s_lookahead := [108;111;111;107;97;104;101;97;100].           (* "lookahead" *)

  Definition s_not_la : bytes := [110;111;116].                            (* "not" *)

  Definition is_nil (b : bytes) : bool := match b with [] => true | _ => false end.

  Definition skip_in_name (e : expr) : bool :=
    match e with EEmpty | EMarker _ | ELookahead _ | ECmd _ => true | _ => false end.

  (* ProvisionalName *)
  Fixpoint prov_name (e : expr) : bytes :=
    match e with
    | ERef sym _ => if sym <? T then produce (nth_bytes terms sym) CamelCase else ntname (sym - T)
    | EOpt s => let r := prov_name s in if is_nil r then r else r ++ s_opt
    | EAssign _ s | EAppend _ s | EArrow _ _ s => prov_name s
    | EList fl el sep =>
        let r := prov_name el in
        if is_nil r then [] else
        let r := r ++ (if Z.odd fl then s_list else s_optlist) in
        match sep with
        | None => r
        | Some s => let sn := prov_name s in
                    if is_nil sn then r ++ s_withsep else r ++ [95] ++ sn ++ s_separated
        end
    | EChoice subs | ESeq subs =>
        (* exactly one candidate that is not Empty/StateMarker/Lookahead/Command *)
        (fix go (subs : list expr) (cand : option bytes) : bytes :=
           match subs with
           | [] => match cand with Some n => n | None => [] end
           | s :: rest =>
               if skip_in_name s then go rest cand
               else match cand with Some _ => [] | None => go rest (Some (prov_name s)) end
           end) subs None
    | ESet i => s_setof ++ set_name 64 (nth (Z.to_nat i) sets (TUnion []))
    | ELookahead subs =>
        s_lookahead ++
        flat_map (fun s => match s with
                           | ELaNot (ERef sym _) => [95] ++ s_not_la ++ ref_name sym
                           | ERef sym _ => [95] ++ ref_name sym
                           | _ => [95]
                           end) subs
    | _ => []
    end.
End Names.
