(* Proofs about the model of syntax/nullable.go: isNullable decides "derives the empty string" for the
   denotation of ExtLang.v. *)
From Coq Require Import List ZArith Bool Arith Lia.
From TM Require Import Gram.Cfg Syn.Expr Syn.Expand Syn.ExtLang Syn.Expand_proofs Syn.Sets.
Import ListNotations.
Local Open Scope Z_scope.

Lemma lang_cat_nil (ls : list lang) : lang_cat ls [] <-> Forall (fun l => l []) ls.
Proof.
  induction ls as [|l r IH]; cbn.
  - split; auto.
  - split.
    + intros (w1 & w2 & H & H1 & H2). symmetry in H. apply app_eq_nil in H as [-> ->]. constructor; [auto | now apply IH].
    + intro H. inversion H; subst. exists [], []. repeat split; auto. now apply IH.
Qed.

Lemma plus_sep_nil (E S : lang) : plus_sep E S [] <-> E [].
Proof.
  split.
  - intro H. remember [] as w eqn:Hw. induction H as [w H | w1 s w2 H1 IH Hs He]; subst; auto.
    apply app_eq_nil in Hw as [-> Hw]. apply app_eq_nil in Hw as [-> ->]. exact He.
  - apply ps_one.
Qed.

(* what isNullable is defined on: rule bodies as the compiler builds them *)
Fixpoint nullable_scope (e : expr) : bool :=
  match e with
  | EEmpty | ERef _ _ | EMarker _ | ECmd _ | ESet _ | ELookahead _ => true
  | EOpt s | EArrow _ _ s | EAssign _ s | EAppend _ s | EPrec _ s => nullable_scope s
  | EChoice l => match l with [] => false | _ => forallb nullable_scope l end
  | ESeq l => forallb nullable_scope l
  | EList _ el _ => nullable_scope el
  | ELaNot _ | ECond _ _ => false
  end.

Section Nullable.
  Variable T : Z.
  Variable rho : Z -> lang.
  Variable setden : Z -> Z -> Prop.
  Variable nl : list Z.
  (* nl is the set of symbols deriving the empty string; terminals are never in it *)
  Hypothesis Hnl : forall s, mem s nl = true <-> (T <= s /\ rho s []).

  Theorem is_nullable_exact : forall e, nullable_scope e = true ->
    (is_nullable nl e = true <-> den T rho setden e []).
  Proof.
    induction e using expr_ind2; intro Hs; cbn [nullable_scope] in Hs; try discriminate; cbn [is_nullable ExtLang.den].
    - unfold lang_eps. tauto.
    - split; auto.
    - destruct l as [|x l]; [discriminate|]. rewrite existsb_exists, lang_any_map. rewrite forallb_forall in Hs. rewrite Forall_forall in H.
      split; intros (y & Hy & Hv); exists y; split; auto; apply (H y Hy (Hs y Hy)); auto.
    - rewrite forallb_forall, lang_cat_nil, Forall_forall. rewrite forallb_forall in Hs. rewrite Forall_forall in H. split.
      + intros Hv l0 Hl. apply in_map_iff in Hl as (y & <- & Hy). apply (H y Hy (Hs y Hy)). auto.
      + intros Hv y Hy. apply (H y Hy (Hs y Hy)). apply Hv. now apply in_map.
    - rewrite Hnl. destruct (s <? T) eqn:E.
      + apply Z.ltb_lt in E. split; [intros [? _]; lia | discriminate].
      + apply Z.ltb_ge in E. tauto.
    - auto.
    - auto.
    - auto.
    - split; [discriminate | intros (a & Ha & _); discriminate].
    - unfold lang_eps. tauto.
    - unfold lang_eps. tauto.
    - unfold lang_eps. tauto.
    - destruct (Z.odd f) eqn:Eo.
      + rewrite (IHe Hs), plus_sep_nil. split; [auto | intros [[? _]|?]; [discriminate | auto]].
      + split; auto.
    - auto.
  Qed.
End Nullable.
